/- One pending `Derivation` per rule: in every heap `_queue_nt[S]` every symbol `P` occurs at most once, at every
   moment of every run — also while `query(S, ·)` is suspended in the middle of an element (the popped symbol
   is then "in limbo": absent from the heap until its successor is pushed) and through re-entrant queries of
   recursive grammars.  Every arithmetic, grammar, filter, fuel. -/
import PS.Model.Enum.ConstantDelay
import PS.Proofs.Enum.Heapq
namespace PS.CD
variable {α : Type}

def symsOf (h : List (Deriv α)) : List Sym := h.map (·.P)

/-- `L S` = the symbols of `S` whose element has been popped by a suspended frame and not yet re-pushed -/
def HInv (s : St α) (L : NT → List Sym) : Prop :=
  ∀ S h, AList.lookup S s.queueNt = some h → (symsOf h).Nodup ∧ ∀ P ∈ L S, P ∉ symsOf h

def addLimbo (L : NT → List Sym) (S : NT) (P : Sym) : NT → List Sym := fun S' => if S' = S then P :: L S' else L S'

theorem hinv_of_eq {s s' : St α} {L : NT → List Sym} (h1 : s'.queueNt = s.queueNt) (h : HInv s L) : HInv s' L := by
  unfold HInv; rw [h1]; exact h

theorem hinv_addDeleted {s : St α} {L : NT → List Sym} (p : Prog) (h : HInv s L) : HInv (s.addDeleted p) L := by
  unfold St.addDeleted; split
  · exact h
  · exact hinv_of_eq rfl h

theorem hinv_appendBank {s s' : St α} {L : NT → List Sym} {S : NT} {ci : Nat} {p : Prog} (h : HInv s L)
    (he : s.appendBank S ci p = some s') : HInv s' L := by
  unfold St.appendBank at he
  split at he
  · simp at he
  · split at he
    · simp at he
    · simp only [Option.some.injEq] at he; subst he; exact hinv_of_eq rfl h

theorem hinv_ensureBank {s s' : St α} {L : NT → List Sym} {S : NT} {ci : Nat} (h : HInv s L)
    (he : s.ensureBank S ci = some s') : HInv s' L := by
  unfold St.ensureBank at he
  split at he
  · simp at he
  · split at he
    · simp only [Option.some.injEq] at he; subst he; exact h
    · simp only [Option.some.injEq] at he; subst he; exact hinv_of_eq rfl h

theorem hinv_exitQuery {s s' : St α} {L : NT → List Sym} {fr : Frame α} (h : HInv s L) (he : exitQuery s fr = some s') :
    HInv s' L := by
  unfold exitQuery at he
  simp only at he
  split at he
  · simp at he
  · rename_i s1 hs1
    have h1 : HInv s1 L := by
      split at hs1
      · split at hs1
        · simp at hs1
        · simp only [Option.some.injEq] at hs1; subst hs1; exact hinv_of_eq rfl h
      · simp only [Option.some.injEq] at hs1; subst hs1; exact h
    split at he
    · simp only [Option.some.injEq] at he; subst he; exact hinv_of_eq rfl h1
    · simp only [Option.some.injEq] at he; subst he; exact h1
    · simp at he

theorem hinv_succLoop (A : Arith α) (b : Bool) (args : List NT) (c : α) (comb : List Nat) {L : NT → List Sym} :
    ∀ (rem i : Nat) (s s' : St α), succLoop A b args c comb rem i s = some s' → HInv s L → HInv s' L := by
  intro rem
  induction rem with
  | zero => intro i s s' h hs; simp only [succLoop, Option.some.injEq] at h; subst h; exact hs
  | succ rem ih =>
    intro i s s' h hs
    simp only [succLoop] at h
    split at h
    · split at h
      · simp at h
      · split at h
        · split at h
          · simp only [Option.some.injEq] at h; subst h; exact hs
          · exact ih _ _ _ h hs
        · split at h
          · split at h
            · simp at h
            · split at h
              · simp only [Option.some.injEq] at h; subst h; exact hinv_of_eq rfl hs
              · exact ih _ _ _ h (hinv_of_eq rfl hs)
          · simp at h
    · simp at h

/-- removing the popped element puts its symbol in limbo -/
theorem hinv_pop {s : St α} {L : NT → List Sym} {S : NT} {heap heap' : List (Deriv α)} {el : Deriv α} (lt : Deriv α → Deriv α → Bool)
    (h : HInv s L) (hl : AList.lookup S s.queueNt = some heap) (hp : Heapq.pop lt heap = some (el, heap')) :
    HInv (s.setHeap S heap') (addLimbo L S el.P) ∧ el.P ∉ L S := by
  have hperm := Heapq.pop_perm lt heap el heap' hp
  obtain ⟨hnd, hdis⟩ := h S heap hl
  have hperm' : (symsOf heap).Perm (el.P :: symsOf heap') := by
    have := hperm.map (fun (d : Deriv α) => d.P)
    simpa [symsOf] using this
  have hnd' := hperm'.nodup hnd
  rw [List.nodup_cons] at hnd'
  refine ⟨?_, ?_⟩
  · intro S2 h2 hl2
    simp only [St.setHeap] at hl2
    rw [AList.lookup_insert] at hl2
    split at hl2
    · rename_i he
      simp only [Option.some.injEq] at hl2; subst hl2; subst he
      refine ⟨hnd'.2, ?_⟩
      intro P hP
      simp only [addLimbo, if_true, List.mem_cons] at hP
      rcases hP with hP | hP
      · subst hP; exact hnd'.1
      · intro hc; exact hdis P hP (hperm'.mem_iff.mpr (List.mem_cons_of_mem _ hc))
    · rename_i hne
      obtain ⟨a, b⟩ := h S2 h2 hl2
      refine ⟨a, ?_⟩
      intro P hP
      simp only [addLimbo, hne, if_false] at hP
      exact b P hP
  · intro hc
    exact hdis el.P hc (hperm'.mem_iff.mpr List.mem_cons_self)

/-- pushing the successor takes the symbol out of limbo -/
theorem hinv_pushNext (A : Arith α) {s : St α} {L : NT → List Sym} {S : NT} {h2 : List (Deriv α)} {w : Int} {el : Deriv α}
    {cl : List α} {ns : Bool} (h : HInv s (addLimbo L S el.P)) (hnotL : el.P ∉ L S)
    (hl : AList.lookup S s.queueNt = some h2) :
    HInv (pushNext A s S h2 w el cl ns).1 L := by
  have weaken : HInv s L := by
    intro S2 hh hl2
    obtain ⟨a, b⟩ := h S2 hh hl2
    refine ⟨a, fun P hP => b P ?_⟩
    unfold addLimbo; split
    · exact List.mem_cons_of_mem _ hP
    · exact hP
  unfold pushNext
  split
  · rename_i c1 _
    intro S2 hh hl2
    simp only [St.setHeap] at hl2
    rw [AList.lookup_insert] at hl2
    split at hl2
    · rename_i he
      simp only [Option.some.injEq] at hl2; subst hl2; subst he
      obtain ⟨a, b⟩ := h S2 h2 hl
      have hperm : (symsOf (Heapq.push (ltD A) h2 ⟨A.add (A.ofInt w) c1, el.comb + 1, el.P⟩)).Perm (el.P :: symsOf h2) := by
        have := (Heapq.push_perm (ltD A) h2 ⟨A.add (A.ofInt w) c1, el.comb + 1, el.P⟩).map (fun (d : Deriv α) => d.P)
        simpa [symsOf] using this
      have hnot : el.P ∉ symsOf h2 := b el.P (by simp [addLimbo])
      refine ⟨hperm.nodup_iff.mpr (List.nodup_cons.mpr ⟨hnot, a⟩), ?_⟩
      intro P hP hc
      rcases List.mem_cons.mp (hperm.mem_iff.mp hc) with h3 | h3
      · subst h3; exact hnotL hP
      · exact (weaken S2 h2 hl).2 P hP h3
    · exact weaken S2 hh hl2
  · exact weaken

def Res.st : Res α → St α
  | .yield s _ _ => s
  | .done s => s

structure HOk (E : Env α) (f : Nat) : Prop where
  resume : ∀ s fr r L, resume E f s fr = some r → HInv s L → HInv r.st L
  drive : ∀ s fr s' L, drive E f s fr = some s' → HInv s L → HInv s' L
  queryList : ∀ s S ci s' ia r L, queryList E f s S ci = some (s', ia, r) → HInv s L → HInv s' L
  argLoop : ∀ s cs ss ia agf acc s' ia' agf' acc' L,
    argLoop E f s cs ss ia agf acc = some (s', ia', agf', acc') → HInv s L → HInv s' L
  combLoop : ∀ s args ci c combs ns hg s' ns' hg' L,
    combLoop E f s args ci c combs ns hg = some (s', ns', hg') → HInv s L → HInv s' L
  queryDer : ∀ s args ci s' l L, queryDer E f s args ci = some (s', l) → HInv s L → HInv s' L

theorem hok_resume (E : Env α) (f : Nat) (ih : HOk E f) : ∀ s fr r L, resume E (f + 1) s fr = some r → HInv s L →
    HInv r.st L := by
  intro s fr r L h hs
  rw [resume] at h
  split at h
  · simp only at h
    split at h
    · exact ih.resume _ _ _ _ h hs
    · split at h
      · exact ih.resume _ _ _ _ h (hinv_addDeleted _ hs)
      · split at h
        · simp at h
        · rename_i s1 hb
          simp only [Option.some.injEq] at h; subst h
          exact hinv_appendBank hs hb
  · exact ih.resume _ _ _ _ h hs
  · exact ih.resume _ _ _ _ h hs
  · split at h
    · simp at h
    · rename_i heap hl
      split at h
      · cases hx : exitQuery s fr with
        | none => simp [hx] at h
        | some s' =>
          simp only [hx, Option.map_some, Option.some.injEq] at h; subst h
          exact hinv_exitQuery hs hx
      · split at h
        · cases hx : exitQuery s fr with
          | none => simp [hx] at h
          | some s' =>
            simp only [hx, Option.map_some, Option.some.injEq] at h; subst h
            exact hinv_exitQuery hs hx
        · split at h
          · simp at h
          · rename_i el heap' hpop
            obtain ⟨hs0, hnotL⟩ := hinv_pop (ltD E.A) hs hl hpop
            split at h
            · rename_i s1 args w he hrule
              have hs1 : HInv s1 (addLimbo L fr.S el.P) := hinv_ensureBank hs0 he
              -- dropping the limbo entry is always allowed
              have drop : ∀ {t : St α}, HInv t (addLimbo L fr.S el.P) → HInv t L := by
                intro t ht S2 hh hl2
                obtain ⟨a, b⟩ := ht S2 hh hl2
                refine ⟨a, fun P hP => b P ?_⟩
                unfold addLimbo; split
                · exact List.mem_cons_of_mem _ hP
                · exact hP
              split at h
              · simp only at h
                split at h
                · exact ih.resume _ _ _ _ h (drop hs1)
                · split at h
                  · exact ih.resume _ _ _ _ h (hinv_addDeleted _ (drop hs1))
                  · split at h
                    · simp at h
                    · rename_i s2 hb
                      simp only [Option.some.injEq] at h; subst h
                      exact hinv_appendBank (drop hs1) hb
              · split at h
                · simp at h
                · rename_i s2 possibles hq
                  have hs2 := ih.queryDer _ _ _ _ _ _ hq hs1
                  split at h
                  · rename_i em cl h2 _ _ hl2
                    have hs3 := hinv_pushNext E.A (w := w) (cl := cl) (ns := fr.noSucc) hs2 hnotL hl2
                    simp only at h
                    split at h
                    · exact ih.resume _ _ _ _ h hs3
                    · exact ih.resume _ _ _ _ h hs3
                  · simp at h
            · simp at h

theorem hok_all (E : Env α) : ∀ f, HOk E f := by
  intro f
  induction f with
  | zero =>
    refine ⟨?_, ?_, ?_, ?_, ?_, ?_⟩
    · intro s fr r L h; simp [resume] at h
    · intro s fr s' L h; simp [drive] at h
    · intro s S ci s' ia r L h; simp [queryList] at h
    · intro s cs ss ia agf acc s' ia' agf' acc' L h; simp [argLoop] at h
    · intro s args ci c combs ns hg s' ns' hg' L h; simp [combLoop] at h
    · intro s args ci s' l L h; simp [queryDer] at h
  | succ f ih =>
    refine ⟨hok_resume E f ih, ?_, ?_, ?_, ?_, ?_⟩
    · -- drive
      intro s fr s' L h hs
      rw [drive] at h
      split at h
      · simp at h
      · rename_i s1 hr
        simp only [Option.some.injEq] at h; subst h
        exact ih.resume _ _ _ _ hr hs
      · rename_i s1 fr1 p hr
        exact ih.drive _ _ _ _ h (ih.resume _ _ _ _ hr hs)
    · -- queryList
      intro s S ci s' ia r L h hs
      rw [queryList] at h
      split at h
      · split at h
        · simp only [Option.some.injEq, Prod.mk.injEq] at h; rw [← h.1]; exact hs
        · split at h
          · simp only [Option.some.injEq, Prod.mk.injEq] at h; rw [← h.1]; exact hs
          · split at h
            · simp only [Option.some.injEq, Prod.mk.injEq] at h; rw [← h.1]; exact hs
            · split at h
              · simp at h
              · rename_i s1 hd
                have hs1 := ih.drive _ _ _ _ hd hs
                split at h
                · split at h
                  · simp only [Option.some.injEq, Prod.mk.injEq] at h; rw [← h.1]; exact hs1
                  · split at h
                    · simp only [Option.some.injEq, Prod.mk.injEq] at h; rw [← h.1]; exact hs1
                    · simp at h
                · simp at h
      · simp at h
    · -- argLoop
      intro s cs ss ia agf acc s' ia' agf' acc' L h hs
      cases cs with
      | nil => simp only [argLoop, Option.some.injEq, Prod.mk.injEq] at h; rw [← h.1]; exact hs
      | cons c cs =>
        cases ss with
        | nil => simp only [argLoop, Option.some.injEq, Prod.mk.injEq] at h; rw [← h.1]; exact hs
        | cons Si ss =>
          rw [argLoop] at h
          split at h
          · simp at h
          · rename_i s1 one r hq
            have hs1 := ih.queryList _ _ _ _ _ _ _ hq hs
            split at h
            · split at h
              · simp only [Option.some.injEq, Prod.mk.injEq] at h; rw [← h.1]; exact hs1
              · exact ih.argLoop _ _ _ _ _ _ _ _ _ _ _ h hs1
            · exact ih.argLoop _ _ _ _ _ _ _ _ _ _ _ h hs1
    · -- combLoop
      intro s args ci c combs ns hg s' ns' hg' L h hs
      cases combs with
      | nil => simp only [combLoop, Option.some.injEq, Prod.mk.injEq] at h; rw [← h.1]; exact hs
      | cons comb rest =>
        rw [combLoop] at h
        split at h
        · simp at h
        · rename_i s1 ia agf poss ha
          have hs1 := ih.argLoop _ _ _ _ _ _ _ _ _ _ _ ha hs
          simp only at h
          split at h
          · exact ih.combLoop _ _ _ _ _ _ _ _ _ _ _ h hs1
          · split at h
            · simp at h
            · rename_i s2 hsucc
              have hs2 := hinv_succLoop E.A E.asserts args c comb _ _ _ _ hsucc hs1
              split at h
              · exact ih.combLoop _ _ _ _ _ _ _ _ _ _ _ h hs2
              · split at h
                · simp at h
                · split at h
                  · simp at h
                  · exact ih.combLoop _ _ _ _ _ _ _ _ _ _ _ h (hinv_of_eq rfl hs2)
    · -- queryDer
      intro s args ci s' l L h hs
      rw [queryDer] at h
      split at h
      · split at h
        · simp only [Option.some.injEq, Prod.mk.injEq] at h; rw [← h.1]; exact hs
        · split at h
          · simp only [Option.some.injEq, Prod.mk.injEq] at h; rw [← h.1]; exact hs
          · simp only at h
            split at h
            · simp only [Option.some.injEq, Prod.mk.injEq] at h; rw [← h.1]; exact hinv_of_eq rfl hs
            · split at h
              · simp at h
              · split at h
                · simp at h
                · rename_i s3 ns hg hc
                  have hs3 := ih.combLoop _ _ _ _ _ _ _ _ _ _ _ hc (hinv_of_eq (s := s) rfl hs)
                  split at h
                  · simp at h
                  · rename_i s4 hs4e
                    have hs4 : HInv s4 L := by
                      split at hs4e
                      · split at hs4e
                        · simp at hs4e
                        · simp only [Option.some.injEq] at hs4e; subst hs4e; exact hinv_of_eq rfl hs3
                      · simp only [Option.some.injEq] at hs4e; subst hs4e; exact hs3
                    split at h
                    · split at h
                      · simp at h
                      · rename_i s5 hs5e
                        have hs5 : HInv s5 L := by
                          split at hs5e
                          · simp only [Option.some.injEq] at hs5e; subst hs5e; exact hs4
                          · split at hs5e
                            · simp at hs5e
                            · split at hs5e
                              · simp at hs5e
                              · simp only [Option.some.injEq] at hs5e; subst hs5e; exact hinv_of_eq rfl hs4
                        split at h
                        · simp at h
                        · simp only [Option.some.injEq, Prod.mk.injEq] at h; rw [← h.1]; exact hs5
                    · simp at h
      · simp at h

/-! ### the generator -/

def noLimbo : NT → List Sym := fun _ => []

theorem nextLoop_hinv (E : Env α) (fuel : Nat) : ∀ (k : Nat) (s : St α) (n : Nat) (fr? : Option (Frame α)) (failed : Bool)
    (g' : Gen α) (out : Option Prog), nextLoop E fuel k s n fr? failed = some (g', out) → HInv s noLimbo →
    HInv g'.st noLimbo := by
  intro k
  induction k with
  | zero => intro s n fr? failed g' out h; simp [nextLoop] at h
  | succ k ih =>
    intro s n fr? failed g' out h hs
    rw [nextLoop.eq_def] at h
    simp only at h
    split at h
    · simp at h
    · rename_i s0 hstart
      have hs0 : HInv s0 noLimbo := by
        split at hstart
        · simp at hstart
        · split at hstart
          · simp at hstart
          · split at hstart
            · simp only [Option.some.injEq, Prod.mk.injEq] at hstart
              rw [← hstart.1]; exact hinv_of_eq rfl hs
            · simp at hstart
      split at h
      · simp only [Option.some.injEq, Prod.mk.injEq] at h; rw [← h.1]; exact hs0
      · exact ih _ _ _ _ _ _ h (hinv_of_eq rfl hs0)
    · rename_i s0 fr hstart
      have hs0 : HInv s0 noLimbo := by
        split at hstart
        · simp only [Option.some.injEq, Prod.mk.injEq] at hstart
          rw [← hstart.1]; exact hs
        · split at hstart
          · simp at hstart
          · split at hstart
            · simp at hstart
            · simp only [Option.some.injEq, Prod.mk.injEq] at hstart
              rw [← hstart.1]; exact hinv_of_eq rfl hs
      split at h
      · simp at h
      · rename_i s1 fr1 p hr
        simp only [Option.some.injEq, Prod.mk.injEq] at h; rw [← h.1]
        exact (hok_all E fuel).resume _ _ _ _ hr hs0
      · rename_i s1 hr
        have h1 : HInv s1 noLimbo := (hok_all E fuel).resume _ _ _ _ hr hs0
        split at h
        · simp only [Option.some.injEq, Prod.mk.injEq] at h; rw [← h.1]; exact h1
        · exact ih _ _ _ _ _ _ h h1

/-! ### the prologue -/

/-- the rows of the rule table have distinct keys (they are Python dicts) -/
def RowsNodup (G : Gram) : Prop := ∀ S rs, AList.lookup S G.rules = some rs → (rs.map (·.1)).Nodup

/-- `Pend S` = the symbols of the row of `S` that a suspended `_init_non_terminal_(S)` still has to push -/
def IInv (s : St α) (Pend : NT → List Sym) : Prop :=
  (∀ S h, AList.lookup S s.queueNt = some h → (symsOf h ++ Pend S).Nodup) ∧
  (∀ S cl, AList.lookup S s.costNt = some cl → cl = [] → Pend S = [] ∧ ∀ h, AList.lookup S s.queueNt = some h → h = [])

def setPend (Pend : NT → List Sym) (S : NT) (l : List Sym) : NT → List Sym := fun S' => if S' = S then l else Pend S'

theorem setPend_self (Pend : NT → List Sym) (S : NT) : setPend Pend S (Pend S) = Pend := by
  funext S'; unfold setPend; split
  · rename_i h; rw [h]
  · rfl

theorem setPend_setPend (Pend : NT → List Sym) (S : NT) (l l' : List Sym) : setPend (setPend Pend S l) S l' = setPend Pend S l' := by
  funext S'; unfold setPend; split <;> rfl

theorem iinv_of_eq {s s' : St α} {Pend : NT → List Sym} (h1 : s'.queueNt = s.queueNt) (h2 : s'.costNt = s.costNt)
    (h : IInv s Pend) : IInv s' Pend := by
  unfold IInv; rw [h1, h2]; exact h

structure IOk (E : Env α) (f : Nat) : Prop where
  nt : ∀ s S s' Pend, initNT E f s S = some s' → IInv s Pend → IInv s' Pend
  rules : ∀ s S rs s' Pend, initRules E f s S rs = some s' → Pend S = rs.map (·.1) → IInv s Pend →
    IInv s' (setPend Pend S [])
  der : ∀ s args s' Pend, initDer E f s args = some s' → IInv s Pend → IInv s' Pend
  args : ∀ s as c s' c' Pend, initArgs E f s as c = some (s', c') → IInv s Pend → IInv s' Pend

theorem iok_all (E : Env α) (hG : RowsNodup E.G) : ∀ f, IOk E f := by
  intro f
  induction f with
  | zero =>
    refine ⟨?_, ?_, ?_, ?_⟩
    · intro s S s' Pend h; simp [initNT] at h
    · intro s S rs s' Pend h; simp [initRules] at h
    · intro s args s' Pend h; simp [initDer] at h
    · intro s as c s' c' Pend h; simp [initArgs] at h
  | succ f ih =>
    refine ⟨?_, ?_, ?_, ?_⟩
    · -- initNT
      intro s S s' Pend h hs
      rw [initNT] at h
      split at h
      · simp at h
      · rename_i cl hcl
        split at h
        · simp only [Option.some.injEq] at h; subst h; exact hs
        · rename_i hlen
          have hcl0 : cl = [] := by
            cases cl with
            | nil => rfl
            | cons _ _ => simp at hlen
          obtain ⟨hPS, hheap⟩ := hs.2 S cl hcl hcl0
          split at h
          · simp at h
          · rename_i rs hrs
            split at h
            · simp at h
            · rename_i s2 h2
              have hs1 : IInv (s.setCostNt S [E.A.big]) (setPend Pend S (rs.map (·.1))) := by
                refine ⟨?_, ?_⟩
                · intro S2 hh hl2
                  have hl2' : AList.lookup S2 s.queueNt = some hh := hl2
                  by_cases he : S2 = S
                  · subst he
                    rw [hheap hh hl2']
                    simpa [setPend, symsOf] using hG S2 rs hrs
                  · simpa [setPend, he] using hs.1 S2 hh hl2'
                · intro S2 cl' hcl' hnil
                  simp only [St.setCostNt] at hcl'
                  rw [AList.lookup_insert] at hcl'
                  split at hcl'
                  · simp only [Option.some.injEq] at hcl'; subst hcl'; simp at hnil
                  · rename_i hne
                    have := hs.2 S2 cl' hcl' hnil
                    exact ⟨by simpa [setPend, hne] using this.1, this.2⟩
              have hs2 := ih.rules _ _ _ _ _ h2 (by simp [setPend]) hs1
              rw [setPend_setPend] at hs2
              have e : setPend Pend S [] = Pend := by rw [← hPS]; exact setPend_self Pend S
              rw [e] at hs2
              split at h
              · rename_i d cl2 _ hcl2
                simp only [Option.some.injEq] at h; subst h
                refine ⟨hs2.1, ?_⟩
                intro S2 cl' hcl' hnil
                simp only [St.setCostNt] at hcl'
                rw [AList.lookup_insert] at hcl'
                split at hcl'
                · rename_i he
                  simp only [Option.some.injEq] at hcl'
                  subst he
                  have : cl2 = [] := by
                    rw [← hcl'] at hnil
                    cases cl2 with
                    | nil => rfl
                    | cons _ _ => simp at hnil
                  exact hs2.2 S2 cl2 hcl2 this
                · exact hs2.2 S2 cl' hcl' hnil
              · simp at h
    · -- initRules
      intro s S rs s' Pend h hP hs
      cases rs with
      | nil =>
        simp only [initRules, Option.some.injEq] at h; subst h
        have : setPend Pend S [] = Pend := by
          have := setPend_self Pend S
          rw [hP] at this; simpa using this
        rw [this]; exact hs
      | cons r rest =>
        obtain ⟨P, args, w⟩ := r
        rw [initRules] at h
        split at h
        · simp at h
        · rename_i s1 base hr
          have hs1 : IInv s1 Pend := by
            split at hr
            · simp only [Option.some.injEq, Prod.mk.injEq] at hr; rw [← hr.1]; exact hs
            · split at hr
              · simp at hr
              · rename_i s1' hd
                split at hr
                · simp only [Option.some.injEq, Prod.mk.injEq] at hr; rw [← hr.1]; exact ih.der _ _ _ _ hd hs
                · simp at hr
          split at h
          · simp at h
          · rename_i hh hq
            have hPS : Pend S = P :: rest.map (·.1) := by simpa using hP
            have hnext : IInv (s1.setHeap S (Heapq.push (ltD E.A) hh ⟨E.A.add base (E.A.ofInt w), 0, P⟩))
                (setPend Pend S (rest.map (·.1))) := by
              refine ⟨?_, ?_⟩
              · intro S2 h2 hl2
                simp only [St.setHeap] at hl2
                rw [AList.lookup_insert] at hl2
                split at hl2
                · rename_i he
                  simp only [Option.some.injEq] at hl2; subst hl2; subst he
                  have a := hs1.1 S2 hh hq
                  rw [hPS] at a
                  have hperm : (symsOf (Heapq.push (ltD E.A) hh ⟨E.A.add base (E.A.ofInt w), 0, P⟩)).Perm (P :: symsOf hh) := by
                    have := (Heapq.push_perm (ltD E.A) hh ⟨E.A.add base (E.A.ofInt w), 0, P⟩).map (fun (d : Deriv α) => d.P)
                    simpa [symsOf] using this
                  simp only [setPend, if_true]
                  have : (symsOf (Heapq.push (ltD E.A) hh ⟨E.A.add base (E.A.ofInt w), 0, P⟩) ++ rest.map (·.1)).Perm
                      (symsOf hh ++ P :: rest.map (·.1)) :=
                    (List.Perm.append_right _ hperm).trans (by simpa using List.perm_middle.symm)
                  exact this.nodup_iff.mpr a
                · rename_i hne
                  simpa [setPend, hne] using hs1.1 S2 h2 hl2
              · intro S2 cl' hcl' hnil
                have hcl'' : AList.lookup S2 s1.costNt = some cl' := hcl'
                have := hs1.2 S2 cl' hcl'' hnil
                by_cases he : S2 = S
                · subst he
                  exfalso
                  rw [hPS] at this; simp at this
                · refine ⟨by simpa [setPend, he] using this.1, ?_⟩
                  intro h2 hl2
                  simp only [St.setHeap] at hl2
                  rw [AList.lookup_insert_ne _ _ he] at hl2
                  exact this.2 h2 hl2
            have := ih.rules _ _ _ _ _ h (by simp [setPend]) hnext
            rwa [setPend_setPend] at this
    · -- initDer
      intro s args s' Pend h hs
      rw [initDer] at h
      split at h
      · simp at h
      · split at h
        · simp only [Option.some.injEq] at h; subst h; exact hs
        · split at h
          · simp at h
          · rename_i s2 cost ha
            have hs2 := ih.args _ _ _ _ _ _ ha (iinv_of_eq (s := s) rfl rfl hs)
            split at h
            · simp at h
            · split at h
              · simp at h
              · split at h
                · simp at h
                · split at h
                  · simp only [Option.some.injEq] at h; subst h; exact iinv_of_eq rfl rfl hs2
                  · simp at h
    · -- initArgs
      intro s as c s' c' Pend h hs
      cases as with
      | nil => simp only [initArgs, Option.some.injEq, Prod.mk.injEq] at h; rw [← h.1]; exact hs
      | cons Si rest =>
        rw [initArgs] at h
        split at h
        · simp at h
        · rename_i s1 h1
          split at h
          · exact ih.args _ _ _ _ _ _ h (ih.nt _ _ _ _ h1 hs)
          · simp at h

theorem siftdownFrom_perm (lt : Deriv α → Deriv α → Bool) (sp : Nat) : ∀ (fuel : Nat) (h : List (Deriv α)) (pos : Nat),
    (siftdownFrom lt sp fuel h pos).Perm h := by
  intro fuel
  induction fuel with
  | zero => intro h pos; exact List.Perm.refl _
  | succ n ih =>
    intro h pos
    unfold siftdownFrom
    split
    · exact List.Perm.refl _
    · simp only
      split
      · exact (ih _ _).trans (Heapq.swap_perm _ _ _)
      · exact List.Perm.refl _

theorem heapify_perm (lt : Deriv α → Deriv α → Bool) (h : List (Deriv α)) : (heapify lt h).Perm h := by
  unfold heapify
  have key : ∀ (idx : List Nat) (acc : List (Deriv α)), (idx.foldl (fun acc i => siftupAt lt acc i) acc).Perm acc := by
    intro idx
    induction idx with
    | nil => intro acc; exact List.Perm.refl _
    | cons i rest ih =>
      intro acc
      simp only [List.foldl_cons]
      refine (ih _).trans ?_
      unfold siftupAt
      exact (siftdownFrom_perm lt i _ _ _).trans (Heapq.bubble_perm _ _ _ _)
  exact key _ h

theorem newQueue_syms (E : Env α) (s : St α) (S : NT) : ∀ (h nq : List (Deriv α)), newQueue E s S h = some nq →
    symsOf nq = symsOf h
  | [], nq, hq => by simp only [newQueue, Option.some.injEq] at hq; subst hq; rfl
  | el :: rest, nq, hq => by
    rw [newQueue] at hq
    split at hq
    · simp at hq
    · split at hq
      · rename_i pk r _ hr
        simp only [Option.some.injEq] at hq; subst hq
        simp [symsOf, List.map_cons]
        exact newQueue_syms E s S rest r hr
      · simp at hq

theorem reevalDers_heaps (A : Arith α) (b : Bool) : ∀ (rs : List (Sym × (List NT × Int))) (s s' : St α),
    reevalDers A b rs s = some s' → s'.queueNt = s.queueNt
  | [], s, s', h => by simp only [reevalDers, Option.some.injEq] at h; subst h; rfl
  | (_, (args, _)) :: rest, s, s', h => by
    rw [reevalDers] at h
    split at h
    · simp at h
    · rename_i s1 h1
      have e1 : s1.queueNt = s.queueNt := by
        unfold reevalDer at h1
        split at h1
        · simp only [Option.some.injEq] at h1; subst h1; rfl
        · split at h1
          · simp at h1
          · split at h1
            · simp at h1
            · simp only at h1
              split at h1
              · simp at h1
              · split at h1
                · simp at h1
                · split at h1
                  · split at h1
                    · simp at h1
                    · simp only [Option.some.injEq] at h1; subst h1; rfl
                  · simp at h1
      rw [reevalDers_heaps A b rest s1 s' h, e1]

theorem reevalPass_hinv {E : Env α} : ∀ (rs : List (NT × AList Sym (List NT × Int))) (s : St α) (ch : Bool) (s' : St α) (ch' : Bool),
    reevalPass E rs s ch = some (s', ch') → HInv s noLimbo → HInv s' noLimbo
  | [], s, ch, s', ch', h, hs => by
    simp only [reevalPass, Option.some.injEq, Prod.mk.injEq] at h; rw [← h.1]; exact hs
  | (S, rs) :: rest, s, ch, s', ch', h, hs => by
    rw [reevalPass] at h
    split at h
    · simp at h
    · rename_i s1 h1
      have hs1 : HInv s1 noLimbo := hinv_of_eq (reevalDers_heaps _ _ _ _ _ h1) hs
      split at h
      · simp at h
      · rename_i hh hq
        split at h
        · simp at h
        · rename_i nq hnq
          split at h
          · exact reevalPass_hinv rest s1 ch s' ch' h hs1
          · simp only at h
            split at h
            · split at h
              · simp at h
              · refine reevalPass_hinv rest _ true s' ch' h ?_
                refine hinv_of_eq (s := s1.setHeap S (heapify (ltD E.A) nq)) rfl ?_
                intro S2 h2 hl2
                simp only [St.setHeap] at hl2
                rw [AList.lookup_insert] at hl2
                split at hl2
                · rename_i he
                  simp only [Option.some.injEq] at hl2; subst hl2; subst he
                  have hp : (symsOf (heapify (ltD E.A) nq)).Perm (symsOf hh) := by
                    have := (heapify_perm (ltD E.A) nq).map (fun (d : Deriv α) => d.P)
                    rw [← newQueue_syms E s1 S2 hh nq hnq]
                    simpa [symsOf] using this
                  exact ⟨hp.nodup_iff.mpr (hs1 S2 hh hq).1, by simp [noLimbo]⟩
                · exact hs1 S2 h2 hl2
            · simp at h

theorem reevaluate_hinv {E : Env α} : ∀ (f : Nat) (s s' : St α), reevaluate E f s = some s' → HInv s noLimbo → HInv s' noLimbo := by
  intro f
  induction f with
  | zero => intro s s' h; simp [reevaluate] at h
  | succ f ih =>
    intro s s' h hs
    rw [reevaluate] at h
    split at h
    · simp at h
    · rename_i s1 h1
      exact ih _ _ h (reevalPass_hinv _ _ _ _ _ h1 hs)
    · rename_i s1 h1
      simp only [Option.some.injEq] at h; subst h
      exact reevalPass_hinv _ _ _ _ _ h1 hs

theorem rebuildQueues_heaps (A : Arith α) (b : Bool) (values : AList NT Int) : ∀ (keys : List (List NT)) (s s' : St α),
    rebuildQueues A b values keys s = some s' → s'.queueNt = s.queueNt
  | [], s, s', h => by simp only [rebuildQueues, Option.some.injEq] at h; subst h; rfl
  | arg :: rest, s, s', h => by
    rw [rebuildQueues] at h
    split at h
    · simp at h
    · split at h
      · simp only at h
        split at h
        · simp at h
        · split at h
          · simp at h
          · split at h
            · simp at h
            · rw [rebuildQueues_heaps A b values rest _ s' h]; rfl
      · simp at h

/-- all heaps empty, all cost lists empty: the state `__init__` builds -/
def HeapsFresh (s : St α) : Prop :=
  (∀ S h, AList.lookup S s.queueNt = some h → h = []) ∧ (∀ S cl, AList.lookup S s.costNt = some cl → cl = [])

theorem initDerTables_heaps (A : Arith α) (M : Int) (k : Nat) : ∀ (rs : List (Sym × (List NT × Int))) (s s' : St α),
    initDerTables A M k rs s = some s' → s'.queueNt = s.queueNt ∧ s'.costNt = s.costNt
  | [], s, s', h => by simp only [initDerTables, Option.some.injEq] at h; subst h; exact ⟨rfl, rfl⟩
  | (_, (args, _)) :: rest, s, s', h => by
    rw [initDerTables] at h
    split at h
    · exact initDerTables_heaps A M k rest s s' h
    · split at h
      · simp at h
      · obtain ⟨h1, h2⟩ := initDerTables_heaps A M k rest _ s' h
        exact ⟨h1, h2⟩

theorem initTables_fresh_heaps (A : Arith α) (M : Int) (k : Nat) : ∀ (rs : List (NT × AList Sym (List NT × Int))) (s s' : St α),
    initTables A M k rs s = some s' → HeapsFresh s → HeapsFresh s'
  | [], s, s', h, hs => by simp only [initTables, Option.some.injEq] at h; subst h; exact hs
  | (S, rs) :: rest, s, s', h, hs => by
    rw [initTables] at h
    split at h
    · simp at h
    · rename_i s2 h2
      obtain ⟨e1, e2⟩ := initDerTables_heaps A M k rs _ s2 h2
      refine initTables_fresh_heaps A M k rest s2 s' h ⟨?_, ?_⟩
      · intro S2 hh hl
        rw [e1] at hl
        simp only at hl
        rw [AList.lookup_insert] at hl
        split at hl
        · simp only [Option.some.injEq] at hl; exact hl.symm
        · exact hs.1 S2 hh hl
      · intro S2 cl hl
        rw [e2] at hl
        simp only at hl
        rw [AList.lookup_insert] at hl
        split at hl
        · simp only [Option.some.injEq] at hl; exact hl.symm
        · exact hs.2 S2 cl hl

theorem init_iinv (E : Env α) (s : St α) (h : St.init E = some s) : IInv s noLimbo := by
  unfold St.init at h
  split at h
  · simp at h
  · have hf := initTables_fresh_heaps _ _ _ _ _ _ h ⟨by simp, by simp⟩
    refine ⟨?_, ?_⟩
    · intro S hh hl; rw [hf.1 S hh hl]; simp [symsOf, noLimbo]
    · intro S cl _ _; exact ⟨rfl, fun hh hl => hf.1 S hh hl⟩

theorem iinv_hinv {s : St α} (h : IInv s noLimbo) : HInv s noLimbo := by
  intro S hh hl
  have := h.1 S hh hl
  exact ⟨by simpa [noLimbo] using this, by simp [noLimbo]⟩

theorem nextLoop_phase (E : Env α) (fuel : Nat) : ∀ (k : Nat) (s : St α) (n : Nat) (fr? : Option (Frame α)) (failed : Bool)
    (g' : Gen α) (out : Option Prog), nextLoop E fuel k s n fr? failed = some (g', out) →
    ¬ (g'.phase matches .fresh) := by
  intro k
  induction k with
  | zero => intro s n fr? failed g' out h; simp [nextLoop] at h
  | succ k ih =>
    intro s n fr? failed g' out h
    rw [nextLoop.eq_def] at h
    simp only at h
    split at h
    · simp at h
    · split at h
      · simp only [Option.some.injEq, Prod.mk.injEq] at h; rw [← h.1]; simp
      · exact ih _ _ _ _ _ _ h
    · split at h
      · simp at h
      · simp only [Option.some.injEq, Prod.mk.injEq] at h; rw [← h.1]; simp
      · split at h
        · simp only [Option.some.injEq, Prod.mk.injEq] at h; rw [← h.1]; simp
        · exact ih _ _ _ _ _ _ h

/-- the generator object: the heap invariant, and before the prologue the init-phase invariant -/
def HGInv (g : Gen α) : Prop :=
  HInv g.st noLimbo ∧ ((g.phase matches .fresh) → IInv g.st noLimbo)

theorem prologue_hinv (E : Env α) (hG : RowsNodup E.G) (fuel : Nat) (s s' : St α) (h : prologue E fuel s = some s')
    (hs : IInv s noLimbo) : HInv s' noLimbo := by
  unfold prologue at h
  split at h
  · simp at h
  · rename_i s1 h1
    split at h
    · simp at h
    · rename_i s2 h2
      have hs1 := iinv_hinv ((iok_all E hG fuel).nt _ _ _ _ h1 hs)
      have hs2 := reevaluate_hinv _ _ _ h2 hs1
      unfold computeBounds at h
      split at h
      · simp at h
      · split at h
        · simp at h
        · exact hinv_of_eq (rebuildQueues_heaps _ _ _ _ _ _ h) hs2

theorem next_hinv (E : Env α) (hG : RowsNodup E.G) (fuel : Nat) (g g' : Gen α) (out : Option Prog)
    (h : next E fuel g = some (g', out)) (hg : HGInv g) : HGInv g' := by
  unfold next at h
  split at h
  · simp only [Option.some.injEq, Prod.mk.injEq] at h; rw [← h.1]; exact hg
  · rename_i hph
    split at h
    · simp at h
    · rename_i s hp
      have hs := prologue_hinv E hG fuel _ _ hp (hg.2 (by rw [hph]))
      exact ⟨nextLoop_hinv E fuel _ _ _ _ _ _ _ h hs, fun hh => absurd hh (nextLoop_phase E fuel _ _ _ _ _ _ _ h)⟩
  · exact ⟨nextLoop_hinv E fuel _ _ _ _ _ _ _ h hg.1, fun hh => absurd hh (nextLoop_phase E fuel _ _ _ _ _ _ _ h)⟩
  · exact ⟨nextLoop_hinv E fuel _ _ _ _ _ _ _ h hg.1, fun hh => absurd hh (nextLoop_phase E fuel _ _ _ _ _ _ _ h)⟩

theorem gen_new_hinv (E : Env α) (g : Gen α) (h : Gen.new E = some g) : HGInv g := by
  unfold Gen.new at h
  cases hi : St.init E with
  | none => simp [hi] at h
  | some s =>
    simp only [hi, Option.map_some, Option.some.injEq] at h
    subst h
    exact ⟨iinv_hinv (init_iinv E s hi), fun _ => init_iinv E s hi⟩

theorem merge_hinv (E : Env α) (g : Gen α) (other : Prog) (ty : Nat) (hg : HGInv g) : HGInv (merge E g other ty) := by
  have e1 : (merge E g other ty).st.queueNt = g.st.queueNt := by
    simp only [merge, St.addDeleted]; split <;> rfl
  have e2 : (merge E g other ty).st.costNt = g.st.costNt := by
    simp only [merge, St.addDeleted]; split <;> rfl
  exact ⟨hinv_of_eq e1 hg.1, fun hh => iinv_of_eq e1 e2 (hg.2 hh)⟩

theorem take_hinv (E : Env α) (hG : RowsNodup E.G) (fuel : Nat) : ∀ (k : Nat) (g : Gen α) (acc : List Prog) (g' : Gen α) (ys : List Prog)
    (fin : Bool), take E fuel k g acc = some (g', ys, fin) → HGInv g → HGInv g' := by
  intro k
  induction k with
  | zero =>
    intro g acc g' ys fin h hg
    simp only [take, Option.some.injEq, Prod.mk.injEq] at h; rw [← h.1]; exact hg
  | succ k ih =>
    intro g acc g' ys fin h hg
    rw [take] at h
    split at h
    · simp at h
    · rename_i g1 hn
      simp only [Option.some.injEq, Prod.mk.injEq] at h; rw [← h.1]
      exact next_hinv E hG fuel g g1 none hn hg
    · rename_i g1 p1 hn
      exact ih _ _ _ _ _ h (next_hinv E hG fuel g g1 (some p1) hn hg)

/-- **one pending Derivation per rule, along every history** -/
theorem runHist_hinv (E : Env α) (hG : RowsNodup E.G) (fuel : Nat) : ∀ (acts : List Act) (g : Gen α) (out : List Prog) (g' : Gen α)
    (ys : List Prog), runHist E fuel acts g out = some (g', ys) → HGInv g → HGInv g'
  | [], g, out, g', ys, h, hg => by
    simp only [runHist, Option.some.injEq, Prod.mk.injEq] at h; rw [← h.1]; exact hg
  | .merge p t :: rest, g, out, g', ys, h, hg => by
    rw [runHist] at h
    exact runHist_hinv E hG fuel rest _ out g' ys h (merge_hinv E g p t hg)
  | .take k :: rest, g, out, g', ys, h, hg => by
    rw [runHist] at h
    split at h
    · simp at h
    · rename_i g1 ys1 fin ht
      exact runHist_hinv E hG fuel rest g1 _ g' ys h (take_hinv E hG fuel k g [] g1 ys1 fin ht hg)

end PS.CD
