/- The size / closedness hypotheses of the termination theorem as Boolean checks on a literal grammar. -/
import PS.Proofs.Enum.UTotal5
import PS.Proofs.Enum.UOrderCheck
namespace PS.UHS
open PS PS.G
set_option linter.unusedSectionVars false
variable {U π : Type} [DecidableEq U]

def thypB (G : UG U) (L Al A : Nat) : Bool :=
  G.rules.all (fun r => decide (r.2.length ≤ L) && r.2.all (fun a => decide (a.2.length ≤ Al) &&
    a.2.all (fun x => decide (x.1.length ≤ A) && x.1.all (fun y => (AList.lookup y G.rules).isSome))) &&
    !(r.2.flatMap fun x => x.2.map fun vw => (x.1, vw.1)).isEmpty) &&
  G.starts.all (fun st => (AList.lookup st.1 G.rules).isSome)

theorem thyp_of_check (E : Env U π) (L Al A : Nat) (h : thypB E.G L Al A = true) : THyp E L Al A := by
  simp only [thypB, Bool.and_eq_true] at h
  obtain ⟨h1, h2⟩ := h
  have row : ∀ nt rs, AList.lookup nt E.G.rules = some rs → _ :=
    fun nt rs hl => List.all_eq_true.mp h1 (nt, rs) (AList.lookup_some_mem hl)
  have alt : ∀ nt F v w, (v, w) ∈ altsOf E nt F → v.length ≤ A ∧ ∀ y ∈ v, (AList.lookup y E.G.rules).isSome = true := by
    intro nt F v w hm
    obtain ⟨rs, hr, a, ha, hx⟩ := altsOf_mem E nt F _ hm
    have r1 := List.all_eq_true.mp h1 (nt, rs) hr
    simp only [Bool.and_eq_true] at r1
    have r2 := List.all_eq_true.mp r1.1.2 (F, a) ha
    simp only [Bool.and_eq_true] at r2
    have r3 := List.all_eq_true.mp r2.2 (v, w) hx
    simp only [Bool.and_eq_true, decide_eq_true_eq] at r3
    exact ⟨r3.1, fun y hy => List.all_eq_true.mp r3.2 y hy⟩
  refine ⟨?_, ?_, ?_, ?_, ?_, ?_⟩
  · intro nt rs hl
    have := row nt rs hl
    simp only [Bool.and_eq_true, decide_eq_true_eq] at this
    exact this.1.1
  · intro nt rs hl x hx
    have := row nt rs hl
    simp only [Bool.and_eq_true] at this
    have r2 := List.all_eq_true.mp this.1.2 x hx
    simp only [Bool.and_eq_true, decide_eq_true_eq] at r2
    exact r2.1
  · intro nt F v w hm; exact (alt nt F v w hm).1
  · intro nt F v w hm a ha
    have := (alt nt F v w hm).2 a ha
    exact Option.isSome_iff_exists.mp this
  · intro nt w hw
    have := List.all_eq_true.mp h2 (nt, w) (AList.lookup_some_mem hw)
    exact Option.isSome_iff_exists.mp this
  · intro nt rs hl
    have := row nt rs hl
    simp only [Bool.and_eq_true, Bool.not_eq_eq_eq_not, Bool.not_true, List.isEmpty_eq_false_iff] at this
    exact this.2

/-- enough fuel: (max rank of a start symbol + 1) · (L + Al + A + 6) -/
def fuelB (G : UG U) (rank : UNT U → Nat) (C fuel : Nat) : Bool :=
  decide (1 ≤ fuel) && G.starts.all (fun st => decide ((rank st.1 + 1) * C ≤ fuel))

theorem fuelOK_of_check (E : Env U π) (rank : UNT U → Nat) (C fuel : Nat) (h : fuelB E.G rank C fuel = true) :
    FuelOK E rank C fuel := by
  simp only [fuelB, Bool.and_eq_true, decide_eq_true_eq] at h
  refine ⟨h.1, ?_⟩
  intro nt w hw
  have := List.all_eq_true.mp h.2 (nt, w) (AList.lookup_some_mem hw)
  simpa using this

end PS.UHS
