/- The order hypotheses `Law` from the algebra of the priorities: `combine` is monotone in both
   arguments.  Instances: heap search (probabilities, multiplication of non-negative numbers) and
   bucket search (tuples of one length, pointwise addition, lexicographic order). -/
import PS.Proofs.Enum.GRun
import PS.Proofs.Enum.BucketOrder
namespace PS.HG
open PS PS.G PS.HS
set_option linter.unusedSectionVars false
set_option linter.unusedVariables false
variable {S π : Type} [DecidableEq S]

structure MonoOps (E : Env S Unit π) (Good : π → Prop) : Prop where
  good_rule : ∀ nt F w, ruleW E nt F = some w → Good (E.ops.ofRule w)
  good_comb : ∀ a b, Good a → Good b → Good (E.ops.combine a b)
  mono_r : ∀ a b c, Good a → Good b → Good c → E.ops.lt a b = false →
    E.ops.lt (E.ops.combine a c) (E.ops.combine b c) = false
  mono_l : ∀ a b c, Good a → Good b → Good c → E.ops.lt a b = false →
    E.ops.lt (E.ops.combine c a) (E.ops.combine c b) = false

mutual
  theorem prioSpec_good {E : Env S Unit π} {Good} (M : MonoOps E Good) :
      ∀ (p : Prog) (nt : NT S Unit) (v : π), prioSpec E p nt = some v → Good v
    | .node F kids, nt, v, h => by
      rw [prioSpec] at h
      cases hw : ruleW E nt F with
      | none => simp [hw] at h
      | some w =>
        cases hr : E.G.rule? nt F with
        | none => simp [hw, hr] at h
        | some rl =>
          obtain ⟨ra, u⟩ := rl
          simp only [hw, hr] at h
          exact prioList_good M kids ra _ v (M.good_rule nt F w hw) h
  theorem prioList_good {E : Env S Unit π} {Good} (M : MonoOps E Good) :
      ∀ (ks : List Prog) (ra : List (Ty × S)) (acc v : π), Good acc → prioList E ks ra acc = some v → Good v
    | [], [], acc, v, ha, h => by
      simp only [prioList, Option.some.injEq] at h; subst h; exact ha
    | [], _ :: _, _, _, _, h => by simp [prioList] at h
    | _ :: _, [], _, _, _, h => by simp [prioList] at h
    | k :: ks, a :: as, acc, v, ha, h => by
      rw [prioList] at h
      cases hk : prioSpec E k (argNT a) with
      | none => simp [hk] at h
      | some pk =>
        simp only [hk] at h
        exact prioList_good M ks as _ v (M.good_comb _ _ ha (prioSpec_good M k _ pk hk)) h
end

/-- a not-better accumulator gives a not-better result -/
theorem prioList_acc {E : Env S Unit π} {Good} (M : MonoOps E Good) :
    ∀ (ks : List Prog) (ra : List (Ty × S)) (acc acc' v v' : π), Good acc → Good acc' →
      prioList E ks ra acc = some v → prioList E ks ra acc' = some v' → E.ops.lt acc' acc = false →
      E.ops.lt v' v = false
  | [], [], acc, acc', v, v', _, _, h, h', hle => by
    simp only [prioList, Option.some.injEq] at h h'; subst h; subst h'; exact hle
  | [], _ :: _, _, _, _, _, _, _, h, _, _ => by simp [prioList] at h
  | _ :: _, [], _, _, _, _, _, _, h, _, _ => by simp [prioList] at h
  | k :: ks, a :: as, acc, acc', v, v', ha, ha', h, h', hle => by
    rw [prioList] at h h'
    cases hk : prioSpec E k (argNT a) with
    | none => simp [hk] at h
    | some pk =>
      simp only [hk] at h h'
      have hg := prioSpec_good M k _ pk hk
      exact prioList_acc M ks as _ _ v v' (M.good_comb _ _ ha hg) (M.good_comb _ _ ha' hg) h h'
        (M.mono_r _ _ _ ha' ha hg hle)

/-- replacing the argument `i` by one that is not better gives a result that is not better -/
theorem prioList_set {E : Env S Unit π} {Good} (M : MonoOps E Good) :
    ∀ (ks : List Prog) (ra : List (Ty × S)) (i : Nat) (q ai : Prog) (a : Ty × S) (acc v v' pq pa : π), Good acc →
      ra[i]? = some a → ks[i]? = some ai → prioSpec E q (argNT a) = some pq → prioSpec E ai (argNT a) = some pa →
      E.ops.lt pq pa = false → prioList E ks ra acc = some v → prioList E (ks.set i q) ra acc = some v' →
      E.ops.lt v' v = false
  | [], _, _, _, _, _, _, _, _, _, _, _, _, hk, _, _, _, _, _ => by simp at hk
  | _ :: _, [], _, _, _, _, _, _, _, _, _, _, hr, _, _, _, _, _, _ => by simp at hr
  | k :: ks, a0 :: as, 0, q, ai, a, acc, v, v', pq, pa, ha, hr, hk, hpq, hpa, hle, h, h' => by
    simp only [List.getElem?_cons_zero, Option.some.injEq] at hr hk
    subst hr; subst hk
    simp only [List.set_cons_zero] at h'
    rw [prioList] at h h'
    simp only [hpa] at h
    simp only [hpq] at h'
    have gq := prioSpec_good M _ _ _ hpq
    have ga := prioSpec_good M _ _ _ hpa
    exact prioList_acc M ks as _ _ v v' (M.good_comb _ _ ha ga) (M.good_comb _ _ ha gq) h h'
      (M.mono_l _ _ _ gq ga ha hle)
  | k :: ks, a0 :: as, i + 1, q, ai, a, acc, v, v', pq, pa, ha, hr, hk, hpq, hpa, hle, h, h' => by
    simp only [List.getElem?_cons_succ] at hr hk
    simp only [List.set_cons_succ] at h'
    rw [prioList] at h h'
    cases hk0 : prioSpec E k (argNT a0) with
    | none => simp [hk0] at h
    | some pk =>
      simp only [hk0] at h h'
      exact prioList_set M ks as i q ai a _ v v' pq pa (M.good_comb _ _ ha (prioSpec_good M _ _ _ hk0))
        hr hk hpq hpa hle h h'

theorem law_of_monoOps {E : Env S Unit π} {rank : NT S Unit → Nat} {Good : π → Prop} (M : MonoOps E Good)
    (w : Heapq.WeakOrderOn Good E.ops.lt) (hthr : ∀ t, E.ops.thr = some t → Good t)
    (hac : ∀ nt F ra, E.G.rule? nt F = some (ra, ()) → ∀ a ∈ ra, rank (argNT a) < rank nt) :
    Law E rank Good := by
  refine ⟨w, fun p nt v h => prioSpec_good M p nt v h, hthr, hac, ?_⟩
  intro nt F ra args i q ai a pq pa pF pF' hr _ hra hai _ hpq hpa hle hpF hpF'
  rw [prioSpec] at hpF hpF'
  cases hw : ruleW E nt F with
  | none => simp [hw] at hpF
  | some w0 =>
    simp only [hw, hr] at hpF hpF'
    exact prioList_set M args ra i q ai a _ pF pF' pq pa (M.good_rule nt F w0 hw) hra hai hpq hpa hle hpF hpF'

/-! ### heap search -/

/-- the rule weights are probabilities -/
def WUnit (E : Env S Unit π) : Prop := ∀ nt F w, ruleW E nt F = some w → 0 ≤ w ∧ w ≤ 1

theorem monoOps_prob (E : Env S Unit Rat) (t : Rat) (hops : E.ops = probOps t)
    (hw : ∀ nt F w, ruleW E nt F = some w → 0 ≤ w) : MonoOps E (fun v => 0 ≤ v) := by
  refine ⟨?_, ?_, ?_, ?_⟩
  · intro nt F w h; rw [hops]; exact hw nt F w h
  · intro a b ha hb; rw [hops]; exact Rat.mul_nonneg ha hb
  · intro a b c ha hb hc h
    rw [hops] at h ⊢
    simp only [probOps, decide_eq_false_iff_not, Rat.not_lt] at h ⊢
    exact Rat.mul_le_mul_of_nonneg_right h hc
  · intro a b c ha hb hc h
    rw [hops] at h ⊢
    simp only [probOps, decide_eq_false_iff_not, Rat.not_lt] at h ⊢
    exact Rat.mul_le_mul_of_nonneg_left h hc

mutual
  theorem prioSpec_unit (E : Env S Unit Rat) (t : Rat) (hops : E.ops = probOps t) (hw : WUnit E) :
      ∀ (p : Prog) (nt : NT S Unit) (v : Rat), prioSpec E p nt = some v → 0 ≤ v ∧ v ≤ 1
    | .node F kids, nt, v, h => by
      rw [prioSpec] at h
      cases hwv : ruleW E nt F with
      | none => simp [hwv] at h
      | some w =>
        cases hr : E.G.rule? nt F with
        | none => simp [hwv, hr] at h
        | some rl =>
          obtain ⟨ra, u⟩ := rl
          simp only [hwv, hr] at h
          have hw0 := hw nt F w hwv
          have hof : E.ops.ofRule w = w := by rw [hops]; rfl
          rw [hof] at h
          obtain ⟨a, b, _⟩ := prioList_unit E t hops hw kids ra w v hw0.1 h
          exact ⟨a, Rat.le_trans b hw0.2⟩
  theorem prioList_unit (E : Env S Unit Rat) (t : Rat) (hops : E.ops = probOps t) (hw : WUnit E) :
      ∀ (ks : List Prog) (ra : List (Ty × S)) (acc v : Rat), 0 ≤ acc → prioList E ks ra acc = some v →
        0 ≤ v ∧ v ≤ acc ∧ (acc ≤ 1 → ∀ (i : Nat) ai a pa, ks[i]? = some ai → ra[i]? = some a →
          prioSpec E ai (argNT a) = some pa → v ≤ pa)
    | [], [], acc, v, ha, h => by
      simp only [prioList, Option.some.injEq] at h; subst h
      exact ⟨ha, Rat.le_refl, fun _ i ai a pa hk => by simp at hk⟩
    | [], _ :: _, _, _, _, h => by simp [prioList] at h
    | _ :: _, [], _, _, _, h => by simp [prioList] at h
    | k :: ks, a0 :: as, acc, v, ha, h => by
      rw [prioList] at h
      cases hk : prioSpec E k (argNT a0) with
      | none => simp [hk] at h
      | some pk =>
        simp only [hk] at h
        obtain ⟨k0, k1⟩ := prioSpec_unit E t hops hw k _ pk hk
        have hc : E.ops.combine acc pk = acc * pk := by rw [hops]; rfl
        rw [hc] at h
        have hacc' : 0 ≤ acc * pk := Rat.mul_nonneg ha k0
        have hle' : acc * pk ≤ acc := by
          have := Rat.mul_le_mul_of_nonneg_left k1 ha
          rwa [Rat.mul_one] at this
        obtain ⟨r0, r1, r2⟩ := prioList_unit E t hops hw ks as (acc * pk) v hacc' h
        refine ⟨r0, Rat.le_trans r1 hle', ?_⟩
        intro hacc1 i ai a pa hki hai hpa
        cases i with
        | zero =>
          simp only [List.getElem?_cons_zero, Option.some.injEq] at hki hai
          subst hki; subst hai
          rw [hk] at hpa; cases hpa
          have : acc * pk ≤ pk := by
            have := Rat.mul_le_mul_of_nonneg_right hacc1 k0
            rwa [Rat.one_mul] at this
          exact Rat.le_trans r1 this
        | succ i =>
          simp only [List.getElem?_cons_succ] at hki hai
          exact r2 (Rat.le_trans hle' hacc1) i ai a pa hki hai hpa
end

/-- with probabilities as weights a program is not more probable than its arguments -/
theorem subOK_prob (E : Env S Unit Rat) (t : Rat) (hops : E.ops = probOps t) (hw : WUnit E) : SubOK E := by
  right
  intro nt F ra args pF i ai a pa hr hpF hai hra hpa
  rw [prioSpec] at hpF
  cases hwv : ruleW E nt F with
  | none => simp [hwv] at hpF
  | some w =>
    simp only [hwv, hr] at hpF
    have hw0 := hw nt F w hwv
    have hof : E.ops.ofRule w = w := by rw [hops]; rfl
    rw [hof] at hpF
    have := (prioList_unit E t hops hw args ra w pF hw0.1 hpF).2.2 hw0.2 i ai a pa hai hra hpa
    rw [hops]
    simp only [probOps, decide_eq_false_iff_not, Rat.not_lt]
    exact this

/-! ### bucket search -/

theorem Bucket.add_lt_iff : ∀ a b c : Bucket, a.length = b.length → b.length = c.length →
    Bucket.lt (Bucket.add a c) (Bucket.add b c) = Bucket.lt a b
  | [], [], _, _, _ => by simp [Bucket.lt, Bucket.add]
  | [], _ :: _, _, h, _ => by simp at h
  | _ :: _, [], _, h, _ => by simp at h
  | _ :: _, _ :: _, [], _, h2 => by simp at h2
  | x :: xs, y :: ys, z :: zs, h1, h2 => by
    simp only [Bucket.add, List.zipWith_cons_cons, Bucket.lt]
    have ih := Bucket.add_lt_iff xs ys zs (by simpa using h1) (by simpa using h2)
    simp only [Bucket.add] at ih
    by_cases hxy : x < y
    · have : x + z < y + z := by omega
      simp [this, hxy]
    · by_cases hyx : x > y
      · have h3 : ¬ (x + z < y + z) := by omega
        have h4 : x + z > y + z := by omega
        simp [hxy, hyx, h3, h4]
      · have : x = y := by omega
        subst this
        simp only [Nat.lt_irrefl, if_false, gt_iff_lt]
        exact ih

theorem Bucket.add_comm (a b : Bucket) : Bucket.add a b = Bucket.add b a := by
  unfold Bucket.add
  exact List.zipWith_comm_of_comm (fun x y => Nat.add_comm x y)

theorem Bucket.ofProb_length (size : Nat) (p : Rat) : (Bucket.ofProb size p).length = size := by
  unfold Bucket.ofProb
  simp

theorem monoOps_bucket (E : Env S Unit Bucket) (size : Nat) (hops : E.ops = bucketOps size) :
    MonoOps E (fun b => b.length = size) := by
  refine ⟨?_, ?_, ?_, ?_⟩
  · intro nt F w _; rw [hops]; exact Bucket.ofProb_length size w
  · intro a b ha hb; rw [hops]
    show (Bucket.add a b).length = size
    unfold Bucket.add
    rw [List.length_zipWith, ha, hb, Nat.min_self]
  · intro a b c ha hb hc h
    rw [hops] at h ⊢
    show Bucket.lt (Bucket.add a c) (Bucket.add b c) = false
    rw [Bucket.add_lt_iff a b c (ha.trans hb.symm) (hb.trans hc.symm)]
    exact h
  · intro a b c ha hb hc h
    rw [hops] at h ⊢
    show Bucket.lt (Bucket.add c a) (Bucket.add c b) = false
    rw [Bucket.add_comm c a, Bucket.add_comm c b, Bucket.add_lt_iff a b c (ha.trans hb.symm) (hb.trans hc.symm)]
    exact h

theorem bucket_weakOn (size : Nat) : Heapq.WeakOrderOn (fun b : Bucket => b.length = size) Bucket.lt :=
  Bucket.weakOrder size

end PS.HG
