/- Filter / merge safety of beap search: `_deleted` only grows; a yielded program is accepted by the
   filter and is not in `_deleted`; hence a program merged away (`merge_program(_, other)`) is never
   yielded afterwards. -/
import PS.Proofs.Enum.BeapSoundRun
namespace PS.Beap
open PS PS.G
set_option linter.unusedSectionVars false
variable {S : Type} [DecidableEq S]

/-- `_deleted` only grows -/
def DMono (s s' : St S) : Prop := ∀ q, q ∈ s.deleted → q ∈ s'.deleted

theorem DMono.refl (s : St S) : DMono s s := fun _ h => h
theorem DMono.trans {a b c : St S} (h1 : DMono a b) (h2 : DMono b c) : DMono a c := fun q h => h2 q (h1 q h)
theorem DMono.of_eq {s s' : St S} (h : s'.deleted = s.deleted) : DMono s s' := fun q hq => h ▸ hq

theorem emit_deleted (E : Env S) (nt : NT S Unit) (ci : Nat) (P : Sym) (isFun : Bool) :
    ∀ (pend : List (List Prog)) (s : St S),
      DMono s (emit E nt ci P isFun s pend).1 ∧
      ∀ p rest, (emit E nt ci P isFun s pend).2 = some (p, rest) →
        E.filter p = true ∧ p ∉ (emit E nt ci P isFun s pend).1.deleted := by
  intro pend
  induction pend with
  | nil => intro s; simp [emit, DMono.refl]
  | cons a rest ih =>
    intro s
    unfold emit
    simp only
    split
    · exact ih s
    · split
      · obtain ⟨h1, h2⟩ := ih (s.addDeleted (mkProg P isFun a))
        exact ⟨fun q hq => h1 q (St.addDeleted_mono _ _ _ hq), h2⟩
      · next hdel hfil =>
        refine ⟨DMono.of_eq rfl, fun p r hpr => ?_⟩
        simp only [Option.some.injEq, Prod.mk.injEq] at hpr
        obtain ⟨rfl, rfl⟩ := hpr
        exact ⟨by simpa using hfil, by simpa using hdel⟩

theorem succLoop_deleted (nt : NT S Unit) (cost : Cost) (P : Sym) (comb : List Nat) :
    ∀ (as : List (NT S Unit)) (s : St S) (i : Nat), (succLoop nt cost P comb s i as).deleted = s.deleted := by
  intro as
  induction as with
  | nil => intro s i; simp [succLoop]
  | cons a as ih =>
    intro s i
    unfold succLoop
    simp only
    split
    · split
      · rfl
      · exact ih _ _
    · split
      · rfl
      · rw [ih]; rfl

theorem epilogue_deleted (s : St S) (nt : NT S Unit) (fr : Frame) : (epilogue s nt fr).deleted = s.deleted := by
  have h1 : (markEmpty s nt fr).deleted = s.deleted := by
    unfold markEmpty
    split
    · exact St.addEmpty_deleted s nt fr.ci
    · rfl
  unfold epilogue
  simp only
  split
  · exact h1
  · exact h1

def QLMono (E : Env S) (n : Nat) : Prop := ∀ s nt ci r, queryList E n s nt ci = some r → DMono s r.1
def RQMono (E : Env S) (n : Nat) : Prop := ∀ s nt ci s', runQuery E n s nt ci = some s' → DMono s s'
def DrMono (E : Env S) (n : Nat) : Prop := ∀ s nt fr s', drive E n s nt fr = some s' → DMono s s'
def RMono (E : Env S) (n : Nat) : Prop :=
  ∀ s nt fr r, resume E n s nt fr = some r → DMono s r.1 ∧ ∀ p fr', r.2 = .yield p fr' → E.filter p = true ∧ p ∉ r.1.deleted
def AMono (E : Env S) (n : Nat) : Prop := ∀ s as cs ae af acc r, argsLoop E n s as cs ae af acc = some r → DMono s r.1

theorem qlm_step (E : Env S) (n : Nat) (ih : RQMono E n) : QLMono E (n + 1) := by
  intro s nt ci r h
  unfold queryList at h
  split at h
  · cases h; exact DMono.refl _
  · split at h
    · cases h; exact DMono.refl _
    · split at h
      · cases h; exact DMono.refl _
      · split at h
        · cases h
        · next s1 hrq =>
          have := ih _ _ _ _ hrq
          split at h
          · cases h; exact this
          · split at h
            · cases h; exact this
            · cases h

theorem rqm_step (E : Env S) (n : Nat) (ih : DrMono E n) : RQMono E (n + 1) := by
  intro s nt ci s' h
  unfold runQuery at h
  split at h
  · cases h; exact DMono.refl _
  · exact ih _ _ _ _ h

theorem drm_step (E : Env S) (n : Nat) (ihR : RMono E n) (ihD : DrMono E n) : DrMono E (n + 1) := by
  intro s nt fr s' h
  unfold drive at h
  split at h
  · cases h
  · next s1 hr => cases h; exact (ihR _ _ _ _ hr).1
  · next s1 p fr1 hr => exact (ihR _ _ _ _ hr).1.trans (ihD _ _ _ _ h)

theorem am_step (E : Env S) (n : Nat) (ihQL : QLMono E n) (ihA : AMono E n) : AMono E (n + 1) := by
  intro s as cs ae af acc r h
  cases as with
  | nil => simp only [argsLoop] at h; cases h; exact DMono.refl _
  | cons a as =>
    cases cs with
    | nil => simp [argsLoop] at h
    | cons c cs =>
      simp only [argsLoop] at h
      split at h
      · cases h
      · next s1 one poss hql =>
        have h1 := ihQL _ _ _ _ hql
        split at h
        · split at h
          · cases h; exact h1
          · exact h1.trans (ihA _ _ _ _ _ _ _ h)
        · exact h1.trans (ihA _ _ _ _ _ _ _ h)

theorem rm_step (E : Env S) (n : Nat) (ihR : RMono E n) (ihA : AMono E n) : RMono E (n + 1) := by
  intro s nt fr r h
  unfold resume at h
  obtain ⟨he1, he2⟩ := emit_deleted E nt fr.ci fr.P fr.isFun fr.pending s
  split at h
  · next s1 p rest hem =>
    cases h
    have e1 : (emit E nt fr.ci fr.P fr.isFun s fr.pending).1 = s1 := by rw [hem]
    have e2 : (emit E nt fr.ci fr.P fr.isFun s fr.pending).2 = some (p, rest) := by rw [hem]
    refine ⟨e1 ▸ he1, fun p' fr' hy => ?_⟩
    cases hy
    have := he2 p rest e2
    rw [e1] at this
    exact this
  · next s1 hem =>
    have e1 : (emit E nt fr.ci fr.P fr.isFun s fr.pending).1 = s1 := by rw [hem]
    have hm1 : DMono s s1 := e1 ▸ he1
    have hep : DMono s (epilogue s1 nt fr) := hm1.trans (DMono.of_eq (epilogue_deleted s1 nt fr))
    split at h
    · cases h; exact ⟨hep, fun _ _ hy => by cases hy⟩
    · split at h
      · cases h; exact ⟨hep, fun _ _ hy => by cases hy⟩
      · split at h
        · cases h
        · next el q' hpop =>
          split at h
          · cases h
          · next rl hrl =>
            simp only at h
            split at h
            · cases h
            · next s3 ae af poss hargs =>
              have hm3 : DMono s s3 := hm1.trans ((DMono.of_eq rfl).trans (ihA _ _ _ _ _ _ _ hargs))
              split at h
              · obtain ⟨g1, g2⟩ := ihR _ _ _ _ h
                exact ⟨hm3.trans g1, g2⟩
              · have hm4 : DMono s (succLoop nt fr.cost el.P el.comb s3 0 (rl.1.map ntOf)) :=
                  hm3.trans (DMono.of_eq (succLoop_deleted nt fr.cost el.P el.comb _ s3 0))
                split at h
                · obtain ⟨g1, g2⟩ := ihR _ _ _ _ h
                  exact ⟨hm4.trans g1, g2⟩
                · obtain ⟨g1, g2⟩ := ihR _ _ _ _ h
                  refine ⟨(hm4.trans ?_).trans g1, g2⟩
                  split
                  · exact DMono.refl _
                  · exact DMono.of_eq rfl

theorem mono_all (E : Env S) : ∀ n : Nat, QLMono E n ∧ RQMono E n ∧ DrMono E n ∧ RMono E n ∧ AMono E n := by
  intro n
  induction n with
  | zero =>
    refine ⟨?_, ?_, ?_, ?_, ?_⟩
    · intro s nt ci r h; simp [queryList] at h
    · intro s nt ci r h; simp [runQuery] at h
    · intro s nt fr r h; simp [drive] at h
    · intro s nt fr r h; simp [resume] at h
    · intro s as cs ae af acc r h; simp [argsLoop] at h
  | succ n ih =>
    obtain ⟨a, b, c, d, e⟩ := ih
    exact ⟨qlm_step E n b, rqm_step E n c, drm_step E n d c, rm_step E n d e, am_step E n a e⟩

/-! ### the prologue does not touch `_deleted` -/
theorem init_deleted (E : Env S) : ∀ n,
    (∀ s nt s', initNT E n s nt = some s' → s'.deleted = s.deleted) ∧
    (∀ s nt rest s', initRules E n s nt rest = some s' → s'.deleted = s.deleted) ∧
    (∀ s as c r, initArgs E n s as c = some r → r.1.deleted = s.deleted) := by
  intro n
  induction n with
  | zero =>
    refine ⟨?_, ?_, ?_⟩
    · intro s nt s' h; simp [initNT] at h
    · intro s nt rest s' h; simp [initRules] at h
    · intro s as c r h; simp [initArgs] at h
  | succ n ih =>
    obtain ⟨ihN, ihR, ihA⟩ := ih
    refine ⟨?_, ?_, ?_⟩
    · intro s nt s' h
      unfold initNT at h
      split at h
      · cases h
      · split at h
        · cases h; rfl
        · split at h
          · cases h
          · split at h
            · cases h
            · next s1 hir =>
              have := ihR _ _ _ _ hir
              split at h
              · cases h
              · cases h; exact this
    · intro s nt rest s' h
      cases rest with
      | nil => simp only [initRules] at h; cases h; rfl
      | cons pr rest =>
        obtain ⟨P, rl⟩ := pr
        simp only [initRules] at h
        split at h
        · cases h
        · split at h
          · cases h
          · next w hw s1 cost hia =>
            have h1 := ihA _ _ _ _ hia
            have h2 := ihR _ _ _ _ h
            rw [h2]; exact h1
    · intro s as c r h
      cases as with
      | nil => simp only [initArgs] at h; cases h; rfl
      | cons a as =>
        simp only [initArgs] at h
        split at h
        · cases h
        · next s1 hin =>
          have h1 := ihN _ _ _ hin
          split at h
          · cases h
          · rw [ihA _ _ _ _ h]; exact h1

theorem reevalPass_deleted (E : Env S) : ∀ (nts : List (NT S Unit)) (s : St S) (ch : Bool) (r : St S × Bool),
    reevalPass E nts s ch = some r → r.1.deleted = s.deleted := by
  intro nts
  induction nts with
  | nil => intro s ch r h; simp only [reevalPass] at h; cases h; rfl
  | cons nt rest ih =>
    intro s ch r h
    simp only [reevalPass] at h
    split at h
    · cases h
    · split at h
      · split at h
        · rw [ih _ _ _ h]; rfl
        · cases h
      · exact ih _ _ _ h

theorem reevalLoop_deleted (E : Env S) : ∀ (k : Nat) (s s' : St S), reevalLoop E k s = some s' → s'.deleted = s.deleted := by
  intro k
  induction k with
  | zero => intro s s' h; simp [reevalLoop] at h
  | succ k ih =>
    intro s s' h
    simp only [reevalLoop] at h
    split at h
    · cases h
    · next s1 hp => rw [ih _ _ h]; exact reevalPass_deleted E _ _ _ _ hp
    · next s1 hp => cases h; exact reevalPass_deleted E _ _ _ _ hp

theorem prologue_deleted (E : Env S) (fuel : Nat) (s s' : St S) (h : prologue E fuel s = some s') : s'.deleted = s.deleted := by
  unfold prologue at h
  split at h
  · cases h
  · next s1 hin =>
    have h1 := (init_deleted E fuel).1 _ _ _ hin
    unfold reevaluate at h
    split at h
    · rw [reevalLoop_deleted E _ _ _ h]; exact h1
    · cases h; exact h1

theorem nextLoop_filter (E : Env S) (fuel : Nat) : ∀ (k : Nat) (s : St S) (n : Nat) (failed : Bool) (fro : Option Frame)
    (r : Gen S × Option Prog), nextLoop E fuel k s n failed fro = some r →
    DMono s r.1.st ∧ ∀ p, r.2 = some p → E.filter p = true ∧ p ∉ r.1.st.deleted := by
  intro k
  induction k with
  | zero => intro s n failed fro r h; simp [nextLoop] at h
  | succ k ih =>
    intro s n failed fro r h
    cases fro with
    | some fr =>
      simp only [nextLoop] at h
      split at h
      · cases h
      · next s1 p fr1 hr =>
        cases h
        obtain ⟨h1, h2⟩ := (mono_all E fuel).2.2.2.1 _ _ _ _ hr
        exact ⟨h1, fun p' hp' => by cases hp'; exact h2 p fr1 rfl⟩
      · next s1 hr =>
        have h1 := ((mono_all E fuel).2.2.2.1 _ _ _ _ hr).1
        split at h
        · cases h; exact ⟨h1, fun p' hp' => by cases hp'⟩
        · obtain ⟨g1, g2⟩ := ih _ _ _ _ _ h
          exact ⟨h1.trans g1, g2⟩
    | none =>
      simp only [nextLoop] at h
      split at h
      · cases h; exact ⟨DMono.of_eq rfl, fun p' hp' => by cases hp'⟩
      · obtain ⟨g1, g2⟩ := ih _ _ _ _ _ h
        exact ⟨(DMono.of_eq rfl).trans g1, g2⟩

/-- `next`: `_deleted` grows; the yielded program is accepted and not deleted -/
theorem next_filter (E : Env S) (fuel : Nat) (g : Gen S) (r : Gen S × Option Prog) (h : next E fuel g = some r) :
    DMono g.st r.1.st ∧ ∀ p, r.2 = some p → E.filter p = true ∧ p ∉ r.1.st.deleted := by
  unfold next at h
  split at h
  · cases h; exact ⟨DMono.refl _, fun p hp => by cases hp⟩
  · split at h
    · exact nextLoop_filter E fuel _ _ _ _ _ _ h
    · split at h
      · cases h
      · next s hp =>
        obtain ⟨g1, g2⟩ := nextLoop_filter E fuel _ _ _ _ _ _ h
        exact ⟨(DMono.of_eq (prologue_deleted E fuel _ _ hp)).trans g1, g2⟩

theorem merge_deleted (g : Gen S) (other : Prog) (ok : NT S Unit → Bool) :
    other ∈ (merge g other ok).st.deleted ∧ DMono g.st (merge g other ok).st := by
  unfold merge
  exact ⟨St.mem_addDeleted _ _, fun q hq => St.addDeleted_mono _ _ _ hq⟩

end PS.Beap
