/- The slack the queue guarantees, in one statement (exact rationals): track, for every stored CostTuple, the
   pushes `(cost, index tuple)` that were merged into it.  Every member of a group is within 1 of the cost of
   its CostTuple, `pop` returns the group of the cheapest CostTuple, hence every popped push is cheaper than
   every push that stays, up to 2 cost units. -/
import PS.Proofs.Enum.CDOrder
namespace PS.CD

/-- a push: the cost it was pushed with and its index tuple -/
abbrev Push := Rat × List Nat

/-- the pushes of a CostTuple as handed to `push` -/
def ghostOf (e : CT Rat) : List Push := e.combs.map fun cb => (e.cost, cb)

/-- a stored CostTuple with the pushes merged into it: it carries exactly their index tuples, and each of them
    was pushed with a cost at most 1 away from the cost of the CostTuple -/
def GroupOK (pr : CT Rat × List Push) : Prop :=
  pr.1.combs = pr.2.map (·.2) ∧ ∀ m ∈ pr.2, m.1 - pr.1.cost ≤ 1 ∧ pr.1.cost - m.1 ≤ 1

/-- `G` tracks the queue: its first components are the stored CostTuples -/
def Tracked (q : Q Rat) (G : List (CT Rat × List Push)) : Prop :=
  (G.map (·.1)).Perm q.tuples ∧ ∀ pr ∈ G, GroupOK pr

theorem tracked_empty (q : Q Rat) (h : q.tuples = []) : Tracked q [] := by
  refine ⟨by simp [h], by simp⟩

theorem exists_split_of_mem_map {β γ : Type} (f : β → γ) {l : List β} {y : γ} (h : y ∈ l.map f) :
    ∃ l1 x l2, l = l1 ++ x :: l2 ∧ f x = y := by
  rw [List.mem_map] at h
  obtain ⟨x, hx, hxy⟩ := h
  obtain ⟨l1, l2, hl⟩ := List.append_of_mem hx
  exact ⟨l1, x, l2, hl, hxy⟩

/-- **push**: the tracking is extended by the pushes of `e`, as a new group or inside one existing group -/
theorem tracked_push (b asserts : Bool) (q q' : Q Rat) (e : CT Rat) (G : List (CT Rat × List Push)) (hq : QWF q)
    (ht : Tracked q G) (h : q.push (ratA b) e asserts = some q') :
    ∃ G', Tracked q' G' ∧ (G'.flatMap (·.2)).Perm (G.flatMap (·.2) ++ ghostOf e) := by
  obtain ⟨_, ⟨added, hrel⟩, _⟩ := qwf_push (ratA b) q q' e asserts hq h
  cases added with
  | true =>
    have hp : q'.tuples.Perm (e :: q.tuples) := hrel
    refine ⟨(e, ghostOf e) :: G, ⟨?_, ?_⟩, ?_⟩
    · simp only [List.map_cons]
      exact (List.Perm.cons e ht.1).trans hp.symm
    · intro pr hpr
      rcases List.mem_cons.mp hpr with h1 | h1
      · subst h1
        refine ⟨by simp [ghostOf, List.map_map, Function.comp_def], ?_⟩
        intro m hm
        simp only [ghostOf, List.mem_map] at hm
        obtain ⟨cb, _, rfl⟩ := hm
        simp only
        constructor <;> grind
      · exact ht.2 pr h1
    · simp only [List.flatMap_cons]
      exact List.perm_append_comm
  | false =>
    obtain ⟨X, Y, val, h1, h2, h3⟩ := hrel
    have hclose : val.cost - e.cost ≤ 1 ∧ e.cost - val.cost ≤ 1 := by
      have h3' : ¬ ((1 : Rat) < (if 0 ≤ val.cost - e.cost then val.cost - e.cost else -(val.cost - e.cost))) := by
        have : (ratA b).lt ((ratA b).ofInt 1) ((ratA b).abs ((ratA b).sub val.cost e.cost)) = false := h3
        simpa [ratA, ratArith] using this
      split at h3'
      · constructor <;> grind
      · constructor <;> grind
    have hmem : val ∈ G.map (·.1) := ht.1.mem_iff.mpr (by rw [h1]; simp)
    obtain ⟨G1, pr, G2, hG, hpr⟩ := exists_split_of_mem_map (fun (x : CT Rat × List Push) => x.1) hmem
    subst hG
    have hprOK := ht.2 pr (by simp)
    refine ⟨G1 ++ ({ val with combs := val.combs ++ e.combs }, pr.2 ++ ghostOf e) :: G2, ⟨?_, ?_⟩, ?_⟩
    · have hp := ht.1
      rw [h1] at hp
      simp only [List.map_append, List.map_cons, hpr] at hp
      have hp2 : (G1.map (·.1) ++ G2.map (·.1)).Perm (X ++ Y) :=
        List.Perm.cons_inv ((List.perm_middle.symm.trans hp).trans List.perm_middle)
      rw [h2]
      simp only [List.map_append, List.map_cons]
      exact (List.perm_middle.trans (List.Perm.cons _ hp2)).trans List.perm_middle.symm
    · intro pr' hpr'
      rcases List.mem_append.mp hpr' with h4 | h4
      · exact ht.2 pr' (by simp [h4])
      · rcases List.mem_cons.mp h4 with h5 | h5
        · subst h5
          refine ⟨?_, ?_⟩
          · simp only [List.map_append]
            rw [← hpr] at *
            rw [hprOK.1]
            simp [ghostOf, List.map_map, Function.comp_def]
          · intro m hm
            simp only
            rcases List.mem_append.mp hm with h6 | h6
            · have := hprOK.2 m h6
              rw [hpr] at this; exact this
            · simp only [ghostOf, List.mem_map] at h6
              obtain ⟨cb, _, rfl⟩ := h6
              simp only
              constructor <;> grind
        · exact ht.2 pr' (by simp [h5])
    · simp only [List.flatMap_append, List.flatMap_cons, List.append_assoc]
      refine List.Perm.append_left _ ?_
      refine List.Perm.append_left _ ?_
      exact List.perm_append_comm

/-- **THE SLACK OF THE QUEUE, one statement**: under the placement invariant, `pop` returns the CostTuple `p` of
    strictly smallest cost together with its group `grp` of pushes: `p` carries exactly their index tuples, each
    was pushed with a cost within 1 of `p.cost`, and every popped push is cheaper than every push that stays in
    the queue, up to 2 cost units (`m.1 < m'.1 + 2`).  Tracking and invariant are kept. -/
theorem tracked_pop (q q' : Q Rat) (p : CT Rat) (G : List (CT Rat × List Push)) (hq : QOrd q) (ht : Tracked q G)
    (h : q.pop = some (p, q')) :
    ∃ grp G', G.Perm ((p, grp) :: G') ∧ Tracked q' G' ∧ QOrd q' ∧ p.combs = grp.map (·.2) ∧
      (∀ m ∈ grp, m.1 - p.cost ≤ 1 ∧ p.cost - m.1 ≤ 1) ∧
      ∀ m ∈ grp, ∀ pr' ∈ G', ∀ m' ∈ pr'.2, m.1 < m'.1 + 2 := by
  obtain ⟨hq', hmin, _⟩ := qord_pop q q' p hq h
  obtain ⟨_, hperm, _⟩ := qwf_pop q q' p hq.wf h
  have hmem : p ∈ G.map (·.1) := ht.1.mem_iff.mpr (hperm.mem_iff.mpr List.mem_cons_self)
  obtain ⟨G1, pr, G2, hG, hpr⟩ := exists_split_of_mem_map (fun (x : CT Rat × List Push) => x.1) hmem
  subst hG
  have hprOK := ht.2 pr (by simp)
  have hp2 : ((G1 ++ G2).map (·.1)).Perm q'.tuples := by
    have hp := ht.1.trans hperm
    simp only [List.map_append, List.map_cons, hpr] at hp
    simpa using List.Perm.cons_inv (List.perm_middle.symm.trans hp)
  have hpair : pr = (p, pr.2) := by rw [← hpr]
  refine ⟨pr.2, G1 ++ G2, ?_, ⟨hp2, fun pr' hpr' => ht.2 pr' ?_⟩, hq', ?_, ?_, ?_⟩
  · rw [← hpair]; exact List.perm_middle
  · rcases List.mem_append.mp hpr' with h1 | h1 <;> simp [h1]
  · rw [← hpr]; exact hprOK.1
  · intro m hm; have := hprOK.2 m hm; rw [hpr] at this; exact this
  · intro m hm pr' hpr' m' hm'
    have h1 := hprOK.2 m hm
    rw [hpr] at h1
    have hpr'G : pr' ∈ G1 ++ pr :: G2 := by
      rcases List.mem_append.mp hpr' with h2 | h2 <;> simp [h2]
    have h2 := (ht.2 pr' hpr'G).2 m' hm'
    have h3 : p.cost < pr'.1.cost := hmin pr'.1 (hp2.mem_iff.mp (List.mem_map_of_mem hpr'))
    grind

end PS.CD
