/- Heap search on unambiguous, acyclic grammars: an exhausted non-terminal has popped every program
   derivable from it (DESIGN B.2: induction on the rank, then a sweep over the argument positions
   along the successor chains). -/
import PS.Proofs.Enum.UOrderRun
import PS.Proofs.Enum.GFrontier
namespace PS.UHS
open PS PS.G
set_option linter.unusedSectionVars false
variable {U π : Type} [DecidableEq U]
variable {E : Env U π} {rank : UNT U → Nat} {Good : π → Prop}

/-! ### induction along a successor chain -/

theorem lookup_of_mem {κ ν : Type} [DecidableEq κ] {t : AList κ ν} (hnd : (AList.keys t).Nodup) {k : κ} {x : ν}
    (h : (k, x) ∈ t) : AList.lookup k t = some x := AList.lookup_of_mem_nodup hnd h

/-- a property that holds for the first pop and is kept along `succ` holds for every popped program -/
theorem chain_induct (t : AList (Option Prog) Prog) (hnd : (AList.keys t).Nodup) (Q : Prog → Prop)
    (h0 : ∀ x, AList.lookup none t = some x → Q x)
    (hs : ∀ y q, Q y → AList.lookup (some y) t = some q → Q q) :
    ∀ (t' : AList (Option Prog) Prog) (k0 : Option Prog), ChainL k0 t' → (∀ e, e ∈ t' → e ∈ t) →
      (k0 = none ∨ ∃ y, k0 = some y ∧ Q y) → ∀ e, e ∈ t' → Q e.2
  | [], _, _, _, _, e, he => by cases he
  | (k', x0) :: rest, k0, hc, hsub, hk, e, he => by
    obtain ⟨rfl, hc'⟩ := hc
    have hl : AList.lookup k' t = some x0 := lookup_of_mem hnd (hsub _ List.mem_cons_self)
    have hq0 : Q x0 := by
      rcases hk with rfl | ⟨y, rfl, hy⟩
      · exact h0 x0 hl
      · exact hs y x0 hy hl
    rcases List.mem_cons.mp he with rfl | he'
    · exact hq0
    · exact chain_induct t hnd Q h0 hs rest (some x0) hc' (fun e he => hsub e (List.mem_cons_of_mem _ he))
        (Or.inr ⟨x0, rfl, hq0⟩) e he'

theorem popped_induct {s : St U π} {nt : UNT U} (hn : NTInv E s nt) (Q : Prog → Prop)
    (h0 : ∀ x, AList.lookup none (s.succOf nt) = some x → Q x)
    (hs : ∀ y q, Q y → AList.lookup (some y) (s.succOf nt) = some q → Q q) : ∀ x, Popped s nt x → Q x := by
  rintro x ⟨k, hk⟩
  exact chain_induct _ hn.keys_nodup Q h0 hs _ none hn.chain (fun _ h => h) (Or.inl rfl) (k, x) (AList.lookup_some_mem hk)

/-- the key `some x` occurs right after an entry with value `x` -/
theorem chainL_key_pred : ∀ (l1 : AList (Option Prog) Prog) (k0 : Option Prog) (x z : Prog) (l2 : AList (Option Prog) Prog),
    ChainL k0 (l1 ++ (some x, z) :: l2) → (l1 = [] ∧ k0 = some x) ∨ ∃ l0 k', l1 = l0 ++ [(k', x)]
  | [], k0, x, z, l2, h => Or.inl ⟨rfl, h.1.symm⟩
  | [(k', y)], k0, x, z, l2, h => by
    have := h.2.1
    simp only [Option.some.injEq] at this
    subst this
    exact Or.inr ⟨[], k', rfl⟩
  | (k', y) :: e2 :: l1, k0, x, z, l2, h => by
    rcases chainL_key_pred (e2 :: l1) (some y) x z l2 h.2 with ⟨h1, _⟩ | ⟨l0, k'', h1⟩
    · cases h1
    · exact Or.inr ⟨(k', y) :: l0, k'', by rw [h1]; rfl⟩

/-- the last popped program has no successor -/
theorem last_no_succ {s : St U π} {nt : UNT U} (hn : NTInv E s nt) (hi : NInv E s) (l : AList (Option Prog) Prog)
    (k : Option Prog) (x : Prog) (ht : s.succOf nt = l ++ [(k, x)]) : AList.lookup (some x) (s.succOf nt) = none := by
  cases hl : AList.lookup (some x) (s.succOf nt) with
  | none => rfl
  | some z =>
    exfalso
    obtain ⟨l1, l2, hsplit⟩ := List.append_of_mem (AList.lookup_some_mem hl)
    have hnd := hn.keys_nodup
    have hc := hn.chain
    rw [hsplit] at hc
    rcases chainL_key_pred l1 none x z l2 hc with ⟨_, h2⟩ | ⟨l0, k', h1⟩
    · cases h2
    · -- two entries with value `x`: `(k', x)` before the key `some x`, and the last entry `(k, x)`
      have hmem1 : (k', x) ∈ s.succOf nt := by rw [hsplit, h1]; simp
      have hmem2 : (k, x) ∈ s.succOf nt := by rw [ht]; simp
      have hkk : k' = k := hi.succ_inj nt k' k x (lookup_of_mem hnd hmem1) (lookup_of_mem hnd hmem2)
      subst hkk
      -- the last entry lies in `(some x, z) :: l2`
      have hlast : (k', x) ∈ (some x, z) :: l2 := by
        have e1 : l ++ [(k', x)] = (l0 ++ [(k', x)]) ++ ((some x, z) :: l2) := by rw [← ht, hsplit, h1]
        have := congrArg List.getLast? e1
        simp only [List.getLast?_append, List.getLast?_singleton, Option.some_or] at this
        cases hg : ((some x, z) :: l2).getLast? with
        | none => simp at hg
        | some y =>
          rw [hg] at this
          simp only [Option.some_or, Option.some.injEq] at this
          rw [this]
          exact List.mem_of_getLast? hg
      rw [hsplit, h1] at hnd
      unfold AList.keys at hnd
      rw [List.map_append, List.nodup_append] at hnd
      refine hnd.2.2 k' ?_ k' (List.mem_map.mpr ⟨(k', x), hlast, rfl⟩) rfl
      simp

/-! ### an exhausted non-terminal is complete -/

theorem set_self' {α : Type} : ∀ (l : List α) (i : Nat) (a : α), l[i]? = some a → l.set i a = l
  | [], _, _, h => by simp at h
  | x :: xs, 0, a, h => by simp at h; simp [h]
  | x :: xs, i + 1, a, h => by simp at h; simp [set_self' xs i a h]

theorem snoc_of_ne_nil {α : Type} (l : List α) (h : l ≠ []) : ∃ l' x, l = l' ++ [x] :=
  ⟨l.dropLast, l.getLast h, (List.dropLast_concat_getLast h).symm⟩

theorem derList_of_forall (E : Env U π) : ∀ (a : List Prog) (v : List (UNT U)), a.length = v.length →
    (∀ (j : Nat) (aj : Prog) (sj : UNT U), a[j]? = some aj → v[j]? = some sj → Der E aj sj) → DerList E a v
  | [], [], _, _ => trivial
  | [], _ :: _, h, _ => by simp at h
  | _ :: _, [], h, _ => by simp at h
  | x :: a, y :: v, h, hp =>
    ⟨hp 0 x y rfl rfl, derList_of_forall E a v (by simpa using h) (fun j aj sj h1 h2 => hp (j + 1) aj sj h1 h2)⟩

/-- **an exhausted non-terminal has popped every derivable program all of whose sub-programs are accepted
    by the filter** (without filter: every derivable program) -/
theorem exhausted_complete (H : OHyp E rank Good) {s : St U π} (hb : Base E s) (hall : All E rank s) :
    ∀ (r : Nat) (nt : UNT U), rank nt = r → Full E rank s nt → s.heapOf nt = [] → ∀ p, Der E p nt →
      PS.HG.clean E.filter p = true → Popped s nt p := by
  intro r
  induction r using Nat.strongRecOn with
  | _ r ih =>
  intro nt hr hf hheap p hder hclean
  obtain ⟨hn, hlive, hc⟩ := hf
  obtain ⟨F, b⟩ := p
  obtain ⟨v, w, hm, hdl⟩ := (der_node E F b nt).mp hder
  have hlen : b.length = v.length := derList_length E b v hdl
  obtain ⟨kids0, hk0seen, hk0len, hk0first⟩ := hc.initial F v w hm
  have hrankj : ∀ (j : Nat) (sj : UNT U), v[j]? = some sj → rank sj < rank nt :=
    fun j sj h => H.acyclic nt F v w hm sj (List.mem_of_getElem? h)
  have hnoheap : ∀ q, q ∉ s.heapProgs nt := by
    intro q h1; unfold St.heapProgs at h1; rw [hheap] at h1; cases h1
  have hseenPop : ∀ q, q ∈ s.seenOf nt → Popped s nt q ∨ E.filter q = false := by
    intro q hq
    rcases hc.cover q hq with h1 | h1
    · exact absurd h1 (hnoheap q)
    · exact h1
  have hfullj : ∀ (j : Nat) (sj : UNT U), v[j]? = some sj → Full E rank s sj := by
    intro j sj hsj
    have hj : j < v.length := (List.getElem?_eq_some_iff.mp hsj).1
    have hk0 : kids0[j]? = some (kids0[j]'(by omega)) := List.getElem?_eq_getElem (by omega)
    have hf0 := hk0first j _ sj hk0 hsj
    rcases hall sj with hu | hfu
    · rw [hu.2.2.1] at hf0; cases hf0
    · exact hfu
  have hdone : ∀ a, Tree.node F a ∈ s.seenOf nt → DerList E a v → ∀ (j : Nat) (aj : Prog) (sj : UNT U),
      a[j]? = some aj → v[j]? = some sj → SuccDone s nt F a j aj sj := by
    intro a ha hda j aj sj haj hsj
    have hp : Proc s nt (Tree.node F a) := ⟨ha, hnoheap _⟩
    obtain ⟨v', hv'⟩ := hc.keyed _ ha
    have hko := hb.sinv.keys_ok nt F a v' hv'
    obtain ⟨w', hw'⟩ := hko.1
    obtain ⟨rfl, _⟩ := H.ualt nt F a v' w' v w hw' hm hko.2 hda
    exact hc.succs F a v' hp hv' j aj sj haj hsj (hrankj j sj hsj) (by intro e; cases e)
  have hderl : ∀ a : List Prog, a.length = v.length →
      (∀ (j : Nat) (aj : Prog) (sj : UNT U), a[j]? = some aj → v[j]? = some sj → Popped s sj aj) → DerList E a v :=
    fun a hl hp => derList_of_forall E a v hl (fun j aj sj h1 h2 => (hp j aj sj h1 h2).der hb.sinv)
  -- the sweep over the argument positions
  have sweep : ∀ m, m ≤ v.length → ∀ a : List Prog, a.length = v.length →
      (∀ (j : Nat) (aj : Prog) (sj : UNT U), a[j]? = some aj → v[j]? = some sj → Popped s sj aj) →
      (∀ (j : Nat) (aj : Prog), m ≤ j → a[j]? = some aj → kids0[j]? = some aj) → Tree.node F a ∈ s.seenOf nt := by
    intro m
    induction m with
    | zero =>
      intro _ a hla _ hfirst
      have : a = kids0 := by
        apply List.ext_getElem?
        intro j
        cases haj : a[j]? with
        | some aj => exact (hfirst j aj (Nat.zero_le _) haj).symm
        | none =>
          have : a.length ≤ j := List.getElem?_eq_none_iff.mp haj
          exact (List.getElem?_eq_none_iff.mpr (by omega)).symm
      rw [this]; exact hk0seen
    | succ m ihm =>
      intro hm1 a hla hpop hfirst
      have hmv : m < v.length := by omega
      have hsm : v[m]? = some (v[m]'hmv) := List.getElem?_eq_getElem hmv
      have ham : a[m]? = some (a[m]'(by omega)) := List.getElem?_eq_getElem (by omega)
      have hnm := (hfullj m _ hsm).1
      have key : ∀ x, Popped s (v[m]'hmv) x → Popped s (v[m]'hmv) x ∧ Tree.node F (a.set m x) ∈ s.seenOf nt := by
        apply popped_induct hnm (fun x => Popped s (v[m]'hmv) x ∧ Tree.node F (a.set m x) ∈ s.seenOf nt)
        · intro x hx
          refine ⟨⟨none, hx⟩, ?_⟩
          apply ihm (by omega) (a.set m x) (by simpa using hla)
          · intro j aj sj haj hsj
            by_cases hjm : j = m
            · subst hjm
              rw [List.getElem?_set_self (by omega)] at haj
              cases haj
              rw [hsm] at hsj; cases hsj
              exact ⟨none, hx⟩
            · rw [List.getElem?_set_ne (fun e => hjm e.symm)] at haj
              exact hpop j aj sj haj hsj
          · intro j aj hj haj
            by_cases hjm : j = m
            · subst hjm
              rw [List.getElem?_set_self (by omega)] at haj
              cases haj
              have hk0 : kids0[j]? = some (kids0[j]'(by omega)) := List.getElem?_eq_getElem (by omega)
              have := hk0first j _ _ hk0 hsm
              rw [hx] at this
              cases this
              exact hk0
            · rw [List.getElem?_set_ne (fun e => hjm e.symm)] at haj
              exact hfirst j aj (by omega) haj
        · intro y q ⟨hyp, hy⟩ hyq
          refine ⟨⟨some y, hyq⟩, ?_⟩
          have hla' : (a.set m y).length = v.length := by simpa using hla
          have hda : DerList E (a.set m y) v := by
            apply hderl _ hla'
            intro j aj sj haj hsj
            by_cases hjm : j = m
            · subst hjm
              rw [List.getElem?_set_self (by omega)] at haj
              cases haj
              rw [hsm] at hsj; cases hsj
              exact hyp
            · rw [List.getElem?_set_ne (fun e => hjm e.symm)] at haj
              exact hpop j aj sj haj hsj
          rcases hdone (a.set m y) hy hda m y _ (by rw [List.getElem?_set_self (by omega)]) hsm with ⟨q', h1, h2⟩ | ⟨_, _, h3⟩
          · rw [hyq] at h1
            cases h1
            rw [List.set_set] at h2
            exact h2
          · rw [hyq] at h3; cases h3
      have := (key _ (hpop m _ _ ham hsm)).2
      rw [set_self' a m _ ham] at this
      exact this
  -- every argument of the target program was popped for its non-terminal
  have hbpop : ∀ (j : Nat) (bj : Prog) (sj : UNT U), b[j]? = some bj → v[j]? = some sj → Popped s sj bj := by
    intro j bj sj hbj hsj
    have hfj := hfullj j sj hsj
    have hjv : j < v.length := (List.getElem?_eq_some_iff.mp hsj).1
    obtain ⟨l, ⟨k, x⟩, hlx⟩ := snoc_of_ne_nil _ hfj.2.1
    have hxp : Popped s sj x := ⟨k, lookup_of_mem hfj.1.keys_nodup (by rw [hlx]; simp)⟩
    have hk0pop : ∀ (j' : Nat) (aj : Prog) (sj' : UNT U), kids0[j']? = some aj → v[j']? = some sj' → Popped s sj' aj :=
      fun j' aj sj' h1 h2 => ⟨none, hk0first j' aj sj' h1 h2⟩
    have hla : (kids0.set j x).length = v.length := by simpa using hk0len
    have hpopa : ∀ (j' : Nat) (aj : Prog) (sj' : UNT U), (kids0.set j x)[j']? = some aj → v[j']? = some sj' → Popped s sj' aj := by
      intro j' aj sj' haj hsj'
      by_cases hjm : j' = j
      · subst hjm
        rw [List.getElem?_set_self (by omega)] at haj
        cases haj
        rw [hsj] at hsj'; cases hsj'
        exact hxp
      · rw [List.getElem?_set_ne (fun e => hjm e.symm)] at haj
        exact hk0pop j' aj sj' haj hsj'
    have hseen := sweep v.length (Nat.le_refl _) (kids0.set j x) hla hpopa
      (by intro j' aj hj' haj; have := (List.getElem?_eq_some_iff.mp haj).1; omega)
    rcases hdone _ hseen (hderl _ hla hpopa) j x sj (by rw [List.getElem?_set_self (by omega)]) hsj with ⟨q, h1, _⟩ | ⟨_, h2, _⟩
    · rw [last_no_succ hfj.1 hb.ninv l k x hlx] at h1; cases h1
    · have hcl : PS.HG.clean E.filter bj = true := by
        rw [PS.HG.clean, Bool.and_eq_true] at hclean
        exact PS.HG.cleanList_get E.filter b j bj hclean.2 hbj
      exact ih (rank sj) (by rw [← hr]; exact hrankj j sj hsj) sj rfl hfj h2 bj (derList_get E b v j bj sj hdl hbj hsj) hcl
  rcases hseenPop _ (sweep v.length (Nat.le_refl _) b hlen hbpop
    (by intro j' aj hj' haj; have := (List.getElem?_eq_some_iff.mp haj).1; omega)) with h1 | h1
  · exact h1
  · rw [PS.HG.clean_self E.filter _ hclean] at h1; cases h1

end PS.UHS
