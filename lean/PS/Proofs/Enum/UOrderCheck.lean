/- Heap search on unambiguous, acyclic grammars: the hypotheses of the order theorem as Boolean checks
   on a literal grammar; the instance of heap search (probabilities). -/
import PS.Proofs.Enum.UOrderRun
import PS.Proofs.Enum.UUnamb
namespace PS.UHS
open PS PS.G
set_option linter.unusedSectionVars false
variable {U π : Type} [DecidableEq U]

/-- the alternatives of a symbol have distinct keys (`tags[S][P]` is a dict) -/
def altKeysB (G : UG U) : Bool := G.rules.all (fun r => r.2.all (fun a => decide ((a.2.map (·.1)).Nodup)))

theorem altKeys_of_check (E : Env U π) (h : altKeysB E.G = true) : ∀ nt F, ((altsOf E nt F).map (·.1)).Nodup := by
  intro nt F
  unfold altsOf
  cases hl : AList.lookup nt E.G.rules with
  | none => simp
  | some rs =>
    simp only
    cases hl2 : AList.lookup F rs with
    | none => simp
    | some a =>
      have r1 := List.all_eq_true.mp h (nt, rs) (AList.lookup_some_mem hl)
      have r2 := List.all_eq_true.mp r1 (F, a) (AList.lookup_some_mem hl2)
      simpa using r2

theorem ualt_of_budet (E : Env U π) (hdet : BUDet E) (hkeys : ∀ nt F, ((altsOf E nt F).map (·.1)).Nodup) : UAlt E := by
  intro nt F ks v w v' w' hm hm' hl hl'
  have hv := derList_unique E hdet ks v v' hl hl'
  subst hv
  refine ⟨rfl, ?_⟩
  -- two entries with the same key in a list with distinct keys
  have := hkeys nt F
  generalize altsOf E nt F = l at hm hm' this
  induction l with
  | nil => cases hm
  | cons a l ih =>
    simp only [List.map_cons, List.nodup_cons] at this
    rcases List.mem_cons.mp hm with rfl | hm1
    · rcases List.mem_cons.mp hm' with h2 | hm2
      · exact (congrArg Prod.snd h2).symm
      · exact absurd (List.mem_map.mpr ⟨(v, w'), hm2, rfl⟩) this.1
    · rcases List.mem_cons.mp hm' with rfl | hm2
      · exact absurd (List.mem_map.mpr ⟨(v, w), hm1, rfl⟩) this.1
      · exact ih hm1 hm2 this.2

def flatB (G : UG U) : Bool :=
  G.rules.all (fun r => decide ((r.2.flatMap fun x => x.2.map fun vw => (x.1, vw.1)).Nodup))

theorem flat_of_check (E : Env U π) (h : flatB E.G = true) : ∀ nt rs, AList.lookup nt E.G.rules = some rs →
    (rs.flatMap fun r => r.2.map fun vw => (r.1, vw.1)).Nodup := by
  intro nt rs hl
  have := List.all_eq_true.mp h (nt, rs) (AList.lookup_some_mem hl)
  simpa using this

def leafOneB (G : UG U) : Bool :=
  G.rules.all (fun r => r.2.all (fun a => a.2.all (fun x => !x.1.isEmpty || a.2.length == 1)))

theorem leafOne_of_check (E : Env U π) (h : leafOneB E.G = true) :
    ∀ nt F w, ([], w) ∈ altsOf E nt F → altsOf E nt F = [([], w)] := by
  intro nt F w hm
  unfold altsOf at hm ⊢
  cases hl : AList.lookup nt E.G.rules with
  | none => simp [hl] at hm
  | some rs =>
    simp only [hl] at hm ⊢
    cases hl2 : AList.lookup F rs with
    | none => simp [hl2] at hm
    | some a =>
      simp only [hl2, Option.getD_some] at hm ⊢
      have r1 := List.all_eq_true.mp h (nt, rs) (AList.lookup_some_mem hl)
      have r2 := List.all_eq_true.mp r1 (F, a) (AList.lookup_some_mem hl2)
      have r3 := List.all_eq_true.mp r2 ([], w) hm
      simp only [List.isEmpty_nil, Bool.not_true, Bool.false_or, beq_iff_eq] at r3
      match a, r3, hm with
      | [x], _, hm => simp only [List.mem_singleton] at hm; rw [hm]

/-- the weights of the rules and of the start symbols are non-negative -/
def weightsB (G : UG U) : Bool :=
  G.rules.all (fun r => r.2.all (fun a => a.2.all (fun x => decide (0 ≤ x.2)))) &&
  G.starts.all (fun x => decide (0 ≤ x.2))

theorem weights_of_check (E : Env U π) (h : weightsB E.G = true) :
    (∀ nt F v w, (v, w) ∈ altsOf E nt F → 0 ≤ w) ∧ (∀ nt w, startW E nt = some w → 0 ≤ w) := by
  simp only [weightsB, Bool.and_eq_true] at h
  constructor
  · intro nt F v w hm
    obtain ⟨rs, h1, a, h2, h3⟩ := altsOf_mem E nt F _ hm
    have r1 := List.all_eq_true.mp h.1 (nt, rs) h1
    have r2 := List.all_eq_true.mp r1 (F, a) h2
    have r3 := List.all_eq_true.mp r2 (v, w) h3
    simpa using r3
  · intro nt w hw
    have := List.all_eq_true.mp h.2 (nt, w) (AList.lookup_some_mem hw)
    simpa using this

/-- **heap search** (`UHeapSearch`, threshold 0, no filter) satisfies the hypotheses of the order theorem -/
theorem rhyp_prob (E : Env U Rat) (rank : UNT U → Nat) (hops : E.ops = probOps 0) (hk : E.kway = true)
    (c1 : rowsB E.G = true) (c2 : arityB E.G = true) (c3 : acyclicB E.G rank = true) (c4 : budetB E.G = true)
    (c5 : altKeysB E.G = true) (c6 : flatB E.G = true) (c7 : leafOneB E.G = true) (c8 : weightsB E.G = true)
    (c9 : (E.G.starts.map (·.1)).Nodup) : RHyp E rank (fun v : Rat => 0 ≤ v) := by
  have hdet := budet_of_check E c4
  obtain ⟨hw1, hw2⟩ := weights_of_check E c8
  refine ⟨⟨GHyp.of_checks E c1 c2 hk, acyclic_of_check E rank c3, ?_, by rw [hops]; rfl,
    ualt_of_budet E hdet (altKeys_of_check E c5), flat_of_check E c6, leafOne_of_check E c7, ?_, ?_, ?_, ?_⟩,
    sdisj_of_budet E hdet, c9, ?_, ?_⟩
  · apply Heapq.WeakOrder.on
    rw [hops]
    constructor
    · intro a b h
      simp only [probOps, decide_eq_true_eq, decide_eq_false_iff_not, Rat.not_lt] at h ⊢
      exact Rat.le_of_lt h
    · intro a b c h1 h2
      simp only [probOps, decide_eq_false_iff_not, Rat.not_lt] at h1 h2 ⊢
      exact Rat.le_trans h2 h1
  · intro nt F v w hm; rw [hops]; exact hw1 nt F v w hm
  · intro a b ha hb; rw [hops]; exact Rat.mul_nonneg ha hb
  · intro a b c ha hb hc h
    rw [hops] at h ⊢
    simp only [probOps, decide_eq_false_iff_not, Rat.not_lt] at h ⊢
    exact Rat.mul_le_mul_of_nonneg_right h hc
  · intro a b c ha hb hc h
    rw [hops] at h ⊢
    simp only [probOps, decide_eq_false_iff_not, Rat.not_lt] at h ⊢
    exact Rat.mul_le_mul_of_nonneg_left h hc
  · intro a b nt w hw ha hb h
    rw [hops] at h ⊢
    simp only [probOps, decide_eq_false_iff_not, Rat.not_lt] at h ⊢
    exact Rat.mul_le_mul_of_nonneg_right h (hw2 nt w hw)
  · intro a nt w hw ha
    rw [hops]
    exact Rat.mul_nonneg ha (hw2 nt w hw)

end PS.UHS
