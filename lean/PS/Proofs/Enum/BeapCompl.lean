/- Completeness of beap search, part 2: the invariants.
   * `CR S`  (completed region): every clean program of `S` cheaper than the last cost of `S` is in the bank entry
     of its cost;
   * `FR S`  (frontier): every clean program of `S` at least as expensive as the last cost is in the last bank entry
     or has, in the queue of `S`, an element of its rule whose combination lies on the producer chain of its own
     combination (`BelowArgs`);
   * `EInv`: bookkeeping of `_empties`, `_deleted`, the bank keys. -/
import PS.Proofs.Enum.BeapComplBase
namespace PS.Beap
open PS PS.G PS.Heapq
set_option linter.unusedSectionVars false
variable {S : Type} [DecidableEq S]

/-- `query(S, ci)` has been entered: the bank has the key or the index is marked empty -/
def Entered (s : St S) (nt : NT S Unit) (ci : Nat) : Prop :=
  (AList.lookup ci (s.bankOf nt)).isSome = true ∨ (s.emptiesOf nt).contains ci = true

structure EInv (E : Env S) (s : St S) : Prop where
  e2 : ∀ nt ci, (s.emptiesOf nt).contains ci = true → s.bankAt nt ci = []
  d1 : ∀ q, q ∈ s.deleted → E.filter q = false
  be : ∀ nt ci, Entered s nt ci → ci < (s.clOf nt).length
  lb : LB E s

def CR (E : Env S) (s : St S) (nt : NT S Unit) : Prop :=
  ∀ p x l, clean E.filter p = true → costOf E p nt = some x → (s.clOf nt).getLast? = some l → x < l.fin →
    ∃ i e, (s.clOf nt)[i]? = some e ∧ e.fin = x ∧ p ∈ s.bankAt nt i

/-- the frontier clause for one program -/
def Covered (E : Env S) (s : St S) (nt : NT S Unit) (f : Sym) (kids : List Prog) (x : Rat) (l : Cost) (rl : List (Ty × S) × Unit) : Prop :=
  (x = l.fin ∧ Tree.node f kids ∈ s.bankAt nt ((s.clOf nt).length - 1)) ∨
  ∃ el, el ∈ s.queueOf nt ∧ el.P = f ∧ BelowArgs E s rl.1 el.comb kids

def FR (E : Env S) (s : St S) (nt : NT S Unit) : Prop :=
  (∀ f kids x l rl, clean E.filter (.node f kids) = true → costOf E (.node f kids) nt = some x →
    (s.clOf nt).getLast? = some l → l.fin ≤ x → E.G.rule? nt f = some rl → Covered E s nt f kids x l rl) ∧
  (Entered s nt ((s.clOf nt).length - 1) → s.queueOf nt = []) ∧
  (∀ ci, AList.lookup ci (s.bankOf nt) = some [] → (s.emptiesOf nt).contains ci = true)

/-- the frontier of the non-terminals whose last cost is below the bound -/
def FRset (E : Env S) (x : Rat) (s : St S) : Prop := ∀ nt, ¬ lastGe s nt x → FR E s nt

structure WInv (E : Env S) (s : St S) : Prop where
  c : CInv E s
  o : OI s
  e : EInv E s
  cr : ∀ nt, CR E s nt

/-- the four tables of a non-terminal are the same in both states -/
def Same4 (s s' : St S) (nt : NT S Unit) : Prop :=
  s'.clOf nt = s.clOf nt ∧ s'.queueOf nt = s.queueOf nt ∧ s'.bankOf nt = s.bankOf nt ∧ s'.emptiesOf nt = s.emptiesOf nt

/-- protected non-terminals keep their four tables -/
def Keep4 (x : Rat) (s s' : St S) : Prop := ∀ nt, lastGe s nt x → Same4 s s' nt

theorem Same4.refl (s : St S) (nt : NT S Unit) : Same4 s s nt := ⟨rfl, rfl, rfl, rfl⟩
theorem Same4.trans {a b c : St S} {nt : NT S Unit} (h1 : Same4 a b nt) (h2 : Same4 b c nt) : Same4 a c nt :=
  ⟨h2.1.trans h1.1, h2.2.1.trans h1.2.1, h2.2.2.1.trans h1.2.2.1, h2.2.2.2.trans h1.2.2.2⟩
theorem Same4.bankAt {s s' : St S} {nt : NT S Unit} (h : Same4 s s' nt) (ci : Nat) : s'.bankAt nt ci = s.bankAt nt ci := by
  unfold St.bankAt; rw [h.2.2.1]

theorem Keep4.refl (x : Rat) (s : St S) : Keep4 x s s := fun nt _ => Same4.refl s nt
theorem Keep4.trans {x : Rat} {a b c : St S} (h1 : Keep4 x a b) (h2 : Keep4 x b c) : Keep4 x a c := by
  intro nt hl
  have e1 := h1 nt hl
  have hl' : lastGe b nt x := by obtain ⟨c0, g1, g2⟩ := hl; exact ⟨c0, by rw [e1.1]; exact g1, g2⟩
  exact e1.trans (h2 nt hl')
theorem Keep4.mono {x y : Rat} {s s' : St S} (hxy : y ≤ x) (h : Keep4 y s s') : Keep4 x s s' := by
  intro nt ⟨c0, g1, g2⟩
  exact h nt ⟨c0, g1, by grind⟩

/-- the completed region of a non-terminal whose cost list and banks did not change -/
theorem CR.of_same {E : Env S} {s s' : St S} {nt : NT S Unit} (h : CR E s nt) (hc : s'.clOf nt = s.clOf nt)
    (hb : ∀ ci, s'.bankAt nt ci = s.bankAt nt ci) : CR E s' nt := by
  intro p x l hcl hx hl hlt
  rw [hc] at hl
  obtain ⟨i, e, g1, g2, g3⟩ := h p x l hcl hx hl hlt
  exact ⟨i, e, by rw [hc]; exact g1, g2, by rw [hb]; exact g3⟩

/-- the frontier of a non-terminal whose four tables did not change, the other cost lists being only extended -/
theorem FR.of_same {E : Env S} {s s' : St S} {nt : NT S Unit} (h : FR E s nt) (h4 : Same4 s s' nt) (he : Ext s s') : FR E s' nt := by
  obtain ⟨hc, hq, hb, hem⟩ := h4
  refine ⟨fun f kids x l rl hcl hx hl hle hr => ?_, fun hen => ?_, fun ci hci => ?_⟩
  · rw [hc] at hl
    rcases h.1 f kids x l rl hcl hx hl hle hr with ⟨g1, g2⟩ | ⟨el, g1, g2, g3⟩
    · left; refine ⟨g1, ?_⟩
      rw [hc]; unfold St.bankAt; rw [hb]; exact g2
    · right; exact ⟨el, by rw [hq]; exact g1, g2, BelowArgs.ext he _ _ _ g3⟩
  · rw [hq]
    apply h.2.1
    unfold Entered at hen ⊢
    rw [hc, hb, hem] at hen; exact hen
  · rw [hem]; apply h.2.2 ci; rw [← hb]; exact hci

theorem CR.mono {E : Env S} {s s' : St S} {nt : NT S Unit} (h : CR E s nt) (hc : s'.clOf nt = s.clOf nt)
    (hb : ∀ ci p, p ∈ s.bankAt nt ci → p ∈ s'.bankAt nt ci) : CR E s' nt := by
  intro p x l hcl hx hl hlt
  rw [hc] at hl
  obtain ⟨i, e, g1, g2, g3⟩ := h p x l hcl hx hl hlt
  exact ⟨i, e, by rw [hc]; exact g1, g2, hb i p g3⟩

theorem clean_root (f : Prog → Bool) (p : Prog) (h : clean f p = true) : f p = true := by
  cases p with
  | node F kids => simp only [clean, Bool.and_eq_true] at h; exact h.1

theorem clean_kids (f : Prog → Bool) (F : Sym) (kids : List Prog) (h : clean f (.node F kids) = true) : cleanList f kids = true := by
  simp only [clean, Bool.and_eq_true] at h; exact h.2

/-- the invariant of a running `query(nt, fr.ci)` (the frame works on the last cost index of `nt`) -/
structure FrK (E : Env S) (s : St S) (nt : NT S Unit) (fr : Frame) : Prop where
  fo : FrO s nt fr
  fc : FrC E s nt fr
  fin : fr.cost.inf = 0
  hg : fr.hasGen = false → s.bankAt nt fr.ci = []
  hg2 : fr.hasGen = true → s.bankAt nt fr.ci ≠ []
  ns : (AList.lookup fr.ci (s.bankOf nt)).isSome = true → fr.noSucc = false
  ne : (s.emptiesOf nt).contains fr.ci = false
  e4 : ∀ ci', ci' ≠ fr.ci → AList.lookup ci' (s.bankOf nt) = some [] → (s.emptiesOf nt).contains ci' = true
  pe : fr.pending ≠ [] → (AList.lookup fr.ci (s.bankOf nt)).isSome = true
  frf : ∀ f kids x rl, clean E.filter (.node f kids) = true → costOf E (.node f kids) nt = some x → fr.cost.fin ≤ x →
    E.G.rule? nt f = some rl →
      (x = fr.cost.fin ∧ Tree.node f kids ∈ s.bankAt nt fr.ci) ∨
      (∃ el, el ∈ s.queueOf nt ∧ el.P = f ∧ BelowArgs E s rl.1 el.comb kids) ∨
      (∃ a, a ∈ fr.pending ∧ Tree.node f kids = mkProg fr.P fr.isFun a)

theorem bankAt_of_lookup (s : St S) (nt : NT S Unit) (ci : Nat) (h : AList.lookup ci (s.bankOf nt) = none) : s.bankAt nt ci = [] := by
  simp [St.bankAt, h]

theorem lookup_setBank_self (s : St S) (nt : NT S Unit) (ci : Nat) (ps : List Prog) :
    AList.lookup ci ((s.setBank nt ci ps).bankOf nt) = some ps := by
  rw [St.bankOf_setBank]; simp only [if_true]; exact AList.lookup_insert_self ci ps _

theorem lookup_setBank_other (s : St S) (nt nt' : NT S Unit) (ci ci' : Nat) (ps : List Prog) (h : ¬ (nt' = nt ∧ ci' = ci)) :
    AList.lookup ci' ((s.setBank nt ci ps).bankOf nt') = AList.lookup ci' (s.bankOf nt') := by
  rw [St.bankOf_setBank]
  by_cases hn : nt' = nt
  · subst hn
    simp only [if_true]
    have : ci' ≠ ci := fun e => h ⟨rfl, e⟩
    exact AList.lookup_insert_ne ps _ this
  · simp [hn]

theorem BelowArgs.setBank {E : Env S} {s : St S} (nt : NT S Unit) (ci : Nat) (ps : List Prog) {as : List (Ty × S)} {cs : List Nat}
    {ks : List Prog} (h : BelowArgs E s as cs ks) : BelowArgs E (s.setBank nt ci ps) as cs ks :=
  BelowArgs.ext (s := s) (s' := s.setBank nt ci ps) (Ext.of_eq fun _ => rfl) _ _ _ h
theorem BelowArgs.setQueue {E : Env S} {s : St S} (nt : NT S Unit) (q : List HeapEl) {as : List (Ty × S)} {cs : List Nat}
    {ks : List Prog} (h : BelowArgs E s as cs ks) : BelowArgs E (s.setQueue nt q) as cs ks :=
  BelowArgs.ext (s := s) (s' := s.setQueue nt q) (Ext.of_eq fun _ => rfl) _ _ _ h

/-- the product loop keeps the completeness invariants: a clean program is never skipped -/
theorem emit_k (E : Env S) (nt : NT S Unit) (fr : Frame) :
    ∀ (pend : List (List Prog)) (s : St S), EInv E s → (∀ S', CR E s S') → FrK E s nt { fr with pending := pend } →
      EInv E (emit E nt fr.ci fr.P fr.isFun s pend).1 ∧ (∀ S', CR E (emit E nt fr.ci fr.P fr.isFun s pend).1 S') ∧
      (∀ S', S' ≠ nt → Same4 s (emit E nt fr.ci fr.P fr.isFun s pend).1 S') ∧
      (emit E nt fr.ci fr.P fr.isFun s pend).1.emptiesOf nt = s.emptiesOf nt ∧
      (∀ ci', ci' ≠ fr.ci → AList.lookup ci' ((emit E nt fr.ci fr.P fr.isFun s pend).1.bankOf nt) = AList.lookup ci' (s.bankOf nt)) ∧
      (match (emit E nt fr.ci fr.P fr.isFun s pend).2 with
       | none => FrK E (emit E nt fr.ci fr.P fr.isFun s pend).1 nt { fr with pending := [] }
       | some (_, rest) => FrK E (emit E nt fr.ci fr.P fr.isFun s pend).1 nt { fr with hasGen := true, pending := rest }) := by
  intro pend
  induction pend with
  | nil =>
    intro s he hcr hk
    exact ⟨he, hcr, fun S' _ => Same4.refl s S', rfl, fun _ _ => rfl, hk⟩
  | cons a rest ih =>
    intro s he hcr hk
    -- dropping the first tuple when the program it builds is not clean
    have hdrop : ∀ s' : St S, (∀ S', s'.clOf S' = s.clOf S') → (∀ S', s'.queueOf S' = s.queueOf S') → (∀ S', s'.bankOf S' = s.bankOf S') →
        (∀ S', s'.emptiesOf S' = s.emptiesOf S') → E.filter (mkProg fr.P fr.isFun a) = false → FrK E s' nt { fr with pending := rest } := by
      intro s' hc hq hb hem hrej
      have hba : ∀ S' ci, s'.bankAt S' ci = s.bankAt S' ci := fun S' ci => by unfold St.bankAt; rw [hb]
      refine ⟨⟨by rw [hc]; exact hk.fo.1, by rw [hc]; exact hk.fo.2⟩, ⟨by rw [hc]; exact hk.fc.1, fun a' ha' => hk.fc.2 a' (List.mem_cons_of_mem _ ha')⟩,
        hk.fin, fun h => by rw [hba]; exact hk.hg h, fun h => by rw [hba]; exact hk.hg2 h, fun h => hk.ns (by rw [← hb]; exact h),
        by rw [hem]; exact hk.ne, fun ci' h1 h2 => by rw [hem]; exact hk.e4 ci' h1 (by rw [← hb]; exact h2),
        fun h => by rw [hb]; exact hk.pe (by simp), fun f kids x rl hcl hx hle hr => ?_⟩
      rcases hk.frf f kids x rl hcl hx hle hr with g | ⟨el, g1, g2, g3⟩ | ⟨a', g1, g2⟩
      · exact Or.inl ⟨g.1, by rw [hba]; exact g.2⟩
      · exact Or.inr (Or.inl ⟨el, by rw [hq]; exact g1, g2, BelowArgs.ext (Ext.of_eq hc) _ _ _ g3⟩)
      · rcases List.mem_cons.mp g1 with rfl | g1'
        · exfalso
          have := clean_root E.filter _ hcl
          rw [g2, hrej] at this; cases this
        · exact Or.inr (Or.inr ⟨a', g1', g2⟩)
    unfold emit
    simp only
    split
    · next hdel =>
      have hrej : E.filter (mkProg fr.P fr.isFun a) = false := he.d1 _ (by simpa using hdel)
      exact ih s he hcr (hdrop s (fun _ => rfl) (fun _ => rfl) (fun _ => rfl) (fun _ => rfl) hrej)
    · split
      · next hdel hfil =>
        have hrej : E.filter (mkProg fr.P fr.isFun a) = false := by simpa using hfil
        have he' : EInv E (s.addDeleted (mkProg fr.P fr.isFun a)) := by
          refine ⟨fun nt' ci h => ?_, fun q hq => ?_, fun nt' ci h => ?_, ?_⟩
          · rw [St.addDeleted_bankAt]; exact he.e2 nt' ci (by rw [← St.addDeleted_emptiesOf]; exact h)
          · rcases (St.mem_addDeleted_iff s _ q).mp hq with rfl | h
            · exact hrej
            · exact he.d1 q h
          · rw [St.addDeleted_clOf]
            apply he.be nt' ci
            unfold Entered at h ⊢
            rw [St.addDeleted_bankOf, St.addDeleted_emptiesOf] at h; exact h
          · intro nt' c rest' p x hc hx
            rw [St.addDeleted_clOf] at hc
            exact he.lb nt' c rest' p x hc hx
        have hcr' : ∀ S', CR E (s.addDeleted (mkProg fr.P fr.isFun a)) S' := fun S' =>
          (hcr S').of_same (St.addDeleted_clOf s S' _) (fun ci => St.addDeleted_bankAt s S' _ ci)
        obtain ⟨q1, q2, q3, q4, q5, q6⟩ := ih _ he' hcr' (hdrop _ (fun S' => St.addDeleted_clOf s S' _) (fun S' => St.addDeleted_queueOf s S' _)
          (fun S' => St.addDeleted_bankOf s S' _) (fun S' => St.addDeleted_emptiesOf s S' _) hrej)
        refine ⟨q1, q2, fun S' hne => ?_, by rw [q4, St.addDeleted_emptiesOf], fun ci' hne => by rw [q5 ci' hne, St.addDeleted_bankOf], q6⟩
        have h0 : Same4 s (s.addDeleted (mkProg fr.P fr.isFun a)) S' :=
          ⟨St.addDeleted_clOf s S' _, St.addDeleted_queueOf s S' _, St.addDeleted_bankOf s S' _, St.addDeleted_emptiesOf s S' _⟩
        exact h0.trans (q3 S' hne)
      · next hdel hfil =>
        -- the program is appended and yielded
        dsimp only
        have hold : (AList.lookup fr.ci (s.bankOf nt)).getD [] = s.bankAt nt fr.ci := rfl
        rw [hold]
        have hself : (s.setBank nt fr.ci (s.bankAt nt fr.ci ++ [mkProg fr.P fr.isFun a])).bankAt nt fr.ci =
            s.bankAt nt fr.ci ++ [mkProg fr.P fr.isFun a] := by rw [St.bankAt_setBank]; simp
        have hother : ∀ nt' ci', ¬ (nt' = nt ∧ ci' = fr.ci) →
            (s.setBank nt fr.ci (s.bankAt nt fr.ci ++ [mkProg fr.P fr.isFun a])).bankAt nt' ci' = s.bankAt nt' ci' := by
          intro nt' ci' hne; rw [St.bankAt_setBank]; simp [hne]
        have hbm : ∀ nt' ci' p, p ∈ s.bankAt nt' ci' →
            p ∈ (s.setBank nt fr.ci (s.bankAt nt fr.ci ++ [mkProg fr.P fr.isFun a])).bankAt nt' ci' := by
          intro nt' ci' p hp
          by_cases hh : nt' = nt ∧ ci' = fr.ci
          · obtain ⟨rfl, rfl⟩ := hh; rw [hself]; exact List.mem_append_left _ hp
          · rw [hother nt' ci' hh]; exact hp
        have hcost : costOf E (mkProg fr.P fr.isFun a) nt = some fr.cost.fin := hk.fc.2 a (List.mem_cons_self ..)
        refine ⟨⟨fun nt' ci h => ?_, he.d1, fun nt' ci h => ?_, he.lb⟩, fun S' => (hcr S').mono rfl (hbm S'),
          fun S' hne => ⟨rfl, rfl, by rw [St.bankOf_setBank]; simp [hne], rfl⟩, rfl,
          fun ci' hne => lookup_setBank_other s nt nt fr.ci ci' _ (fun hh => hne hh.2), ?_⟩
        · by_cases hh : nt' = nt ∧ ci = fr.ci
          · obtain ⟨rfl, rfl⟩ := hh
            have : (s.emptiesOf nt').contains fr.ci = true := h
            rw [hk.ne] at this; cases this
          · rw [hother nt' ci hh]; exact he.e2 nt' ci h
        · by_cases hh : nt' = nt ∧ ci = fr.ci
          · obtain ⟨rfl, rfl⟩ := hh
            have h1 : fr.ci + 1 = (s.clOf nt').length := hk.fo.1
            show fr.ci < (s.clOf nt').length; omega
          · apply he.be nt' ci
            unfold Entered at h ⊢
            rw [lookup_setBank_other s nt nt' fr.ci ci _ hh] at h; exact h
        · -- the frame after the yield
          refine ⟨hk.fo, ⟨hk.fc.1, fun a' ha' => hk.fc.2 a' (List.mem_cons_of_mem _ ha')⟩, hk.fin, fun h => (by cases h),
            fun _ => (by rw [hself]; simp), fun _ => hk.ns (hk.pe (by simp)), hk.ne,
            fun ci' h1 h2 => hk.e4 ci' h1 (by rw [lookup_setBank_other s nt nt fr.ci ci' _ (fun hh => h1 hh.2)] at h2; exact h2),
            fun _ => (by rw [lookup_setBank_self]; rfl), fun f kids x rl hcl hx hle hr => ?_⟩
          rcases hk.frf f kids x rl hcl hx hle hr with g | ⟨el, g1, g2, g3⟩ | ⟨a', g1, g2⟩
          · exact Or.inl ⟨g.1, hbm _ _ _ g.2⟩
          · exact Or.inr (Or.inl ⟨el, g1, g2, g3.setBank nt fr.ci _⟩)
          · rcases List.mem_cons.mp g1 with rfl | g1'
            · left
              rw [g2] at hx
              have hxe : x = fr.cost.fin := by rw [hcost] at hx; exact (Option.some.inj hx).symm
              refine ⟨hxe, ?_⟩
              show Tree.node f kids ∈ (s.setBank nt fr.ci (s.bankAt nt fr.ci ++ [mkProg fr.P fr.isFun a'])).bankAt nt fr.ci
              rw [hself, g2]; simp
            · exact Or.inr (Or.inr ⟨a', g1', g2⟩)

end PS.Beap
