/- With enough fuel the whole prologue of `generator()` returns (acyclic context-free grammar,
   weights for every rule, rows for every non-terminal). -/
import PS.Proofs.Enum.HSInitTotal
namespace PS.HS
open PS PS.G
set_option linter.unusedSectionVars false
variable {S : Type} [DecidableEq S]

/-- all the non-terminals of the table have rank below `Rall` -/
def RankLt (G : TT S Unit) (rank : NT S Unit → Nat) (Rall : Nat) : Prop :=
  ∀ nt, nt ∈ AList.keys G.rules → rank nt < Rall

/-- state of the max-priority phase between two calls -/
structure MaxSt (E : Env S Unit Rat) (s : St S Unit Rat) : Prop where
  kinv : KInv E s
  minv : MInv E s
  cached : CachedM s
  noinit : s.initS = []

theorem initNT_top {E : Env S Unit Rat} {rank} {A Rm : Nat} (T : TotHyp E rank A Rm) {Rall : Nat}
    (hR : RankLt E.G rank Rall) (fuel : Nat) (hfuel : Rall * (A + Rm + 4) ≤ fuel)
    (s : St S Unit Rat) (hs : MaxSt E s) (nt : NT S Unit) (hnt : nt ∈ AList.keys E.G.rules) :
    ∃ s', initNT E fuel s nt = some s' ∧ MaxSt E s' ∧ (MN s' nt).isSome = true ∧ Ext s s' ∧ FrameT s s' := by
  have hrow := (AList.lookup_isSome_iff_mem_keys (k := nt) (d := E.G.rules)).mpr hnt
  have hpre : ∀ x ∈ s.initS, rank nt < rank x := by rw [hs.noinit]; intro x hx; cases hx
  obtain ⟨s', h, hc'⟩ := initNT_total T Rall nt (hR nt hnt) fuel hfuel s hs.kinv hs.minv hs.cached hrow hpre
  obtain ⟨k', hsome, hinit, hx, _⟩ := (init_K E rank T.init fuel).1 s nt s' hs.kinv hs.minv hpre h
  exact ⟨s', h, ⟨k', (initNT_sound E T.init.rows hs.minv h).1, hc', hinit.trans hs.noinit⟩, hsome, hx,
    (init_frame E fuel).1 _ _ _ h⟩

theorem reevalPass_total {E : Env S Unit Rat} {rank} {A Rm : Nat} (T : TotHyp E rank A Rm) {Rall : Nat}
    (hR : RankLt E.G rank Rall) (fuel : Nat) (hfuel : Rall * (A + Rm + 4) ≤ fuel) :
    ∀ (nts : List (NT S Unit)), (∀ nt ∈ nts, nt ∈ AList.keys E.G.rules) → ∀ (s : St S Unit Rat) (ch : Bool),
      MaxSt E s → ∃ s' ch', reevalPass E fuel nts s ch = some (s', ch') ∧ MaxSt E s' ∧ Ext s s' ∧ FrameT s s' ∧
        ∀ nt ∈ nts, (MN s' nt).isSome = true := by
  intro nts
  induction nts with
  | nil => intro _ s ch hs; exact ⟨s, ch, rfl, hs, Ext.refl _, FrameT.refl _, by intro nt hm; cases hm⟩
  | cons nt rest ih =>
    intro hk s ch hs
    obtain ⟨s1, h1, hs1, hsome, hx1, hf1⟩ := initNT_top T hR fuel hfuel s hs nt (hk nt (List.mem_cons_self))
    obtain ⟨s', ch', h2, hs', hx2, hf2, hall⟩ := ih (fun x hx => hk x (List.mem_cons_of_mem _ hx)) s1
      (ch || (AList.lookup nt s1.maxNT).isNone || decide (AList.lookup nt s.maxNT ≠ AList.lookup nt s1.maxNT)) hs1
    refine ⟨s', ch', ?_, hs', hx1.trans hx2, hf1.trans hf2, ?_⟩
    · unfold reevalPass; rw [h1]; exact h2
    · intro x hx
      rcases List.mem_cons.mp hx with rfl | hx
      · cases hm : MN s1 x with
        | none => rw [hm] at hsome; cases hsome
        | some m => rw [hx2.1 x m hm]; rfl
      · exact hall x hx

/-- a pass over non-terminals that are all initialised changes nothing -/
theorem reevalPass_done {E : Env S Unit Rat} (fuel : Nat) (hf : 1 ≤ fuel) :
    ∀ (nts : List (NT S Unit)) (s : St S Unit Rat) (ch : Bool), KInv E s → s.initS = [] →
      (∀ nt ∈ nts, (MN s nt).isSome = true ∧ (AList.lookup nt E.G.rules).isSome = true) →
      reevalPass E fuel nts s ch = some (s, ch) := by
  intro nts
  induction nts with
  | nil => intro s ch _ _ _; rfl
  | cons nt rest ih =>
    intro s ch hk hinit hall
    obtain ⟨hsome, hrow⟩ := hall nt (List.mem_cons_self)
    obtain ⟨f', rfl⟩ : ∃ f', fuel = f' + 1 := ⟨fuel - 1, by omega⟩
    have hi : initNT E (f' + 1) s nt = some s := by
      unfold initNT
      rw [hinit]
      simp only [List.contains_nil, Bool.false_eq_true, if_false]
      cases hrs : AList.lookup nt E.G.rules with
      | none => rw [hrs] at hrow; cases hrow
      | some rs =>
        simp only
        cases hm : MN s nt with
        | none => rw [hm] at hsome; cases hsome
        | some m =>
          have hall' : rs.all (fun r => (AList.lookup (nt, r.1) s.maxRule).isSome) = true := by
            apply List.all_eq_true.mpr
            intro r hr
            exact (hk.best nt rs m hrs hm).1 r.1 (List.mem_map.mpr ⟨r, hr, rfl⟩)
          simp only [hall', if_true]
    unfold reevalPass
    rw [hi]
    simp only
    have : (ch || (AList.lookup nt s.maxNT).isNone || decide (AList.lookup nt s.maxNT ≠ AList.lookup nt s.maxNT)) = ch := by
      have h1 : (AList.lookup nt s.maxNT).isNone = false := by
        cases hm : AList.lookup nt s.maxNT with
        | none =>
          have : MN s nt = none := hm
          rw [this] at hsome; cases hsome
        | some _ => rfl
      simp [h1]
    rw [this]
    exact ih s ch hk hinit (fun x hx => hall x (List.mem_cons_of_mem _ hx))

theorem reevaluate_total {E : Env S Unit Rat} {rank} {A Rm : Nat} (T : TotHyp E rank A Rm) {Rall : Nat}
    (hR : RankLt E.G rank Rall) (fuel : Nat) (hfuel : Rall * (A + Rm + 4) ≤ fuel) (hf1 : 1 ≤ fuel)
    (k : Nat) (hk : 2 ≤ k) (s : St S Unit Rat) (hs : MaxSt E s) :
    ∃ s', reevaluate E fuel k s = some s' ∧ MaxSt E s' ∧ FrameT s s' ∧
      ∀ nt ∈ AList.keys E.G.rules, (MN s' nt).isSome = true := by
  obtain ⟨s1, ch, h1, hs1, _, hf1', hall1⟩ := reevalPass_total T hR fuel hfuel (AList.keys E.G.rules) (fun _ h => h) s false hs
  obtain ⟨k', rfl⟩ : ∃ k', k = k' + 1 := ⟨k - 1, by omega⟩
  unfold reevaluate
  rw [h1]
  cases ch with
  | false => exact ⟨s1, rfl, hs1, hf1', hall1⟩
  | true =>
    simp only
    obtain ⟨k'', rfl⟩ : ∃ k'', k' = k'' + 1 := ⟨k' - 1, by omega⟩
    have h2 := reevalPass_done (E := E) fuel hf1 (AList.keys E.G.rules) s1 false hs1.kinv hs1.noinit
      (fun nt hnt => ⟨hall1 nt hnt, (AList.lookup_isSome_iff_mem_keys (k := nt) (d := E.G.rules)).mpr hnt⟩)
    unfold reevaluate
    rw [h2]
    exact ⟨s1, rfl, hs1, hf1', hall1⟩

/-! ### `__init_heap__` -/

theorem computePrio_hit (E : Env S Unit Rat) (hcached : E.ops.cached = true) (c : AList (Prog × NT S Unit) Rat)
    (nt : NT S Unit) (prog : Prog) (v : Rat) (h : AList.lookup (prog, nt) c = some v) :
    computePrio E c nt prog = some (c, v) := by
  unfold computePrio
  simp only [hcached, if_true, h]

theorem initHeapLoop_total (E : Env S Unit Rat) (hthr : E.ops.thr = none) (hcached : E.ops.cached = true)
    (s0 : St S Unit Rat) (hk : KInv E s0) (nt : NT S Unit) (rs : AList Sym (List (Ty × S) × Unit))
    (hrs : AList.lookup nt E.G.rules = some rs) (hnd : (AList.keys rs).Nodup)
    (hpres : ∀ P ∈ AList.keys rs, (MR s0 nt P).isSome = true) :
    ∀ (Ps processed : List Sym), AList.keys rs = processed ++ Ps → ∀ (s : St S Unit Rat),
      s.maxRule = s0.maxRule →
      (∀ p ∈ s.seenOf nt, ∃ Q ∈ processed, MR s0 nt Q = some p) →
      (∀ nt' P prog, MR s0 nt' P = some prog → (AList.lookup (prog, nt') s.cache).isSome = true) →
      ∃ s', initHeapLoop E nt Ps s = some s' ∧ s'.maxRule = s0.maxRule ∧
        (∀ nt' P prog, MR s0 nt' P = some prog → (AList.lookup (prog, nt') s'.cache).isSome = true) ∧
        (∀ nt', nt' ≠ nt → s'.seenOf nt' = s.seenOf nt') := by
  intro Ps
  induction Ps with
  | nil =>
    intro processed _ s hm _ hc
    exact ⟨s, rfl, hm, hc, fun _ _ => rfl⟩
  | cons P rest ih =>
    intro processed hsplit s hm hseen hc
    have hPk : P ∈ AList.keys rs := by rw [hsplit]; simp
    have hPnp : P ∉ processed := by
      rw [hsplit] at hnd
      intro hmem
      exact (List.nodup_append.mp hnd).2.2 P hmem P (List.mem_cons_self) rfl
    -- the rule and its program
    have hrule : ∀ Q ∈ AList.keys rs, ∃ ra, E.G.rule? nt Q = some (ra, ()) := by
      intro Q hQ
      have := (AList.lookup_isSome_iff_mem_keys (k := Q) (d := rs)).mpr hQ
      cases hl : AList.lookup Q rs with
      | none => rw [hl] at this; cases this
      | some rl =>
        obtain ⟨ra, u⟩ := rl
        cases u
        exact ⟨ra, by unfold TT.rule?; rw [hrs]; exact hl⟩
    have hp := hpres P hPk
    cases hmr : MR s0 nt P with
    | none => rw [hmr] at hp; cases hp
    | some prog =>
      obtain ⟨ra, hr⟩ := hrule P hPk
      obtain ⟨ms, hms, _⟩ := hk.sync nt P prog ra hmr hr
      have hlk : AList.lookup (nt, P) s.maxRule = some prog := by rw [hm]; exact hmr
      have hnotseen : (s.seenOf nt).contains prog = false := by
        cases hcc : (s.seenOf nt).contains prog with
        | false => rfl
        | true =>
          exfalso
          obtain ⟨Q, hQ, hQm⟩ := hseen prog (by simpa using hcc)
          have hQk : Q ∈ AList.keys rs := by rw [hsplit]; exact List.mem_append_left _ hQ
          obtain ⟨raQ, hrQ⟩ := hrule Q hQk
          obtain ⟨msQ, hmsQ, _⟩ := hk.sync nt Q prog raQ hQm hrQ
          rw [hms] at hmsQ
          cases hmsQ
          exact hPnp hQ
      have hcachedp := hc nt P prog hmr
      cases hcv : AList.lookup (prog, nt) s.cache with
      | none => rw [hcv] at hcachedp; cases hcachedp
      | some v =>
        have hcp : computePrio E s.cache nt prog = some (s.cache, v) := computePrio_hit E hcached _ _ _ _ hcv
        have hok : pushOK E.ops v = true := by unfold pushOK; rw [hthr]
        have hpn := pushNew_eq E s nt prog s.cache v hcp hok
        have hstep : initHeapLoop E nt (P :: rest) s = initHeapLoop E nt rest (pushNew E s nt prog) := by
          rw [hpn]
          conv => lhs; unfold initHeapLoop
          simp only [hlk, hnotseen, Bool.false_eq_true, if_false]
          have : computePrio E (s.addSeen nt prog).cache nt prog = some (s.cache, v) := hcp
          simp only [this, hok, if_true]
          rfl
        rw [hstep]
        obtain ⟨v1, v2, _, _⟩ := pushNew_views E s nt prog
        have hmr' := (pushNew_maxRule E s nt prog).1
        obtain ⟨s', h', a1, a2, a3⟩ := ih (processed ++ [P]) (by rw [hsplit]; simp) (pushNew E s nt prog)
          (hmr'.trans hm)
          (by
            intro p hp'
            rw [v2] at hp'
            simp only [if_true] at hp'
            rcases List.mem_append.mp hp' with hold | hnew
            · obtain ⟨Q, hQ, hQm⟩ := hseen p hold
              exact ⟨Q, List.mem_append_left _ hQ, hQm⟩
            · simp only [List.mem_singleton] at hnew
              subst hnew
              exact ⟨P, by simp, hmr⟩)
          (by
            intro nt' Q pq hq
            rw [hpn]
            exact hc nt' Q pq hq)
        refine ⟨s', h', a1, a2, ?_⟩
        intro nt' hne
        rw [a3 nt' hne, v2]
        simp [hne]

theorem initHeaps_total (E : Env S Unit Rat) {rank : NT S Unit → Nat} (H : InitHyp E rank) (hthr : E.ops.thr = none)
    (hcached : E.ops.cached = true) (s0 : St S Unit Rat) (hk : KInv E s0)
    (hdone : ∀ nt ∈ AList.keys E.G.rules, (MN s0 nt).isSome = true) :
    ∀ (rows : List (NT S Unit × AList Sym (List (Ty × S) × Unit))), (AList.keys rows).Nodup →
      (∀ nt rs, (nt, rs) ∈ rows → AList.lookup nt E.G.rules = some rs) → ∀ (s : St S Unit Rat),
      s.maxRule = s0.maxRule → (∀ nt rs, (nt, rs) ∈ rows → s.seenOf nt = []) →
      (∀ nt' P prog, MR s0 nt' P = some prog → (AList.lookup (prog, nt') s.cache).isSome = true) →
      ∃ s', initHeaps E rows s = some s' := by
  intro rows
  induction rows with
  | nil => intro _ _ s _ _ _; exact ⟨s, rfl⟩
  | cons row rest ih =>
    intro hnd hrows s hm hseen hc
    obtain ⟨nt, rs⟩ := row
    have hrs := hrows nt rs (List.mem_cons_self)
    have hntk : nt ∈ AList.keys E.G.rules := List.mem_map.mpr ⟨(nt, rs), AList.lookup_some_mem hrs, rfl⟩
    have hd := hdone nt hntk
    cases hmn : MN s0 nt with
    | none => rw [hmn] at hd; cases hd
    | some m =>
      have hpres := (hk.best nt rs m hrs hmn).1
      obtain ⟨s1, h1, a1, a2, a3⟩ := initHeapLoop_total E hthr hcached s0 hk nt rs hrs (H.rows nt rs hrs) hpres
        (AList.keys rs) [] rfl s hm (by rw [hseen nt rs (List.mem_cons_self)]; intro p hp; cases hp) hc
      simp only [AList.keys, List.map_cons, List.nodup_cons] at hnd
      obtain ⟨s', h'⟩ := ih hnd.2 (fun nt' rs' hmem => hrows nt' rs' (List.mem_cons_of_mem _ hmem)) s1 a1
        (by
          intro nt' rs' hmem
          have hne : nt' ≠ nt := by
            intro heq; subst heq
            exact hnd.1 (List.mem_map.mpr ⟨(nt', rs'), hmem, rfl⟩)
          rw [a3 nt' hne]
          exact hseen nt' rs' (List.mem_cons_of_mem _ hmem))
        a2
      exact ⟨s', by unfold initHeaps; rw [h1]; exact h'⟩

/-! ### first queries and the whole prologue -/

theorem firstQueries_total {E : Env S Unit Rat} {rank} (H : OrdHyp E rank) {H0 : NT S Unit → List (Rat × Prog)}
    {A Rall : Nat} (hA : ArityLe E.G A) (hR : RankLt E.G rank Rall) (fuel : Nat) (hfuel : Rall * (A + 5) ≤ fuel) :
    ∀ (nts : List (NT S Unit)), (∀ nt ∈ nts, nt ∈ AList.keys E.G.rules) → ∀ (s : St S Unit Rat), Full E H0 s →
      ∃ s', firstQueries E fuel nts s = some s' := by
  intro nts
  induction nts with
  | nil => intro _ s _; exact ⟨s, rfl⟩
  | cons nt rest ih =>
    intro hk s hf
    have hpre : OPre E H0 (.query nt none) s := by intro x hx; cases hx
    obtain ⟨res, hq⟩ := query_total H hA Rall nt (hR nt (hk nt (List.mem_cons_self))) fuel hfuel s none hf hpre
    have hf1 := (big_full H (big_of_query E (s' := res.1) (r := res.2) hq) hf trivial trivial hpre).1
    obtain ⟨s', h'⟩ := ih (fun x hx => hk x (List.mem_cons_of_mem _ hx)) res.1 hf1
    exact ⟨s', by unfold firstQueries; rw [hq]; exact h'⟩

def maxRow (G : TT S Unit) : Nat := (G.rules.map (fun e => e.2.length)).foldl max 0
def maxRank (G : TT S Unit) (rank : NT S Unit → Nat) : Nat := ((AList.keys G.rules).map rank).foldl max 0 + 1

theorem rowLe_maxRow (G : TT S Unit) : ∀ nt rs, AList.lookup nt G.rules = some rs → rs.length ≤ maxRow G := by
  intro nt rs hl
  apply le_foldl_max
  left
  exact List.mem_map.mpr ⟨(nt, rs), AList.lookup_some_mem hl, rfl⟩

theorem rankLt_maxRank (G : TT S Unit) (rank : NT S Unit → Nat) : RankLt G rank (maxRank G rank) := by
  intro nt hnt
  have : rank nt ≤ ((AList.keys G.rules).map rank).foldl max 0 :=
    le_foldl_max _ _ _ (Or.inl (List.mem_map.mpr ⟨nt, hnt, rfl⟩))
  unfold maxRank
  omega

/-- fuel that is enough for everything -/
def enoughFuel (G : TT S Unit) (rank : NT S Unit → Nat) : Nat :=
  maxRank G rank * (maxArity G + maxRow G + 5)

/-- **the prologue of `generator()` returns** -/
theorem prologue_total (E : Env S Unit Rat) (rank : NT S Unit → Nat) (C : CompHyp E rank)
    (hstart : E.G.start ∈ AList.keys E.G.rules) (fuel : Nat) (hfuel : enoughFuel E.G rank ≤ fuel) :
    ∃ s0, prologue E fuel (St.empty E.G) = some s0 := by
  have T : TotHyp E rank (maxArity E.G) (maxRow E.G) :=
    ⟨C.init, C.wtotal, C.closed, C.cached, arityLe_maxArity E.G, rowLe_maxRow E.G⟩
  have hR := rankLt_maxRank E.G rank
  have hR1 : 1 ≤ maxRank E.G rank := by unfold maxRank; omega
  unfold enoughFuel at hfuel
  have hmul : ∀ x, x ≤ maxArity E.G + maxRow E.G + 5 →
      maxRank E.G rank * x ≤ maxRank E.G rank * (maxArity E.G + maxRow E.G + 5) :=
    fun x hx => Nat.mul_le_mul_left _ hx
  have hf_init : maxRank E.G rank * (maxArity E.G + maxRow E.G + 4) ≤ fuel :=
    Nat.le_trans (hmul _ (by omega)) hfuel
  have hf_query : maxRank E.G rank * (maxArity E.G + 5) ≤ fuel := Nat.le_trans (hmul _ (by omega)) hfuel
  have hf2 : 2 ≤ fuel := by
    have : 1 * 5 ≤ maxRank E.G rank * (maxArity E.G + maxRow E.G + 5) := Nat.mul_le_mul hR1 (by omega)
    omega
  have hg := ginv_new E
  have hs_e : MaxSt E (St.empty E.G) :=
    ⟨kinv_empty E, hg.2 rfl, ⟨by intro nt m h; simp [MN, St.empty] at h, by intro nt P p h; simp [MR, St.empty] at h⟩, rfl⟩
  obtain ⟨s1, h1, hs1, _, _, hf1⟩ := initNT_top T hR fuel hf_init _ hs_e E.G.start hstart
  obtain ⟨s2, h2, hs2, hf2', hdone⟩ := reevaluate_total T hR fuel hf_init (by omega) fuel hf2 s1 hs1
  have hfr := hf1.trans hf2'
  have hseen : ∀ nt, s2.seenOf nt = [] := by
    intro nt
    unfold St.seenOf
    rw [hfr.2.2.2.1]
    exact getD_lookup_map_const _ _ _
  obtain ⟨s3, h3⟩ := initHeaps_total E C.init C.thr C.cached s2 hs2.kinv hdone E.G.rules C.keys
    (fun nt rs hmem => AList.lookup_of_mem_nodup C.keys hmem) s2 rfl (fun nt _ _ => hseen nt)
    (fun nt' P prog hm => hs2.cached.mr nt' P prog hm)
  have hpre : preHeaps E fuel (St.empty E.G) = some s3 := by
    unfold preHeaps
    rw [h1]
    simp only
    rw [h2]
    exact h3
  obtain ⟨q3, _, _⟩ := preHeaps_quiet E rank C fuel s3 hpre
  obtain ⟨s0, h0⟩ := firstQueries_total C.ord (arityLe_maxArity E.G) hR fuel hf_query (AList.keys E.G.rules)
    (fun _ h => h) s3 q3.full
  exact ⟨s0, by rw [prologue_eq, hpre]; exact h0⟩

/-- **TOTAL CORRECTNESS** of heap search on acyclic context-free grammars: with enough fuel the
    generator stops, and its output lists the language without repetition -/
theorem take_total (E : Env S Unit Rat) (rank : NT S Unit → Nat) (C : CompHyp E rank)
    (hstart : E.G.start ∈ AList.keys E.G.rules) (fuel : Nat) (hfuel : enoughFuel E.G rank ≤ fuel) :
    ∃ k g' out, take E fuel k (Gen.new E.G) [] = some (g', out, true) := by
  obtain ⟨s0, hp⟩ := prologue_total E rank C hstart fuel hfuel
  apply take_stops E rank C fuel ?_ (by rw [hp]; simp)
  have hlt := rankLt_maxRank E.G rank E.G.start hstart
  unfold enoughFuel at hfuel
  have h1 : (rank E.G.start + 1) * (maxArity E.G + 5) ≤ maxRank E.G rank * (maxArity E.G + maxRow E.G + 5) :=
    Nat.mul_le_mul (by omega) (by omega)
  omega

end PS.HS
