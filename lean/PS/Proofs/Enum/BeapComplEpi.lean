/- Completeness of beap search, part 4: the end of a `query` (`epilogue`): the index is complete, the completed
   region of the non-terminal grows to the appended cost, the frontier clause is restored. -/
import PS.Proofs.Enum.BeapComplRun
namespace PS.Beap
open PS PS.G PS.Heapq
set_option linter.unusedSectionVars false
variable {S : Type} [DecidableEq S]

/-- the end of a query that generated nothing but processed an element marks the index empty -/
theorem epilogue_fbe (s : St S) (nt : NT S Unit) (fr : Frame) (h : (!fr.hasGen && !fr.noSucc) = true) :
    (epilogue s nt fr).failedByEmpties = true := by
  unfold epilogue markEmpty
  simp only [h, if_true]
  split <;> rfl

/-- the end of a query: the queue is empty and the cost list is unchanged, or the cost of the head is appended -/
theorem epilogue_append (s : St S) (nt : NT S Unit) (fr : Frame) :
    ((epilogue s nt fr).queueOf nt = [] ∧ (epilogue s nt fr).clOf nt = s.clOf nt) ∨
    (∃ e q, (epilogue s nt fr).queueOf nt = e :: q ∧ (epilogue s nt fr).clOf nt = s.clOf nt ++ [e.cost]) := by
  obtain ⟨sq, _, _, _, _, _, sclnt⟩ := epilogue_shape s nt fr
  rw [sq nt, sclnt]
  cases hq : s.queueOf nt with
  | nil => exact Or.inl ⟨rfl, rfl⟩
  | cons e q => exact Or.inr ⟨e, q, rfl, rfl⟩

theorem rule_of_cost (E : Env S) (nt : NT S Unit) (f : Sym) (kids : List Prog) (y : Rat) (h : costOf E (.node f kids) nt = some y) :
    ∃ rl, E.G.rule? nt f = some rl := by
  simp only [costOf] at h
  split at h
  · next args u w hr hw' => exact ⟨(args, u), hr⟩
  · cases h

theorem epilogue_k (E : Env S) (s : St S) (nt : NT S Unit) (fr : Frame) (x : Rat) (hw : WInv E s) (h4 : E4g s)
    (hk : FrK E s nt fr) (hpend : fr.pending = []) (hx : fr.cost.fin < x)
    (hne : ∀ e q, s.queueOf nt = e :: q → e.cost ≠ fr.cost) :
    WInv E (epilogue s nt fr) ∧ E4g (epilogue s nt fr) ∧ (∀ S', S' ≠ nt → Same4 s (epilogue s nt fr) S') ∧
    FR E (epilogue s nt fr) nt ∧ IdxDone E (epilogue s nt fr) nt fr.ci ∧ Ext s (epilogue s nt fr) ∧
    (∀ ci', Entered (epilogue s nt fr) nt ci' → ci' ≤ fr.ci) ∧ (∀ S' ci, (epilogue s nt fr).bankAt S' ci = s.bankAt S' ci) := by
  obtain ⟨sq, sb, sd, se, sc, scl, sclnt⟩ := epilogue_shape s nt fr
  obtain ⟨hc', hext⟩ := epilogue_cost E s nt fr hw.c
  obtain ⟨ho', _⟩ := epilogue_oi s nt fr x hw.o hk.fo hx hne
  generalize epilogue s nt fr = s' at *
  have hba : ∀ S' ci, s'.bankAt S' ci = s.bankAt S' ci := fun S' ci => by unfold St.bankAt; rw [sb]
  have hlast := hk.fo.last
  have hfrmem : fr.cost ∈ s.clOf nt := List.mem_of_getElem? hk.fo.2
  have hci : fr.ci < (s.clOf nt).length := by have := hk.fo.1; omega
  -- every queue element is strictly more expensive than the cost of the query
  have hqlow : ∀ el ∈ s.queueOf nt, fr.cost.fin < el.cost.fin := by
    intro el hel
    cases hq : s.queueOf nt with
    | nil => rw [hq] at hel; cases hel
    | cons e q =>
      have hemem : e ∈ s.queueOf nt := by rw [hq]; exact List.mem_cons_self ..
      have hef : e.cost.inf = 0 := hw.o.finQ nt e hemem
      have hfrf : fr.cost.inf = 0 := hw.o.fin nt _ hfrmem
      have hge : fr.cost.fin ≤ e.cost.fin := hw.o.low nt e _ hemem hfrmem
      have hgt : fr.cost.fin < e.cost.fin := by
        have hne' := hne e q hq
        by_cases heq : e.cost.fin = fr.cost.fin
        · exact absurd (Cost.eq_of_fin _ _ hef hfrf heq) hne'
        · grind
      have := head_min_of_heap _ e q hq (hw.o.heap nt) el hel
      have := (Cost.lt_false_iff _ _ (hw.o.finQ nt el hel) hef).mp this
      grind
  -- the head of the queue is its minimum
  have hmin : ∀ e q, s.queueOf nt = e :: q → ∀ el ∈ s.queueOf nt, e.cost.fin ≤ el.cost.fin := by
    intro e q hq el hel
    have hemem : e ∈ s.queueOf nt := by rw [hq]; exact List.mem_cons_self ..
    have := head_min_of_heap _ e q hq (hw.o.heap nt) el hel
    exact (Cost.lt_false_iff _ _ (hw.o.finQ nt el hel) (hw.o.finQ nt e hemem)).mp this
  -- the frontier clause of the frame without the pending part
  have hfrf : ∀ f kids y rl, clean E.filter (.node f kids) = true → costOf E (.node f kids) nt = some y → fr.cost.fin ≤ y →
      E.G.rule? nt f = some rl →
      (y = fr.cost.fin ∧ Tree.node f kids ∈ s.bankAt nt fr.ci) ∨
      (∃ el, el ∈ s.queueOf nt ∧ el.P = f ∧ BelowArgs E s rl.1 el.comb kids ∧ el.cost.fin ≤ y) := by
    intro f kids y rl hcl hy hle hr
    rcases hk.frf f kids y rl hcl hy hle hr with g | ⟨el, g1, g2, g3⟩ | ⟨a, g1, _⟩
    · exact Or.inl g
    · refine Or.inr ⟨el, g1, g2, g3, ?_⟩
      subst g2
      exact witness_le E s hw.c hw.e.lb nt el g1 kids y rl hr hy g3
    · rw [hpend] at g1; cases g1
  -- the new index is marked empty when its bank entry is empty
  have hmark : AList.lookup fr.ci (s.bankOf nt) = some [] → (s'.emptiesOf nt).contains fr.ci = true := by
    intro hlk
    have hb0 : s.bankAt nt fr.ci = [] := by simp [St.bankAt, hlk]
    have h1 : fr.hasGen = false := by
      cases hh : fr.hasGen with
      | false => rfl
      | true => exact absurd hb0 (hk.hg2 hh)
    have h2 : fr.noSucc = false := hk.ns (by rw [hlk]; rfl)
    rw [sc, h1, h2]; simp
  have hsub : ∀ ci', (s.emptiesOf nt).contains ci' = true → (s'.emptiesOf nt).contains ci' = true := by
    intro ci' h; rw [sc, h]; rfl
  have hlen : (s.clOf nt).length ≤ (s'.clOf nt).length := (hext nt).length_le
  have hget : ∀ i e, (s.clOf nt)[i]? = some e → (s'.clOf nt)[i]? = some e := fun i e h => hext.get nt i e h
  -- the completed region
  have hcr : ∀ S', CR E s' S' := by
    intro S'
    by_cases hS : S' = nt
    · subst hS
      intro p y l hcl hy hl hlt
      cases hq : s.queueOf S' with
      | nil =>
        rw [hq] at sclnt
        rw [sclnt] at hl
        obtain ⟨i, e, g1, g2, g3⟩ := hw.cr S' p y l hcl hy hl hlt
        exact ⟨i, e, hget i e g1, g2, by rw [hba]; exact g3⟩
      | cons e0 q0 =>
        rw [hq] at sclnt
        simp only at sclnt
        have hl' : l = e0.cost := by rw [sclnt] at hl; simpa using hl.symm
        subst hl'
        by_cases hlow : y < fr.cost.fin
        · obtain ⟨i, e, g1, g2, g3⟩ := hw.cr S' p y fr.cost hcl hy hlast hlow
          exact ⟨i, e, hget i e g1, g2, by rw [hba]; exact g3⟩
        · cases p with
          | node f kids =>
            obtain ⟨rl, hr⟩ := rule_of_cost E S' f kids y hy
            rcases hfrf f kids y rl hcl hy (by grind) hr with ⟨g1, g2⟩ | ⟨el, g1, _, _, g4⟩
            · exact ⟨fr.ci, fr.cost, hget _ _ hk.fo.2, g1.symm, by rw [hba]; exact g2⟩
            · have := hmin e0 q0 hq el g1
              exfalso; grind
    · exact (hw.cr S').of_same (scl S' hS) (fun ci => hba S' ci)
  have hnil : s.clOf nt ≠ [] := by intro h0; rw [h0] at hci; simp at hci
  have heinv : EInv E s' := by
    refine ⟨fun S' ci' h => ?_, fun q hq => hw.e.d1 q (by rw [← sd]; exact hq), fun S' ci' h => ?_, ?_⟩
    · rw [hba]
      by_cases hS : S' = nt
      · subst hS
        rw [sc] at h
        simp only [Bool.or_eq_true, Bool.and_eq_true, decide_eq_true_eq, Bool.not_eq_true'] at h
        rcases h with h | ⟨rfl, h1, _⟩
        · exact hw.e.e2 S' ci' h
        · exact hk.hg h1
      · rw [se S' hS] at h; exact hw.e.e2 S' ci' h
    · have hle : (s.clOf S').length ≤ (s'.clOf S').length := (hext S').length_le
      have hold : Entered s S' ci' → ci' < (s'.clOf S').length := fun h' => by have := hw.e.be S' ci' h'; omega
      unfold Entered at h
      rw [sb] at h
      rcases h with h | h
      · exact hold (Or.inl h)
      · by_cases hS : S' = nt
        · subst hS
          rw [sc] at h
          simp only [Bool.or_eq_true, Bool.and_eq_true, decide_eq_true_eq] at h
          rcases h with h | ⟨rfl, _⟩
          · exact hold (Or.inr h)
          · omega
        · rw [se S' hS] at h; exact hold (Or.inr h)
    · intro S' c rest p y hcl hy
      cases h0 : s.clOf S' with
      | nil =>
        by_cases hS : S' = nt
        · subst hS; exact absurd h0 hnil
        · rw [scl S' hS, h0] at hcl; cases hcl
      | cons c0 r0 =>
        have : (s.clOf S')[0]? = some c0 := by rw [h0]; rfl
        have := hext.get S' 0 c0 this
        rw [hcl] at this
        simp only [List.getElem?_cons_zero, Option.some.injEq] at this
        subst this
        exact hw.e.lb S' c r0 p y h0 hy
  have he4 : E4g s' := by
    intro S' ci' hlt hlk
    rw [sb] at hlk
    by_cases hS : S' = nt
    · subst hS
      by_cases hc : ci' = fr.ci
      · subst hc; exact hmark hlk
      · apply hsub
        have : Entered s S' ci' := Or.inl (by rw [hlk]; rfl)
        have := hw.e.be S' ci' this
        exact h4 S' ci' (by have := hk.fo.1; omega) hlk
    · rw [se S' hS]
      rw [scl S' hS] at hlt
      exact h4 S' ci' hlt hlk
  refine ⟨⟨hc', ho', heinv, hcr⟩, he4, fun S' hS => ⟨scl S' hS, sq S', sb S', se S' hS⟩, ⟨fun f kids y l rl hcl hy hl hle hr => ?_, fun hen => ?_, fun ci' hlk => ?_⟩, ?_, hext, fun ci' hen => ?_, hba⟩
  rotate_right
  · have hold : Entered s nt ci' → ci' ≤ fr.ci := fun h' => by have := hw.e.be nt ci' h'; have := hk.fo.1; omega
    unfold Entered at hen
    rw [sb, sc] at hen
    rcases hen with h' | h'
    · exact hold (Or.inl h')
    · simp only [Bool.or_eq_true, Bool.and_eq_true, decide_eq_true_eq] at h'
      rcases h' with h' | ⟨h', _⟩
      · exact hold (Or.inr h')
      · omega
  · cases hq : s.queueOf nt with
    | nil =>
      rw [hq] at sclnt
      rw [sclnt, hlast] at hl
      cases hl
      rcases hfrf f kids y rl hcl hy hle hr with ⟨g1, g2⟩ | ⟨el, g1, _⟩
      · left
        refine ⟨g1, ?_⟩
        rw [hba, sclnt]
        have : (s.clOf nt).length - 1 = fr.ci := by have := hk.fo.1; omega
        rw [this]; exact g2
      · rw [hq] at g1; cases g1
    | cons e0 q0 =>
      rw [hq] at sclnt
      simp only at sclnt
      have hl' : l = e0.cost := by rw [sclnt] at hl; simpa using hl.symm
      subst hl'
      have hgt := hqlow e0 (by rw [hq]; exact List.mem_cons_self ..)
      rcases hfrf f kids y rl hcl hy (by grind) hr with ⟨g1, _⟩ | ⟨el, g1, g2, g3, _⟩
      · exfalso; grind
      · right; exact ⟨el, by rw [sq]; exact g1, g2, BelowArgs.ext hext _ _ _ g3⟩
  · rw [sq]
    cases hq : s.queueOf nt with
    | nil => rfl
    | cons e0 q0 =>
      exfalso
      rw [hq] at sclnt
      simp only at sclnt
      have hl1 : (s'.clOf nt).length - 1 = fr.ci + 1 := by rw [sclnt]; simp; have := hk.fo.1; omega
      rw [hl1] at hen
      unfold Entered at hen
      rw [sb, sc] at hen
      have : Entered s nt (fr.ci + 1) := by
        rcases hen with h | h
        · exact Or.inl h
        · simp only [Bool.or_eq_true, Bool.and_eq_true, decide_eq_true_eq] at h
          rcases h with h | ⟨h, _⟩
          · exact Or.inr h
          · omega
      have := hw.e.be nt _ this
      have := hk.fo.1; omega
  · rw [sb] at hlk
    by_cases hc : ci' = fr.ci
    · subst hc; exact hmark hlk
    · exact hsub ci' (hk.e4 ci' hc hlk)
  · intro q e hcl he hq
    simp only at he hq
    have he0 := hget _ _ hk.fo.2
    rw [he0] at he
    cases he
    rw [hba]
    cases q with
    | node f kids =>
      obtain ⟨rl, hr⟩ := rule_of_cost E nt f kids _ hq
      rcases hfrf f kids fr.cost.fin rl hcl hq Rat.le_refl hr with ⟨_, g2⟩ | ⟨el, g1, _, _, g4⟩
      · exact g2
      · have := hqlow el g1
        exfalso; grind

end PS.Beap
