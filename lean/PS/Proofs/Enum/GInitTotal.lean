/- With enough fuel the max-priority phase of heap search returns (acyclic context-free grammar
   whose rules all have weights and whose non-terminals all have rows). -/
import PS.Proofs.Enum.GBase
namespace PS.HG
open PS PS.G PS.HS
set_option linter.unusedSectionVars false
variable {S π : Type} [DecidableEq S]

/-- a bound on the arity of the rules -/
def ArityLe (G : TT S Unit) (A : Nat) : Prop := ∀ nt F ra, G.rule? nt F = some (ra, ()) → ra.length ≤ A

/-- the max-priority programs are memoised -/
structure CachedM (s : St S Unit π) : Prop where
  mn : ∀ nt m, MN s nt = some m → (AList.lookup (m, nt) s.cache).isSome = true
  mr : ∀ nt P prog, MR s nt P = some prog → (AList.lookup (prog, nt) s.cache).isSome = true

structure TotHyp (E : Env S Unit π) (rank : NT S Unit → Nat) (A Rm : Nat) : Prop where
  init : InitHyp E rank
  wtotal : WTotal E
  closed : Closed E.G
  arity : ArityLe E.G A
  rows : ∀ nt rs, AList.lookup nt E.G.rules = some rs → rs.length ≤ Rm

/-- the non-terminals of rank below `R` are initialised with fuel `B` -/
def ChildInit (E : Env S Unit π) (rank : NT S Unit → Nat) (R B : Nat) : Prop :=
  ∀ nt, rank nt < R → ∀ n, B ≤ n → ∀ s, KInv E s → MInv E s → CachedM s →
    (AList.lookup nt E.G.rules).isSome = true → (∀ x ∈ s.initS, rank nt < rank x) →
    ∃ s', initNT E n s nt = some s' ∧ CachedM s'

theorem maxArgs_total {E : Env S Unit π} {rank} {A Rm : Nat} (T : TotHyp E rank A Rm) {R B : Nat}
    (ihc : ChildInit E rank R B) :
    ∀ (k m : Nat), B + 1 + k ≤ m → ∀ (s : St S Unit π) (nt : NT S Unit) (F : Sym) (ra : List (Ty × S))
      (info : Info S) (cur : NT S Unit) (acc : List Prog), rank nt ≤ R → KInv E s → MInv E s → CachedM s →
      E.G.rule? nt F = some (ra, ()) → nt ∈ s.initS → (∀ x ∈ s.initS, rank nt ≤ rank x) → PreK ra acc k info cur s →
      ∃ res, maxArgs E m s k info cur acc = some res ∧ CachedM res.1 := by
  intro k
  induction k with
  | zero =>
    intro m hm s nt F ra info cur acc _ _ _ hc _ _ _ _
    obtain ⟨m', rfl⟩ : ∃ m', m = m' + 1 := ⟨m - 1, by omega⟩
    exact ⟨(s, acc), by simp [maxArgs], hc⟩
  | succ k ih =>
    intro m hm s nt F ra info cur acc hrk hk hmi hc hr hin hrkx hpre
    obtain ⟨m', rfl⟩ : ∃ m', m = m' + 1 := ⟨m - 1, by omega⟩
    obtain ⟨hlen, hacc, hk0⟩ := hpre
    obtain ⟨hinfo, a, ha, hcur⟩ := hk0 (by omega)
    have hamem := List.mem_of_getElem? ha
    have hrc : rank cur < rank nt := by rw [hcur]; exact T.init.acyclic nt F ra hr a hamem
    have hrowc : (AList.lookup cur E.G.rules).isSome = true := by rw [hcur]; exact T.closed nt F ra hr a hamem
    obtain ⟨s1, hi, hc1⟩ := ihc cur (by omega) m' (by omega) s hk hmi hc hrowc
      (fun x hx => Nat.lt_of_lt_of_le hrc (hrkx x hx))
    obtain ⟨k1, hsome, hinit, hx1, _⟩ := (init_K E rank T.init m').1 s cur s1 hk hmi
      (fun x hx => Nat.lt_of_lt_of_le hrc (hrkx x hx)) hi
    obtain ⟨hmi1, _⟩ := (init_sound E T.init.rows m').1 s cur s1 hmi hi
    unfold maxArgs
    rw [hi]
    simp only
    cases hm1 : AList.lookup cur s1.maxNT with
    | none =>
      have : MN s1 cur = none := hm1
      rw [this] at hsome; cases hsome
    | some mm =>
      simp only
      have hgm := hmi1.nt_gen cur mm hm1
      obtain ⟨r2, hr2, hadv1, hadv2⟩ := deriveAll_gen E.G mm cur info hgm
      rw [hr2]
      simp only
      have hpre' : PreK ra (acc ++ [mm]) k r2.1 r2.2 s1 := by
        refine ⟨by simp; omega, ?_, ?_⟩
        · intro j m'' a' hj ha'
          by_cases hjl : j < acc.length
          · rw [List.getElem?_append_left hjl] at hj
            exact hx1.1 _ _ (hacc j m'' a' hj ha')
          · have hjl' : acc.length ≤ j := by omega
            rw [List.getElem?_append_right hjl'] at hj
            have hj0 : j - acc.length = 0 := by
              cases hjj : j - acc.length with
              | zero => rfl
              | succ q => rw [hjj] at hj; simp at hj
            rw [hj0] at hj
            simp only [List.getElem?_cons_zero, Option.some.injEq] at hj
            subst hj
            have : j = acc.length := by omega
            subst this
            rw [ha] at ha'; cases ha'
            rw [← hcur]; exact hm1
        · intro hk0'
          have hlt : acc.length + 1 < ra.length := by omega
          have hdrop : ra.drop (acc.length + 1) = ra[acc.length + 1] :: ra.drop (acc.length + 1 + 1) :=
            List.drop_eq_getElem_cons hlt
          refine ⟨?_, ra[acc.length + 1], ?_, ?_⟩
          · rw [hadv1, hinfo, hdrop]; simp
          · simp [List.getElem?_eq_getElem hlt]
          · exact hadv2 _ _ (by rw [hinfo, hdrop])
      exact ih m' (by omega) s1 nt F ra r2.1 r2.2 (acc ++ [mm]) hrk k1 hmi1 hc1 hr (hinit ▸ hin)
        (fun x hx => hrkx x (hinit ▸ hx)) hpre'

theorem CachedM.step {s1 : St S Unit π} (hc1 : CachedM s1) (nt : NT S Unit) (P : Sym) (prog : Prog)
    (c : AList (Prog × NT S Unit) π)
    (hmono : ∀ key, (AList.lookup key s1.cache).isSome = true → (AList.lookup key c).isSome = true)
    (hnew : (AList.lookup (prog, nt) c).isSome = true) :
    CachedM { s1 with cache := c, maxRule := AList.insert (nt, P) prog s1.maxRule } := by
  refine ⟨fun x m hm => hmono _ (hc1.mn x m hm), ?_⟩
  intro x Q p hm
  have hm' : AList.lookup (x, Q) (AList.insert (nt, P) prog s1.maxRule) = some p := hm
  rw [AList.lookup_insert] at hm'
  split at hm'
  · rename_i heq; cases heq; cases hm'; exact hnew
  · exact hmono _ (hc1.mr x Q p hm')

theorem maxLoop_total {E : Env S Unit π} {rank} {A Rm : Nat} (T : TotHyp E rank A Rm) {R B : Nat}
    (ihc : ChildInit E rank R B) :
    ∀ (rest : AList Sym (List (Ty × S) × Unit)) (m : Nat), B + A + 3 + rest.length ≤ m →
      ∀ (s : St S Unit π) (nt : NT S Unit) (rs done : AList Sym (List (Ty × S) × Unit)) (best : Option (Prog × π)),
        rank nt ≤ R → KInv E s → MInv E s → CachedM s → AList.lookup nt E.G.rules = some rs →
        rs = done ++ rest → nt ∈ s.initS → (∀ x ∈ s.initS, rank nt ≤ rank x) →
        (∀ P ∈ AList.keys done, (MR s nt P).isSome = true) → (∀ P ∈ AList.keys rest, MR s nt P = none) →
        best.map swapP = (entries E s nt (AList.keys done)).foldl (Heapq.bestStep (ltE E.ops)) none →
        ∃ res, maxLoop E m s nt rest best = some res ∧ CachedM res.1 := by
  intro rest
  induction rest with
  | nil =>
    intro m hm s nt rs done best _ _ _ hc _ _ _ _ _ _ _
    obtain ⟨m', rfl⟩ : ∃ m', m = m' + 1 := ⟨m - 1, by omega⟩
    exact ⟨(s, best), by simp [maxLoop], hc⟩
  | cons hd rest' ih =>
    intro m hm s nt rs done best hrk hk hmi hc hrs hsplit hin hrkx hdone hrest hbest
    obtain ⟨m', rfl⟩ : ∃ m', m = m' + 1 := ⟨m - 1, by simp at hm; omega⟩
    simp only [List.length_cons] at hm
    obtain ⟨P, ra, u⟩ := hd
    cases u
    have hr : E.G.rule? nt P = some (ra, ()) := by
      unfold TT.rule?
      rw [hrs]
      exact AList.lookup_of_mem_nodup (T.init.rows nt rs hrs) (by rw [hsplit]; simp)
    have hral := T.arity nt P ra hr
    -- the tail of the iteration, once the arguments are known
    have hcpt : ∀ (s1 : St S Unit π) (args : List Prog), MInv E s1 → CachedM s1 → args.length = ra.length →
        (∀ (j : Nat) mm a, args[j]? = some mm → ra[j]? = some a → MN s1 (argNT a) = some mm) →
        ∃ cp, computePrio E s1.cache nt (.node P args) = some cp := by
      intro s1 args hmi1 hc1 hlen hargs
      have hgl : genList E.G args ra = true :=
        genList_of_pointwise E.G args ra hlen (fun j mm a hj ha => hmi1.nt_gen _ mm (hargs j mm a hj ha))
      exact computePrio_total E T.wtotal s1.cache nt P args ra hr hgl
        (fun j kj aj hkj haj => hc1.mn _ _ (hargs j kj aj hkj haj))
    have tail : ∀ (s1 : St S Unit π) (args : List Prog) (c : AList (Prog × NT S Unit) π) (pr : π),
        KInv E s1 → MInv E s1 → CachedM s1 →
        s1.initS = s.initS → Ext s s1 → LowFrame rank (rank nt) s s1 → args.length = ra.length →
        (∀ (j : Nat) mm a, args[j]? = some mm → ra[j]? = some a → MN s1 (argNT a) = some mm) →
        computePrio E s1.cache nt (.node P args) = some (c, pr) →
        ∃ res, maxLoop E m' { s1 with cache := c, maxRule := AList.insert (nt, P) (.node P args) s1.maxRule } nt rest'
              (bestUpd E.ops.lt best (.node P args) pr) = some res ∧ CachedM res.1 := by
      intro s1 args c pr hk1 hmi1 hc1 hinit hx1 hlf1 hlen hargs hcp
      obtain ⟨k2, hmi2, hx2, hsplit', hdone2, hrest2, hbest2, _, _⟩ :=
        tail_facts E rank T.init (bb := bestUpd E.ops.lt best (.node P args) pr) hk1 hmi1 hrs hsplit hr
          (hinit ▸ hin) hx1 hlf1 hdone hrest hbest hlen hargs hcp rfl
      obtain ⟨hmono, hnew⟩ := computePrio_cache E s1.cache nt _ c pr hcp
      exact ih m' (by omega) _ nt rs (done ++ [(P, (ra, ()))]) _ hrk k2 hmi2 (hc1.step nt P _ c hmono hnew) hrs hsplit'
        (hinit ▸ hin) (fun x hx => hrkx x (hinit ▸ hx)) hdone2 hrest2 hbest2
    unfold maxLoop
    dsimp only
    by_cases hlen : ra.length > 0
    · rw [if_pos hlen]
      unfold derive
      rw [hr]
      dsimp only
      have hpreK : PreK ra [] ra.length (deriveWith [] nt ra ()).1 (deriveWith [] nt ra ()).2 s := by
        refine ⟨by simp, by intro j mm a hj; simp at hj, ?_⟩
        intro _
        cases ra with
        | nil => simp at hlen
        | cons a0 as0 =>
          obtain ⟨t0, s0⟩ := a0
          exact ⟨by simp [deriveWith], (t0, s0), by simp, by simp [deriveWith, argNT]⟩
      have hpreA : PreA E ra [] ra.length (deriveWith [] nt ra ()).1 (deriveWith [] nt ra ()).2 := by
        refine ⟨by simp, by intro j mm a hj; simp at hj, ?_⟩
        intro _
        cases ra with
        | nil => simp at hlen
        | cons a0 as0 =>
          obtain ⟨t0, s0⟩ := a0
          exact ⟨by simp [deriveWith], (t0, s0), by simp, by simp [deriveWith, argNT]⟩
      obtain ⟨⟨s1, arguments⟩, hma, hc1⟩ := maxArgs_total T ihc ra.length m' (by omega) s nt P ra _ _ [] hrk hk hmi hc hr
        hin hrkx hpreK
      obtain ⟨k1, hinit1, hx1, hlf1, hal, hargs⟩ := (init_K E rank T.init m').2.2 s nt P ra ra.length _ _ [] s1 arguments
        hk hmi hr hin hrkx hpreK hma
      obtain ⟨hmi1, _, _⟩ := (init_sound E T.init.rows m').2.2 s ra.length _ _ [] s1 arguments ra hmi hpreA hma
      rw [hma]
      dsimp only
      have hne : ¬ (arguments.length ≠ ra.length) := by rw [hal]; simp
      simp only [hne, if_false]
      obtain ⟨⟨c, pr⟩, hcp⟩ := hcpt s1 arguments hmi1 hc1 hal hargs
      rw [hcp]
      dsimp only
      have := tail s1 arguments c pr k1 hmi1 hc1 hinit1 hx1 hlf1 hal hargs hcp
      cases best <;> exact this
    · rw [if_neg hlen]
      dsimp only
      have hra : ra = [] := by
        cases ra with
        | nil => rfl
        | cons _ _ => simp at hlen
      subst hra
      obtain ⟨⟨c, pr⟩, hcp⟩ := hcpt s [] hmi hc rfl (by intro j mm a hj; simp at hj)
      rw [hcp]
      dsimp only
      have := tail s [] c pr hk hmi hc rfl (Ext.refl _) (LowFrame.refl _ _ _) rfl (by intro j mm a hj; simp at hj) hcp
      cases best <;> exact this

theorem foldl_bestStep_mem {α : Type} (lt : α → α → Bool) (l : List α) (b : Option α) (c : α)
    (h : l.foldl (Heapq.bestStep lt) b = some c) : c ∈ l ∨ b = some c := by
  induction l generalizing b with
  | nil => exact Or.inr h
  | cons x r ih =>
    simp only [List.foldl_cons] at h
    rcases ih _ h with hm | hb
    · exact Or.inl (List.mem_cons_of_mem _ hm)
    · cases b with
      | none => simp only [Heapq.bestStep, Option.some.injEq] at hb; subst hb; exact Or.inl (List.mem_cons_self)
      | some b0 =>
        simp only [Heapq.bestStep] at hb
        split at hb
        · simp only [Option.some.injEq] at hb; subst hb; exact Or.inl (List.mem_cons_self)
        · exact Or.inr hb

/-- **`__init_non_terminal__` returns with enough fuel** -/
theorem initNT_total {E : Env S Unit π} {rank} {A Rm : Nat} (T : TotHyp E rank A Rm) :
    ∀ R, ChildInit E rank R (R * (A + Rm + 4)) := by
  intro R
  induction R with
  | zero => intro nt hr; omega
  | succ R ih =>
    intro nt hrk n hn s hk hmi hc hrow hrkx
    have hrk' : rank nt ≤ R := by omega
    have hn' : R * (A + Rm + 4) + A + Rm + 4 ≤ n := by
      have : (R + 1) * (A + Rm + 4) = R * (A + Rm + 4) + (A + Rm + 4) := Nat.succ_mul R _
      omega
    obtain ⟨n', rfl⟩ : ∃ n', n = n' + 1 := ⟨n - 1, by omega⟩
    have hnin : nt ∉ s.initS := fun hm => Nat.lt_irrefl _ (hrkx nt hm)
    unfold initNT
    have hcont : s.initS.contains nt = false := by
      cases hcc : s.initS.contains nt with
      | false => rfl
      | true => exact absurd (by simpa using hcc) hnin
    simp only [hcont, Bool.false_eq_true, if_false]
    cases hrs : AList.lookup nt E.G.rules with
    | none => rw [hrs] at hrow; cases hrow
    | some rs =>
      simp only
      split
      · exact ⟨s, rfl, hc⟩
      · rename_i hall
        have hMN : MN s nt = none := by
          cases hm : MN s nt with
          | none => rfl
          | some m =>
            exfalso
            apply hall
            apply List.all_eq_true.mpr
            intro r hr
            exact (hk.best nt rs m hrs hm).1 r.1 (List.mem_map.mpr ⟨r, hr, rfl⟩)
        have hMR : ∀ P, MR s nt P = none := by
          intro P
          cases hm : MR s nt P with
          | none => rfl
          | some p =>
            rcases hk.owned nt P p hm with h1 | h1
            · rw [hMN] at h1; cases h1
            · exact absurd h1 hnin
        have hk0 : KInv E { s with initS := s.initS ++ [nt] } := by
          refine ⟨hk.sync, hk.best, ?_, ?_, hk.prio, hk.has_rule⟩
          · intro x hx
            rcases List.mem_append.mp hx with hx | hx
            · exact hk.prog_init x hx
            · simp only [List.mem_singleton] at hx; subst hx; exact hMN
          · intro x P p hm
            rcases hk.owned x P p hm with h1 | h1
            · exact Or.inl h1
            · exact Or.inr (List.mem_append_left _ h1)
        have hmi0 : MInv E { s with initS := s.initS ++ [nt] } := ⟨hmi.rule_gen, hmi.nt_gen, hmi.cache_ok⟩
        have hc0 : CachedM { s with initS := s.initS ++ [nt] } := ⟨hc.mn, hc.mr⟩
        have hin0 : nt ∈ ({ s with initS := s.initS ++ [nt] } : St S Unit π).initS :=
          List.mem_append_right _ (List.mem_singleton.mpr rfl)
        have hrk0 : ∀ x ∈ ({ s with initS := s.initS ++ [nt] } : St S Unit π).initS, rank nt ≤ rank x := by
          intro x hx
          rcases List.mem_append.mp hx with hx | hx
          · exact Nat.le_of_lt (hrkx x hx)
          · simp only [List.mem_singleton] at hx; subst hx; exact Nat.le_refl _
        have hrl := T.rows nt rs hrs
        obtain ⟨⟨s1, best⟩, hml, hc1⟩ := maxLoop_total T ih rs n' (by omega) { s with initS := s.initS ++ [nt] } nt rs [] none
          hrk' hk0 hmi0 hc0 hrs rfl hin0 hrk0 (by intro P hP; simp [AList.keys] at hP) (fun P _ => hMR P) rfl
        obtain ⟨k1, hinit1, hx1, hlf1, hall1, hbest1⟩ := (init_K E rank T.init n').2.1 _ nt rs [] rs none s1 best
          hk0 hmi0 hrs rfl hin0 hrk0 (by intro P hP; simp [AList.keys] at hP) (fun P _ => hMR P) rfl hml
        rw [hml]
        simp only
        cases best with
        | none => exact ⟨_, rfl, ⟨hc1.mn, hc1.mr⟩⟩
        | some b =>
          refine ⟨_, rfl, ⟨?_, hc1.mr⟩⟩
          intro x m hm
          have hm' : AList.lookup x (AList.insert nt b.1 s1.maxNT) = some m := hm
          rw [AList.lookup_insert] at hm'
          show (AList.lookup (m, x) s1.cache).isSome = true
          split at hm'
          · rename_i heq
            cases hm'
            subst heq
            -- the best program is one of the recorded programs
            simp only [Option.map_some] at hbest1
            rcases foldl_bestStep_mem _ _ _ _ hbest1.symm with hmem | hnone
            · unfold entries at hmem
              obtain ⟨P, _, hP⟩ := List.mem_filterMap.mp hmem
              unfold entry at hP
              cases hmr : AList.lookup (x, P) s1.maxRule with
              | none => rw [hmr] at hP; cases hP
              | some prog =>
                rw [hmr] at hP
                simp only [Option.bind_some] at hP
                cases hpv : prioSpec E prog x with
                | none => rw [hpv] at hP; cases hP
                | some v =>
                  rw [hpv] at hP
                  simp only [Option.map_some, Option.some.injEq] at hP
                  have : prog = b.1 := by
                    have := congrArg Prod.snd hP
                    simpa [swapP] using this
                  rw [← this]
                  exact hc1.mr x P prog hmr
            · cases hnone
          · exact hc1.mn x m hm'

end PS.HG
