/- Bee search, BANK COMPLETENESS BELOW A BOUND: in a reachable state (no merge), if every queued element costs at
   least `L` and every offered program costs at least `L`, then every member of a non-terminal all of whose
   sub-programs are accepted and whose cost is below `L` is in the bank of the non-terminal. -/
import PS.Proofs.Enum.BeeComp
namespace PS.Bee
open PS PS.G

variable {S : Type} [DecidableEq S]
set_option linter.unusedSectionVars false
set_option linter.unusedSimpArgs false

/-- the filter accepts every sub-program -/
def Strict (E : Env S) (p : Prog) : Prop := ∀ q ∈ subs p, E.filter q = true

theorem subs_self (p : Prog) : p ∈ subs p := by cases p; simp [subs]

theorem subsList_mem {k : Prog} : ∀ {ks : List Prog}, k ∈ ks → ∀ q ∈ subs k, q ∈ subsList ks
  | [], h, _, _ => by cases h
  | x :: xs, h, q, hq => by
    simp only [subsList, List.mem_append]
    rcases List.mem_cons.mp h with h | h
    · subst h; exact Or.inl hq
    · exact Or.inr (subsList_mem h q hq)

theorem strict_kid (E : Env S) (P : Sym) (kids : List Prog) (h : Strict E (.node P kids)) (k : Prog) (hk : k ∈ kids) :
    Strict E k := fun q hq => h q (by simp only [subs, List.mem_cons]; exact Or.inr (subsList_mem hk q hq))

/-- every listed rule has a cost -/
def HasCosts (E : Env S) : Prop := ∀ nt P args, ruleArgs E nt P = some args → ∃ w, ruleCost E nt P = some w

theorem hasCosts_of_check (E : Env S) (h : hasCosts E = true) : HasCosts E := by
  intro nt P args ha
  unfold ruleArgs TT.rule? at ha
  cases hl : AList.lookup nt E.G.rules with
  | none => simp [hl] at ha
  | some rs =>
    simp only [hl] at ha
    cases hr : AList.lookup P rs with
    | none => simp [hr] at ha
    | some rl =>
      unfold hasCosts at h
      have h1 := List.all_eq_true.mp h _ (AList.lookup_some_mem hl)
      have h2 := List.all_eq_true.mp h1 _ (AList.lookup_some_mem hr)
      cases hw : ruleCost E nt P with
      | none => simp [hw] at h2
      | some w => exact ⟨w, rfl⟩

theorem genList_spec (G : TT S Unit) : ∀ (kids : List Prog) (args : List (Ty × S)), genList G kids args = true →
    kids.length = args.length ∧
    ∀ (j : Nat) (a : Ty × S) (k : Prog), args[j]? = some a → kids[j]? = some k → gen G k (a.1, (a.2, ())) = true
  | [], [], _ => ⟨rfl, fun j a k ha => by simp at ha⟩
  | [], _ :: _, h => by simp [genList] at h
  | _ :: _, [], h => by simp [genList] at h
  | k :: ks, (t, s) :: as, h => by
    simp only [genList, Bool.and_eq_true] at h
    obtain ⟨h1, h2⟩ := genList_spec G ks as h.2
    refine ⟨by simp [h1], ?_⟩
    intro j a k' ha hk
    cases j with
    | zero => simp at ha hk; subst ha; subst hk; exact h.1
    | succ j => simp at ha hk; exact h2 j a k' ha hk

/-- costs of programs are ≥ 0 for a non-negative cost table -/
theorem pcost_nonneg (E : Env S) (hw : NNW E) : ∀ (n : Nat) (p : Prog) (nt : NT S Unit), Tree.size p ≤ n → 0 ≤ pcost E p nt := by
  intro n
  induction n with
  | zero => intro p nt h; cases p; simp [Tree.size] at h
  | succ n ih =>
    intro p nt h
    cases p with
    | node f kids =>
      simp only [pcost]
      cases hr : E.G.rule? nt f with
      | none => simp
      | some rl =>
        obtain ⟨args, u⟩ := rl
        simp only
        have h1 : 0 ≤ (ruleCost E nt f).getD 0 := by
          cases hc : ruleCost E nt f with
          | none => simp
          | some w => simpa using hw nt f w hc
        have h2 : ∀ (ks : List Prog) (as : List (Ty × S)), (∀ k ∈ ks, Tree.size k ≤ n) → 0 ≤ pcostList E ks as := by
          intro ks
          induction ks with
          | nil => intro as _; cases as <;> simp [pcostList]
          | cons k ks ihk =>
            intro as hk
            cases as with
            | nil => simp [pcostList]
            | cons a as =>
              obtain ⟨t, s⟩ := a
              simp only [pcostList]
              have := ih k (t, (s, ())) (hk k List.mem_cons_self)
              have := ihk as (fun k' hk' => hk k' (List.mem_cons_of_mem _ hk'))
              omega
        have := h2 kids args (fun k hk => by have := Tree.size_lt_of_mem_kids (l := f) hk; omega)
        omega

theorem pcostList_ge (E : Env S) (hw : NNW E) : ∀ (kids : List Prog) (args : List (Ty × S)) (j : Nat) (a : Ty × S) (k : Prog),
    args[j]? = some a → kids[j]? = some k → pcost E k (a.1, (a.2, ())) ≤ pcostList E kids args
  | [], _, j, a, k, _, hk => by simp at hk
  | _ :: _, [], j, a, k, ha, _ => by simp at ha
  | k0 :: ks, (t, s) :: as, j, a, k, ha, hk => by
    simp only [pcostList]
    cases j with
    | zero =>
      simp at ha hk; subst ha; subst hk
      have : ∀ (ks : List Prog) (as : List (Ty × S)), 0 ≤ pcostList E ks as := by
        intro ks
        induction ks with
        | nil => intro as; cases as <;> simp [pcostList]
        | cons k ks ihk =>
          intro as
          cases as with
          | nil => simp [pcostList]
          | cons a as =>
            obtain ⟨t', s'⟩ := a
            simp only [pcostList]
            have := pcost_nonneg E hw _ k (t', (s', ())) (Nat.le_refl _)
            have := ihk as
            omega
      have := this ks as
      show pcost E k0 (t, (s, ())) ≤ pcost E k0 (t, (s, ())) + pcostList E ks as
      omega
    | succ j =>
      simp at ha hk
      have := pcostList_ge E hw ks as j a k ha hk
      have := pcost_nonneg E hw _ k0 (t, (s, ())) (Nat.le_refl _)
      omega

/-- the combination of the bank indices of the arguments -/
theorem build_combo (s : St S) : ∀ (args : List (Ty × S)) (kids : List Prog), kids.length = args.length →
    (∀ (j : Nat) (a : Ty × S) (k : Prog), args[j]? = some a → kids[j]? = some k → ∃ v, inBank s (a.1, (a.2, ())) v k) →
    ∃ c, Prem s args c kids
  | [], kids, hl, _ => by
    have : kids = [] := List.length_eq_zero_iff.mp (by simpa using hl)
    subst this
    exact ⟨[], rfl, rfl, fun i a k v ha => by simp at ha⟩
  | a :: as, kids, hl, h => by
    cases kids with
    | nil => simp at hl
    | cons k ks =>
      obtain ⟨v, hv⟩ := h 0 a k rfl rfl
      obtain ⟨c, hc1, hc2, hc3⟩ := build_combo s as ks (by simpa using hl)
        (fun j a' k' ha hk => h (j + 1) a' k' (by simpa using ha) (by simpa using hk))
      refine ⟨v :: c, by simp [hc1], by simp [hc2], ?_⟩
      intro i a' k' v' ha hk hvv
      cases i with
      | zero => simp at ha hk hvv; subst ha; subst hk; subst hvv; exact hv
      | succ i => simp at ha hk hvv; exact hc3 i a' k' v' ha hk hvv

/-- the real cost of the combination of the bank indices of the arguments is the sum of the arguments' costs -/
theorem realCostLoop_of_prem (E : Env S) (s : St S) (hb : BankSound E s) (c : List Nat) :
    ∀ (args : List (Ty × S)) (kids : List Prog) (i : Nat) (out : Int), kids.length = args.length →
      (∀ (j : Nat) (a : Ty × S) (k : Prog) (v : Nat), args[j]? = some a → kids[j]? = some k → c[i + j]? = some v →
        inBank s (a.1, (a.2, ())) v k) →
      (∀ j, j < args.length → ∃ v, c[i + j]? = some v) →
      realCostLoop s.costList c i args.length out = some (out + pcostList E kids args)
  | [], kids, i, out, hl, _, _ => by
    have : kids = [] := List.length_eq_zero_iff.mp (by simpa using hl)
    subst this; simp [realCostLoop, pcostList]
  | (t, sx) :: as, kids, i, out, hl, h, hdef => by
    cases kids with
    | nil => simp at hl
    | cons k ks =>
      obtain ⟨v, hv⟩ := hdef 0 (by simp)
      simp only [Nat.add_zero] at hv
      obtain ⟨ps, hps, hk⟩ := h 0 (t, sx) k v rfl rfl (by simpa using hv)
      have hrow : ∃ b, (( t, (sx, ())), b) ∈ s.bank ∧ (v, ps) ∈ b := by
        unfold St.bankOf at hps
        cases hlb : AList.lookup (t, (sx, ())) s.bank with
        | none => simp [hlb] at hps
        | some b0 =>
          simp only [hlb, Option.getD_some] at hps
          exact ⟨b0, AList.lookup_some_mem hlb, AList.lookup_some_mem hps⟩
      obtain ⟨b0, hb0, hvb⟩ := hrow
      obtain ⟨_, hcl⟩ := hb _ _ hb0 _ _ hvb k hk
      simp only [List.length_cons, realCostLoop, hv, hcl, pcostList]
      have := realCostLoop_of_prem E s hb c as ks (i + 1) (out + pcost E k (t, (sx, ()))) (by simpa using hl)
        (fun j a k' v' ha hk' hv' => h (j + 1) a k' v' (by simpa using ha) (by simpa using hk') (by rw [← hv']; congr 1; omega))
        (fun j hj => by obtain ⟨v', hv'⟩ := hdef (j + 1) (by simp; omega); exact ⟨v', by rw [← hv']; congr 1; omega⟩)
      rw [this]; congr 1; omega

theorem mem_pend (s : St S) (nt : NT S Unit) (P : Sym) (u : List Nat) (h : u ∈ pend s nt P) :
    (∃ e ∈ allOf nt s.queued, e.P = P ∧ e.combo = u) ∨ (∃ d ∈ allOf nt s.delayed, d.2.1 = P ∧ d.1 = u) := by
  unfold pend qcmb dcmb at h
  simp only [List.mem_append, List.mem_map, List.mem_filter, decide_eq_true_eq] at h
  rcases h with ⟨e, ⟨he, hP⟩, hu⟩ | ⟨d, ⟨hd, hP⟩, hu⟩
  · exact Or.inl ⟨e, he, hP, hu⟩
  · exact Or.inr ⟨d, hd, hP, hu⟩


/-- **bank completeness below `L`** -/
theorem bank_complete (E : Env S) (hw : NNW E) (hpos : PosArgs E) (hcosts : HasCosts E) (g : Gen S) (hi : GInv E g)
    (hcov : CovSt E g.st) (hc : GC E g) (low : Int) (hos : OSt E g.st low) (L : Int)
    (hq : ∀ nt l, (nt, l) ∈ g.st.queued → ∀ e ∈ l, L ≤ e.cost)
    (hoff : ∀ nt p, Offered g nt p → L ≤ pcost E p nt) :
    ∀ (n : Nat) (p : Prog) (nt : NT S Unit), Tree.size p ≤ n → gen E.G p nt = true → Strict E p → pcost E p nt < L →
      ∃ ci, inBank g.st nt ci p := by
  intro n
  induction n with
  | zero => intro p nt h; cases p; simp [Tree.size] at h
  | succ n ih =>
    intro p nt hsz hgen hstrict hlt
    cases p with
    | node P kids =>
      -- the rule
      have hgen' := hgen
      simp only [gen] at hgen'
      cases hr : E.G.rule? nt P with
      | none => simp [hr] at hgen'
      | some rl =>
        obtain ⟨args, uu⟩ := rl
        simp only [hr] at hgen'
        have hargs : ruleArgs E nt P = some args := by simp [ruleArgs, hr]
        obtain ⟨w, hwc⟩ := hcosts nt P args hargs
        obtain ⟨hklen, hkgen⟩ := genList_spec E.G kids args hgen'
        have hpc : pcost E (.node P kids) nt = w + pcostList E kids args := pcost_node E nt P kids args w hargs hwc
        have hw0 : 0 ≤ w := hw nt P w hwc
        -- the arguments are banked
        have hkids : ∀ (j : Nat) (a : Ty × S) (k : Prog), args[j]? = some a → kids[j]? = some k → ∃ v, inBank g.st (a.1, (a.2, ())) v k := by
          intro j a k ha hk
          have hkm : k ∈ kids := List.mem_of_getElem? hk
          have hne : args ≠ [] := by intro e; rw [e] at ha; simp at ha
          have hwpos := hpos nt P args w hargs hne hwc
          have hle := pcostList_ge E hw kids args j a k ha hk
          have hsz' : Tree.size k ≤ n := by have := Tree.size_lt_of_mem_kids (l := P) hkm; omega
          exact ih k (a.1, (a.2, ())) hsz' (hkgen j a k ha hk) (strict_kid E P kids hstrict k hkm) (by omega)
        obtain ⟨c, hprem⟩ := build_combo g.st args kids hklen hkids
        -- its real cost
        have hdefd : ∀ j, j < args.length → ∃ v, c[0 + j]? = some v := by
          intro j hj; exact ⟨c[j]'(by rw [hprem.1]; exact hj), by simp⟩
        have hrc : realCost E g.st.costList nt P c = some (pcost E (.node P kids) nt) := by
          unfold realCost
          simp only [hwc, hargs]
          rw [hpc]
          exact realCostLoop_of_prem E g.st hi.st.bank c args kids 0 w hklen
            (fun j a k v ha hk hv => hprem.2.2 j a k v ha hk (by simpa using hv)) hdefd
        -- every index of `c` exists in the cost list
        have hvalid : ∀ (j v : Nat), c[j]? = some v → v < g.st.costList.length := by
          intro j v hv
          have hj : j < args.length := by rw [← hprem.1]; exact (List.getElem?_eq_some_iff.mp hv).1
          have hjk : j < kids.length := by omega
          obtain ⟨ps, hps, hk⟩ := hprem.2.2 j args[j] kids[j] v (List.getElem?_eq_getElem hj) (List.getElem?_eq_getElem hjk) hv
          unfold St.bankOf at hps
          cases hlb : AList.lookup (args[j].1, (args[j].2, ())) g.st.bank with
          | none => simp [hlb] at hps
          | some b0 =>
            simp only [hlb, Option.getD_some] at hps
            have := (hi.st.bank _ _ (AList.lookup_some_mem hlb) _ _ (AList.lookup_some_mem hps) _ hk).2
            exact (List.getElem?_eq_some_iff.mp this).1
        -- a pending combination below `c` (or `c` itself) is impossible
        have hnopend : ∀ u, u ∈ pend g.st nt P → Le u c → False := by
          intro u hu hle
          rcases mem_pend g.st nt P u hu with ⟨e, he, hP, hcu⟩ | ⟨d, hd, hP, hcu⟩
          · obtain ⟨l, hl, hel⟩ := mem_allOf.mp he
            have hqs := hi.st.queue nt l hl e hel
            unfold QSound at hqs
            rw [hP, hcu] at hqs
            obtain ⟨y, hy, hyx⟩ := realCost_le E g.st.costList hos.mono nt P u c hle _ hrc
            rw [hqs] at hy; cases hy
            have := hq nt l hl e hel
            omega
          · obtain ⟨l, hl, hdl⟩ := mem_allOf.mp hd
            obtain ⟨hdelay, _⟩ := hos.d nt l hl d hdl
            rw [hcu] at hdelay
            -- some index of `u` is beyond the cost list, but `u ≤ c` pointwise and `c` is valid
            have hbig : ∃ (i v : Nat), u[i]? = some v ∧ g.st.costList.length ≤ v := by
              cases hchk : d.2.2 with
              | some i =>
                rw [hchk] at hdelay
                simp only [needsDelay] at hdelay
                cases hv : u[i]? with
                | none => simp [hv] at hdelay
                | some v =>
                  simp only [hv, Option.some.injEq, decide_eq_true_eq] at hdelay
                  exact ⟨i, v, hv, hdelay⟩
              | none =>
                rw [hchk] at hdelay
                simp only [needsDelay, Option.some.injEq, List.any_eq_true, decide_eq_true_eq] at hdelay
                obtain ⟨v, hv, hge⟩ := hdelay
                obtain ⟨i, hil, hiv⟩ := List.getElem_of_mem hv
                exact ⟨i, v, by rw [List.getElem?_eq_getElem hil, hiv], hge⟩
            obtain ⟨i, v, hv, hge⟩ := hbig
            have hic : i < c.length := by rw [← hle.1]; exact (List.getElem?_eq_some_iff.mp hv).1
            have := hle.2 i v c[i] hv (List.getElem?_eq_getElem hic)
            have := hvalid i c[i] (List.getElem?_eq_getElem hic)
            omega
        -- coverage
        rcases hcov nt P args hargs c hprem.1 with hdone | hmem | ⟨u, hu, hanc⟩
        · rcases hc.d nt P args c kids hargs hdone hprem (hstrict _ (subs_self _)) with h1 | h1
          · exact h1
          · have := hoff nt _ h1; omega
        · exact absurd (Le.refl c) (fun hle => hnopend c hmem hle)
        · exact absurd hanc.le (fun hle => hnopend u hu hle)

end PS.Bee
