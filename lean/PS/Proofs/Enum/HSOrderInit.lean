/- The first queries of the prologue establish the order invariant from the state built by
   `__init_heap__`, provided every argument of an initial program is what its non-terminal pops
   first (`Base`). -/
import PS.Proofs.Enum.HSOrder
namespace PS.HS
open PS PS.G
set_option linter.unusedSectionVars false
variable {S : Type} [DecidableEq S]

/-- the prologue up to (and including) `__init_heap__` -/
def preHeaps {T π : Type} [DecidableEq T] (E : Env S T π) (fuel : Nat) (s : St S T π) : Option (St S T π) :=
  match initNT E fuel s E.G.start with
  | none => none
  | some s1 =>
    match reevaluate E fuel fuel s1 with
    | none => none
    | some s2 => initHeaps E E.G.rules s2

theorem prologue_eq {T π : Type} [DecidableEq T] (E : Env S T π) (fuel : Nat) (s : St S T π) :
    prologue E fuel s =
      match preHeaps E fuel s with
      | none => none
      | some s3 => firstQueries E fuel (AList.keys E.G.rules) s3 := by
  unfold prologue preHeaps
  cases initNT E fuel s E.G.start with
  | none => rfl
  | some s1 =>
    simp only
    cases reevaluate E fuel fuel s1 with
    | none => rfl
    | some s2 =>
      simp only
      cases initHeaps E E.G.rules s2 <;> rfl

/-- **base of the order invariant**: in the state built by `__init_heap__` no enumeration has
    started and every argument of an initial program is the first pop of its non-terminal -/
structure Base (E : Env S Unit Rat) (s : St S Unit Rat) : Prop where
  no_succ : ∀ nt, s.succOf nt = []
  args_first : ∀ nt F args ra, Tree.node F args ∈ s.seenOf nt → E.G.rule? nt F = some (ra, ()) →
    ∀ (i : Nat) ai a, args[i]? = some ai → ra[i]? = some a → FP E s.heapOf (argNT a) ai

theorem Base.oinv {E : Env S Unit Rat} {s : St S Unit Rat} (h : Base E s) : OInv E s.heapOf s := by
  refine ⟨?_, ?_, ?_, fun _ _ => rfl⟩
  · intro nt e _ k v hk; rw [h.no_succ] at hk; simp at hk
  · intro nt k v hk; rw [h.no_succ] at hk; simp at hk
  · intro nt F args ra hm hr i ai a hai ha
    exact Or.inr ⟨h.no_succ _, h.args_first nt F args ra hm hr i ai a hai ha⟩

theorem firstQueries_order {E : Env S Unit Rat} {rank} (H : OrdHyp E rank) {H0 : NT S Unit → List (Rat × Prog)}
    (fuel : Nat) :
    ∀ (nts : List (NT S Unit)) (s s' : St S Unit Rat), SInv E s → NInv s → HInv E s → OInv E H0 s →
      firstQueries E fuel nts s = some s' → OInv E H0 s' := by
  intro nts
  induction nts with
  | nil =>
    intro s s' _ _ _ ho h
    simp only [firstQueries, Option.some.injEq] at h
    subst h; exact ho
  | cons nt rest ih =>
    intro s s' hs hn hh ho h
    unfold firstQueries at h
    split at h
    · simp at h
    · rename_i r hq
      have hb := big_of_query E (s' := r.1) (r := r.2) hq
      have o1 := (big_order H hb hs hn hh ho trivial trivial (by intro x hx; cases hx)).1
      exact ih _ _ (big_sound E hb hs trivial).1 (big_nodup E hb hn trivial).1 (big_heaps E H.weak hb hh) o1 h

theorem preHeaps_invs {E : Env S Unit Rat} (w : Heapq.WeakOrder E.ops.lt) (hnd : RowsNodup E.G) (fuel : Nat)
    (s s3 : St S Unit Rat) (hs : SInv E s) (hm : MInv E s) (hn : NInv s) (hh : HInv E s)
    (h : preHeaps E fuel s = some s3) : SInv E s3 ∧ NInv s3 ∧ HInv E s3 := by
  unfold preHeaps at h
  split at h
  · simp at h
  · rename_i s1 h1
    split at h
    · simp at h
    · rename_i s2 h2
      obtain ⟨hm1, hf1⟩ := initNT_sound E hnd hm h1
      obtain ⟨hm2, hf2⟩ := reevaluate_sound E hnd fuel _ _ _ hm1 h2
      have f1 := (init_frame E fuel).1 _ _ _ h1
      have f2 := reevaluate_frame E fuel _ _ _ h2
      exact ⟨(initHeaps_sound E _ _ _ (hf2.sinv (hf1.sinv hs hm1.cache_ok) hm2.cache_ok) hm2 h).1,
        (initHeaps_ninv E _ _ _ (f2.ninv (f1.ninv hn)) h).1,
        initHeaps_hinv E w _ _ _ (f2.hinv (f1.hinv hh)) h⟩

/-- the prologue establishes the order invariant as soon as `__init_heap__` leaves a `Base` state -/
theorem prologue_order {E : Env S Unit Rat} {rank} (H : OrdHyp E rank) (hnd : RowsNodup E.G) (fuel : Nat)
    (hbase : ∀ s3, preHeaps E fuel (St.empty E.G) = some s3 → Base E s3) :
    ∀ s0, prologue E fuel (St.empty E.G) = some s0 → ∃ H0, OInv E H0 s0 := by
  intro s0 hp
  rw [prologue_eq] at hp
  split at hp
  · simp at hp
  · rename_i s3 h3
    have hg := ginv_new E
    obtain ⟨hs3, hn3, hh3⟩ := preHeaps_invs H.weak hnd fuel _ _ hg.1 (hg.2 rfl) (ninv_empty E.G) (hinv_new E) h3
    exact ⟨s3.heapOf, firstQueries_order H fuel _ _ _ hs3 hn3 hh3 (hbase s3 h3).oinv hp⟩

/-- sortedness from a hypothesis on the state produced by the prologue -/
theorem take_sorted_of_pro {E : Env S Unit Rat} {rank} (H : OrdHyp E rank) (hnd : RowsNodup E.G)
    (hf : ∀ p, E.filter p = true) (fuel k : Nat)
    (hpro : ∀ s0, prologue E fuel (St.empty E.G) = some s0 → ∃ H0, OInv E H0 s0)
    (g' : Gen S Unit Rat) (out : List Prog) (b : Bool)
    (h : take E fuel k (Gen.new E.G) [] = some (g', out, b)) :
    out.Pairwise (fun p q => prob E.G E.W q E.G.start ≤ prob E.G E.W p E.G.start) := by
  cases hp : prologue E fuel (St.empty E.G) with
  | none =>
    have hpro' : ∀ s0, prologue E fuel (St.empty E.G) = some s0 → OInv E (fun _ => []) s0 := by
      intro s0 h0; rw [hp] at h0; cases h0
    exact (take_order H hnd hf fuel k _ _ _ _ _ (og_new E fuel _ hpro') h).sorted
  | some s0 =>
    obtain ⟨H0, ho⟩ := hpro s0 hp
    have hpro' : ∀ s0', prologue E fuel (St.empty E.G) = some s0' → OInv E H0 s0' := by
      intro s0' h0; rw [hp] at h0; cases h0; exact ho
    exact (take_order H hnd hf fuel k _ _ _ _ _ (og_new E fuel _ hpro') h).sorted

end PS.HS
