/- Completeness of beap search: `query(S, ci)` once entered stays entered (bank keys and `_empties` only grow
   as long as no program is merged). -/
import PS.Proofs.Enum.BeapCompl
namespace PS.Beap
open PS PS.G PS.Heapq
set_option linter.unusedSectionVars false
variable {S : Type} [DecidableEq S]

theorem addEmpty_bankOf (s : St S) (nt nt' : NT S Unit) (ci : Nat) : (s.addEmpty nt ci).bankOf nt' = s.bankOf nt' := by
  unfold St.addEmpty; split <;> rfl

theorem addEmpty_emptiesOf_other (s : St S) (nt nt' : NT S Unit) (ci : Nat) (h : nt' ≠ nt) :
    (s.addEmpty nt ci).emptiesOf nt' = s.emptiesOf nt' := by
  unfold St.addEmpty; split
  · rfl
  · show (AList.lookup nt' (AList.insert nt _ s.empties)).getD [] = _
    rw [AList.lookup_insert_ne _ _ h]; rfl

theorem addEmpty_contains (s : St S) (nt : NT S Unit) (ci ci' : Nat) :
    ((s.addEmpty nt ci).emptiesOf nt).contains ci' = ((s.emptiesOf nt).contains ci' || decide (ci' = ci)) := by
  unfold St.addEmpty; split
  · next h =>
    by_cases hc : ci' = ci
    · subst hc; simp only [decide_true, Bool.or_true]; exact h
    · simp [hc]
  · have : ({ s with empties := AList.insert nt (s.emptiesOf nt ++ [ci]) s.empties } : St S).emptiesOf nt = s.emptiesOf nt ++ [ci] := by
      show (AList.lookup nt (AList.insert nt _ s.empties)).getD [] = _
      rw [AList.lookup_insert_self]; rfl
    rw [this]
    simp [List.contains_eq_mem, List.mem_append]

/-- what `epilogue` does to the tables -/
theorem epilogue_shape (s : St S) (nt : NT S Unit) (fr : Frame) :
    (∀ S', (epilogue s nt fr).queueOf S' = s.queueOf S') ∧ (∀ S', (epilogue s nt fr).bankOf S' = s.bankOf S') ∧
    (epilogue s nt fr).deleted = s.deleted ∧
    (∀ S', S' ≠ nt → (epilogue s nt fr).emptiesOf S' = s.emptiesOf S') ∧
    (∀ ci', ((epilogue s nt fr).emptiesOf nt).contains ci' =
      ((s.emptiesOf nt).contains ci' || (decide (ci' = fr.ci) && (!fr.hasGen && !fr.noSucc)))) ∧
    (∀ S', S' ≠ nt → (epilogue s nt fr).clOf S' = s.clOf S') ∧
    (epilogue s nt fr).clOf nt = (match s.queueOf nt with | [] => s.clOf nt | e :: _ => s.clOf nt ++ [e.cost]) := by
  obtain ⟨m1, m2⟩ := markEmpty_tables s nt fr
  have m3 : ∀ S', (markEmpty s nt fr).bankOf S' = s.bankOf S' := by
    intro S'; unfold markEmpty; split
    · exact addEmpty_bankOf s nt S' fr.ci
    · rfl
  have m4 : (markEmpty s nt fr).deleted = s.deleted := by
    unfold markEmpty; split
    · exact St.addEmpty_deleted s nt fr.ci
    · rfl
  have m5 : ∀ S', S' ≠ nt → (markEmpty s nt fr).emptiesOf S' = s.emptiesOf S' := by
    intro S' hne; unfold markEmpty; split
    · exact addEmpty_emptiesOf_other s nt S' fr.ci hne
    · rfl
  have m6 : ∀ ci', ((markEmpty s nt fr).emptiesOf nt).contains ci' =
      ((s.emptiesOf nt).contains ci' || (decide (ci' = fr.ci) && (!fr.hasGen && !fr.noSucc))) := by
    intro ci'; unfold markEmpty; split
    · next hc =>
      have := addEmpty_contains s nt fr.ci ci'
      show ((s.addEmpty nt fr.ci).emptiesOf nt).contains ci' = _
      rw [this, hc]; simp
    · next hc =>
      have : (!fr.hasGen && !fr.noSucc) = false := by simpa using hc
      rw [this]; simp
  unfold epilogue
  simp only
  rw [m2 nt]
  cases hq : s.queueOf nt with
  | nil => exact ⟨m2, m3, m4, m5, m6, fun S' _ => m1 S', m1 nt⟩
  | cons e q =>
    simp only
    refine ⟨m2, m3, m4, m5, m6, fun S' hne => ?_, ?_⟩
    · rw [St.clOf_setCL]; simp [hne, m1]
    · rw [St.clOf_setCL]; simp [m1]

/-- entered indices stay entered -/
def EM (s s' : St S) : Prop := ∀ nt ci, Entered s nt ci → Entered s' nt ci

theorem EM.refl (s : St S) : EM s s := fun _ _ h => h
theorem EM.trans {a b c : St S} (h1 : EM a b) (h2 : EM b c) : EM a c := fun nt ci h => h2 nt ci (h1 nt ci h)
theorem EM.of_eq {s s' : St S} (hb : ∀ nt, s'.bankOf nt = s.bankOf nt) (he : ∀ nt, s'.emptiesOf nt = s.emptiesOf nt) : EM s s' := by
  intro nt ci h; unfold Entered at h ⊢; rw [hb, he]; exact h

theorem em_setBank (s : St S) (nt : NT S Unit) (ci : Nat) (ps : List Prog) : EM s (s.setBank nt ci ps) := by
  intro nt' ci' h
  unfold Entered at h ⊢
  rcases h with h | h
  · left
    by_cases hh : nt' = nt ∧ ci' = ci
    · obtain ⟨rfl, rfl⟩ := hh; rw [lookup_setBank_self]; rfl
    · rw [lookup_setBank_other s nt nt' ci ci' ps hh]; exact h
  · right; exact h

theorem emit_em (E : Env S) (nt : NT S Unit) (ci : Nat) (P : Sym) (isFun : Bool) :
    ∀ (pend : List (List Prog)) (s : St S), EM s (emit E nt ci P isFun s pend).1 := by
  intro pend
  induction pend with
  | nil => intro s; exact EM.refl s
  | cons a rest ih =>
    intro s
    unfold emit
    simp only
    split
    · exact ih s
    · split
      · exact (EM.of_eq (fun nt' => St.addDeleted_bankOf s nt' _) (fun nt' => St.addDeleted_emptiesOf s nt' _)).trans (ih _)
      · exact em_setBank s nt ci _

theorem succLoop_tables (nt : NT S Unit) (cost : Cost) (P : Sym) (comb : List Nat) :
    ∀ (as : List (NT S Unit)) (s : St S) (i : Nat),
      (∀ nt', (succLoop nt cost P comb s i as).bankOf nt' = s.bankOf nt') ∧
      (∀ nt', (succLoop nt cost P comb s i as).emptiesOf nt' = s.emptiesOf nt') ∧
      (succLoop nt cost P comb s i as).deleted = s.deleted := by
  intro as
  induction as with
  | nil => intro s i; exact ⟨fun _ => rfl, fun _ => rfl, rfl⟩
  | cons a as ih =>
    intro s i
    unfold succLoop
    simp only
    split
    · split
      · exact ⟨fun _ => rfl, fun _ => rfl, rfl⟩
      · exact ih s (i + 1)
    · split
      · exact ⟨fun _ => rfl, fun _ => rfl, rfl⟩
      · obtain ⟨g1, g2, g3⟩ := ih (s.setQueue nt (Heapq.push ltE (s.queueOf nt)
            ⟨cost - (s.clOf a).getD (comb.getD i 0) (Cost.ofRat 0) + (s.clOf a).getD (comb.getD i 0 + 1) (Cost.ofRat 0),
              comb.set i (comb.getD i 0 + 1), P⟩)) (i + 1)
        exact ⟨fun nt' => by rw [g1]; rfl, fun nt' => by rw [g2]; rfl, by rw [g3]; rfl⟩

theorem epilogue_em (s : St S) (nt : NT S Unit) (fr : Frame) : EM s (epilogue s nt fr) := by
  obtain ⟨_, sb, _, se, sc, _, _⟩ := epilogue_shape s nt fr
  intro nt' ci h
  unfold Entered at h ⊢
  rw [sb]
  rcases h with h | h
  · exact Or.inl h
  · right
    by_cases hS : nt' = nt
    · subst hS; rw [sc, h]; rfl
    · rw [se nt' hS]; exact h

def QLE (E : Env S) (n : Nat) : Prop := ∀ s nt ci r, queryList E n s nt ci = some r → EM s r.1
def RQE (E : Env S) (n : Nat) : Prop := ∀ s nt ci s', runQuery E n s nt ci = some s' → EM s s'
def DE (E : Env S) (n : Nat) : Prop := ∀ s nt fr s', drive E n s nt fr = some s' → EM s s'
def RE (E : Env S) (n : Nat) : Prop := ∀ s nt fr r, resume E n s nt fr = some r → EM s r.1
def AE (E : Env S) (n : Nat) : Prop := ∀ s as cs ae af acc r, argsLoop E n s as cs ae af acc = some r → EM s r.1

theorem entered_all (E : Env S) : ∀ n : Nat, QLE E n ∧ RQE E n ∧ DE E n ∧ RE E n ∧ AE E n := by
  intro n
  induction n with
  | zero =>
    refine ⟨?_, ?_, ?_, ?_, ?_⟩
    · intro s nt ci r h; simp [queryList] at h
    · intro s nt ci s' h; simp [runQuery] at h
    · intro s nt fr s' h; simp [drive] at h
    · intro s nt fr r h; simp [resume] at h
    · intro s as cs ae af acc r h; simp [argsLoop] at h
  | succ n ih =>
    obtain ⟨iq, irq, id, ir, ia⟩ := ih
    refine ⟨?_, ?_, ?_, ?_, ?_⟩
    · intro s nt ci r h
      unfold queryList at h
      split at h
      · cases h; exact EM.refl s
      · split at h
        · cases h; exact EM.refl s
        · split at h
          · cases h; exact EM.refl s
          · split at h
            · cases h
            · next s1 hrq =>
              have := irq _ _ _ _ hrq
              split at h
              · cases h; exact this
              · split at h
                · cases h; exact this
                · cases h
    · intro s nt ci s' h
      unfold runQuery at h
      split at h
      · cases h; exact EM.refl s
      · exact id _ _ _ _ h
    · intro s nt fr s' h
      unfold drive at h
      split at h
      · cases h
      · next s1 hr => cases h; exact ir _ _ _ _ hr
      · next s1 p fr1 hr => exact (ir _ _ _ _ hr).trans (id _ _ _ _ h)
    · intro s nt fr r h
      unfold resume at h
      have hem := emit_em E nt fr.ci fr.P fr.isFun fr.pending s
      split at h
      · next s1 p rest hemit =>
        cases h
        have e1 : (emit E nt fr.ci fr.P fr.isFun s fr.pending).1 = s1 := by rw [hemit]
        rw [e1] at hem; exact hem
      · next s1 hemit =>
        have e1 : (emit E nt fr.ci fr.P fr.isFun s fr.pending).1 = s1 := by rw [hemit]
        rw [e1] at hem
        split at h
        · cases h; exact hem.trans (epilogue_em s1 nt fr)
        · split at h
          · cases h; exact hem.trans (epilogue_em s1 nt fr)
          · split at h
            · cases h
            · next el q' hpop =>
              split at h
              · cases h
              · next rl hrl =>
                simp only at h
                split at h
                · cases h
                · next s3 ae af poss hargs =>
                  have h2 : EM s1 (s1.setQueue nt q') := EM.of_eq (fun _ => rfl) (fun _ => rfl)
                  have h3 := ia _ _ _ _ _ _ _ hargs
                  have h03 : EM s s3 := (hem.trans h2).trans h3
                  split at h
                  · exact h03.trans (ir _ _ _ _ h)
                  · obtain ⟨t1, t2, _⟩ := succLoop_tables nt fr.cost el.P el.comb (rl.1.map ntOf) s3 0
                    have h4 : EM s3 (succLoop nt fr.cost el.P el.comb s3 0 (rl.1.map ntOf)) := EM.of_eq t1 t2
                    split at h
                    · exact (h03.trans h4).trans (ir _ _ _ _ h)
                    · split at h
                      · exact (h03.trans h4).trans (ir _ _ _ _ h)
                      · exact ((h03.trans h4).trans (em_setBank _ nt fr.ci [])).trans (ir _ _ _ _ h)
    · intro s as cs ae af acc r h
      cases as with
      | nil => simp only [argsLoop] at h; cases h; exact EM.refl s
      | cons a as =>
        cases cs with
        | nil => simp [argsLoop] at h
        | cons c cs =>
          simp only [argsLoop] at h
          split at h
          · cases h
          · next s1 one poss hql =>
            have h1 : EM s s1 := iq _ _ _ _ hql
            split at h
            · split at h
              · cases h; exact h1
              · exact h1.trans (ia _ _ _ _ _ _ _ h)
            · exact h1.trans (ia _ _ _ _ _ _ _ h)

end PS.Beap
