/- The minimal costs, part 3: after the prologue the queue of every initialised non-terminal holds an
   element for each of its rules (`AllRules`).  `_init_non_terminal_` is a depth-first traversal; the
   non-terminals whose loop over the rules is still running are tracked by a ghost stack. -/
import PS.Proofs.Enum.BeapMin
namespace PS.Beap
open PS PS.G
set_option linter.unusedSectionVars false
variable {S : Type} [DecidableEq S]

/-- the queue of `nt` holds an element for each rule of `nt` -/
def AR (E : Env S) (s : St S) (nt : NT S Unit) : Prop :=
  ∀ P rl, E.G.rule? nt P = some rl → ∃ el ∈ s.queueOf nt, el.P = P

/-- every initialised non-terminal is on the stack or complete -/
def RInv (E : Env S) (stk : List (NT S Unit)) (s : St S) : Prop :=
  ∀ nt c rest, s.clOf nt = c :: rest → nt ∈ stk ∨ AR E s nt

/-- queues only grow -/
def QSub (s s' : St S) : Prop := ∀ nt el, el ∈ s.queueOf nt → el ∈ s'.queueOf nt

theorem QSub.refl (s : St S) : QSub s s := fun _ _ h => h
theorem QSub.trans {a b c : St S} (h1 : QSub a b) (h2 : QSub b c) : QSub a c := fun nt el h => h2 nt el (h1 nt el h)
theorem AR.mono {E : Env S} {s s' : St S} {nt : NT S Unit} (h : AR E s nt) (hq : QSub s s') : AR E s' nt :=
  fun P rl hr => let ⟨el, he, hp⟩ := h P rl hr; ⟨el, hq nt el he, hp⟩

theorem qsub_push (s : St S) (nt : NT S Unit) (x : HeapEl) : QSub s (s.setQueue nt (Heapq.push ltE (s.queueOf nt) x)) := by
  intro nt' el he
  rw [St.queueOf_setQueue]
  split
  · next heq => subst heq; exact (mem_push _ _ _ _).mpr (Or.inr he)
  · exact he

def INR (E : Env S) (n : Nat) : Prop :=
  ∀ s nt s' stk, RInv E stk s → initNT E n s nt = some s' → RInv E stk s' ∧ QSub s s'
def IRR (E : Env S) (n : Nat) : Prop :=
  ∀ s nt rest s' stk, RInv E stk s → nt ∈ stk → initRules E n s nt rest = some s' →
    RInv E stk s' ∧ QSub s s' ∧ ∀ P rl, (P, rl) ∈ rest → ∃ el ∈ s'.queueOf nt, el.P = P
def IAR (E : Env S) (n : Nat) : Prop :=
  ∀ s as c r stk, RInv E stk s → initArgs E n s as c = some r → RInv E stk r.1 ∧ QSub s r.1

theorem rinv_of_eq {E : Env S} {stk : List (NT S Unit)} {s s' : St S} (h : RInv E stk s)
    (hc : ∀ nt, s'.clOf nt = s.clOf nt) (hq : QSub s s') : RInv E stk s' := by
  intro nt c rest hcl
  rw [hc nt] at hcl
  rcases h nt c rest hcl with h1 | h1
  · exact Or.inl h1
  · exact Or.inr (h1.mono hq)

theorem inr_step (E : Env S) (n : Nat) (ihIR : IRR E n) : INR E (n + 1) := by
  intro s nt s' stk hs h
  unfold initNT at h
  split at h
  · cases h
  · next cl hcl =>
    split at h
    · cases h; exact ⟨hs, QSub.refl _⟩
    · split at h
      · cases h
      · next rs hrs =>
        split at h
        · cases h
        · next s1 hir =>
          have hs0 : RInv E (nt :: stk) (s.setCL nt (cl ++ [Cost.big])) := by
            intro nt' c rest hc'
            rw [St.clOf_setCL] at hc'
            split at hc'
            · next heq => subst heq; exact Or.inl (List.mem_cons_self ..)
            · rcases hs nt' c rest hc' with h1 | h1
              · exact Or.inl (List.mem_cons_of_mem _ h1)
              · exact Or.inr (h1.mono (fun _ _ he => he))
          obtain ⟨hs1, hq1, hdone⟩ := ihIR _ _ _ _ _ hs0 (List.mem_cons_self ..) hir
          have har : AR E s1 nt := by
            intro P rl hr
            unfold TT.rule? at hr
            rw [hrs] at hr
            exact hdone P rl (AList.lookup_some_mem hr)
          split at h
          · cases h
          · cases h
            refine ⟨?_, fun nt' el he => hq1 nt' el he⟩
            intro nt' c rest hc'
            by_cases heq : nt' = nt
            · subst heq; exact Or.inr (har.mono (fun _ _ he => he))
            · rw [St.clOf_setCL] at hc'
              simp only [heq, if_false] at hc'
              rcases hs1 nt' c rest hc' with h1 | h1
              · rcases List.mem_cons.mp h1 with h2 | h2
                · exact absurd h2 heq
                · exact Or.inl h2
              · exact Or.inr (h1.mono (fun _ _ he => he))

theorem irr_step (E : Env S) (n : Nat) (ihIR : IRR E n) (ihIA : IAR E n) : IRR E (n + 1) := by
  intro s nt rest s' stk hs hmem h
  cases rest with
  | nil => simp only [initRules] at h; cases h; exact ⟨hs, QSub.refl _, fun P rl hm => by cases hm⟩
  | cons pr rest =>
    obtain ⟨P, rl⟩ := pr
    simp only [initRules] at h
    split at h
    · cases h
    · split at h
      · cases h
      · next w hw s1 cost hia =>
        obtain ⟨hs1, hq1⟩ := ihIA _ _ _ _ _ hs hia
        have hs1 : RInv E stk s1 := hs1
        have hq1 : QSub s s1 := hq1
        have hq2 := qsub_push s1 nt ⟨cost, List.replicate rl.1.length 0, P⟩
        have hs2 : RInv E stk (s1.setQueue nt (Heapq.push ltE (s1.queueOf nt) ⟨cost, List.replicate rl.1.length 0, P⟩)) :=
          rinv_of_eq hs1 (fun _ => rfl) hq2
        obtain ⟨g1, g2, g3⟩ := ihIR _ _ _ _ _ hs2 hmem h
        refine ⟨g1, (hq1.trans hq2).trans g2, fun P' rl' hm => ?_⟩
        rcases List.mem_cons.mp hm with heq | hm'
        · cases heq
          refine ⟨⟨cost, List.replicate rl.1.length 0, P⟩, g2 nt _ ?_, rfl⟩
          rw [St.queueOf_setQueue]; simp only [if_true]
          exact (mem_push _ _ _ _).mpr (Or.inl rfl)
        · exact g3 P' rl' hm'

theorem iar_step (E : Env S) (n : Nat) (ihIN : INR E n) (ihIA : IAR E n) : IAR E (n + 1) := by
  intro s as c r stk hs h
  cases as with
  | nil => simp only [initArgs] at h; cases h; exact ⟨hs, QSub.refl _⟩
  | cons a as =>
    simp only [initArgs] at h
    split at h
    · cases h
    · next s1 hin =>
      obtain ⟨hs1, hq1⟩ := ihIN _ _ _ _ hs hin
      split at h
      · cases h
      · obtain ⟨g1, g2⟩ := ihIA _ _ _ _ _ hs1 h
        exact ⟨g1, hq1.trans g2⟩

theorem init_rinv (E : Env S) : ∀ n, INR E n ∧ IRR E n ∧ IAR E n := by
  intro n
  induction n with
  | zero =>
    refine ⟨?_, ?_, ?_⟩
    · intro s nt s' stk _ h; simp [initNT] at h
    · intro s nt rest s' stk _ _ h; simp [initRules] at h
    · intro s as c r stk _ h; simp [initArgs] at h
  | succ n ih =>
    obtain ⟨a, b, c⟩ := ih
    exact ⟨inr_step E n b, irr_step E n b c, iar_step E n a c⟩

/-! ### `_reevaluate_` keeps the rules of every queue -/
theorem mapOpt_mem' {α β : Type} (f : α → Option β) : ∀ (l : List α) (l' : List β), mapOpt f l = some l' →
    ∀ x ∈ l, ∃ y ∈ l', f x = some y
  | [], _, _, x, hx => by cases hx
  | a :: as, l', h, x, hx => by
    unfold mapOpt at h
    split at h
    · next y ys h1 h2 =>
      cases h
      rcases List.mem_cons.mp hx with rfl | hx'
      · exact ⟨y, List.mem_cons_self .., h1⟩
      · obtain ⟨y', hy', hf⟩ := mapOpt_mem' f as ys h2 x hx'
        exact ⟨y', List.mem_cons_of_mem _ hy', hf⟩
    · cases h

/-- the effect of a pass on the tables that `AllRules` reads -/
def PKeep (s s' : St S) : Prop :=
  (∀ nt, s'.clOf nt ≠ [] → s.clOf nt ≠ []) ∧ (∀ nt el, el ∈ s.queueOf nt → ∃ el' ∈ s'.queueOf nt, el'.P = el.P)

theorem reevalPass_keep (E : Env S) : ∀ (nts : List (NT S Unit)) (s : St S) (ch : Bool) (r : St S × Bool),
    reevalPass E nts s ch = some r → PKeep s r.1 := by
  intro nts
  induction nts with
  | nil => intro s ch r h; simp only [reevalPass] at h; cases h; exact ⟨fun _ h => h, fun _ el he => ⟨el, he, rfl⟩⟩
  | cons nt rest ih =>
    intro s ch r h
    simp only [reevalPass] at h
    split at h
    · cases h
    · next nq hnq =>
      split at h
      · split at h
        · next e q' c0 cl' hh hcl =>
          obtain ⟨g1, g2⟩ := ih _ _ _ h
          refine ⟨fun nt' hne => ?_, fun nt' el he => ?_⟩
          · have := g1 nt' hne
            rw [St.clOf_setCL] at this
            split at this
            · next heq => subst heq; rw [hcl]; simp
            · exact this
          · by_cases heq : nt' = nt
            · subst heq
              obtain ⟨y, hy, hf⟩ := mapOpt_mem' _ _ _ hnq el he
              have hy' : y ∈ e :: q' := by
                have := (heapify_perm ltE nq).mem_iff (a := y)
                rw [hh] at this; exact this.mpr hy
              obtain ⟨el', he', hp'⟩ := g2 nt' y (by
                show y ∈ ((s.setQueue nt' (e :: q')).setCL nt' (e.cost :: cl')).queueOf nt'
                simp only [St.queueOf_setCL, St.queueOf_setQueue, if_true]; exact hy')
              exact ⟨el', he', by rw [hp', (recost_keeps E s nt' el y hf).1]⟩
            · exact g2 nt' el (by
                show el ∈ ((s.setQueue nt (e :: q')).setCL nt (e.cost :: cl')).queueOf nt'
                simp only [St.queueOf_setCL, St.queueOf_setQueue, heq, if_false]; exact he)
        · cases h
      · exact ih _ _ _ h

theorem PKeep.trans {a b c : St S} (h1 : PKeep a b) (h2 : PKeep b c) : PKeep a c :=
  ⟨fun nt h => h1.1 nt (h2.1 nt h), fun nt el he => by
    obtain ⟨e1, m1, p1⟩ := h1.2 nt el he
    obtain ⟨e2, m2, p2⟩ := h2.2 nt e1 m1
    exact ⟨e2, m2, p2.trans p1⟩⟩

theorem reevalLoop_keep (E : Env S) : ∀ (k : Nat) (s s' : St S), reevalLoop E k s = some s' → PKeep s s' := by
  intro k
  induction k with
  | zero => intro s s' h; simp [reevalLoop] at h
  | succ k ih =>
    intro s s' h
    simp only [reevalLoop] at h
    split at h
    · cases h
    · next s1 hp => exact (reevalPass_keep E _ _ _ _ hp).trans (ih _ _ h)
    · next s1 hp => cases h; exact reevalPass_keep E _ _ _ _ hp

theorem allRules_of_keep (E : Env S) (s s' : St S) (h : AllRules E s) (hk : PKeep s s') : AllRules E s' := by
  intro nt c rest hc P rl hr
  have hne : s.clOf nt ≠ [] := hk.1 nt (by rw [hc]; simp)
  cases hcl : s.clOf nt with
  | nil => exact absurd hcl hne
  | cons c0 rest0 =>
    obtain ⟨el, he, hp⟩ := h nt c0 rest0 hcl P rl hr
    obtain ⟨el', he', hp'⟩ := hk.2 nt el he
    exact ⟨el', he', hp'.trans hp⟩

/-- after the prologue every initialised non-terminal has all its rules in its queue -/
theorem prologue_allRules (E : Env S) (fuel : Nat) (s' : St S)
    (h : prologue E fuel (St.empty E.G) = some s') : AllRules E s' := by
  unfold prologue at h
  split at h
  · cases h
  · next s1 hin =>
    have h0 : RInv E [] (St.empty E.G) := by
      intro nt c rest hc
      have : (St.empty E.G).clOf nt = [] := lookup_map_nil E.G.rules nt
      rw [this] at hc; cases hc
    have h1 : AllRules E s1 := by
      intro nt c rest hc
      rcases ((init_rinv E fuel).1 _ _ _ _ h0 hin).1 nt c rest hc with h2 | h2
      · cases h2
      · exact h2
    unfold reevaluate at h
    split at h
    · exact allRules_of_keep E s1 s' h1 (reevalLoop_keep E _ _ _ h)
    · cases h; exact h1

end PS.Beap
