/- Heap search without a filter yields no duplicates: the prologue establishes the no-duplicate
   invariant, the yielded sequence is a chain of the injective successor table of the start symbol. -/
import PS.Proofs.Enum.HSNodup
namespace PS.HS
open PS PS.G
set_option linter.unusedSectionVars false
variable {S T π : Type} [DecidableEq S] [DecidableEq T]

/-! ### the max-priority phase does not touch the tables of `query` -/

def FrameT (s s' : St S T π) : Prop :=
  s'.heaps = s.heaps ∧ s'.succ = s.succ ∧ s'.pred = s.pred ∧ s'.seen = s.seen ∧ s'.deleted = s.deleted

theorem FrameT.refl (s : St S T π) : FrameT s s := ⟨rfl, rfl, rfl, rfl, rfl⟩
theorem FrameT.trans {s s1 s2 : St S T π} (h1 : FrameT s s1) (h2 : FrameT s1 s2) : FrameT s s2 :=
  ⟨h2.1.trans h1.1, h2.2.1.trans h1.2.1, h2.2.2.1.trans h1.2.2.1, h2.2.2.2.1.trans h1.2.2.2.1,
   h2.2.2.2.2.trans h1.2.2.2.2⟩

theorem init_frame (E : Env S T π) : ∀ n : Nat,
    (∀ s nt s', initNT E n s nt = some s' → FrameT s s') ∧
    (∀ s nt rs best s' best', maxLoop E n s nt rs best = some (s', best') → FrameT s s') ∧
    (∀ s k info cur acc s' arguments, maxArgs E n s k info cur acc = some (s', arguments) → FrameT s s') := by
  intro n
  induction n with
  | zero =>
    refine ⟨?_, ?_, ?_⟩
    · intro s nt s' h; simp [initNT] at h
    · intro s nt rs best s' best' h; simp [maxLoop] at h
    · intro s k info cur acc s' arguments h; simp [maxArgs] at h
  | succ n ih =>
    obtain ⟨ihI, ihL, ihA⟩ := ih
    refine ⟨?_, ?_, ?_⟩
    · intro s nt s' h
      unfold initNT at h
      split at h
      · cases h; exact FrameT.refl _
      · split at h
        · simp at h
        · split at h
          · cases h; exact FrameT.refl _
          · split at h
            · simp at h
            · rename_i s1 best hml
              have hf0 := ihL { s with initS := s.initS ++ [nt] } _ _ _ _ _ hml
              have hf : FrameT s s1 := hf0
              split at h
              · simp only [Option.some.injEq] at h; subst h; exact hf
              · simp only [Option.some.injEq] at h; subst h; exact hf
    · intro s nt rs best s' best' h
      cases rs with
      | nil =>
        simp only [maxLoop, Option.some.injEq, Prod.mk.injEq] at h
        obtain ⟨rfl, _⟩ := h
        exact FrameT.refl _
      | cons hd rest =>
        obtain ⟨P, rl⟩ := hd
        unfold maxLoop at h
        dsimp only at h
        split at h
        · simp at h
        · rename_i s1 hb
          have hf1 : FrameT s s1 := by
            split at hb
            · split at hb
              · simp at hb
              · split at hb
                · simp at hb
                · rename_i s1' arguments hma
                  have := ihA _ _ _ _ _ _ _ hma
                  split at hb
                  · simp only [Option.some.injEq, Prod.mk.injEq] at hb; obtain ⟨rfl, _⟩ := hb; exact this
                  · simp only [Option.some.injEq, Prod.mk.injEq] at hb; obtain ⟨rfl, _⟩ := hb; exact this
            · simp at hb
          exact hf1.trans (ihL _ _ _ _ _ _ h)
        · rename_i s1 prog hb
          have hf1 : FrameT s s1 := by
            split at hb
            · split at hb
              · simp at hb
              · split at hb
                · simp at hb
                · rename_i s1' arguments hma
                  have := ihA _ _ _ _ _ _ _ hma
                  split at hb
                  · simp only [Option.some.injEq, Prod.mk.injEq] at hb; obtain ⟨rfl, _⟩ := hb; exact this
                  · simp only [Option.some.injEq, Prod.mk.injEq] at hb; obtain ⟨rfl, _⟩ := hb; exact this
            · simp only [Option.some.injEq, Prod.mk.injEq] at hb; obtain ⟨rfl, _⟩ := hb; exact FrameT.refl _
          split at h
          · simp at h
          · have hf2 := ihL _ _ _ _ _ _ h
            exact hf1.trans hf2
    · intro s k info cur acc s' arguments h
      cases k with
      | zero =>
        simp only [maxArgs, Option.some.injEq, Prod.mk.injEq] at h
        obtain ⟨rfl, _⟩ := h
        exact FrameT.refl _
      | succ k =>
        unfold maxArgs at h
        split at h
        · simp at h
        · rename_i s1 hi
          have hf1 := ihI _ _ _ hi
          split at h
          · simp only [Option.some.injEq, Prod.mk.injEq] at h
            obtain ⟨rfl, _⟩ := h
            exact hf1
          · split at h
            · simp at h
            · exact hf1.trans (ihA _ _ _ _ _ _ _ h)

theorem reevalPass_frame (E : Env S T π) (fuel : Nat) :
    ∀ (nts : List (NT S T)) (s : St S T π) (ch : Bool) (s' : St S T π) (ch' : Bool),
      reevalPass E fuel nts s ch = some (s', ch') → FrameT s s' := by
  intro nts
  induction nts with
  | nil =>
    intro s ch s' ch' h
    simp only [reevalPass, Option.some.injEq, Prod.mk.injEq] at h
    obtain ⟨rfl, _⟩ := h
    exact FrameT.refl _
  | cons nt rest ih =>
    intro s ch s' ch' h
    unfold reevalPass at h
    split at h
    · simp at h
    · rename_i s1 hi
      exact ((init_frame E fuel).1 _ _ _ hi).trans (ih _ _ _ _ h)

theorem reevaluate_frame (E : Env S T π) (fuel : Nat) :
    ∀ (k : Nat) (s s' : St S T π), reevaluate E fuel k s = some s' → FrameT s s' := by
  intro k
  induction k with
  | zero => intro s s' h; simp [reevaluate] at h
  | succ k ih =>
    intro s s' h
    unfold reevaluate at h
    split at h
    · simp at h
    · rename_i s1 hp
      exact (reevalPass_frame E fuel _ _ _ _ _ hp).trans (ih _ _ h)
    · rename_i s1 hp
      simp only [Option.some.injEq] at h
      subst h
      exact reevalPass_frame E fuel _ _ _ _ _ hp

theorem FrameT.ninv {s s' : St S T π} (f : FrameT s s') (h : NInv s) : NInv s' := by
  obtain ⟨f1, f2, _, f4, f5⟩ := f
  have e1 : ∀ nt, s'.heapProgs nt = s.heapProgs nt := by intro nt; unfold St.heapProgs St.heapOf; rw [f1]
  have e2 : ∀ nt, s'.seenOf nt = s.seenOf nt := by intro nt; unfold St.seenOf; rw [f4]
  have e3 : ∀ nt, s'.succOf nt = s.succOf nt := by intro nt; unfold St.succOf; rw [f2]
  refine ⟨?_, ?_, ?_, ?_, ?_, f5.trans h.no_deleted⟩
  · intro nt; rw [e1]; exact h.heap_nodup nt
  · intro nt p hp; rw [e1] at hp; rw [e2]; exact h.heap_seen nt p hp
  · intro nt k v hk; rw [e3] at hk; rw [e2]; exact h.succ_seen nt k v hk
  · intro nt k v hk; rw [e3] at hk; rw [e1]; exact h.succ_out nt k v hk
  · intro nt k k' v hk hk'; rw [e3] at hk hk'; exact h.succ_inj nt k k' v hk hk'

theorem FrameT.stable {s s' : St S T π} (f : FrameT s s') : Stable s s' := by
  intro nt k v hk
  have : s'.succOf nt = s.succOf nt := by unfold St.succOf; rw [f.2.1]
  rw [this]; exact hk

/-! ### initial heaps, first queries -/

theorem initHeapLoop_ninv (E : Env S T π) (nt : NT S T) :
    ∀ (Ps : List Sym) (s s' : St S T π), NInv s → initHeapLoop E nt Ps s = some s' → NInv s' ∧ Stable s s' := by
  intro Ps
  induction Ps with
  | nil =>
    intro s s' hs h
    simp only [initHeapLoop, Option.some.injEq] at h
    subst h; exact ⟨hs, Stable.refl _⟩
  | cons P rest ih =>
    intro s s' hs h
    unfold initHeapLoop at h
    split at h
    · simp at h
    · rename_i prog hl
      split at h
      · simp at h
      · rename_i hnc
        dsimp only at h
        split at h
        · simp at h
        · rename_i r hcp
          have heq : (if pushOK E.ops r.2 = true then
                St.setHeap { s.addSeen nt prog with cache := r.1 } nt
                  (Heapq.push (ltE E.ops) (St.heapOf { s.addSeen nt prog with cache := r.1 } nt) (r.2, prog))
              else { s.addSeen nt prog with cache := r.1 }) = pushNew E s nt prog := by
            unfold pushNew
            simp only [hcp]
          rw [heq] at h
          have hnew : prog ∉ s.seenOf nt := by
            intro hm; apply hnc; simp [hm]
          obtain ⟨a1, a2⟩ := hs.pushNew (E := E) nt prog hnew
          obtain ⟨b1, b2⟩ := ih _ _ a1 h
          exact ⟨b1, a2.trans b2⟩

theorem initHeaps_ninv (E : Env S T π) :
    ∀ (rows : List (NT S T × AList Sym (List (Ty × S) × T))) (s s' : St S T π),
      NInv s → initHeaps E rows s = some s' → NInv s' ∧ Stable s s' := by
  intro rows
  induction rows with
  | nil =>
    intro s s' hs h
    simp only [initHeaps, Option.some.injEq] at h
    subst h; exact ⟨hs, Stable.refl _⟩
  | cons row rest ih =>
    intro s s' hs h
    obtain ⟨nt, rs⟩ := row
    unfold initHeaps at h
    split at h
    · simp at h
    · rename_i s1 hl
      obtain ⟨a1, a2⟩ := initHeapLoop_ninv E nt _ _ _ hs hl
      obtain ⟨b1, b2⟩ := ih _ _ a1 h
      exact ⟨b1, a2.trans b2⟩

theorem query_nodup (E : Env S T π) {n s nt p s' r} (hs : NInv s)
    (h : query E n s nt p = some (s', r)) :
    NInv s' ∧ Stable s s' ∧ ∀ q, r = some q → AList.lookup p (s'.succOf nt) = some q :=
  big_nodup E (big_of_query E h) hs trivial

theorem firstQueries_ninv (E : Env S T π) (fuel : Nat) :
    ∀ (nts : List (NT S T)) (s s' : St S T π), NInv s → firstQueries E fuel nts s = some s' →
      NInv s' ∧ Stable s s' := by
  intro nts
  induction nts with
  | nil =>
    intro s s' hs h
    simp only [firstQueries, Option.some.injEq] at h
    subst h; exact ⟨hs, Stable.refl _⟩
  | cons nt rest ih =>
    intro s s' hs h
    unfold firstQueries at h
    split at h
    · simp at h
    · rename_i r hq
      obtain ⟨a1, a2, _⟩ := query_nodup E hs (r := r.2) (s' := r.1) hq
      obtain ⟨b1, b2⟩ := ih _ _ a1 h
      exact ⟨b1, a2.trans b2⟩

theorem prologue_ninv (E : Env S T π) (fuel : Nat) (s s' : St S T π) (hs : NInv s)
    (h : prologue E fuel s = some s') : NInv s' ∧ Stable s s' := by
  unfold prologue at h
  split at h
  · simp at h
  · rename_i s1 h1
    split at h
    · simp at h
    · rename_i s2 h2
      split at h
      · simp at h
      · rename_i s3 h3
        have f1 := (init_frame E fuel).1 _ _ _ h1
        have f2 := reevaluate_frame E fuel _ _ _ h2
        have hn2 := f2.ninv (f1.ninv hs)
        obtain ⟨a1, a2⟩ := initHeaps_ninv E _ _ _ hn2 h3
        obtain ⟨b1, b2⟩ := firstQueries_ninv E fuel _ _ _ a1 h
        exact ⟨b1, ((f1.stable.trans f2.stable).trans a2).trans b2⟩

/-! ### chains of the successor table -/

/-- `l` is what following the successor table from `prev` yields -/
def chainFrom (Tb : AList (Option Prog) Prog) : Option Prog → List Prog → Prop
  | _, [] => True
  | prev, y :: ys => AList.lookup prev Tb = some y ∧ chainFrom Tb (some y) ys

/-- the key of the next query: the last program yielded -/
def lastOr (prev : Option Prog) (l : List Prog) : Option Prog :=
  match l.getLast? with
  | none => prev
  | some x => some x

theorem lastOr_cons (prev : Option Prog) (y : Prog) (ys : List Prog) :
    lastOr prev (y :: ys) = lastOr (some y) ys := by
  unfold lastOr
  cases ys with
  | nil => rfl
  | cons z zs =>
    rw [List.getLast?_cons_cons]
    cases h : (z :: zs).getLast? with
    | none => simp at h
    | some x => rfl

theorem chainFrom_snoc (Tb : AList (Option Prog) Prog) :
    ∀ (l : List Prog) (prev : Option Prog) (p : Prog),
      chainFrom Tb prev (l ++ [p]) ↔ chainFrom Tb prev l ∧ AList.lookup (lastOr prev l) Tb = some p
  | [], prev, p => by simp [chainFrom, lastOr]
  | y :: ys, prev, p => by
    simp only [List.cons_append, chainFrom, lastOr_cons]
    rw [chainFrom_snoc Tb ys (some y) p]
    exact and_assoc.symm

theorem chainFrom_mid (Tb : AList (Option Prog) Prog) :
    ∀ (l1 : List Prog) (prev : Option Prog) (p : Prog) (l2 : List Prog),
      chainFrom Tb prev (l1 ++ p :: l2) → AList.lookup (lastOr prev l1) Tb = some p
  | [], prev, p, l2, h => h.1
  | y :: ys, prev, p, l2, h => by
    rw [lastOr_cons]
    exact chainFrom_mid Tb ys (some y) p l2 h.2

theorem lastOr_mem (prev : Option Prog) (l : List Prog) :
    lastOr prev l = prev ∨ ∃ z ∈ l, lastOr prev l = some z := by
  unfold lastOr
  cases h : l.getLast? with
  | none => exact Or.inl rfl
  | some x => exact Or.inr ⟨x, List.mem_of_getLast? h, rfl⟩

/-- a chain of an injective table that never comes back to its starting key has no duplicates -/
theorem chainFrom_nodup (Tb : AList (Option Prog) Prog)
    (hinj : ∀ k k' v, AList.lookup k Tb = some v → AList.lookup k' Tb = some v → k = k') :
    ∀ (l : List Prog) (prev : Option Prog), chainFrom Tb prev l → (∀ z ∈ l, prev ≠ some z) → l.Nodup
  | [], _, _, _ => List.nodup_nil
  | y :: ys, prev, h, hp => by
    have hy : y ∉ ys := by
      intro hmem
      obtain ⟨l1, l2, rfl⟩ := List.append_of_mem hmem
      have h1 := chainFrom_mid Tb l1 (some y) y l2 h.2
      have h2 := hinj _ _ _ h.1 h1
      rcases lastOr_mem (some y) l1 with e | ⟨z, hz, e⟩
      · rw [e] at h2; exact hp y (List.mem_cons_self) h2
      · rw [e] at h2
        exact hp z (List.mem_cons_of_mem _ (List.mem_append_left _ hz)) h2
    refine List.nodup_cons.mpr ⟨hy, chainFrom_nodup Tb hinj ys (some y) h.2 ?_⟩
    intro z hz e
    cases e
    exact hy hz

theorem chainFrom_stable {Tb Tb' : AList (Option Prog) Prog}
    (hst : ∀ k v, AList.lookup k Tb = some v → AList.lookup k Tb' = some v) :
    ∀ (l : List Prog) (prev : Option Prog), chainFrom Tb prev l → chainFrom Tb' prev l
  | [], _, _ => trivial
  | y :: ys, _, h => ⟨hst _ _ h.1, chainFrom_stable hst ys (some y) h.2⟩

/-! ### the generator loop without a filter -/

theorem nextLoop_nodup (E : Env S T π) (hf : ∀ p, E.filter p = true) (fuel : Nat) :
    ∀ (k : Nat) (s : St S T π) (cur : Option Prog) (g' : Gen S T π) (r : Option Prog),
      NInv s → nextLoop E fuel k s cur = some (g', r) →
      NInv g'.st ∧ Stable s g'.st ∧ g'.started = true ∧
      (∀ p, r = some p → AList.lookup cur (g'.st.succOf E.G.start) = some p ∧ g'.current = some p) ∧
      (r = none → g'.current = cur) := by
  intro k
  cases k with
  | zero => intro s cur g' r _ h; simp [nextLoop] at h
  | succ k =>
    intro s cur g' r hs h
    unfold nextLoop at h
    split at h
    · simp at h
    · rename_i s1 hq
      obtain ⟨a1, a2, _⟩ := query_nodup E hs hq
      simp only [Option.some.injEq, Prod.mk.injEq] at h
      obtain ⟨rfl, rfl⟩ := h
      exact ⟨a1, a2, rfl, (by intro p hp; cases hp), fun _ => rfl⟩
    · rename_i s1 p hq
      obtain ⟨a1, a2, a3⟩ := query_nodup E hs hq
      simp only [hf p, if_true, Option.some.injEq, Prod.mk.injEq] at h
      obtain ⟨rfl, rfl⟩ := h
      refine ⟨a1, a2, rfl, ?_, (by intro hh; cases hh)⟩
      intro p' hp'; cases hp'
      exact ⟨a3 _ rfl, rfl⟩

theorem ninv_empty (G : TT S T) : NInv (St.empty G : St S T π) := by
  have getD_const : ∀ {ν β : Type} (l : List (NT S T × β)) (k : NT S T) (c : ν),
      (AList.lookup k (l.map (fun r => (r.1, c)))).getD c = c := by
    intro ν β l k c
    induction l with
    | nil => rfl
    | cons a r ih =>
      simp only [List.map_cons, AList.lookup]
      split
      · rfl
      · exact ih
  have hheap : ∀ nt, (St.empty G : St S T π).heapProgs nt = [] := by
    intro nt
    show ((St.empty G : St S T π).heapOf nt).map (·.2) = []
    have : (St.empty G : St S T π).heapOf nt = [] := getD_const _ _ _
    rw [this]; rfl
  have hsucc : ∀ nt, (St.empty G : St S T π).succOf nt = [] := fun nt => getD_const _ _ _
  refine ⟨?_, ?_, ?_, ?_, ?_, rfl⟩
  · intro nt; rw [hheap]; exact List.nodup_nil
  · intro nt p hp; rw [hheap] at hp; cases hp
  · intro nt k v hk; rw [hsucc] at hk; simp at hk
  · intro nt k v hk; rw [hsucc] at hk; simp at hk
  · intro nt k k' v hk; rw [hsucc] at hk; simp at hk

/-- invariant of the generator object: the no-duplicate invariant, and what was yielded so far is
    the chain of `succ[start]` from the sentinel, `current` being its last element -/
def NGInv (E : Env S T π) (g : Gen S T π) (out : List Prog) : Prop :=
  NInv g.st ∧ chainFrom (g.st.succOf E.G.start) none out ∧ g.current = lastOr none out

theorem next_nodup (E : Env S T π) (hf : ∀ p, E.filter p = true) (fuel : Nat) (g g' : Gen S T π)
    (out : List Prog) (r : Option Prog) (hg : NGInv E g out) (h : next E fuel g = some (g', r)) :
    (∀ p, r = some p → NGInv E g' (out ++ [p])) ∧ (r = none → NGInv E g' out) := by
  obtain ⟨hn, hc, hcur⟩ := hg
  -- the state in which the loop starts
  have key : ∀ s : St S T π, NInv s → Stable g.st s → nextLoop E fuel fuel s g.current = some (g', r) →
      (∀ p, r = some p → NGInv E g' (out ++ [p])) ∧ (r = none → NGInv E g' out) := by
    intro s hs hst hl
    obtain ⟨a1, a2, _, a4, a5⟩ := nextLoop_nodup E hf fuel _ _ _ _ _ hs hl
    have hc' : chainFrom (g'.st.succOf E.G.start) none out :=
      chainFrom_stable (fun k v hk => (hst.trans a2) _ k v hk) _ _ hc
    constructor
    · intro p hp
      obtain ⟨b1, b2⟩ := a4 p hp
      refine ⟨a1, (chainFrom_snoc _ _ _ _).mpr ⟨hc', by rw [← hcur]; exact b1⟩, ?_⟩
      rw [b2]; unfold lastOr; simp
    · intro hr
      exact ⟨a1, hc', by rw [a5 hr, hcur]⟩
  unfold next at h
  split at h
  · exact key _ hn (Stable.refl _) h
  · split at h
    · simp at h
    · rename_i s hp
      obtain ⟨hs, hst⟩ := prologue_ninv E fuel _ _ hn hp
      exact key _ hs hst h

theorem take_ngInv (E : Env S T π) (hf : ∀ p, E.filter p = true) (fuel : Nat) :
    ∀ (k : Nat) (g : Gen S T π) (acc : List Prog) (g' : Gen S T π) (out : List Prog) (b : Bool),
      NGInv E g acc → take E fuel k g acc = some (g', out, b) → NGInv E g' out := by
  intro k
  induction k with
  | zero =>
    intro g acc g' out b hg h
    simp only [take, Option.some.injEq, Prod.mk.injEq] at h
    obtain ⟨rfl, rfl, _⟩ := h
    exact hg
  | succ k ih =>
    intro g acc g' out b hg h
    unfold take at h
    split at h
    · simp at h
    · rename_i g1 hn
      simp only [Option.some.injEq, Prod.mk.injEq] at h
      obtain ⟨rfl, rfl, _⟩ := h
      exact (next_nodup E hf fuel _ _ _ _ hg hn).2 rfl
    · rename_i g1 p hn
      exact ih _ _ _ _ _ ((next_nodup E hf fuel _ _ _ _ hg hn).1 p rfl) h

theorem ngInv_new (E : Env S T π) : NGInv E (Gen.new E.G) [] :=
  ⟨ninv_empty E.G, trivial, rfl⟩

theorem NGInv.nodup {E : Env S T π} {g : Gen S T π} {out : List Prog} (h : NGInv E g out) : out.Nodup :=
  chainFrom_nodup _ (h.1.succ_inj E.G.start) out none h.2.1 (by intro z _ e; cases e)

end PS.HS
