/- No duplicates in beap search, part 5: the generator.  Every program yielded by `next` is appended to
   `_bank[start][n]`, where it was not before; programs yielded at different indices have different
   costs: the sequence produced by `take k` has no repetition. -/
import PS.Proofs.Enum.BeapNodupInit
namespace PS.Beap
open PS PS.G PS.Heapq
set_option linter.unusedSectionVars false
variable {S : Type} [DecidableEq S]

/-- no-duplicates invariant of the generator object -/
def GN (E : Env S) (g : Gen S) : Prop :=
  ∃ pp, NI E g.st pp ∧ ∀ fr, g.frame = some fr → PendOK E g.st E.G.start fr.ci fr.P fr.isFun fr.pending pp

theorem nextLoop_nodup (E : Env S) (hpos : PosW E) (fuel : Nat) : ∀ (k : Nat) (s : St S) (n : Nat) (failed : Bool) (fro : Option Frame)
    (r : Gen S × Option Prog) (pp : Ghost S), CInv E s → OI s → NI E s pp →
    (∀ fr, fro = some fr → FrC E s E.G.start fr ∧ FrO s E.G.start fr ∧ fr.ci = n ∧ PendOK E s E.G.start fr.ci fr.P fr.isFun fr.pending pp) →
    (fro = none → n + 1 = (s.clOf E.G.start).length ∨ (s.clOf E.G.start).length ≤ n) →
    nextLoop E fuel k s n failed fro = some r →
    GN E r.1 ∧ BankMono s r.1.st ∧
    ∀ p, r.2 = some p → p ∈ r.1.st.bankAt E.G.start r.1.n ∧ p ∉ s.bankAt E.G.start r.1.n := by
  intro k
  induction k with
  | zero => intro s n failed fro r pp _ _ _ _ _ h; simp [nextLoop] at h
  | succ k ih =>
    intro s n failed fro r pp hc hs hn hf hnone h
    cases fro with
    | some fr =>
      obtain ⟨hfc, hfo, hci, hpd⟩ := hf fr rfl
      simp only [nextLoop] at h
      split at h
      · cases h
      · next s1 p fr1 hr =>
        cases h
        obtain ⟨pp1, g1, g2, _, g4⟩ := (nodup_all E hpos fuel).2.2.2.1 _ _ _ _ (fr.cost.fin + 1) pp hc hfc hs hfo hn hpd (by grind) hr
        obtain ⟨q1, q2, q3⟩ := g4 p fr1 rfl
        obtain ⟨_, _, c3⟩ := (cost_all E fuel).2.2.2.1 _ _ _ _ hc hfc hr
        obtain ⟨_, _, c6, _⟩ := c3 p fr1 rfl
        refine ⟨⟨pp1, g1, fun fr' he => by cases he; exact q3⟩, g2, fun p' hp' => ?_⟩
        cases hp'
        rw [hci] at q1 q2
        exact ⟨q2, q1⟩
      · next s1 hr =>
        obtain ⟨pp1, g1, g2, _, _⟩ := (nodup_all E hpos fuel).2.2.2.1 _ _ _ _ (fr.cost.fin + 1) pp hc hfc hs hfo hn hpd (by grind) hr
        obtain ⟨o1, _, _, o4⟩ := (order_all E hpos fuel).2.2.2.1 _ _ _ _ (fr.cost.fin + 1) hc hfc hs hfo (by grind) hr
        obtain ⟨c1, c2, _⟩ := (cost_all E fuel).2.2.2.1 _ _ _ _ hc hfc hr
        have hlen : n + 1 + 1 = (s1.clOf E.G.start).length ∨ (s1.clOf E.G.start).length ≤ n + 1 := by
          have h1 : (s1.clOf E.G.start).length ≤ (s.clOf E.G.start).length + 1 := o4 rfl
          have h2 := hfo.1
          rw [hci] at h2
          have h3 : (s.clOf E.G.start).length ≤ (s1.clOf E.G.start).length := (c2 E.G.start).length_le
          omega
        split at h
        · cases h
          exact ⟨⟨pp1, g1, fun fr' he => (by cases he)⟩, g2, fun p' hp' => (by cases hp')⟩
        · obtain ⟨q1, q2, q3⟩ := ih _ _ _ _ _ pp1 c1 o1 g1 (fun fr' he => by cases he) (fun _ => hlen) h
          exact ⟨q1, g2.trans q2, fun p hp => ⟨(q3 p hp).1, fun hm => (q3 p hp).2 (g2 _ _ _ hm)⟩⟩
    | none =>
      simp only [nextLoop] at h
      have hc0 : CInv E { s with failedByEmpties := false } := CInv.of_eq (s := s) (fun _ => rfl) (fun _ => rfl) (fun _ _ => rfl) hc
      have hs0 : OI { s with failedByEmpties := false } := OI.of_eq (s := s) (fun _ => rfl) (fun _ => rfl) hs
      have hn0 : NI E { s with failedByEmpties := false } pp := NI.of_eq (s := s) (fun _ => rfl) (fun _ _ => rfl) hn
      have hnn := hnone rfl
      split at h
      · cases h
        exact ⟨⟨pp, hn0, fun fr' he => (by cases he)⟩, BankMono.of_eq (fun _ _ => rfl), fun p' hp' => (by cases hp')⟩
      · next c hget =>
        have hlt : n < (s.clOf E.G.start).length := (List.getElem?_eq_some_iff.mp hget).1
        have hl : n + 1 = (s.clOf E.G.start).length := by
          rcases hnn with h1 | h1
          · exact h1
          · omega
        obtain ⟨q1, q2, q3⟩ := ih _ _ _ _ _ pp hc0 hs0 hn0 (fun fr' he => by
          cases he
          exact ⟨⟨hget, fun a ha => by cases ha⟩, ⟨hl, hget⟩, rfl, List.nodup_nil, Or.inl rfl⟩) (fun he => by cases he) h
        exact ⟨q1, q2, q3⟩

theorem gn_new (E : Env S) : GN E (Gen.new E.G) := by
  have hq : ∀ nt, (Gen.new E.G).st.queueOf nt = [] := fun nt => lookup_map_nil E.G.rules nt
  have hb : ∀ nt ci, (Gen.new E.G).st.bankAt nt ci = [] := by
    intro nt ci
    have : (St.empty E.G).bankOf nt = [] := lookup_map_nil E.G.rules nt
    simp [show (Gen.new E.G).st = St.empty E.G from rfl, St.bankAt, this]
  refine ⟨fun _ => [], ⟨fun nt => (by rw [hq]; exact List.nodup_nil), fun nt P t hm => (by rw [hq] at hm; cases hm),
    fun nt ci p hp => (by rw [hb] at hp; cases hp), fun nt ci => (by rw [hb]; exact List.nodup_nil)⟩, fun fr he => (by cases he)⟩

theorem next_nodup (E : Env S) (hnd : RowsNodup E.G) (hst : StableAfter E) (hprod : Productive E) (hpos : PosW E)
    (fuel : Nat) (g : Gen S) (r : Gen S × Option Prog) (hgc : GC E g) (hgo : GO E g) (hgn : GN E g)
    (hfresh : g.started = false → g.st = St.empty E.G ∧ g.frame = none) (h : next E fuel g = some r) :
    GN E r.1 ∧ BankMono g.st r.1.st ∧
    ∀ p, r.2 = some p → p ∈ r.1.st.bankAt E.G.start r.1.n ∧ p ∉ g.st.bankAt E.G.start r.1.n := by
  unfold next at h
  split at h
  · cases h; exact ⟨hgn, BankMono.refl _, fun p hp => by cases hp⟩
  · split at h
    · obtain ⟨pp, hn, hpd⟩ := hgn
      refine nextLoop_nodup E hpos fuel _ _ _ _ _ _ pp hgc.1 hgo.1 hn (fun fr he => ?_) hgo.2.2 h
      exact ⟨(hgc.2 fr he).1, hgo.2.1 fr he, (hgc.2 fr he).2, hpd fr he⟩
    · next hns =>
      have hns' : g.started = false := by simpa using hns
      obtain ⟨hst0, _⟩ := hfresh hns'
      split at h
      · cases h
      · next s hp =>
        rw [hst0] at hp
        have hc : CInv E s := prologue_cinv E hnd hst hprod fuel s hp
        have hs : OI s := prologue_oi E hnd hst hprod hpos fuel s hp
        have hn : NI E s (fun _ => []) := prologue_ni E hnd fuel s hp
        have hlen := (prologue_pi E hnd fuel s hp).len E.G.start
        obtain ⟨q1, q2, q3⟩ := nextLoop_nodup E hpos fuel _ _ _ _ _ _ _ hc hs hn (fun fr he => by cases he) (fun _ => by omega) h
        have hb0 : ∀ nt ci, g.st.bankAt nt ci = [] := by
          intro nt ci
          rw [hst0]
          have : (St.empty E.G).bankOf nt = [] := lookup_map_nil E.G.rules nt
          simp [St.bankAt, this]
        have hbm0 : BankMono g.st r.1.st := by
          intro nt ci p hp'
          rw [hb0] at hp'; cases hp'
        exact ⟨q1, hbm0, fun p hp' => ⟨(q3 p hp').1, by rw [hb0]; simp⟩⟩

/-- the programs of `acc`, each with the index at which it was yielded, are in the banks of the start symbol -/
def InBank (E : Env S) (s : St S) (p : Prog) (i : Nat) : Prop := YieldAt E s p i ∧ p ∈ s.bankAt E.G.start i

theorem take_nodup (E : Env S) (hnd : RowsNodup E.G) (hst : StableAfter E) (hprod : Productive E) (hpos : PosW E) (fuel : Nat) :
    ∀ (k : Nat) (g : Gen S) (acc : List Prog) (idx : List Nat) (r : Gen S × List Prog × Bool),
      GC E g → GO E g → GN E g → (g.started = false → g.st = St.empty E.G ∧ g.frame = none ∧ acc = []) →
      All2 (InBank E g.st) acc idx → acc.Nodup → take E fuel k g acc = some r → r.2.1.Nodup := by
  intro k
  induction k with
  | zero => intro g acc idx r _ _ _ _ _ hnd' h; simp only [take] at h; cases h; exact hnd'
  | succ k ih =>
    intro g acc idx r hgc hgo hgn hfresh hacc hndacc h
    simp only [take] at h
    split at h
    · cases h
    · cases h; exact hndacc
    · next g' p hn =>
      have hfr : g.started = false → g.st = St.empty E.G ∧ g.frame = none := fun hs => ⟨(hfresh hs).1, (hfresh hs).2.1⟩
      obtain ⟨hgc', hx, _, hy⟩ := next_cost E hnd hst hprod fuel g _ hgc hfr hn
      have hgo' := next_order E hnd hst hprod hpos fuel g _ hgc hgo hfr hn
      obtain ⟨hgn', hbm, hyb⟩ := next_nodup E hnd hst hprod hpos fuel g _ hgc hgo hgn hfr hn
      have hst' : g'.started = true := (hy p rfl).1
      have hya : YieldAt E g'.st p g'.n := (hy p rfl).2
      obtain ⟨hin, hnotin⟩ := hyb p rfl
      have hacc' : All2 (InBank E g'.st) acc idx :=
        hacc.mono (fun q i hq => ⟨hq.1.ext hx, hbm _ _ _ hq.2⟩)
      refine ih g' (acc ++ [p]) (idx ++ [g'.n]) r hgc' hgo' hgn' (fun hs => by rw [hst'] at hs; cases hs)
        (hacc'.append (All2.cons ⟨hya, hin⟩ All2.nil)) ?_ h
      rw [List.nodup_append]
      refine ⟨hndacc, List.pairwise_singleton _ _, fun q hq y hy' hqy => ?_⟩
      simp only [List.mem_singleton] at hy'; subst hy'; subst hqy
      -- q was yielded before at some index i
      obtain ⟨i, _, hqi⟩ := sorted_of_index.mem_all2 hacc q hq
      by_cases hi : i = g'.n
      · subst hi; exact hnotin hqi.2
      · -- different indices: different costs
        obtain ⟨c1, a1, a2⟩ := hqi.1.ext hx
        obtain ⟨c2, b1, b2⟩ := hya
        rw [a2] at b2
        have hfin : c1.fin = c2.fin := Option.some.inj b2
        obtain ⟨hi1, rfl⟩ := List.getElem?_eq_some_iff.mp a1
        obtain ⟨hj1, rfl⟩ := List.getElem?_eq_some_iff.mp b1
        rcases Nat.lt_or_gt_of_ne hi with hlt | hgt
        · have := List.pairwise_iff_getElem.mp (hgo'.1.mono E.G.start) i g'.n hi1 hj1 hlt
          grind
        · have := List.pairwise_iff_getElem.mp (hgo'.1.mono E.G.start) g'.n i hj1 hi1 hgt
          grind

end PS.Beap
