/- Bee search, TERMINATION: the invariants of the measure at the fresh enumerator, fuel monotonicity, and the
   existence of a fuel and a number of `next` calls after which the generator has stopped. -/
import PS.Proofs.Enum.BeeTerm
namespace PS.Bee
open PS PS.G PS.Heapq

variable {S : Type} [DecidableEq S]
set_option linter.unusedSectionVars false
set_option linter.unusedSimpArgs false

structure TInv (E : Env S) (g : Gen S) : Prop where
  all : All E g
  strict : StrictQ g
  kn : KN g.st
  valid : VSt E g.st
  incl : InCl g

theorem step_tinv (E : Env S) (H : Hyp E) (hfix : E.fixF11 = true) (m : Int) (hmax : E.maxCost = some m) (g g' : Gen S)
    (out : Option Prog) (h : step E g = some (g', out)) (ht : TInv E g) :
    TInv E g' ∧ (g.phase.isDone = false → LT4 (meas m g') (meas m g)) := by
  obtain ⟨b, hob⟩ := ht.all.ord
  obtain ⟨ha', _⟩ := step_all E H hfix g g' out h ht.all
  obtain ⟨hs', hk'⟩ := step_strict E H.nnw H.pos g g' out b h ht.all.sound hob ht.kn ht.strict
  have hv' := step_valid E g g' out h ht.valid
  by_cases hd : g.phase.isDone = true
  · have hg : g' = g := by
      unfold step at h
      split at h
      · simp only [Option.some.injEq, Prod.mk.injEq] at h; exact h.1.symm
      all_goals (rename_i hph; rw [hph] at hd; simp [Phase.isDone] at hd)
    subst hg
    exact ⟨ht, fun hnd => by rw [hd] at hnd; cases hnd⟩
  · have hnd : g.phase.isDone = false := by simpa using hd
    obtain ⟨hlt, hic'⟩ := step_term E m hmax hfix g g' out b h hnd ht.all.sound ht.all.nodup.st hob ht.kn ht.strict ht.incl
    exact ⟨⟨ha', hs', hk', hv', hic'⟩, fun _ => hlt⟩

/-! ### the fresh enumerator -/

theorem initRules_tv (E : Env S) (nt : NT S Unit) (leaves : Bool) :
    ∀ (rs : List (Sym × (List (Ty × S) × Unit))) (s s' : St S), initRules E nt leaves rs s = some s' → s.costList = [] →
      KN s → QAll (QV []) s → DAll (DV []) s →
      KN s' ∧ QAll (QV []) s' ∧ DAll (DV []) s' ∧ s'.bank = s.bank ∧ s'.costList = [] := by
  intro rs
  induction rs with
  | nil =>
    intro s s' h hcl hk hq hd
    simp only [initRules, Option.some.injEq] at h; subst h; exact ⟨hk, hq, hd, rfl, hcl⟩
  | cons r rest ih =>
    intro s s' h hcl hk hq hd
    obtain ⟨P, rl⟩ := r
    have key : ∀ (idx : List Nat) (s1 : St S), addCombination E s nt P idx none = some s1 →
        KN s1 ∧ QAll (QV []) s1 ∧ DAll (DV []) s1 ∧ s1.bank = s.bank ∧ s1.costList = [] := by
      intro idx s1 ha
      obtain ⟨hq1, hd1⟩ := addCombination_all E (QV []) (DV []) s s1 nt P idx none ha
        (fun c hn _ => qv_of_not_delayed [] nt idx P none c (fun i hi => by cases hi) (hcl ▸ hn))
        (fun _ => fun i hi => by cases hi) hq hd
      have hqd := (addCombination_spec E s s1 nt P idx none ha).1
      exact ⟨addCombination_kn E s s1 nt P idx none ha hk, hq1, hd1, hqd.bank, hqd.cl.trans hcl⟩
    simp only [initRules] at h
    split at h
    · split at h
      · split at h
        · simp at h
        · rename_i s1 ha
          obtain ⟨a1, a2, a3, a4, a5⟩ := key [] s1 ha
          obtain ⟨b1, b2, b3, b4, b5⟩ := ih s1 s' h a5 a1 a2 a3
          exact ⟨b1, b2, b3, b4.trans a4, b5⟩
      · exact ih s s' h hcl hk hq hd
    · split at h
      · split at h
        · simp at h
        · rename_i s1 ha
          obtain ⟨a1, a2, a3, a4, a5⟩ := key _ s1 ha
          obtain ⟨b1, b2, b3, b4, b5⟩ := ih s1 s' h a5 a1 a2 a3
          exact ⟨b1, b2, b3, b4.trans a4, b5⟩
      · exact ih s s' h hcl hk hq hd

theorem initAll_tv (E : Env S) (leaves : Bool) :
    ∀ (tab : List (NT S Unit × AList Sym (List (Ty × S) × Unit))) (s s' : St S), initAll E leaves tab s = some s' →
      s.costList = [] → KN s → QAll (QV []) s → DAll (DV []) s →
      KN s' ∧ QAll (QV []) s' ∧ DAll (DV []) s' ∧ s'.costList = [] ∧
      (∀ nt, (AList.lookup nt s.bank).isSome = true → (AList.lookup nt s'.bank).isSome = true) ∧
      (leaves = true → ∀ e ∈ tab, (AList.lookup e.1 s'.bank).isSome = true) := by
  intro tab
  induction tab with
  | nil =>
    intro s s' h hcl hk hq hd
    simp only [initAll, Option.some.injEq] at h; subst h
    exact ⟨hk, hq, hd, hcl, fun _ h => h, fun _ e he => by cases he⟩
  | cons e rest ih =>
    intro s s' h hcl hk hq hd
    obtain ⟨nt, rs⟩ := e
    simp only [initAll] at h
    split at h
    · simp at h
    · rename_i s1 hr
      by_cases hl : leaves = true
      · subst hl
        simp only [if_true] at hr
        have hk0 : KN { s with bank := AList.insert nt [] s.bank, queued := AList.insert nt [] s.queued } := keys_insert_nodup _ _ _ hk
        have hq0 : QAll (QV []) { s with bank := AList.insert nt [] s.bank, queued := AList.insert nt [] s.queued } := by
          intro nt' l hm e he
          rcases mem_insert hm with hm | hm
          · cases hm; cases he
          · exact hq _ _ hm _ he
        obtain ⟨a1, a2, a3, a4, a5⟩ := initRules_tv E nt true rs _ s1 hr hcl hk0 hq0 hd
        obtain ⟨b1, b2, b3, b4, b5, b6⟩ := ih s1 s' h a5 a1 a2 a3
        refine ⟨b1, b2, b3, b4, ?_, ?_⟩
        · intro nt' hs
          apply b5
          rw [a4]
          simp only
          rw [AList.lookup_insert]
          by_cases hn : nt' = nt
          · simp [hn]
          · simp only [hn, if_false]; exact hs
        · intro _ e he
          rcases List.mem_cons.mp he with he | he
          · subst he
            apply b5
            rw [a4]
            simp [AList.lookup_insert_self]
          · exact b6 rfl e he
      · have hl' : leaves = false := by simpa using hl
        subst hl'
        simp only [Bool.false_eq_true, if_false] at hr
        obtain ⟨a1, a2, a3, a4, a5⟩ := initRules_tv E nt false rs _ s1 hr hcl hk hq hd
        obtain ⟨b1, b2, b3, b4, b5, _⟩ := ih s1 s' h a5 a1 a2 a3
        exact ⟨b1, b2, b3, b4, fun nt' hs => b5 nt' (by rw [a4]; exact hs), fun hf => by cases hf⟩

theorem tinv_new (E : Env S) (H : Hyp E) (g0 : Gen S) (h : Gen.new E = some g0) : TInv E g0 := by
  obtain ⟨ha, _⟩ := all_new E H g0 h
  obtain ⟨_, hph, hcl, _, _, _⟩ := ginv_new E g0 h
  have h0 := h
  unfold Gen.new at h
  split at h
  · simp at h
  · rename_i s1 h1
    split at h
    · simp at h
    · rename_i s2 h2
      simp only [Option.some.injEq] at h; subst h
      obtain ⟨a1, a2, a3, a4, _, a6⟩ := initAll_tv E true E.G.rules {} s1 h1 rfl (by simp [KN, AList.keys])
        (by intro nt l hm; cases hm) (by intro nt l hm; cases hm)
      obtain ⟨b1, b2, b3, b4, b5, _⟩ := initAll_tv E false E.G.rules s1 s2 h2 a4 a1 a2 a3
      refine ⟨ha, ?_, b1, ⟨by rw [b4]; exact b2, by rw [b4]; exact b3, ?_⟩, by simp [InCl, hph]⟩
      · simp only [StrictQ, hph, Phase.cost?]
        intro nt l _ e _ x hx
        rw [b4] at hx; cases hx
      · intro nt hk
        obtain ⟨e, he, hee⟩ := List.mem_map.mp hk
        apply b5
        have := a6 rfl e he
        rw [hee] at this; exact this

/-! ### fuel monotonicity -/

theorem next_mono (E : Env S) : ∀ (n : Nat) (g : Gen S) (r : Gen S × Option Prog), next E n g = some r →
    ∀ d, next E (n + d) g = some r := by
  intro n
  induction n with
  | zero => intro g r h; simp [next] at h
  | succ n ih =>
    intro g r h d
    have : n + 1 + d = (n + d) + 1 := by omega
    rw [this]
    simp only [next] at h ⊢
    split
    · rename_i hd; simp only [hd, if_true] at h; exact h
    · rename_i hd
      simp only [hd] at h
      cases hs : step E g with
      | none => simp [hs] at h
      | some r1 =>
        obtain ⟨g1, o⟩ := r1
        simp only [hs] at h ⊢
        cases o with
        | some p => exact h
        | none => exact ih g1 r h d

theorem take_mono (E : Env S) (f : Nat) : ∀ (k : Nat) (g : Gen S) (acc : List Prog) (r : Gen S × List Prog × Bool),
    take E f k g acc = some r → ∀ d, take E (f + d) k g acc = some r := by
  intro k
  induction k with
  | zero => intro g acc r h d; simpa [take] using h
  | succ k ih =>
    intro g acc r h d
    simp only [take] at h ⊢
    cases hn : next E f g with
    | none => simp [hn] at h
    | some r1 =>
      rw [next_mono E f g r1 hn d]
      obtain ⟨g1, o⟩ := r1
      simp only [hn] at h
      cases o with
      | none => exact h
      | some p => exact ih g1 _ r h d

/-- **TERMINATION**: from any state satisfying the invariants there are a fuel and a number of `next` calls after
    which the generator has stopped -/
theorem take_terminates (E : Env S) (H : Hyp E) (hclosed : Closed E) (hfix : E.fixF11 = true) (m : Int)
    (hmax : E.maxCost = some m) :
    ∀ (x : Nat × Nat × Nat × Nat) (g : Gen S), meas m g = x → TInv E g →
      ∀ acc, ∃ fuel k g' out, take E fuel k g acc = some (g', out, true) := by
  intro x
  induction x using (lt4_wf).induction with
  | _ x ih =>
    intro g hx ht acc
    by_cases hd : g.phase.isDone = true
    · exact ⟨1, 1, g, acc, by simp [take, next, hd]⟩
    · have hnd : g.phase.isDone = false := by simpa using hd
      obtain ⟨b, hob⟩ := ht.all.ord
      obtain ⟨⟨g1, o⟩, hs⟩ := step_total E H.costs hclosed g ht.all.nodup.st ht.valid (ost_of_gord E g b hob)
      obtain ⟨ht1, hlt⟩ := step_tinv E H hfix m hmax g g1 o hs ht
      have hlt' := hlt hnd
      rw [hx] at hlt'
      cases o with
      | some p =>
        obtain ⟨f1, k1, g', out, h1⟩ := ih _ hlt' g1 rfl ht1 (acc ++ [p])
        refine ⟨f1 + 1, k1 + 1, g', out, ?_⟩
        have hn : next E (f1 + 1) g = some (g1, some p) := by simp [next, hnd, hs]
        simp only [take, hn]
        exact take_mono E f1 k1 g1 _ _ h1 1
      | none =>
        obtain ⟨f1, k1, g', out, h1⟩ := ih _ hlt' g1 rfl ht1 acc
        cases k1 with
        | zero => simp [take] at h1
        | succ k1 =>
          refine ⟨f1 + 1, k1 + 1, g', out, ?_⟩
          simp only [take] at h1 ⊢
          cases hn1 : next E f1 g1 with
          | none => simp [hn1] at h1
          | some r1 =>
            have hn : next E (f1 + 1) g = some r1 := by
              simp only [next, hnd, hs]; exact hn1
            rw [hn]
            obtain ⟨g2, o2⟩ := r1
            simp only [hn1] at h1
            cases o2 with
            | none => exact h1
            | some p2 => exact take_mono E f1 k1 g2 _ _ h1 1

end PS.Bee
