/- `__init_heap__` turns max-priority tables that are in sync (`MaxOK`) into a `Base` state:
   the heap of `S` holds `max_priority[(S, P)]` for every rule `P` (pushed in rule order), so what it
   pops first is the first best of them = `max_priority[S]`, which is the argument used by the
   initial programs of the parents. -/
import PS.Proofs.Enum.HeapRoot
import PS.Proofs.Enum.HSOrderInit
namespace PS.HS
open PS PS.G
set_option linter.unusedSectionVars false
variable {S : Type} [DecidableEq S]

/-- the heap element `__init_heap__` pushes for rule `P` of `nt` -/
def entry (E : Env S Unit Rat) (s : St S Unit Rat) (nt : NT S Unit) (P : Sym) : Option (Rat × Prog) :=
  (AList.lookup (nt, P) s.maxRule).map (fun p => ((prioSpec E p nt).getD 0, p))

def entries (E : Env S Unit Rat) (s : St S Unit Rat) (nt : NT S Unit) (Ps : List Sym) : List (Rat × Prog) :=
  Ps.filterMap (entry E s nt)

/-- the max-priority tables are in sync -/
structure MaxOK (E : Env S Unit Rat) (s : St S Unit Rat) : Prop where
  /-- `max_priority[(S, P)] = P(max_priority[S1], …)` for the current `max_priority[Si]` -/
  sync : ∀ nt F prog ra, AList.lookup (nt, F) s.maxRule = some prog → E.G.rule? nt F = some (ra, ()) →
    ∃ ms, prog = .node F ms ∧
      ∀ (i : Nat) a m, ra[i]? = some a → ms[i]? = some m → AList.lookup (argNT a) s.maxNT = some m
  /-- `max_priority[S]` is the first best of the `max_priority[(S, P)]` in rule order -/
  best : ∀ nt rs m, AList.lookup nt E.G.rules = some rs → AList.lookup nt s.maxNT = some m →
    ∃ pr, (entries E s nt (AList.keys rs)).foldl (Heapq.bestStep (ltE E.ops)) none = some (pr, m)

theorem entries_congr (E : Env S Unit Rat) {s s' : St S Unit Rat} (h : s'.maxRule = s.maxRule)
    (nt : NT S Unit) (Ps : List Sym) : entries E s' nt Ps = entries E s nt Ps := by
  unfold entries entry; rw [h]

/-- one `__init_heap__(nt)` -/
theorem initHeapLoop_spec (E : Env S Unit Rat) (hthr : E.ops.thr = none) (nt : NT S Unit) :
    ∀ (Ps : List Sym) (s s' : St S Unit Rat), SInv E s → MInv E s → initHeapLoop E nt Ps s = some s' →
      s'.heapOf nt = (entries E s nt Ps).foldl (Heapq.push (ltE E.ops)) (s.heapOf nt) ∧
      s'.seenOf nt = s.seenOf nt ++ (entries E s nt Ps).map (·.2) ∧
      (∀ nt', nt' ≠ nt → s'.heapOf nt' = s.heapOf nt' ∧ s'.seenOf nt' = s.seenOf nt') ∧
      (∀ nt', s'.succOf nt' = s.succOf nt') ∧ s'.maxRule = s.maxRule ∧ s'.maxNT = s.maxNT ∧
      SInv E s' ∧ MInv E s' := by
  intro Ps
  induction Ps with
  | nil =>
    intro s s' hs hm h
    simp only [initHeapLoop, Option.some.injEq] at h
    subst h
    exact ⟨rfl, by simp [entries], fun _ _ => ⟨rfl, rfl⟩, fun _ => rfl, rfl, rfl, hs, hm⟩
  | cons P rest ih =>
    intro s s' hs hm h
    unfold initHeapLoop at h
    split at h
    · simp at h
    · rename_i prog hl
      split at h
      · simp at h
      · dsimp only at h
        split at h
        · simp at h
        · rename_i r hcp
          have hg := hm.rule_gen nt P prog hl
          obtain ⟨hv, _⟩ := computePrio_spec E _ hs.cache_ok nt prog hg r.1 r.2 hcp
          have hok : pushOK E.ops r.2 = true := by unfold pushOK; rw [hthr]
          have heq : (if pushOK E.ops r.2 = true then
                St.setHeap { s.addSeen nt prog with cache := r.1 } nt
                  (Heapq.push (ltE E.ops) (St.heapOf { s.addSeen nt prog with cache := r.1 } nt) (r.2, prog))
              else { s.addSeen nt prog with cache := r.1 }) = pushNew E s nt prog := by
            unfold pushNew
            simp only [hcp]
          rw [heq] at h
          have hs1 := hs.pushNew nt prog hg
          have hmr := pushNew_maxRule E s nt prog
          have hm1 : MInv E (pushNew E s nt prog) :=
            ⟨fun a b c hh => hm.rule_gen a b c (hmr.1 ▸ hh), fun a b hh => hm.nt_gen a b (hmr.2 ▸ hh), hs1.cache_ok⟩
          obtain ⟨a1, a2, a3, a4, a5, a6, a7, a8⟩ := ih _ _ hs1 hm1 h
          -- the state after the push
          have hpn : (pushNew E s nt prog).heapOf nt = Heapq.push (ltE E.ops) (s.heapOf nt) (r.2, prog) ∧
              (∀ nt', nt' ≠ nt → (pushNew E s nt prog).heapOf nt' = s.heapOf nt') := by
            unfold pushNew
            simp only [hcp, hok, if_true]
            refine ⟨?_, ?_⟩
            · rw [St.heapOf_setHeap]; simp only [if_true]; rfl
            · intro nt' hne; rw [St.heapOf_setHeap]; simp only [hne, if_false]; rfl
          obtain ⟨v1, v2, _, _⟩ := pushNew_views E s nt prog
          have hent : entry E s nt P = some (r.2, prog) := by
            unfold entry; rw [hl]; simp only [Option.map_some]; rw [hv]; rfl
          have hcons : entries E s nt (P :: rest) = (r.2, prog) :: entries E s nt rest := by
            unfold entries; simp only [List.filterMap_cons, hent]
          have hcg := entries_congr E hmr.1 nt rest
          refine ⟨?_, ?_, ?_, ?_, a5.trans hmr.1, a6.trans hmr.2, a7, a8⟩
          · rw [a1, hcons, List.foldl_cons, hpn.1, hcg]
          · rw [a2, hcons, v2, hcg]; simp
          · intro nt' hne
            obtain ⟨b1, b2⟩ := a3 nt' hne
            refine ⟨b1.trans (hpn.2 nt' hne), ?_⟩
            rw [b2, v2]; simp [hne]
          · intro nt'; rw [a4, v1]

theorem initHeaps_spec (E : Env S Unit Rat) (hthr : E.ops.thr = none) :
    ∀ (rows : List (NT S Unit × AList Sym (List (Ty × S) × Unit))) (s s' : St S Unit Rat),
      (AList.keys rows).Nodup → SInv E s → MInv E s → initHeaps E rows s = some s' →
      (∀ nt rs, (nt, rs) ∈ rows →
        s'.heapOf nt = (entries E s nt (AList.keys rs)).foldl (Heapq.push (ltE E.ops)) (s.heapOf nt) ∧
        s'.seenOf nt = s.seenOf nt ++ (entries E s nt (AList.keys rs)).map (·.2)) ∧
      (∀ nt, nt ∉ AList.keys rows → s'.heapOf nt = s.heapOf nt ∧ s'.seenOf nt = s.seenOf nt) ∧
      (∀ nt', s'.succOf nt' = s.succOf nt') ∧ s'.maxRule = s.maxRule ∧ s'.maxNT = s.maxNT := by
  intro rows
  induction rows with
  | nil =>
    intro s s' _ _ _ h
    simp only [initHeaps, Option.some.injEq] at h
    subst h
    exact ⟨(fun _ _ hm => by cases hm), fun _ _ => ⟨rfl, rfl⟩, fun _ => rfl, rfl, rfl⟩
  | cons row rest ih =>
    intro s s' hnd hs hm h
    obtain ⟨nt0, rs0⟩ := row
    unfold initHeaps at h
    split at h
    · simp at h
    · rename_i s1 hl
      simp only [AList.keys, List.map_cons, List.nodup_cons] at hnd
      obtain ⟨a1, a2, a3, a4, a5, a6, a7, a8⟩ := initHeapLoop_spec E hthr nt0 _ _ _ hs hm hl
      obtain ⟨b1, b2, b3, b4, b5⟩ := ih _ _ hnd.2 a7 a8 h
      refine ⟨?_, ?_, fun nt' => (b3 nt').trans (a4 nt'), b4.trans a5, b5.trans a6⟩
      · intro nt rs hmem
        rcases List.mem_cons.mp hmem with heq | hmem'
        · cases heq
          obtain ⟨c1, c2⟩ := b2 nt0 hnd.1
          exact ⟨c1.trans a1, c2.trans a2⟩
        · have hne : nt ≠ nt0 := by
            intro heq; subst heq
            exact hnd.1 (List.mem_map.mpr ⟨(nt, rs), hmem', rfl⟩)
          obtain ⟨c1, c2⟩ := b1 nt rs hmem'
          obtain ⟨d1, d2⟩ := a3 nt hne
          rw [c1, c2, entries_congr E a5, d1, d2]
          exact ⟨rfl, rfl⟩
      · intro nt hnot
        simp only [AList.keys, List.map_cons, List.mem_cons, not_or] at hnot
        obtain ⟨c1, c2⟩ := b2 nt hnot.2
        obtain ⟨d1, d2⟩ := a3 nt hnot.1
        exact ⟨c1.trans d1, c2.trans d2⟩

/-- **`__init_heap__` on tables in sync gives a `Base` state** (threshold 0, dict keys distinct) -/
theorem base_of_maxOK (E : Env S Unit Rat) (w : Heapq.WeakOrder E.ops.lt) (hthr : E.ops.thr = none)
    (hk : (AList.keys E.G.rules).Nodup)
    (s s' : St S Unit Rat) (hs : SInv E s) (hm : MInv E s) (hok : MaxOK E s)
    (hempty : ∀ nt, s.heapOf nt = [] ∧ s.seenOf nt = [] ∧ s.succOf nt = [])
    (h : initHeaps E E.G.rules s = some s') : Base E s' := by
  obtain ⟨a1, a2, a3, a4, a5⟩ := initHeaps_spec E hthr _ _ _ hk hs hm h
  -- the tables of a non-terminal after `__init_heap__`
  have hrow : ∀ nt rs, AList.lookup nt E.G.rules = some rs →
      s'.heapOf nt = (entries E s nt (AList.keys rs)).foldl (Heapq.push (ltE E.ops)) [] ∧
      s'.seenOf nt = (entries E s nt (AList.keys rs)).map (·.2) := by
    intro nt rs hl
    obtain ⟨b1, b2⟩ := a1 nt rs (AList.lookup_some_mem hl)
    rw [(hempty nt).1] at b1
    rw [(hempty nt).2.1] at b2
    exact ⟨b1, by simpa using b2⟩
  have hnorow : ∀ nt, AList.lookup nt E.G.rules = none → s'.heapOf nt = [] ∧ s'.seenOf nt = [] := by
    intro nt hl
    have hnk : nt ∉ AList.keys E.G.rules := by
      intro hmem
      have := (AList.lookup_isSome_iff_mem_keys (k := nt) (d := E.G.rules)).mpr hmem
      rw [hl] at this; cases this
    obtain ⟨b1, b2⟩ := a2 nt hnk
    exact ⟨b1.trans (hempty nt).1, b2.trans (hempty nt).2.1⟩
  refine ⟨fun nt => (a3 nt).trans (hempty nt).2.2, ?_⟩
  intro nt F args ra hmem hr i ai a hai ha e h' hp
  -- the program is `max_priority[(nt, P)]` for a rule `P`
  cases hl : AList.lookup nt E.G.rules with
  | none => rw [(hnorow nt hl).2] at hmem; cases hmem
  | some rs =>
    rw [(hrow nt rs hl).2] at hmem
    obtain ⟨ent, hent, hent2⟩ := List.mem_map.mp hmem
    unfold entries at hent
    obtain ⟨P, hPk, hP⟩ := List.mem_filterMap.mp hent
    unfold entry at hP
    cases hmr : AList.lookup (nt, P) s.maxRule with
    | none => rw [hmr] at hP; cases hP
    | some prog =>
      rw [hmr] at hP
      simp only [Option.map_some, Option.some.injEq] at hP
      have hprog : prog = .node F args := by rw [← hent2, ← hP]
      -- `rule? nt P` exists because the program is derivable
      have hgen := hm.rule_gen nt P prog hmr
      -- the head of the program is the rule
      have hrP : ∃ rl, E.G.rule? nt P = some rl := by
        have := (AList.lookup_isSome_iff_mem_keys (k := P) (d := rs)).mpr hPk
        cases hlp : AList.lookup P rs with
        | none => rw [hlp] at this; cases this
        | some rl => exact ⟨rl, by unfold TT.rule?; rw [hl]; exact hlp⟩
      obtain ⟨⟨raP, u⟩, hrP⟩ := hrP
      cases u
      obtain ⟨ms', hms', _⟩ := hok.sync nt P prog raP hmr hrP
      have hF : F = P := by
        rw [hprog] at hms'
        cases hms'; rfl
      subst hF
      obtain ⟨ms, hms, hsync⟩ := hok.sync nt F prog ra hmr hr
      rw [hprog] at hms
      cases hms
      have hmn := hsync i a ai ha hai
      -- the heap of the argument's non-terminal
      cases hlc : AList.lookup (argNT a) E.G.rules with
      | none => rw [(hnorow _ hlc).1] at hp; simp [Heapq.pop] at hp
      | some rsc =>
        obtain ⟨pr, hbest⟩ := hok.best (argNT a) rsc ai hlc (a5 ▸ hmn)
        have hhead := Heapq.pop_head _ _ _ _ hp
        rw [(hrow _ rsc hlc).1, Heapq.foldl_push_head (ltE_weakOrder E.ops w) _ [] (Heapq.isHeap_nil _)] at hhead
        simp only [List.head?_nil] at hhead
        rw [hbest] at hhead
        cases hhead
        rfl

end PS.HS
