/- More facts about the state built by `__init_heap__`: cover invariant, initial programs, non-empty
   initial heaps. -/
import PS.Proofs.Enum.HSCompleteCore
import PS.Proofs.Enum.HSSorted
namespace PS.HS
open PS PS.G
set_option linter.unusedSectionVars false
variable {S : Type} [DecidableEq S]

theorem CInv.pushNew_of_some {E : Env S Unit Rat} {s : St S Unit Rat} (hP : CInv s) (nt : NT S Unit) (np : Prog)
    (c' : AList (Prog × NT S Unit) Rat) (v : Rat) (hcp : computePrio E s.cache nt np = some (c', v))
    (hok : pushOK E.ops v = true) (hcached : E.ops.cached = true) : CInv (pushNew E s nt np) := by
  rw [pushNew_eq E s nt np c' v hcp hok]
  obtain ⟨hmono, hnew⟩ := computePrio_cache E s.cache nt _ c' v hcp hcached
  have hpp := Heapq.push_perm (ltE E.ops) (s.heapOf nt) (v, np)
  refine ⟨?_, ?_, ?_⟩
  · intro nt' p hmem
    have hmem' : p ∈ (s.addSeen nt np).seenOf nt' := hmem
    rw [St.seenOf_addSeen] at hmem'
    have hheap : (St.setHeap { s.addSeen nt np with cache := c' } nt
        (Heapq.push (ltE E.ops) (s.heapOf nt) (v, np))).heapProgs nt' =
        if nt' = nt then (Heapq.push (ltE E.ops) (s.heapOf nt) (v, np)).map (·.2) else s.heapProgs nt' := by
      unfold St.heapProgs
      rw [St.heapOf_setHeap]
      split <;> rfl
    rw [hheap]
    split at hmem'
    · rename_i heq
      subst heq
      simp only [if_true]
      rcases List.mem_append.mp hmem' with hold | hnew'
      · rcases hP.seen_cover _ p hold with hh | hv
        · left
          obtain ⟨e0, he0, he02⟩ := List.mem_map.mp hh
          exact List.mem_map.mpr ⟨e0, hpp.symm.subset (List.mem_cons_of_mem _ he0), he02⟩
        · exact Or.inr hv
      · simp only [List.mem_singleton] at hnew'
        subst hnew'
        left
        exact List.mem_map.mpr ⟨(v, _), hpp.symm.subset (List.mem_cons_self), rfl⟩
    · rename_i hne'
      simp only [hne', if_false]
      exact hP.seen_cover nt' p hmem'
  · intro nt' e' he'
    show (AList.lookup (e'.2, nt') c').isSome = true
    rw [St.heapOf_setHeap] at he'
    split at he'
    · rename_i heq
      subst heq
      rcases List.mem_cons.mp (hpp.subset he') with rfl | hold
      · exact hnew
      · exact hmono _ (hP.heap_cached _ e' hold)
    · exact hmono _ (hP.heap_cached nt' e' he')
  · intro nt' k v' hk
    show (AList.lookup (v', nt') c').isSome = true
    exact hmono _ (hP.val_cached nt' k v' hk)

theorem initHeapLoop_more (E : Env S Unit Rat) (hthr : E.ops.thr = none) (hcached : E.ops.cached = true)
    (nt : NT S Unit) :
    ∀ (Ps : List Sym) (s s' : St S Unit Rat), CInv s → initHeapLoop E nt Ps s = some s' →
      CInv s' ∧ ∀ P ∈ Ps, (MR s nt P).isSome = true := by
  intro Ps
  induction Ps with
  | nil =>
    intro s s' hc h
    simp only [initHeapLoop, Option.some.injEq] at h
    subst h
    exact ⟨hc, by intro P hP; cases hP⟩
  | cons P rest ih =>
    intro s s' hc h
    unfold initHeapLoop at h
    split at h
    · simp at h
    · rename_i prog hl
      split at h
      · simp at h
      · dsimp only at h
        split at h
        · simp at h
        · rename_i r hcp
          have hok : pushOK E.ops r.2 = true := by unfold pushOK; rw [hthr]
          have heq : (if pushOK E.ops r.2 = true then
                St.setHeap { s.addSeen nt prog with cache := r.1 } nt
                  (Heapq.push (ltE E.ops) (St.heapOf { s.addSeen nt prog with cache := r.1 } nt) (r.2, prog))
              else { s.addSeen nt prog with cache := r.1 }) = pushNew E s nt prog := by
            unfold pushNew
            simp only [hcp]
          rw [heq] at h
          have hcp' : computePrio E s.cache nt prog = some (r.1, r.2) := hcp
          obtain ⟨a1, a2⟩ := ih _ _ (hc.pushNew_of_some nt prog r.1 r.2 hcp' hok hcached) h
          refine ⟨a1, ?_⟩
          intro Q hQ
          rcases List.mem_cons.mp hQ with rfl | hQ
          · unfold MR; rw [hl]; rfl
          · have := a2 Q hQ
            unfold MR at this ⊢
            rw [(pushNew_maxRule E s nt prog).1] at this
            exact this

theorem initHeapLoop_maxRule (E : Env S Unit Rat) (nt : NT S Unit) :
    ∀ (Ps : List Sym) (s s' : St S Unit Rat), initHeapLoop E nt Ps s = some s' → s'.maxRule = s.maxRule := by
  intro Ps
  induction Ps with
  | nil => intro s s' h; simp only [initHeapLoop, Option.some.injEq] at h; subst h; rfl
  | cons P rest ih =>
    intro s s' h
    unfold initHeapLoop at h
    split at h
    · simp at h
    · rename_i prog hl
      split at h
      · simp at h
      · dsimp only at h
        split at h
        · simp at h
        · rename_i r hcp
          have heq : (if pushOK E.ops r.2 = true then
                St.setHeap { s.addSeen nt prog with cache := r.1 } nt
                  (Heapq.push (ltE E.ops) (St.heapOf { s.addSeen nt prog with cache := r.1 } nt) (r.2, prog))
              else { s.addSeen nt prog with cache := r.1 }) = pushNew E s nt prog := by
            unfold pushNew
            simp only [hcp]
          rw [heq] at h
          exact (ih _ _ h).trans (pushNew_maxRule E s nt prog).1

theorem initHeaps_maxRule (E : Env S Unit Rat) :
    ∀ (rows : List (NT S Unit × AList Sym (List (Ty × S) × Unit))) (s s' : St S Unit Rat),
      initHeaps E rows s = some s' → s'.maxRule = s.maxRule := by
  intro rows
  induction rows with
  | nil => intro s s' h; simp only [initHeaps, Option.some.injEq] at h; subst h; rfl
  | cons row rest ih =>
    intro s s' h
    obtain ⟨nt0, rs0⟩ := row
    unfold initHeaps at h
    split at h
    · simp at h
    · rename_i s1 hl
      exact (ih _ _ h).trans (initHeapLoop_maxRule E nt0 _ _ _ hl)

theorem initHeaps_more (E : Env S Unit Rat) (hthr : E.ops.thr = none) (hcached : E.ops.cached = true) :
    ∀ (rows : List (NT S Unit × AList Sym (List (Ty × S) × Unit))) (s s' : St S Unit Rat),
      CInv s → initHeaps E rows s = some s' →
      CInv s' ∧ ∀ nt rs, (nt, rs) ∈ rows → ∀ P ∈ AList.keys rs, (MR s nt P).isSome = true := by
  intro rows
  induction rows with
  | nil =>
    intro s s' hc h
    simp only [initHeaps, Option.some.injEq] at h
    subst h
    exact ⟨hc, by intro nt rs hm; cases hm⟩
  | cons row rest ih =>
    intro s s' hc h
    obtain ⟨nt0, rs0⟩ := row
    unfold initHeaps at h
    split at h
    · simp at h
    · rename_i s1 hl
      obtain ⟨a1, a2⟩ := initHeapLoop_more E hthr hcached nt0 _ _ _ hc hl
      obtain ⟨b1, b2⟩ := ih _ _ a1 h
      refine ⟨b1, ?_⟩
      intro nt rs hmem P hP
      rcases List.mem_cons.mp hmem with heq | hmem'
      · cases heq; exact a2 P hP
      · have := b2 nt rs hmem' P hP
        unfold MR at this ⊢
        rw [initHeapLoop_maxRule E nt0 _ _ _ hl] at this
        exact this

end PS.HS
