/- Every call of the heap-search machine keeps the state invariants (acyclic context-free grammar,
   any priority type satisfying `Law`, any threshold, with or without filter). -/
import PS.Proofs.Enum.GCore
import PS.Proofs.Enum.HSQuiet
namespace PS.HG
open PS PS.G PS.HS
set_option linter.unusedSectionVars false
variable {S π : Type} [DecidableEq S]

theorem hinv_pushStep {E : Env S Unit π} {rank} {Good} (L : Law E rank Good) {s : St S Unit π} (hs : SInv E s)
    (hh : HInv E s) (F : Sym) (args : List Prog) (nt : NT S Unit) (i : Nat) (r : Option Prog)
    (hg : ∀ q, r = some q → gen E.G (.node F (args.set i q)) nt = true) : HInv E (pushStep E s F args nt i r) := by
  unfold pushStep
  cases r with
  | none => exact hh
  | some q =>
    simp only
    split
    · exact hh
    · unfold pushNew
      simp only
      split
      · exact hh
      · rename_i r hcp
        split
        · intro nt'
          rw [St.heapOf_setHeap]
          split
          · rename_i heq; subst heq
            have hv := (computePrio_spec E _ hs.cache_ok nt' _ (hg q rfl) r.1 r.2 hcp).1
            exact Heapq.push_isHeap_on L.ltE _ _ (heap_good L hs nt') (L.good _ _ _ hv) (hh nt')
          · exact hh nt'
        · exact hh

/-- what `query(S, None)` does when the enumeration of `S` has not started -/
theorem query_none_inv {E : Env S Unit π} {s s1 : St S Unit π} {nt : NT S Unit} {r0 : Option Prog}
    (h : Big E (.query nt none) s s1 r0) (hnone : AList.lookup none (s.succOf nt) = none)
    (hdel : s.deleted = [] ∨ s.heapOf nt = []) :
    (Heapq.pop (ltE E.ops) (s.heapOf nt) = none ∧ s1 = s) ∨
    (∃ e h', Heapq.pop (ltE E.ops) (s.heapOf nt) = some (e, h') ∧ r0 = some e.2) := by
  cases h with
  | query_direct _ hb =>
    cases hb with
    | lop_hit hl => rw [hnone] at hl; cases hl
    | lop_miss _ hp =>
      cases hp with
      | pop_empty hpe => exact Or.inl ⟨hpe, rfl⟩
      | pop_deleted hpd hd _ _ =>
        rcases hdel with hdel | hdel
        · rw [hdel] at hd; simp at hd
        · rw [hdel] at hpd; simp [Heapq.pop] at hpd
      | pop_take hpt _ _ => exact Or.inr ⟨_, _, hpt, rfl⟩
  | query_first hp _ _ _ => exact absurd rfl hp

/-- the non-terminal a call works for -/
def callNT : Call S Unit → NT S Unit
  | .query nt _ => nt
  | .lop nt _ => nt
  | .popLoop nt _ => nt
  | .addSucc _ nt => nt
  | .addLoop _ _ nt _ _ _ _ => nt

/-- heaps and `seen` sets of the non-terminals of higher rank are untouched -/
def FrameH (rank : NT S Unit → Nat) (c : Call S Unit) (s s' : St S Unit π) : Prop :=
  ∀ nt', rank (callNT c) < rank nt' → s'.heapOf nt' = s.heapOf nt' ∧ s'.seenOf nt' = s.seenOf nt'

/-- the conclusion of the core induction -/
structure Core (E : Env S Unit π) (rank : NT S Unit → Nat) (H0 : NT S Unit → List (π × Prog)) (c : Call S Unit)
    (s s' : St S Unit π) (r : Option Prog) : Prop where
  full : Full E H0 s'
  frame : OFrame rank c s s'
  frameH : FrameH rank c s s'
  seen : SeenMono s s'
  stable : Stable s s'
  post : NPost c s' r
  none_post : NonePost c s' r
  del : s'.deleted = s.deleted

theorem SeenMono.trans {s s1 s2 : St S Unit π} (h1 : SeenMono s s1) (h2 : SeenMono s1 s2) : SeenMono s s2 :=
  fun nt p hp => h2 nt p (h1 nt p hp)

/-- one iteration of the loop of `__add_successors__` -/
theorem loop_iter {E : Env S Unit π} {rank} {Good} (L : Law E rank Good) {H0 : NT S Unit → List (π × Prog)}
    {s s1 : St S Unit π} {F : Sym} {args : List Prog} {nt s2 : NT S Unit} {i argsLen : Nat}
    {info : Info S} {ai : Prog} {r : Option Prog}
    (hai : args[i]? = some ai) (hlt : i < argsLen)
    (hq : Big E (.query s2 (some ai)) s s1 r)
    (ihq : Full E H0 s → SPre E (.query s2 (some ai)) → NPre (.query s2 (some ai)) s →
      OPre E H0 (.query s2 (some ai)) s → Core E rank H0 (.query s2 (some ai)) s s1 r)
    (hf : Full E H0 s)
    (hspre : SPre E (.addLoop F args nt i argsLen info s2))
    (hopre : OPre E H0 (.addLoop F args nt i argsLen info s2) s) :
    Full E H0 (pushStep E s1 F args nt i r) ∧
    (∀ nt', rank nt ≤ rank nt' → (pushStep E s1 F args nt i r).succOf nt' = s.succOf nt') ∧
    SeenMono s (pushStep E s1 F args nt i r) ∧ Stable s (pushStep E s1 F args nt i r) ∧
    (pushStep E s1 F args nt i r).deleted = s.deleted ∧ gen E.G ai s2 = true ∧
    Core E rank H0 (.query s2 (some ai)) s s1 r ∧
    (∀ nt', rank nt < rank nt' → (pushStep E s1 F args nt i r).heapOf nt' = s.heapOf nt' ∧
      (pushStep E s1 F args nt i r).seenOf nt' = s.seenOf nt') := by
  obtain ⟨ra, hr, hgl, hlen, hinfo⟩ := hspre
  obtain ⟨hinf, a, ha, hs2⟩ := hinfo hlt
  obtain ⟨hseen, hne, hvals⟩ := hopre
  have hqpre : OPre E H0 (.query s2 (some ai)) s := by
    intro x hx; cases hx; rw [hs2]; exact hf.oinv.args nt F args ra hseen hr i _ a hai ha
  have c1 := ihq hf trivial trivial hqpre
  obtain ⟨_, spost⟩ := big_sound E hq hf.sinv trivial
  have hrank : rank s2 < rank nt := by
    rw [hs2]; exact L.acyclic nt F ra hr a (List.mem_of_getElem? ha)
  have hgai : gen E.G ai s2 = true := by rw [hs2]; exact genList_get E.G args ra i ai a hgl hai ha
  have hgnp : ∀ q, r = some q → gen E.G (.node F (args.set i q)) nt = true := by
    intro q hq'
    rw [gen, hr]
    exact genList_set E.G args ra i q a hgl ha (by rw [← hs2]; exact spost q hq')
  have hsame : s1.succOf nt = s.succOf nt := c1.frame nt hrank
  have hvals1 : BelowVals E s1 nt (.node F args) := by
    obtain ⟨pp, hpp, hb⟩ := hvals
    exact ⟨pp, hpp, fun k v pv hk hpv => hb k v pv (by rw [← hsame]; exact hk) hpv⟩
  have hne1 : s1.succOf nt ≠ [] := by rw [hsame]; exact hne
  have o3 := pushStep_order L c1.full.sinv c1.full.oinv F args nt i r ra a ai hr hgl ha hai (c1.seen _ _ hseen) hne1 hvals1
    (fun q hq' => ⟨by rw [← hs2]; exact c1.post q hq', by rw [← hs2]; exact spost q hq'⟩)
  obtain ⟨w1, w2, w3, w4⟩ := pushStep_views E s1 F args nt i r
  refine ⟨⟨c1.full.sinv.pushStep F args nt i r hgnp, c1.full.ninv.pushStep F args nt i r,
    hinv_pushStep L c1.full.sinv c1.full.hinv F args nt i r hgnp, o3⟩, ?_, ?_, ?_, w4.trans c1.del, hgai, c1, ?_⟩
  · intro nt' hle
    rw [w1 nt']
    exact c1.frame nt' (Nat.lt_of_lt_of_le hrank hle)
  · exact fun nt' p hp => w2 nt' p (c1.seen nt' p hp)
  · intro nt' k v hk
    rw [w1 nt']; exact c1.stable nt' k v hk
  · intro nt' hlt
    have hne' : nt' ≠ nt := by intro heq; subst heq; exact Nat.lt_irrefl _ hlt
    obtain ⟨a1, a2⟩ := w3 nt' hne'
    obtain ⟨b1, b2⟩ := c1.frameH nt' (Nat.lt_trans hrank hlt)
    exact ⟨a1.trans b1, a2.trans b2⟩

theorem spre_next {E : Env S Unit π} {F : Sym} {args : List Prog} {nt s2 : NT S Unit} {i argsLen : Nat}
    {info : Info S} {ai : Prog} {r' : Info S × NT S Unit}
    (hspre : SPre E (.addLoop F args nt i argsLen info s2)) (hlt : i < argsLen) (hc : i + 1 < argsLen)
    (hgai : gen E.G ai s2 = true) (hda : deriveAll E.G ai info s2 = some r') :
    SPre E (.addLoop F args nt (i + 1) argsLen r'.1 r'.2) := by
  obtain ⟨ra, hr, hgl, hlen, hinfo⟩ := hspre
  obtain ⟨hinf, a, ha, hs2⟩ := hinfo hlt
  refine ⟨ra, hr, hgl, hlen, ?_⟩
  intro _
  obtain ⟨r2, hr2, hadv1, hadv2⟩ := deriveAll_gen E.G ai s2 info hgai
  rw [hda] at hr2
  cases hr2
  have hlt' : i + 1 < ra.length := by omega
  have hdrop : ra.drop (i + 1) = ra[i + 1] :: ra.drop (i + 1 + 1) := List.drop_eq_getElem_cons hlt'
  refine ⟨?_, ra[i + 1], List.getElem?_eq_getElem hlt', ?_⟩
  · rw [hadv1, hinf, hdrop]; rfl
  · exact hadv2 _ _ (by rw [hinf, hdrop])

theorem spre_first {E : Env S Unit π} {F : Sym} {a : Prog} {as : List Prog} {nt : NT S Unit}
    {r : Info S × NT S Unit} {rl : List (Ty × S) × Unit}
    (hg : gen E.G (.node F (a :: as)) nt = true) (hd : derive E.G [] nt F = some r) (hr : E.G.rule? nt F = some rl) :
    SPre E (.addLoop F (a :: as) nt 0 rl.1.length r.1 r.2) := by
  rw [gen, hr] at hg
  obtain ⟨ra, u⟩ := rl
  cases u
  simp only at hg
  refine ⟨ra, hr, hg, rfl, ?_⟩
  intro _
  unfold derive at hd
  rw [hr] at hd
  simp only [Option.some.injEq] at hd
  subst hd
  cases ra with
  | nil => simp [genList] at hg
  | cons a0 as0 =>
    obtain ⟨t0, s0⟩ := a0
    exact ⟨by simp [deriveWith], (t0, s0), by simp, by simp [deriveWith, argNT]⟩

/-- **every call keeps the invariants** -/
theorem big_core {E : Env S Unit π} {rank} {Good} (L : Law E rank Good) {H0 : NT S Unit → List (π × Prog)}
    {c : Call S Unit} {s s' : St S Unit π} {r : Option Prog} (hb : Big E c s s' r) :
    Full E H0 s → SPre E c → NPre c s → OPre E H0 c s → Core E rank H0 c s s' r := by
  induction hb with
  | @query_direct s s' nt p r h hb ih =>
    intro hf _ _ hpre
    have c1 := ih hf trivial trivial (by
      intro x hx
      rcases hpre x hx with hv | ⟨hempty, _⟩
      · exact Or.inl hv
      · rcases h with h | h
        · rw [h] at hx; cases hx
        · rw [hempty] at h; simp at h)
    exact ⟨c1.full, c1.frame, c1.frameH, c1.seen, c1.stable, c1.post, c1.none_post, c1.del⟩
  | @query_first s s1 s' nt p r0 r hp h h0 hb ih0 ih =>
    intro hf _ _ hpre
    have c0 := ih0 hf trivial trivial (by intro x hx; cases hx)
    have hnone : AList.lookup none (s.succOf nt) = none := by
      cases hl : AList.lookup none (s.succOf nt) with
      | none => rfl
      | some v => rw [hl] at h; simp at h
    have c1 := ih c0.full trivial trivial (by
      intro x hx
      rcases hpre x hx with ⟨k, hk⟩ | ⟨hempty, hfp⟩
      · exact Or.inl ⟨k, c0.stable _ _ _ hk⟩
      · have hdel : s.deleted = [] ∨ s.heapOf nt = [] := by
          rcases hf.oinv.del_ok with hd | hd
          · exact Or.inl hd
          · right
            cases hh : s.heapOf nt with
            | nil => rfl
            | cons e0 r0' => exact absurd hempty (hd nt (by rw [hh]; simp))
        rcases query_none_inv h0 hnone hdel with ⟨hpe, heq⟩ | ⟨e, h', hpt, hr0⟩
        · right; rw [heq]; exact (Heapq.pop_none_iff _ _).mp hpe
        · left
          rw [hf.oinv.fresh nt hempty] at hpt
          have := hfp e h' hpt
          exact ⟨none, by rw [← this]; exact c0.post _ hr0⟩)
    exact ⟨c1.full, fun nt' hlt => (c1.frame nt' hlt).trans (c0.frame nt' hlt),
      fun nt' hlt => ⟨(c1.frameH nt' hlt).1.trans (c0.frameH nt' hlt).1, (c1.frameH nt' hlt).2.trans (c0.frameH nt' hlt).2⟩,
      c0.seen.trans c1.seen,
      c0.stable.trans c1.stable, c1.post, c1.none_post, c1.del.trans c0.del⟩
  | lop_hit h =>
    intro hf _ _ _
    exact ⟨hf, fun _ _ => rfl, fun _ _ => ⟨rfl, rfl⟩, fun _ _ h => h, Stable.refl _, (by intro q hq; cases hq; exact h), (by intro hr; cases hr), rfl⟩
  | lop_miss h hb ih =>
    intro hf _ _ hpre
    have c1 := ih hf trivial h hpre
    exact ⟨c1.full, c1.frame, c1.frameH, c1.seen, c1.stable, c1.post, c1.none_post, c1.del⟩
  | pop_empty h =>
    intro hf _ hnone _
    exact ⟨hf, fun _ _ => rfl, fun _ _ => ⟨rfl, rfl⟩, fun _ _ h => h, Stable.refl _, (by intro q hq; cases hq),
      fun _ => ⟨hnone, (Heapq.pop_none_iff _ _).mp h⟩, rfl⟩
  | @pop_deleted s s1 s' nt key e h' x r h hd ha hb iha ihb =>
    intro hf _ hnone hpre
    obtain ⟨oa, hnea, hvals⟩ := popSkip_order L hf.sinv hf.hinv hf.oinv nt e h' h hd
    obtain ⟨hm, hsub, _, _, _, hha⟩ := pop_facts L hf.sinv hf.hinv hf.oinv nt e h' h
    have hseen := hf.sinv.heap_seen _ _ hm
    have hg := hf.sinv.seen_gen _ _ hseen
    have hfa : Full E H0 (s.setHeap nt h') :=
      ⟨hf.sinv.setHeap_sub nt h' hsub, hf.ninv.popSkip nt e h' h, hha, oa⟩
    have ca := iha hfa hg trivial ⟨hseen, hnea, hvals⟩
    have hsucc1 : s1.succOf nt = s.succOf nt := ca.frame nt (Nat.le_refl _)
    have hheapne : s.heapOf nt ≠ [] := by intro he; rw [he] at hm; cases hm
    have cb := ihb ca.full trivial (by show AList.lookup key (s1.succOf nt) = none; rw [hsucc1]; exact hnone) (by
      intro y hy
      rcases hpre y hy with ⟨k, hk⟩ | he
      · exact Or.inl ⟨k, by rw [hsucc1]; exact hk⟩
      · exact absurd he hheapne)
    refine ⟨cb.full, ?_, ?_, ?_, ?_, cb.post, cb.none_post, (cb.del.trans ca.del)⟩
    · intro nt' hlt
      rw [cb.frame nt' hlt, ca.frame nt' (Nat.le_of_lt hlt)]; rfl
    · intro nt' hlt
      have hne' : nt' ≠ nt := by intro heq; subst heq; exact Nat.lt_irrefl _ hlt
      obtain ⟨a1, a2⟩ := ca.frameH nt' hlt
      obtain ⟨b1, b2⟩ := cb.frameH nt' hlt
      refine ⟨b1.trans (a1.trans ?_), b2.trans a2⟩
      rw [St.heapOf_setHeap]; simp [hne']
    · exact fun nt' p hp => cb.seen nt' p (ca.seen nt' p hp)
    · exact fun nt' k v hk => cb.stable nt' k v (ca.stable nt' k v hk)
  | @pop_take s s' nt key e h' x h hd ha iha =>
    intro hf _ hnone hpre
    obtain ⟨oa, hnea, hvals⟩ := popTake_order L hf.sinv hf.hinv hf.oinv nt key e h' h hpre hnone
    obtain ⟨hm, hsub, _, _, _, hha⟩ := pop_facts L hf.sinv hf.hinv hf.oinv nt e h' h
    have hseen := hf.sinv.heap_seen _ _ hm
    have hg := hf.sinv.seen_gen _ _ hseen
    have h1 := (hf.sinv.setHeap_sub nt h' hsub).setSucc nt key e.2 hseen
    obtain ⟨hna, hsta⟩ := hf.ninv.popTake nt key e h' h hnone
    have hfa : Full E H0 (s.popTake nt key e h') :=
      ⟨h1.congr (fun _ => rfl) (fun _ => rfl) (fun _ => rfl) h1.cache_ok, hna, fun nt' => hha nt', oa⟩
    have ca := iha hfa hg trivial ⟨hseen, hnea, hvals⟩
    refine ⟨ca.full, ?_, ?_, ca.seen, hsta.trans ca.stable, ?_, (by intro hr; cases hr), ca.del⟩
    · intro nt' hlt
      rw [ca.frame nt' (Nat.le_of_lt hlt)]
      show (s.popTake nt key e h').succOf nt' = s.succOf nt'
      rw [popTake_succOf]
      have : nt' ≠ nt := by intro heq; subst heq; exact Nat.lt_irrefl _ hlt
      simp [this]
    · intro nt' hlt
      have hne' : nt' ≠ nt := by intro heq; subst heq; exact Nat.lt_irrefl _ hlt
      obtain ⟨a1, a2⟩ := ca.frameH nt' hlt
      refine ⟨a1.trans ?_, a2⟩
      show (s.setHeap nt h').heapOf nt' = s.heapOf nt'
      rw [St.heapOf_setHeap]; simp [hne']
    · intro q hq
      cases hq
      apply ca.stable
      show AList.lookup key ((s.popTake nt key e h').succOf nt) = some e.2
      rw [popTake_succOf]
      simp only [if_true]
      exact AList.lookup_insert_self _ _ _
  | succ_leaf =>
    intro hf _ _ _
    exact ⟨hf, fun _ _ => rfl, fun _ _ => ⟨rfl, rfl⟩, fun _ _ h => h, Stable.refl _, trivial, trivial, rfl⟩
  | @succ_fun s s' F a as nt r rl x hd hr hb ih =>
    intro hf hspre _ hpre
    have c1 := ih hf (spre_first hspre hd hr) trivial hpre
    exact ⟨c1.full, c1.frame, c1.frameH, c1.seen, c1.stable, trivial, trivial, c1.del⟩
  | loop_done h =>
    intro hf _ _ _
    exact ⟨hf, fun _ _ => rfl, fun _ _ => ⟨rfl, rfl⟩, fun _ _ h => h, Stable.refl _, trivial, trivial, rfl⟩
  | @loop_step s s1 s' F args nt i argsLen info s2 ai r r' x h hai hq hc hda hb ihq ihb =>
    intro hf hspre _ hpre
    obtain ⟨hf3, f3, m3, st3, d3, hgai, _, fh3⟩ := loop_iter L hai h hq ihq hf hspre hpre
    have hopre' : OPre E H0 (.addLoop F args nt (i + 1) argsLen r'.1 r'.2) (pushStep E s1 F args nt i r) := by
      refine ⟨m3 _ _ hpre.1, ?_, ?_⟩
      · rw [f3 nt (Nat.le_refl _)]; exact hpre.2.1
      · obtain ⟨pp, hpp, hbd⟩ := hpre.2.2
        exact ⟨pp, hpp, fun k v pv hk hpv => hbd k v pv (by rw [← f3 nt (Nat.le_refl _)]; exact hk) hpv⟩
    have c4 := ihb hf3 (spre_next hspre h hc hgai hda) trivial hopre'
    exact ⟨c4.full, fun nt' hle => (c4.frame nt' hle).trans (f3 nt' hle),
      fun nt' hlt => ⟨(c4.frameH nt' hlt).1.trans (fh3 nt' hlt).1, (c4.frameH nt' hlt).2.trans (fh3 nt' hlt).2⟩,
      m3.trans c4.seen, st3.trans c4.stable, trivial, trivial, c4.del.trans d3⟩
  | @loop_last s s1 F args nt i argsLen info s2 ai r h hai hq hc ihq =>
    intro hf hspre _ hpre
    obtain ⟨hf3, f3, m3, st3, d3, _, _, fh3⟩ := loop_iter L hai h hq ihq hf hspre hpre
    exact ⟨hf3, f3, fh3, m3, st3, trivial, trivial, d3⟩

end PS.HG
