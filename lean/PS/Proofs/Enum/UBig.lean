/- Big-step presentation of the heap-search machine for unambiguous grammars
   (PS/Model/Enum/UHeapSearch.lean): the fuelled mutual recursion
   `query / popLoop / addSucc / addLoop / initNT / initRules / initAlts / initArgs` is sound for the
   inductive relation `Big` (every terminating run of the model is a derivation), so state
   invariants are proved by rule induction on `Big`. -/
import PS.Model.Enum.UHeapSearch
import PS.Proofs.Enum.Heapq
namespace PS.UHS
open PS PS.G
set_option linter.unusedSectionVars false
variable {U π : Type} [DecidableEq U]

/-! ### table accessors under the primitive updates -/
namespace St

theorem getD_lookup_insert {κ ν : Type} [DecidableEq κ] (k k' : κ) (v d : ν) (l : AList κ ν) :
    (AList.lookup k' (AList.insert k v l)).getD d = if k' = k then v else (AList.lookup k' l).getD d := by
  rw [AList.lookup_insert]; split <;> rfl

@[simp] theorem heapOf_setHeap (s : St U π) (nt nt' : UNT U) (h : List (π × Prog)) :
    (s.setHeap nt h).heapOf nt' = if nt' = nt then h else s.heapOf nt' := by
  unfold heapOf setHeap; exact getD_lookup_insert _ _ _ _ _
@[simp] theorem seenOf_setHeap (s : St U π) (nt nt' : UNT U) (h : List (π × Prog)) :
    (s.setHeap nt h).seenOf nt' = s.seenOf nt' := rfl
@[simp] theorem succOf_setHeap (s : St U π) (nt nt' : UNT U) (h : List (π × Prog)) :
    (s.setHeap nt h).succOf nt' = s.succOf nt' := rfl
@[simp] theorem succOf_setSucc (s : St U π) (nt nt' : UNT U) (k : Option Prog) (v : Prog) :
    (s.setSucc nt k v).succOf nt' = if nt' = nt then AList.insert k v (s.succOf nt) else s.succOf nt' := by
  unfold succOf setSucc; exact getD_lookup_insert _ _ _ _ _
@[simp] theorem heapOf_setSucc (s : St U π) (nt nt' : UNT U) (k : Option Prog) (v : Prog) :
    (s.setSucc nt k v).heapOf nt' = s.heapOf nt' := rfl
@[simp] theorem seenOf_setSucc (s : St U π) (nt nt' : UNT U) (k : Option Prog) (v : Prog) :
    (s.setSucc nt k v).seenOf nt' = s.seenOf nt' := rfl
@[simp] theorem succOf_setPred (s : St U π) (nt nt' : UNT U) (k : Prog) (v : Option Prog) :
    (s.setPred nt k v).succOf nt' = s.succOf nt' := rfl
@[simp] theorem heapOf_setPred (s : St U π) (nt nt' : UNT U) (k : Prog) (v : Option Prog) :
    (s.setPred nt k v).heapOf nt' = s.heapOf nt' := rfl
@[simp] theorem seenOf_setPred (s : St U π) (nt nt' : UNT U) (k : Prog) (v : Option Prog) :
    (s.setPred nt k v).seenOf nt' = s.seenOf nt' := rfl
@[simp] theorem seenOf_addSeen (s : St U π) (nt nt' : UNT U) (p : Prog) :
    (s.addSeen nt p).seenOf nt' = if nt' = nt then s.seenOf nt ++ [p] else s.seenOf nt' := by
  unfold seenOf addSeen; exact getD_lookup_insert _ _ _ _ _
@[simp] theorem heapOf_addSeen (s : St U π) (nt nt' : UNT U) (p : Prog) :
    (s.addSeen nt p).heapOf nt' = s.heapOf nt' := rfl
@[simp] theorem succOf_addSeen (s : St U π) (nt nt' : UNT U) (p : Prog) :
    (s.addSeen nt p).succOf nt' = s.succOf nt' := rfl

end St

/-! ### the big-step relation -/

/-- the body of the loop of `__add_successors_to_heap__` after `query` returned `r`
    (`none` = KeyError of `compute_priority`) -/
def pushStep (E : Env U π) (s1 : St U π) (F : Sym) (args : List Prog) (nt : UNT U) (v : List (UNT U)) (i : Nat)
    (r : Option Prog) : Option (St U π) :=
  match r with
  | none => some s1
  | some q =>
    let np : Prog := .node F (args.set i q)
    if (s1.seenOf nt).contains np then some s1 else
    let s2 := { s1.addSeen nt np with keys := AList.insert (nt, np) v s1.keys }
    match computePrio E s2 nt np with
    | none => none
    | some (s2', pr) => some (pushBoth E s2' nt pr np)

inductive Call (U π : Type) where
  | query (nt : UNT U) (p : Option Prog)
  | lop (nt : UNT U) (p : Option Prog)
  | popLoop (nt : UNT U) (key : Option Prog)
  | addSucc (prog : Prog) (nt : UNT U)
  | addLoop (F : Sym) (args : List Prog) (nt : UNT U) (v : List (UNT U)) (i : Nat)
  | initNT (nt : UNT U)
  | initRules (nt : UNT U) (rs : List (Sym × List (List (UNT U) × Rat))) (best : Option (Prog × π))
  | initAlts (nt : UNT U) (P : Sym) (alts : List (List (UNT U) × Rat)) (best : Option (Prog × π))
  | initArgs (v : List (UNT U)) (acc : List Prog)

/-- what a call returns besides the state -/
inductive Res (π : Type) where
  | prog (r : Option Prog)
  | best (b : Option (Prog × π))
  | args (l : List Prog)

/-- the update of `best_program / best_priority` in `__init_non_terminal__` -/
def bestUpd (lt : π → π → Bool) (best : Option (Prog × π)) (prog : Prog) (pr : π) : Option (Prog × π) :=
  match best with
  | none => some (prog, pr)
  | some b => if lt pr b.2 then some (prog, pr) else some b

/-- `Big E c s s' r`: the call `c` started in state `s` returns `r` in state `s'` -/
inductive Big (E : Env U π) : Call U π → St U π → St U π → Res π → Prop
  | query_direct {s s' nt p r} (h : s.initS.contains nt = true)
      (hb : Big E (.lop nt p) s s' r) : Big E (.query nt p) s s' r
  | query_init {s s1 s' nt p r0 r} (h : s.initS.contains nt = false)
      (h0 : Big E (.initNT nt) s s1 r0) (hb : Big E (.lop nt p) s1 s' r) : Big E (.query nt p) s s' r
  | lop_hit {s nt p r} (h : AList.lookup p (s.succOf nt) = some r) : Big E (.lop nt p) s s (.prog (some r))
  | lop_miss {s s' nt p r} (h : AList.lookup p (s.succOf nt) = none)
      (hb : Big E (.popLoop nt p) s s' r) : Big E (.lop nt p) s s' r
  | pop_empty {s nt key} (h : Heapq.pop (ltE E.ops) (s.heapOf nt) = none) : Big E (.popLoop nt key) s s (.prog none)
  | pop_deleted {s s1 s' nt key e h' x r} (h : Heapq.pop (ltE E.ops) (s.heapOf nt) = some (e, h'))
      (hd : s.deleted.contains e.2 = true)
      (ha : Big E (.addSucc e.2 nt) (s.setHeap nt h') s1 x)
      (hb : Big E (.popLoop nt key) s1 s' r) : Big E (.popLoop nt key) s s' r
  | pop_take {s s' nt key e h' x} (h : Heapq.pop (ltE E.ops) (s.heapOf nt) = some (e, h'))
      (hd : s.deleted.contains e.2 = false)
      (ha : Big E (.addSucc e.2 nt) (((s.setHeap nt h').setSucc nt key e.2).setPred nt e.2 key) s' x) :
      Big E (.popLoop nt key) s s' (.prog (some e.2))
  | succ_leaf {s F nt} : Big E (.addSucc (.node F []) nt) s s (.prog none)
  | succ_fun {s s' F a as nt v x} (hk : AList.lookup (nt, .node F (a :: as)) s.keys = some v)
      (hb : Big E (.addLoop F (a :: as) nt v (a :: as).length) s s' x) :
      Big E (.addSucc (.node F (a :: as)) nt) s s' (.prog none)
  | loop_done {s F args nt v} : Big E (.addLoop F args nt v 0) s s (.prog none)
  | loop_step {s s1 s3 s' F args nt v i ai si r x} (hai : args[i]? = some ai) (hsi : v[i]? = some si)
      (hq : Big E (.query si (some ai)) s s1 (.prog r))
      (hp : pushStep E s1 F args nt v i r = some s3)
      (hb : Big E (.addLoop F args nt v i) s3 s' x) :
      Big E (.addLoop F args nt v (i + 1)) s s' (.prog none)
  | init_skip {s nt} (h : s.initS.contains nt = true) : Big E (.initNT nt) s s (.prog none)
  | init_run {s s1 s3 s' nt rs b r} (h : s.initS.contains nt = false) (hrs : AList.lookup nt E.G.rules = some rs)
      (hr : Big E (.initRules nt rs none) { s with initS := s.initS ++ [nt] } s1 (.best (some b)))
      (hp : initPush E { s1 with maxNT := AList.insert nt b.1 s1.maxNT } nt
        (rs.flatMap fun r => r.2.map fun vw => (r.1, vw.1)) = some s3)
      (hq : Big E (.query nt none) s3 s' r) : Big E (.initNT nt) s s' (.prog none)
  | rules_nil {s nt best} : Big E (.initRules nt [] best) s s (.best best)
  | rules_cons {s s1 s' nt P alts rest best best1 best'}
      (ha : Big E (.initAlts nt P alts best) s s1 (.best best1))
      (hb : Big E (.initRules nt rest best1) s1 s' (.best best')) :
      Big E (.initRules nt ((P, alts) :: rest) best) s s' (.best best')
  | alts_nil {s nt P best} : Big E (.initAlts nt P [] best) s s (.best best)
  | alts_leaf {s s1 s3 nt P v w rest best arguments pr}
      (ha : Big E (.initArgs v []) s s1 (.args arguments))
      (hc : computePrio E { s1 with keys := AList.insert (nt, .node P arguments) v s1.keys } nt (.node P arguments)
        = some (s3, pr))
      (hv : v.isEmpty = true) :
      Big E (.initAlts nt P ((v, w) :: rest) best) s
        { s3 with maxRule := AList.insert (nt, P, v) (.node P arguments) s3.maxRule }
        (.best (bestUpd E.ops.lt best (.node P arguments) pr))
  | alts_cons {s s1 s3 s' nt P v w rest best arguments pr best'}
      (ha : Big E (.initArgs v []) s s1 (.args arguments))
      (hc : computePrio E { s1 with keys := AList.insert (nt, .node P arguments) v s1.keys } nt (.node P arguments)
        = some (s3, pr))
      (hv : v.isEmpty = false)
      (hb : Big E (.initAlts nt P rest (bestUpd E.ops.lt best (.node P arguments) pr))
        { s3 with maxRule := AList.insert (nt, P, v) (.node P arguments) s3.maxRule } s' (.best best')) :
      Big E (.initAlts nt P ((v, w) :: rest) best) s s' (.best best')
  | args_nil {s acc} : Big E (.initArgs [] acc) s s (.args acc)
  | args_cons {s s1 s' si v acc m r0 l}
      (hi : Big E (.initNT si) s s1 r0) (hm : AList.lookup si s1.maxNT = some m)
      (hb : Big E (.initArgs v (acc ++ [m])) s1 s' (.args l)) :
      Big E (.initArgs (si :: v) acc) s s' (.args l)

/-- every terminating run of the model is a `Big` derivation -/
theorem big_of_run (E : Env U π) : ∀ n : Nat,
    (∀ s nt p s' r, query E n s nt p = some (s', r) → Big E (.query nt p) s s' (.prog r)) ∧
    (∀ s nt key s' r, popLoop E n s nt key = some (s', r) → Big E (.popLoop nt key) s s' (.prog r)) ∧
    (∀ s prog nt s', addSucc E n s prog nt = some s' → Big E (.addSucc prog nt) s s' (.prog none)) ∧
    (∀ s F args nt v i s', addLoop E n s F args nt v i = some s' → Big E (.addLoop F args nt v i) s s' (.prog none)) ∧
    (∀ s nt s', initNT E n s nt = some s' → Big E (.initNT nt) s s' (.prog none)) ∧
    (∀ s nt rs best s' best', initRules E n s nt rs best = some (s', best') →
      Big E (.initRules nt rs best) s s' (.best best')) ∧
    (∀ s nt P alts best s' best', initAlts E n s nt P alts best = some (s', best') →
      Big E (.initAlts nt P alts best) s s' (.best best')) ∧
    (∀ s v acc s' l, initArgs E n s v acc = some (s', l) → Big E (.initArgs v acc) s s' (.args l)) := by
  intro n
  induction n with
  | zero =>
    refine ⟨?_, ?_, ?_, ?_, ?_, ?_, ?_, ?_⟩
    · intro s nt p s' r h; simp [query] at h
    · intro s nt key s' r h; simp [popLoop] at h
    · intro s prog nt s' h; simp [addSucc] at h
    · intro s F args nt v i s' h; simp [addLoop] at h
    · intro s nt s' h; simp [initNT] at h
    · intro s nt rs best s' best' h; simp [initRules] at h
    · intro s nt P alts best s' best' h; simp [initAlts] at h
    · intro s v acc s' l h; simp [initArgs] at h
  | succ n ih =>
    obtain ⟨ihq, ihp, ihs, ihl, ihi, ihr, iha, ihg⟩ := ih
    refine ⟨?_, ?_, ?_, ?_, ?_, ?_, ?_, ?_⟩
    · -- query
      intro s nt p s' r h
      unfold query at h
      have cont : ∀ s1 : St U π,
          (match AList.lookup p (s1.succOf nt) with
            | some r => some (s1, some r)
            | none => popLoop E n s1 nt p) = some (s', r) → Big E (.lop nt p) s1 s' (.prog r) := by
        intro s1 h1
        cases hl : AList.lookup p (s1.succOf nt) with
        | some q =>
          simp only [hl, Option.some.injEq, Prod.mk.injEq] at h1
          obtain ⟨rfl, rfl⟩ := h1
          exact Big.lop_hit hl
        | none =>
          simp only [hl] at h1
          exact Big.lop_miss hl (ihp _ _ _ _ _ h1)
      cases hc : s.initS.contains nt with
      | true =>
        simp only [hc, if_true] at h
        exact Big.query_direct hc (cont s h)
      | false =>
        simp only [hc, Bool.false_eq_true, if_false] at h
        cases hi : initNT E n s nt with
        | none => simp [hi] at h
        | some s1 =>
          simp only [hi] at h
          exact Big.query_init hc (ihi _ _ _ hi) (cont s1 h)
    · -- popLoop
      intro s nt key s' r h
      unfold popLoop at h
      cases hp : Heapq.pop (ltE E.ops) (s.heapOf nt) with
      | none =>
        simp only [hp, Option.some.injEq, Prod.mk.injEq] at h
        obtain ⟨rfl, rfl⟩ := h
        exact Big.pop_empty hp
      | some eh =>
        obtain ⟨e, h'⟩ := eh
        simp only [hp] at h
        cases hd : s.deleted.contains e.2 with
        | true =>
          have hd' : (s.setHeap nt h').deleted.contains e.2 = true := hd
          simp only [hd', if_true] at h
          cases ha : addSucc E n (s.setHeap nt h') e.2 nt with
          | none => simp [ha] at h
          | some s1 =>
            simp only [ha] at h
            exact Big.pop_deleted hp hd (ihs _ _ _ _ ha) (ihp _ _ _ _ _ h)
        | false =>
          have hd' : (s.setHeap nt h').deleted.contains e.2 = false := hd
          simp only [hd', Bool.false_eq_true, if_false] at h
          cases ha : addSucc E n (((s.setHeap nt h').setSucc nt key e.2).setPred nt e.2 key) e.2 nt with
          | none => simp [ha] at h
          | some s1 =>
            simp only [ha, Option.some.injEq, Prod.mk.injEq] at h
            obtain ⟨rfl, rfl⟩ := h
            exact Big.pop_take hp hd (ihs _ _ _ _ ha)
    · -- addSucc
      intro s prog nt s' h
      obtain ⟨F, kids⟩ := prog
      cases kids with
      | nil =>
        simp only [addSucc, Option.some.injEq] at h
        subst h
        exact Big.succ_leaf
      | cons a as =>
        simp only [addSucc] at h
        cases hk : AList.lookup (nt, Tree.node F (a :: as)) s.keys with
        | none => simp [hk] at h
        | some v =>
          simp only [hk] at h
          exact Big.succ_fun hk (ihl _ _ _ _ _ _ _ h)
    · -- addLoop
      intro s F args nt v i s' h
      cases i with
      | zero =>
        simp only [addLoop, Option.some.injEq] at h
        subst h
        exact Big.loop_done
      | succ i =>
        unfold addLoop at h
        cases hai : args[i]? with
        | none => simp [hai] at h
        | some ai =>
          cases hsi : v[i]? with
          | none => simp [hai, hsi] at h
          | some si =>
            simp only [hai, hsi] at h
            cases hq : query E n s si (some ai) with
            | none => simp [hq] at h
            | some sr =>
              obtain ⟨s1, r⟩ := sr
              simp only [hq] at h
              change (match pushStep E s1 F args nt v i r with
                | none => none
                | some s3 => addLoop E n s3 F args nt v i) = some s' at h
              cases hp : pushStep E s1 F args nt v i r with
              | none => simp [hp] at h
              | some s3 =>
                simp only [hp] at h
                exact Big.loop_step hai hsi (ihq _ _ _ _ _ hq) hp (ihl _ _ _ _ _ _ _ h)
    · -- initNT
      intro s nt s' h
      unfold initNT at h
      cases hc : s.initS.contains nt with
      | true =>
        simp only [hc, if_true, Option.some.injEq] at h
        subst h
        exact Big.init_skip hc
      | false =>
        simp only [hc, Bool.false_eq_true, if_false] at h
        cases hrs : AList.lookup nt E.G.rules with
        | none => simp [hrs] at h
        | some rs =>
          simp only [hrs] at h
          cases hr : initRules E n { s with initS := s.initS ++ [nt] } nt rs none with
          | none => simp [hr] at h
          | some res =>
            obtain ⟨s1, best⟩ := res
            simp only [hr] at h
            cases best with
            | none => simp at h
            | some b =>
              simp only at h
              cases hp : initPush E { s1 with maxNT := AList.insert nt b.1 s1.maxNT } nt
                  (rs.flatMap fun r => r.2.map fun vw => (r.1, vw.1)) with
              | none => simp [hp] at h
              | some s3 =>
                simp only [hp] at h
                cases hq : query E n s3 nt none with
                | none => simp [hq] at h
                | some res2 =>
                  simp only [hq, Option.map_some, Option.some.injEq] at h
                  subst h
                  exact Big.init_run hc hrs (ihr _ _ _ _ _ _ hr) hp (ihq _ _ _ _ _ hq)
    · -- initRules
      intro s nt rs best s' best' h
      cases rs with
      | nil =>
        simp only [initRules, Option.some.injEq, Prod.mk.injEq] at h
        obtain ⟨rfl, rfl⟩ := h
        exact Big.rules_nil
      | cons hd rest =>
        obtain ⟨P, alts⟩ := hd
        unfold initRules at h
        cases ha : initAlts E n s nt P alts best with
        | none => simp [ha] at h
        | some res =>
          obtain ⟨s1, best1⟩ := res
          simp only [ha] at h
          exact Big.rules_cons (iha _ _ _ _ _ _ _ ha) (ihr _ _ _ _ _ _ h)
    · -- initAlts
      intro s nt P alts best s' best' h
      cases alts with
      | nil =>
        simp only [initAlts, Option.some.injEq, Prod.mk.injEq] at h
        obtain ⟨rfl, rfl⟩ := h
        exact Big.alts_nil
      | cons hd rest =>
        obtain ⟨v, w⟩ := hd
        unfold initAlts at h
        cases hg : initArgs E n s v [] with
        | none => simp [hg] at h
        | some res =>
          obtain ⟨s1, arguments⟩ := res
          simp only [hg] at h
          cases hc : computePrio E { s1 with keys := AList.insert (nt, Tree.node P arguments) v s1.keys } nt
              (Tree.node P arguments) with
          | none => simp [hc] at h
          | some res2 =>
            obtain ⟨s3, pr⟩ := res2
            simp only [hc] at h
            have key : ∀ bu, bu = bestUpd E.ops.lt best (.node P arguments) pr →
                (if v.isEmpty = true then
                  some ({ s3 with maxRule := AList.insert (nt, P, v) (Tree.node P arguments) s3.maxRule }, bu)
                else initAlts E n { s3 with maxRule := AList.insert (nt, P, v) (Tree.node P arguments) s3.maxRule }
                  nt P rest bu) = some (s', best') → Big E (.initAlts nt P ((v, w) :: rest) best) s s' (.best best') := by
              intro bu hbu h
              subst hbu
              cases hv : v.isEmpty with
              | true =>
                simp only [hv, if_true, Option.some.injEq, Prod.mk.injEq] at h
                obtain ⟨rfl, rfl⟩ := h
                exact Big.alts_leaf (ihg _ _ _ _ _ hg) hc hv
              | false =>
                simp only [hv, Bool.false_eq_true, if_false] at h
                exact Big.alts_cons (ihg _ _ _ _ _ hg) hc hv (iha _ _ _ _ _ _ _ h)
            exact key _ (by cases best <;> rfl) h
    · -- initArgs
      intro s v acc s' l h
      cases v with
      | nil =>
        simp only [initArgs, Option.some.injEq, Prod.mk.injEq] at h
        obtain ⟨rfl, rfl⟩ := h
        exact Big.args_nil
      | cons si v =>
        unfold initArgs at h
        cases hi : initNT E n s si with
        | none => simp [hi] at h
        | some s1 =>
          simp only [hi] at h
          cases hm : AList.lookup si s1.maxNT with
          | none => simp [hm] at h
          | some m =>
            simp only [hm] at h
            exact Big.args_cons (ihi _ _ _ hi) hm (ihg _ _ _ _ _ h)

theorem big_of_query (E : Env U π) {n s nt p s' r} (h : query E n s nt p = some (s', r)) :
    Big E (.query nt p) s s' (.prog r) := (big_of_run E n).1 _ _ _ _ _ h

end PS.UHS
