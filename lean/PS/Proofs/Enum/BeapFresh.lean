/- The prologue of beap search (`_init_non_terminal_`, `_reevaluate_`) only reads and writes the cost
   lists and the queues: two states that agree on these two tables are taken to states that agree on
   them, the other tables being carried along unchanged.  Hence a `merge_program` BEFORE the first
   `next` (it touches `_deleted` and the — still empty — banks) does not change what the prologue computes. -/
import PS.Proofs.Enum.BeapNodupFinal
namespace PS.Beap
open PS PS.G PS.Heapq
set_option linter.unusedSectionVars false
variable {S : Type} [DecidableEq S]

/-- same cost lists and queues -/
def Sim (s t : St S) : Prop := s.costLists = t.costLists ∧ s.queues = t.queues

theorem Sim.clOf {s t : St S} (h : Sim s t) (nt : NT S Unit) : s.clOf nt = t.clOf nt := by unfold St.clOf; rw [h.1]
theorem Sim.queueOf {s t : St S} (h : Sim s t) (nt : NT S Unit) : s.queueOf nt = t.queueOf nt := by unfold St.queueOf; rw [h.2]
theorem Sim.setCL {s t : St S} (h : Sim s t) (nt : NT S Unit) (cl : List Cost) : Sim (s.setCL nt cl) (t.setCL nt cl) := by
  unfold St.setCL; exact ⟨by simp only; rw [h.1], h.2⟩
theorem Sim.setQueue {s t : St S} (h : Sim s t) (nt : NT S Unit) (q : List HeapEl) : Sim (s.setQueue nt q) (t.setQueue nt q) := by
  unfold St.setQueue; exact ⟨h.1, by simp only; rw [h.2]⟩

/-- the fields the prologue does not touch -/
def SameRest (s s' : St S) : Prop := s'.bank = s.bank ∧ s'.empties = s.empties ∧ s'.deleted = s.deleted ∧ s'.failedByEmpties = s.failedByEmpties

/-- outcome of a function on two similar states: both fail, or both succeed with similar states (and a common value) -/
def SimRes {α : Type} (r : Option (St S × α)) (r' : Option (St S × α)) : Prop :=
  match r, r' with
  | none, none => True
  | some a, some b => Sim a.1 b.1 ∧ a.2 = b.2
  | _, _ => False

theorem init_sim (E : Env S) : ∀ n,
    (∀ s t nt, Sim s t → SimRes ((initNT E n s nt).map fun x => (x, ())) ((initNT E n t nt).map fun x => (x, ()))) ∧
    (∀ s t nt rest, Sim s t → SimRes ((initRules E n s nt rest).map fun x => (x, ())) ((initRules E n t nt rest).map fun x => (x, ()))) ∧
    (∀ s t as c, Sim s t → SimRes (initArgs E n s as c) (initArgs E n t as c)) := by
  intro n
  induction n with
  | zero => refine ⟨?_, ?_, ?_⟩ <;> intros <;> simp [initNT, initRules, initArgs, SimRes]
  | succ n ih =>
    obtain ⟨ihN, ihR, ihA⟩ := ih
    refine ⟨?_, ?_, ?_⟩
    · intro s t nt h
      unfold initNT
      rw [h.1]
      cases hl : AList.lookup nt t.costLists with
      | none => simp [SimRes]
      | some cl =>
        simp only
        split
        · simp [SimRes, h]
        · cases hr : AList.lookup nt E.G.rules with
          | none => simp [SimRes]
          | some rs =>
            simp only
            have := ihR _ _ nt rs (h.setCL nt (cl ++ [Cost.big]))
            cases h1 : initRules E n (s.setCL nt (cl ++ [Cost.big])) nt rs with
            | none =>
              cases h2 : initRules E n (t.setCL nt (cl ++ [Cost.big])) nt rs with
              | none => simp [SimRes]
              | some b => simp [h1, h2, SimRes] at this
            | some a =>
              cases h2 : initRules E n (t.setCL nt (cl ++ [Cost.big])) nt rs with
              | none => simp [h1, h2, SimRes] at this
              | some b =>
                simp only [h1, h2, Option.map_some, SimRes] at this
                have hab : Sim a b := this.1
                simp only
                rw [hab.queueOf nt]
                cases b.queueOf nt with
                | nil => simp [SimRes]
                | cons e q =>
                  simp only [Option.map_some, SimRes]
                  rw [hab.clOf nt]
                  exact ⟨hab.setCL nt _, trivial⟩
    · intro s t nt rest h
      cases rest with
      | nil => simp [initRules, SimRes, h]
      | cons pr rest =>
        obtain ⟨P, rl⟩ := pr
        simp only [initRules]
        cases hw : ruleW E nt P with
        | none => simp [SimRes]
        | some w =>
          simp only
          have := ihA s t rl.1 (Cost.ofRat w) h
          cases h1 : initArgs E n s rl.1 (Cost.ofRat w) with
          | none =>
            cases h2 : initArgs E n t rl.1 (Cost.ofRat w) with
            | none => simp [SimRes]
            | some b => simp [h1, h2, SimRes] at this
          | some a =>
            cases h2 : initArgs E n t rl.1 (Cost.ofRat w) with
            | none => simp [h1, h2, SimRes] at this
            | some b =>
              simp only [h1, h2, SimRes] at this
              obtain ⟨a1, a2⟩ := a
              obtain ⟨b1, b2⟩ := b
              simp only at this
              obtain ⟨hab, hc⟩ := this
              subst hc
              simp only
              rw [hab.queueOf nt]
              exact ihR _ _ nt rest (hab.setQueue nt _)
    · intro s t as c h
      cases as with
      | nil => simp [initArgs, SimRes, h]
      | cons a as =>
        simp only [initArgs]
        have := ihN s t (ntOf a) h
        cases h1 : initNT E n s (ntOf a) with
        | none =>
          cases h2 : initNT E n t (ntOf a) with
          | none => simp [SimRes]
          | some b => simp [h1, h2, SimRes] at this
        | some a' =>
          cases h2 : initNT E n t (ntOf a) with
          | none => simp [h1, h2, SimRes] at this
          | some b' =>
            simp only [h1, h2, Option.map_some, SimRes] at this
            have hab : Sim a' b' := this.1
            simp only
            rw [hab.clOf (ntOf a)]
            cases b'.clOf (ntOf a) with
            | nil => simp [SimRes]
            | cons c0 rest0 => exact ihA _ _ as _ hab

theorem mapOpt_congr {α β : Type} (f g : α → Option β) : ∀ (l : List α), (∀ x ∈ l, f x = g x) → mapOpt f l = mapOpt g l
  | [], _ => rfl
  | x :: xs, h => by
    unfold mapOpt
    rw [h x (List.mem_cons_self ..), mapOpt_congr f g xs (fun y hy => h y (List.mem_cons_of_mem _ hy))]

theorem reevalPass_sim (E : Env S) : ∀ (nts : List (NT S Unit)) (s t : St S) (ch : Bool), Sim s t →
    SimRes (reevalPass E nts s ch) (reevalPass E nts t ch) := by
  intro nts
  induction nts with
  | nil => intro s t ch h; simp [reevalPass, SimRes, h]
  | cons nt rest ih =>
    intro s t ch h
    simp only [reevalPass]
    rw [h.queueOf nt, mapOpt_congr (recost E s nt) (recost E t nt) _ (fun el _ => recost_congr E t s nt el (fun _ _ a _ => h.clOf (ntOf a)))]
    cases hm : mapOpt (recost E t nt) (t.queueOf nt) with
    | none => simp [SimRes]
    | some nq =>
      simp only
      split
      · rw [h.clOf nt]
        cases hh : heapify ltE nq with
        | nil => simp [SimRes]
        | cons e q' =>
          cases hc : t.clOf nt with
          | nil => simp [SimRes]
          | cons c0 cl' => exact ih _ _ true ((h.setQueue nt _).setCL nt _)
      · exact ih s t ch h

theorem reevalLoop_sim (E : Env S) : ∀ (k : Nat) (s t : St S), Sim s t →
    SimRes ((reevalLoop E k s).map fun x => (x, ())) ((reevalLoop E k t).map fun x => (x, ())) := by
  intro k
  induction k with
  | zero => intro s t _; simp [reevalLoop, SimRes]
  | succ k ih =>
    intro s t h
    simp only [reevalLoop]
    have hk : AList.keys s.queues = AList.keys t.queues := by rw [h.2]
    rw [hk]
    have := reevalPass_sim E (AList.keys t.queues) s t false h
    cases h1 : reevalPass E (AList.keys t.queues) s false with
    | none =>
      cases h2 : reevalPass E (AList.keys t.queues) t false with
      | none => simp [SimRes]
      | some b => simp [h1, h2, SimRes] at this
    | some a =>
      cases h2 : reevalPass E (AList.keys t.queues) t false with
      | none => simp [h1, h2, SimRes] at this
      | some b =>
        simp only [h1, h2, SimRes] at this
        obtain ⟨a1, a2⟩ := a
        obtain ⟨b1, b2⟩ := b
        simp only at this
        obtain ⟨hab, hc⟩ := this
        subst hc
        cases a2 with
        | true => exact ih _ _ hab
        | false => simp [SimRes, hab]

/-- the prologue on two similar states: both fail or both succeed with similar states -/
theorem prologue_sim (E : Env S) (fuel : Nat) (s t : St S) (h : Sim s t) :
    SimRes ((prologue E fuel s).map fun x => (x, ())) ((prologue E fuel t).map fun x => (x, ())) := by
  unfold prologue
  have := (init_sim E fuel).1 s t E.G.start h
  cases h1 : initNT E fuel s E.G.start with
  | none =>
    cases h2 : initNT E fuel t E.G.start with
    | none => simp [SimRes]
    | some b => simp [h1, h2, SimRes] at this
  | some a =>
    cases h2 : initNT E fuel t E.G.start with
    | none => simp [h1, h2, SimRes] at this
    | some b =>
      simp only [h1, h2, Option.map_some, SimRes] at this
      have hab : Sim a b := this.1
      simp only
      unfold reevaluate
      split
      · exact reevalLoop_sim E fuel a b hab
      · simp [SimRes, hab]

/-! ### the prologue carries the other tables along -/
theorem SameRest.refl (s : St S) : SameRest s s := ⟨rfl, rfl, rfl, rfl⟩
theorem SameRest.trans {a b c : St S} (h1 : SameRest a b) (h2 : SameRest b c) : SameRest a c :=
  ⟨h2.1.trans h1.1, h2.2.1.trans h1.2.1, h2.2.2.1.trans h1.2.2.1, h2.2.2.2.trans h1.2.2.2⟩

theorem init_rest (E : Env S) : ∀ n,
    (∀ s nt s', initNT E n s nt = some s' → SameRest s s') ∧
    (∀ s nt rest s', initRules E n s nt rest = some s' → SameRest s s') ∧
    (∀ s as c r, initArgs E n s as c = some r → SameRest s r.1) := by
  intro n
  induction n with
  | zero =>
    refine ⟨?_, ?_, ?_⟩
    · intro s nt s' h; simp [initNT] at h
    · intro s nt rest s' h; simp [initRules] at h
    · intro s as c r h; simp [initArgs] at h
  | succ n ih =>
    obtain ⟨ihN, ihR, ihA⟩ := ih
    refine ⟨?_, ?_, ?_⟩
    · intro s nt s' h
      unfold initNT at h
      split at h
      · cases h
      · split at h
        · cases h; exact SameRest.refl _
        · split at h
          · cases h
          · split at h
            · cases h
            · next s1 hir =>
              have := ihR _ _ _ _ hir
              split at h
              · cases h
              · cases h; exact ⟨this.1, this.2.1, this.2.2.1, this.2.2.2⟩
    · intro s nt rest s' h
      cases rest with
      | nil => simp only [initRules] at h; cases h; exact SameRest.refl _
      | cons pr rest =>
        obtain ⟨P, rl⟩ := pr
        simp only [initRules] at h
        split at h
        · cases h
        · split at h
          · cases h
          · next s1 cost hia =>
            have h1 : SameRest s s1 := ihA _ _ _ _ hia
            have h2 := ihR _ _ _ _ h
            exact h1.trans ⟨h2.1, h2.2.1, h2.2.2.1, h2.2.2.2⟩
    · intro s as c r h
      cases as with
      | nil => simp only [initArgs] at h; cases h; exact SameRest.refl _
      | cons a as =>
        simp only [initArgs] at h
        split at h
        · cases h
        · next s1 hin =>
          have h1 := ihN _ _ _ hin
          split at h
          · cases h
          · exact h1.trans (ihA _ _ _ _ h)

theorem reevalPass_rest (E : Env S) : ∀ (nts : List (NT S Unit)) (s : St S) (ch : Bool) (r : St S × Bool),
    reevalPass E nts s ch = some r → SameRest s r.1 := by
  intro nts
  induction nts with
  | nil => intro s ch r h; simp only [reevalPass] at h; cases h; exact SameRest.refl _
  | cons nt rest ih =>
    intro s ch r h
    simp only [reevalPass] at h
    split at h
    · cases h
    · split at h
      · split at h
        · have := ih _ _ _ h
          exact ⟨this.1, this.2.1, this.2.2.1, this.2.2.2⟩
        · cases h
      · exact ih _ _ _ h

theorem reevalLoop_rest (E : Env S) : ∀ (k : Nat) (s s' : St S), reevalLoop E k s = some s' → SameRest s s' := by
  intro k
  induction k with
  | zero => intro s s' h; simp [reevalLoop] at h
  | succ k ih =>
    intro s s' h
    simp only [reevalLoop] at h
    split at h
    · cases h
    · next s1 hp => exact (reevalPass_rest E _ _ _ _ hp).trans (ih _ _ h)
    · next s1 hp => cases h; exact reevalPass_rest E _ _ _ _ hp

theorem prologue_rest (E : Env S) (fuel : Nat) (s s' : St S) (h : prologue E fuel s = some s') : SameRest s s' := by
  unfold prologue at h
  split at h
  · cases h
  · next s1 hin =>
    have h1 := (init_rest E fuel).1 _ _ _ hin
    unfold reevaluate at h
    split at h
    · exact h1.trans (reevalLoop_rest E _ _ _ h)
    · cases h; exact h1

/-- a state as `__init__` leaves it, up to `_deleted` and the (empty) banks: what a `merge_program` before the
    first `next` produces -/
def Fresh (E : Env S) (s : St S) : Prop := Sim s (St.empty E.G) ∧ ∀ nt ci, s.bankAt nt ci = []

theorem fresh_empty (E : Env S) : Fresh E (St.empty E.G) := by
  refine ⟨⟨rfl, rfl⟩, fun nt ci => ?_⟩
  have : (St.empty E.G).bankOf nt = [] := lookup_map_nil E.G.rules nt
  simp [St.bankAt, this]

/-- the prologue from a fresh state computes the cost lists and queues it computes from the empty state,
    and leaves the banks empty -/
theorem prologue_fresh (E : Env S) (fuel : Nat) (s0 s : St S) (hf : Fresh E s0) (h : prologue E fuel s0 = some s) :
    ∃ s', prologue E fuel (St.empty E.G) = some s' ∧ Sim s s' ∧ (∀ nt ci, s.bankAt nt ci = []) := by
  have := prologue_sim E fuel s0 (St.empty E.G) hf.1
  rw [h] at this
  cases h2 : prologue E fuel (St.empty E.G) with
  | none => simp [h2, SimRes] at this
  | some s' =>
    simp only [h2, Option.map_some, SimRes] at this
    refine ⟨s', rfl, this.1, fun nt ci => ?_⟩
    have hr := prologue_rest E fuel s0 s h
    have : s.bankAt nt ci = s0.bankAt nt ci := by unfold St.bankAt St.bankOf; rw [hr.1]
    rw [this]; exact hf.2 nt ci

end PS.Beap
