/- With enough fuel, `query` returns (acyclic context-free grammar, no filter): the nesting depth of
   the mutual recursion is bounded by the rank of the non-terminal and the arity of the rules. -/
import PS.Proofs.Enum.HSComplete
namespace PS.HS
open PS PS.G
set_option linter.unusedSectionVars false
variable {S : Type} [DecidableEq S]

/-- the children (lower rank) answer with fuel `B` -/
def ChildTotal (E : Env S Unit Rat) (rank : NT S Unit → Nat) (H0 : NT S Unit → List (Rat × Prog)) (R B : Nat) : Prop :=
  ∀ nt, rank nt < R → ∀ n, B ≤ n → ∀ s p, Full E H0 s → OPre E H0 (.query nt p) s →
    ∃ res, query E n s nt p = some res

theorem addLoop_total {E : Env S Unit Rat} {rank} (H : OrdHyp E rank) {H0 : NT S Unit → List (Rat × Prog)}
    {R B : Nat} (ihc : ChildTotal E rank H0 R B) :
    ∀ (d : Nat) (i argsLen : Nat), argsLen - i = d → ∀ m, B + 1 + d ≤ m →
      ∀ (s : St S Unit Rat) (F : Sym) (args : List Prog) (nt : NT S Unit) (info : Info S) (s2 : NT S Unit),
        rank nt ≤ R → Full E H0 s → SPre E (.addLoop F args nt i argsLen info s2) →
        OPre E H0 (.addLoop F args nt i argsLen info s2) s →
        ∃ s', addLoop E m s F args nt i argsLen info s2 = some s' := by
  intro d
  induction d with
  | zero =>
    intro i argsLen hd m hm s F args nt info s2 _ _ _ _
    obtain ⟨m', rfl⟩ : ∃ m', m = m' + 1 := ⟨m - 1, by omega⟩
    unfold addLoop
    have : i ≥ argsLen := by omega
    simp [this]
  | succ d ih =>
    intro i argsLen hd m hm s F args nt info s2 hrk hf hspre hopre
    obtain ⟨m', rfl⟩ : ∃ m', m = m' + 1 := ⟨m - 1, by omega⟩
    have hlt : i < argsLen := by omega
    unfold addLoop
    have hnge : ¬ i ≥ argsLen := by omega
    simp only [hnge, if_false]
    have hspre0 := hspre
    obtain ⟨ra, hr, hgl, hlen, hinfo⟩ := hspre
    obtain ⟨hinf, a, ha, hs2⟩ := hinfo hlt
    have hlenargs := genList_length' E.G args ra hgl
    have hil : i < args.length := by omega
    have hai : args[i]? = some args[i] := List.getElem?_eq_getElem hil
    rw [hai]
    simp only
    have hrank : rank s2 < rank nt := by
      rw [hs2]; exact H.acyclic nt F ra hr a (List.mem_of_getElem? ha)
    have hqpre : OPre E H0 (.query s2 (some args[i])) s := by
      intro x hx; cases hx; rw [hs2]; exact hf.oinv.args nt F args ra hopre.1 hr i _ a hai ha
    obtain ⟨⟨s1, r⟩, hq⟩ := ihc s2 (by omega) m' (by omega) s (some args[i]) hf hqpre
    rw [hq]
    simp only
    have hb := big_of_query E hq
    obtain ⟨hf3, f3, m3, hgai, _, _⟩ := iter_i3 H hai hlt hb (fun a b c d => big_i3 H hb a b c d) hf hspre0 hopre
    -- the state after the push, as the `match` of the model
    have hpush : (match r with
        | none => s1
        | some q =>
          if (s1.seenOf nt).contains (Tree.node F (args.set i q)) ||
              (E.dropDeleted && s1.deleted.contains (Tree.node F (args.set i q))) then s1
          else pushNew E s1 nt (Tree.node F (args.set i q))) = pushStep E s1 F args nt i r := by
      cases r <;> rfl
    by_cases hc : i + 1 < argsLen
    · simp only [hc, if_true]
      obtain ⟨r2, hr2, hadv1, hadv2⟩ := deriveAll_gen E.G args[i] s2 info hgai
      rw [hr2]
      simp only
      have hspre' : SPre E (.addLoop F args nt (i + 1) argsLen r2.1 r2.2) := by
        refine ⟨ra, hr, hgl, hlen, ?_⟩
        intro _
        have hlt' : i + 1 < ra.length := by omega
        have hdrop : ra.drop (i + 1) = ra[i + 1] :: ra.drop (i + 1 + 1) := List.drop_eq_getElem_cons hlt'
        refine ⟨?_, ra[i + 1], List.getElem?_eq_getElem hlt', ?_⟩
        · rw [hadv1, hinf, hdrop]; rfl
        · exact hadv2 _ _ (by rw [hinf, hdrop])
      have hopre' : OPre E H0 (.addLoop F args nt (i + 1) argsLen r2.1 r2.2) (pushStep E s1 F args nt i r) := by
        refine ⟨m3 _ _ hopre.1, ?_, ?_⟩
        · rw [f3 nt (Nat.le_refl _)]; exact hopre.2.1
        · intro k v hk
          rw [f3 nt (Nat.le_refl _)] at hk
          exact hopre.2.2 k v hk
      have := ih (i + 1) argsLen (by omega) m' (by omega) (pushStep E s1 F args nt i r) F args nt r2.1 r2.2 hrk hf3
        hspre' hopre'
      cases r <;> exact this
    · simp only [hc, if_false]
      exact ⟨_, rfl⟩

/-- a bound on the arity of the rules -/
def ArityLe (G : TT S Unit) (A : Nat) : Prop := ∀ nt F ra, G.rule? nt F = some (ra, ()) → ra.length ≤ A

theorem addSucc_total {E : Env S Unit Rat} {rank} (H : OrdHyp E rank) {H0 : NT S Unit → List (Rat × Prog)}
    {R B A : Nat} (hA : ArityLe E.G A) (ihc : ChildTotal E rank H0 R B)
    (m : Nat) (hm : B + 2 + A ≤ m) (s : St S Unit Rat) (prog : Prog) (nt : NT S Unit) (hrk : rank nt ≤ R)
    (hf : Full E H0 s) (hg : gen E.G prog nt = true) (hopre : OPre E H0 (.addSucc prog nt) s) :
    ∃ s', addSucc E m s prog nt = some s' := by
  obtain ⟨m', rfl⟩ : ∃ m', m = m' + 1 := ⟨m - 1, by omega⟩
  obtain ⟨F, kids⟩ := prog
  cases kids with
  | nil => exact ⟨s, by simp [addSucc]⟩
  | cons a as =>
    simp only [addSucc]
    rw [gen] at hg
    cases hr : E.G.rule? nt F with
    | none => simp [hr] at hg
    | some rl =>
      obtain ⟨ra, u⟩ := rl
      cases u
      simp only [hr] at hg
      have hd : derive E.G [] nt F = some (deriveWith [] nt ra ()) := by unfold derive; rw [hr]
      rw [hd]
      simp only
      have hspre : SPre E (.addLoop F (a :: as) nt 0 ra.length (deriveWith [] nt ra ()).1 (deriveWith [] nt ra ()).2) := by
        refine ⟨ra, hr, hg, rfl, ?_⟩
        intro _
        cases ra with
        | nil => simp [genList] at hg
        | cons a0 as0 =>
          obtain ⟨t0, s0⟩ := a0
          exact ⟨by simp [deriveWith], (t0, s0), by simp, by simp [deriveWith, argNT]⟩
      exact addLoop_total H ihc ra.length 0 ra.length rfl m' (by have := hA nt F ra hr; omega) _ F (a :: as) nt _ _
        hrk hf hspre hopre

theorem popLoop_total {E : Env S Unit Rat} {rank} (H : OrdHyp E rank) {H0 : NT S Unit → List (Rat × Prog)}
    {R B A : Nat} (hA : ArityLe E.G A) (ihc : ChildTotal E rank H0 R B)
    (m : Nat) (hm : B + 3 + A ≤ m) (s : St S Unit Rat) (nt : NT S Unit) (key : Option Prog) (hrk : rank nt ≤ R)
    (hf : Full E H0 s) (hnone : AList.lookup key (s.succOf nt) = none)
    (hpre : OPre E H0 (.popLoop nt key) s) :
    ∃ res, popLoop E m s nt key = some res := by
  obtain ⟨m', rfl⟩ : ∃ m', m = m' + 1 := ⟨m - 1, by omega⟩
  unfold popLoop
  cases hp : Heapq.pop (ltE E.ops) (s.heapOf nt) with
  | none => exact ⟨_, rfl⟩
  | some eh =>
    obtain ⟨e, h'⟩ := eh
    simp only
    have hdel : (s.setHeap nt h').deleted.contains e.2 = false := by
      show s.deleted.contains e.2 = false
      rw [hf.ninv.no_deleted]; rfl
    simp only [hdel, Bool.false_eq_true, if_false]
    -- the state after the pop (as in `big_generic`)
    obtain ⟨oa, hnea, hvals⟩ := popTake_order H hf.sinv hf.hinv hf.oinv nt key e h' hp hpre hnone
    obtain ⟨hmem, hsub⟩ := mem_of_pop _ _ _ _ hp
    have hseen := hf.sinv.heap_seen _ _ hmem
    have hg := hf.sinv.seen_gen _ _ hseen
    have h1 := (hf.sinv.setHeap_sub nt h' hsub).setSucc nt key e.2 hseen
    have hfa : Full E H0 (s.popTake nt key e h') :=
      ⟨h1.congr (fun _ => rfl) (fun _ => rfl) (fun _ => rfl) h1.cache_ok, (hf.ninv.popTake nt key e h' hp hnone).1,
       fun nt' => hf.hinv.pop H.weak nt e h' hp nt', oa⟩
    have hopre : OPre E H0 (.addSucc e.2 nt) (s.popTake nt key e h') := ⟨hseen, hnea, hvals⟩
    have hadd := addSucc_total H hA ihc m' (by omega) (s.popTake nt key e h') e.2 nt hrk hfa hg hopre
    obtain ⟨s', hs'⟩ := hadd
    have : addSucc E m' (((s.setHeap nt h').setSucc nt key e.2).setPred nt e.2 key) e.2 nt = some s' := hs'
    rw [this]
    exact ⟨_, rfl⟩

/-- **with enough fuel `query` returns** -/
theorem query_total {E : Env S Unit Rat} {rank} (H : OrdHyp E rank) {H0 : NT S Unit → List (Rat × Prog)}
    {A : Nat} (hA : ArityLe E.G A) :
    ∀ R, ChildTotal E rank H0 R (R * (A + 5)) := by
  intro R
  induction R with
  | zero => intro nt hr; omega
  | succ R ih =>
    intro nt hrk n hn s p hf hpre
    have hrk' : rank nt ≤ R := by omega
    have hn' : R * (A + 5) + 5 + A ≤ n := by
      have : (R + 1) * (A + 5) = R * (A + 5) + (A + 5) := Nat.succ_mul R (A + 5)
      omega
    obtain ⟨n1, rfl⟩ : ∃ n1, n = n1 + 1 := ⟨n - 1, by omega⟩
    -- the part after the optional first query
    have cont : ∀ s1 : St S Unit Rat, Full E H0 s1 → OPre E H0 (.lop nt p) s1 →
        ∃ res, (match AList.lookup p (s1.succOf nt) with
          | some r => some (s1, some r)
          | none => popLoop E n1 s1 nt p) = some res := by
      intro s1 hf1 hpre1
      cases hl : AList.lookup p (s1.succOf nt) with
      | some q => exact ⟨_, rfl⟩
      | none => exact popLoop_total H hA ih n1 (by omega) s1 nt p hrk' hf1 hl hpre1
    unfold query
    cases p with
    | none =>
      simp only
      exact cont s hf (by intro x hx; cases hx)
    | some x =>
      simp only
      cases hn0 : (AList.lookup none (s.succOf nt)).isSome with
      | true =>
        simp only [if_true]
        refine cont s hf ?_
        intro y hy
        rcases hpre y hy with hv | ⟨hempty, _⟩
        · exact Or.inl hv
        · rw [hempty] at hn0; simp at hn0
      | false =>
        simp only [Bool.false_eq_true, if_false]
        -- the first query of the non-terminal
        have hnone : AList.lookup none (s.succOf nt) = none := by
          cases hl : AList.lookup none (s.succOf nt) with
          | none => rfl
          | some v => rw [hl] at hn0; cases hn0
        obtain ⟨n2, rfl⟩ : ∃ n2, n1 = n2 + 1 := ⟨n1 - 1, by omega⟩
        have hq0pre : OPre E H0 (.query nt none) s := by intro y hy; cases hy
        obtain ⟨res0, hres0⟩ : ∃ res, query E (n2 + 1) s nt none = some res := by
          unfold query
          simp only [hnone]
          exact popLoop_total H hA ih n2 (by omega) s nt none hrk' hf hnone (by intro y hy; cases hy)
        rw [hres0]
        simp only [Option.map_some]
        have hb0 := big_of_query E (s' := res0.1) (r := res0.2) hres0
        obtain ⟨hf1, _⟩ := big_full H hb0 hf trivial trivial hq0pre
        obtain ⟨_, st1, np1⟩ := big_nodup E hb0 hf.ninv trivial
        refine cont res0.1 hf1 ?_
        intro y hy
        rcases hpre y hy with ⟨k, hk⟩ | ⟨hempty, hfp⟩
        · exact Or.inl ⟨k, st1 _ _ _ hk⟩
        · rcases query_none_inv hb0 hnone hf.ninv.no_deleted with ⟨hpe, heq⟩ | ⟨e, h', hpt, hr0⟩
          · right
            rw [heq]
            exact (Heapq.pop_none_iff _ _).mp hpe
          · left
            rw [hf.oinv.fresh nt hempty] at hpt
            have := hfp e h' hpt
            exact ⟨none, by rw [← this]; exact np1 _ hr0⟩

end PS.HS
