/- The bucketed queue used as a monotone priority queue (exact rationals): along every run of the usage protocol
   in which every pushed cost is at least the cost of the last popped CostTuple (what the successor rule of the
   search does when the cost lists of the arguments are non-decreasing) and lies inside the window, the popped
   costs are non-decreasing. -/
import PS.Proofs.Enum.CDOrder
import PS.Proofs.Enum.CDSlack
import PS.Model.Enum.ConstantDelay
namespace PS.CD

/-- every stored CostTuple costs at least `lo` -/
def LowerBound (q : Q Rat) (lo : Rat) : Prop := ∀ t ∈ q.tuples, lo ≤ t.cost

theorem lowerBound_push (b asserts : Bool) (q q' : Q Rat) (e : CT Rat) (lo : Rat) (hq : QWF q) (hl : LowerBound q lo)
    (he : lo ≤ e.cost) (h : q.push (ratA b) e asserts = some q') : LowerBound q' lo := by
  obtain ⟨_, ⟨added, hrel⟩, _⟩ := qwf_push (ratA b) q q' e asserts hq h
  intro t ht
  cases added with
  | true =>
    have hp : q'.tuples.Perm (e :: q.tuples) := hrel
    rcases List.mem_cons.mp (hp.mem_iff.mp ht) with h1 | h1
    · rw [h1]; exact he
    · exact hl t h1
  | false =>
    obtain ⟨X, Y, val, h1, h2, _⟩ := hrel
    rw [h2] at ht
    rcases List.mem_append.mp ht with h3 | h3
    · exact hl t (by rw [h1]; exact List.mem_append_left _ h3)
    · rcases List.mem_cons.mp h3 with h4 | h4
      · rw [h4]; exact hl val (by rw [h1]; simp)
      · exact hl t (by rw [h1]; exact List.mem_append_right _ (List.mem_cons_of_mem _ h4))

/-- operations of the protocol -/
inductive QOp where
  | push (e : CT Rat)
  | update
  | pop

/-- run a protocol script; the popped CostTuples in order.  `none` = an operation is undefined. -/
def runOps (b : Bool) : List QOp → Q Rat → List (CT Rat) → Option (Q Rat × List (CT Rat))
  | [], q, out => some (q, out)
  | .push e :: rest, q, out =>
    match q.push (ratA b) e true with
    | none => none
    | some q' => runOps b rest q' out
  | .update :: rest, q, out =>
    match q.update (ratA b) with
    | none => none
    | some q' => runOps b rest q' out
  | .pop :: rest, q, out =>
    match q.pop with
    | none => none
    | some (p, q') => runOps b rest q' (out ++ [p])

/-- the discipline of a monotone priority queue: every push costs at least `lo` — the cost of the last pop
    (initially any lower bound of the content) — and lies inside the window `[mini, mini + maxi)` of the queue
    at that moment.  Decidable on a script by running it. -/
def Monotone (b : Bool) : List QOp → Q Rat → Rat → Prop
  | [], _, _ => True
  | .push e :: rest, q, lo =>
    lo ≤ e.cost ∧ (∀ mini, q.mini = some mini → mini ≤ e.cost ∧ e.cost < mini + q.maxi) ∧
    ∀ q', q.push (ratA b) e true = some q' → Monotone b rest q' lo
  | .update :: rest, q, lo => ∀ q', q.update (ratA b) = some q' → Monotone b rest q' lo
  | .pop :: rest, q, lo => ∀ p q', q.pop = some (p, q') → Monotone b rest q' p.cost

theorem sorted_append_singleton {l : List Rat} {x : Rat} (hs : l.Pairwise (· ≤ ·)) (hx : ∀ y ∈ l, y ≤ x) :
    (l ++ [x]).Pairwise (· ≤ ·) := by
  rw [List.pairwise_append]
  exact ⟨hs, by simp, fun a ha b hb => by simp only [List.mem_singleton] at hb; rw [hb]; exact hx a ha⟩

/-- **THE QUEUE IS A MONOTONE PRIORITY QUEUE**: along every monotone run the popped costs are non-decreasing (and every
    one of them is at least the initial lower bound); the invariants are kept -/
theorem runOps_sorted (b : Bool) : ∀ (ops : List QOp) (q : Q Rat) (out : List (CT Rat)) (lo : Rat) (q' : Q Rat) (out' : List (CT Rat)),
    runOps b ops q out = some (q', out') → QOrd q → LowerBound q lo → Monotone b ops q lo →
    (out.map (·.cost)).Pairwise (· ≤ ·) → (∀ c ∈ out.map (·.cost), c ≤ lo) →
    QOrd q' ∧ (out'.map (·.cost)).Pairwise (· ≤ ·)
  | [], q, out, lo, q', out', h, hq, _, _, hs, _ => by
    simp only [runOps, Option.some.injEq, Prod.mk.injEq] at h
    rw [← h.1, ← h.2]; exact ⟨hq, hs⟩
  | .push e :: rest, q, out, lo, q', out', h, hq, hl, hm, hs, hb => by
    rw [runOps] at h
    split at h
    · simp at h
    · rename_i q1 hp
      obtain ⟨h1, h2, h3⟩ := hm
      exact runOps_sorted b rest q1 out lo q' out' h (qord_push b true q q1 e hq h2 hp)
        (lowerBound_push b true q q1 e lo hq.wf hl h1 hp) (h3 q1 hp) hs hb
  | .update :: rest, q, out, lo, q', out', h, hq, hl, hm, hs, hb => by
    rw [runOps] at h
    split at h
    · simp at h
    · rename_i q1 hu
      obtain ⟨hq1, hc, _⟩ := qord_update b q q1 hq hu
      have hl1 : LowerBound q1 lo := by
        intro t ht
        have : q1.tuples = q.tuples := by simp only [Q.tuples, hc]
        rw [this] at ht; exact hl t ht
      exact runOps_sorted b rest q1 out lo q' out' h hq1 hl1 (hm q1 hu) hs hb
  | .pop :: rest, q, out, lo, q', out', h, hq, hl, hm, hs, hb => by
    rw [runOps] at h
    split at h
    · simp at h
    · rename_i p q1 hp
      obtain ⟨hq1, hmin, _⟩ := qord_pop q q1 p hq hp
      obtain ⟨_, hperm, _⟩ := qwf_pop q q1 p hq.wf hp
      have hlo : lo ≤ p.cost := hl p (hperm.mem_iff.mpr List.mem_cons_self)
      have hl1 : LowerBound q1 p.cost := fun t ht => Rat.le_of_lt (hmin t ht)
      refine runOps_sorted b rest q1 (out ++ [p]) p.cost q' out' h hq1 hl1 (hm p q1 hp) ?_ ?_
      · simp only [List.map_append, List.map_cons, List.map_nil]
        exact sorted_append_singleton hs (fun y hy => Rat.le_trans (hb y hy) hlo)
      · intro c hc
        simp only [List.map_append, List.map_cons, List.map_nil, List.mem_append, List.mem_singleton] at hc
        rcases hc with h1 | h1
        · exact Rat.le_trans (hb c h1) hlo
        · rw [h1]; exact Rat.le_refl

/-- the discipline as a Boolean check on a script -/
def monotoneB (b : Bool) : List QOp → Q Rat → Rat → Bool
  | [], _, _ => true
  | .push e :: rest, q, lo =>
    decide (lo ≤ e.cost) &&
    (match q.mini with
     | none => true
     | some m => decide (m ≤ e.cost) && decide (e.cost < m + q.maxi)) &&
    (match q.push (ratA b) e true with
     | none => true
     | some q' => monotoneB b rest q' lo)
  | .update :: rest, q, lo =>
    match q.update (ratA b) with
    | none => true
    | some q' => monotoneB b rest q' lo
  | .pop :: rest, q, lo =>
    match q.pop with
    | none => true
    | some (p, q') => monotoneB b rest q' p.cost

theorem monotoneB_sound (b : Bool) : ∀ (ops : List QOp) (q : Q Rat) (lo : Rat), monotoneB b ops q lo = true → Monotone b ops q lo
  | [], _, _, _ => trivial
  | .push e :: rest, q, lo, h => by
    simp only [monotoneB, Bool.and_eq_true, decide_eq_true_eq] at h
    obtain ⟨⟨h1, h2⟩, h3⟩ := h
    refine ⟨h1, ?_, ?_⟩
    · intro mini hm
      rw [hm] at h2
      simpa using h2
    · intro q' hq'
      rw [hq'] at h3
      exact monotoneB_sound b rest q' lo h3
  | .update :: rest, q, lo, h => by
    intro q' hq'
    simp only [monotoneB, hq'] at h
    exact monotoneB_sound b rest q' lo h
  | .pop :: rest, q, lo, h => by
    intro p q' hq'
    simp only [monotoneB, hq'] at h
    exact monotoneB_sound b rest q' p.cost h

/-! ### the successor loop of the machine respects the discipline -/

theorem sorted_succ {cl : List Rat} (hs : cl.Pairwise (· ≤ ·)) {x : Nat} {c0 c1 : Rat} (h0 : cl[x]? = some c0)
    (h1 : cl[x + 1]? = some c1) : c0 ≤ c1 := by
  obtain ⟨hx, rfl⟩ := List.getElem?_eq_some_iff.mp h0
  obtain ⟨hx1, rfl⟩ := List.getElem?_eq_some_iff.mp h1
  exact (List.pairwise_iff_getElem.mp hs) x (x + 1) hx hx1 (by omega)

/-- **the successors pushed by `query_derivation` cost at least the popped CostTuple** when the cost lists of the
    argument non-terminals are non-decreasing (`new_cost = ct.cost - cl[i] + cl[i+1]`): the successor loop of the model
    keeps every lower bound `lo ≤ ct.cost` of the derivation queue -/
theorem succLoop_lowerBound (b asserts : Bool) (args : List NT) (c lo : Rat) (comb : List Nat) (hlo : lo ≤ c) :
    ∀ (rem i : Nat) (s s' : St Rat), succLoop (ratA b) asserts args c comb rem i s = some s' →
    (∀ a cl, AList.lookup a s.costNt = some cl → cl.Pairwise (· ≤ ·)) →
    ∀ q, AList.lookup args s.queueDer = some q → QWF q → LowerBound q lo →
    ∃ q', AList.lookup args s'.queueDer = some q' ∧ QWF q' ∧ LowerBound q' lo := by
  intro rem
  induction rem with
  | zero =>
    intro i s s' h _ q hq hwf hl
    simp only [succLoop, Option.some.injEq] at h; subst h
    exact ⟨q, hq, hwf, hl⟩
  | succ rem ih =>
    intro i s s' h hsorted q hq hwf hl
    simp only [succLoop] at h
    split at h
    · split at h
      · simp at h
      · rename_i cl hcl
        split at h
        · split at h
          · simp only [Option.some.injEq] at h; subst h; exact ⟨q, hq, hwf, hl⟩
          · exact ih _ _ _ h hsorted q hq hwf hl
        · split at h
          · rename_i c0 c1 q0 h0 h1 hq0
            rw [hq] at hq0
            simp only [Option.some.injEq] at hq0; subst hq0
            split at h
            · simp at h
            · rename_i q1 hpush
              obtain ⟨hwf1, _⟩ := qwf_push (ratA b) q q1 _ asserts hwf hpush
              have hcost : lo ≤ c - c0 + c1 := by
                have := sorted_succ (hsorted _ cl hcl) h0 h1
                grind
              have hl1 : LowerBound q1 lo := lowerBound_push b asserts q q1 _ lo hwf hl hcost hpush
              have hlook : AList.lookup args (s.setQueueDer args q1).queueDer = some q1 := by
                simp [St.setQueueDer, AList.lookup_insert_self]
              split at h
              · simp only [Option.some.injEq] at h; subst h
                exact ⟨q1, hlook, hwf1, hl1⟩
              · exact ih _ _ _ h hsorted q1 hlook hwf1 hl1
          · simp at h
    · simp at h

end PS.CD
