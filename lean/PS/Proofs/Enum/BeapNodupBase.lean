/- No duplicates in beap search, part 1: the combinatorial and structural lemmas.
   * `Succ c t`: `t` is `c` with one position incremented, all earlier positions of `c` being 0 (what the
     successor loop pushes); a combination has at most one `Succ`-predecessor;
   * the product of duplicate-free lists is duplicate-free;
   * two programs built from different (rule, combination) pairs are different: different rules give different
     heads, different combinations of one rule give, at some position, arguments of different cost. -/
import PS.Proofs.Enum.BeapOrderFinal
import PS.Proofs.Enum.BeapFrontier
namespace PS.Beap
open PS PS.G PS.Heapq
set_option linter.unusedSectionVars false
variable {S : Type} [DecidableEq S]

def key2 (el : HeapEl) : Sym × List Nat := (el.P, el.comb)

/-- `t = c + e_i` where `i` is the first non-zero coordinate of `t` -/
def Succ (c t : List Nat) : Prop :=
  ∃ i, i < c.length ∧ (∀ j, j < i → c.getD j 0 = 0) ∧ t = c.set i (c.getD i 0 + 1)

theorem succ_of_mem (comb t lens : List Nat) (hl : lens.length = comb.length) (h : t ∈ succCombs comb 0 lens) : Succ comb t := by
  obtain ⟨i, _, h2, h3, h4, _⟩ := (mem_succCombs comb t lens 0).mp h
  exact ⟨i, by omega, fun j hj => h3 j (Nat.zero_le _) hj, h4⟩

theorem succ_getD (c t : List Nat) (i : Nat) (hi : i < c.length) (ht : t = c.set i (c.getD i 0 + 1)) (j : Nat) :
    t.getD j 0 = if j = i then c.getD i 0 + 1 else c.getD j 0 := by
  rw [ht]; exact getD_set_succ c i j hi

theorem succ_unique (c c' t : List Nat) (h : Succ c t) (h' : Succ c' t) : c = c' := by
  obtain ⟨i, hil, hz, ht⟩ := h
  obtain ⟨i', hil', hz', ht'⟩ := h'
  have hlen : c.length = c'.length := by
    have h1 := congrArg List.length ht
    have h2 := congrArg List.length ht'
    simp only [List.length_set] at h1 h2
    omega
  have hti := succ_getD c t i hil ht
  have hti' := succ_getD c' t i' hil' ht'
  have hii : i = i' := by
    rcases Nat.lt_trichotomy i i' with hlt | heq | hgt
    · have a1 := hti i; have a2 := hti' i
      have := hz' i hlt
      simp only [if_true] at a1
      have hne : ¬ i = i' := by omega
      simp only [hne, if_false] at a2
      omega
    · exact heq
    · have a1 := hti i'; have a2 := hti' i'
      have := hz i' hgt
      simp only [if_true] at a2
      have hne : ¬ i' = i := by omega
      simp only [hne, if_false] at a1
      omega
  subst hii
  apply List.ext_getElem hlen
  intro j hj hj'
  have a1 := hti j; have a2 := hti' j
  have e1 : c.getD j 0 = c[j] := by simp [List.getD_eq_getElem?_getD, hj]
  have e2 : c'.getD j 0 = c'[j] := by simp [List.getD_eq_getElem?_getD, hj']
  by_cases hji : j = i
  · subst hji
    simp only [if_true] at a1 a2
    omega
  · simp only [hji, if_false] at a1 a2
    omega

theorem succ_ne (c t : List Nat) (h : Succ c t) : t ≠ c := by
  obtain ⟨i, hil, _, ht⟩ := h
  intro he
  have := succ_getD c t i hil ht i
  simp only [if_true] at this
  rw [he] at this; omega

theorem succ_not_zero (c t : List Nat) (h : Succ c t) : ¬ (∀ j, t.getD j 0 = 0) := by
  obtain ⟨i, hil, _, ht⟩ := h
  intro hz
  have := succ_getD c t i hil ht i
  simp only [if_true] at this
  rw [hz i] at this; omega

/-! ### products of duplicate-free lists -/
theorem map_cons_nodup {α : Type} (x : α) : ∀ (rs : List (List α)), rs.Nodup → (rs.map (fun r => x :: r)).Nodup
  | [], _ => List.nodup_nil
  | r :: rs, h => by
    have hh := List.nodup_cons.mp h
    simp only [List.map_cons]
    refine List.nodup_cons.mpr ⟨fun hm => ?_, map_cons_nodup x rs hh.2⟩
    simp only [List.mem_map, List.cons.injEq, true_and] at hm
    obtain ⟨r', hr', he⟩ := hm
    exact hh.1 (he ▸ hr')

theorem flatMap_cons_nodup {α : Type} (rs : List (List α)) (hrs : rs.Nodup) : ∀ (l : List α), l.Nodup →
    (l.flatMap (fun x => rs.map (fun r => x :: r))).Nodup
  | [], _ => by simp
  | x :: xs, h => by
    have hx := List.nodup_cons.mp h
    simp only [List.flatMap_cons]
    rw [List.nodup_append]
    refine ⟨map_cons_nodup x rs hrs, flatMap_cons_nodup rs hrs xs hx.2, ?_⟩
    intro a ha b hb hab
    subst hab
    simp only [List.mem_map] at ha
    obtain ⟨r, _, rfl⟩ := ha
    simp only [List.mem_flatMap, List.mem_map] at hb
    obtain ⟨y, hy, r', _, he⟩ := hb
    simp only [List.cons.injEq] at he
    exact hx.1 (he.1 ▸ hy)

theorem product_nodup {α : Type} : ∀ (ls : List (List α)), (∀ l ∈ ls, l.Nodup) → (product ls).Nodup
  | [], _ => by simp [product]
  | l :: ls, h => by
    simp only [product]
    exact flatMap_cons_nodup _ (product_nodup ls (fun l' hl' => h l' (List.mem_cons_of_mem _ hl'))) l (h l (List.mem_cons_self ..))

/-! ### programs with different provenance are different -/

/-- the tuple `a` was taken from the banks of the arguments at the cost indices of `comb` -/
def Prov (s : St S) (args : List (Ty × S)) (comb : List Nat) (a : List Prog) : Prop :=
  All2 (fun x (ac : NT S Unit × Nat) => x ∈ s.bankAt ac.1 ac.2) a ((args.map ntOf).zip comb) ∧ comb.length = args.length

/-- a program sits in at most one bank entry of a non-terminal (its cost determines the index) -/
theorem bank_index_unique (E : Env S) (s : St S) (hc : CInv E s) (ho : OI s) (nt : NT S Unit) (x : Prog) (c c' : Nat)
    (h : x ∈ s.bankAt nt c) (h' : x ∈ s.bankAt nt c') : c = c' := by
  obtain ⟨e, g1, g2⟩ := hc.bank nt c x h
  obtain ⟨e', g1', g2'⟩ := hc.bank nt c' x h'
  rw [g2] at g2'
  have hfin : e.fin = e'.fin := Option.some.inj g2'
  obtain ⟨hi, rfl⟩ := List.getElem?_eq_some_iff.mp g1
  obtain ⟨hj, rfl⟩ := List.getElem?_eq_some_iff.mp g1'
  rcases Nat.lt_trichotomy c c' with hlt | heq | hgt
  · have := List.pairwise_iff_getElem.mp (ho.mono nt) c c' hi hj hlt
    grind
  · exact heq
  · have := List.pairwise_iff_getElem.mp (ho.mono nt) c' c hj hi hgt
    grind

theorem prov_comb_unique (E : Env S) (s : St S) (hc : CInv E s) (ho : OI s) :
    ∀ (args : List (Ty × S)) (comb comb' : List Nat) (a : List Prog),
      All2 (fun x (ac : NT S Unit × Nat) => x ∈ s.bankAt ac.1 ac.2) a ((args.map ntOf).zip comb) →
      All2 (fun x (ac : NT S Unit × Nat) => x ∈ s.bankAt ac.1 ac.2) a ((args.map ntOf).zip comb') →
      comb.length = args.length → comb'.length = args.length → comb = comb'
  | [], comb, comb', _, _, _, h3, h4 => by
    have e1 : comb = [] := List.length_eq_zero_iff.mp h3
    have e2 : comb' = [] := List.length_eq_zero_iff.mp h4
    rw [e1, e2]
  | arg :: args, [], _, _, _, _, h3, _ => by simp at h3
  | arg :: args, _ :: _, [], _, _, _, _, h4 => by simp at h4
  | arg :: args, c :: cs, c' :: cs', a, h1, h2, h3, h4 => by
    simp only [List.map_cons, List.zip_cons_cons] at h1 h2
    cases h1 with
    | cons m1 r1 =>
      cases h2 with
      | cons m2 r2 =>
        have hcc := bank_index_unique E s hc ho _ _ c c' m1 m2
        have := prov_comb_unique E s hc ho args cs cs' _ r1 r2 (by simpa using h3) (by simpa using h4)
        rw [hcc, this]

theorem prog_differ (E : Env S) (s : St S) (hc : CInv E s) (ho : OI s) (nt : NT S Unit) (P P' : Sym)
    (rl rl' : List (Ty × S) × Unit) (hr : E.G.rule? nt P = some rl) (hr' : E.G.rule? nt P' = some rl')
    (comb comb' : List Nat) (a a' : List Prog) (hp : Prov s rl.1 comb a) (hp' : Prov s rl'.1 comb' a')
    (hne : (P, comb) ≠ (P', comb')) :
    mkProg P (!(rl.1.map ntOf).isEmpty) a ≠ mkProg P' (!(rl'.1.map ntOf).isEmpty) a' := by
  intro heq
  by_cases hP : P = P'
  · subst hP
    have : rl = rl' := by rw [hr] at hr'; exact Option.some.inj hr'
    subst this
    apply hne
    congr 1
    cases hrl : rl.1 with
    | nil =>
      have e1 : comb = [] := List.length_eq_zero_iff.mp (by rw [hp.2, hrl]; rfl)
      have e2 : comb' = [] := List.length_eq_zero_iff.mp (by rw [hp'.2, hrl]; rfl)
      rw [e1, e2]
    | cons x xs =>
      have hfun : (!(rl.1.map ntOf).isEmpty) = true := by rw [hrl]; rfl
      rw [hfun] at heq
      simp only [mkProg, if_true, Tree.node.injEq, true_and] at heq
      subst heq
      exact prov_comb_unique E s hc ho rl.1 comb comb' a hp.1 hp'.1 hp.2 hp'.2
  · unfold mkProg at heq
    split at heq <;> split at heq <;> (simp only [Tree.node.injEq] at heq; exact hP heq.1)

end PS.Beap
