/- Soundness of the heap search on unambiguous grammars as a state invariant: everything stored for
   a non-terminal (heap, `hash_table_program`, `succ`, `max_priority`, `_keys`, the memo table of
   `compute_priority`, the start heap) is derivable from it and carries the priority of a derivation. -/
import PS.Proofs.Enum.USpec
namespace PS.UHS
open PS PS.G
set_option linter.unusedSectionVars false
variable {U π : Type} [DecidableEq U]

/-- hypotheses on the grammar table and the variant of the code:
    `rows` — a Python dict has no repeated key (`rules[S]`);
    `arity` — bucket search (`firstFit`) tries the alternatives of `rules[S][P]` in turn: they all have the
      arity of `P`;
    `kway` — the code after fix 7721229 (the start heap is a k-way merge of the start symbols) -/
structure GHyp (E : Env U π) : Prop where
  rows : ∀ nt rs, AList.lookup nt E.G.rules = some rs → (AList.keys rs).Nodup
  arity : E.ops.firstFit = true → ∀ nt F v w v' w', (v, w) ∈ altsOf E nt F → (v', w') ∈ altsOf E nt F →
    v.length = v'.length
  kway : E.kway = true

/-- `_keys[S][program] = v`: `v` is an alternative of the head of `program` at `S` from which the
    arguments are derivable -/
def KeyOK (E : Env U π) (nt : UNT U) (F : Sym) (kids : List Prog) (v : List (UNT U)) : Prop :=
  (∃ w, (v, w) ∈ altsOf E nt F) ∧ DerList E kids v

theorem KeyOK.der {E : Env U π} {nt F kids v} (h : KeyOK E nt F kids v) : Der E (.node F kids) nt := by
  obtain ⟨⟨w, hm⟩, hl⟩ := h
  exact (der_node E F kids nt).mpr ⟨v, w, hm, hl⟩

/-- **soundness invariant** -/
structure SInv (E : Env U π) (s : St U π) : Prop where
  cache_ok : CacheOK E s.cache
  heap_prio : ∀ nt e, e ∈ s.heapOf nt → HasPrio E e.2 nt e.1
  heap_seen : ∀ nt e, e ∈ s.heapOf nt → e.2 ∈ s.seenOf nt
  seen_der : ∀ nt p, p ∈ s.seenOf nt → Der E p nt
  succ_seen : ∀ nt k v, AList.lookup k (s.succOf nt) = some v → v ∈ s.seenOf nt
  keys_ok : ∀ nt F kids v, AList.lookup (nt, .node F kids) s.keys = some v → KeyOK E nt F kids v
  maxNT_ok : ∀ nt m, AList.lookup nt s.maxNT = some m → Der E m nt
  maxRule_ok : ∀ nt P v m, AList.lookup (nt, P, v) s.maxRule = some m → Der E m nt
  start_ok : ∀ e, e ∈ s.startHeap →
    ∃ w pr, startW E e.2.2 = some w ∧ HasPrio E e.2.1 e.2.2 pr ∧ e.1 = E.ops.adjust pr w

theorem mem_of_pop {α : Type} (lt : α → α → Bool) (h : List α) (x : α) (h' : List α)
    (hp : Heapq.pop lt h = some (x, h')) : x ∈ h ∧ ∀ e ∈ h', e ∈ h := by
  have := Heapq.pop_perm lt h x h' hp
  exact ⟨this.symm.subset (List.mem_cons_self), fun e he => this.symm.subset (List.mem_cons_of_mem _ he)⟩

theorem SInv.setHeap_sub {E : Env U π} {s : St U π} (h : SInv E s) (nt : UNT U)
    (h' : List (π × Prog)) (hsub : ∀ e ∈ h', e ∈ s.heapOf nt) : SInv E (s.setHeap nt h') := by
  refine ⟨h.cache_ok, ?_, ?_, h.seen_der, h.succ_seen, h.keys_ok, h.maxNT_ok, h.maxRule_ok, h.start_ok⟩
  · intro nt' e he
    rw [St.heapOf_setHeap] at he
    split at he
    · rename_i heq; subst heq; exact h.heap_prio _ e (hsub e he)
    · exact h.heap_prio nt' e he
  · intro nt' e he
    rw [St.heapOf_setHeap] at he
    split at he
    · rename_i heq; subst heq; exact h.heap_seen _ e (hsub e he)
    · exact h.heap_seen nt' e he

theorem SInv.setSucc {E : Env U π} {s : St U π} (h : SInv E s) (nt : UNT U)
    (k : Option Prog) (v : Prog) (hv : v ∈ s.seenOf nt) : SInv E (s.setSucc nt k v) := by
  refine ⟨h.cache_ok, h.heap_prio, h.heap_seen, h.seen_der, ?_, h.keys_ok, h.maxNT_ok, h.maxRule_ok, h.start_ok⟩
  intro nt' k' v' hk
  rw [St.succOf_setSucc] at hk
  split at hk
  · rename_i heq; subst heq
    rw [AList.lookup_insert] at hk
    split at hk
    · cases hk; exact hv
    · exact h.succ_seen _ k' v' hk
  · exact h.succ_seen nt' k' v' hk

theorem SInv.setPred {E : Env U π} {s : St U π} (h : SInv E s) (nt : UNT U) (k : Prog) (v : Option Prog) :
    SInv E (s.setPred nt k v) :=
  ⟨h.cache_ok, h.heap_prio, h.heap_seen, h.seen_der, h.succ_seen, h.keys_ok, h.maxNT_ok, h.maxRule_ok, h.start_ok⟩

theorem SInv.cacheStep {E : Env U π} {s s' : St U π} (h : SInv E s) (hs : CacheStep s s')
    (hc : CacheOK E s'.cache) : SInv E s' := by
  obtain ⟨c, rfl⟩ := hs
  exact ⟨hc, h.heap_prio, h.heap_seen, h.seen_der, h.succ_seen, h.keys_ok, h.maxNT_ok, h.maxRule_ok, h.start_ok⟩

theorem mem_seenOf_addSeen (s : St U π) (nt nt' : UNT U) (p q : Prog) :
    q ∈ (s.addSeen nt p).seenOf nt' ↔ q ∈ s.seenOf nt' ∨ (nt' = nt ∧ q = p) := by
  rw [St.seenOf_addSeen]
  split
  · rename_i heq; subst heq; simp
  · rename_i hne; simp [hne]

theorem SInv.addSeen {E : Env U π} {s : St U π} (h : SInv E s) (nt : UNT U) (p : Prog) (hd : Der E p nt) :
    SInv E (s.addSeen nt p) := by
  refine ⟨h.cache_ok, h.heap_prio, ?_, ?_, ?_, h.keys_ok, h.maxNT_ok, h.maxRule_ok, h.start_ok⟩
  · intro nt' e he
    exact (mem_seenOf_addSeen s nt nt' p e.2).mpr (Or.inl (h.heap_seen nt' e he))
  · intro nt' q hq
    rcases (mem_seenOf_addSeen s nt nt' p q).mp hq with hq | ⟨rfl, rfl⟩
    · exact h.seen_der nt' q hq
    · exact hd
  · intro nt' k v hk
    exact (mem_seenOf_addSeen s nt nt' p v).mpr (Or.inl (h.succ_seen nt' k v hk))

theorem SInv.setKey {E : Env U π} {s : St U π} (h : SInv E s) (nt : UNT U) (F : Sym) (kids : List Prog)
    (v : List (UNT U)) (hk : KeyOK E nt F kids v) :
    SInv E { s with keys := AList.insert (nt, .node F kids) v s.keys } := by
  refine ⟨h.cache_ok, h.heap_prio, h.heap_seen, h.seen_der, h.succ_seen, ?_, h.maxNT_ok, h.maxRule_ok, h.start_ok⟩
  intro nt' F' kids' v' hl
  rw [AList.lookup_insert] at hl
  split at hl
  · rename_i heq
    cases hl
    cases heq
    exact hk
  · exact h.keys_ok nt' F' kids' v' hl

/-- `heappush(heaps[S], HeapElement(priority, program))` guarded by the threshold -/
theorem SInv.pushBoth {E : Env U π} (H : GHyp E) {s : St U π} (h : SInv E s) (nt : UNT U) (pr : π) (p : Prog)
    (hp : HasPrio E p nt pr) (hs : p ∈ s.seenOf nt) : SInv E (pushBoth E s nt pr p) := by
  unfold UHS.pushBoth
  split
  · simp only [H.kway, if_true]
    refine ⟨h.cache_ok, ?_, ?_, h.seen_der, h.succ_seen, h.keys_ok, h.maxNT_ok, h.maxRule_ok, h.start_ok⟩
    · intro nt' e he
      rw [St.heapOf_setHeap] at he
      split at he
      · rename_i heq; subst heq
        rcases List.mem_cons.mp ((Heapq.push_perm (ltE E.ops) _ (pr, p)).subset he) with rfl | hm
        · exact hp
        · exact h.heap_prio _ e hm
      · exact h.heap_prio nt' e he
    · intro nt' e he
      rw [St.heapOf_setHeap] at he
      split at he
      · rename_i heq; subst heq
        rcases List.mem_cons.mp ((Heapq.push_perm (ltE E.ops) _ (pr, p)).subset he) with rfl | hm
        · exact hs
        · exact h.heap_seen _ e hm
      · exact h.heap_seen nt' e he
  · exact h

/-- `compute_priority` on a program recorded in `_keys` -/
theorem SInv.computePrio {E : Env U π} (H : GHyp E) {s : St U π} (h : SInv E s) (nt : UNT U) (p : Prog)
    (hd : Der E p nt) (s' : St U π) (pr : π) (hc : UHS.computePrio E s nt p = some (s', pr)) :
    HasPrio E p nt pr ∧ SInv E s' ∧ CacheStep s s' := by
  have := computePrio_spec E s h.cache_ok nt p hd ?_ ?_ s' pr hc
  · exact ⟨this.1, h.cacheStep this.2.2 this.2.1, this.2.2⟩
  · intro F kids v hp hl
    subst hp
    exact derList_length E _ _ (h.keys_ok nt F kids v hl).2
  · intro hff F kids v w hp hm _
    subst hp
    obtain ⟨v0, w0, hm0, hl0⟩ := (der_node E F kids nt).mp hd
    rw [derList_length E _ _ hl0]
    exact H.arity hff nt F v0 w0 v w hm0 hm

/-- `compute_priority` only writes its memo table -/
theorem computePrio_step (E : Env U π) {s s' : St U π} {nt : UNT U} {p : Prog} {pr : π}
    (hcp : UHS.computePrio E s nt p = some (s', pr)) : CacheStep s s' := by
  unfold UHS.computePrio at hcp
  split at hcp
  · simp only [Option.some.injEq, Prod.mk.injEq] at hcp; exact ⟨s.cache, hcp.1.symm⟩
  · obtain ⟨F, kids⟩ := p
    cases kids with
    | nil =>
      simp only at hcp
      split at hcp
      · simp only [Option.some.injEq, Prod.mk.injEq] at hcp; exact ⟨_, hcp.1.symm⟩
      · simp at hcp
    | cons a as =>
      simp only at hcp
      split at hcp
      · simp at hcp
      · simp only [Option.some.injEq, Prod.mk.injEq] at hcp; exact ⟨_, hcp.1.symm⟩

theorem CacheStep.seenOf {s s' : St U π} (h : CacheStep s s') (nt : UNT U) : s'.seenOf nt = s.seenOf nt := by
  obtain ⟨c, rfl⟩ := h; rfl
theorem CacheStep.keys {s s' : St U π} (h : CacheStep s s') : s'.keys = s.keys := by
  obtain ⟨c, rfl⟩ := h; rfl

/-- the loop body of `__add_successors_to_heap__` -/
theorem SInv.pushStep {E : Env U π} (H : GHyp E) {s : St U π} (h : SInv E s) (F : Sym) (args : List Prog)
    (nt : UNT U) (v : List (UNT U)) (i : Nat) (r : Option Prog)
    (hk : ∀ q, r = some q → KeyOK E nt F (args.set i q) v)
    (s' : St U π) (hp : pushStep E s F args nt v i r = some s') : SInv E s' := by
  unfold UHS.pushStep at hp
  cases r with
  | none => simp only [Option.some.injEq] at hp; subst hp; exact h
  | some q =>
    simp only at hp
    split at hp
    · simp only [Option.some.injEq] at hp; subst hp; exact h
    · have hko := hk q rfl
      have h1 := (h.addSeen nt _ hko.der).setKey nt F (args.set i q) v hko
      split at hp
      · simp at hp
      · rename_i s2' pr hcp
        simp only [Option.some.injEq] at hp
        subst hp
        obtain ⟨hpr, h2, hcs⟩ := h1.computePrio H nt _ hko.der s2' pr hcp
        apply h2.pushBoth H nt pr _ hpr
        rw [hcs.seenOf]
        exact (mem_seenOf_addSeen s nt nt _ _).mpr (Or.inr ⟨rfl, rfl⟩)

/-- step 2 of `__init_non_terminal__` -/
theorem SInv.initPush {E : Env U π} (H : GHyp E) (nt : UNT U) : ∀ (l : List (Sym × List (UNT U))) {s s' : St U π},
    SInv E s → initPush E s nt l = some s' → SInv E s'
  | [], s, s', h, hp => by simp only [UHS.initPush, Option.some.injEq] at hp; subst hp; exact h
  | (P, v) :: rest, s, s', h, hp => by
    simp only [UHS.initPush] at hp
    split at hp
    · simp at hp
    · rename_i prog hm
      split at hp
      · simp at hp
      · split at hp
        · simp at hp
        · rename_i s1 pr hcp
          split at hp
          · simp at hp
          · have hd := h.maxRule_ok nt P v prog hm
            have h1 := h.addSeen nt prog hd
            obtain ⟨F, kids⟩ := prog
            obtain ⟨hpr, h2, hcs⟩ := h1.computePrio H nt _ hd s1 pr hcp
            refine SInv.initPush H nt rest (h2.pushBoth H nt pr _ hpr ?_) hp
            rw [hcs.seenOf]
            exact (mem_seenOf_addSeen s nt nt _ _).mpr (Or.inr ⟨rfl, rfl⟩)

/-! ### rule induction on the big-step relation -/

/-- the precondition of each call -/
def SPre (E : Env U π) : Call U π → Prop
  | .addLoop F args nt v _ => KeyOK E nt F args v
  | .initRules nt rs best => (∀ x ∈ rs, altsOf E nt x.1 = x.2) ∧ ∀ b, best = some b → Der E b.1 nt
  | .initAlts nt P alts best => (∀ vw ∈ alts, vw ∈ altsOf E nt P) ∧ ∀ b, best = some b → Der E b.1 nt
  | _ => True

/-- the returned program / best program is derivable from `nt` -/
def ResDer (E : Env U π) (nt : UNT U) : Res π → Prop
  | .prog r => ∀ q, r = some q → Der E q nt
  | .best b' => ∀ b, b' = some b → Der E b.1 nt
  | .args _ => True

/-- the postcondition of each call -/
def SPost (E : Env U π) : Call U π → Res π → Prop
  | .query nt _, r => ResDer E nt r
  | .lop nt _, r => ResDer E nt r
  | .popLoop nt _, r => ResDer E nt r
  | .initRules nt _ _, r => ResDer E nt r
  | .initAlts nt _ _ _, r => ResDer E nt r
  | .initArgs v acc, .args l => ∀ v0, DerList E acc v0 → DerList E l (v0 ++ v)
  | _, _ => True

theorem bestUpd_der (E : Env U π) (nt : UNT U) (best : Option (Prog × π)) (prog : Prog) (pr : π)
    (hb : ∀ b, best = some b → Der E b.1 nt) (hp : Der E prog nt) :
    ∀ b, bestUpd E.ops.lt best prog pr = some b → Der E b.1 nt := by
  intro b hbu
  unfold bestUpd at hbu
  cases best with
  | none => simp only [Option.some.injEq] at hbu; subst hbu; exact hp
  | some b0 =>
    simp only at hbu
    split at hbu
    · simp only [Option.some.injEq] at hbu; subst hbu; exact hp
    · simp only [Option.some.injEq] at hbu; subst hbu; exact hb _ rfl

/-- the alternative step of `__init_non_terminal__` phase 1 -/
theorem SInv.altStep {E : Env U π} (H : GHyp E) {s1 s3 : St U π} (h : SInv E s1) (nt : UNT U) (P : Sym)
    (v : List (UNT U)) (w : Rat) (arguments : List Prog) (pr : π) (hm : (v, w) ∈ altsOf E nt P)
    (hl : DerList E arguments v)
    (hc : UHS.computePrio E { s1 with keys := AList.insert (nt, .node P arguments) v s1.keys } nt (.node P arguments)
      = some (s3, pr)) :
    SInv E { s3 with maxRule := AList.insert (nt, P, v) (.node P arguments) s3.maxRule } ∧
      Der E (.node P arguments) nt := by
  have hko : KeyOK E nt P arguments v := ⟨⟨w, hm⟩, hl⟩
  obtain ⟨_, h2, _⟩ := (h.setKey nt P arguments v hko).computePrio H nt _ hko.der s3 pr hc
  refine ⟨⟨h2.cache_ok, h2.heap_prio, h2.heap_seen, h2.seen_der, h2.succ_seen, h2.keys_ok, h2.maxNT_ok, ?_,
    h2.start_ok⟩, hko.der⟩
  intro nt' P' v' m hl'
  rw [AList.lookup_insert] at hl'
  split at hl'
  · rename_i heq
    cases hl'
    cases heq
    exact hko.der
  · exact h2.maxRule_ok nt' P' v' m hl'

/-- every call keeps the soundness invariant -/
theorem big_sound (E : Env U π) (H : GHyp E) {c : Call U π} {s s' : St U π} {r : Res π}
    (hb : Big E c s s' r) : SInv E s → SPre E c → SInv E s' ∧ SPost E c r := by
  induction hb with
  | query_direct h hb ih => intro hi _; exact ih hi trivial
  | query_init h h0 hb ih0 ih => intro hi _; exact ih (ih0 hi trivial).1 trivial
  | lop_hit h =>
    intro hi _
    refine ⟨hi, ?_⟩
    intro q hq; cases hq
    exact hi.seen_der _ _ (hi.succ_seen _ _ _ h)
  | lop_miss h hb ih => intro hi _; exact ih hi trivial
  | pop_empty h => intro hi _; exact ⟨hi, by intro q hq; cases hq⟩
  | pop_deleted h hd ha hb iha ihb =>
    intro hi _
    obtain ⟨hm, hsub⟩ := mem_of_pop _ _ _ _ h
    exact ihb (iha (hi.setHeap_sub _ _ hsub) trivial).1 trivial
  | @pop_take s s' nt key e h' x h hd ha iha =>
    intro hi _
    obtain ⟨hm, hsub⟩ := mem_of_pop _ _ _ _ h
    have hseen := hi.heap_seen _ _ hm
    have h1 := ((hi.setHeap_sub nt h' hsub).setSucc nt key e.2 hseen).setPred nt e.2 key
    obtain ⟨h2, _⟩ := iha h1 trivial
    refine ⟨h2, ?_⟩
    intro q hq; cases hq
    exact hi.seen_der _ _ hseen
  | succ_leaf => intro hi _; exact ⟨hi, trivial⟩
  | succ_fun hk hb ih =>
    intro hi _
    exact ⟨(ih hi (hi.keys_ok _ _ _ _ hk)).1, trivial⟩
  | loop_done => intro hi _; exact ⟨hi, trivial⟩
  | @loop_step s s1 s3 s' F args nt v i ai si r x hai hsi hq hp hb ihq ihb =>
    intro hi hpre
    obtain ⟨hi1, hpost⟩ := ihq hi trivial
    have hpre' : KeyOK E nt F args v := hpre
    have hstep : SInv E s3 := by
      apply hi1.pushStep H F args nt v i r _ s3 hp
      intro q hq'
      exact ⟨hpre'.1, derList_set E args v i q si hpre'.2 hsi (hpost q hq')⟩
    exact ⟨(ihb hstep hpre').1, trivial⟩
  | init_skip h => intro hi _; exact ⟨hi, trivial⟩
  | @init_run s s1 s3 s' nt rs b r h hrs hr hp hq ihr ihq =>
    intro hi _
    have h0 : SInv E { s with initS := s.initS ++ [nt] } :=
      ⟨hi.cache_ok, hi.heap_prio, hi.heap_seen, hi.seen_der, hi.succ_seen, hi.keys_ok, hi.maxNT_ok, hi.maxRule_ok,
        hi.start_ok⟩
    have hrows : ∀ x ∈ rs, altsOf E nt x.1 = x.2 := by
      intro x hx
      unfold altsOf
      rw [hrs]
      simp only
      rw [AList.lookup_of_mem_nodup (H.rows nt rs hrs) (show (x.1, x.2) ∈ rs from hx)]
      rfl
    obtain ⟨h1, hbest⟩ := ihr h0 ⟨hrows, by intro b hb; cases hb⟩
    have hbd : Der E b.1 nt := hbest b rfl
    have h2 : SInv E { s1 with maxNT := AList.insert nt b.1 s1.maxNT } := by
      refine ⟨h1.cache_ok, h1.heap_prio, h1.heap_seen, h1.seen_der, h1.succ_seen, h1.keys_ok, ?_, h1.maxRule_ok,
        h1.start_ok⟩
      intro nt' m hl
      rw [AList.lookup_insert] at hl
      split at hl
      · rename_i heq; cases hl; subst heq; exact hbd
      · exact h1.maxNT_ok nt' m hl
    exact ⟨(ihq (SInv.initPush H nt _ h2 hp) trivial).1, trivial⟩
  | rules_nil => intro hi hpre; exact ⟨hi, hpre.2⟩
  | @rules_cons s s1 s' nt P alts rest best best1 best' ha hb iha ihb =>
    intro hi hpre
    have hP : altsOf E nt P = alts := hpre.1 (P, alts) List.mem_cons_self
    obtain ⟨h1, hb1⟩ := iha hi ⟨by intro vw hvw; rw [hP]; exact hvw, hpre.2⟩
    exact ihb h1 ⟨fun x hx => hpre.1 x (List.mem_cons_of_mem _ hx), hb1⟩
  | alts_nil => intro hi hpre; exact ⟨hi, hpre.2⟩
  | @alts_leaf s s1 s3 nt P v w rest best arguments pr ha hc hv iha =>
    intro hi hpre
    obtain ⟨h1, hargs⟩ := iha hi trivial
    have hl : DerList E arguments v := by simpa using hargs [] trivial
    obtain ⟨h2, hd⟩ := h1.altStep H nt P v w arguments pr (hpre.1 _ List.mem_cons_self) hl hc
    exact ⟨h2, bestUpd_der E nt best _ pr hpre.2 hd⟩
  | @alts_cons s s1 s3 s' nt P v w rest best arguments pr best' ha hc hv hb iha ihb =>
    intro hi hpre
    obtain ⟨h1, hargs⟩ := iha hi trivial
    have hl : DerList E arguments v := by simpa using hargs [] trivial
    obtain ⟨h2, hd⟩ := h1.altStep H nt P v w arguments pr (hpre.1 _ List.mem_cons_self) hl hc
    exact ihb h2 ⟨fun vw hvw => hpre.1 vw (List.mem_cons_of_mem _ hvw), bestUpd_der E nt best _ pr hpre.2 hd⟩
  | args_nil =>
    intro hi _
    refine ⟨hi, ?_⟩
    intro v0 h0
    simpa using h0
  | @args_cons s s1 s' si v acc m r0 l hi' hm hb ihi ihb =>
    intro hi _
    obtain ⟨h1, _⟩ := ihi hi trivial
    obtain ⟨h2, hpost⟩ := ihb h1 trivial
    refine ⟨h2, ?_⟩
    intro v0 h0
    have := hpost (v0 ++ [si]) (derList_append E acc v0 m si h0 (h1.maxNT_ok si m hm))
    simpa using this

end PS.UHS
