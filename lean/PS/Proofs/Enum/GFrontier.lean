/- The frontier invariant of heap search (acyclic context-free grammar, any priority type satisfying
   `Law`, threshold, filter): in a quiescent state, every member of the grammar all of whose
   sub-programs the filter accepts and whose priority passes the threshold was popped for its
   non-terminal, or the heap of the non-terminal holds an element at least as good.
   Consequences: prefix completeness, completeness of an exhausted non-terminal. -/
import PS.Proofs.Enum.GI3
namespace PS.HG
open PS PS.G PS.HS
set_option linter.unusedSectionVars false
variable {S π : Type} [DecidableEq S]

/- the filter accepts the program and all its sub-programs -/
mutual
  def clean (f : Prog → Bool) : Prog → Bool
    | .node F kids => f (.node F kids) && cleanList f kids
  def cleanList (f : Prog → Bool) : List Prog → Bool
    | [] => true
    | k :: ks => clean f k && cleanList f ks
end

theorem cleanList_get (f : Prog → Bool) : ∀ (ks : List Prog) (i : Nat) (k : Prog), cleanList f ks = true →
    ks[i]? = some k → clean f k = true
  | [], _, _, _, h => by simp at h
  | k0 :: ks, 0, k, hc, h => by
    simp only [cleanList, Bool.and_eq_true] at hc
    simp only [List.getElem?_cons_zero, Option.some.injEq] at h
    subst h; exact hc.1
  | k0 :: ks, i + 1, k, hc, h => by
    simp only [cleanList, Bool.and_eq_true] at hc
    simp only [List.getElem?_cons_succ] at h
    exact cleanList_get f ks i k hc.2 h

def Closed (G : TT S Unit) : Prop :=
  ∀ nt F ra, G.rule? nt F = some (ra, ()) → ∀ a ∈ ra, (AList.lookup (argNT a) G.rules).isSome = true

/-- with a threshold: a program is not better than its arguments -/
def SubOK (E : Env S Unit π) : Prop :=
  E.ops.thr = none ∨ ∀ nt F ra args pF (i : Nat) ai a pa, E.G.rule? nt F = some (ra, ()) →
    prioSpec E (.node F args) nt = some pF → args[i]? = some ai → ra[i]? = some a →
    prioSpec E ai (argNT a) = some pa → E.ops.lt pF pa = false

/-! ### the priority is defined on every member -/
mutual
  theorem prioSpec_total (E : Env S Unit π) (hw : WTotal E) :
      ∀ (p : Prog) (nt : NT S Unit), gen E.G p nt = true → (prioSpec E p nt).isSome = true
    | .node F kids, nt, hg => by
      rw [gen] at hg
      cases hr : E.G.rule? nt F with
      | none => simp [hr] at hg
      | some rl =>
        obtain ⟨ra, u⟩ := rl
        cases u
        simp only [hr] at hg
        have hws := hw nt F _ hr
        rw [prioSpec, hr]
        cases hwv : ruleW E nt F with
        | none => rw [hwv] at hws; cases hws
        | some w => exact prioListSpec_total E hw kids ra _ hg
  theorem prioListSpec_total (E : Env S Unit π) (hw : WTotal E) :
      ∀ (ks : List Prog) (ra : List (Ty × S)) (acc : π), genList E.G ks ra = true → (prioList E ks ra acc).isSome = true
    | [], [], _, _ => rfl
    | [], _ :: _, _, h => by simp [genList] at h
    | _ :: _, [], _, h => by simp [genList] at h
    | k :: ks, (t, s0) :: as, acc, h => by
      simp only [genList, Bool.and_eq_true] at h
      rw [prioList]
      have hs := prioSpec_total E hw k (argNT (t, s0)) h.1
      cases hk : prioSpec E k (argNT (t, s0)) with
      | none => rw [hk] at hs; cases hs
      | some pk => exact prioListSpec_total E hw ks as _ h.2
end

/-! ### replacing several arguments -/

/-- `as'` is pointwise at least as good as `ks` -/
def ArgsLe (E : Env S Unit π) (ra : List (Ty × S)) (as' ks : List Prog) : Prop :=
  ∀ (j : Nat) a x k px pk, ra[j]? = some a → as'[j]? = some x → ks[j]? = some k →
    prioSpec E x (argNT a) = some px → prioSpec E k (argNT a) = some pk → E.ops.lt pk px = false

/-- the program with the first `j` arguments of `ks` and the others of `as'` -/
def hybrid (as' ks : List Prog) (j : Nat) : List Prog := ks.take j ++ as'.drop j

theorem hybrid_get (as' ks : List Prog) (hlen : as'.length = ks.length) (j i : Nat) :
    (hybrid as' ks j)[i]? = if i < j then ks[i]? else as'[i]? := by
  unfold hybrid
  by_cases hij : i < j
  · simp only [hij, if_true]
    by_cases hik : i < ks.length
    · rw [List.getElem?_append_left (by simp; omega)]
      simp [List.getElem?_take, hij]
    · have h1 : ks[i]? = none := List.getElem?_eq_none_iff.mpr (by omega)
      rw [h1]
      apply List.getElem?_eq_none_iff.mpr
      simp; omega
  · simp only [hij, if_false]
    by_cases hjk : j ≤ ks.length
    · rw [List.getElem?_append_right (by simp; omega)]
      simp only [List.length_take, List.getElem?_drop]
      congr 1
      omega
    · have h1 : as'[i]? = none := List.getElem?_eq_none_iff.mpr (by omega)
      rw [h1]
      apply List.getElem?_eq_none_iff.mpr
      simp; omega

theorem hybrid_succ (as' ks : List Prog) (hlen : as'.length = ks.length) (j : Nat) (k : Prog) (hk : ks[j]? = some k) :
    hybrid as' ks (j + 1) = (hybrid as' ks j).set j k := by
  apply List.ext_getElem?
  intro i
  rw [hybrid_get as' ks hlen]
  by_cases hij : i = j
  · subst hij
    have hjl : i < ks.length := (List.getElem?_eq_some_iff.mp hk).1
    rw [List.getElem?_set_self (by unfold hybrid; simp; omega)]
    simp [hk]
  · rw [List.getElem?_set_ne (Ne.symm hij), hybrid_get as' ks hlen]
    by_cases h1 : i < j
    · have : i < j + 1 := by omega
      simp [h1, this]
    · have : ¬ i < j + 1 := by omega
      simp [h1, this]

/-- **monotonicity in all the arguments** -/
theorem multi_mono {E : Env S Unit π} {rank} {Good} (L : Law E rank Good) (hw : WTotal E) (nt : NT S Unit) (F : Sym)
    (ra : List (Ty × S)) (as' ks : List Prog) (hr : E.G.rule? nt F = some (ra, ()))
    (hg1 : genList E.G as' ra = true) (hg2 : genList E.G ks ra = true) (hle : ArgsLe E ra as' ks)
    (pA pK : π) (hpA : prioSpec E (.node F as') nt = some pA) (hpK : prioSpec E (.node F ks) nt = some pK) :
    E.ops.lt pK pA = false := by
  have hlen : as'.length = ks.length := by rw [genList_length' E.G _ _ hg1, genList_length' E.G _ _ hg2]
  -- all the hybrids are members
  have hgh : ∀ j, genList E.G (hybrid as' ks j) ra = true := by
    intro j
    apply genList_of_pointwise
    · unfold hybrid
      have := genList_length' E.G _ _ hg2
      simp; omega
    · intro i m a hm ha
      rw [hybrid_get as' ks hlen] at hm
      split at hm
      · exact genList_get E.G ks ra i m a hg2 hm ha
      · exact genList_get E.G as' ra i m a hg1 hm ha
  have hstep : ∀ j, j ≤ ks.length → ∃ pj, prioSpec E (.node F (hybrid as' ks j)) nt = some pj ∧ E.ops.lt pj pA = false := by
    intro j
    induction j with
    | zero =>
      intro _
      have : hybrid as' ks 0 = as' := by simp [hybrid]
      rw [this]
      exact ⟨pA, hpA, L.weak.irrefl (L.good _ _ _ hpA)⟩
    | succ j ih =>
      intro hj
      obtain ⟨pj, hpj, hlej⟩ := ih (by omega)
      have hjk : j < ks.length := by omega
      have hk : ks[j]? = some ks[j] := List.getElem?_eq_getElem hjk
      have hja : j < as'.length := by omega
      have hjr : j < ra.length := by rw [← genList_length' E.G _ _ hg2]; exact hjk
      have ha : ra[j]? = some ra[j] := List.getElem?_eq_getElem hjr
      have hx : (hybrid as' ks j)[j]? = some as'[j] := by
        rw [hybrid_get as' ks hlen]; simp [List.getElem?_eq_getElem hja]
      rw [hybrid_succ as' ks hlen j _ hk]
      have hgk := genList_get E.G ks ra j _ _ hg2 hk ha
      have hgx := genList_get E.G as' ra j _ _ hg1 (List.getElem?_eq_getElem hja) ha
      have hgn : gen E.G (.node F ((hybrid as' ks j).set j ks[j])) nt = true := by
        rw [gen, hr]
        exact genList_set E.G _ ra j _ _ (hgh j) ha hgk
      have hsn := prioSpec_total E hw _ nt hgn
      cases hpn : prioSpec E (.node F ((hybrid as' ks j).set j ks[j])) nt with
      | none => rw [hpn] at hsn; cases hsn
      | some pn =>
        have hsk := prioSpec_total E hw _ _ hgk
        have hsx := prioSpec_total E hw _ _ hgx
        cases hpk : prioSpec E ks[j] (argNT ra[j]) with
        | none => rw [hpk] at hsk; cases hsk
        | some pk =>
          cases hpx : prioSpec E as'[j] (argNT ra[j]) with
          | none => rw [hpx] at hsx; cases hsx
          | some px =>
            have hl := hle j ra[j] as'[j] ks[j] px pk ha (List.getElem?_eq_getElem hja) hk hpx hpk
            have hm := L.mono nt F ra (hybrid as' ks j) j ks[j] as'[j] ra[j] pk px pj pn hr (hgh j) ha hx hgk hpk hpx hl hpj hpn
            exact ⟨pn, rfl, L.weak.ntrans (L.good _ _ _ hpA) (L.good _ _ _ hpj) (L.good _ _ _ hpn) hlej hm⟩
  obtain ⟨pj, hpj, hlej⟩ := hstep ks.length (Nat.le_refl _)
  have : hybrid as' ks ks.length = ks := by simp [hybrid, hlen]
  rw [this, hpK] at hpj
  cases hpj
  exact hlej

/-! ### quiescent states -/

structure Quiet (E : Env S Unit π) (H0 : NT S Unit → List (π × Prog)) (s : St S Unit π) : Prop where
  full : Full E H0 s
  tinv : TInv E H0 s
  cinv : CInv E s
  i3 : I3 E s
  started : HeapStarted s
  init_seen : ∀ nt F ra, E.G.rule? nt F = some (ra, ()) →
    ∃ ms, Tree.node F ms ∈ s.seenOf nt ∧
      ∀ (i : Nat) a m, ra[i]? = some a → ms[i]? = some m → FP E H0 (argNT a) m
  del_rej : ∀ p ∈ s.deleted, E.filter p = false

inductive TupleDepth (s : St S Unit π) : List (Ty × S) → List Prog → Nat → Prop
  | nil : TupleDepth s [] [] 0
  | cons {a ra x args l n} : chainFrom (s.succOf (argNT a)) none (l ++ [x]) → TupleDepth s ra args n →
      TupleDepth s (a :: ra) (x :: args) (l.length + n)

theorem TupleDepth.length {s : St S Unit π} {ra : List (Ty × S)} {args : List Prog} {n : Nat}
    (h : TupleDepth s ra args n) : args.length = ra.length := by
  induction h with
  | nil => rfl
  | cons _ _ ih => simp [ih]

theorem tupleDepth_of_values {E : Env S Unit π} {H0} {s : St S Unit π} (ht : TInv E H0 s) :
    ∀ (ra : List (Ty × S)) (args : List Prog), args.length = ra.length →
      (∀ (i : Nat) a ai, ra[i]? = some a → args[i]? = some ai → ∃ k, AList.lookup k (s.succOf (argNT a)) = some ai) →
      ∃ n, TupleDepth s ra args n
  | [], [], _, _ => ⟨0, .nil⟩
  | [], _ :: _, h, _ => by simp at h
  | _ :: _, [], h, _ => by simp at h
  | a :: ra, x :: args, h, hv => by
    obtain ⟨k, hk⟩ := hv 0 a x rfl rfl
    obtain ⟨l, hl, _⟩ := ht.reach _ k x hk
    obtain ⟨n, hn⟩ := tupleDepth_of_values ht ra args (by simpa using h)
      (fun i a' ai ha hai => hv (i + 1) a' ai (by simpa using ha) (by simpa using hai))
    exact ⟨_, .cons hl hn⟩

theorem TupleDepth.values {s : St S Unit π} {ra : List (Ty × S)} {args : List Prog} {n : Nat}
    (h : TupleDepth s ra args n) :
    ∀ (i : Nat) a ai, ra[i]? = some a → args[i]? = some ai → ∃ k, AList.lookup k (s.succOf (argNT a)) = some ai := by
  induction h with
  | nil => intro i a ai ha; simp at ha
  | @cons a ra x args l n hc ht ih =>
    intro i a' ai ha hai
    cases i with
    | zero =>
      simp only [List.getElem?_cons_zero, Option.some.injEq] at ha hai
      subst ha; subst hai
      rw [chainFrom_snoc] at hc
      exact ⟨_, hc.2⟩
    | succ i =>
      simp only [List.getElem?_cons_succ] at ha hai
      exact ih i a' ai ha hai

theorem TupleDepth.zero {s : St S Unit π} {ra : List (Ty × S)} {args : List Prog} {n : Nat}
    (h : TupleDepth s ra args n) (hn : n = 0) :
    ∀ (i : Nat) a ai, ra[i]? = some a → args[i]? = some ai → AList.lookup none (s.succOf (argNT a)) = some ai := by
  induction h with
  | nil => intro i a ai ha; simp at ha
  | @cons a ra x args l n hc ht ih =>
    intro i a' ai ha hai
    have hl : l = [] := List.eq_nil_of_length_eq_zero (by omega)
    subst hl
    cases i with
    | zero =>
      simp only [List.getElem?_cons_zero, Option.some.injEq] at ha hai
      subst ha; subst hai
      exact hc.1
    | succ i =>
      simp only [List.getElem?_cons_succ] at ha hai
      exact ih (by simp at hn; omega) i a' ai ha hai

theorem TupleDepth.pred {s : St S Unit π} {ra : List (Ty × S)} {args : List Prog} {n : Nat}
    (h : TupleDepth s ra args n) (hn : 0 < n) :
    ∃ (j : Nat) (a : Ty × S) (x z : Prog) (n' : Nat), ra[j]? = some a ∧ args[j]? = some z ∧
      AList.lookup (some x) (s.succOf (argNT a)) = some z ∧ TupleDepth s ra (args.set j x) n' ∧ n' < n := by
  induction h with
  | nil => omega
  | @cons a ra x args l n hc ht ih =>
    by_cases hl : l = []
    · subst hl
      simp only [List.length_nil, Nat.zero_add] at hn
      obtain ⟨j, a', x', z, n', h1, h2, h3, h4, h5⟩ := ih hn
      refine ⟨j + 1, a', x', z, 0 + n', by simpa using h1, by simpa using h2, h3, ?_, by simpa using h5⟩
      have := TupleDepth.cons (l := []) hc h4
      simpa using this
    · obtain ⟨l', x', rfl⟩ : ∃ l' x', l = l' ++ [x'] := by
        cases hrev : l.reverse with
        | nil => simp at hrev; exact absurd hrev hl
        | cons y ys =>
          refine ⟨ys.reverse, y, ?_⟩
          have := congrArg List.reverse hrev
          simpa using this
      rw [chainFrom_snoc, lastOr_snoc] at hc
      refine ⟨0, a, x', x, l'.length + n, rfl, rfl, hc.2, ?_, by simp⟩
      simpa using TupleDepth.cons hc.1 ht

/-- static hypotheses of the frontier theorem -/
structure FrHyp (E : Env S Unit π) (rank : NT S Unit → Nat) (Good : π → Prop) : Prop where
  law : Law E rank Good
  wtotal : WTotal E
  subok : SubOK E

/-- a tuple of popped arguments whose program passes the threshold: the program was added to
    `hash_table_program`, or the heap holds something at least as good -/
theorem tuple_reached {E : Env S Unit π} {rank} {Good} (H : FrHyp E rank Good) {H0} {s : St S Unit π}
    (Q : Quiet E H0 s) (nt : NT S Unit) (F : Sym) (ra : List (Ty × S)) (hr : E.G.rule? nt F = some (ra, ())) :
    ∀ (n : Nat) (args : List Prog) (pA : π), TupleDepth s ra args n → prioSpec E (.node F args) nt = some pA →
      pushOK E.ops pA = true →
      Tree.node F args ∈ s.seenOf nt ∨ ∃ e ∈ s.heapOf nt, E.ops.lt pA e.1 = false := by
  have L := H.law
  intro n
  induction n using Nat.strongRecOn with
  | _ n ih =>
    intro args pA ht hpA hok
    by_cases hn : n = 0
    · left
      obtain ⟨ms, hms, hfp⟩ := Q.init_seen nt F ra hr
      have hz := ht.zero hn
      have hgen := Q.full.sinv.seen_gen nt _ hms
      rw [gen, hr] at hgen
      have hlen : ms.length = args.length := by
        rw [genList_length' E.G ms ra hgen, ht.length]
      have heq : args = ms := by
        apply List.ext_getElem?
        intro i
        cases hai : args[i]? with
        | none =>
          have : args.length ≤ i := List.getElem?_eq_none_iff.mp hai
          exact (List.getElem?_eq_none_iff.mpr (by omega)).symm
        | some ai =>
          have hil : i < args.length := (List.getElem?_eq_some_iff.mp hai).1
          have hilr : i < ra.length := by rw [← ht.length]; exact hil
          have him : i < ms.length := by omega
          have hv := hz i ra[i] ai (List.getElem?_eq_getElem hilr) hai
          obtain ⟨e, h', hpop, he⟩ := Q.tinv.first_val _ ai hv
          have := hfp i ra[i] ms[i] (List.getElem?_eq_getElem hilr) (List.getElem?_eq_getElem him) e h' hpop
          rw [List.getElem?_eq_getElem him, ← this, he]
      rw [heq]; exact hms
    · obtain ⟨j, a, x, z, n', ha, hz, hlk, ht', hlt⟩ := ht.pred (by omega)
      have hjl : j < args.length := (List.getElem?_eq_some_iff.mp hz).1
      have hset : (args.set j x).set j z = args := by
        rw [List.set_set]
        apply List.ext_getElem?
        intro i
        by_cases hij : i = j
        · subst hij; rw [List.getElem?_set_self hjl, hz]
        · rw [List.getElem?_set_ne (Ne.symm hij)]
      -- the predecessor tuple is a member, its priority is at least as good
      have hvals' := ht'.values
      have hgl' : genList E.G (args.set j x) ra = true := by
        apply genList_of_pointwise _ _ _ ht'.length
        intro i m a' hm ha'
        obtain ⟨k, hk⟩ := hvals' i a' m ha' hm
        exact Q.full.sinv.seen_gen _ _ (Q.full.sinv.succ_seen _ _ _ hk)
      have hgen' : gen E.G (.node F (args.set j x)) nt = true := by rw [gen, hr]; exact hgl'
      have hs' := prioSpec_total E H.wtotal _ nt hgen'
      cases hpA' : prioSpec E (.node F (args.set j x)) nt with
      | none => rw [hpA'] at hs'; cases hs'
      | some pA' =>
        have hxj : (args.set j x)[j]? = some x := by rw [List.getElem?_set_self hjl]
        obtain ⟨kx, hkx⟩ := hvals' j a x ha hxj
        have hgz : gen E.G z (argNT a) = true := Q.full.sinv.seen_gen _ _ (Q.full.sinv.succ_seen _ _ _ hlk)
        have hpx := Q.full.oinv.val_prio _ _ _ hkx
        have hpz := Q.full.oinv.val_prio _ _ _ hlk
        cases hpx' : prioSpec E x (argNT a) with
        | none => rw [hpx'] at hpx; cases hpx
        | some px =>
          cases hpz' : prioSpec E z (argNT a) with
          | none => rw [hpz'] at hpz; cases hpz
          | some pz =>
            have hlink := Q.full.oinv.link _ x z px pz hlk hpx' hpz'
            have hmono : E.ops.lt pA pA' = false := by
              have := L.mono nt F ra (args.set j x) j z x a pz px pA' pA hr hgl' ha hxj hgz hpz' hpx' hlink hpA'
                (by rw [hset]; exact hpA)
              exact this
            have hgA := L.good _ _ _ hpA
            have hgA' := L.good _ _ _ hpA'
            have hok' := L.pushOK_mono hgA hgA' hmono hok
            rcases ih n' hlt _ pA' ht' hpA' hok' with hseen | ⟨e, he, hle⟩
            · rcases Q.cinv.seen_cover nt _ hseen with hh | hpop | ⟨pp, hpp, hno⟩
              · right
                obtain ⟨e0, he0, he02⟩ := List.mem_map.mp hh
                refine ⟨e0, he0, ?_⟩
                have := Q.full.sinv.heap_prio nt e0 he0
                rw [he02, hpA'] at this
                cases this
                exact hmono
              · left
                have hfact := Q.i3 nt _ hpop F (args.set j x) ra rfl hr j a x (Nat.zero_le _) ha hxj
                rcases hfact with ⟨z', hz', hm⟩ | ⟨hnone, _⟩
                · rw [hlk] at hz'
                  cases hz'
                  rw [hset] at hm
                  exact hm
                · rw [hlk] at hnone; cases hnone
              · rw [hpA'] at hpp; cases hpp
                rw [hok'] at hno; cases hno
            · right
              exact ⟨e, he, L.weak.ntrans (L.good _ _ _ (Q.full.sinv.heap_prio nt e he)) hgA' hgA hle hmono⟩

theorem exists_list_of_forall {R : Nat → Prog → Prop} : ∀ (n : Nat), (∀ j, j < n → ∃ x, R j x) →
    ∃ l : List Prog, l.length = n ∧ ∀ (j : Nat) x, l[j]? = some x → R j x
  | 0, _ => ⟨[], rfl, by intro j x h; simp at h⟩
  | n + 1, h => by
    obtain ⟨l, hl, hR⟩ := exists_list_of_forall n (fun j hj => h j (by omega))
    obtain ⟨x, hx⟩ := h n (by omega)
    refine ⟨l ++ [x], by simp [hl], ?_⟩
    intro j y hy
    by_cases hjl : j < l.length
    · rw [List.getElem?_append_left hjl] at hy; exact hR j y hy
    · rw [List.getElem?_append_right (by omega)] at hy
      have hj0 : j - l.length = 0 := by
        cases hjj : j - l.length with
        | zero => rfl
        | succ q => rw [hjj] at hy; simp at hy
      rw [hj0] at hy
      simp only [List.getElem?_cons_zero, Option.some.injEq] at hy
      subst hy
      have : j = n := by omega
      subst this; exact hx

theorem pushOK_none (E : Env S Unit π) (h : E.ops.thr = none) (p : π) : pushOK E.ops p = true := by
  unfold pushOK; rw [h]

theorem clean_self (f : Prog → Bool) (p : Prog) (h : clean f p = true) : f p = true := by
  obtain ⟨F, kids⟩ := p
  simp only [clean, Bool.and_eq_true] at h
  exact h.1

/-- **frontier invariant** -/
theorem frontier {E : Env S Unit π} {rank} {Good} (H : FrHyp E rank Good) {H0} {s : St S Unit π} (Q : Quiet E H0 s) :
    ∀ (r : Nat) (nt : NT S Unit), rank nt = r → ∀ (p : Prog) (pp : π), gen E.G p nt = true →
      clean E.filter p = true → prioSpec E p nt = some pp → pushOK E.ops pp = true →
      (∃ k, AList.lookup k (s.succOf nt) = some p) ∨ ∃ e ∈ s.heapOf nt, E.ops.lt pp e.1 = false := by
  have L := H.law
  intro r
  induction r using Nat.strongRecOn with
  | _ r ih =>
    intro nt hrk p pp hg hcl hpp hok
    obtain ⟨F, kids⟩ := p
    have hg0 := hg
    rw [gen] at hg
    cases hr : E.G.rule? nt F with
    | none => simp [hr] at hg
    | some rl =>
      obtain ⟨ra, u⟩ := rl
      cases u
      simp only [hr] at hg
      have hlenk := genList_length' E.G kids ra hg
      have hclk : cleanList E.filter kids = true := by
        simp only [clean, Bool.and_eq_true] at hcl; exact hcl.2
      -- one argument at a time
      have hpos : ∀ j, j < ra.length → ∃ x,
          (∀ a k, ra[j]? = some a → kids[j]? = some k →
            (∃ key, AList.lookup key (s.succOf (argNT a)) = some x) ∧
            (∀ px pk, prioSpec E x (argNT a) = some px → prioSpec E k (argNT a) = some pk → E.ops.lt pk px = false) ∧
            (x = k ∨ (AList.lookup (some x) (s.succOf (argNT a)) = none ∧ s.heapOf (argNT a) ≠ []))) := by
        intro j hj
        have hjk : j < kids.length := by omega
        have ha : ra[j]? = some ra[j] := List.getElem?_eq_getElem hj
        have hk : kids[j]? = some kids[j] := List.getElem?_eq_getElem hjk
        have hgk := genList_get E.G kids ra j _ _ hg hk ha
        have hck := cleanList_get E.filter kids j _ hclk hk
        have hsk := prioSpec_total E H.wtotal _ _ hgk
        have hrc : rank (argNT ra[j]) < r := by rw [← hrk]; exact L.acyclic nt F ra hr _ (List.mem_of_getElem? ha)
        cases hpk : prioSpec E kids[j] (argNT ra[j]) with
        | none => rw [hpk] at hsk; cases hsk
        | some pk =>
          have hokk : pushOK E.ops pk = true := by
            rcases H.subok with hn | hsub
            · exact pushOK_none E hn pk
            · exact L.pushOK_mono (L.good _ _ _ hpp) (L.good _ _ _ hpk) (hsub nt F ra kids pp j _ _ pk hr hpp hk ha hpk) hok
          rcases ih _ hrc (argNT ra[j]) rfl kids[j] pk hgk hck hpk hokk with hv | ⟨e, he, hle⟩
          · refine ⟨kids[j], ?_⟩
            intro a k ha' hk'
            rw [ha] at ha'; cases ha'
            rw [hk] at hk'; cases hk'
            refine ⟨hv, ?_, Or.inl rfl⟩
            intro px pk' hpx hpk'
            rw [hpx] at hpk'; cases hpk'
            exact L.weak.irrefl (L.good _ _ _ hpx)
          · -- not popped yet: use the last popped program of the argument's non-terminal
            have hne : s.heapOf (argNT ra[j]) ≠ [] := by intro hh; rw [hh] at he; cases he
            obtain ⟨kt, t, hkt, htip⟩ := Q.tinv.tip _ (Q.started _ hne)
            refine ⟨t, ?_⟩
            intro a k ha' hk'
            rw [ha] at ha'; cases ha'
            rw [hk] at hk'; cases hk'
            refine ⟨⟨kt, hkt⟩, ?_, Or.inr ⟨htip, hne⟩⟩
            intro px pk' hpx hpk'
            rw [hpk] at hpk'; cases hpk'
            have hb := Q.full.oinv.below _ e he kt t px hkt hpx
            exact L.weak.ntrans (L.good _ _ _ hpx) (L.good _ _ _ (Q.full.sinv.heap_prio _ e he)) (L.good _ _ _ hpk) hb hle
      obtain ⟨as', hlen', hR⟩ := exists_list_of_forall ra.length hpos
      -- facts about the chosen tuple
      have hget : ∀ (j : Nat) x, as'[j]? = some x → ∃ a k, ra[j]? = some a ∧ kids[j]? = some k := by
        intro j x hx
        have hj : j < as'.length := (List.getElem?_eq_some_iff.mp hx).1
        exact ⟨ra[j]'(by omega), kids[j]'(by omega), List.getElem?_eq_getElem _, List.getElem?_eq_getElem _⟩
      have hvals : ∀ (i : Nat) a ai, ra[i]? = some a → as'[i]? = some ai →
          ∃ k, AList.lookup k (s.succOf (argNT a)) = some ai := by
        intro i a ai ha hai
        obtain ⟨a', k, ha', hk⟩ := hget i ai hai
        rw [ha] at ha'; cases ha'
        exact (hR i ai hai a k ha hk).1
      have hgl' : genList E.G as' ra = true := by
        apply genList_of_pointwise _ _ _ hlen'
        intro i m a hm ha
        obtain ⟨k, hk⟩ := hvals i a m ha hm
        exact Q.full.sinv.seen_gen _ _ (Q.full.sinv.succ_seen _ _ _ hk)
      have hle : ArgsLe E ra as' kids := by
        intro j a x k px pk ha hx hk hpx hpk
        exact (hR j x hx a k ha hk).2.1 px pk hpx hpk
      have hgenA : gen E.G (.node F as') nt = true := by rw [gen, hr]; exact hgl'
      have hsA := prioSpec_total E H.wtotal _ nt hgenA
      cases hpA : prioSpec E (.node F as') nt with
      | none => rw [hpA] at hsA; cases hsA
      | some pA =>
        have hmm := multi_mono L H.wtotal nt F ra as' kids hr hgl' hg hle pA pp hpA hpp
        have hgA := L.good _ _ _ hpA
        have hgp := L.good _ _ _ hpp
        have hokA := L.pushOK_mono hgp hgA hmm hok
        obtain ⟨n, hn⟩ := tupleDepth_of_values Q.tinv ra as' hlen' hvals
        rcases tuple_reached H Q nt F ra hr n as' pA hn hpA hokA with hseen | ⟨e, he, hle'⟩
        · rcases Q.cinv.seen_cover nt _ hseen with hh | hpop | ⟨pq, hpq, hno⟩
          · right
            obtain ⟨e0, he0, he02⟩ := List.mem_map.mp hh
            refine ⟨e0, he0, ?_⟩
            have := Q.full.sinv.heap_prio nt e0 he0
            rw [he02, hpA] at this
            cases this
            exact hmm
          · -- popped: every argument is the original one
            have hdone := Q.i3 nt _ hpop
            have heq : as' = kids := by
              apply List.ext_getElem?
              intro j
              cases hx : as'[j]? with
              | none =>
                have : as'.length ≤ j := List.getElem?_eq_none_iff.mp hx
                exact (List.getElem?_eq_none_iff.mpr (by omega)).symm
              | some x =>
                obtain ⟨a, k, ha, hk⟩ := hget j x hx
                rcases (hR j x hx a k ha hk).2.2 with hxk | ⟨hnone, hne⟩
                · rw [hk, hxk]
                · exfalso
                  rcases hdone F as' ra rfl hr j a x (Nat.zero_le _) ha hx with ⟨z, hz, _⟩ | ⟨_, hemp⟩
                  · rw [hnone] at hz; cases hz
                  · exact hne hemp
            rw [heq] at hpop
            rcases hpop with hv | ⟨_, _, hdel, _⟩
            · exact Or.inl hv
            · exfalso
              have := Q.del_rej _ hdel
              rw [clean_self E.filter _ hcl] at this
              cases this
          · rw [hpA] at hpq; cases hpq
            rw [hokA] at hno; cases hno
        · right
          exact ⟨e, he, L.weak.ntrans (L.good _ _ _ (Q.full.sinv.heap_prio nt e he)) hgA hgp hle' hmm⟩

/-- **prefix completeness**: a clean member that passes the threshold and was not popped yet is not
    strictly better than any popped program -/
theorem not_better_than_popped {E : Env S Unit π} {rank} {Good} (H : FrHyp E rank Good) {H0} {s : St S Unit π}
    (Q : Quiet E H0 s) (nt : NT S Unit) (p : Prog) (pp : π) (hg : gen E.G p nt = true)
    (hcl : clean E.filter p = true) (hpp : prioSpec E p nt = some pp) (hok : pushOK E.ops pp = true)
    (hnot : ∀ k, AList.lookup k (s.succOf nt) ≠ some p) :
    ∀ k v pv, AList.lookup k (s.succOf nt) = some v → prioSpec E v nt = some pv → E.ops.lt pp pv = false := by
  intro k v pv hk hpv
  rcases frontier H Q _ nt rfl p pp hg hcl hpp hok with ⟨k', hk'⟩ | ⟨e, he, hle⟩
  · exact absurd hk' (hnot k')
  · have hb := Q.full.oinv.below nt e he k v pv hk hpv
    exact H.law.weak.ntrans (H.law.good _ _ _ hpv) (H.law.good _ _ _ (Q.full.sinv.heap_prio nt e he))
      (H.law.good _ _ _ hpp) hb hle

/-- **completeness of an exhausted non-terminal** -/
theorem exhausted_complete {E : Env S Unit π} {rank} {Good} (H : FrHyp E rank Good) {H0} {s : St S Unit π}
    (Q : Quiet E H0 s) (nt : NT S Unit) (hempty : s.heapOf nt = []) (p : Prog) (pp : π) (hg : gen E.G p nt = true)
    (hcl : clean E.filter p = true) (hpp : prioSpec E p nt = some pp) (hok : pushOK E.ops pp = true) :
    ∃ k, AList.lookup k (s.succOf nt) = some p := by
  rcases frontier H Q _ nt rfl p pp hg hcl hpp hok with hv | ⟨e, he, _⟩
  · exact hv
  · rw [hempty] at he; cases he

end PS.HG
