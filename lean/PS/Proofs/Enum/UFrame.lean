/- Heap search on unambiguous grammars, acyclic grammars: a call at the non-terminal `S` only writes the
   tables of `S` and of non-terminals of smaller rank (no re-entrant `query`). -/
import PS.Proofs.Enum.UNodupBig
namespace PS.UHS
open PS PS.G
set_option linter.unusedSectionVars false
variable {U π : Type} [DecidableEq U]

/-- the grammar is not recursive: `rank` decreases from a non-terminal to the non-terminals of its alternatives -/
def Acyclic (E : Env U π) (rank : UNT U → Nat) : Prop :=
  ∀ nt F v w, (v, w) ∈ altsOf E nt F → ∀ a ∈ v, rank a < rank nt

/-- the tables of `nt` are the same in `s` and `s'` -/
structure Same (s s' : St U π) (nt : UNT U) : Prop where
  heap : s'.heapOf nt = s.heapOf nt
  succ : s'.succOf nt = s.succOf nt
  seen : s'.seenOf nt = s.seenOf nt
  init : s'.initS.contains nt = s.initS.contains nt
  maxNT : AList.lookup nt s'.maxNT = AList.lookup nt s.maxNT
  keys : ∀ p, AList.lookup (nt, p) s'.keys = AList.lookup (nt, p) s.keys
  maxRule : ∀ P v, AList.lookup (nt, P, v) s'.maxRule = AList.lookup (nt, P, v) s.maxRule

theorem Same.refl (s : St U π) (nt : UNT U) : Same s s nt := ⟨rfl, rfl, rfl, rfl, rfl, fun _ => rfl, fun _ _ => rfl⟩
theorem Same.trans {s s1 s2 : St U π} {nt : UNT U} (h1 : Same s s1 nt) (h2 : Same s1 s2 nt) : Same s s2 nt :=
  ⟨h2.heap.trans h1.heap, h2.succ.trans h1.succ, h2.seen.trans h1.seen, h2.init.trans h1.init,
   h2.maxNT.trans h1.maxNT, fun p => (h2.keys p).trans (h1.keys p), fun P v => (h2.maxRule P v).trans (h1.maxRule P v)⟩

/-- only the tables of `x` are written -/
def Only (x : UNT U) (s s' : St U π) : Prop := ∀ nt, nt ≠ x → Same s s' nt

/-- the tables of the non-terminals of rank at least `r`, except `x`, are not written -/
def Frame (rank : UNT U → Nat) (r : Nat) (x : Option (UNT U)) (s s' : St U π) : Prop :=
  ∀ nt, r ≤ rank nt → some nt ≠ x → Same s s' nt

theorem Frame.refl (rank : UNT U → Nat) (r : Nat) (x : Option (UNT U)) (s : St U π) : Frame rank r x s s :=
  fun nt _ _ => Same.refl s nt
theorem Frame.trans {rank : UNT U → Nat} {r : Nat} {x : Option (UNT U)} {s s1 s2 : St U π}
    (h1 : Frame rank r x s s1) (h2 : Frame rank r x s1 s2) : Frame rank r x s s2 :=
  fun nt a b => (h1 nt a b).trans (h2 nt a b)
theorem Only.frame {rank : UNT U → Nat} {x : UNT U} {s s' : St U π} (h : Only x s s') (r : Nat) :
    Frame rank r (some x) s s' :=
  fun nt _ hne => h nt (fun e => hne (by rw [e]))
/-- a call at a non-terminal of smaller rank -/
theorem Frame.lift {rank : UNT U → Nat} {r r' : Nat} {y : UNT U} {x : Option (UNT U)} {s s' : St U π}
    (h : Frame rank r (some y) s s') (hr : r ≤ r') (hy : rank y < r') : Frame rank r' x s s' := by
  intro nt hnt _
  apply h nt (by omega)
  intro e
  cases e
  omega
theorem Frame.weaken {rank : UNT U → Nat} {r r' : Nat} {x : Option (UNT U)} {s s' : St U π}
    (h : Frame rank r none s s') (hr : r ≤ r') : Frame rank r' x s s' :=
  fun nt hnt _ => h nt (by omega) (by simp)

theorem lookup_insert_fst_ne {α β γ : Type} [DecidableEq α] [DecidableEq β] (a a' : α) (b b' : β) (v : γ)
    (l : AList (α × β) γ) (h : a' ≠ a) : AList.lookup (a', b') (AList.insert (a, b) v l) = AList.lookup (a', b') l :=
  AList.lookup_insert_ne v l (fun e => h (congrArg Prod.fst e))

theorem only_setHeap (s : St U π) (nt : UNT U) (h : List (π × Prog)) : Only nt s (s.setHeap nt h) := by
  intro nt' hne
  refine ⟨?_, rfl, rfl, rfl, rfl, fun _ => rfl, fun _ _ => rfl⟩
  rw [St.heapOf_setHeap, if_neg hne]
theorem only_setSucc (s : St U π) (nt : UNT U) (k : Option Prog) (v : Prog) : Only nt s (s.setSucc nt k v) := by
  intro nt' hne
  refine ⟨rfl, ?_, rfl, rfl, rfl, fun _ => rfl, fun _ _ => rfl⟩
  rw [St.succOf_setSucc, if_neg hne]
theorem only_setPred (s : St U π) (nt : UNT U) (k : Prog) (v : Option Prog) : Only nt s (s.setPred nt k v) :=
  fun _ _ => ⟨rfl, rfl, rfl, rfl, rfl, fun _ => rfl, fun _ _ => rfl⟩
theorem only_addSeen (s : St U π) (nt : UNT U) (p : Prog) : Only nt s (s.addSeen nt p) := by
  intro nt' hne
  refine ⟨rfl, rfl, ?_, rfl, rfl, fun _ => rfl, fun _ _ => rfl⟩
  rw [St.seenOf_addSeen, if_neg hne]
theorem only_setKey (s : St U π) (nt : UNT U) (p : Prog) (v : List (UNT U)) :
    Only nt s { s with keys := AList.insert (nt, p) v s.keys } := by
  intro nt' hne
  exact ⟨rfl, rfl, rfl, rfl, rfl, fun p' => lookup_insert_fst_ne _ _ _ _ _ _ hne, fun _ _ => rfl⟩
theorem only_setMaxRule (s : St U π) (nt : UNT U) (P : Sym) (v : List (UNT U)) (m : Prog) :
    Only nt s { s with maxRule := AList.insert (nt, P, v) m s.maxRule } := by
  intro nt' hne
  exact ⟨rfl, rfl, rfl, rfl, rfl, fun _ => rfl, fun P' v' => lookup_insert_fst_ne _ _ _ _ _ _ hne⟩
theorem only_setMaxNT (s : St U π) (nt : UNT U) (m : Prog) :
    Only nt s { s with maxNT := AList.insert nt m s.maxNT } := by
  intro nt' hne
  exact ⟨rfl, rfl, rfl, rfl, AList.lookup_insert_ne _ _ hne, fun _ => rfl, fun _ _ => rfl⟩
theorem only_addInit (s : St U π) (nt : UNT U) : Only nt s { s with initS := s.initS ++ [nt] } := by
  intro nt' hne
  refine ⟨rfl, rfl, rfl, ?_, rfl, fun _ => rfl, fun _ _ => rfl⟩
  show (s.initS ++ [nt]).contains nt' = s.initS.contains nt'
  rw [List.contains_eq_mem, List.contains_eq_mem]
  simp [hne]
theorem only_cacheStep {s s' : St U π} (h : CacheStep s s') (nt : UNT U) : Only nt s s' := by
  obtain ⟨c, rfl⟩ := h
  exact fun nt' _ => ⟨rfl, rfl, rfl, rfl, rfl, fun _ => rfl, fun _ _ => rfl⟩
theorem Only.trans {x : UNT U} {s s1 s2 : St U π} (h1 : Only x s s1) (h2 : Only x s1 s2) : Only x s s2 :=
  fun nt hne => (h1 nt hne).trans (h2 nt hne)
theorem Only.refl (x : UNT U) (s : St U π) : Only x s s := fun nt _ => Same.refl s nt

theorem only_pushBoth (E : Env U π) (hk : E.kway = true) (s : St U π) (nt : UNT U) (pr : π) (p : Prog) :
    Only nt s (pushBoth E s nt pr p) := by
  unfold pushBoth
  split
  · exact only_setHeap s nt _
  · exact Only.refl nt s

theorem only_pushStep (E : Env U π) (hk : E.kway = true) {s s3 : St U π} {F args nt v i r}
    (hp : pushStep E s F args nt v i r = some s3) : Only nt s s3 := by
  unfold pushStep at hp
  cases r with
  | none => simp only [Option.some.injEq] at hp; subst hp; exact Only.refl nt s
  | some q =>
    simp only at hp
    split at hp
    · simp only [Option.some.injEq] at hp; subst hp; exact Only.refl nt s
    · split at hp
      · simp at hp
      · rename_i s2' pr hcp
        simp only [Option.some.injEq] at hp; subst hp
        exact (((only_addSeen s nt _).trans (only_setKey _ nt _ v)).trans
          (only_cacheStep (computePrio_step E hcp) nt)).trans (only_pushBoth E hk _ nt pr _)

theorem only_initPush (E : Env U π) (hk : E.kway = true) (nt : UNT U) :
    ∀ (l : List (Sym × List (UNT U))) (s s' : St U π), initPush E s nt l = some s' → Only nt s s' := by
  intro l
  induction l with
  | nil => intro s s' hp; simp only [initPush, Option.some.injEq] at hp; subst hp; exact Only.refl nt s
  | cons a rest ih =>
    intro s s' hp
    obtain ⟨P, v⟩ := a
    simp only [initPush] at hp
    split at hp
    · simp at hp
    · split at hp
      · simp at hp
      · split at hp
        · simp at hp
        · rename_i s1 pr hcp
          split at hp
          · simp at hp
          · exact (((only_addSeen s nt _).trans (only_cacheStep (computePrio_step E hcp) nt)).trans
              (only_pushBoth E hk _ nt pr _)).trans (ih _ _ hp)

/-- the rank below which a call works, and the non-terminal whose tables it writes -/
def Call.bound (rank : UNT U → Nat) : Call U π → Nat
  | .query nt _ => rank nt
  | .lop nt _ => rank nt
  | .popLoop nt _ => rank nt
  | .addSucc _ nt => rank nt
  | .addLoop _ _ nt _ _ => rank nt
  | .initNT nt => rank nt
  | .initRules nt _ _ => rank nt
  | .initAlts nt _ _ _ => rank nt
  | .initArgs v _ => (v.map (fun a => rank a + 1)).foldr max 0
def Call.site : Call U π → Option (UNT U)
  | .query nt _ => some nt
  | .lop nt _ => some nt
  | .popLoop nt _ => some nt
  | .addSucc _ nt => some nt
  | .addLoop _ _ nt _ _ => some nt
  | .initNT nt => some nt
  | .initRules nt _ _ => some nt
  | .initAlts nt _ _ _ => some nt
  | .initArgs _ _ => none

theorem bound_le_of_forall (rank : UNT U → Nat) (v : List (UNT U)) (r : Nat) (h : ∀ a ∈ v, rank a < r) :
    (v.map (fun a => rank a + 1)).foldr max 0 ≤ r := by
  induction v with
  | nil => simp
  | cons a v ih =>
    simp only [List.map_cons, List.foldr_cons]
    have h1 := h a List.mem_cons_self
    have h2 := ih (fun b hb => h b (List.mem_cons_of_mem _ hb))
    omega

/-- **frame**: on an acyclic grammar a call at `S` writes only the tables of `S` and of non-terminals
    of smaller rank -/
theorem big_frame (E : Env U π) (H : GHyp E) (rank : UNT U → Nat) (hac : Acyclic E rank) {c : Call U π}
    {s s' : St U π} {r : Res π} (hb : Big E c s s' r) :
    SInv E s → SPre E c → Frame rank (c.bound rank) c.site s s' := by
  have hk := H.kway
  induction hb with
  | query_direct h hb ih => intro hi _; exact ih hi trivial
  | query_init h h0 hb ih0 ih =>
    intro hi _
    exact (ih0 hi trivial).trans (ih (big_sound E H h0 hi trivial).1 trivial)
  | lop_hit h => intro _ _; exact Frame.refl _ _ _ _
  | lop_miss h hb ih => intro hi _; exact ih hi trivial
  | pop_empty h => intro _ _; exact Frame.refl _ _ _ _
  | @pop_deleted s s1 s' nt key e h' x r h hd ha hb iha ihb =>
    intro hi _
    have h1 : SInv E (s.setHeap nt h') := hi.setHeap_sub _ _ (mem_of_pop _ _ _ _ h).2
    exact (((only_setHeap s nt h').frame _).trans (iha h1 trivial)).trans
      (ihb (big_sound E H ha h1 trivial).1 trivial)
  | @pop_take s s' nt key e h' x h hd ha iha =>
    intro hi _
    obtain ⟨hm, hsub⟩ := mem_of_pop _ _ _ _ h
    have h1 := ((hi.setHeap_sub nt h' hsub).setSucc nt key e.2 (hi.heap_seen _ _ hm)).setPred nt e.2 key
    exact ((((only_setHeap s nt h').trans (only_setSucc _ nt key e.2)).trans (only_setPred _ nt e.2 key)).frame _).trans
      (iha h1 trivial)
  | succ_leaf => intro _ _; exact Frame.refl _ _ _ _
  | succ_fun hk' hb ih => intro hi _; exact ih hi (hi.keys_ok _ _ _ _ hk')
  | loop_done => intro _ _; exact Frame.refl _ _ _ _
  | @loop_step s s1 s3 s' F args nt v i ai si r x hai hsi hq hp hb ihq ihb =>
    intro hi hpre
    have hpre' : KeyOK E nt F args v := hpre
    obtain ⟨w, hw⟩ := hpre'.1
    have hrk : rank si < rank nt := hac nt F v w hw si (List.mem_of_getElem? hsi)
    obtain ⟨hi1, hpost⟩ := big_sound E H hq hi trivial
    have hstep : SInv E s3 := by
      apply hi1.pushStep H F args nt v i r _ s3 hp
      intro q hq'
      exact ⟨hpre'.1, derList_set E args v i q si hpre'.2 hsi (hpost q hq')⟩
    have f1 : Frame rank (rank nt) (some nt) s s1 := (ihq hi trivial).lift (Nat.le_of_lt hrk) hrk
    exact (f1.trans ((only_pushStep E hk hp).frame _)).trans (ihb hstep hpre')
  | init_skip h => intro _ _; exact Frame.refl _ _ _ _
  | @init_run s s1 s3 s' nt rs b r h hrs hr hp hq ihr ihq =>
    intro hi _
    have h0 : SInv E { s with initS := s.initS ++ [nt] } :=
      ⟨hi.cache_ok, hi.heap_prio, hi.heap_seen, hi.seen_der, hi.succ_seen, hi.keys_ok, hi.maxNT_ok, hi.maxRule_ok,
        hi.start_ok⟩
    have hrows : ∀ x ∈ rs, altsOf E nt x.1 = x.2 := by
      intro x hx
      unfold altsOf
      rw [hrs]
      simp only
      rw [AList.lookup_of_mem_nodup (H.rows nt rs hrs) (show (x.1, x.2) ∈ rs from hx)]
      rfl
    have hpre1 : SPre E (.initRules nt rs none) := ⟨hrows, by intro b hb; cases hb⟩
    obtain ⟨h1, hbest⟩ := big_sound E H hr h0 hpre1
    have hbd : Der E b.1 nt := hbest b rfl
    have h2 : SInv E { s1 with maxNT := AList.insert nt b.1 s1.maxNT } := by
      refine ⟨h1.cache_ok, h1.heap_prio, h1.heap_seen, h1.seen_der, h1.succ_seen, h1.keys_ok, ?_, h1.maxRule_ok,
        h1.start_ok⟩
      intro nt' m hl
      rw [AList.lookup_insert] at hl
      split at hl
      · rename_i heq; cases hl; subst heq; exact hbd
      · exact h1.maxNT_ok nt' m hl
    have h3 := SInv.initPush H nt _ h2 hp
    exact (((((only_addInit s nt).frame _).trans (ihr h0 hpre1)).trans ((only_setMaxNT s1 nt b.1).frame _)).trans
      ((only_initPush E hk nt _ _ _ hp).frame _)).trans (ihq h3 trivial)
  | rules_nil => intro _ _; exact Frame.refl _ _ _ _
  | @rules_cons s s1 s' nt P alts rest best best1 best' ha hb iha ihb =>
    intro hi hpre
    have hP : altsOf E nt P = alts := hpre.1 (P, alts) List.mem_cons_self
    have hpreA : SPre E (.initAlts nt P alts best) := ⟨by intro vw hvw; rw [hP]; exact hvw, hpre.2⟩
    obtain ⟨h1, hb1⟩ := big_sound E H ha hi hpreA
    exact (iha hi hpreA).trans (ihb h1 ⟨fun x hx => hpre.1 x (List.mem_cons_of_mem _ hx), hb1⟩)
  | alts_nil => intro _ _; exact Frame.refl _ _ _ _
  | @alts_leaf s s1 s3 nt P v w rest best arguments pr ha hc hv iha =>
    intro hi hpre
    have hm := hpre.1 _ List.mem_cons_self
    have f1 : Frame rank (rank nt) (some nt) s s1 :=
      (iha hi trivial).weaken (bound_le_of_forall rank v _ (hac nt P v w hm))
    exact ((f1.trans ((only_setKey s1 nt _ v).frame _)).trans ((only_cacheStep (computePrio_step E hc) nt).frame _)).trans
      ((only_setMaxRule s3 nt P v _).frame _)
  | @alts_cons s s1 s3 s' nt P v w rest best arguments pr best' ha hc hv hb iha ihb =>
    intro hi hpre
    have hm := hpre.1 _ List.mem_cons_self
    obtain ⟨h1, hargs⟩ := big_sound E H ha hi trivial
    have hl : DerList E arguments v := by simpa using hargs [] trivial
    obtain ⟨h2, hd⟩ := h1.altStep H nt P v w arguments pr hm hl hc
    have f1 : Frame rank (rank nt) (some nt) s s1 :=
      (iha hi trivial).weaken (bound_le_of_forall rank v _ (hac nt P v w hm))
    exact (((f1.trans ((only_setKey s1 nt _ v).frame _)).trans ((only_cacheStep (computePrio_step E hc) nt).frame _)).trans
      ((only_setMaxRule s3 nt P v _).frame _)).trans
      (ihb h2 ⟨fun vw hvw => hpre.1 vw (List.mem_cons_of_mem _ hvw), bestUpd_der E nt best _ pr hpre.2 hd⟩)
  | args_nil => intro _ _; exact Frame.refl _ _ _ _
  | @args_cons s s1 s' si v acc m r0 l hi' hm hb ihi ihb =>
    intro hi _
    have h1 := (big_sound E H hi' hi trivial).1
    have f1 : Frame rank (Call.bound rank (.initArgs (si :: v) acc : Call U π)) none s s1 := by
      apply (ihi hi trivial).lift
      · show rank si ≤ max (rank si + 1) _; omega
      · show rank si < max (rank si + 1) _; omega
    have f2 : Frame rank (Call.bound rank (.initArgs (si :: v) acc : Call U π)) none s1 s' := by
      apply (ihb h1 trivial).weaken
      show _ ≤ max (rank si + 1) _
      exact Nat.le_max_right _ _
    exact f1.trans f2

/-- on an acyclic grammar `__add_successors__(p, S)` does not touch `succ[S]` — provided the state is sound -/
theorem addSucc_succOf (E : Env U π) (H : GHyp E) (rank : UNT U → Nat) (hac : Acyclic E rank) {prog : Prog}
    {nt : UNT U} {s s' : St U π} {x : Res π} (hb : Big E (.addSucc prog nt) s s' x) (hi : SInv E s) :
    s'.succOf nt = s.succOf nt := by
  cases hb with
  | succ_leaf => rfl
  | @succ_fun _ _ F a as _ v x hk' hb' =>
    -- the loop only queries non-terminals of smaller rank and pushes on `heaps[nt]`
    have hko := hi.keys_ok _ _ _ _ hk'
    exact addLoop_succOf E H rank hac hb' hi hko
where
  addLoop_succOf (E : Env U π) (H : GHyp E) (rank : UNT U → Nat) (hac : Acyclic E rank) {F : Sym} {args : List Prog}
      {nt : UNT U} {v : List (UNT U)} {i : Nat} {s s' : St U π} {x : Res π}
      (hb : Big E (.addLoop F args nt v i) s s' x) (hi : SInv E s) (hko : KeyOK E nt F args v) :
      s'.succOf nt = s.succOf nt := by
    have hk := H.kway
    generalize hc : Call.addLoop F args nt v i = c at hb
    induction hb generalizing i with
    | loop_done => rfl
    | @loop_step s s1 s3 s' F' args' nt' v' i' ai si r x hai hsi hq hp hb ihq ihb =>
      cases hc
      obtain ⟨w, hw⟩ := hko.1
      have hrk : rank si < rank nt := hac nt F v w hw si (List.mem_of_getElem? hsi)
      obtain ⟨hi1, hpost⟩ := big_sound E H hq hi trivial
      have hstep : SInv E s3 := by
        apply hi1.pushStep H F args nt v i' r _ s3 hp
        intro q hq'
        exact ⟨hko.1, derList_set E args v i' q si hko.2 hsi (hpost q hq')⟩
      have f1 := big_frame E H rank hac hq hi trivial nt (Nat.le_of_lt hrk)
        (by intro e; cases e; exact Nat.lt_irrefl _ hrk)
      rw [ihb hstep rfl]
      have e3 : s3.succOf nt = s1.succOf nt := pushStep_succOf E hk hp
      rw [e3, f1.succ]
    | _ => cases hc
  pushStep_succOf (E : Env U π) (hk : E.kway = true) {s s3 : St U π} {F args nt v i r}
      (hp : pushStep E s F args nt v i r = some s3) : s3.succOf nt = s.succOf nt := by
    unfold pushStep at hp
    cases r with
    | none => simp only [Option.some.injEq] at hp; subst hp; rfl
    | some q =>
      simp only at hp
      split at hp
      · simp only [Option.some.injEq] at hp; subst hp; rfl
      · split at hp
        · simp at hp
        · rename_i s2' pr hcp
          simp only [Option.some.injEq] at hp; subst hp
          have : (pushBoth E s2' nt pr (Tree.node F (args.set i q))).succOf nt = s2'.succOf nt := by
            unfold pushBoth
            split
            · rfl
            · rfl
          rw [this, (computePrio_step E hcp).succOf]
          rfl

theorem noReent_of_acyclic (E : Env U π) (H : GHyp E) (rank : UNT U → Nat) (hac : Acyclic E rank) : NoReent E :=
  fun _ _ _ _ _ hi hb => addSucc_succOf E H rank hac hb hi

/-- the Boolean check of acyclicity on a literal grammar -/
def acyclicB (G : UG U) (rank : UNT U → Nat) : Bool :=
  G.rules.all (fun r => r.2.all (fun a => a.2.all (fun x => x.1.all (fun y => decide (rank y < rank r.1)))))

theorem acyclic_of_check (E : Env U π) (rank : UNT U → Nat) (h : acyclicB E.G rank = true) : Acyclic E rank := by
  intro nt F v w hm a ha
  unfold altsOf at hm
  cases hl : AList.lookup nt E.G.rules with
  | none => simp [hl] at hm
  | some rs =>
    simp only [hl] at hm
    cases hl2 : AList.lookup F rs with
    | none => simp [hl2] at hm
    | some al =>
      simp only [hl2, Option.getD_some] at hm
      have r1 := List.all_eq_true.mp h (nt, rs) (AList.lookup_some_mem hl)
      have r2 := List.all_eq_true.mp r1 (F, al) (AList.lookup_some_mem hl2)
      have r3 := List.all_eq_true.mp r2 (v, w) hm
      have r4 := List.all_eq_true.mp r3 a ha
      simpa using r4

end PS.UHS
