/- Merge-aware completeness, part 4 (copy of BeapComplStep.lean, see BeapM0.lean). -/
import PS.Proofs.Enum.BeapM3
namespace PS.Beap
open PS PS.G PS.Heapq
set_option linter.unusedSectionVars false
set_option linter.unusedVariables false
variable {S : Type} [DecidableEq S] {F : Prog → Bool}

/-- after `query(A, u)` the cost list of `A` has the entry `u + 1` whenever a clean program of `A` is strictly more
    expensive than entry `u`, and this entry is at most the cost of the program -/
theorem next_okm (E : Env S) (s : St S) (hw : WInvm E F s) (A : NT S Unit) (u : Nat) (e : Cost) (k0 : Prog) (y : Rat)
    (he : (s.clOf A)[u]? = some e) (hcl : clean F k0 = true) (hy : costOf E k0 A = some y) (hlt : e.fin < y)
    (hen : Entered s A u) (hfr : u + 1 = (s.clOf A).length → FRm E F s A) :
    ∃ e', (s.clOf A)[u + 1]? = some e' ∧ e'.fin ≤ y := by
  have hu : u < (s.clOf A).length := (List.getElem?_eq_some_iff.mp he).1
  by_cases hl : u + 1 < (s.clOf A).length
  · refine ⟨(s.clOf A)[u + 1], List.getElem?_eq_getElem hl, ?_⟩
    have he' : (s.clOf A)[u + 1]? = some (s.clOf A)[u + 1] := List.getElem?_eq_getElem hl
    apply Classical.byContradiction
    intro hcon
    have hylt : y < ((s.clOf A)[u + 1]).fin := by grind
    have hne : s.clOf A ≠ [] := by intro h0; rw [h0] at hu; simp at hu
    obtain ⟨L, hlast⟩ : ∃ L, (s.clOf A).getLast? = some L := by
      cases h0 : (s.clOf A).getLast? with
      | none => exact absurd (List.getLast?_eq_none_iff.mp h0) hne
      | some l => exact ⟨l, rfl⟩
    have hle := le_last_of_pairwise _ (hw.o.mono A) L hlast _ (List.getElem_mem hl)
    obtain ⟨j, ej, g1, g2, _⟩ := hw.cr A k0 y L hcl hy hlast (by grind)
    by_cases hju : j ≤ u
    · have := mono_le _ (hw.o.mono A) j u ej e g1 he hju; grind
    · have := mono_le _ (hw.o.mono A) (u + 1) j _ ej he' g1 (by omega); grind
  · exfalso
    have hl' : u + 1 = (s.clOf A).length := by omega
    have hlast := getLast_of_len _ u e he hl'
    obtain ⟨f1, f2⟩ := hfr hl'
    have hlen : (s.clOf A).length - 1 = u := by omega
    cases k0 with
    | node f kids =>
      obtain ⟨rl, hr⟩ := rule_of_cost E A f kids y hy
      rcases f1 f kids y e rl hcl hy hlast (by grind) hr with ⟨g1, _⟩ | ⟨el, g1, _, _⟩
      · grind
      · rw [f2 (by rw [hlen]; exact hen)] at g1; cases g1

/-- a state whose cost lists, banks, `_empties` and `_deleted` are the same -/
theorem EInvm.of_tables {E : Env S} {s s' : St S} (h : EInvm E F s) (hc : ∀ nt, s'.clOf nt = s.clOf nt)
    (hb : ∀ nt, s'.bankOf nt = s.bankOf nt) (he : ∀ nt, s'.emptiesOf nt = s.emptiesOf nt) (hd : s'.deleted = s.deleted) : EInvm E F s' := by
  have hba : ∀ nt ci, s'.bankAt nt ci = s.bankAt nt ci := fun nt ci => by unfold St.bankAt; rw [hb]
  refine ⟨fun nt ci hh => ?_, fun q hq => h.d1 q (by rw [← hd]; exact hq), h.fle, fun nt ci hh => ?_, ?_⟩
  · rw [hba]; exact h.e2 nt ci (by rw [← he]; exact hh)
  · rw [hc]; apply h.be nt ci; unfold Entered at hh ⊢; rw [hb, he] at hh; exact hh
  · intro nt c rest p x hcl hx; rw [hc] at hcl; exact h.lb nt c rest p x hcl hx


end PS.Beap
