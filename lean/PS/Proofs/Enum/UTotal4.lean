/- Heap search on unambiguous, acyclic grammars, termination: `query` returns with fuel
   (rank + 1) · (rows + alternatives + arity + 6). -/
import PS.Proofs.Enum.UTotal3
namespace PS.UHS
open PS PS.G
set_option linter.unusedSectionVars false
variable {U π : Type} [DecidableEq U]
variable {E : Env U π} {rank : UNT U → Nat} {Good : π → Prop}

theorem bestUpd_eq (lt : π → π → Bool) (best : Option (Prog × π)) (prog : Prog) (pr : π) :
    (match best with
      | none => some (prog, pr)
      | some b => if lt pr b.2 = true then some (prog, pr) else some b) = bestUpd lt best prog pr := by
  cases best <;> rfl

theorem initArgs_total (H : OHyp E rank Good) {B r D : Nat} (Lw : Low E rank r B D) :
    ∀ (v : List (UNT U)) (acc : List Prog) (n : Nat) (s : St U π), B + v.length + 1 ≤ n → Base E s → CacheC s →
      OPre E rank (.initArgs v acc) s → (∀ a ∈ v, rank a < r) → (∀ a ∈ v, ∃ rs, AList.lookup a E.G.rules = some rs) →
      ∃ res, initArgs E n s v acc = some res
  | [], acc, n, s, hn, _, _, _, _, _ => by
    cases n with
    | zero => omega
    | succ n => exact ⟨_, rfl⟩
  | si :: v, acc, n, s, hn, hbase, hc, hpre, hrk, hrows => by
    have hk := H.ghyp.kway
    cases n with
    | zero => simp at hn
    | succ n =>
      have hpre' : Below E rank (Call.bound rank (.initArgs (si :: v) acc : Call U π)) s := hpre.1
      have hdel : s.deleted = [] := hpre.2
      have hrk' : rank si < Call.bound rank (.initArgs (si :: v) acc : Call U π) := by
        show rank si < max (rank si + 1) _; omega
      have hbv : ∀ m, Call.bound rank (.initArgs v (acc ++ [m]) : Call U π) ≤
          Call.bound rank (.initArgs (si :: v) acc : Call U π) := by
        intro m
        show _ ≤ max (rank si + 1) _
        exact Nat.le_max_right _ _
      have hipre : OPre E rank (.initNT si) s := ⟨hpre'.mono (Nat.le_of_lt hrk'), hpre' si hrk', fun _ => hdel⟩
      obtain ⟨s1, hs1⟩ := Lw.initNT si (hrk si List.mem_cons_self) (hrows si List.mem_cons_self) n s
        (by simp at hn; omega) hbase hc (by rw [hdel]; simp) hipre
      have hi' := (big_of_run E n).2.2.2.2.1 _ _ _ hs1
      obtain ⟨hbase1, hst1, hfr1, _, _, hkept1⟩ := big_all H hi' hbase trivial trivial
      have hfr1' : Frame rank (rank si) (some si) s s1 := hfr1
      obtain ⟨a1, a2⟩ := big_order H hi' hbase trivial trivial hipre
      have hbel1 := hpre'.merge hfr1' hst1 (fun sj => hkept1 sj (by simp [Call.inner])) a1 a2
      obtain ⟨m, e1, e2⟩ := a2.1.first
      have hc1 := (big_cacheC E hk hi' hc).1
      have hdel1 : s1.deleted = [] := by rw [big_deleted E hi' hk]; exact hdel
      obtain ⟨res, hres⟩ := initArgs_total H Lw v (acc ++ [m]) n s1 (by simp at hn; omega) hbase1 hc1
        ⟨hbel1.mono (hbv m), hdel1⟩ (fun a ha => hrk a (List.mem_cons_of_mem _ ha)) (fun a ha => hrows a (List.mem_cons_of_mem _ ha))
      refine ⟨res, ?_⟩
      simp only [initArgs, hs1, e1]
      exact hres

/-- `compute_priority` of the program of an alternative, right after its arguments were found -/
theorem altPrio_total (H : OHyp E rank Good) {s s1 : St U π} {nt : UNT U} {P : Sym} {v : List (UNT U)} {w : Rat}
    {arguments : List Prog} (hb : Base E s) (hc : CacheC s) (hm : (v, w) ∈ altsOf E nt P)
    (ha : Big E (.initArgs v []) s s1 (.args arguments))
    (hpost : OPost E rank (.initArgs v []) s s1 (.args arguments)) :
    ∃ res, computePrio E { s1 with keys := AList.insert (nt, .node P arguments) v s1.keys } nt (.node P arguments) = some res := by
  obtain ⟨hb1, _, _, _, hargs, _⟩ := big_all H ha hb trivial trivial
  have hl : DerList E arguments v := by simpa using hargs [] trivial
  obtain ⟨_, l', hl', _, hpop⟩ := hpost
  simp only [List.nil_append] at hl'
  subst hl'
  have hc1 := (big_cacheC E H.ghyp.kway ha hc).1
  exact computePrio_total H _ nt P arguments v ⟨⟨w, hm⟩, hl⟩ (AList.lookup_insert_self _ _ _) (by
    intro i ai si hai hsi
    exact hc1 si ai (Popped.seen hb1.sinv ⟨none, hpop i ai si hai hsi⟩))

theorem initAlts_total (H : OHyp E rank Good) {L Al A : Nat} (T : THyp E L Al A) {B D : Nat} {nt : UNT U}
    (Lw : Low E rank (rank nt) B D) (P : Sym) :
    ∀ (alts : List (List (UNT U) × Rat)) (best : Option (Prog × π)) (n : Nat) (s : St U π), B + alts.length + A + 2 ≤ n →
      Base E s → CacheC s → SPre E (.initAlts nt P alts best) → OPre E rank (.initAlts nt P alts best) s →
      ∃ res, initAlts E n s nt P alts best = some res
  | [], best, n, s, hn, _, _, _, _ => by
    cases n with
    | zero => omega
    | succ n => exact ⟨_, rfl⟩
  | (v, w) :: rest, best, n, s, hn, hbase, hc, hspre, hpre => by
    have hk := H.ghyp.kway
    cases n with
    | zero => simp at hn
    | succ n =>
      have hm := hspre.1 _ List.mem_cons_self
      have hA := T.arity nt P v w hm
      have hbound : Call.bound rank (.initArgs v [] : Call U π) ≤ rank nt :=
        bound_le_of_forall rank v _ (H.acyclic nt P v w hm)
      obtain ⟨⟨s1, arguments⟩, hs1⟩ := initArgs_total H Lw v [] n s (by simp at hn; omega) hbase hc
        ⟨hpre.1.mono hbound, hpre.2.2⟩ (H.acyclic nt P v w hm) (T.closed nt P v w hm)
      have ha := (big_of_run E n).2.2.2.2.2.2.2 _ _ _ _ _ hs1
      have hpostA := big_order H ha hbase trivial trivial ⟨hpre.1.mono hbound, hpre.2.2⟩
      obtain ⟨⟨s3, pr⟩, hs3⟩ := altPrio_total H hbase hc hm ha hpostA
      obtain ⟨r1, r2, r3, r4, _⟩ := alt_step H (best := best) hbase hpre.1 hpre.2.1 hm ha hpostA hs3
      have hdel4 : St.deleted { s3 with maxRule := AList.insert (nt, P, v) (.node P arguments) s3.maxRule } = [] := by
        show s3.deleted = []
        have e1 : s3.deleted = s1.deleted := by obtain ⟨c, hc'⟩ := computePrio_step E hs3; rw [hc']
        rw [e1, big_deleted E ha hk]; exact hpre.2.2
      have hc3 : CacheC { s3 with maxRule := AList.insert (nt, P, v) (.node P arguments) s3.maxRule } := by
        have hc1 := (big_cacheC E hk ha hc).1
        obtain ⟨_, hg⟩ := computePrio_cache E hs3
        have hcs := computePrio_step E hs3
        exact hc1.congr (fun nt' => by show s3.seenOf nt' = _; rw [hcs.seenOf]; rfl) hg
      simp only [initAlts, hs1, hs3]
      by_cases hv : v.isEmpty = true
      · simp only [hv, if_true]
        exact ⟨_, rfl⟩
      · simp only [hv, Bool.false_eq_true, if_false]
        have key : ∀ bu, bu = bestUpd E.ops.lt best (.node P arguments) pr →
            ∃ res, initAlts E n { s3 with maxRule := AList.insert (nt, P, v) (.node P arguments) s3.maxRule } nt P rest bu
              = some res := by
          intro bu hbu
          subst hbu
          exact initAlts_total H T Lw P rest _ n _ (by simp at hn; omega) r1 hc3
            ⟨fun vw hvw => hspre.1 vw (List.mem_cons_of_mem _ hvw), bestUpd_der E nt best _ pr hspre.2 r4⟩ ⟨r2, r3, hdel4⟩
        exact key _ (by cases best <;> rfl)

theorem initRules_total (H : OHyp E rank Good) {L Al A : Nat} (T : THyp E L Al A) {B D : Nat} {nt : UNT U}
    (Lw : Low E rank (rank nt) B D) (hAl : ∀ x, x ∈ (AList.lookup nt E.G.rules).getD [] → x.2.length ≤ Al) :
    ∀ (rs : List (Sym × List (List (UNT U) × Rat))) (best : Option (Prog × π)) (n : Nat) (s : St U π),
      (∀ x, x ∈ rs → x ∈ (AList.lookup nt E.G.rules).getD []) → B + rs.length + Al + A + 3 ≤ n →
      Base E s → CacheC s → SPre E (.initRules nt rs best) → OPre E rank (.initRules nt rs best) s →
      ∃ res, initRules E n s nt rs best = some res
  | [], best, n, s, _, hn, _, _, _, _ => by
    cases n with
    | zero => omega
    | succ n => exact ⟨_, rfl⟩
  | (P, alts) :: rest, best, n, s, hsub, hn, hbase, hc, hspre, hpre => by
    have hk := H.ghyp.kway
    cases n with
    | zero => simp at hn
    | succ n =>
      have hP : altsOf E nt P = alts := hspre.1 (P, alts) List.mem_cons_self
      have hpreA : SPre E (.initAlts nt P alts best) := ⟨by intro vw hvw; rw [hP]; exact hvw, hspre.2⟩
      have hal := hAl (P, alts) (hsub _ List.mem_cons_self)
      obtain ⟨⟨s1, best1⟩, hs1⟩ := initAlts_total H T Lw P alts best n s (by simp at hn hal ⊢; omega) hbase hc hpreA hpre
      have ha := (big_of_run E n).2.2.2.2.2.2.1 _ _ _ _ _ _ _ hs1
      obtain ⟨hbase1, _, _, _, hb1, _⟩ := big_all H ha hbase hpreA trivial
      obtain ⟨a1, a2, _⟩ := big_order H ha hbase hpreA trivial hpre
      have hc1 := (big_cacheC E hk ha hc).1
      have hpreR : SPre E (.initRules nt rest best1) := ⟨fun x hx => hspre.1 x (List.mem_cons_of_mem _ hx), hb1⟩
      have hdel1 : s1.deleted = [] := by rw [big_deleted E ha hk]; exact hpre.2.2
      obtain ⟨res, hres⟩ := initRules_total H T Lw hAl rest best1 n s1 (fun x hx => hsub x (List.mem_cons_of_mem _ hx))
        (by simp at hn; omega) hbase1 hc1 hpreR ⟨a1, a2, hdel1⟩
      exact ⟨res, by simp only [initRules, hs1]; exact hres⟩

theorem foldl_push_ne_nil {α : Type} (lt : α → α → Bool) (x : α) (l : List α) :
    (x :: l).foldl (Heapq.push lt) [] ≠ [] := by
  intro h
  have := (Heapq.foldl_push_perm lt (x :: l) []).length_eq
  rw [h] at this
  simp at this

theorem initNT_total (H : OHyp E rank Good) {L Al A : Nat} (T : THyp E L Al A) {B D : Nat} {nt : UNT U}
    (Lw : Low E rank (rank nt) B D) (n : Nat) (s : St U π) (hn : B + L + Al + A + 5 + D ≤ n) (hbase : Base E s) (hc : CacheC s)
    (hpre : OPre E rank (.initNT nt) s) (hrow : ∃ rs, AList.lookup nt E.G.rules = some rs) :
    ∃ s', initNT E n s nt = some s' := by
  have hk := H.ghyp.kway
  cases n with
  | zero => omega
  | succ n =>
    unfold initNT
    by_cases hinit : s.initS.contains nt = true
    · simp only [hinit, if_true]; exact ⟨_, rfl⟩
    · simp only [hinit, Bool.false_eq_true, if_false]
      obtain ⟨rs, hrs⟩ := hrow
      simp only [hrs]
      obtain ⟨h1, h2, h4⟩ := hpre
      have hu : Uninit s nt := by
        rcases h2 with hu | hf
        · exact hu
        · exact absurd hf.1.init hinit
      have hdel : s.deleted = [] := h4 hu.2.2.1
      have hbase0 : Base E { s with initS := s.initS ++ [nt] } :=
        ⟨⟨hbase.sinv.cache_ok, hbase.sinv.heap_prio, hbase.sinv.heap_seen, hbase.sinv.seen_der, hbase.sinv.succ_seen,
          hbase.sinv.keys_ok, hbase.sinv.maxNT_ok, hbase.sinv.maxRule_ok, hbase.sinv.start_ok⟩,
         hbase.ninv.congr (fun _ => rfl) (fun _ => rfl) (fun _ => rfl) rfl, hbase.hinv, hbase.delF⟩
      have hmid0 : Mid { s with initS := s.initS ++ [nt] } nt := by
        refine ⟨?_, hu.2.1, hu.2.2.1, hu.2.2.2⟩
        show (s.initS ++ [nt]).contains nt = true
        simp
      have hbel0 : Below E rank (rank nt) { s with initS := s.initS ++ [nt] } :=
        h1.only (only_addInit s nt) (Stable.refl _) (Nat.le_refl _)
      have hpre1 : SPre E (.initRules nt rs none) := ⟨rows_alts H.ghyp hrs, by intro b hb; cases hb⟩
      have hc0 : CacheC { s with initS := s.initS ++ [nt] } := hc.congr (fun _ => rfl) (CacheGrow.refl _)
      have hL := T.rows_len nt rs hrs
      obtain ⟨⟨s1, best⟩, hs1⟩ := initRules_total H T Lw (by rw [hrs]; exact T.alts_len nt rs hrs) rs none n _
        (by rw [hrs]; exact fun x hx => hx) (by omega) hbase0 hc0 hpre1 ⟨hbel0, hmid0, hdel⟩
      have hr := (big_of_run E n).2.2.2.2.2.1 _ _ _ _ _ _ hs1
      obtain ⟨hbase1, hst1, _, _, hbest, _⟩ := big_all H hr hbase0 hpre1 trivial
      obtain ⟨a1, a2, a3⟩ := big_order H hr hbase0 hpre1 trivial ⟨hbel0, hmid0, hdel⟩
      obtain ⟨items, hph⟩ := a3 [] [] (phase1_nil E _ nt) (by rw [List.nil_append]; exact H.flat_nodup nt rs hrs)
      simp only [List.nil_append] at hph
      have hc1 := (big_cacheC E hk hr hc0).1
      -- `assert best_program`
      obtain ⟨b, hb⟩ : ∃ b, best = some b := by
        have hne := T.nonempty nt rs hrs
        have hlen := Items.length_eq hph.ok
        cases items with
        | nil => simp at hlen; exact absurd hlen hne
        | cons it items =>
          have hroot := hph.root
          cases hh : ((it :: items).foldl (Heapq.push (ltE E.ops)) []).head? with
          | none =>
            rw [List.head?_eq_none_iff] at hh
            exact absurd hh (foldl_push_ne_nil _ _ _)
          | some x =>
            rw [hh] at hroot
            cases best with
            | none => simp at hroot
            | some b => exact ⟨b, rfl⟩
      subst hb
      simp only [hs1]
      have hbd : Der E b.1 nt := hbest b rfl
      have hbase2 : Base E { s1 with maxNT := AList.insert nt b.1 s1.maxNT } := by
        refine ⟨⟨hbase1.sinv.cache_ok, hbase1.sinv.heap_prio, hbase1.sinv.heap_seen, hbase1.sinv.seen_der,
          hbase1.sinv.succ_seen, hbase1.sinv.keys_ok, ?_, hbase1.sinv.maxRule_ok, hbase1.sinv.start_ok⟩,
          hbase1.ninv.congr (fun _ => rfl) (fun _ => rfl) (fun _ => rfl) rfl, hbase1.hinv, hbase1.delF⟩
        intro nt' m hl
        rw [AList.lookup_insert] at hl
        split at hl
        · rename_i heq; cases hl; subst heq; exact hbd
        · exact hbase1.sinv.maxNT_ok nt' m hl
      have hit2 : Items (ItemOK E { s1 with maxNT := AList.insert nt b.1 s1.maxNT } nt) (flatOf rs) items :=
        Items.mono (fun d it _ h => h) hph.ok
      have hc2 : CacheC { s1 with maxNT := AList.insert nt b.1 s1.maxNT } := hc1.congr (fun _ => rfl) (CacheGrow.refl _)
      obtain ⟨s3, hs3⟩ := initPush_total H nt (flatOf rs) items _ hit2 hbase2 hc2
        (by
          intro it _
          show it.2 ∉ s1.seenOf nt
          rw [a2.2.2.2]; simp)
        (items_progs_nodup H _ _ hph.ok (H.flat_nodup nt rs hrs))
      have hs3' : initPush E { s1 with maxNT := AList.insert nt b.1 s1.maxNT } nt
          (rs.flatMap fun r => r.2.map fun vw => (r.1, vw.1)) = some s3 := hs3
      simp only [hs3']
      obtain ⟨hbase3, hn3, ho3, hst3, hdel3⟩ := ntinv_after_initPush H a2 hph hs3 hbase2 (mem_flatOf_of_alts hrs)
      have hdel3' : s3.deleted = [] := by
        rw [hdel3]
        show s1.deleted = []
        rw [big_deleted E hr hk]; exact hdel
      have hbel3 : Below E rank (rank nt) s3 := a1.only ho3 hst3 (Nat.le_refl _)
      have hc3 := (CacheC.initPush E hk nt _ hc2 hs3).1
      obtain ⟨res, hres⟩ := queryInited_total H T Lw n s3 none (by omega) hbase3 hc3 (by rw [hdel3']; simp) hn3.1.init
        ⟨hbel3, Or.inr hn3, (by intro k hk'; cases hk'), fun _ => hdel3'⟩
      rw [hres]
      exact ⟨_, rfl⟩

theorem Low.mono {B D r r' : Nat} (h : Low E rank r B D) (hr : r' ≤ r) : Low E rank r' B D :=
  ⟨fun si hsi => h.query si (by omega), fun si hsi => h.initNT si (by omega)⟩

/-- **every `query` and every `__init_non_terminal__` returns** with fuel (rank + 1) · (L + Al + A + 6 + D), `D` a bound
    of the number of rejected programs (`D = 0` without filter) -/
theorem low_all (H : OHyp E rank Good) {L Al A : Nat} (T : THyp E L Al A) (D : Nat) :
    ∀ r, Low E rank r (r * (L + Al + A + 6 + D)) D := by
  intro r
  induction r with
  | zero => exact ⟨fun si hsi => by omega, fun si hsi => by omega⟩
  | succ r ih =>
    have hmul : (r + 1) * (L + Al + A + 6 + D) = r * (L + Al + A + 6 + D) + (L + Al + A + 6 + D) := Nat.succ_mul _ _
    refine ⟨?_, ?_⟩
    · intro si hsi hrow n s p hn hbase hc hD hpre
      have Lw : Low E rank (rank si) (r * (L + Al + A + 6 + D)) D := ih.mono (by omega)
      by_cases hinit : s.initS.contains si = true
      · exact queryInited_total H T Lw n s p (by omega) hbase hc hD hinit hpre
      · cases n with
        | zero => omega
        | succ n =>
          obtain ⟨h1, h2, h3, h4⟩ := hpre
          have hu : Uninit s si := by
            rcases h2 with hu | hn2
            · exact hu
            · exact absurd hn2.1.init hinit
          have hipre : OPre E rank (.initNT si) s := ⟨h1, Or.inl hu, h4⟩
          obtain ⟨s1, hs1⟩ := initNT_total H T Lw n s (by omega) hbase hc hipre hrow
          have hi' := (big_of_run E n).2.2.2.2.1 _ _ _ hs1
          obtain ⟨hbase1, hst1, _, _, _, _⟩ := big_all H hi' hbase trivial trivial
          obtain ⟨a1, a2⟩ := big_order H hi' hbase trivial trivial hipre
          have hc1 := (big_cacheC E H.ghyp.kway hi' hc).1
          have hD1 : s1.deleted.length ≤ D := by rw [big_deleted E hi' H.ghyp.kway]; exact hD
          unfold query
          simp only [hinit, Bool.false_eq_true, if_false, hs1]
          cases hl : AList.lookup p (s1.succOf si) with
          | some q => exact ⟨_, rfl⟩
          | none =>
            simp only
            exact popLoop_total H T Lw D n s1 p (Nat.le_trans (undone_le s1 si) hD1) (by omega) hbase1 hc1 hD1 hl
              ⟨a1, ⟨a2.1, a2.2.2⟩, fun k hk' => (h3 k hk').mono hst1, fun e0 => absurd e0 a2.2.1⟩
    · intro si hsi hrow n s hn hbase hc _ hpre
      have Lw : Low E rank (rank si) (r * (L + Al + A + 6 + D)) D := ih.mono (by omega)
      exact initNT_total H T Lw n s (by omega) hbase hc hpre hrow

end PS.UHS
