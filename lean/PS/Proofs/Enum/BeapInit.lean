/- The minimal costs computed by `_init_non_terminal_` / `_reevaluate_` (beap_search.py:79-119), part 1:
   every cost stored in a cost list or a queue during the prologue is either still a placeholder
   (`inf > 0`) or the cost of an actual program derivable from its non-terminal (`MInv`). -/
import PS.Proofs.Enum.BeapSoundRun
namespace PS.Beap
open PS PS.G
set_option linter.unusedSectionVars false
variable {S : Type} [DecidableEq S]

namespace Cost
@[simp] theorem add_inf (a b : Cost) : (a + b).inf = a.inf + b.inf := rfl
theorem add_fin (a b : Cost) (h : a.inf + b.inf = 0) : (a + b).fin = a.fin + b.fin := by
  show (if a.inf + b.inf = 0 then a.fin + b.fin else 0) = _
  simp [h]
@[simp] theorem ofRat_inf (r : Rat) : (ofRat r).inf = 0 := rfl
@[simp] theorem ofRat_fin (r : Rat) : (ofRat r).fin = r := rfl
end Cost

/-- the cost value `c` is either a placeholder or the cost of a program derivable from `nt` -/
def Att (E : Env S) (nt : NT S Unit) (c : Cost) : Prop :=
  0 ≤ c.inf ∧ (c.inf = 0 → ∃ t, gen E.G t nt = true ∧ costOf E t nt = some c.fin)

/-- `c` = `w` + the costs of programs for the argument non-terminals `done` (or a placeholder) -/
def AttArgs (E : Env S) (w : Rat) (done : List (Ty × S)) (c : Cost) : Prop :=
  0 ≤ c.inf ∧ (c.inf = 0 → ∃ kids x, genList E.G kids done = true ∧ costOfList E kids done = some x ∧ c.fin = w + x)

theorem genList_snoc (G : TT S Unit) (t : Prog) (a : Ty × S) : ∀ (ks : List Prog) (as : List (Ty × S)),
    genList G ks as = true → gen G t (ntOf a) = true → genList G (ks ++ [t]) (as ++ [a]) = true
  | [], [], _, ht => by
    obtain ⟨x, y⟩ := a
    simp only [List.nil_append, genList, Bool.and_true]; exact ht
  | [], _ :: _, h, _ => by simp [genList] at h
  | _ :: _, [], h, _ => by simp [genList] at h
  | k :: ks, (x, y) :: as, h, ht => by
    simp only [genList, Bool.and_eq_true] at h
    simp only [List.cons_append, genList, Bool.and_eq_true]
    exact ⟨h.1, genList_snoc G t a ks as h.2 ht⟩

theorem costOfList_snoc (E : Env S) (t : Prog) (a : Ty × S) (y : Rat) (ht : costOf E t (ntOf a) = some y) :
    ∀ (ks : List Prog) (as : List (Ty × S)) (x : Rat), costOfList E ks as = some x →
      costOfList E (ks ++ [t]) (as ++ [a]) = some (x + y)
  | [], [], x, h => by
    simp only [costOfList, Option.some.injEq] at h
    subst h
    simp only [List.nil_append, costOfList, ht]
    congr 1
    simp [Rat.add_comm]
  | [], _ :: _, _, h => by simp [costOfList] at h
  | _ :: _, [], _, h => by simp [costOfList] at h
  | k :: ks, a' :: as, x, h => by
    simp only [costOfList] at h
    split at h
    · next c d hc hd =>
      cases h
      simp only [List.cons_append, costOfList, hc, costOfList_snoc E t a y ht ks as d hd]
      congr 1
      exact (Rat.add_assoc c d y).symm
    · cases h

theorem attArgs_nil (E : Env S) (w : Rat) : AttArgs E w [] (Cost.ofRat w) :=
  ⟨by simp, fun _ => ⟨[], 0, by simp [genList], by simp [costOfList], by simp [Rat.add_zero]⟩⟩

theorem attArgs_step (E : Env S) (w : Rat) (done : List (Ty × S)) (a : Ty × S) (c c0 : Cost)
    (h : AttArgs E w done c) (h0 : Att E (ntOf a) c0) : AttArgs E w (done ++ [a]) (c + c0) := by
  refine ⟨by simp only [Cost.add_inf]; exact Int.add_nonneg h.1 h0.1, fun hz => ?_⟩
  simp only [Cost.add_inf] at hz
  have h1 : c.inf = 0 := by have := h.1; have := h0.1; omega
  have h2 : c0.inf = 0 := by have := h.1; have := h0.1; omega
  obtain ⟨kids, x, g1, g2, g3⟩ := h.2 h1
  obtain ⟨t, t1, t2⟩ := h0.2 h2
  refine ⟨kids ++ [t], x + c0.fin, genList_snoc E.G t a kids done g1 t1, costOfList_snoc E t a c0.fin t2 kids done x g2, ?_⟩
  rw [Cost.add_fin c c0 (by omega), g3, Rat.add_assoc]

theorem att_of_attArgs (E : Env S) (nt : NT S Unit) (P : Sym) (rl : List (Ty × S) × Unit) (w : Rat)
    (hr : E.G.rule? nt P = some rl) (hw : ruleW E nt P = some w) (c : Cost) (h : AttArgs E w rl.1 c) : Att E nt c := by
  refine ⟨h.1, fun hz => ?_⟩
  obtain ⟨kids, x, g1, g2, g3⟩ := h.2 hz
  refine ⟨.node P kids, ?_, ?_⟩
  · rw [gen_node E.G P kids nt rl hr]; exact g1
  · obtain ⟨args, u⟩ := rl
    simp only [costOf, hr, hw, g2, g3]

structure MInv (E : Env S) (s : St S) : Prop where
  cl : ∀ nt c rest, s.clOf nt = c :: rest → Att E nt c
  queue : ∀ nt el, el ∈ s.queueOf nt → Att E nt el.cost

theorem MInv.setQueue {E : Env S} {s : St S} (h : MInv E s) (nt : NT S Unit) (q : List HeapEl)
    (hq : ∀ el ∈ q, Att E nt el.cost) : MInv E (s.setQueue nt q) := by
  refine ⟨fun nt' c rest hc => h.cl nt' c rest (by simpa using hc), fun nt' el he => ?_⟩
  rw [St.queueOf_setQueue] at he
  split at he
  · next heq => subst heq; exact hq el he
  · exact h.queue nt' el he

theorem MInv.setCL {E : Env S} {s : St S} (h : MInv E s) (nt : NT S Unit) (cl : List Cost)
    (hc : ∀ c rest, cl = c :: rest → Att E nt c) : MInv E (s.setCL nt cl) := by
  refine ⟨fun nt' c rest hc' => ?_, fun nt' el he => h.queue nt' el (by simpa using he)⟩
  rw [St.clOf_setCL] at hc'
  split at hc'
  · next heq => subst heq; exact hc c rest hc'
  · exact h.cl nt' c rest hc'

theorem minv_empty (E : Env S) : MInv E (St.empty E.G) := by
  refine ⟨fun nt c rest hc => ?_, fun nt el he => ?_⟩
  · have : (St.empty E.G).clOf nt = [] := lookup_map_nil E.G.rules nt
    rw [this] at hc; cases hc
  · have : (St.empty E.G).queueOf nt = [] := lookup_map_nil E.G.rules nt
    rw [this] at he; cases he

/-! ### `_init_non_terminal_` -/
def INM (E : Env S) (n : Nat) : Prop := ∀ s nt s', MInv E s → initNT E n s nt = some s' → MInv E s'
def IRM (E : Env S) (n : Nat) : Prop :=
  ∀ s nt rest s', MInv E s → (∀ P rl, (P, rl) ∈ rest → E.G.rule? nt P = some rl) → initRules E n s nt rest = some s' → MInv E s'
def IAM (E : Env S) (n : Nat) : Prop :=
  ∀ s as c w done r, MInv E s → AttArgs E w done c → initArgs E n s as c = some r → MInv E r.1 ∧ AttArgs E w (done ++ as) r.2

theorem inm_step (E : Env S) (hnd : RowsNodup E.G) (n : Nat) (ihIR : IRM E n) : INM E (n + 1) := by
  intro s nt s' hs h
  unfold initNT at h
  split at h
  · cases h
  · next cl hcl =>
    split at h
    · cases h; exact hs
    · next hlen =>
      have hnil : cl = [] := by
        cases cl with
        | nil => rfl
        | cons x xs => simp at hlen
      subst hnil
      split at h
      · cases h
      · next rs hrs =>
        split at h
        · cases h
        · next s1 hir =>
          have hs0 : MInv E (s.setCL nt ([] ++ [Cost.big])) := hs.setCL nt _ (fun c rest hc => by
            simp only [List.nil_append, List.cons.injEq] at hc
            obtain ⟨rfl, _⟩ := hc
            exact ⟨by decide, fun hz => by simp [Cost.big] at hz⟩)
          have hs1 := ihIR _ _ _ _ hs0 (fun P rl hm => by
            unfold TT.rule?; rw [hrs]; exact AList.lookup_of_mem_nodup (hnd nt rs hrs) hm) hir
          split at h
          · cases h
          · next e q hq =>
            cases h
            refine hs1.setCL nt _ (fun c rest hc => ?_)
            have he : Att E nt e.cost := hs1.queue nt e (by rw [hq]; exact List.mem_cons_self ..)
            cases hcl1 : s1.clOf nt with
            | nil => rw [hcl1] at hc; simp at hc
            | cons x xs =>
              rw [hcl1] at hc
              simp only [List.set_cons_zero, List.cons.injEq] at hc
              obtain ⟨rfl, _⟩ := hc
              exact he

theorem irm_step (E : Env S) (n : Nat) (ihIR : IRM E n) (ihIA : IAM E n) : IRM E (n + 1) := by
  intro s nt rest s' hs hrest h
  cases rest with
  | nil => simp only [initRules] at h; cases h; exact hs
  | cons pr rest =>
    obtain ⟨P, rl⟩ := pr
    simp only [initRules] at h
    split at h
    · cases h
    · next w hw =>
      split at h
      · cases h
      · next s1 cost hia =>
        obtain ⟨hs1, hatt⟩ := ihIA _ _ _ w [] _ hs (attArgs_nil E w) hia
        simp only [List.nil_append] at hatt
        have hr : E.G.rule? nt P = some rl := hrest P rl (List.mem_cons_self ..)
        refine ihIR _ _ _ _ (hs1.setQueue nt _ (fun el he => ?_)) (fun P' rl' hm => hrest P' rl' (List.mem_cons_of_mem _ hm)) h
        rcases (mem_push _ _ _ _).mp he with h' | h'
        · subst h'; exact att_of_attArgs E nt P rl w hr hw _ hatt
        · exact hs1.queue nt el h'

theorem iam_step (E : Env S) (n : Nat) (ihIN : INM E n) (ihIA : IAM E n) : IAM E (n + 1) := by
  intro s as c w done r hs hc h
  cases as with
  | nil => simp only [initArgs] at h; cases h; simpa using ⟨hs, hc⟩
  | cons a as =>
    simp only [initArgs] at h
    split at h
    · cases h
    · next s1 hin =>
      have hs1 := ihIN _ _ _ hs hin
      split at h
      · cases h
      · next c0 rest0 hcl =>
        obtain ⟨g1, g2⟩ := ihIA _ _ _ w (done ++ [a]) _ hs1 (attArgs_step E w done a c c0 hc (hs1.cl _ c0 rest0 hcl)) h
        exact ⟨g1, by simpa using g2⟩

theorem init_minv (E : Env S) (hnd : RowsNodup E.G) : ∀ n, INM E n ∧ IRM E n ∧ IAM E n := by
  intro n
  induction n with
  | zero =>
    refine ⟨?_, ?_, ?_⟩
    · intro s nt s' _ h; simp [initNT] at h
    · intro s nt rest s' _ _ h; simp [initRules] at h
    · intro s as c w done r _ _ h; simp [initArgs] at h
  | succ n ih =>
    obtain ⟨a, b, c⟩ := ih
    exact ⟨inm_step E hnd n b, irm_step E n b c, iam_step E n a c⟩

/-! ### `_reevaluate_` -/
theorem sumFirst_att (E : Env S) (s : St S) (hs : MInv E s) : ∀ (as : List (Ty × S)) (done : List (Ty × S)) (acc c : Cost),
    AttArgs E 0 done acc → sumFirst s as acc = some c → AttArgs E 0 (done ++ as) c := by
  intro as
  induction as with
  | nil => intro done acc c ha h; simp only [sumFirst] at h; cases h; simpa using ha
  | cons a as ih =>
    intro done acc c ha h
    simp only [sumFirst] at h
    split at h
    · cases h
    · next c0 rest0 hcl =>
      have := ih (done ++ [a]) _ c (attArgs_step E 0 done a acc c0 ha (hs.cl _ c0 rest0 hcl)) h
      simpa using this

theorem recost_att (E : Env S) (s : St S) (hs : MInv E s) (nt : NT S Unit) (el el' : HeapEl)
    (h : recost E s nt el = some el') : Att E nt el'.cost := by
  unfold recost at h
  split at h
  · next w rl hw hr =>
    split at h
    · cases h
    · next c hc =>
      cases h
      have h0 := sumFirst_att E s hs rl.1 [] (Cost.ofRat 0) c (attArgs_nil E 0) hc
      simp only [List.nil_append] at h0
      refine att_of_attArgs E nt el.P rl w hr hw _ ⟨?_, fun hz => ?_⟩
      · simp only [Cost.add_inf, Cost.ofRat_inf, Int.zero_add]; exact h0.1
      · simp only [Cost.add_inf, Cost.ofRat_inf, Int.zero_add] at hz
        obtain ⟨kids, x, g1, g2, g3⟩ := h0.2 hz
        refine ⟨kids, x, g1, g2, ?_⟩
        rw [Cost.add_fin _ _ (by simp [hz]), g3]
        simp [Rat.zero_add]
  · cases h

theorem reevalPass_minv (E : Env S) : ∀ (nts : List (NT S Unit)) (s : St S) (ch : Bool) (r : St S × Bool),
    MInv E s → reevalPass E nts s ch = some r → MInv E r.1 := by
  intro nts
  induction nts with
  | nil => intro s ch r hs h; simp only [reevalPass] at h; cases h; exact hs
  | cons nt rest ih =>
    intro s ch r hs h
    simp only [reevalPass] at h
    split at h
    · cases h
    · next nq hnq =>
      split at h
      · split at h
        · next e q' c0 cl' hh hcl =>
          have hall : ∀ el ∈ e :: q', Att E nt el.cost := by
            intro el he
            have hmem : el ∈ nq := by
              have := (heapify_perm ltE nq).mem_iff (a := el)
              rw [hh] at this; exact this.mp he
            obtain ⟨x, hx, hf⟩ := mapOpt_mem _ _ _ hnq el hmem
            exact recost_att E s hs nt x el hf
          refine ih _ _ _ ((hs.setQueue nt _ hall).setCL nt _ (fun c rest hc => ?_)) h
          simp only [List.cons.injEq] at hc
          obtain ⟨rfl, _⟩ := hc
          exact hall e (List.mem_cons_self ..)
        · cases h
      · exact ih _ _ _ hs h

theorem reevalLoop_minv (E : Env S) : ∀ (k : Nat) (s s' : St S), MInv E s → reevalLoop E k s = some s' → MInv E s' := by
  intro k
  induction k with
  | zero => intro s s' _ h; simp [reevalLoop] at h
  | succ k ih =>
    intro s s' hs h
    simp only [reevalLoop] at h
    split at h
    · cases h
    · next s1 hp => exact ih _ _ (reevalPass_minv E _ _ _ _ hs hp) h
    · next s1 hp => cases h; exact reevalPass_minv E _ _ _ _ hs hp

theorem prologue_minv (E : Env S) (hnd : RowsNodup E.G) (fuel : Nat) (s s' : St S) (hs : MInv E s)
    (h : prologue E fuel s = some s') : MInv E s' := by
  unfold prologue at h
  split at h
  · cases h
  · next s1 hin =>
    have hs1 := (init_minv E hnd fuel).1 _ _ _ hs hin
    unfold reevaluate at h
    split at h
    · exact reevalLoop_minv E _ _ _ hs1 h
    · cases h; exact hs1

end PS.Beap
