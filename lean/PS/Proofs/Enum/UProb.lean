/- Heap search on unambiguous grammars: the priority of heap search (`probOps`) is the weight of a
   derivation of the specification (PS/Model/Prob.lean: `U.derWeightU`), and on an unambiguous grammar
   the key of the start heap is the probability `U.probU` of the program. -/
import PS.Proofs.UMass
import PS.Proofs.Enum.UBridge
import PS.Proofs.Enum.UOrderCheck
namespace PS.UHS
open PS PS.G
set_option linter.unusedSectionVars false
variable {U : Type} [DecidableEq U]

/-- the weights of the table as the `tags` / `start_tags` of the specification -/
def UG.toTags (G : UG U) : PS.U.UTags U := { tags := G.rules, startTags := G.starts }

theorem lookup_of_mem_keys {κ ν : Type} [DecidableEq κ] : ∀ (l : AList κ ν) (k : κ) (v : ν),
    (l.map (·.1)).Nodup → (k, v) ∈ l → AList.lookup k l = some v :=
  fun _ _ _ hnd hm => AList.lookup_of_mem_nodup hnd hm

theorem weightU_alt (E : Env U Rat) (hkeys : ∀ nt F, ((altsOf E nt F).map (·.1)).Nodup) (nt : UNT U) (F : Sym)
    (v : List (UNT U)) (w : Rat) (hm : (v, w) ∈ altsOf E nt F) : PS.U.weightU E.G.toTags (nt, F, v) = w := by
  have hnd := hkeys nt F
  unfold altsOf at hm hnd
  unfold PS.U.weightU PS.U.tagOfU UG.toTags
  simp only
  cases hl : AList.lookup nt E.G.rules with
  | none => simp [hl] at hm
  | some rs =>
    simp only [hl] at hm hnd ⊢
    cases hl2 : AList.lookup F rs with
    | none => simp [hl2] at hm
    | some a =>
      simp only [hl2, Option.getD_some] at hm hnd ⊢
      rw [lookup_of_mem_keys a v w hnd hm]
      rfl

mutual
  /-- the priority of heap search is the weight of a derivation -/
  theorem hasPrio_derWeight (E : Env U Rat) (t : Rat) (hops : E.ops = probOps t)
      (hkeys : ∀ nt F, ((altsOf E nt F).map (·.1)).Nodup) (d0 : UNT U) :
      ∀ (p : Prog) (nt : UNT U) (pr : Rat), HasPrio E p nt pr →
        ∃ d, d ∈ PS.U.derivs (E.G.toUCFG d0) p nt ∧ pr = PS.U.derWeightU E.G.toTags d
    | .node F kids, nt, pr, h => by
      rw [hasPrio_node] at h
      obtain ⟨v, w, hm, hl⟩ := h
      have hof : E.ops.ofRule w = w := by rw [hops]; rfl
      rw [hof] at hl
      obtain ⟨r, hr, hpr⟩ := hasPrioList_derWeight E t hops hkeys d0 kids v w pr hl
      obtain ⟨cands, hc, hv⟩ := (mem_alts_iff E d0 nt F v).mpr ⟨w, hm⟩
      refine ⟨(nt, F, v) :: r, ?_, ?_⟩
      · rw [PS.U.derivs, hc]
        exact List.mem_flatMap.mpr ⟨v, hv, List.mem_map.mpr ⟨r, hr, rfl⟩⟩
      · rw [PS.U.Mass.derWeightU_cons, weightU_alt E hkeys nt F v w hm]
        exact hpr
  theorem hasPrioList_derWeight (E : Env U Rat) (t : Rat) (hops : E.ops = probOps t)
      (hkeys : ∀ nt F, ((altsOf E nt F).map (·.1)).Nodup) (d0 : UNT U) :
      ∀ (ks : List Prog) (v : List (UNT U)) (acc pr : Rat), HasPrioList E ks v acc pr →
        ∃ r, r ∈ PS.U.derivsList (E.G.toUCFG d0) ks v ∧ pr = acc * PS.U.derWeightU E.G.toTags r
    | [], [], acc, pr, h => by
      rw [HasPrioList] at h
      exact ⟨[], by simp [PS.U.derivsList], by rw [h]; simp [PS.U.derWeightU, Rat.mul_one]⟩
    | [], _ :: _, _, _, h => by simp [HasPrioList] at h
    | _ :: _, [], _, _, h => by simp [HasPrioList] at h
    | k :: ks, a :: as, acc, pr, h => by
      rw [HasPrioList] at h
      obtain ⟨pk, h1, h2⟩ := h
      have hcomb : E.ops.combine acc pk = acc * pk := by rw [hops]; rfl
      rw [hcomb] at h2
      obtain ⟨dk, hdk, hpk⟩ := hasPrio_derWeight E t hops hkeys d0 k a pk h1
      obtain ⟨r, hr, hpr⟩ := hasPrioList_derWeight E t hops hkeys d0 ks as (acc * pk) pr h2
      refine ⟨dk ++ r, ?_, ?_⟩
      · rw [PS.U.derivsList]
        exact List.mem_flatMap.mpr ⟨dk, hdk, List.mem_map.mpr ⟨r, hr, rfl⟩⟩
      · rw [PS.U.Mass.derWeightU_append, hpr, hpk, Rat.mul_assoc]
end

/-- on an unambiguous grammar, `start weight × priority from the start symbol` is the probability of the
    specification -/
theorem startKey_probU (E : Env U Rat) (t : Rat) (hops : E.ops = probOps t)
    (hkeys : ∀ nt F, ((altsOf E nt F).map (·.1)).Nodup) (d0 : UNT U) (p : Prog)
    (hun : PS.U.unambiguousOn (E.G.toUCFG d0) p = true) (nt : UNT U) (w pr : Rat) (hw : startW E nt = some w)
    (hpr : HasPrio E p nt pr) : PS.U.probU (E.G.toUCFG d0) E.G.toTags p = pr * w := by
  obtain ⟨d, hd, hprd⟩ := hasPrio_derWeight E t hops hkeys d0 p nt pr hpr
  have hmem : (nt, d) ∈ PS.U.allDerivs (E.G.toUCFG d0) p := by
    unfold PS.U.allDerivs
    exact List.mem_flatMap.mpr ⟨nt, (startW_some_iff E nt).mp ⟨w, hw⟩, List.mem_map.mpr ⟨d, hd, rfl⟩⟩
  unfold PS.U.unambiguousOn at hun
  simp only [decide_eq_true_eq] at hun
  unfold PS.U.probU
  cases hall : PS.U.allDerivs (E.G.toUCFG d0) p with
  | nil => rw [hall] at hmem; cases hmem
  | cons x rest =>
    rw [hall] at hmem hun
    have hrest : rest = [] := by
      cases rest with
      | nil => rfl
      | cons _ _ => simp at hun
    subst hrest
    simp only [List.mem_singleton] at hmem
    subst hmem
    simp only
    have hsw : PS.U.startWeight E.G.toTags nt = w := by
      unfold PS.U.startWeight UG.toTags
      simp only
      unfold startW at hw
      rw [hw]; rfl
    rw [hsw, hprd, Rat.mul_comm]

end PS.UHS
