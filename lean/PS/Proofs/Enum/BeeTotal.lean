/- Bee search, NO EXCEPTION: validity of the indices of queued / delayed combinations, and totality of `step`
   (every Python operation of one control-point-to-control-point stretch succeeds). -/
import PS.Proofs.Enum.BeeStrict
namespace PS.Bee
open PS PS.G PS.Heapq

variable {S : Type} [DecidableEq S]
set_option linter.unusedSectionVars false
set_option linter.unusedSimpArgs false

/-- every index of a queued combination exists in the cost list -/
def QV (cl : List Int) : NT S Unit → HeapElem → Prop := fun _ e => ∀ (j v : Nat), e.combo[j]? = some v → v < cl.length
/-- every index of a delayed combination other than the checked one exists in the cost list -/
def DV (cl : List Int) : NT S Unit → Delayed → Prop := fun _ d =>
  ∀ i, d.2.2 = some i → ∀ (j v : Nat), j ≠ i → d.1[j]? = some v → v < cl.length

def Closed (E : Env S) : Prop :=
  ∀ nt P args, ruleArgs E nt P = some args → ∀ a ∈ args, (a.1, (a.2, ())) ∈ AList.keys E.G.rules

theorem closed_of_check (E : Env S) (h : closedOK E = true) : Closed E := by
  intro nt P args ha a hm
  unfold ruleArgs TT.rule? at ha
  cases hl : AList.lookup nt E.G.rules with
  | none => simp [hl] at ha
  | some rs =>
    simp only [hl] at ha
    cases hr : AList.lookup P rs with
    | none => simp [hr] at ha
    | some rl =>
      simp only [hr, Option.map_some, Option.some.injEq] at ha
      subst ha
      unfold closedOK at h
      have h1 := List.all_eq_true.mp h _ (AList.lookup_some_mem hl)
      have h2 := List.all_eq_true.mp h1 _ (AList.lookup_some_mem hr)
      have h3 := List.all_eq_true.mp h2 _ hm
      simpa using h3

structure VSt (E : Env S) (s : St S) : Prop where
  qv : QAll (QV s.costList) s
  dv : DAll (DV s.costList) s
  bk : ∀ nt, nt ∈ AList.keys E.G.rules → (AList.lookup nt s.bank).isSome = true

theorem realCostLoop_total (cl : List Int) (idx : List Nat) :
    ∀ (k i : Nat) (out : Int), (∀ j, i ≤ j → j < i + k → ∃ v, idx[j]? = some v ∧ v < cl.length) →
      ∃ c, realCostLoop cl idx i k out = some c := by
  intro k
  induction k with
  | zero => intro i out _; exact ⟨out, rfl⟩
  | succ k ih =>
    intro i out h
    obtain ⟨v, hv, hvl⟩ := h i (Nat.le_refl _) (by omega)
    simp only [realCostLoop, hv, List.getElem?_eq_getElem hvl]
    exact ih (i + 1) _ (fun j h1 h2 => h j (by omega) (by omega))

theorem realCost_total (E : Env S) (hcosts : HasCosts E) (cl : List Int) (nt : NT S Unit) (P : Sym) (args : List (Ty × S))
    (ha : ruleArgs E nt P = some args) (idx : List Nat) (hlen : idx.length = args.length)
    (hv : ∀ (j v : Nat), idx[j]? = some v → v < cl.length) : ∃ c, realCost E cl nt P idx = some c := by
  obtain ⟨w, hw⟩ := hcosts nt P args ha
  unfold realCost
  simp only [hw, ha]
  apply realCostLoop_total
  intro j _ hj
  have hjl : j < idx.length := by omega
  exact ⟨idx[j], List.getElem?_eq_getElem hjl, hv j _ (List.getElem?_eq_getElem hjl)⟩

/-- `_add_combination_` succeeds on a well-formed combination whose unchecked indices exist -/
theorem addCombination_total (E : Env S) (hcosts : HasCosts E) (s : St S) (nt : NT S Unit) (P : Sym) (idx : List Nat)
    (chk : Option Nat) (args : List (Ty × S)) (ha : ruleArgs E nt P = some args) (hlen : idx.length = args.length)
    (hchk : ∀ i, chk = some i → i < idx.length)
    (hv : ∀ i, chk = some i → ∀ (j v : Nat), j ≠ i → idx[j]? = some v → v < s.costList.length) :
    ∃ s', addCombination E s nt P idx chk = some s' := by
  unfold addCombination
  cases chk with
  | some i =>
    have hi := hchk i rfl
    simp only [needsDelay, List.getElem?_eq_getElem hi]
    by_cases hd : idx[i] ≥ s.costList.length
    · simp [hd]
    · simp only [hd, decide_false]
      obtain ⟨c, hc⟩ := realCost_total E hcosts s.costList nt P args ha idx hlen (by
        intro j v hj
        by_cases hji : j = i
        · subst hji; rw [List.getElem?_eq_getElem hi] at hj; cases hj; omega
        · exact hv i rfl j v hji hj)
      simp [hc]
  | none =>
    simp only [needsDelay]
    cases hany : idx.any fun v => decide (v ≥ s.costList.length) with
    | true => simp
    | false =>
      simp only
      obtain ⟨c, hc⟩ := realCost_total E hcosts s.costList nt P args ha idx hlen (by
        intro j v hj
        have := List.any_eq_false.mp hany v (List.mem_of_getElem? hj)
        simpa using this)
      simp [hc]

theorem triggerElems_total (E : Env S) (hcosts : HasCosts E) (nt : NT S Unit) (cl : List Int) :
    ∀ (elems : List Delayed) (s : St S), s.costList = cl →
      (∀ d ∈ elems, DWf E nt d ∧ (∀ i, d.2.2 = some i → i < d.1.length) ∧ DV cl nt d) →
      ∃ s', triggerElems E nt elems s = some s' := by
  intro elems
  induction elems with
  | nil => intro s _ _; exact ⟨s, rfl⟩
  | cons d rest ih =>
    intro s hcl h
    obtain ⟨idx, P, chk⟩ := d
    obtain ⟨⟨args, ha, hlen⟩, hchk, hdv⟩ := h (idx, P, chk) List.mem_cons_self
    obtain ⟨s1, hs1⟩ := addCombination_total E hcosts s nt P idx chk args ha hlen hchk (by rw [hcl]; exact hdv)
    simp only [triggerElems, hs1]
    have hqd := (addCombination_spec E s s1 nt P idx chk hs1).1
    exact ih s1 (hqd.cl.trans hcl) (fun d hd => h d (List.mem_cons_of_mem _ hd))

theorem triggerAll_total (E : Env S) (hcosts : HasCosts E) (cl : List Int) :
    ∀ (tab : AList (NT S Unit) (List Delayed)) (s : St S), s.costList = cl →
      (∀ nt l, (nt, l) ∈ tab → ∀ d ∈ l, DWf E nt d ∧ (∀ i, d.2.2 = some i → i < d.1.length) ∧ DV cl nt d) →
      ∃ s', triggerAll E tab s = some s' := by
  intro tab
  induction tab with
  | nil => intro s _ _; exact ⟨s, rfl⟩
  | cons e rest ih =>
    intro s hcl h
    obtain ⟨nt, elems⟩ := e
    obtain ⟨s1, hs1⟩ := triggerElems_total E hcosts nt cl elems s hcl (h nt elems List.mem_cons_self)
    simp only [triggerAll, hs1]
    have hqd := (triggerElems_all E (fun _ _ => True) (fun _ _ => True) (fun _ _ => True) cl nt (fun _ _ _ _ _ _ _ => trivial)
      (fun _ _ _ _ _ => trivial) elems s s1 hs1 hcl (fun _ _ => trivial) (fun _ _ _ _ _ => trivial) (fun _ _ _ _ _ => trivial)).1
    exact ih s1 (hqd.cl.trans hcl) (fun nt' l hm => h nt' l (List.mem_cons_of_mem _ hm))


theorem qv_append (cl : List Int) (x : Int) (nt : NT S Unit) (e : HeapElem) (h : QV cl nt e) : QV (cl ++ [x]) nt e := by
  intro j v hv; have := h j v hv; simp; omega

theorem dv_append (cl : List Int) (x : Int) (nt : NT S Unit) (d : Delayed) (h : DV cl nt d) : DV (cl ++ [x]) nt d := by
  intro i hi j v hj hv; have := h i hi j v hj hv; simp; omega

/-- a combination that is not delayed (any more) has all its indices in the cost list -/
theorem qv_of_not_delayed (cl : List Int) (nt : NT S Unit) (idx : List Nat) (P : Sym) (chk : Option Nat) (c : Int)
    (hd : DV cl nt (idx, P, chk)) (hn : needsDelay cl idx chk = some false) : QV cl nt ⟨c, idx, P⟩ := by
  intro j v hv
  simp only at hv
  cases chk with
  | some i =>
    simp only [needsDelay] at hn
    cases hi : idx[i]? with
    | none => simp [hi] at hn
    | some w =>
      simp only [hi, Option.some.injEq, decide_eq_false_iff_not] at hn
      by_cases hji : j = i
      · subst hji; rw [hi] at hv; cases hv; omega
      · exact hd i rfl j v hji hv
  | none =>
    simp only [needsDelay, Option.some.injEq] at hn
    have := List.any_eq_false.mp hn v (List.mem_of_getElem? hv)
    simpa using this

/-- **one step keeps the indices valid and the bank rows present** -/
theorem step_valid (E : Env S) (g g' : Gen S) (out : Option Prog) (h : step E g = some (g', out)) (hv : VSt E g.st) :
    VSt E g'.st := by
  unfold step at h
  split at h
  · simp only [Option.some.injEq, Prod.mk.injEq] at h; obtain ⟨rfl, _⟩ := h; exact hv
  · simp only [Option.some.injEq, Prod.mk.injEq] at h; obtain ⟨rfl, _⟩ := h; exact hv
  · dsimp only at h
    split at h
    · split at h
      all_goals (repeat' (split at h))
      all_goals
        simp only [Option.some.injEq, Prod.mk.injEq] at h; obtain ⟨rfl, _⟩ := h; exact hv
    · simp only [Option.some.injEq, Prod.mk.injEq] at h; obtain ⟨rfl, _⟩ := h; exact hv
  · simp only [Option.some.injEq, Prod.mk.injEq] at h; obtain ⟨rfl, _⟩ := h; exact hv
  · rename_i succ cost nt rest hph
    simp only at h
    split at h
    · simp at h
    · rename_i s1 ci hac
      simp only [Option.some.injEq, Prod.mk.injEq] at h; obtain ⟨rfl, _⟩ := h
      have hq0 : QAll (QV g.st.costList) { g.st with maxIndex := AList.insert nt ((AList.lookup nt g.st.maxIndex).getD 0) g.st.maxIndex } := hv.qv
      have hd0 : DAll (DV g.st.costList) { g.st with maxIndex := AList.insert nt ((AList.lookup nt g.st.maxIndex).getD 0) g.st.maxIndex } := hv.dv
      obtain ⟨_, hbank, _, _, _, hcase⟩ := addCost_all E (QV g.st.costList) (QV (g.st.costList ++ [cost])) (DV g.st.costList)
        (DV (g.st.costList ++ [cost])) (DV (g.st.costList ++ [cost])) _ s1 cost ci hac
        (fun nt e hq => qv_append _ _ nt e hq) (fun nt d hd => dv_append _ _ nt d hd)
        (fun nt idx P chk c hd hn _ => qv_of_not_delayed _ nt idx P chk c hd hn)
        (fun nt idx P chk hd _ => hd) hq0 hd0
      rcases hcase with ⟨rfl, _⟩ | ⟨hcl, _, _, hq, hd⟩
      · exact ⟨hv.qv, hv.dv, hv.bk⟩
      · exact ⟨by rw [hcl]; exact hq, by rw [hcl]; exact hd, by intro nt' hk; rw [hbank]; exact hv.bk nt' hk⟩
  · rename_i succ cost nt rest maxi ci hph
    simp only at h
    split at h
    · simp only [Option.some.injEq, Prod.mk.injEq] at h; obtain ⟨rfl, _⟩ := h; exact ⟨hv.qv, hv.dv, hv.bk⟩
    · rename_i top tl hq
      split at h
      · split at h
        · simp at h
        · rename_i el q' hpop
          have hperm := Heapq.pop_perm ltE _ _ _ hpop
          have hhead := Heapq.pop_head ltE _ _ _ hpop
          rw [hq] at hhead
          simp only [List.head?_cons, Option.some.injEq] at hhead
          subst hhead
          have helq : top ∈ g.st.queueOf nt := by rw [hq]; exact List.mem_cons_self
          obtain ⟨l0, hl0, he0⟩ := queueOf_mem helq
          have htv : QV g.st.costList nt top := hv.qv _ _ hl0 _ he0
          have hq1 : QAll (QV g.st.costList) (g.st.setQueue nt q') := by
            intro nt' l hm e he
            rcases mem_insert hm with hm | hm
            · cases hm
              have : e ∈ g.st.queueOf nt := hperm.mem_iff.mpr (List.mem_cons_of_mem _ he)
              obtain ⟨l1, hl1, he1⟩ := queueOf_mem this
              exact hv.qv _ _ hl1 _ he1
            · exact hv.qv _ _ hm _ he
          split at h
          · simp at h
          · split at h
            · simp at h
            · rename_i s2 maxi' hsl
              obtain ⟨hqd, hq2, hd2⟩ := succLoop_all E (QV g.st.costList) (DV g.st.costList) nt top.P top.combo g.st.costList
                (fun i v c hvi hn _ => qv_of_not_delayed _ nt _ top.P (some i) c (by
                    intro i' hi' j w hj hw
                    simp only at hi' hw
                    cases hi'
                    rw [List.getElem?_set] at hw
                    simp only [Ne.symm hj, if_false] at hw
                    exact htv j w hw) hn)
                (fun i v hvi _ => by
                    intro i' hi' j w hj hw
                    simp only at hi' hw
                    cases hi'
                    rw [List.getElem?_set] at hw
                    simp only [Ne.symm hj, if_false] at hw
                    exact htv j w hw)
                _ _ _ _ _ _ hsl rfl hq1 hv.dv
              have hv2 : VSt E s2 := ⟨by rw [hqd.cl]; exact hq2, by rw [hqd.cl]; exact hd2, by intro nt' hk; rw [hqd.bank]; exact hv.bk nt' hk⟩
              split at h
              · simp at h
              · simp only [Option.some.injEq, Prod.mk.injEq] at h; obtain ⟨rfl, _⟩ := h; exact hv2
              · simp only [Option.some.injEq, Prod.mk.injEq] at h; obtain ⟨rfl, _⟩ := h; exact hv2
      · simp only [Option.some.injEq, Prod.mk.injEq] at h; obtain ⟨rfl, _⟩ := h; exact ⟨hv.qv, hv.dv, hv.bk⟩
  · simp only [Option.some.injEq, Prod.mk.injEq] at h; obtain ⟨rfl, _⟩ := h; exact hv
  · rename_i succ cost nt rest maxi ci p ps hph
    obtain ⟨fq, fd, fc⟩ := addProgram_frame E g.st nt p ci
    have hv1 : VSt E (addProgram E g.st nt p ci).1 := by
      refine ⟨by rw [fc]; intro a l hm; rw [fq] at hm; exact hv.qv a l hm, by rw [fc]; intro a l hm; rw [fd] at hm; exact hv.dv a l hm, ?_⟩
      intro nt' hk
      unfold addProgram
      split
      · exact hv.bk nt' hk
      · split
        · exact hv.bk nt' hk
        · simp only
          rw [AList.lookup_insert]
          by_cases hnn : nt' = nt
          · simp [hnn]
          · simp only [hnn, if_false]; exact hv.bk nt' hk
    cases hap : addProgram E g.st nt p ci with | mk s1 added =>
    rw [hap] at hv1
    simp only [hap] at h
    split at h
    all_goals
      simp only [Option.some.injEq, Prod.mk.injEq] at h; obtain ⟨rfl, _⟩ := h; exact hv1


theorem succLoop_total (E : Env S) (hcosts : HasCosts E) (nt : NT S Unit) (P : Sym) (combo : List Nat) (args : List (Ty × S))
    (ha : ruleArgs E nt P = some args) (hlen : combo.length = args.length) (cl : List Int)
    (hval : ∀ (j v : Nat), combo[j]? = some v → v < cl.length) :
    ∀ (k i : Nat) (s : St S) (maxi : Nat), i + k ≤ combo.length → s.costList = cl →
      ∃ r, succLoop E nt P combo i k s maxi = some r := by
  intro k
  induction k with
  | zero => intro i s maxi _ _; exact ⟨(s, maxi), rfl⟩
  | succ k ih =>
    intro i s maxi hik hcl
    have hi : i < combo.length := by omega
    simp only [succLoop, List.getElem?_eq_getElem hi]
    obtain ⟨s1, hs1⟩ := addCombination_total E hcosts s nt P (combo.set i (combo[i] + 1)) (some i) args ha (by simpa using hlen)
      (fun i' hi' => by cases hi'; simpa using hi)
      (fun i' hi' j v hj hv => by
        cases hi'
        rw [List.getElem?_set] at hv
        simp only [Ne.symm hj, if_false] at hv
        rw [hcl]; exact hval j v hv)
    simp only [hs1]
    by_cases hb : combo[i] + 1 > 1
    · simp [hb]
    · simp only [hb, if_false]
      have hqd := (addCombination_spec E s s1 nt P _ _ hs1).1
      exact ih (i + 1) s1 _ (by omega) (hqd.cl.trans hcl)

theorem argsPossibles_total (s : St S) (combo : List Nat) :
    ∀ (args : List (Ty × S)) (i : Nat), (∀ a ∈ args, (AList.lookup (a.1, (a.2, ())) s.bank).isSome = true) →
      i + args.length ≤ combo.length → ∃ r, argsPossibles s combo args i = some r := by
  intro args
  induction args with
  | nil => intro i _ _; exact ⟨some [], rfl⟩
  | cons a rest ih =>
    intro i hb hlen
    obtain ⟨t, sx⟩ := a
    simp only [argsPossibles]
    have h1 := hb (t, sx) List.mem_cons_self
    cases hl : AList.lookup (t, (sx, ())) s.bank with
    | none => simp [hl] at h1
    | some localBank =>
      simp only
      have hi : i < combo.length := by simp at hlen; omega
      simp only [List.getElem?_eq_getElem hi]
      cases hci : AList.lookup combo[i] localBank with
      | none => exact ⟨none, rfl⟩
      | some ps =>
        cases ps with
        | nil => exact ⟨none, rfl⟩
        | cons p ps =>
          simp only
          obtain ⟨r, hr⟩ := ih (i + 1) (fun a ha => hb a (List.mem_cons_of_mem _ ha)) (by simp at hlen ⊢; omega)
          rw [hr]
          cases r with
          | none => exact ⟨none, rfl⟩
          | some r => exact ⟨some ((p :: ps) :: r), rfl⟩

theorem addCost_total (E : Env S) (hcosts : HasCosts E) (s : St S) (cost : Int)
    (hd : ∀ nt l, (nt, l) ∈ s.delayed → ∀ d ∈ l, DWf E nt d ∧ (∀ i, d.2.2 = some i → i < d.1.length) ∧ DV s.costList nt d) :
    ∃ r, addCost E s cost = some r := by
  unfold addCost
  split
  · exact ⟨_, rfl⟩
  · have : ∃ s1, triggerDelayed E { s with costList := s.costList ++ [cost] } = some s1 := by
      unfold triggerDelayed
      apply triggerAll_total E hcosts (s.costList ++ [cost]) _ _ rfl
      intro nt' l hm d hdm
      obtain ⟨h1, h2, h3⟩ := hd nt' l hm d hdm
      exact ⟨h1, h2, dv_append _ _ nt' d h3⟩
    obtain ⟨s1, hs1⟩ := this
    rw [hs1]; exact ⟨_, rfl⟩

/-- **`step` never raises** in a state satisfying the invariants -/
theorem step_total (E : Env S) (hcosts : HasCosts E) (hclosed : Closed E) (g : Gen S) (hn : NSt E g.st) (hv : VSt E g.st)
    (hos : ∃ low, OSt E g.st low) : ∃ r, step E g = some r := by
  obtain ⟨low, hos⟩ := hos
  cases hph : g.phase with
  | done => unfold step; rw [hph]; exact ⟨_, rfl⟩
  | init => unfold step; rw [hph]; exact ⟨_, rfl⟩
  | outer =>
    unfold step; rw [hph]; dsimp only
    split
    · split
      · exact ⟨_, rfl⟩
      · exact ⟨_, rfl⟩
      · split <;> exact ⟨_, rfl⟩
    · exact ⟨_, rfl⟩
  | forS succ cost nts =>
    cases nts with
    | nil => unfold step; rw [hph]; exact ⟨_, rfl⟩
    | cons nt rest =>
      obtain ⟨⟨s1, ci⟩, hr⟩ := addCost_total E hcosts
        { g.st with maxIndex := AList.insert nt ((AList.lookup nt g.st.maxIndex).getD 0) g.st.maxIndex } cost (by
          intro nt' l hm d hd
          refine ⟨hn.wfd nt' l hm d hd, ?_, hv.dv nt' l hm d hd⟩
          intro i hi
          have := (hos.d nt' l hm d hd).1
          rw [hi] at this
          simp only [needsDelay] at this
          cases hx : d.1[i]? with
          | none => simp [hx] at this
          | some v => exact (List.getElem?_eq_some_iff.mp hx).1)
      unfold step; rw [hph]; simp only [hr]; exact ⟨_, rfl⟩
  | whileQ succ cost nt rest maxi ci =>
    unfold step; rw [hph]; simp only
    split
    · exact ⟨_, rfl⟩
    · rename_i top tl hq
      split
      · have hne : g.st.queueOf nt ≠ [] := by rw [hq]; simp
        cases hpop : Heapq.pop ltE (g.st.queueOf nt) with
        | none => exact absurd ((Heapq.pop_none_iff ltE _).mp hpop) hne
        | some r =>
          obtain ⟨el, q'⟩ := r
          simp only
          have hel : el ∈ g.st.queueOf nt := (Heapq.pop_perm ltE _ _ _ hpop).mem_iff.mpr List.mem_cons_self
          obtain ⟨l0, hl0, he0⟩ := queueOf_mem hel
          obtain ⟨args, hargs, hlen⟩ := hn.wfq _ _ hl0 _ he0
          rw [hargs]
          simp only
          obtain ⟨⟨s2, maxi'⟩, hsl⟩ := succLoop_total E hcosts nt el.P el.combo args hargs hlen g.st.costList
            (hv.qv _ _ hl0 _ he0) args.length 0 (g.st.setQueue nt q') maxi (by omega) rfl
          rw [hsl]
          simp only
          have hqd := (succLoop_all E (fun _ _ => True) (fun _ _ => True) nt el.P el.combo _
            (fun _ _ _ _ _ _ => trivial) (fun _ _ _ _ => trivial) _ _ _ _ _ _ hsl rfl (fun _ _ _ _ _ => trivial)
            (fun _ _ _ _ _ => trivial)).1
          obtain ⟨r2, hr2⟩ := argsPossibles_total s2 el.combo args 0 (by
            intro a ha
            have hb : s2.bank = g.st.bank := hqd.bank
            rw [hb]
            exact hv.bk _ (hclosed nt el.P args hargs a ha)) (by omega)
          rw [hr2]
          cases r2 <;> exact ⟨_, rfl⟩
      · exact ⟨_, rfl⟩
  | pend succ cost nt rest maxi ci pending =>
    cases pending with
    | nil => unfold step; rw [hph]; exact ⟨_, rfl⟩
    | cons p ps =>
      unfold step; rw [hph]; simp only
      cases hap : addProgram E g.st nt p ci with | mk s1 added =>
      simp only
      split <;> exact ⟨_, rfl⟩

end PS.Bee
