/- Generic facts about runs of the heap-search machine without filter (any grammar, any priority):
   `seen` only grows; an empty heap stays empty (and its successor table frozen) as long as no
   `__add_successors__` for that non-terminal is the running call; a `query` that returns `None` leaves
   the heap of its non-terminal empty and the key without successor. -/
import PS.Proofs.Enum.HSNodup
namespace PS.HS
open PS PS.G
set_option linter.unusedSectionVars false
variable {S T π : Type} [DecidableEq S] [DecidableEq T]

def SeenMonoT (s s' : St S T π) : Prop := ∀ nt p, p ∈ s.seenOf nt → p ∈ s'.seenOf nt

theorem pushNew_seenMono (E : Env S T π) (s : St S T π) (nt : NT S T) (np : Prog) :
    SeenMonoT s (pushNew E s nt np) ∧ np ∈ (pushNew E s nt np).seenOf nt := by
  have h1 : ∀ nt', (pushNew E s nt np).seenOf nt' = (s.addSeen nt np).seenOf nt' := by
    intro nt'
    unfold pushNew
    simp only
    split
    · rfl
    · split <;> rfl
  refine ⟨?_, ?_⟩
  · intro nt' p hp
    rw [h1, St.seenOf_addSeen]
    split
    · rename_i heq; subst heq; exact List.mem_append_left _ hp
    · exact hp
  · rw [h1, St.seenOf_addSeen]; simp

theorem pushStep_seenMono (E : Env S T π) (s : St S T π) (F : Sym) (args : List Prog) (nt : NT S T) (i : Nat)
    (r : Option Prog) (hdel : s.deleted = []) :
    SeenMonoT s (pushStep E s F args nt i r) ∧
    ∀ q, r = some q → Tree.node F (args.set i q) ∈ (pushStep E s F args nt i r).seenOf nt := by
  unfold pushStep
  cases r with
  | none => exact ⟨fun _ _ h => h, by intro q hq; cases hq⟩
  | some q =>
    simp only
    split
    · rename_i hc
      refine ⟨fun _ _ h => h, ?_⟩
      intro q' hq'; cases hq'
      rw [hdel] at hc
      simpa using hc
    · refine ⟨(pushNew_seenMono E s nt _).1, ?_⟩
      intro q' hq'; cases hq'
      exact (pushNew_seenMono E s nt _).2

theorem big_seenMono (E : Env S T π) {c : Call S T} {s s' : St S T π} {r : Option Prog}
    (hb : Big E c s s' r) : NInv s → NPre c s → SeenMonoT s s' := by
  induction hb with
  | query_direct h hb ih => intro hi _; exact ih hi trivial
  | query_first hp h h0 hb ih0 ih =>
    intro hi _
    have h1 := ih0 hi trivial
    have h2 := ih (big_nodup E h0 hi trivial).1 trivial
    exact fun nt p hp => h2 nt p (h1 nt p hp)
  | lop_hit h => intro _ _ _ _ h; exact h
  | lop_miss h hb ih => intro hi _; exact ih hi h
  | pop_empty h => intro _ _ _ _ h; exact h
  | pop_deleted h hd ha hb iha ihb => intro hi _; rw [hi.no_deleted] at hd; simp at hd
  | @pop_take s s' nt key e h' x h hd ha iha =>
    intro hi hpre
    exact iha (hi.popTake nt key e h' h hpre).1 trivial
  | succ_leaf => intro _ _ _ _ h; exact h
  | succ_fun hd hr hb ih => intro hi _; exact ih hi trivial
  | loop_done h => intro _ _ _ _ h; exact h
  | @loop_step s s1 s' F args nt i argsLen info s2 ai r r' x h hai hq hc hda hb ihq ihb =>
    intro hi _
    have h1 := ihq hi trivial
    have hn1 := (big_nodup E hq hi trivial).1
    have h2 := (pushStep_seenMono E s1 F args nt i r hn1.no_deleted).1
    have h3 := ihb (hn1.pushStep (E := E) F args nt i r).1 trivial
    exact fun nt' p hp => h3 nt' p (h2 nt' p (h1 nt' p hp))
  | @loop_last s s1 F args nt i argsLen info s2 ai r h hai hq hc ihq =>
    intro hi _
    have h1 := ihq hi trivial
    have hn1 := (big_nodup E hq hi trivial).1
    have h2 := (pushStep_seenMono E s1 F args nt i r hn1.no_deleted).1
    exact fun nt' p hp => h2 nt' p (h1 nt' p hp)

/-- the call is an `__add_successors__` (or its loop) for `nt` -/
def Call.addsAt : Call S T → NT S T → Prop
  | .addSucc _ nt', nt => nt' = nt
  | .addLoop _ _ nt' _ _ _ _, nt => nt' = nt
  | _, _ => False

theorem pushNew_other (E : Env S T π) (s : St S T π) (nt nt' : NT S T) (np : Prog) (hne : nt' ≠ nt) :
    (pushNew E s nt np).heapOf nt' = s.heapOf nt' ∧ (pushNew E s nt np).succOf nt' = s.succOf nt' := by
  unfold pushNew
  simp only
  split
  · exact ⟨rfl, rfl⟩
  · split
    · refine ⟨?_, rfl⟩
      rw [St.heapOf_setHeap]; simp only [hne, if_false]; rfl
    · exact ⟨rfl, rfl⟩

theorem pushStep_other (E : Env S T π) (s : St S T π) (F : Sym) (args : List Prog) (nt nt' : NT S T) (i : Nat)
    (r : Option Prog) (hne : nt' ≠ nt) :
    (pushStep E s F args nt i r).heapOf nt' = s.heapOf nt' ∧ (pushStep E s F args nt i r).succOf nt' = s.succOf nt' := by
  unfold pushStep
  cases r with
  | none => exact ⟨rfl, rfl⟩
  | some q =>
    simp only
    split
    · exact ⟨rfl, rfl⟩
    · exact pushNew_other E s nt nt' _ hne

/-- **an exhausted non-terminal stays exhausted** -/
theorem big_emptyStable (E : Env S T π) {c : Call S T} {s s' : St S T π} {r : Option Prog}
    (hb : Big E c s s' r) : NInv s → NPre c s → ∀ nt', s.heapOf nt' = [] → ¬ c.addsAt nt' →
    s'.heapOf nt' = [] ∧ s'.succOf nt' = s.succOf nt' := by
  induction hb with
  | query_direct h hb ih => intro hi _ nt' he _; exact ih hi trivial nt' he (fun h => h)
  | query_first hp h h0 hb ih0 ih =>
    intro hi _ nt' he _
    obtain ⟨a1, a2⟩ := ih0 hi trivial nt' he (fun h => h)
    obtain ⟨b1, b2⟩ := ih (big_nodup E h0 hi trivial).1 trivial nt' a1 (fun h => h)
    exact ⟨b1, b2.trans a2⟩
  | lop_hit h => intro _ _ _ he _; exact ⟨he, rfl⟩
  | lop_miss h hb ih => intro hi _ nt' he _; exact ih hi h nt' he (fun h => h)
  | pop_empty h => intro _ _ _ he _; exact ⟨he, rfl⟩
  | pop_deleted h hd ha hb iha ihb => intro hi _; rw [hi.no_deleted] at hd; simp at hd
  | @pop_take s s' nt key e h' x h hd ha iha =>
    intro hi hpre nt' he _
    have hne : nt' ≠ nt := by
      intro heq; subst heq
      rw [he] at h; simp [Heapq.pop] at h
    have h1 : (s.popTake nt key e h').heapOf nt' = [] := by
      show (s.setHeap nt h').heapOf nt' = []
      rw [St.heapOf_setHeap]; simp only [hne, if_false]; exact he
    obtain ⟨a1, a2⟩ := iha (hi.popTake nt key e h' h hpre).1 trivial nt' h1 (fun heq => hne heq.symm)
    refine ⟨a1, a2.trans ?_⟩
    show (s.popTake nt key e h').succOf nt' = s.succOf nt'
    rw [popTake_succOf]; simp [hne]
  | succ_leaf => intro _ _ _ he _; exact ⟨he, rfl⟩
  | succ_fun hd hr hb ih => intro hi _ nt' he hna; exact ih hi trivial nt' he hna
  | loop_done h => intro _ _ _ he _; exact ⟨he, rfl⟩
  | @loop_step s s1 s' F args nt i argsLen info s2 ai r r' x h hai hq hc hda hb ihq ihb =>
    intro hi _ nt' he hna
    have hne : nt' ≠ nt := fun heq => hna heq.symm
    obtain ⟨a1, a2⟩ := ihq hi trivial nt' he (fun h => h)
    have hn1 := (big_nodup E hq hi trivial).1
    obtain ⟨p1, p2⟩ := pushStep_other E s1 F args nt nt' i r hne
    obtain ⟨b1, b2⟩ := ihb (hn1.pushStep (E := E) F args nt i r).1 trivial nt' (p1.trans a1) hna
    exact ⟨b1, (b2.trans p2).trans a2⟩
  | @loop_last s s1 F args nt i argsLen info s2 ai r h hai hq hc ihq =>
    intro hi _ nt' he hna
    have hne : nt' ≠ nt := fun heq => hna heq.symm
    obtain ⟨a1, a2⟩ := ihq hi trivial nt' he (fun h => h)
    obtain ⟨p1, p2⟩ := pushStep_other E s1 F args nt nt' i r hne
    exact ⟨p1.trans a1, p2.trans a2⟩

/-- postcondition of a `query` that returns `None`: the heap is empty, the key has no successor -/
def NonePost : Call S T → St S T π → Option Prog → Prop
  | .query nt p, s', r => r = none → AList.lookup p (s'.succOf nt) = none ∧ s'.heapOf nt = []
  | .lop nt p, s', r => r = none → AList.lookup p (s'.succOf nt) = none ∧ s'.heapOf nt = []
  | .popLoop nt p, s', r => r = none → AList.lookup p (s'.succOf nt) = none ∧ s'.heapOf nt = []
  | _, _, _ => True

theorem big_nonePost (E : Env S T π) {c : Call S T} {s s' : St S T π} {r : Option Prog}
    (hb : Big E c s s' r) : NInv s → NPre c s → NonePost c s' r := by
  induction hb with
  | query_direct h hb ih => intro hi _; exact ih hi trivial
  | query_first hp h h0 hb ih0 ih => intro hi _; exact ih (big_nodup E h0 hi trivial).1 trivial
  | lop_hit h => intro _ _ hr; cases hr
  | lop_miss h hb ih => intro hi _; exact ih hi h
  | pop_empty h => intro _ hpre _; exact ⟨hpre, (Heapq.pop_none_iff _ _).mp h⟩
  | pop_deleted h hd ha hb iha ihb => intro hi _; rw [hi.no_deleted] at hd; simp at hd
  | pop_take h hd ha iha => intro _ _ hr; cases hr
  | succ_leaf => intro _ _; trivial
  | succ_fun hd hr hb ih => intro _ _; trivial
  | loop_done h => intro _ _; trivial
  | loop_step h hai hq hc hda hb ihq ihb => intro _ _; trivial
  | loop_last h hai hq hc ihq => intro _ _; trivial

end PS.HS
