/- Bee search: `_deleted` only grows, so a program declared merged (or rejected by the filter) is never yielded
   afterwards, along every history. -/
import PS.Proofs.Enum.BeeSoundRun
namespace PS.Bee
open PS PS.G

variable {S : Type} [DecidableEq S]
set_option linter.unusedSectionVars false
set_option linter.unusedSimpArgs false

/-- `q` is in `_deleted` -/
def Del (g : Gen S) (q : Prog) : Prop := g.st.deleted.contains q = true

theorem addProgram_deleted (E : Env S) (s : St S) (nt : NT S Unit) (p : Prog) (ci : Nat) (q : Prog)
    (h : s.deleted.contains q = true) : (addProgram E s nt p ci).1.deleted.contains q = true := by
  unfold addProgram
  split
  · exact h
  · split
    · simp only [List.contains_eq_mem, List.mem_append, decide_eq_true_eq] at h ⊢
      exact Or.inl h
    · exact h

/-- one step never removes anything from `_deleted` -/
theorem step_deleted (E : Env S) (g g' : Gen S) (out : Option Prog) (q : Prog) (h : step E g = some (g', out))
    (hd : Del g q) : Del g' q := by
  unfold Del at hd ⊢
  unfold step at h
  split at h
  · simp only [Option.some.injEq, Prod.mk.injEq] at h; obtain ⟨rfl, _⟩ := h; exact hd
  · simp only [Option.some.injEq, Prod.mk.injEq] at h; obtain ⟨rfl, _⟩ := h; exact hd
  · dsimp only at h
    split at h
    · split at h
      all_goals (repeat' (split at h))
      all_goals
        simp only [Option.some.injEq, Prod.mk.injEq] at h; obtain ⟨rfl, _⟩ := h; exact hd
    · simp only [Option.some.injEq, Prod.mk.injEq] at h; obtain ⟨rfl, _⟩ := h; exact hd
  · simp only [Option.some.injEq, Prod.mk.injEq] at h; obtain ⟨rfl, _⟩ := h; exact hd
  · simp only at h
    split at h
    · simp at h
    · rename_i s1 ci hac
      simp only [Option.some.injEq, Prod.mk.injEq] at h; obtain ⟨rfl, _⟩ := h
      obtain ⟨_, _, hdel, _, _, _⟩ := addCost_all E (fun _ _ => True) (fun _ _ => True) (fun _ _ => True) (fun _ _ => True)
        (fun _ _ => True) _ s1 _ ci hac (fun _ _ _ => trivial) (fun _ _ _ => trivial) (fun _ _ _ _ _ _ _ _ => trivial)
        (fun _ _ _ _ _ _ => trivial) (fun _ _ _ _ _ => trivial) (fun _ _ _ _ _ => trivial)
      show s1.deleted.contains q = true
      rw [hdel]; exact hd
  · simp only at h
    split at h
    · simp only [Option.some.injEq, Prod.mk.injEq] at h; obtain ⟨rfl, _⟩ := h; exact hd
    · split at h
      · split at h
        · simp at h
        · rename_i el q' hpop
          split at h
          · simp at h
          · split at h
            · simp at h
            · rename_i s2 maxi' hsl
              obtain ⟨hqd, _, _⟩ := succLoop_all E (fun _ _ => True) (fun _ _ => True) _ el.P el.combo _
                (fun _ _ _ _ _ _ => trivial) (fun _ _ _ _ => trivial) _ _ _ _ _ _ hsl rfl (fun _ _ _ _ _ => trivial)
                (fun _ _ _ _ _ => trivial)
              have hdel : s2.deleted = g.st.deleted := hqd.deleted
              split at h
              · simp at h
              · simp only [Option.some.injEq, Prod.mk.injEq] at h; obtain ⟨rfl, _⟩ := h
                show s2.deleted.contains q = true
                rw [hdel]; exact hd
              · simp only [Option.some.injEq, Prod.mk.injEq] at h; obtain ⟨rfl, _⟩ := h
                show s2.deleted.contains q = true
                rw [hdel]; exact hd
      · simp only [Option.some.injEq, Prod.mk.injEq] at h; obtain ⟨rfl, _⟩ := h; exact hd
  · simp only [Option.some.injEq, Prod.mk.injEq] at h; obtain ⟨rfl, _⟩ := h; exact hd
  · rename_i succ cost nt rest maxi ci p ps hph
    have := addProgram_deleted E g.st nt p ci q hd
    cases hap : addProgram E g.st nt p ci with | mk s1 added =>
    rw [hap] at this
    simp only [hap] at h
    split at h
    all_goals
      simp only [Option.some.injEq, Prod.mk.injEq] at h; obtain ⟨rfl, _⟩ := h; exact this

theorem merge_deleted (E : Env S) (g : Gen S) (other : Prog) (ty : Ty) (q : Prog) (hd : Del g q) :
    Del (merge E g other ty) q := by
  unfold Del at hd ⊢
  unfold merge
  by_cases hc : g.st.deleted.contains other = true
  · simp only [hc, if_true]; exact hd
  · simp only [hc, if_false, Bool.false_eq_true]
    simp only [List.contains_eq_mem, List.mem_append, decide_eq_true_eq] at hd ⊢
    exact Or.inl hd

theorem merge_deletes (E : Env S) (g : Gen S) (other : Prog) (ty : Ty) : Del (merge E g other ty) other := by
  unfold Del merge
  by_cases hc : g.st.deleted.contains other = true
  · simp only [hc, if_true]
  · simp only [hc, if_false, Bool.false_eq_true]; simp

theorem next_deleted (E : Env S) (q : Prog) : ∀ (n : Nat) (g g' : Gen S) (out : Option Prog),
    next E n g = some (g', out) → GInv E g → Del g q → GInv E g' ∧ Del g' q ∧ out ≠ some q := by
  intro n
  induction n with
  | zero => intro g g' out h; simp [next] at h
  | succ n ih =>
    intro g g' out h hi hd
    simp only [next] at h
    split at h
    · simp only [Option.some.injEq, Prod.mk.injEq] at h; obtain ⟨rfl, rfl⟩ := h
      exact ⟨hi, hd, by simp⟩
    · split at h
      · simp at h
      · rename_i g1 p hs
        simp only [Option.some.injEq, Prod.mk.injEq] at h; obtain ⟨rfl, rfl⟩ := h
        obtain ⟨h1, h2⟩ := step_sound E g g1 (some p) hs hi
        refine ⟨h1, step_deleted E g g1 _ q hs hd, ?_⟩
        intro he
        simp only [Option.some.injEq] at he; subst he
        have := (h2 p rfl).2.2.2
        unfold Del at hd
        rw [hd] at this; cases this
      · rename_i g1 hs
        exact ih g1 g' out h (step_sound E g g1 none hs hi).1 (step_deleted E g g1 _ q hs hd)

theorem take_deleted (E : Env S) (q : Prog) (fuel : Nat) : ∀ (k : Nat) (g g' : Gen S) (acc out : List Prog) (fin : Bool),
    take E fuel k g acc = some (g', out, fin) → GInv E g → Del g q → q ∉ acc → GInv E g' ∧ Del g' q ∧ q ∉ out := by
  intro k
  induction k with
  | zero =>
    intro g g' acc out fin h hi hd ha
    simp only [take, Option.some.injEq, Prod.mk.injEq] at h; obtain ⟨rfl, rfl, rfl⟩ := h
    exact ⟨hi, hd, ha⟩
  | succ k ih =>
    intro g g' acc out fin h hi hd ha
    simp only [take] at h
    split at h
    · simp at h
    · rename_i g1 hn
      simp only [Option.some.injEq, Prod.mk.injEq] at h; obtain ⟨rfl, rfl, rfl⟩ := h
      obtain ⟨h1, h2, _⟩ := next_deleted E q fuel g g1 none hn hi hd
      exact ⟨h1, h2, ha⟩
    · rename_i g1 p hn
      obtain ⟨h1, h2, h3⟩ := next_deleted E q fuel g g1 (some p) hn hi hd
      apply ih g1 g' (acc ++ [p]) out fin h h1 h2
      intro hm
      rcases List.mem_append.mp hm with hm | hm
      · exact ha hm
      · simp at hm; subst hm; exact h3 rfl

theorem runActs_deleted (E : Env S) (q : Prog) (fuel : Nat) : ∀ (acts : List Act) (g g' : Gen S) (acc out : List Prog),
    runActs E fuel acts g acc = some (g', out) → GInv E g → Del g q → q ∉ acc → q ∉ out := by
  intro acts
  induction acts with
  | nil =>
    intro g g' acc out h _ _ ha
    simp only [runActs, Option.some.injEq, Prod.mk.injEq] at h; obtain ⟨rfl, rfl⟩ := h; exact ha
  | cons a rest ih =>
    intro g g' acc out h hi hd ha
    cases a with
    | merge p ty =>
      simp only [runActs] at h
      exact ih _ _ _ _ h (merge_sound E g p ty hi) (merge_deleted E g p ty q hd) ha
    | take k =>
      simp only [runActs] at h
      split at h
      · simp at h
      · rename_i g1 ys fin ht
        obtain ⟨h1, h2, h3⟩ := take_deleted E q fuel k g g1 [] ys fin ht hi hd (by simp)
        apply ih _ _ _ _ h h1 h2
        intro hm
        rcases List.mem_append.mp hm with hm | hm
        · exact ha hm
        · exact h3 hm

end PS.Bee
