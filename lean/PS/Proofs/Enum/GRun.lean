/- The generator loop of heap search with a filter (generic priority, threshold): quiescent
   invariants across `query`, `self.deleted.add`, the first queries; the yielded sequence is the
   accepted part of the chain of `succ[start]`. -/
import PS.Proofs.Enum.GPrologue
namespace PS.HG
open PS PS.G PS.HS
set_option linter.unusedSectionVars false
variable {S π : Type} [DecidableEq S]

/-! ### `HeapStarted` is an invariant -/

theorem hs_pop (E : Env S Unit π) (H0 : NT S Unit → List (π × Prog)) : PopStep E H0 HeapStarted := by
  intro s nt key e h' _ hP _ _ _ _ nt' hh
  rw [popTake_succOf]
  split
  · exact insert_ne_nil _ _ _
  · rename_i hne
    have : (s.popTake nt key e h').heapOf nt' = s.heapOf nt' := by
      show (s.setHeap nt h').heapOf nt' = _
      rw [St.heapOf_setHeap]; simp [hne]
    rw [this] at hh
    exact hP nt' hh

theorem hs_skip (E : Env S Unit π) (H0 : NT S Unit → List (π × Prog)) : SkipStep E H0 HeapStarted := by
  intro s nt e h' _ hP hp _ nt' hh
  show s.succOf nt' ≠ []
  rw [St.heapOf_setHeap] at hh
  split at hh
  · rename_i heq; subst heq
    apply hP
    intro he; rw [he] at hp; simp [Heapq.pop] at hp
  · exact hP nt' hh

theorem hs_push (E : Env S Unit π) (H0 : NT S Unit → List (π × Prog)) : PushStep E H0 HeapStarted := by
  intro s1 F args nt i r _ _ _ _ hP _ _ _ _ _ hne _ _ nt' hh
  obtain ⟨w1, _, w3, _⟩ := pushStep_views E s1 F args nt i r
  rw [w1]
  by_cases hnn : nt' = nt
  · subst hnn; exact hne
  · rw [(w3 nt' hnn).1] at hh; exact hP nt' hh

/-- static hypotheses of the run-level theorems -/
structure RunHyp (E : Env S Unit π) (rank : NT S Unit → Nat) (Good : π → Prop) : Prop where
  law : Law E rank Good
  wtotal : WTotal E
  nodrop : E.dropDeleted = false

theorem RunHyp.i3 {E : Env S Unit π} {rank} {Good} (R : RunHyp E rank Good) : I3Hyp E := ⟨R.wtotal, R.nodrop⟩

/-- a top-level `query` keeps the quiescent invariants -/
theorem quiet0_query {E : Env S Unit π} {rank} {Good} (R : RunHyp E rank Good) {H0 : NT S Unit → List (π × Prog)}
    {s s' : St S Unit π} {nt : NT S Unit} {p r : Option Prog}
    (q : Quiet0 E H0 s) (hpre : OPre E H0 (.query nt p) s) (hb : Big E (.query nt p) s s' r) :
    Quiet0 E H0 s' ∧ (HeapStarted s → HeapStarted s') := by
  have L := R.law
  have c := big_core L hb q.full trivial trivial hpre
  refine ⟨⟨c.full, big_tinv L hb q.full trivial trivial hpre q.tinv,
    big_cinv L R.wtotal hb q.full trivial trivial hpre q.cinv, ?_, ?_, ?_⟩, ?_⟩
  · intro nt' y hp
    rcases (big_i3 L R.i3 hb q.full q.cinv trivial trivial hpre).1 nt' y hp with hold | hd
    · exact (q.i3 nt' y hold).keep (fun _ _ _ _ _ a' _ => keeps_of_core hb c (argNT a') (fun h => h))
    · exact hd
  · intro nt' F ra hr
    obtain ⟨ms, hm, hfp⟩ := q.init_seen nt' F ra hr
    exact ⟨ms, c.seen _ _ hm, hfp⟩
  · intro p' hp'; rw [c.del] at hp'; exact q.del_rej p' hp'
  · intro hs
    exact big_prim L HeapStarted (hs_pop E H0) (hs_skip E H0) (hs_push E H0) hb q.full trivial trivial hpre hs

/-- `self.deleted.add(program)` for a rejected program keeps the quiescent invariants -/
theorem quiet_addDeleted {E : Env S Unit π} {H0 : NT S Unit → List (π × Prog)} {s : St S Unit π} (q : Quiet E H0 s)
    (p : Prog) (hrej : E.filter p = false) : Quiet E H0 (s.addDeleted p) := by
  unfold St.addDeleted
  split
  · exact q
  · -- only `deleted` changes
    have hdel : ∀ y, y ∈ s.deleted ++ [p] → y ∈ s.deleted ∨ y = p := by
      intro y hy
      rcases List.mem_append.mp hy with h | h
      · exact Or.inl h
      · exact Or.inr (by simpa using h)
    have hpop : ∀ nt y, Popped E { s with deleted := s.deleted ++ [p] } nt y → Popped E s nt y := by
      intro nt y hp
      rcases hp with hv | ⟨h1, h2, h3, py, hpy, hok⟩
      · exact Or.inl hv
      · rcases hdel y h3 with hd | rfl
        · exact Or.inr ⟨h1, h2, hd, py, hpy, hok⟩
        · rcases q.cinv.seen_cover nt y h1 with hh | hpp | ⟨pp, hpp, hno⟩
          · exact absurd hh h2
          · exact hpp
          · rw [hpy] at hpp; cases hpp; rw [hok] at hno; cases hno
    have hpop' : ∀ nt y, Popped E s nt y → Popped E { s with deleted := s.deleted ++ [p] } nt y := by
      intro nt y hp
      rcases hp with hv | ⟨h1, h2, h3, h4⟩
      · exact Or.inl hv
      · exact Or.inr ⟨h1, h2, List.mem_append_left _ h3, h4⟩
    refine ⟨⟨q.full.sinv.congr (fun _ => rfl) (fun _ => rfl) (fun _ => rfl) q.full.sinv.cache_ok,
        ⟨q.full.ninv.heap_nodup, q.full.ninv.heap_seen, q.full.ninv.succ_seen, q.full.ninv.succ_out, q.full.ninv.succ_inj⟩,
        q.full.hinv,
        ⟨q.full.oinv.below, q.full.oinv.link, q.full.oinv.val_prio, q.full.oinv.args, q.full.oinv.fresh, Or.inr q.started⟩⟩,
      ⟨q.tinv.kv, q.tinv.tip, q.tinv.none_first, q.tinv.reach, q.tinv.first_val⟩, ?_, ?_, q.started, q.init_seen, ?_⟩
    · refine ⟨?_, q.cinv.heap_ok, q.cinv.heap_cached, q.cinv.val_cached, q.cinv.args_cached⟩
      intro nt y hy
      rcases q.cinv.seen_cover nt y hy with hh | hpp | hthr
      · exact Or.inl hh
      · exact Or.inr (Or.inl (hpop' nt y hpp))
      · exact Or.inr (Or.inr hthr)
    · intro nt y hp
      exact q.i3 nt y (hpop nt y hp)
    · intro y hy
      rcases hdel y hy with h | rfl
      · exact q.del_rej y h
      · exact hrej

/-! ### first queries -/

theorem firstQueries_quiet {E : Env S Unit π} {rank} {Good} (R : RunHyp E rank Good) {H0 : NT S Unit → List (π × Prog)}
    (fuel : Nat) :
    ∀ (nts : List (NT S Unit)) (s s' : St S Unit π), Quiet0 E H0 s → firstQueries E fuel nts s = some s' →
      ∀ (done : NT S Unit → Prop), (∀ nt, done nt → s.heapOf nt ≠ [] → s.succOf nt ≠ []) →
      Quiet0 E H0 s' ∧ (∀ nt, (done nt ∨ nt ∈ nts) → s'.heapOf nt ≠ [] → s'.succOf nt ≠ []) := by
  intro nts
  induction nts with
  | nil =>
    intro s s' q h done hd
    simp only [firstQueries, Option.some.injEq] at h
    subst h
    exact ⟨q, fun nt hn => by
      rcases hn with hn | hn
      · exact hd nt hn
      · cases hn⟩
  | cons nt0 rest ih =>
    intro s s' q h done hd
    unfold firstQueries at h
    split at h
    · simp at h
    · rename_i r hq
      have hb := big_of_query E (s' := r.1) (r := r.2) hq
      have hpre : OPre E H0 (.query nt0 none) s := by intro x hx; cases hx
      obtain ⟨q1, _⟩ := quiet0_query R q hpre hb
      have c := big_core R.law hb q.full trivial trivial hpre
      have hd1 : ∀ nt, (done nt ∨ nt = nt0) → r.1.heapOf nt ≠ [] → r.1.succOf nt ≠ [] := by
        intro nt hn hh
        rcases hn with hn | rfl
        · have hne : s.heapOf nt ≠ [] := by
            intro he
            exact hh (big_emptyStable E hb nt he (fun h => h)).1
          have := hd nt hn hne
          intro hempty
          cases hT : s.succOf nt with
          | nil => exact this hT
          | cons pr tl =>
            obtain ⟨k, v⟩ := pr
            have hl : AList.lookup k (s.succOf nt) = some v := by rw [hT]; simp [AList.lookup]
            have := c.stable nt k v hl
            rw [hempty] at this; simp at this
        · cases hr2 : r.2 with
          | some v =>
            intro hempty
            have := c.post v hr2
            rw [hempty] at this; simp at this
          | none => exact absurd (c.none_post hr2).2 hh
      obtain ⟨q', hfin⟩ := ih _ _ q1 h (fun nt => done nt ∨ nt = nt0) hd1
      refine ⟨q', ?_⟩
      intro nt hn
      apply hfin
      rcases hn with hn | hn
      · exact Or.inl (Or.inl hn)
      · rcases List.mem_cons.mp hn with rfl | hn'
        · exact Or.inl (Or.inr rfl)
        · exact Or.inr hn'

/-! ### the generator loop -/

/-- invariant of a started generator: `full` is what was popped for the start symbol so far -/
structure RG (E : Env S Unit π) (H0 : NT S Unit → List (π × Prog)) (g : Gen S Unit π) (full : List Prog) : Prop where
  quiet : Quiet E H0 g.st
  chain : chainFrom (g.st.succOf E.G.start) none full
  cur : g.current = lastOr none full

theorem nextLoop_run {E : Env S Unit π} {rank} {Good} (R : RunHyp E rank Good) {H0 : NT S Unit → List (π × Prog)}
    (fuel : Nat) :
    ∀ (k : Nat) (s : St S Unit π) (cur : Option Prog) (full : List Prog) (g' : Gen S Unit π) (r : Option Prog),
      Quiet E H0 s → chainFrom (s.succOf E.G.start) none full → cur = lastOr none full →
      nextLoop E fuel k s cur = some (g', r) →
      ∃ rej, RG E H0 g' (full ++ rej ++ r.toList) ∧ g'.started = true ∧ (∀ x ∈ rej, E.filter x = false) ∧
        (∀ p, r = some p → E.filter p = true) ∧
        (r = none → AList.lookup (lastOr none (full ++ rej)) (g'.st.succOf E.G.start) = none ∧
          g'.st.heapOf E.G.start = []) := by
  intro k
  induction k with
  | zero => intro s cur full g' r _ _ _ h; simp [nextLoop] at h
  | succ k ih =>
    intro s cur full g' r q hch hcur h
    unfold nextLoop at h
    have hpre : OPre E H0 (.query E.G.start cur) s := by
      intro x hx
      left
      rw [hcur] at hx
      rcases lastOr_mem none full with e | ⟨z, hz, e⟩
      · rw [e] at hx; cases hx
      · rw [e] at hx; cases hx
        exact chain_mem_value _ full none hch x hz
    have q0 : Quiet0 E H0 s := ⟨q.full, q.tinv, q.cinv, q.i3, q.init_seen, q.del_rej⟩
    split at h
    · simp at h
    · rename_i s1 hq
      have hb := big_of_query E hq
      obtain ⟨q1, hs1⟩ := quiet0_query R q0 hpre hb
      have c := big_core R.law hb q.full trivial trivial hpre
      simp only [Option.some.injEq, Prod.mk.injEq] at h
      obtain ⟨rfl, rfl⟩ := h
      refine ⟨[], ⟨q1.quiet (hs1 q.started), ?_, ?_⟩, rfl, (by intro x hx; cases hx), (by intro p hp; cases hp), ?_⟩
      · simp only [List.append_nil, Option.toList]
        exact chainFrom_stable (fun k v hk => c.stable _ k v hk) _ _ hch
      · simp only [List.append_nil, Option.toList]; exact hcur
      · intro _
        simp only [List.append_nil]
        rw [← hcur]
        exact c.none_post rfl
    · rename_i s1 p hq
      have hb := big_of_query E hq
      obtain ⟨q1, hs1⟩ := quiet0_query R q0 hpre hb
      have c := big_core R.law hb q.full trivial trivial hpre
      have hch1 : chainFrom (s1.succOf E.G.start) none (full ++ [p]) := by
        rw [chainFrom_snoc]
        exact ⟨chainFrom_stable (fun k v hk => c.stable _ k v hk) _ _ hch, by rw [← hcur]; exact c.post p rfl⟩
      have hq1 := q1.quiet (hs1 q.started)
      split at h
      · rename_i hacc
        simp only [Option.some.injEq, Prod.mk.injEq] at h
        obtain ⟨rfl, rfl⟩ := h
        refine ⟨[], ⟨hq1, ?_, ?_⟩, rfl, (by intro x hx; cases hx), ?_, (by intro hr; cases hr)⟩
        · simpa using hch1
        · simp [lastOr_snoc]
        · intro p' hp'; cases hp'; exact hacc
      · rename_i hrej
        have hrej' : E.filter p = false := by simpa using hrej
        have hq2 := quiet_addDeleted hq1 p hrej'
        have hsucc2 : (s1.addDeleted p).succOf E.G.start = s1.succOf E.G.start := by
          unfold St.addDeleted; split <;> rfl
        obtain ⟨rej, hrg, hst, hrejs, hacc, hnone⟩ := ih (s1.addDeleted p) (some p) (full ++ [p]) g' r hq2
          (by rw [hsucc2]; exact hch1) (by rw [lastOr_snoc]) h
        refine ⟨p :: rej, ?_, hst, ?_, hacc, ?_⟩
        · have : full ++ (p :: rej) ++ r.toList = full ++ [p] ++ rej ++ r.toList := by simp
          rw [this]; exact hrg
        · intro x hx
          rcases List.mem_cons.mp hx with rfl | hx'
          · exact hrej'
          · exact hrejs x hx'
        · intro hr
          have : full ++ (p :: rej) = full ++ [p] ++ rej := by simp
          rw [this]; exact hnone hr

end PS.HG
