/- The generator loop of heap search with a filter (generic priority, threshold): quiescent
   invariants across `query`, `self.deleted.add`, the first queries; the yielded sequence is the
   accepted part of the chain of `succ[start]`. -/
import PS.Proofs.Enum.GCached
import PS.Proofs.Enum.HSComplete
namespace PS.HG
open PS PS.G PS.HS
set_option linter.unusedSectionVars false
variable {S π : Type} [DecidableEq S]

/-! ### `HeapStarted` is an invariant -/

theorem hs_pop (E : Env S Unit π) (H0 : NT S Unit → List (π × Prog)) : PopStep E H0 HeapStarted := by
  intro s nt key e h' _ hP _ _ _ _ nt' hh
  rw [popTake_succOf]
  split
  · exact insert_ne_nil _ _ _
  · rename_i hne
    have : (s.popTake nt key e h').heapOf nt' = s.heapOf nt' := by
      show (s.setHeap nt h').heapOf nt' = _
      rw [St.heapOf_setHeap]; simp [hne]
    rw [this] at hh
    exact hP nt' hh

theorem hs_skip (E : Env S Unit π) (H0 : NT S Unit → List (π × Prog)) : SkipStep E H0 HeapStarted := by
  intro s nt e h' _ hP hp _ nt' hh
  show s.succOf nt' ≠ []
  rw [St.heapOf_setHeap] at hh
  split at hh
  · rename_i heq; subst heq
    apply hP
    intro he; rw [he] at hp; simp [Heapq.pop] at hp
  · exact hP nt' hh

theorem hs_push (E : Env S Unit π) (H0 : NT S Unit → List (π × Prog)) : PushStep E H0 HeapStarted := by
  intro s1 F args nt i r _ _ _ _ hP _ _ _ _ _ hne _ _ nt' hh
  obtain ⟨w1, _, w3, _⟩ := pushStep_views E s1 F args nt i r
  rw [w1]
  by_cases hnn : nt' = nt
  · subst hnn; exact hne
  · rw [(w3 nt' hnn).1] at hh; exact hP nt' hh

/-- static hypotheses of the run-level theorems -/
structure RunHyp (E : Env S Unit π) (rank : NT S Unit → Nat) (Good : π → Prop) : Prop where
  law : Law E rank Good
  wtotal : WTotal E
  nodrop : E.dropDeleted = false

theorem RunHyp.i3 {E : Env S Unit π} {rank} {Good} (R : RunHyp E rank Good) : I3Hyp E := ⟨R.wtotal, R.nodrop⟩

/-- a top-level `query` keeps the quiescent invariants -/
theorem quiet0_query {E : Env S Unit π} {rank} {Good} (R : RunHyp E rank Good) {H0 : NT S Unit → List (π × Prog)}
    {s s' : St S Unit π} {nt : NT S Unit} {p r : Option Prog}
    (q : Quiet0 E H0 s) (hpre : OPre E H0 (.query nt p) s) (hb : Big E (.query nt p) s s' r) :
    Quiet0 E H0 s' ∧ (HeapStarted s → HeapStarted s') := by
  have L := R.law
  have c := big_core L hb q.full trivial trivial hpre
  refine ⟨⟨c.full, big_tinv L hb q.full trivial trivial hpre q.tinv,
    big_cinv L R.wtotal hb q.full trivial trivial hpre q.cinv, ?_, ?_, ?_⟩, ?_⟩
  · intro nt' y hp
    rcases (big_i3 L R.i3 hb q.full q.cinv trivial trivial hpre).1 nt' y hp with hold | hd
    · exact (q.i3 nt' y hold).keep (fun _ _ _ _ _ a' _ => keeps_of_core hb c (argNT a') (fun h => h))
    · exact hd
  · intro nt' F ra hr
    obtain ⟨ms, hm, hfp⟩ := q.init_seen nt' F ra hr
    exact ⟨ms, c.seen _ _ hm, hfp⟩
  · intro p' hp'; rw [c.del] at hp'; exact q.del_rej p' hp'
  · intro hs
    exact big_prim L HeapStarted (hs_pop E H0) (hs_skip E H0) (hs_push E H0) hb q.full trivial trivial hpre hs

/-- `self.deleted.add(program)` for a rejected program keeps the quiescent invariants -/
theorem quiet_addDeleted {E : Env S Unit π} {H0 : NT S Unit → List (π × Prog)} {s : St S Unit π} (q : Quiet E H0 s)
    (p : Prog) (hrej : E.filter p = false) : Quiet E H0 (s.addDeleted p) := by
  unfold St.addDeleted
  split
  · exact q
  · -- only `deleted` changes
    have hdel : ∀ y, y ∈ s.deleted ++ [p] → y ∈ s.deleted ∨ y = p := by
      intro y hy
      rcases List.mem_append.mp hy with h | h
      · exact Or.inl h
      · exact Or.inr (by simpa using h)
    have hpop : ∀ nt y, Popped E { s with deleted := s.deleted ++ [p] } nt y → Popped E s nt y := by
      intro nt y hp
      rcases hp with hv | ⟨h1, h2, h3, py, hpy, hok⟩
      · exact Or.inl hv
      · rcases hdel y h3 with hd | rfl
        · exact Or.inr ⟨h1, h2, hd, py, hpy, hok⟩
        · rcases q.cinv.seen_cover nt y h1 with hh | hpp | ⟨pp, hpp, hno⟩
          · exact absurd hh h2
          · exact hpp
          · rw [hpy] at hpp; cases hpp; rw [hok] at hno; cases hno
    have hpop' : ∀ nt y, Popped E s nt y → Popped E { s with deleted := s.deleted ++ [p] } nt y := by
      intro nt y hp
      rcases hp with hv | ⟨h1, h2, h3, h4⟩
      · exact Or.inl hv
      · exact Or.inr ⟨h1, h2, List.mem_append_left _ h3, h4⟩
    refine ⟨⟨q.full.sinv.congr (fun _ => rfl) (fun _ => rfl) (fun _ => rfl) q.full.sinv.cache_ok,
        ⟨q.full.ninv.heap_nodup, q.full.ninv.heap_seen, q.full.ninv.succ_seen, q.full.ninv.succ_out, q.full.ninv.succ_inj⟩,
        q.full.hinv,
        ⟨q.full.oinv.below, q.full.oinv.link, q.full.oinv.val_prio, q.full.oinv.args, q.full.oinv.fresh, Or.inr q.started⟩⟩,
      ⟨q.tinv.kv, q.tinv.tip, q.tinv.none_first, q.tinv.reach, q.tinv.first_val⟩, ?_, ?_, q.started, q.init_seen, ?_⟩
    · refine ⟨?_, q.cinv.heap_ok, q.cinv.heap_cached, q.cinv.val_cached, q.cinv.args_cached⟩
      intro nt y hy
      rcases q.cinv.seen_cover nt y hy with hh | hpp | hthr
      · exact Or.inl hh
      · exact Or.inr (Or.inl (hpop' nt y hpp))
      · exact Or.inr (Or.inr hthr)
    · intro nt y hp
      exact q.i3 nt y (hpop nt y hp)
    · intro y hy
      rcases hdel y hy with h | rfl
      · exact q.del_rej y h
      · exact hrej

/-! ### first queries -/

theorem firstQueries_quiet {E : Env S Unit π} {rank} {Good} (R : RunHyp E rank Good) {H0 : NT S Unit → List (π × Prog)}
    (fuel : Nat) :
    ∀ (nts : List (NT S Unit)) (s s' : St S Unit π), Quiet0 E H0 s → firstQueries E fuel nts s = some s' →
      ∀ (done : NT S Unit → Prop), (∀ nt, done nt → s.heapOf nt ≠ [] → s.succOf nt ≠ []) →
      Quiet0 E H0 s' ∧ (∀ nt, (done nt ∨ nt ∈ nts) → s'.heapOf nt ≠ [] → s'.succOf nt ≠ []) ∧
      s'.deleted = s.deleted := by
  intro nts
  induction nts with
  | nil =>
    intro s s' q h done hd
    simp only [firstQueries, Option.some.injEq] at h
    subst h
    exact ⟨q, (fun nt hn => by
      rcases hn with hn | hn
      · exact hd nt hn
      · cases hn), rfl⟩
  | cons nt0 rest ih =>
    intro s s' q h done hd
    unfold firstQueries at h
    split at h
    · simp at h
    · rename_i r hq
      have hb := big_of_query E (s' := r.1) (r := r.2) hq
      have hpre : OPre E H0 (.query nt0 none) s := by intro x hx; cases hx
      obtain ⟨q1, _⟩ := quiet0_query R q hpre hb
      have c := big_core R.law hb q.full trivial trivial hpre
      have hd1 : ∀ nt, (done nt ∨ nt = nt0) → r.1.heapOf nt ≠ [] → r.1.succOf nt ≠ [] := by
        intro nt hn hh
        rcases hn with hn | rfl
        · have hne : s.heapOf nt ≠ [] := by
            intro he
            exact hh (big_emptyStable E hb nt he (fun h => h)).1
          have := hd nt hn hne
          intro hempty
          cases hT : s.succOf nt with
          | nil => exact this hT
          | cons pr tl =>
            obtain ⟨k, v⟩ := pr
            have hl : AList.lookup k (s.succOf nt) = some v := by rw [hT]; simp [AList.lookup]
            have := c.stable nt k v hl
            rw [hempty] at this; simp at this
        · cases hr2 : r.2 with
          | some v =>
            intro hempty
            have := c.post v hr2
            rw [hempty] at this; simp at this
          | none => exact absurd (c.none_post hr2).2 hh
      obtain ⟨q', hfin, hdel'⟩ := ih _ _ q1 h (fun nt => done nt ∨ nt = nt0) hd1
      refine ⟨q', ?_, hdel'.trans c.del⟩
      intro nt hn
      apply hfin
      rcases hn with hn | hn
      · exact Or.inl (Or.inl hn)
      · rcases List.mem_cons.mp hn with rfl | hn'
        · exact Or.inl (Or.inr rfl)
        · exact Or.inr hn'

/-! ### the generator loop -/

/-- invariant of a started generator: `full` is what was popped for the start symbol so far -/
structure RG (E : Env S Unit π) (H0 : NT S Unit → List (π × Prog)) (g : Gen S Unit π) (full : List Prog) : Prop where
  quiet : Quiet E H0 g.st
  chain : chainFrom (g.st.succOf E.G.start) none full
  cur : g.current = lastOr none full
  del_len : g.st.deleted.length ≤ full.length

theorem nextLoop_run {E : Env S Unit π} {rank} {Good} (R : RunHyp E rank Good) {H0 : NT S Unit → List (π × Prog)}
    (fuel : Nat) :
    ∀ (k : Nat) (s : St S Unit π) (cur : Option Prog) (full : List Prog) (g' : Gen S Unit π) (r : Option Prog),
      Quiet E H0 s → chainFrom (s.succOf E.G.start) none full → cur = lastOr none full →
      s.deleted.length ≤ full.length →
      nextLoop E fuel k s cur = some (g', r) →
      ∃ rej, RG E H0 g' (full ++ rej ++ r.toList) ∧ g'.started = true ∧ (∀ x ∈ rej, E.filter x = false) ∧
        (∀ p, r = some p → E.filter p = true) ∧
        (r = none → AList.lookup (lastOr none (full ++ rej)) (g'.st.succOf E.G.start) = none ∧
          g'.st.heapOf E.G.start = []) := by
  intro k
  induction k with
  | zero => intro s cur full g' r _ _ _ _ h; simp [nextLoop] at h
  | succ k ih =>
    intro s cur full g' r q hch hcur hdl h
    unfold nextLoop at h
    have hpre : OPre E H0 (.query E.G.start cur) s := by
      intro x hx
      left
      rw [hcur] at hx
      rcases lastOr_mem none full with e | ⟨z, hz, e⟩
      · rw [e] at hx; cases hx
      · rw [e] at hx; cases hx
        exact chain_mem_value _ full none hch x hz
    have q0 : Quiet0 E H0 s := ⟨q.full, q.tinv, q.cinv, q.i3, q.init_seen, q.del_rej⟩
    split at h
    · simp at h
    · rename_i s1 hq
      have hb := big_of_query E hq
      obtain ⟨q1, hs1⟩ := quiet0_query R q0 hpre hb
      have c := big_core R.law hb q.full trivial trivial hpre
      simp only [Option.some.injEq, Prod.mk.injEq] at h
      obtain ⟨rfl, rfl⟩ := h
      refine ⟨[], ⟨q1.quiet (hs1 q.started), ?_, ?_, ?_⟩, rfl, (by intro x hx; cases hx), (by intro p hp; cases hp), ?_⟩
      · simp only [List.append_nil, Option.toList]
        exact chainFrom_stable (fun k v hk => c.stable _ k v hk) _ _ hch
      · simp only [List.append_nil, Option.toList]; exact hcur
      · simp only [List.append_nil, Option.toList]
        show s1.deleted.length ≤ full.length
        rw [c.del]; exact hdl
      · intro _
        simp only [List.append_nil]
        rw [← hcur]
        exact c.none_post rfl
    · rename_i s1 p hq
      have hb := big_of_query E hq
      obtain ⟨q1, hs1⟩ := quiet0_query R q0 hpre hb
      have c := big_core R.law hb q.full trivial trivial hpre
      have hch1 : chainFrom (s1.succOf E.G.start) none (full ++ [p]) := by
        rw [chainFrom_snoc]
        exact ⟨chainFrom_stable (fun k v hk => c.stable _ k v hk) _ _ hch, by rw [← hcur]; exact c.post p rfl⟩
      have hq1 := q1.quiet (hs1 q.started)
      split at h
      · rename_i hacc
        simp only [Option.some.injEq, Prod.mk.injEq] at h
        obtain ⟨rfl, rfl⟩ := h
        refine ⟨[], ⟨hq1, ?_, ?_, ?_⟩, rfl, (by intro x hx; cases hx), ?_, (by intro hr; cases hr)⟩
        · simpa using hch1
        · simp [lastOr_snoc]
        · show s1.deleted.length ≤ (full ++ [] ++ (some p).toList).length
          rw [c.del]; simp; omega
        · intro p' hp'; cases hp'; exact hacc
      · rename_i hrej
        have hrej' : E.filter p = false := by simpa using hrej
        have hq2 := quiet_addDeleted hq1 p hrej'
        have hsucc2 : (s1.addDeleted p).succOf E.G.start = s1.succOf E.G.start := by
          unfold St.addDeleted; split <;> rfl
        have hdl2 : (s1.addDeleted p).deleted.length ≤ (full ++ [p]).length := by
          have h1 : s1.deleted.length ≤ full.length := by rw [c.del]; exact hdl
          unfold St.addDeleted
          split
          · simp; omega
          · simp; omega
        obtain ⟨rej, hrg, hst, hrejs, hacc, hnone⟩ := ih (s1.addDeleted p) (some p) (full ++ [p]) g' r hq2
          (by rw [hsucc2]; exact hch1) (by rw [lastOr_snoc]) hdl2 h
        refine ⟨p :: rej, ?_, hst, ?_, hacc, ?_⟩
        · have : full ++ (p :: rej) ++ r.toList = full ++ [p] ++ rej ++ r.toList := by simp
          rw [this]; exact hrg
        · intro x hx
          rcases List.mem_cons.mp hx with rfl | hx'
          · exact hrej'
          · exact hrejs x hx'
        · intro hr
          have : full ++ (p :: rej) = full ++ [p] ++ rej := by simp
          rw [this]; exact hnone hr

/-! ### the prologue (for every fuel) -/

theorem reevalPass_K (E : Env S Unit π) (rank : NT S Unit → Nat) (H : InitHyp E rank) (fuel : Nat) :
    ∀ (nts : List (NT S Unit)) (s : St S Unit π) (ch : Bool) (s' : St S Unit π) (ch' : Bool),
      KInv E s → MInv E s → s.initS = [] → reevalPass E fuel nts s ch = some (s', ch') →
      KInv E s' ∧ MInv E s' ∧ s'.initS = [] := by
  intro nts
  induction nts with
  | nil =>
    intro s ch s' ch' hk hm hi h
    simp only [reevalPass, Option.some.injEq, Prod.mk.injEq] at h
    obtain ⟨rfl, _⟩ := h
    exact ⟨hk, hm, hi⟩
  | cons nt rest ih =>
    intro s ch s' ch' hk hm hi h
    unfold reevalPass at h
    split at h
    · simp at h
    · rename_i s1 h1
      obtain ⟨k1, _, hi1, _, _⟩ := (init_K E rank H fuel).1 s nt s1 hk hm (by rw [hi]; intro x hx; cases hx) h1
      exact ih _ _ _ _ k1 (initNT_sound E H.rows hm h1).1 (hi1.trans hi) h

theorem reevaluate_K (E : Env S Unit π) (rank : NT S Unit → Nat) (H : InitHyp E rank) (fuel : Nat) :
    ∀ (k : Nat) (s s' : St S Unit π), KInv E s → MInv E s → s.initS = [] → reevaluate E fuel k s = some s' →
      KInv E s' ∧ MInv E s' := by
  intro k
  induction k with
  | zero => intro s s' _ _ _ h; simp [reevaluate] at h
  | succ k ih =>
    intro s s' hk hm hi h
    unfold reevaluate at h
    split at h
    · simp at h
    · rename_i s1 hp
      obtain ⟨k1, m1, i1⟩ := reevalPass_K E rank H fuel _ _ _ _ _ hk hm hi hp
      exact ih _ _ k1 m1 i1 h
    · rename_i s1 hp
      simp only [Option.some.injEq] at h
      subst h
      obtain ⟨k1, m1, _⟩ := reevalPass_K E rank H fuel _ _ _ _ _ hk hm hi hp
      exact ⟨k1, m1⟩

theorem kinv_empty (E : Env S Unit π) : KInv E (St.empty E.G) := by
  refine ⟨?_, ?_, ?_, ?_, ?_, ?_⟩
  · intro nt F prog ra h; simp [MR, St.empty] at h
  · intro nt rs m _ h; simp [MN, St.empty] at h
  · intro nt h; simp [St.empty] at h
  · intro nt P prog h; simp [MR, St.empty] at h
  · intro nt P prog h; simp [MR, St.empty] at h
  · intro nt P prog h; simp [MR, St.empty] at h

theorem cachedM_empty (E : Env S Unit π) : CachedM (St.empty (π := π) E.G) := by
  refine ⟨?_, ?_⟩
  · intro nt m h; simp [MN, St.empty] at h
  · intro nt P prog h; simp [MR, St.empty] at h

/-- **the state built by `__init_heap__` satisfies the quiescent invariants** (every fuel) -/
theorem preHeaps_quiet {E : Env S Unit π} {rank} {Good} (L : Law E rank Good) (HI : InitHyp E rank)
    (hkeys : (AList.keys E.G.rules).Nodup) (fuel : Nat) :
    ∀ s3, preHeaps E fuel (St.empty E.G) = some s3 →
      Quiet0 E s3.heapOf s3 ∧ (∀ nt, AList.lookup nt E.G.rules = none → s3.heapOf nt = []) ∧ s3.deleted = [] := by
  intro s3 h
  unfold preHeaps at h
  split at h
  · simp at h
  · rename_i s1 h1
    split at h
    · simp at h
    · rename_i s2 h2
      have hg := ginv_new E
      have hm0 : MInv E (St.empty E.G) := hg.2 rfl
      obtain ⟨k1, _, hi1, _, _⟩ := (init_K E rank HI fuel).1 _ _ s1 (kinv_empty E) hm0
        (by intro x hx; simp [St.empty] at hx) h1
      obtain ⟨hm1, hf1⟩ := initNT_sound E HI.rows hm0 h1
      obtain ⟨k2, hm2⟩ := reevaluate_K E rank HI fuel _ _ _ k1 hm1 (hi1.trans rfl) h2
      obtain ⟨_, hf2⟩ := reevaluate_sound E HI.rows fuel _ _ _ hm1 h2
      have hs2 : SInv E s2 := hf2.sinv (hf1.sinv hg.1 hm1.cache_ok) hm2.cache_ok
      have hfr := hf1.trans hf2
      have hempty : ∀ nt, s2.heapOf nt = [] ∧ s2.seenOf nt = [] ∧ s2.succOf nt = [] := by
        intro nt
        obtain ⟨f1, f2, _, f4, _⟩ := hfr
        refine ⟨?_, ?_, ?_⟩
        · unfold St.heapOf; rw [f1]; exact getD_lookup_map_const _ _ _
        · unfold St.seenOf; rw [f4]; exact getD_lookup_map_const _ _ _
        · unfold St.succOf; rw [f2]; exact getD_lookup_map_const _ _ _
      have hc1 := ((init_cached E fuel).1 _ _ _ h1 (cachedM_empty E)).1
      have hc2 := reevaluate_cached E fuel _ _ _ h2 hc1
      have f1 := (init_frame E fuel).1 _ _ _ h1
      have f2 := reevaluate_frame E fuel _ _ _ h2
      have hn2 : NInv s2 := f2.ninv (f1.ninv (ninv_empty E.G))
      obtain ⟨b1, b2⟩ := base_quiet L hkeys s2 s3 k2 hm2 hc2 hs2 hn2 hempty h
      exact ⟨b1, b2, (initHeaps_ninv E _ _ _ hn2 h).1.no_deleted⟩

/-- **the prologue of `generator()` leaves a quiescent state** (every fuel) -/
theorem prologue_quiet {E : Env S Unit π} {rank} {Good} (R : RunHyp E rank Good) (HI : InitHyp E rank)
    (hkeys : (AList.keys E.G.rules).Nodup) (fuel : Nat) :
    ∀ s0, prologue E fuel (St.empty E.G) = some s0 → ∃ H0, Quiet E H0 s0 ∧ s0.deleted = [] := by
  intro s0 hp
  rw [prologue_eq] at hp
  split at hp
  · simp at hp
  · rename_i s3 h3
    obtain ⟨q3, hnorow, hd3⟩ := preHeaps_quiet R.law HI hkeys fuel s3 h3
    obtain ⟨q0, hst, hd0⟩ := firstQueries_quiet R fuel _ _ _ q3 hp (fun nt => AList.lookup nt E.G.rules = none)
      (fun nt hn hh => absurd (hnorow nt hn) hh)
    refine ⟨s3.heapOf, q0.quiet ?_, hd0.trans hd3⟩
    intro nt hh
    apply hst nt _ hh
    cases hl : AList.lookup nt E.G.rules with
    | none => exact Or.inl rfl
    | some rs =>
      right
      exact (AList.lookup_isSome_iff_mem_keys (k := nt) (d := E.G.rules)).mp (by rw [hl]; rfl)

/-! ### chains -/

/-- a chain of a table whose links are in a relation that is transitive through values -/
theorem chain_sortedR (Tb : AList (Option Prog) Prog) (Rel : Prog → Prog → Prop)
    (htrans : ∀ a b c, (∃ k, AList.lookup k Tb = some b) → Rel a b → Rel b c → Rel a c)
    (hlink : ∀ k v, AList.lookup (some k) Tb = some v → Rel k v) :
    ∀ (l : List Prog) (prev : Option Prog), chainFrom Tb prev l →
      l.Pairwise Rel ∧ ∀ x, prev = some x → ∀ z ∈ l, Rel x z
  | [], _, _ => ⟨List.Pairwise.nil, fun _ _ z hz => by cases hz⟩
  | y :: ys, prev, h => by
    obtain ⟨ih1, ih2⟩ := chain_sortedR Tb Rel htrans hlink ys (some y) h.2
    refine ⟨List.Pairwise.cons (fun z hz => ih2 y rfl z hz) ih1, ?_⟩
    intro x hx z hz
    subst hx
    have hyx := hlink x y h.1
    rcases List.mem_cons.mp hz with rfl | hz
    · exact hyx
    · exact htrans _ _ _ ⟨_, h.1⟩ hyx (ih2 y rfl z hz)

/-- two chains from the same key: one is a prefix of the other -/
theorem chain_total (Tb : AList (Option Prog) Prog) :
    ∀ (l1 l2 : List Prog) (prev : Option Prog), chainFrom Tb prev l1 → chainFrom Tb prev l2 →
      (∃ r, l2 = l1 ++ r) ∨ (∃ r, l1 = l2 ++ r)
  | [], l2, _, _, _ => Or.inl ⟨l2, rfl⟩
  | y :: ys, [], _, _, _ => Or.inr ⟨y :: ys, rfl⟩
  | y :: ys, y' :: ys', prev, h1, h2 => by
    have : y' = y := by
      have a := h1.1; have b := h2.1
      rw [a] at b; exact (Option.some.inj b).symm
    subst this
    rcases chain_total Tb ys ys' (some y') h1.2 h2.2 with ⟨r, hr⟩ | ⟨r, hr⟩
    · exact Or.inl ⟨r, by rw [hr]; rfl⟩
    · exact Or.inr ⟨r, by rw [hr]; rfl⟩

/-- `b` is not better than `a` (priorities of the specification) -/
def NB (E : Env S Unit π) (nt : NT S Unit) (a b : Prog) : Prop :=
  ∀ pa pb, prioSpec E a nt = some pa → prioSpec E b nt = some pb → E.ops.lt pb pa = false

/-- `p` passes the threshold test -/
def Passes (E : Env S Unit π) (p : Prog) : Prop :=
  ∀ pp, prioSpec E p E.G.start = some pp → pushOK E.ops pp = true

theorem RG.nodup {E : Env S Unit π} {H0} {g : Gen S Unit π} {full : List Prog} (h : RG E H0 g full) : full.Nodup :=
  chainFrom_nodup _ (fun k k' v h1 h2 => h.quiet.full.ninv.succ_inj _ k k' v h1 h2) full none h.chain
    (fun z _ e => by cases e)

theorem quiet_chain_sorted {E : Env S Unit π} {rank} {Good} (L : Law E rank Good) {H0} {s : St S Unit π}
    {full : List Prog} (Q : Quiet E H0 s) (hch : chainFrom (s.succOf E.G.start) none full) :
    full.Pairwise (NB E E.G.start) := by
  refine (chain_sortedR (s.succOf E.G.start) (NB E E.G.start) ?_ ?_ full none hch).1
  · intro a b c ⟨k, hk⟩ hab hbc pa pc hpa hpc
    have hv := Q.full.oinv.val_prio _ k b hk
    cases hpb : prioSpec E b E.G.start with
    | none => rw [hpb] at hv; cases hv
    | some pb =>
      exact L.weak.ntrans (L.good _ _ _ hpa) (L.good _ _ _ hpb) (L.good _ _ _ hpc) (hab pa pb hpa hpb) (hbc pb pc hpb hpc)
  · intro k v hk pk pv hpk hpv
    exact Q.full.oinv.link _ k v pk pv hk hpk hpv

theorem RG.sorted {E : Env S Unit π} {rank} {Good} (L : Law E rank Good) {H0} {g : Gen S Unit π} {full : List Prog}
    (h : RG E H0 g full) : full.Pairwise (NB E E.G.start) := quiet_chain_sorted L h.quiet h.chain

/-- **prefix completeness**: a clean member that passes the threshold and is strictly better than
    something already popped has been popped -/
theorem RG.prefix_complete {E : Env S Unit π} {rank} {Good} (H : FrHyp E rank Good) {H0} {g : Gen S Unit π}
    {full : List Prog} (h : RG E H0 g full) (p q : Prog) (pp pq : π) (hq : q ∈ full)
    (hg : gen E.G p E.G.start = true) (hcl : clean E.filter p = true) (hpp : prioSpec E p E.G.start = some pp)
    (hok : pushOK E.ops pp = true) (hpq : prioSpec E q E.G.start = some pq) (hlt : E.ops.lt pp pq = true) :
    p ∈ full := by
  have L := H.law
  have hval : ∃ k, AList.lookup k (g.st.succOf E.G.start) = some p := by
    apply Classical.byContradiction
    intro hno
    obtain ⟨kq, hkq⟩ := chain_mem_value _ full none h.chain q hq
    have := not_better_than_popped H h.quiet E.G.start p pp hg hcl hpp hok
      (fun k hk => hno ⟨k, hk⟩) kq q pq hkq hpq
    rw [this] at hlt; cases hlt
  obtain ⟨k, hk⟩ := hval
  obtain ⟨l, hl, _⟩ := h.quiet.tinv.reach _ k p hk
  rcases chain_total _ (l ++ [p]) full none hl h.chain with ⟨r, hr⟩ | ⟨r, hr⟩
  · rw [hr]; simp
  · -- `full` is a proper prefix of the chain that reaches `p`: `q` comes before `p`
    have hmem : p ∈ full ++ r := by rw [← hr]; simp
    rcases List.mem_append.mp hmem with h1 | h2
    · exact h1
    · exfalso
      have hs := quiet_chain_sorted L h.quiet hl
      rw [hr] at hs
      have := (List.pairwise_append.mp hs).2.2 q hq p h2 pq pp hpq hpp
      rw [this] at hlt; cases hlt

/-- **completeness at the end**: when the heap of the start symbol is exhausted and the chain
    cannot be extended, every clean member that passes the threshold is on the chain -/
theorem RG.stop_complete {E : Env S Unit π} {rank} {Good} (H : FrHyp E rank Good) {H0} {g : Gen S Unit π}
    {full : List Prog} (h : RG E H0 g full)
    (hend : AList.lookup (lastOr none full) (g.st.succOf E.G.start) = none) (hempty : g.st.heapOf E.G.start = [])
    (p : Prog) (pp : π) (hg : gen E.G p E.G.start = true) (hcl : clean E.filter p = true)
    (hpp : prioSpec E p E.G.start = some pp) (hok : pushOK E.ops pp = true) : p ∈ full := by
  obtain ⟨k, hk⟩ := exhausted_complete H h.quiet E.G.start hempty p pp hg hcl hpp hok
  obtain ⟨l, hl, _⟩ := h.quiet.tinv.reach _ k p hk
  exact chain_prefix _ (l ++ [p]) full none h.chain hl hend p (by simp)

/-! ### `next` and `take` -/

structure AllHyp (E : Env S Unit π) (rank : NT S Unit → Nat) (Good : π → Prop) : Prop where
  run : RunHyp E rank Good
  init : InitHyp E rank
  keys : (AList.keys E.G.rules).Nodup
  subok : SubOK E

theorem AllHyp.fr {E : Env S Unit π} {rank} {Good} (A : AllHyp E rank Good) : FrHyp E rank Good :=
  ⟨A.run.law, A.run.wtotal, A.subok⟩

theorem next_run {E : Env S Unit π} {rank} {Good} (A : AllHyp E rank Good) (fuel : Nat) (g g' : Gen S Unit π)
    (r : Option Prog) (full : List Prog)
    (hst : g.started = true → ∃ H0, RG E H0 g full)
    (hns : g.started = false → g.st = St.empty E.G ∧ g.current = none ∧ full = [])
    (h : next E fuel g = some (g', r)) :
    ∃ H0 rej, RG E H0 g' (full ++ rej ++ r.toList) ∧ g'.started = true ∧ (∀ x ∈ rej, E.filter x = false) ∧
      (∀ p, r = some p → E.filter p = true) ∧
      (r = none → AList.lookup (lastOr none (full ++ rej)) (g'.st.succOf E.G.start) = none ∧
        g'.st.heapOf E.G.start = []) := by
  unfold next at h
  split at h
  · rename_i hs
    obtain ⟨H0, hrg⟩ := hst hs
    obtain ⟨rej, a, a', b, c, d⟩ := nextLoop_run A.run fuel fuel g.st g.current full g' r hrg.quiet hrg.chain hrg.cur hrg.del_len h
    exact ⟨H0, rej, a, a', b, c, d⟩
  · rename_i hs
    have hs' : g.started = false := by simpa using hs
    obtain ⟨e1, e2, e3⟩ := hns hs'
    split at h
    · simp at h
    · rename_i s0 hp
      rw [e1] at hp
      obtain ⟨H0, q0, hd0⟩ := prologue_quiet A.run A.init A.keys fuel s0 hp
      subst e3
      obtain ⟨rej, a, a', b, c, d⟩ := nextLoop_run A.run fuel fuel s0 g.current [] g' r q0 trivial
        (by rw [e2]; rfl) (by rw [hd0]; exact Nat.le_refl _) h
      exact ⟨H0, rej, a, a', b, c, d⟩

/-- what is known after `take`: `out` is the accepted part of the chain `full` popped for the start symbol -/
def TakeR (E : Env S Unit π) (g' : Gen S Unit π) (out : List Prog) (b : Bool) : Prop :=
  (out = [] ∧ b = false) ∨
  ∃ H0 full, RG E H0 g' full ∧ out = full.filter E.filter ∧
    (b = true → AList.lookup (lastOr none full) (g'.st.succOf E.G.start) = none ∧ g'.st.heapOf E.G.start = [])

theorem take_run {E : Env S Unit π} {rank} {Good} (A : AllHyp E rank Good) (fuel : Nat) :
    ∀ (k : Nat) (g : Gen S Unit π) (acc full : List Prog) (g' : Gen S Unit π) (out : List Prog) (b : Bool),
      acc = full.filter E.filter →
      (g.started = true → ∃ H0, RG E H0 g full) →
      (g.started = false → g.st = St.empty E.G ∧ g.current = none ∧ full = []) →
      take E fuel k g acc = some (g', out, b) → TakeR E g' out b := by
  intro k
  induction k with
  | zero =>
    intro g acc full g' out b hacc hst hns h
    simp only [take, Option.some.injEq, Prod.mk.injEq] at h
    obtain ⟨rfl, rfl, rfl⟩ := h
    cases hs : g.started with
    | false =>
      left
      obtain ⟨_, _, e3⟩ := hns hs
      rw [hacc, e3]; exact ⟨rfl, rfl⟩
    | true =>
      right
      obtain ⟨H0, hrg⟩ := hst hs
      exact ⟨H0, full, hrg, hacc, fun hb => by cases hb⟩
  | succ k ih =>
    intro g acc full g' out b hacc hst hns h
    unfold take at h
    split at h
    · simp at h
    · rename_i g1 hn
      simp only [Option.some.injEq, Prod.mk.injEq] at h
      obtain ⟨rfl, rfl, rfl⟩ := h
      obtain ⟨H0, rej, hrg, _, hrej, _, hnone⟩ := next_run A fuel g _ none full hst hns hn
      right
      simp only [Option.toList, List.append_nil] at hrg
      refine ⟨H0, full ++ rej, hrg, ?_, fun _ => hnone rfl⟩
      rw [List.filter_append, ← hacc]
      have : rej.filter E.filter = [] := by
        apply List.filter_eq_nil_iff.mpr
        intro x hx; rw [hrej x hx]; simp
      rw [this, List.append_nil]
    · rename_i g1 p hn
      obtain ⟨H0, rej, hrg, hstarted, hrej, hacc', _⟩ := next_run A fuel g _ (some p) full hst hns hn
      apply ih g1 (acc ++ [p]) (full ++ rej ++ [p]) g' out b ?_ (fun _ => ⟨H0, hrg⟩)
        (fun hf => by rw [hstarted] at hf; cases hf) h
      rw [List.filter_append, List.filter_append, ← hacc]
      have : rej.filter E.filter = [] := by
        apply List.filter_eq_nil_iff.mpr
        intro x hx; rw [hrej x hx]; simp
      rw [this, List.append_nil]
      simp [hacc' p rfl]

theorem take_new_run {E : Env S Unit π} {rank} {Good} (A : AllHyp E rank Good) (fuel k : Nat)
    (g' : Gen S Unit π) (out : List Prog) (b : Bool)
    (h : take E fuel k (Gen.new E.G) [] = some (g', out, b)) : TakeR E g' out b :=
  take_run A fuel k (Gen.new E.G) [] [] g' out b rfl (fun hs => by cases hs) (fun _ => ⟨rfl, rfl, rfl⟩) h

/-- **safety with a filter and a threshold**: the yielded programs are accepted, pairwise distinct
    and in best-first order -/
theorem take_safe {E : Env S Unit π} {rank} {Good} (A : AllHyp E rank Good) (fuel k : Nat)
    (g' : Gen S Unit π) (out : List Prog) (b : Bool)
    (h : take E fuel k (Gen.new E.G) [] = some (g', out, b)) :
    out.Nodup ∧ (∀ p ∈ out, E.filter p = true) ∧ out.Pairwise (NB E E.G.start) := by
  rcases take_new_run A fuel k g' out b h with ⟨rfl, _⟩ | ⟨H0, full, hrg, rfl, _⟩
  · exact ⟨List.nodup_nil, (fun p hp => by cases hp), List.Pairwise.nil⟩
  · refine ⟨hrg.nodup.filter _, fun p hp => (List.mem_filter.mp hp).2, ?_⟩
    exact (RG.sorted A.run.law hrg).sublist List.filter_sublist

/-- **prefix completeness** (every prefix of the run) -/
theorem take_prefix_complete {E : Env S Unit π} {rank} {Good} (A : AllHyp E rank Good) (fuel k : Nat)
    (g' : Gen S Unit π) (out : List Prog) (b : Bool)
    (h : take E fuel k (Gen.new E.G) [] = some (g', out, b)) (p q : Prog) (pp pq : π) (hq : q ∈ out)
    (hg : gen E.G p E.G.start = true) (hcl : clean E.filter p = true) (hpp : prioSpec E p E.G.start = some pp)
    (hok : pushOK E.ops pp = true) (hpq : prioSpec E q E.G.start = some pq) (hlt : E.ops.lt pp pq = true) :
    p ∈ out := by
  rcases take_new_run A fuel k g' out b h with ⟨rfl, _⟩ | ⟨H0, full, hrg, rfl, _⟩
  · cases hq
  · exact List.mem_filter.mpr ⟨hrg.prefix_complete A.fr p q pp pq (List.mem_filter.mp hq).1 hg hcl hpp hok hpq hlt,
      clean_self _ _ hcl⟩

/-- **completeness relative to the filter and the threshold** when the generator has stopped -/
theorem take_stop_complete {E : Env S Unit π} {rank} {Good} (A : AllHyp E rank Good) (fuel k : Nat)
    (g' : Gen S Unit π) (out : List Prog)
    (h : take E fuel k (Gen.new E.G) [] = some (g', out, true)) (p : Prog) (pp : π)
    (hg : gen E.G p E.G.start = true) (hcl : clean E.filter p = true) (hpp : prioSpec E p E.G.start = some pp)
    (hok : pushOK E.ops pp = true) : p ∈ out := by
  rcases take_new_run A fuel k g' out true h with ⟨_, hb⟩ | ⟨H0, full, hrg, rfl, hstop⟩
  · cases hb
  · obtain ⟨h1, h2⟩ := hstop rfl
    exact List.mem_filter.mpr ⟨hrg.stop_complete A.fr h1 h2 p pp hg hcl hpp hok, clean_self _ _ hcl⟩

end PS.HG
