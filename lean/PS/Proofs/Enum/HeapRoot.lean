/- Tie-breaking of heapq: `heappush` replaces the root only by a STRICTLY smaller element, so the
   root of a heap built by successive pushes is the first minimum in push order — the same choice
   as a left-to-right scan with a strict `<` (what `__compute_max_prio__` does). -/
import PS.Proofs.Enum.HeapInv
namespace PS.Heapq
variable {α : Type}

/-- one step of a left-to-right scan for the first minimum -/
def bestStep (lt : α → α → Bool) (b : Option α) (x : α) : Option α :=
  match b with
  | none => some x
  | some b => if lt x b then some x else some b

/-- below the position being sifted, the root is a minimum -/
theorem sdInv_root_le {lt : α → α → Bool} (w : WeakOrder lt) (l : List α) (pos : Nat) (hinv : SdInv lt l pos) :
    ∀ j, j < pos → LE lt l 0 j := by
  intro j
  induction j using Nat.strongRecOn with
  | _ j ih =>
    intro hj a b ha hb
    by_cases h0 : j = 0
    · subst h0; rw [ha] at hb; cases hb; exact w.irrefl _
    · have hpl : (j - 1) / 2 < j := by omega
      have hjl : j < l.length := (List.getElem?_eq_some_iff.mp hb).1
      have hp : (j - 1) / 2 < l.length := by omega
      have h1 := ih _ hpl (by omega) a (l[(j - 1) / 2]'hp) ha (List.getElem?_eq_getElem hp)
      have h2 := hinv.1 j (by omega) (by omega) (l[(j - 1) / 2]'hp) b (List.getElem?_eq_getElem hp) hb
      exact w.ntrans _ _ _ h1 h2

theorem siftdown_root {lt : α → α → Bool} (w : WeakOrder lt) :
    ∀ (fuel : Nat) (l : List α) (pos : Nat) (x r : α), pos ≤ fuel → SdInv lt l pos →
      l[pos]? = some x → l[0]? = some r →
      (siftdown lt fuel l pos)[0]? = some (if pos = 0 then x else if lt x r then x else r) := by
  intro fuel
  induction fuel with
  | zero =>
    intro l pos x r hf _ hx hr
    have : pos = 0 := by omega
    subst this
    simp only [siftdown, if_true]
    exact hx
  | succ n ih =>
    intro l pos x r hf hinv hx hr
    unfold siftdown
    by_cases hp : pos = 0
    · subst hp; simp only [if_true]; exact hx
    · simp only [hp, if_false]
      have hpos : 0 < pos := by omega
      have hpl : pos < l.length := (List.getElem?_eq_some_iff.mp hx).1
      have hparl : (pos - 1) / 2 < l.length := by omega
      cases hlt : ltAt lt l pos ((pos - 1) / 2) with
      | false =>
        simp only [Bool.false_eq_true, if_false]
        rw [hr]
        have h1 : lt x (l[(pos - 1) / 2]'hparl) = false :=
          ltAt_false lt l _ _ hlt x _ hx (List.getElem?_eq_getElem hparl)
        have h2 : lt (l[(pos - 1) / 2]'hparl) r = false :=
          sdInv_root_le w l pos hinv _ (by omega) r _ hr (List.getElem?_eq_getElem hparl)
        have : lt x r = false := w.ntrans _ _ _ h2 h1
        simp [this]
      | true =>
        simp only [if_true]
        obtain ⟨x', y, hx', hy, hxy⟩ := ltAt_true lt l _ _ hlt
        rw [hx] at hx'; cases hx'
        have hsw := fun k => getElem?_swap l pos ((pos - 1) / 2) k hpl hparl
        -- the invariant of the recursive call is the one established in `siftdown_isHeap`
        have hinv' : SdInv lt (swap l pos ((pos - 1) / 2)) ((pos - 1) / 2) := by
          refine ⟨?_, ?_⟩
          · intro i hi hne a b ha hb
            rw [hsw] at ha hb
            by_cases hi1 : i = pos
            · subst hi1
              simp only [if_true] at ha
              have : ¬ (i = (i - 1) / 2) := by omega
              simp only [this, if_false, if_true] at hb
              rw [hx] at ha; rw [hy] at hb
              cases ha; cases hb
              exact w.asymm _ _ hxy
            · have hb' : l[i]? = some b := by simpa [hne, hi1] using hb
              by_cases hi2 : (i - 1) / 2 = pos
              · have : ¬ (pos = (pos - 1) / 2) := by omega
                rw [hi2] at ha
                simp only [this, if_false, if_true] at ha
                exact hinv.2 hpos i hi hi2 a b ha hb'
              · by_cases hi3 : (i - 1) / 2 = (pos - 1) / 2
                · rw [hi3] at ha
                  simp only [if_true] at ha
                  rw [hx] at ha; cases ha
                  have h1 : lt b y = false := hinv.1 i hi hi1 y b (by rw [hi3]; exact hy) hb'
                  have h2 : lt y x = false := w.asymm _ _ hxy
                  exact w.ntrans _ _ _ h2 h1
                · have ha' : l[(i - 1) / 2]? = some a := by simpa [hi2, hi3] using ha
                  exact hinv.1 i hi hi1 a b ha' hb'
          · intro hpar c hc hcp a b ha hb
            rw [hsw] at ha hb
            have e1 : ¬ (((pos - 1) / 2 - 1) / 2 = (pos - 1) / 2) := by omega
            have e2 : ¬ (((pos - 1) / 2 - 1) / 2 = pos) := by omega
            have ha' : l[((pos - 1) / 2 - 1) / 2]? = some a := by simpa [e1, e2] using ha
            have hpy : lt y a = false := hinv.1 ((pos - 1) / 2) hpar (by omega) a y ha' hy
            by_cases hc1 : c = pos
            · subst hc1
              have : ¬ (c = (c - 1) / 2) := by omega
              simp only [this, if_false, if_true] at hb
              rw [hy] at hb; cases hb
              exact hpy
            · have : ¬ (c = (pos - 1) / 2) := by omega
              have hb' : l[c]? = some b := by simpa [this, hc1] using hb
              have h1 : lt b y = false := hinv.1 c hc hc1 y b (by rw [hcp]; exact hy) hb'
              exact w.ntrans _ _ _ hpy h1
        have hxp : (swap l pos ((pos - 1) / 2))[(pos - 1) / 2]? = some x := by
          rw [hsw]; simp only [if_true]; exact hx
        by_cases hpar0 : (pos - 1) / 2 = 0
        · -- the parent is the root: `x < r`
          have hr' : (swap l pos ((pos - 1) / 2))[0]? = some x := by rw [← hpar0]; exact hxp
          have := ih _ _ x x (by omega) hinv' hxp hr'
          rw [this]
          rw [hpar0] at hy
          rw [hr] at hy; cases hy
          simp [hpar0, hxy]
        · have hr' : (swap l pos ((pos - 1) / 2))[0]? = some r := by
            rw [hsw]
            have e1 : ¬ (0 = (pos - 1) / 2) := by omega
            have e2 : ¬ (0 = pos) := by omega
            simp only [e1, e2, if_false]; exact hr
          have := ih _ _ x r (by omega) hinv' hxp hr'
          rw [this]
          simp [hpar0]

/-- **`heappush` keeps the root unless the new element is strictly smaller** -/
theorem push_head {lt : α → α → Bool} (w : WeakOrder lt) (h : List α) (x : α) (hh : IsHeap lt h) :
    (push lt h x).head? = bestStep lt h.head? x := by
  unfold push
  have hinv : SdInv lt (h ++ [x]) h.length := by
    rw [isHeap_iff] at hh
    refine ⟨?_, ?_⟩
    · intro i hi hne a b ha hb
      have hil : i < (h ++ [x]).length := (List.getElem?_eq_some_iff.mp hb).1
      simp only [List.length_append, List.length_singleton] at hil
      have hil' : i < h.length := by omega
      rw [List.getElem?_append_left hil'] at hb
      rw [List.getElem?_append_left (by omega)] at ha
      exact hh i hi a b ha hb
    · intro _ c hc hcp a b ha hb
      have hcl : c < (h ++ [x]).length := (List.getElem?_eq_some_iff.mp hb).1
      simp only [List.length_append, List.length_singleton] at hcl
      omega
  have hx : (h ++ [x])[h.length]? = some x := by simp
  cases h with
  | nil =>
    have := siftdown_root w 1 [x] 0 x x (by omega) (by simpa using hinv) rfl rfl
    rw [List.head?_eq_getElem?]
    simpa [bestStep] using this
  | cons r rest =>
    have hr : ((r :: rest) ++ [x])[0]? = some r := rfl
    have := siftdown_root w ((r :: rest).length + 1) _ _ x r (by omega) hinv hx hr
    rw [List.head?_eq_getElem?, this]
    simp only [List.length_cons, Nat.add_one_ne_zero, if_false, bestStep, List.head?_cons]
    split <;> rfl

theorem foldl_push_head {lt : α → α → Bool} (w : WeakOrder lt) (xs : List α) :
    ∀ h, IsHeap lt h → (xs.foldl (push lt) h).head? = xs.foldl (bestStep lt) h.head? := by
  induction xs with
  | nil => intro h _; rfl
  | cons x r ih =>
    intro h hh
    simp only [List.foldl_cons]
    rw [ih _ (push_isHeap w h x hh), push_head w h x hh]

/-- `heappop` returns the root -/
theorem pop_head (lt : α → α → Bool) (h : List α) (e : α) (h' : List α) (hp : pop lt h = some (e, h')) :
    h.head? = some e := by
  unfold pop at hp
  cases hl : h.getLast? with
  | none => simp [hl] at hp
  | some last =>
    have hne : h ≠ [] := by intro e; simp [e] at hl
    have hdl : h = h.dropLast ++ [last] := by
      have h1 := List.dropLast_concat_getLast hne
      have h2 : h.getLast hne = last := by
        have := List.getLast?_eq_some_getLast hne
        rw [hl] at this; exact (Option.some.inj this).symm
      rw [h2] at h1; exact h1.symm
    simp only [hl] at hp
    cases hd : h.dropLast with
    | nil =>
      simp only [hd, Option.some.injEq, Prod.mk.injEq] at hp
      rw [hdl, hd, ← hp.1]; rfl
    | cons top rest =>
      simp only [hd, Option.some.injEq, Prod.mk.injEq] at hp
      rw [hdl, hd, ← hp.1]; rfl

end PS.Heapq
