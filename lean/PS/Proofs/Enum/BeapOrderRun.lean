/- Order of the yielded sequence of beap search, relative to the cost list of the start symbol: the
   k-th yielded program has cost `_cost_lists[start][i_k]` for a non-decreasing sequence of indices
   `i_k`; hence the yielded costs are non-decreasing whenever the (final) cost list of the start symbol
   is non-decreasing — a Boolean check on the final state. -/
import PS.Proofs.Enum.BeapShape
import PS.Model.Enum.BeapSpec
namespace PS.Beap
open PS PS.G PS.Heapq
set_option linter.unusedSectionVars false
variable {S : Type} [DecidableEq S]

/-- program `p` was yielded at index `i`: its cost is `_cost_lists[start][i]` -/
def YieldAt (E : Env S) (s : St S) (p : Prog) (i : Nat) : Prop :=
  ∃ c, (s.clOf E.G.start)[i]? = some c ∧ costOf E p E.G.start = some c.fin

theorem next_cost (E : Env S) (hnd : RowsNodup E.G) (hst : StableAfter E) (hprod : Productive E) (fuel : Nat)
    (g : Gen S) (r : Gen S × Option Prog) (hg : GC E g) (hfresh : g.started = false → g.st = St.empty E.G ∧ g.frame = none)
    (h : next E fuel g = some r) :
    GC E r.1 ∧ Ext g.st r.1.st ∧ (g.started = true → g.n ≤ r.1.n) ∧
    ∀ p, r.2 = some p → r.1.started = true ∧ YieldAt E r.1.st p r.1.n := by
  unfold next at h
  split at h
  · cases h; exact ⟨hg, Ext.refl _, fun _ => Nat.le_refl _, fun p hp => by cases hp⟩
  · split at h
    · obtain ⟨q1, q2, q3, q4⟩ := nextLoop_cost E fuel _ _ _ _ _ _ hg.1 hg.2 h
      exact ⟨q1, q2, fun _ => q3, fun p hp => ⟨nextLoop_started E fuel _ _ _ _ _ _ h, q4 p hp⟩⟩
    · next hns =>
      have hns' : g.started = false := by simpa using hns
      obtain ⟨hst0, _⟩ := hfresh hns'
      split at h
      · cases h
      · next s hp =>
        rw [hst0] at hp
        have hs : CInv E s := prologue_cinv E hnd hst hprod fuel s hp
        obtain ⟨q1, q2, q3, q4⟩ := nextLoop_cost E fuel _ _ _ _ _ _ hs (fun fr he => by cases he) h
        have hx : Ext g.st s := by
          intro nt
          rw [hst0]
          have : (St.empty E.G).clOf nt = [] := lookup_map_nil E.G.rules nt
          rw [this]; exact List.nil_prefix
        exact ⟨q1, hx.trans q2, fun (hc : g.started = true) => (by rw [hns'] at hc; cases hc),
          fun p hp => ⟨nextLoop_started E fuel _ _ _ _ _ _ h, q4 p hp⟩⟩
where
  nextLoop_started (E : Env S) (fuel : Nat) : ∀ (k : Nat) (s : St S) (n : Nat) (failed : Bool) (fro : Option Frame)
      (r : Gen S × Option Prog), nextLoop E fuel k s n failed fro = some r → r.1.started = true := by
    intro k
    induction k with
    | zero => intro s n failed fro r h; simp [nextLoop] at h
    | succ k ih =>
      intro s n failed fro r h
      cases fro with
      | some fr =>
        simp only [nextLoop] at h
        split at h
        · cases h
        · cases h; rfl
        · split at h
          · cases h; rfl
          · exact ih _ _ _ _ _ h
      | none =>
        simp only [nextLoop] at h
        split at h
        · cases h; rfl
        · exact ih _ _ _ _ _ h

theorem YieldAt.ext {E : Env S} {s s' : St S} {p : Prog} {i : Nat} (h : YieldAt E s p i) (he : Ext s s') : YieldAt E s' p i :=
  let ⟨c, h1, h2⟩ := h; ⟨c, he.get _ _ _ h1, h2⟩

/-- the sequence produced by `take`: each program is tagged with the index at which it was yielded;
    the indices are non-decreasing -/
theorem take_index (E : Env S) (hnd : RowsNodup E.G) (hst : StableAfter E) (hprod : Productive E) (fuel : Nat) :
    ∀ (k : Nat) (g : Gen S) (acc : List Prog) (idx : List Nat) (r : Gen S × List Prog × Bool),
      GC E g → (g.started = false → g.st = St.empty E.G ∧ g.frame = none ∧ acc = []) →
      All2 (YieldAt E g.st) acc idx → idx.Pairwise (· ≤ ·) → (∀ i ∈ idx, g.started = true ∧ i ≤ g.n) →
      take E fuel k g acc = some r →
      ∃ idx', All2 (YieldAt E r.1.st) r.2.1 idx' ∧ idx'.Pairwise (· ≤ ·) ∧ GC E r.1 := by
  intro k
  induction k with
  | zero =>
    intro g acc idx r hg _ ha hp _ h
    simp only [take] at h; cases h
    exact ⟨idx, ha, hp, hg⟩
  | succ k ih =>
    intro g acc idx r hg hfresh ha hp hle h
    simp only [take] at h
    split at h
    · cases h
    · next g' hn =>
      cases h
      obtain ⟨q1, q2, _, _⟩ := next_cost E hnd hst hprod fuel g _ hg (fun hs => ⟨(hfresh hs).1, (hfresh hs).2.1⟩) hn
      exact ⟨idx, ha.mono (fun _ _ hr => hr.ext q2), hp, q1⟩
    · next g' p hn =>
      obtain ⟨q1, q2, q3, q5'⟩ := next_cost E hnd hst hprod fuel g _ hg (fun hs => ⟨(hfresh hs).1, (hfresh hs).2.1⟩) hn
      have hst' : g'.started = true := (q5' p rfl).1
      have q5 : ∀ p', some p = some p' → YieldAt E g'.st p' g'.n := fun p' hp' => (q5' p' hp').2
      refine ih g' (acc ++ [p]) (idx ++ [g'.n]) r q1 (fun hs => by rw [hst'] at hs; cases hs) ?_ ?_ ?_ h
      · exact (ha.mono (fun _ _ hr => hr.ext q2)).append (All2.cons (q5 p rfl) All2.nil)
      · rw [List.pairwise_append]
        refine ⟨hp, List.pairwise_singleton _ _, fun a ha' b hb => ?_⟩
        simp only [List.mem_singleton] at hb; subst hb
        obtain ⟨hs, hle'⟩ := hle a ha'
        exact Nat.le_trans hle' (q3 hs)
      · intro i hi
        rcases List.mem_append.mp hi with hi | hi
        · obtain ⟨hs, hle'⟩ := hle i hi
          exact ⟨hst', Nat.le_trans hle' (q3 hs)⟩
        · simp only [List.mem_singleton] at hi; subst hi; exact ⟨hst', Nat.le_refl _⟩

/-- `_cost_lists[start]` is non-decreasing (a check on a state) -/
def ClSorted (E : Env S) (s : St S) : Prop :=
  ∀ (i j : Nat) (x y : Cost), i ≤ j → (s.clOf E.G.start)[i]? = some x → (s.clOf E.G.start)[j]? = some y → x.fin ≤ y.fin

/-- yielded at non-decreasing indices of a non-decreasing cost list ⇒ non-decreasing costs -/
theorem sorted_of_index (E : Env S) (s : St S) (hs : ClSorted E s) : ∀ (ys : List Prog) (idx : List Nat),
    All2 (YieldAt E s) ys idx → idx.Pairwise (· ≤ ·) →
    ys.Pairwise (fun p q => ∀ a b, costOf E p E.G.start = some a → costOf E q E.G.start = some b → a ≤ b) := by
  intro ys idx h
  induction h with
  | nil => intro _; exact List.Pairwise.nil
  | @cons p i ps is hpi hrest ih =>
    intro hp
    rw [List.pairwise_cons] at hp ⊢
    refine ⟨fun q hq a b ha hb => ?_, ih hp.2⟩
    -- q sits at some index j ∈ is with i ≤ j
    obtain ⟨j, hj, hqj⟩ := mem_all2 hrest q hq
    obtain ⟨c1, g1, g2⟩ := hpi
    obtain ⟨c2, k1, k2⟩ := hqj
    rw [ha] at g2; rw [hb] at k2
    cases g2; cases k2
    exact hs i j c1 c2 (hp.1 j hj) g1 k1
where
  mem_all2 {α β : Type} {R : α → β → Prop} {l1 : List α} {l2 : List β} (h : All2 R l1 l2) (a : α) (ha : a ∈ l1) :
      ∃ b ∈ l2, R a b := by
    induction h with
    | nil => cases ha
    | cons hr _ ih =>
      rcases List.mem_cons.mp ha with rfl | ha'
      · exact ⟨_, List.mem_cons_self .., hr⟩
      · obtain ⟨b, hb, hrb⟩ := ih ha'
        exact ⟨b, List.mem_cons_of_mem _ hb, hrb⟩

end PS.Beap

namespace PS.Beap
open PS PS.G
variable {S : Type} [DecidableEq S]

theorem sortedB_spec : ∀ (l : List Cost), sortedB l = true →
    ∀ (i j : Nat) (x y : Cost), i ≤ j → l[i]? = some x → l[j]? = some y → x.fin ≤ y.fin
  | [], _, i, j, x, y, _, hx, _ => by simp at hx
  | a :: as, h, i, j, x, y, hij, hx, hy => by
    simp only [sortedB, Bool.and_eq_true, List.all_eq_true, decide_eq_true_eq] at h
    cases i with
    | zero =>
      simp only [List.getElem?_cons_zero, Option.some.injEq] at hx
      subst hx
      cases j with
      | zero => simp only [List.getElem?_cons_zero, Option.some.injEq] at hy; subst hy; exact Rat.le_refl
      | succ j =>
        simp only [List.getElem?_cons_succ] at hy
        exact h.1 y (List.mem_of_getElem? hy)
    | succ i =>
      cases j with
      | zero => omega
      | succ j =>
        simp only [List.getElem?_cons_succ] at hx hy
        exact sortedB_spec as h.2 i j x y (by omega) hx hy

theorem clSorted_of_check (E : Env S) (s : St S) (h : sortedB (s.clOf E.G.start) = true) : ClSorted E s :=
  fun i j x y hij hx hy => sortedB_spec _ h i j x y hij hx hy

end PS.Beap
