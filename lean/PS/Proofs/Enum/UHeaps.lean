/- Every heap of the heap search on unambiguous grammars (the heaps of the non-terminals and the
   start heap) satisfies heapq's invariant in every reachable state: any grammar, any strict weak
   order of priorities, with or without filter. -/
import PS.Proofs.Enum.HeapInv
import PS.Proofs.Enum.UNodupRun
namespace PS.UHS
open PS PS.G
set_option linter.unusedSectionVars false
variable {U π : Type} [DecidableEq U]

theorem ltE_weakOrder (ops : Prio π) (w : Heapq.WeakOrder ops.lt) : Heapq.WeakOrder (ltE ops) :=
  ⟨fun a b h => w.asymm a.1 b.1 h, fun a b c h1 h2 => w.ntrans a.1 b.1 c.1 h1 h2⟩
theorem ltS_weakOrder (ops : Prio π) (w : Heapq.WeakOrder ops.lt) : Heapq.WeakOrder (ltS (U := U) ops) :=
  ⟨fun a b h => w.asymm a.1 b.1 h, fun a b c h1 h2 => w.ntrans a.1 b.1 c.1 h1 h2⟩

/-- a property of the state that only depends on the heaps of the non-terminals, kept by `heappop`
    and `heappush`, is kept by every call -/
theorem big_heapsOnly (E : Env U π) (hk : E.kway = true) (P : St U π → Prop)
    (hcongr : ∀ s s' : St U π, (∀ nt, s'.heapOf nt = s.heapOf nt) → P s → P s')
    (hpop : ∀ (s : St U π) nt e h', P s → Heapq.pop (ltE E.ops) (s.heapOf nt) = some (e, h') → P (s.setHeap nt h'))
    (hpush : ∀ (s : St U π) nt x, P s → P (s.setHeap nt (Heapq.push (ltE E.ops) (s.heapOf nt) x)))
    {c : Call U π} {s s' : St U π} {r : Res π} (hb : Big E c s s' r) : P s → P s' := by
  have hpb : ∀ (s : St U π) nt pr p, P s → P (pushBoth E s nt pr p) := by
    intro s nt pr p h
    unfold pushBoth
    split
    · exact hpush s nt _ h
    · exact h
  have hps : ∀ (s s3 : St U π) F args nt v i r, pushStep E s F args nt v i r = some s3 → P s → P s3 := by
    intro s s3 F args nt v i r hp h
    unfold pushStep at hp
    cases r with
    | none => simp only [Option.some.injEq] at hp; subst hp; exact h
    | some q =>
      simp only at hp
      split at hp
      · simp only [Option.some.injEq] at hp; subst hp; exact h
      · split at hp
        · simp at hp
        · rename_i s2' pr hcp
          simp only [Option.some.injEq] at hp; subst hp
          apply hpb
          have hcs := computePrio_step E hcp
          exact hcongr _ _ (fun nt' => by rw [hcs.heapOf]; rfl) h
  have hip : ∀ nt (l : List (Sym × List (UNT U))) (s s' : St U π), initPush E s nt l = some s' → P s → P s' := by
    intro nt l
    induction l with
    | nil => intro s s' hp h; simp only [initPush, Option.some.injEq] at hp; subst hp; exact h
    | cons a rest ih =>
      intro s s' hp h
      obtain ⟨P', v⟩ := a
      simp only [initPush] at hp
      split at hp
      · simp at hp
      · split at hp
        · simp at hp
        · split at hp
          · simp at hp
          · rename_i s1 pr hcp
            split at hp
            · simp at hp
            · refine ih _ _ hp (hpb _ _ _ _ ?_)
              have hcs := computePrio_step E hcp
              exact hcongr _ _ (fun nt' => by rw [hcs.heapOf]; rfl) h
  induction hb with
  | query_direct h hb ih => exact ih
  | query_init h h0 hb ih0 ih => exact fun hi => ih (ih0 hi)
  | lop_hit h => exact id
  | lop_miss h hb ih => exact ih
  | pop_empty h => exact id
  | pop_deleted h hd ha hb iha ihb => exact fun hi => ihb (iha (hpop _ _ _ _ hi h))
  | @pop_take s s' nt key e h' x h hd ha iha =>
    exact fun hi => iha (hcongr (s.setHeap nt h') _ (fun _ => rfl) (hpop _ _ _ _ hi h))
  | succ_leaf => exact id
  | succ_fun hk' hb ih => exact ih
  | loop_done => exact id
  | loop_step hai hsi hq hp hb ihq ihb => exact fun hi => ihb (hps _ _ _ _ _ _ _ _ hp (ihq hi))
  | init_skip h => exact id
  | @init_run s s1 s3 s' nt rs b r h hrs hr hp hq ihr ihq =>
    exact fun hi => ihq (hip _ _ _ _ hp (hcongr s1 _ (fun _ => rfl) (ihr (hcongr s _ (fun _ => rfl) hi))))
  | rules_nil => exact id
  | rules_cons ha hb iha ihb => exact fun hi => ihb (iha hi)
  | alts_nil => exact id
  | @alts_leaf s s1 s3 nt P' v w rest best arguments pr ha hc hv iha =>
    intro hi
    have hcs := computePrio_step E hc
    exact hcongr s3 _ (fun nt' => rfl) (hcongr s1 s3 (fun nt' => by rw [hcs.heapOf]; rfl) (iha hi))
  | @alts_cons s s1 s3 s' nt P' v w rest best arguments pr best' ha hc hv hb iha ihb =>
    intro hi
    have hcs := computePrio_step E hc
    exact ihb (hcongr s3 _ (fun nt' => rfl) (hcongr s1 s3 (fun nt' => by rw [hcs.heapOf]; rfl) (iha hi)))
  | args_nil => exact id
  | args_cons hi' hm hb ihi ihb => exact fun hi => ihb (ihi hi)

/-- all heaps are valid -/
def HInv (E : Env U π) (s : St U π) : Prop :=
  (∀ nt, Heapq.IsHeap (ltE E.ops) (s.heapOf nt)) ∧ Heapq.IsHeap (ltS E.ops) s.startHeap

/-- the heaps of the non-terminals are valid -/
def HInvN (E : Env U π) (s : St U π) : Prop := ∀ nt, Heapq.IsHeap (ltE E.ops) (s.heapOf nt)

theorem big_heaps (E : Env U π) (hk : E.kway = true) (w : Heapq.WeakOrder E.ops.lt) {c : Call U π} {s s' : St U π}
    {r : Res π} (hb : Big E c s s' r) : HInvN E s → HInvN E s' := by
  apply big_heapsOnly E hk (HInvN E) _ _ _ hb
  · intro s s' he h nt; rw [he]; exact h nt
  · intro s nt e h' h hp nt'
    rw [St.heapOf_setHeap]
    split
    · exact (Heapq.pop_isHeap (ltE_weakOrder E.ops w) _ _ _ (h nt) hp).1
    · exact h nt'
  · intro s nt x h nt'
    rw [St.heapOf_setHeap]
    split
    · rename_i heq; subst heq
      exact Heapq.push_isHeap (ltE_weakOrder E.ops w) _ _ (h nt')
    · exact h nt'

theorem big_hinv (E : Env U π) (hk : E.kway = true) (w : Heapq.WeakOrder E.ops.lt) {c : Call U π} {s s' : St U π}
    {r : Res π} (hb : Big E c s s' r) (h : HInv E s) : HInv E s' :=
  ⟨big_heaps E hk w hb h.1, by rw [big_startHeap E hk hb]; exact h.2⟩

theorem HInv.pushNext {E : Env U π} (hk : E.kway = true) (w : Heapq.WeakOrder E.ops.lt) {fuel : Nat} {s s' : St U π}
    {start : UNT U} {p : Option Prog} (h : HInv E s) (hp : pushNext E fuel s start p = some s') : HInv E s' := by
  unfold UHS.pushNext at hp
  split at hp
  · simp at hp
  · rename_i s1 hq
    simp only [Option.some.injEq] at hp; subst hp
    exact big_hinv E hk w (big_of_query E hq) h
  · rename_i s1 q hq
    have h1 := big_hinv E hk w (big_of_query E hq) h
    split at hp
    · rename_i s2 pr w' hcp hw
      simp only [Option.some.injEq] at hp; subst hp
      obtain ⟨c, rfl⟩ := computePrio_step E hcp
      exact ⟨h1.1, Heapq.push_isHeap (ltS_weakOrder E.ops w) _ _ h1.2⟩
    · simp at hp

theorem HInv.pushNexts {E : Env U π} (hk : E.kway = true) (w : Heapq.WeakOrder E.ops.lt) {fuel : Nat} :
    ∀ (l : List (UNT U)) {s s' : St U π}, HInv E s → pushNexts E fuel l s = some s' → HInv E s'
  | [], s, s', h, hp => by simp only [UHS.pushNexts, Option.some.injEq] at hp; subst hp; exact h
  | nt :: rest, s, s', h, hp => by
    simp only [UHS.pushNexts] at hp
    split at hp
    · simp at hp
    · rename_i s1 h1
      exact HInv.pushNexts hk w rest (h.pushNext hk w h1) hp

theorem HInv.kwayLoop {E : Env U π} (hk : E.kway = true) (w : Heapq.WeakOrder E.ops.lt) {fuel : Nat} :
    ∀ (k : Nat) {s s' : St U π} {r : Option Prog}, HInv E s → kwayLoop E fuel k s = some (s', r) → HInv E s'
  | 0, s, s', r, _, hp => by simp [UHS.kwayLoop] at hp
  | k + 1, s, s', r, h, hp => by
    simp only [UHS.kwayLoop] at hp
    split at hp
    · simp only [Option.some.injEq, Prod.mk.injEq] at hp
      obtain ⟨rfl, rfl⟩ := hp
      exact h
    · rename_i e h' hpop
      have h0 : HInv E { s with startHeap := h' } :=
        ⟨h.1, (Heapq.pop_isHeap (ltS_weakOrder E.ops w) _ _ _ h.2 hpop).1⟩
      split at hp
      · simp at hp
      · rename_i s1 hpn
        have h1 := h0.pushNext hk w hpn
        split at hp
        · exact HInv.kwayLoop hk w k h1 hp
        · simp only [Option.some.injEq, Prod.mk.injEq] at hp
          obtain ⟨rfl, rfl⟩ := hp
          exact h1

theorem HInv.next {E : Env U π} (hk : E.kway = true) (w : Heapq.WeakOrder E.ops.lt) {fuel : Nat} :
    ∀ (k : Nat) {s s' : St U π} {r : Option Prog}, HInv E s → next E fuel k s = some (s', r) → HInv E s'
  | 0, s, s', r, _, hp => by simp [UHS.next] at hp
  | k + 1, s, s', r, h, hp => by
    have hsq : ∀ s1 r1, startQuery E fuel s = some (s1, r1) → HInv E s1 := by
      intro s1 r1 hq
      unfold UHS.startQuery at hq
      simp only [hk, if_true] at hq
      split at hq
      · simp at hq
      · rename_i s0 h0
        refine HInv.kwayLoop hk w fuel ?_ hq
        split at h0
        · exact h.pushNexts hk w _ h0
        · simp only [Option.some.injEq] at h0; subst h0; exact h
    simp only [UHS.next] at hp
    split at hp
    · simp at hp
    · rename_i s1 hq
      simp only [Option.some.injEq, Prod.mk.injEq] at hp
      obtain ⟨rfl, rfl⟩ := hp
      exact hsq _ _ hq
    · rename_i s1 p hq
      have h1 := hsq _ _ hq
      split at hp
      · simp only [Option.some.injEq, Prod.mk.injEq] at hp
        obtain ⟨rfl, rfl⟩ := hp
        exact h1
      · refine HInv.next hk w k ?_ hp
        unfold St.addDeleted
        split
        · exact h1
        · exact h1

theorem hinv_empty (E : Env U π) : HInv E (St.empty E.G) := by
  refine ⟨?_, Heapq.isHeap_nil _⟩
  intro nt
  have : (St.empty E.G : St U π).heapOf nt = [] := by
    unfold St.heapOf St.empty
    simp only
    induction E.G.rules with
    | nil => rfl
    | cons a l ih =>
      simp only [List.map_cons, AList.lookup]
      split
      · rfl
      · exact ih
  rw [this]
  exact Heapq.isHeap_nil _

end PS.UHS
