/- Soundness of heap search on context-free grammars (`TT S Unit`) as a state invariant:
   every program of a heap / `seen` set / `succ` table of a non-terminal is derivable from it. -/
import PS.Model.Prob
import PS.Proofs.Grammar
import PS.Proofs.Enum.HSBig
namespace PS.HS
open PS PS.G
set_option linter.unusedSectionVars false
variable {S π : Type} [DecidableEq S]

/-! ### `derive` / `derive_all` on a context-free grammar: the pending stack is popped -/

/-- what deriving a complete sub-program leaves: the stack loses its top, which is the next non-terminal -/
def DAdv (info : Info S) (r : Info S × NT S Unit) : Prop :=
  r.1 = info.tail ∧ ∀ b rest, info = b :: rest → r.2 = argNT b

theorem genList_nil_right (G : TT S Unit) (ks : List Prog) (h : genList G ks [] = true) : ks = [] := by
  cases ks with
  | nil => rfl
  | cons k ks => simp [genList] at h

mutual
  theorem deriveAll_gen (G : TT S Unit) :
      ∀ (t : Prog) (nt : NT S Unit) (info : Info S), gen G t nt = true →
        ∃ r, deriveAll G t info nt = some r ∧ DAdv info r
    | .node f kids, nt, info, hg => by
      rw [gen] at hg
      rw [deriveAll, derive]
      cases hr : G.rule? nt f with
      | none => simp [hr] at hg
      | some rl =>
        obtain ⟨args, st⟩ := rl
        simp only [hr] at hg ⊢
        cases args with
        | nil =>
          have hk := genList_nil_right G kids hg
          subst hk
          cases info with
          | nil =>
            refine ⟨([], (Ty.unknown, (nt.2.1, st))), by simp [deriveAllList, deriveWith], rfl, ?_⟩
            intro b rest h; cases h
          | cons b rest =>
            refine ⟨(rest, (b.1, (b.2, st))), by simp [deriveAllList, deriveWith], rfl, ?_⟩
            intro b' rest' h; cases h; rfl
        | cons a as =>
          have := deriveAllList_gen G kids a as info hg
          simpa [deriveWith, argNT] using this
  theorem deriveAllList_gen (G : TT S Unit) :
      ∀ (ks : List Prog) (a : Ty × S) (as : List (Ty × S)) (info : Info S),
        genList G ks (a :: as) = true →
        ∃ r, deriveAllList G ks (as ++ info) (argNT a) = some r ∧ DAdv info r
    | [], a, as, info, h => by simp [genList] at h
    | k :: ks, (t, s), as, info, h => by
      simp only [genList, Bool.and_eq_true] at h
      obtain ⟨r1, h1, ha1, ha2⟩ := deriveAll_gen G k (t, (s, ())) (as ++ info) h.1
      rw [deriveAllList]
      simp only [argNT, h1]
      cases as with
      | nil =>
        have hks := genList_nil_right G ks h.2
        subst hks
        exact ⟨r1, by simp [deriveAllList], ha1, ha2⟩
      | cons a' as' =>
        simp only [List.cons_append, List.tail_cons] at ha1
        have hn := ha2 a' (as' ++ info) rfl
        rw [ha1, hn]
        exact deriveAllList_gen G ks a' as' info h.2
end

theorem genList_length' (G : TT S Unit) : ∀ (ks : List Prog) (args : List (Ty × S)),
    genList G ks args = true → ks.length = args.length
  | [], [], _ => rfl
  | [], _ :: _, h => by simp [genList] at h
  | _ :: _, [], h => by simp [genList] at h
  | k :: ks, (t, s) :: as, h => by
    simp only [genList, Bool.and_eq_true] at h
    simp [genList_length' G ks as h.2]

theorem genList_get (G : TT S Unit) : ∀ (ks : List Prog) (args : List (Ty × S)) (i : Nat) (k : Prog) (a : Ty × S),
    genList G ks args = true → ks[i]? = some k → args[i]? = some a → gen G k (argNT a) = true
  | [], _, _, _, _, _, h, _ => by simp at h
  | _ :: _, [], _, _, _, h, _, _ => by simp [genList] at h
  | k0 :: ks, (t, s) :: as, 0, k, a, h, hk, ha => by
    simp only [genList, Bool.and_eq_true] at h
    simp only [List.getElem?_cons_zero, Option.some.injEq] at hk ha
    subst hk; subst ha; exact h.1
  | k0 :: ks, (t, s) :: as, i + 1, k, a, h, hk, ha => by
    simp only [genList, Bool.and_eq_true] at h
    simp only [List.getElem?_cons_succ] at hk ha
    exact genList_get G ks as i k a h.2 hk ha

theorem genList_set (G : TT S Unit) : ∀ (ks : List Prog) (args : List (Ty × S)) (i : Nat) (q : Prog) (a : Ty × S),
    genList G ks args = true → args[i]? = some a → gen G q (argNT a) = true →
    genList G (ks.set i q) args = true
  | [], _, _, _, _, h, _, _ => by simpa using h
  | _ :: _, [], _, _, _, h, _, _ => by simp [genList] at h
  | k0 :: ks, (t, s) :: as, 0, q, a, h, ha, hq => by
    simp only [genList, Bool.and_eq_true] at h
    simp only [List.getElem?_cons_zero, Option.some.injEq] at ha
    subst ha
    simp only [List.set_cons_zero, genList, Bool.and_eq_true]
    exact ⟨hq, h.2⟩
  | k0 :: ks, (t, s) :: as, i + 1, q, a, h, ha, hq => by
    simp only [genList, Bool.and_eq_true] at h
    simp only [List.getElem?_cons_succ] at ha
    simp only [List.set_cons_succ, genList, Bool.and_eq_true]
    exact ⟨h.1, genList_set G ks as i q a h.2 ha hq⟩

/-! ### the priority function (specification) and `compute_priority` -/

/- **the priority of the statement**: the rule's priority combined, from left to right, with the
   priorities of the arguments at the non-terminals of the rule (heap search: the product of the
   rule probabilities, see `prioSpec_prob`; bucket search: the sum of the rule buckets) -/
mutual
  def prioSpec (E : Env S Unit π) : Prog → NT S Unit → Option π
    | .node F kids, nt =>
      match ruleW E nt F, E.G.rule? nt F with
      | some w, some (ra, _) => prioList E kids ra (E.ops.ofRule w)
      | _, _ => none
  def prioList (E : Env S Unit π) : List Prog → List (Ty × S) → π → Option π
    | [], [], acc => some acc
    | k :: ks, a :: as, acc =>
      match prioSpec E k (argNT a) with
      | none => none
      | some pk => prioList E ks as (E.ops.combine acc pk)
    | _, _, _ => none
end

/-- the memo table of `compute_priority` agrees with the specification -/
def CacheOK (E : Env S Unit π) (c : AList (Prog × NT S Unit) π) : Prop :=
  ∀ p nt v, AList.lookup (p, nt) c = some v → prioSpec E p nt = some v

theorem CacheOK.insert {E : Env S Unit π} {c : AList (Prog × NT S Unit) π} (h : CacheOK E c)
    (p : Prog) (nt : NT S Unit) (v : π) (hv : prioSpec E p nt = some v) :
    CacheOK E (AList.insert (p, nt) v c) := by
  intro p' nt' v' hl
  rw [AList.lookup_insert] at hl
  split at hl
  · rename_i heq; cases hl; cases heq; exact hv
  · exact h p' nt' v' hl

/-- the argument loop of `compute_priority` computes `prioList` -/
theorem prioArgs_spec (E : Env S Unit π) (c : AList (Prog × NT S Unit) π) (hc : CacheOK E c) :
    ∀ (ks : List Prog) (a : Ty × S) (as : List (Ty × S)) (acc p : π),
      genList E.G ks (a :: as) = true → prioArgs E c ks as (argNT a) acc = some p →
      prioList E ks (a :: as) acc = some p
  | [], a, as, acc, p, hg, _ => by simp [genList] at hg
  | k :: rest, (t, s0), as, acc, p, hg, h => by
    simp only [genList, Bool.and_eq_true] at hg
    unfold prioArgs at h
    cases hl : AList.lookup (k, argNT (t, s0)) c with
    | none => simp [hl] at h
    | some pa =>
      simp only [hl] at h
      have hpa := hc k (argNT (t, s0)) pa hl
      rw [prioList, hpa]
      simp only
      cases as with
      | nil =>
        have hr := genList_nil_right E.G rest hg.2
        subst hr
        split at h
        · simp only [Option.some.injEq] at h; subst h; rfl
        · cases hda : deriveAll E.G k [] (argNT (t, s0)) with
          | none => simp [hda] at h
          | some r =>
            simp only [hda, prioArgs, Option.some.injEq] at h
            subst h; rfl
      | cons a' as' =>
        cases rest with
        | nil => simp [genList] at hg
        | cons k' rest' =>
          simp only [List.isEmpty_cons, Bool.false_and, Bool.false_eq_true, if_false] at h
          obtain ⟨r2, hr2, hadv1, hadv2⟩ := deriveAll_gen E.G k (argNT (t, s0)) (a' :: as') hg.1
          rw [hr2] at h
          simp only at h
          rw [hadv1, hadv2 a' as' rfl] at h
          exact prioArgs_spec E c hc (k' :: rest') a' as' _ p hg.2 h

/-- **`compute_priority(S, program)` returns the priority of the specification** for a program
    derivable from `S`, and keeps the memo table correct -/
theorem computePrio_spec (E : Env S Unit π) (c : AList (Prog × NT S Unit) π) (hc : CacheOK E c)
    (nt : NT S Unit) (prog : Prog) (hg : gen E.G prog nt = true) (c' : AList (Prog × NT S Unit) π) (v : π)
    (h : computePrio E c nt prog = some (c', v)) : prioSpec E prog nt = some v ∧ CacheOK E c' := by
  unfold computePrio at h
  split at h
  · rename_i p hp
    simp only [Option.some.injEq, Prod.mk.injEq] at h
    obtain ⟨rfl, rfl⟩ := h
    split at hp
    · exact ⟨hc _ _ _ hp, hc⟩
    · cases hp
  · obtain ⟨F, kids⟩ := prog
    rw [gen] at hg
    cases hr : E.G.rule? nt F with
    | none => simp [hr] at hg
    | some rl =>
      obtain ⟨ra, u⟩ := rl
      simp only [hr] at hg
      cases kids with
      | nil =>
        simp only at h
        cases hw : ruleW E nt F with
        | none => simp [hw] at h
        | some w =>
          simp only [hw, Option.some.injEq, Prod.mk.injEq] at h
          obtain ⟨rfl, rfl⟩ := h
          have hra : ra = [] := by
            cases ra with
            | nil => rfl
            | cons _ _ => simp [genList] at hg
          subst hra
          have hv : prioSpec E (.node F []) nt = some (E.ops.ofRule w) := by
            rw [prioSpec, hw, hr]; rfl
          exact ⟨hv, hc.insert _ _ _ hv⟩
      | cons a as =>
        simp only at h
        cases hw : ruleW E nt F with
        | none => simp [hw] at h
        | some w =>
          unfold derive at h
          simp only [hw, hr] at h
          split at h
          · simp at h
          · cases ra with
            | nil => simp [genList] at hg
            | cons a0 as0 =>
              split at h
              · simp at h
              · rename_i p hp
                simp only [Option.some.injEq, Prod.mk.injEq] at h
                obtain ⟨rfl, rfl⟩ := h
                have hdw : deriveWith ([] : Info S) nt (a0 :: as0) u = (as0, argNT a0) := by
                  obtain ⟨t0, s0⟩ := a0
                  simp [deriveWith, argNT]
                rw [hdw] at hp
                have hv : prioSpec E (.node F (a :: as)) nt = some p := by
                  rw [prioSpec, hw, hr]
                  exact prioArgs_spec E c hc (a :: as) a0 as0 _ p hg hp
                exact ⟨hv, hc.insert _ _ _ hv⟩

/-! ### the invariant -/

/-- **soundness invariant**: what is stored for a non-terminal is derivable from it -/
structure SInv (E : Env S Unit π) (s : St S Unit π) : Prop where
  seen_gen : ∀ nt p, p ∈ s.seenOf nt → gen E.G p nt = true
  heap_seen : ∀ nt e, e ∈ s.heapOf nt → e.2 ∈ s.seenOf nt
  succ_seen : ∀ nt k v, AList.lookup k (s.succOf nt) = some v → v ∈ s.seenOf nt
  /-- the memo table of `compute_priority` is correct -/
  cache_ok : CacheOK E s.cache
  /-- the stored priority of a heap element is the priority function applied to its program -/
  heap_prio : ∀ nt e, e ∈ s.heapOf nt → prioSpec E e.2 nt = some e.1

theorem SInv.congr {E : Env S Unit π} {s s' : St S Unit π} (h : SInv E s)
    (h1 : ∀ nt, s'.seenOf nt = s.seenOf nt) (h2 : ∀ nt, s'.heapOf nt = s.heapOf nt)
    (h3 : ∀ nt, s'.succOf nt = s.succOf nt) (h4 : CacheOK E s'.cache) : SInv E s' :=
  ⟨fun nt p hp => h.seen_gen nt p (h1 nt ▸ hp),
   fun nt e he => h1 nt ▸ h.heap_seen nt e (h2 nt ▸ he),
   fun nt k v hk => h1 nt ▸ h.succ_seen nt k v (h3 nt ▸ hk), h4,
   fun nt e he => h.heap_prio nt e (h2 nt ▸ he)⟩

theorem SInv.setHeap_sub {E : Env S Unit π} {s : St S Unit π} (h : SInv E s) (nt : NT S Unit)
    (h' : List (π × Prog)) (hsub : ∀ e ∈ h', e ∈ s.heapOf nt) : SInv E (s.setHeap nt h') := by
  refine ⟨h.seen_gen, ?_, h.succ_seen, h.cache_ok, ?_⟩
  · intro nt' e he
    rw [St.heapOf_setHeap] at he
    split at he
    · rename_i heq; subst heq; exact h.heap_seen _ e (hsub e he)
    · exact h.heap_seen nt' e he
  · intro nt' e he
    rw [St.heapOf_setHeap] at he
    split at he
    · rename_i heq; subst heq; exact h.heap_prio _ e (hsub e he)
    · exact h.heap_prio nt' e he

theorem SInv.setSucc {E : Env S Unit π} {s : St S Unit π} (h : SInv E s) (nt : NT S Unit)
    (k : Option Prog) (v : Prog) (hv : v ∈ s.seenOf nt) : SInv E (s.setSucc nt k v) := by
  refine ⟨h.seen_gen, h.heap_seen, ?_, h.cache_ok, h.heap_prio⟩
  intro nt' k' v' hk
  rw [St.succOf_setSucc] at hk
  split at hk
  · rename_i heq; subst heq
    rw [AList.lookup_insert] at hk
    split at hk
    · cases hk; exact hv
    · exact h.succ_seen _ k' v' hk
  · exact h.succ_seen nt' k' v' hk

theorem SInv.pushNew {E : Env S Unit π} {s : St S Unit π} (h : SInv E s) (nt : NT S Unit) (np : Prog)
    (hg : gen E.G np nt = true) : SInv E (pushNew E s nt np) := by
  have h1 : SInv E (s.addSeen nt np) := by
    refine ⟨?_, ?_, ?_, h.cache_ok, h.heap_prio⟩
    · intro nt' p hp
      rw [St.seenOf_addSeen] at hp
      split at hp
      · rename_i heq; subst heq
        rcases List.mem_append.mp hp with hp | hp
        · exact h.seen_gen _ p hp
        · simp only [List.mem_singleton] at hp; subst hp; exact hg
      · exact h.seen_gen nt' p hp
    · intro nt' e he
      rw [St.seenOf_addSeen]
      have := h.heap_seen nt' e he
      split
      · rename_i heq; subst heq; exact List.mem_append_left _ this
      · exact this
    · intro nt' k v hk
      rw [St.seenOf_addSeen]
      have := h.succ_seen nt' k v hk
      split
      · rename_i heq; subst heq; exact List.mem_append_left _ this
      · exact this
  unfold HS.pushNew
  simp only
  split
  · exact h1
  · rename_i r hcp
    obtain ⟨hv, hc'⟩ := computePrio_spec E _ h1.cache_ok nt np hg r.1 r.2 hcp
    have h2 : SInv E { s.addSeen nt np with cache := r.1 } :=
      h1.congr (fun _ => rfl) (fun _ => rfl) (fun _ => rfl) hc'
    split
    · refine ⟨h2.seen_gen, ?_, h2.succ_seen, h2.cache_ok, ?_⟩
      · intro nt' e he
        rw [St.heapOf_setHeap] at he
        split at he
        · rename_i heq; subst heq
          have := (Heapq.push_perm (ltE E.ops) _ (r.2, np)).subset he
          rcases List.mem_cons.mp this with rfl | hm
          · show np ∈ (s.addSeen nt' np).seenOf nt'
            rw [St.seenOf_addSeen]; simp
          · exact h2.heap_seen _ e hm
        · exact h2.heap_seen nt' e he
      · intro nt' e he
        rw [St.heapOf_setHeap] at he
        split at he
        · rename_i heq; subst heq
          have := (Heapq.push_perm (ltE E.ops) _ (r.2, np)).subset he
          rcases List.mem_cons.mp this with rfl | hm
          · exact hv
          · exact h2.heap_prio _ e hm
        · exact h2.heap_prio nt' e he
    · exact h2

theorem SInv.pushStep {E : Env S Unit π} {s : St S Unit π} (h : SInv E s) (F : Sym) (args : List Prog)
    (nt : NT S Unit) (i : Nat) (r : Option Prog)
    (hg : ∀ q, r = some q → gen E.G (.node F (args.set i q)) nt = true) :
    SInv E (pushStep E s F args nt i r) := by
  unfold HS.pushStep
  cases r with
  | none => exact h
  | some q =>
    simp only
    split
    · exact h
    · exact h.pushNew nt _ (hg q rfl)

/-- the precondition of each call -/
def SPre (E : Env S Unit π) : Call S Unit → Prop
  | .addSucc prog nt => gen E.G prog nt = true
  | .addLoop F args nt i argsLen info s2 =>
    ∃ ra, E.G.rule? nt F = some (ra, ()) ∧ genList E.G args ra = true ∧ argsLen = ra.length ∧
      (i < argsLen → info = ra.drop (i + 1) ∧ ∃ a, ra[i]? = some a ∧ s2 = argNT a)
  | _ => True

/-- the postcondition on the returned program -/
def SPost (E : Env S Unit π) : Call S Unit → Option Prog → Prop
  | .query nt _, r => ∀ q, r = some q → gen E.G q nt = true
  | .lop nt _, r => ∀ q, r = some q → gen E.G q nt = true
  | .popLoop nt _, r => ∀ q, r = some q → gen E.G q nt = true
  | _, _ => True

theorem mem_of_pop {α : Type} (lt : α → α → Bool) (h : List α) (x : α) (h' : List α)
    (hp : Heapq.pop lt h = some (x, h')) : x ∈ h ∧ ∀ e ∈ h', e ∈ h := by
  have := Heapq.pop_perm lt h x h' hp
  exact ⟨this.symm.subset (List.mem_cons_self), fun e he => this.symm.subset (List.mem_cons_of_mem _ he)⟩

/-- every call keeps the soundness invariant, and `query` returns a derivable program -/
theorem big_sound (E : Env S Unit π) {c : Call S Unit} {s s' : St S Unit π} {r : Option Prog}
    (hb : Big E c s s' r) : SInv E s → SPre E c → SInv E s' ∧ SPost E c r := by
  induction hb with
  | query_direct h hb ih => intro hi _; exact ih hi trivial
  | query_first hp h h0 hb ih0 ih =>
    intro hi _
    exact ih (ih0 hi trivial).1 trivial
  | lop_hit h =>
    intro hi _
    refine ⟨hi, ?_⟩
    intro q hq; cases hq
    exact hi.seen_gen _ _ (hi.succ_seen _ _ _ h)
  | lop_miss h hb ih => intro hi _; exact ih hi trivial
  | pop_empty h => intro hi _; exact ⟨hi, by intro q hq; cases hq⟩
  | pop_deleted h hd ha hb iha ihb =>
    intro hi _
    obtain ⟨hm, hsub⟩ := mem_of_pop _ _ _ _ h
    have hg := hi.seen_gen _ _ (hi.heap_seen _ _ hm)
    exact ihb (iha (hi.setHeap_sub _ _ hsub) hg).1 trivial
  | @pop_take s s' nt key e h' x h hd ha iha =>
    intro hi _
    obtain ⟨hm, hsub⟩ := mem_of_pop _ _ _ _ h
    have hseen := hi.heap_seen _ _ hm
    have hg := hi.seen_gen _ _ hseen
    have h1 := (hi.setHeap_sub nt h' hsub).setSucc nt key e.2 hseen
    refine ⟨(iha (h1.congr (fun _ => rfl) (fun _ => rfl) (fun _ => rfl) h1.cache_ok) hg).1, ?_⟩
    intro q hq; cases hq; exact hg
  | succ_leaf => intro hi _; exact ⟨hi, trivial⟩
  | @succ_fun s s' F a as nt r rl x hd hr hb ih =>
    intro hi hpre
    refine ⟨(ih hi ?_).1, trivial⟩
    have hpre' : gen E.G (.node F (a :: as)) nt = true := hpre
    rw [gen, hr] at hpre'
    obtain ⟨ra, u⟩ := rl
    cases u
    simp only at hpre'
    refine ⟨ra, hr, hpre', rfl, ?_⟩
    intro _
    unfold derive at hd
    rw [hr] at hd
    simp only [Option.some.injEq] at hd
    subst hd
    cases ra with
    | nil => simp [genList] at hpre'
    | cons a0 as0 =>
      obtain ⟨t0, s0⟩ := a0
      exact ⟨by simp [deriveWith], (t0, s0), by simp, by simp [deriveWith, argNT]⟩
  | loop_done h => intro hi _; exact ⟨hi, trivial⟩
  | @loop_step s s1 s' F args nt i argsLen info s2 ai r r' x h hai hq hc hda hb ihq ihb =>
    intro hi hpre
    obtain ⟨ra, hr, hgl, hlen, hinfo⟩ := hpre
    obtain ⟨hinf, a, ha, hs2⟩ := hinfo h
    obtain ⟨hi1, hpost⟩ := ihq hi trivial
    have hgai : gen E.G ai s2 = true := by rw [hs2]; exact genList_get E.G args ra i ai a hgl hai ha
    have hstep : SInv E (pushStep E s1 F args nt i r) := by
      apply hi1.pushStep
      intro q hq'
      rw [gen, hr]
      simp only
      exact genList_set E.G args ra i q a hgl ha (by rw [← hs2]; exact hpost q hq')
    refine ⟨(ihb hstep ?_).1, trivial⟩
    refine ⟨ra, hr, hgl, hlen, ?_⟩
    intro _
    obtain ⟨r2, hr2, hadv1, hadv2⟩ := deriveAll_gen E.G ai s2 info hgai
    rw [hda] at hr2
    cases hr2
    have hlt : i + 1 < ra.length := by omega
    have hdrop : ra.drop (i + 1) = ra[i + 1] :: ra.drop (i + 1 + 1) := List.drop_eq_getElem_cons hlt
    refine ⟨?_, ra[i + 1], List.getElem?_eq_getElem hlt, ?_⟩
    · rw [hadv1, hinf, hdrop]; rfl
    · exact hadv2 _ _ (by rw [hinf, hdrop])
  | @loop_last s s1 F args nt i argsLen info s2 ai r h hai hq hc ihq =>
    intro hi hpre
    obtain ⟨ra, hr, hgl, hlen, hinfo⟩ := hpre
    obtain ⟨hinf, a, ha, hs2⟩ := hinfo h
    obtain ⟨hi1, hpost⟩ := ihq hi trivial
    refine ⟨?_, trivial⟩
    apply hi1.pushStep
    intro q hq'
    rw [gen, hr]
    simp only
    exact genList_set E.G args ra i q a hgl ha (by rw [← hs2]; exact hpost q hq')

end PS.HS
