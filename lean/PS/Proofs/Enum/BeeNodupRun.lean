/- Bee search, NO DUPLICATES along runs without merge declarations: the fresh enumerator satisfies the invariant
   (decidable check `initFrontOK` + `dictOK`), `next` and `take` keep it, the yielded sequence is duplicate-free. -/
import PS.Proofs.Enum.BeeNodupStep
import PS.Proofs.Enum.BeeOrderRun
namespace PS.Bee
open PS PS.G

variable {S : Type} [DecidableEq S]
set_option linter.unusedSectionVars false
set_option linter.unusedSimpArgs false

theorem allOf_eq_flatMap {κ ν : Type} [DecidableEq κ] (k : κ) (T : AList κ (List ν)) :
    allOf k T = (T.filter fun r => decide (r.1 = k)).flatMap (·.2) := by
  induction T with
  | nil => rfl
  | cons p r ih =>
    obtain ⟨k', l⟩ := p
    by_cases hk : k' = k <;> simp [allOf, hk, ih]

theorem pendPairs_eq (s : St S) (nt : NT S Unit) :
    pendPairs s nt = (allOf nt s.queued).map (fun e => (e.P, e.combo)) ++ (allOf nt s.delayed).map (fun d => (d.2.1, d.1)) := by
  unfold pendPairs
  rw [allOf_eq_flatMap, allOf_eq_flatMap, List.map_flatMap, List.map_flatMap]

theorem qcmb_eq (P : Sym) (l : List HeapElem) :
    qcmb P l = ((l.map fun e => (e.P, e.combo)).filter fun x => decide (x.1 = P)).map (·.2) := by
  induction l with
  | nil => rfl
  | cons e r ih =>
    have : qcmb P (e :: r) = (if e.P = P then [e.combo] else []) ++ qcmb P r := by
      by_cases h : e.P = P <;> simp [qcmb, h]
    rw [this, ih]
    by_cases h : e.P = P <;> simp [h]

theorem dcmb_eq (P : Sym) (l : List Delayed) :
    dcmb P l = ((l.map fun d => (d.2.1, d.1)).filter fun x => decide (x.1 = P)).map (·.2) := by
  induction l with
  | nil => rfl
  | cons e r ih =>
    have : dcmb P (e :: r) = (if e.2.1 = P then [e.1] else []) ++ dcmb P r := by
      by_cases h : e.2.1 = P <;> simp [dcmb, h]
    rw [this, ih]
    by_cases h : e.2.1 = P <;> simp [h]

theorem pend_eq_pairs (s : St S) (nt : NT S Unit) (P : Sym) :
    pend s nt P = ((pendPairs s nt).filter fun x => decide (x.1 = P)).map (·.2) := by
  rw [pendPairs_eq]; unfold pend
  rw [qcmb_eq, dcmb_eq, List.filter_append, List.map_append]

theorem nodup_proj (P : Sym) : ∀ l : List (Sym × List Nat), l.Nodup →
    ((l.filter fun x => decide (x.1 = P)).map (·.2)).Nodup
  | [], _ => by simp
  | (a, b) :: l, h => by
    have hc := List.nodup_cons.mp h
    have ih := nodup_proj P l hc.2
    by_cases ha : a = P
    · subst ha
      simp only [List.filter_cons, decide_true, if_true, List.map_cons, List.nodup_cons]
      refine ⟨?_, ih⟩
      intro hm
      simp only [List.mem_map, List.mem_filter, decide_eq_true_eq] at hm
      obtain ⟨x, ⟨hx, hx1⟩, hx2⟩ := hm
      apply hc.1
      have : x = (a, b) := by cases x; simp_all
      rw [← this]; exact hx
    · simp only [List.filter_cons, ha, decide_false, Bool.false_eq_true, if_false]
      exact ih

/-- the decidable check gives the frontier property of every rule -/
theorem front_of_check (s : St S) (h : frontCheck s = true) : ∀ nt P, Frontier (pend s nt P) := by
  intro nt P
  by_cases hk : nt ∈ AList.keys s.queued ++ AList.keys s.delayed
  · unfold frontCheck at h
    have h1 := List.all_eq_true.mp h nt hk
    simp only [Bool.and_eq_true, decide_eq_true_eq] at h1
    obtain ⟨hnd, hz⟩ := h1
    have hzero : ∀ t ∈ pend s nt P, CD.nonzero t = false := by
      intro t ht
      rw [pend_eq_pairs] at ht
      simp only [List.mem_map, List.mem_filter] at ht
      obtain ⟨x, ⟨hx, _⟩, rfl⟩ := ht
      have := List.all_eq_true.mp hz x hx
      unfold CD.nonzero
      rw [Bool.eq_false_iff]
      intro hany
      rw [List.any_eq_true] at hany
      obtain ⟨y, hy, hy0⟩ := hany
      have := List.all_eq_true.mp this y hy
      simp at this hy0
      exact hy0 this
    constructor
    · rw [pend_eq_pairs]; exact nodup_proj P _ hnd
    · intro t _ u hu ha
      have := ha.nonzero
      rw [hzero u hu] at this; cases this
  · have e1 : allOf nt s.queued = [] := by
      apply List.eq_nil_iff_forall_not_mem.mpr
      intro x hx
      obtain ⟨l, hl, _⟩ := mem_allOf.mp hx
      exact hk (List.mem_append_left _ (List.mem_map.mpr ⟨(nt, l), hl, rfl⟩))
    have e2 : allOf nt s.delayed = [] := by
      apply List.eq_nil_iff_forall_not_mem.mpr
      intro x hx
      obtain ⟨l, hl, _⟩ := mem_allOf.mp hx
      exact hk (List.mem_append_right _ (List.mem_map.mpr ⟨(nt, l), hl, rfl⟩))
    unfold pend; rw [e1, e2]
    exact ⟨by simp [qcmb, dcmb], by intro t ht; simp [qcmb, dcmb] at ht⟩

/-! ### well-formedness of the initial combinations -/

theorem initRules_wf (E : Env S) (nt : NT S Unit) (leaves : Bool) :
    ∀ (rs : List (Sym × (List (Ty × S) × Unit))) (s s' : St S), initRules E nt leaves rs s = some s' →
      (∀ P rl, (P, rl) ∈ rs → ruleArgs E nt P = some rl.1) → QAll (QWf E) s → DAll (DWf E) s →
      QAll (QWf E) s' ∧ DAll (DWf E) s' := by
  intro rs
  induction rs with
  | nil =>
    intro s s' h _ hq hd
    simp only [initRules, Option.some.injEq] at h; subst h; exact ⟨hq, hd⟩
  | cons r rest ih =>
    intro s s' h hr hq hd
    obtain ⟨P, rl⟩ := r
    have hrest : ∀ P rl, (P, rl) ∈ rest → ruleArgs E nt P = some rl.1 := fun P rl hm => hr P rl (List.mem_cons_of_mem _ hm)
    have key : ∀ (idx : List Nat) (s1 : St S), idx.length = rl.1.length → addCombination E s nt P idx none = some s1 →
        QAll (QWf E) s1 ∧ DAll (DWf E) s1 := by
      intro idx s1 hlen ha
      exact addCombination_all E (QWf E) (DWf E) s s1 nt P idx none ha
        (fun c _ _ => ⟨rl.1, hr P rl List.mem_cons_self, hlen⟩) (fun _ => ⟨rl.1, hr P rl List.mem_cons_self, hlen⟩) hq hd
    simp only [initRules] at h
    split at h
    · split at h
      · rename_i hz
        split at h
        · simp at h
        · rename_i s1 ha
          obtain ⟨h1, h2⟩ := key [] s1 (by simp [hz]) ha
          exact ih s1 s' h hrest h1 h2
      · exact ih s s' h hrest hq hd
    · split at h
      · split at h
        · simp at h
        · rename_i s1 ha
          obtain ⟨h1, h2⟩ := key _ s1 (by simp) ha
          exact ih s1 s' h hrest h1 h2
      · exact ih s s' h hrest hq hd

theorem initAll_wf (E : Env S) (hdict : DictOK E) (leaves : Bool) :
    ∀ (tab : List (NT S Unit × AList Sym (List (Ty × S) × Unit))) (s s' : St S), initAll E leaves tab s = some s' →
      (∀ e ∈ tab, e ∈ E.G.rules) → QAll (QWf E) s → DAll (DWf E) s → QAll (QWf E) s' ∧ DAll (DWf E) s' := by
  intro tab
  induction tab with
  | nil => intro s s' h _ hq hd; simp only [initAll, Option.some.injEq] at h; subst h; exact ⟨hq, hd⟩
  | cons e rest ih =>
    intro s s' h hsub hq hd
    obtain ⟨nt, rs⟩ := e
    simp only [initAll] at h
    split at h
    · simp at h
    · rename_i s1 hr
      have h0 : QAll (QWf E) (if leaves = true then { s with bank := AList.insert nt [] s.bank, queued := AList.insert nt [] s.queued } else s) ∧
          DAll (DWf E) (if leaves = true then { s with bank := AList.insert nt [] s.bank, queued := AList.insert nt [] s.queued } else s) := by
        by_cases hl : leaves = true
        · rw [if_pos hl]
          refine ⟨?_, hd⟩
          intro nt' l hm e he
          rcases mem_insert hm with hm | hm
          · cases hm; cases he
          · exact hq _ _ hm _ he
        · rw [if_neg hl]; exact ⟨hq, hd⟩
      obtain ⟨h1, h2⟩ := initRules_wf E nt leaves rs _ s1 hr (hdict nt rs (hsub _ List.mem_cons_self)) h0.1 h0.2
      exact ih s1 s' h (fun e he => hsub e (List.mem_cons_of_mem _ he)) h1 h2

/-- **the fresh enumerator satisfies the no-duplicates invariant** -/
theorem gn_new (E : Env S) (hdict : DictOK E) (hfront : initFrontOK E = true) (g0 : Gen S) (h : Gen.new E = some g0) :
    GN E g0 := by
  have hfc : frontCheck g0.st = true := by
    unfold initFrontOK at hfront; rw [h] at hfront; exact hfront
  obtain ⟨_, hph, _, _, _, hbe⟩ := ginv_new E g0 h
  have hwf : QAll (QWf E) g0.st ∧ DAll (DWf E) g0.st := by
    unfold Gen.new at h
    split at h
    · simp at h
    · rename_i s1 h1
      split at h
      · simp at h
      · rename_i s2 h2
        simp only [Option.some.injEq] at h; subst h
        obtain ⟨a1, a2⟩ := initAll_wf E hdict true E.G.rules {} s1 h1 (fun e he => he) (by intro nt l hm; cases hm)
          (by intro nt l hm; cases hm)
        exact initAll_wf E hdict false E.G.rules s1 s2 h2 (fun e he => he) a1 a2
  have hnob : ∀ nt ci p, ¬ inBank g0.st nt ci p := by
    intro nt ci p ⟨ps, hl, _⟩
    unfold St.bankOf at hl
    cases hb : AList.lookup nt g0.st.bank with
    | none => simp [hb] at hl
    | some b =>
      rw [hbe nt b (AList.lookup_some_mem hb)] at hb
      simp [hb] at hl
  refine ⟨⟨hwf.1, hwf.2, front_of_check g0.st hfc, ?_, fun nt ci cj p h1 _ => absurd h1 (hnob nt ci p),
    fun nt ci p h1 => absurd h1 (hnob nt ci p)⟩, by rw [hph]; trivial⟩
  intro nt ci ps hl
  unfold St.bankOf at hl
  cases hb : AList.lookup nt g0.st.bank with
  | none => simp [hb] at hl
  | some b =>
    rw [hbe nt b (AList.lookup_some_mem hb)] at hb
    simp [hb] at hl

/-- the programs yielded so far: pairwise distinct and all in the bank of the start symbol -/
def AccOK (E : Env S) (g : Gen S) (acc : List Prog) : Prop :=
  acc.Nodup ∧ ∀ q ∈ acc, ∃ cj, inBank g.st E.G.start cj q

theorem next_nodup (E : Env S) : ∀ (n : Nat) (g g' : Gen S) (out : Option Prog) (acc : List Prog),
    next E n g = some (g', out) → GN E g → AccOK E g acc →
    GN E g' ∧ (match out with | none => AccOK E g' acc | some p => AccOK E g' (acc ++ [p])) := by
  intro n
  induction n with
  | zero => intro g g' out acc h; simp [next] at h
  | succ n ih =>
    intro g g' out acc h hi ha
    simp only [next] at h
    split at h
    · simp only [Option.some.injEq, Prod.mk.injEq] at h; obtain ⟨rfl, rfl⟩ := h
      exact ⟨hi, ha⟩
    · split at h
      · simp at h
      · rename_i g1 p hs
        simp only [Option.some.injEq, Prod.mk.injEq] at h; obtain ⟨rfl, rfl⟩ := h
        obtain ⟨h1, h2, h3⟩ := step_nodup E g g1 (some p) hs hi
        obtain ⟨hfresh, ci, hin⟩ := h3 p rfl
        refine ⟨h1, ?_, ?_⟩
        · rw [List.nodup_append]
          refine ⟨ha.1, by simp, ?_⟩
          intro a haa b hb hab
          simp only [List.mem_singleton] at hb; subst hb; subst hab
          obtain ⟨cj, hcj⟩ := ha.2 a haa
          exact hfresh cj hcj
        · intro q hq
          rcases List.mem_append.mp hq with hq | hq
          · obtain ⟨cj, hcj⟩ := ha.2 q hq; exact ⟨cj, h2 _ _ _ hcj⟩
          · simp at hq; subst hq; exact ⟨ci, hin⟩
      · rename_i g1 hs
        obtain ⟨h1, h2, _⟩ := step_nodup E g g1 none hs hi
        exact ih g1 g' out acc h h1 ⟨ha.1, fun q hq => by obtain ⟨cj, hcj⟩ := ha.2 q hq; exact ⟨cj, h2 _ _ _ hcj⟩⟩

theorem take_nodup (E : Env S) (fuel : Nat) : ∀ (k : Nat) (g g' : Gen S) (acc out : List Prog) (fin : Bool),
    take E fuel k g acc = some (g', out, fin) → GN E g → AccOK E g acc → GN E g' ∧ AccOK E g' out := by
  intro k
  induction k with
  | zero =>
    intro g g' acc out fin h hi ha
    simp only [take, Option.some.injEq, Prod.mk.injEq] at h; obtain ⟨rfl, rfl, rfl⟩ := h
    exact ⟨hi, ha⟩
  | succ k ih =>
    intro g g' acc out fin h hi ha
    simp only [take] at h
    split at h
    · simp at h
    · rename_i g1 hn
      simp only [Option.some.injEq, Prod.mk.injEq] at h; obtain ⟨rfl, rfl, rfl⟩ := h
      exact next_nodup E fuel g g1 none acc hn hi ha
    · rename_i g1 p hn
      obtain ⟨h1, h2⟩ := next_nodup E fuel g g1 (some p) acc hn hi ha
      exact ih g1 g' (acc ++ [p]) out fin h h1 h2


theorem take_prefix (E : Env S) (fuel : Nat) : ∀ (k : Nat) (g g1 : Gen S) (a0 ys : List Prog) (fin : Bool),
    take E fuel k g a0 = some (g1, ys, fin) → ∀ pre, take E fuel k g (pre ++ a0) = some (g1, pre ++ ys, fin) := by
  intro k
  induction k with
  | zero =>
    intro g g1 a0 ys fin h pre
    simp only [take, Option.some.injEq, Prod.mk.injEq] at h ⊢
    obtain ⟨rfl, rfl, rfl⟩ := h; exact ⟨rfl, rfl, rfl⟩
  | succ k ihk =>
    intro g g1 a0 ys fin h pre
    simp only [take] at h ⊢
    split at h
    · simp at h
    · simp only [Option.some.injEq, Prod.mk.injEq] at h ⊢
      obtain ⟨rfl, rfl, rfl⟩ := h; exact ⟨rfl, rfl, rfl⟩
    · rename_i g2 p hn
      have := ihk g2 g1 (a0 ++ [p]) ys fin h pre
      rw [List.append_assoc]; exact this

/-- a history without merge declarations -/
def Act.isTake : Act → Bool
  | .take _ => true
  | .merge _ _ => false

theorem runActs_nodup (E : Env S) (fuel : Nat) : ∀ (acts : List Act) (g g' : Gen S) (acc out : List Prog),
    acts.all Act.isTake = true → runActs E fuel acts g acc = some (g', out) → GN E g → AccOK E g acc →
    GN E g' ∧ AccOK E g' out := by
  intro acts
  induction acts with
  | nil =>
    intro g g' acc out _ h hi ha
    simp only [runActs, Option.some.injEq, Prod.mk.injEq] at h; obtain ⟨rfl, rfl⟩ := h
    exact ⟨hi, ha⟩
  | cons a rest ih =>
    intro g g' acc out hall h hi ha
    simp only [List.all_cons, Bool.and_eq_true] at hall
    cases a with
    | merge p ty => simp [Act.isTake] at hall
    | take k =>
      simp only [runActs] at h
      split at h
      · simp at h
      · rename_i g1 ys fin ht
        have ht' := take_prefix E fuel k g g1 [] ys fin ht acc
        simp only [List.append_nil] at ht'
        obtain ⟨h1, h2⟩ := take_nodup E fuel k g g1 acc (acc ++ ys) fin ht' hi ha
        exact ih _ _ _ _ hall.2 h h1 h2

end PS.Bee
