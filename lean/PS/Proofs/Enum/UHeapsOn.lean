/- Heap validity of the unambiguous-grammar machine when `<` is a strict weak order only on the priorities
   of derivations (bucket search: tuples of one length): every stored priority is the priority of a
   derivation (soundness invariant), so the heap operations are used inside the good set. -/
import PS.Proofs.Enum.UOrder
namespace PS.UHS
open PS PS.G
set_option linter.unusedSectionVars false
variable {U π : Type} [DecidableEq U]
variable {E : Env U π} {rank : UNT U → Nat} {Good : π → Prop}

theorem ltE_weakOrderOn (H : OHyp E rank Good) : Heapq.WeakOrderOn (fun e : π × Prog => Good e.1) (ltE E.ops) :=
  ⟨fun a b h => H.weak.asymm a.2 b.2 h, fun a b c h1 h2 => H.weak.ntrans a.2 b.2 c.2 h1 h2⟩
theorem ltS_weakOrderOn (H : OHyp E rank Good) :
    Heapq.WeakOrderOn (fun e : π × Prog × UNT U => Good e.1) (ltS E.ops) :=
  ⟨fun a b h => H.weak.asymm a.2 b.2 h, fun a b c h1 h2 => H.weak.ntrans a.2 b.2 c.2 h1 h2⟩

theorem heap_good (H : OHyp E rank Good) {s : St U π} (hs : SInv E s) (nt : UNT U) : ∀ e, e ∈ s.heapOf nt → Good e.1 :=
  fun e he => hasPrio_good H _ _ _ (hs.heap_prio nt e he)

theorem foldl_push_isHeap_on {α : Type} {P : α → Prop} {lt : α → α → Bool} (w : Heapq.WeakOrderOn P lt) :
    ∀ (l h : List α), (∀ y ∈ h, P y) → (∀ y ∈ l, P y) → Heapq.IsHeap lt h → Heapq.IsHeap lt (l.foldl (Heapq.push lt) h)
  | [], _, _, _, hh => hh
  | x :: l, h, hP, hl, hh => by
    apply foldl_push_isHeap_on w l _ _ (fun y hy => hl y (List.mem_cons_of_mem _ hy))
      (Heapq.push_isHeap_on w h x hP (hl x List.mem_cons_self) hh)
    intro y hy
    rcases List.mem_cons.mp ((Heapq.push_perm lt h x).subset hy) with rfl | hm
    · exact hl _ List.mem_cons_self
    · exact hP y hm

theorem foldl_push_head_on' {α : Type} {P : α → Prop} {lt : α → α → Bool} (w : Heapq.WeakOrderOn P lt) :
    ∀ (l h : List α), (∀ y ∈ h, P y) → (∀ y ∈ l, P y) → Heapq.IsHeap lt h →
      (l.foldl (Heapq.push lt) h).head? = l.foldl (Heapq.bestStep lt) h.head?
  | [], _, _, _, _ => rfl
  | x :: l, h, hP, hl, hh => by
    simp only [List.foldl_cons]
    rw [foldl_push_head_on' w l _ _ (fun y hy => hl y (List.mem_cons_of_mem _ hy))
      (Heapq.push_isHeap_on w h x hP (hl x List.mem_cons_self) hh),
      Heapq.push_head_on w h x hP (hl x List.mem_cons_self) hh]
    intro y hy
    rcases List.mem_cons.mp ((Heapq.push_perm lt h x).subset hy) with rfl | hm
    · exact hl _ List.mem_cons_self
    · exact hP y hm

theorem HInvN.pop_on (H : OHyp E rank Good) {s : St U π} (hs : SInv E s) (h : HInvN E s) (nt : UNT U) (e : π × Prog)
    (h' : List (π × Prog)) (hp : Heapq.pop (ltE E.ops) (s.heapOf nt) = some (e, h')) :
    HInvN E (s.setHeap nt h') ∧ ∀ y, y ∈ s.heapOf nt → E.ops.lt y.1 e.1 = false := by
  obtain ⟨a, b⟩ := Heapq.pop_isHeap_on (ltE_weakOrderOn H) _ _ _ (heap_good H hs nt) (h nt) hp
  refine ⟨?_, b⟩
  intro nt'
  rw [St.heapOf_setHeap]
  split
  · exact a
  · exact h nt'

theorem HInvN.pushBoth_on (H : OHyp E rank Good) {s : St U π} (hs : SInv E s) (h : HInvN E s) (nt : UNT U) (pr : π)
    (p : Prog) (hp : HasPrio E p nt pr) : HInvN E (pushBoth E s nt pr p) := by
  unfold UHS.pushBoth
  split
  · rw [if_pos H.ghyp.kway]
    intro nt'
    rw [St.heapOf_setHeap]
    split
    · rename_i heq; subst heq
      exact Heapq.push_isHeap_on (ltE_weakOrderOn H) _ _ (heap_good H hs nt') (hasPrio_good H _ _ _ hp) (h nt')
    · exact h nt'
  · exact h

theorem HInvN.pushStep_on (H : OHyp E rank Good) {s s' : St U π} (hs : SInv E s) (h : HInvN E s) (F : Sym) (args : List Prog)
    (nt : UNT U) (v : List (UNT U)) (i : Nat) (r : Option Prog) (hk : ∀ q, r = some q → KeyOK E nt F (args.set i q) v)
    (hp : pushStep E s F args nt v i r = some s') : HInvN E s' := by
  unfold UHS.pushStep at hp
  cases r with
  | none => simp only [Option.some.injEq] at hp; subst hp; exact h
  | some q =>
    simp only at hp
    split at hp
    · simp only [Option.some.injEq] at hp; subst hp; exact h
    · have hko := hk q rfl
      have h1 := (hs.addSeen nt _ hko.der).setKey nt F (args.set i q) v hko
      split at hp
      · simp at hp
      · rename_i s2' pr hcp
        simp only [Option.some.injEq] at hp
        subst hp
        obtain ⟨hpr, h2, hcs⟩ := h1.computePrio H.ghyp nt _ hko.der s2' pr hcp
        apply HInvN.pushBoth_on H h2 _ nt pr _ hpr
        intro nt'
        rw [hcs.heapOf]
        exact h nt'

theorem HInvN.initPush_on (H : OHyp E rank Good) (nt : UNT U) : ∀ (l : List (Sym × List (UNT U))) {s s' : St U π},
    SInv E s → HInvN E s → initPush E s nt l = some s' → HInvN E s'
  | [], s, s', _, h, hp => by simp only [UHS.initPush, Option.some.injEq] at hp; subst hp; exact h
  | (P, v) :: rest, s, s', hs, h, hp => by
    simp only [UHS.initPush] at hp
    split at hp
    · simp at hp
    · rename_i prog hm
      split at hp
      · simp at hp
      · split at hp
        · simp at hp
        · rename_i s1 pr hcp
          split at hp
          · simp at hp
          · have hd := hs.maxRule_ok nt P v prog hm
            have h1 := hs.addSeen nt prog hd
            obtain ⟨hpr, h2, hcs⟩ := h1.computePrio H.ghyp nt _ hd s1 pr hcp
            have hh1 : HInvN E s1 := by intro nt'; rw [hcs.heapOf]; exact h nt'
            refine HInvN.initPush_on H nt rest (h2.pushBoth H.ghyp nt pr _ hpr ?_) (HInvN.pushBoth_on H h2 hh1 nt pr _ hpr) hp
            rw [hcs.seenOf]
            exact (mem_seenOf_addSeen s nt nt _ _).mpr (Or.inr ⟨rfl, rfl⟩)

/-- every call keeps the heaps of the non-terminals valid (order only on the good priorities) -/
theorem big_heaps_on (H : OHyp E rank Good) {c : Call U π} {s s' : St U π} {r : Res π}
    (hb : Big E c s s' r) : SInv E s → SPre E c → HInvN E s → HInvN E s' := by
  have hk := H.ghyp.kway
  have HG := H.ghyp
  induction hb with
  | query_direct h hb ih => intro hs _ hi; exact ih hs trivial hi
  | query_init h h0 hb ih0 ih =>
    intro hs _ hi
    exact ih (big_sound E HG h0 hs trivial).1 trivial (ih0 hs trivial hi)
  | lop_hit h => intro _ _ hi; exact hi
  | lop_miss h hb ih => intro hs _ hi; exact ih hs trivial hi
  | pop_empty h => intro _ _ hi; exact hi
  | @pop_deleted s s1 s' nt key e h' x r h hd ha hb iha ihb =>
    intro hs _ hi
    have hs1 : SInv E (s.setHeap nt h') := hs.setHeap_sub _ _ (mem_of_pop _ _ _ _ h).2
    have h1 := (hi.pop_on H hs nt e h' h).1
    exact ihb (big_sound E HG ha hs1 trivial).1 trivial (iha hs1 trivial h1)
  | @pop_take s s' nt key e h' x h hd ha iha =>
    intro hs _ hi
    obtain ⟨hm, hsub⟩ := mem_of_pop _ _ _ _ h
    have hs1 := ((hs.setHeap_sub nt h' hsub).setSucc nt key e.2 (hs.heap_seen _ _ hm)).setPred nt e.2 key
    have h1 : HInvN E (((s.setHeap nt h').setSucc nt key e.2).setPred nt e.2 key) := (hi.pop_on H hs nt e h' h).1
    exact iha hs1 trivial h1
  | succ_leaf => intro _ _ hi; exact hi
  | succ_fun hk' hb ih => intro hs _ hi; exact ih hs (hs.keys_ok _ _ _ _ hk') hi
  | loop_done => intro _ _ hi; exact hi
  | @loop_step s s1 s3 s' F args nt v i ai si r x hai hsi hq hp hb ihq ihb =>
    intro hs hpre hi
    have hpre' : KeyOK E nt F args v := hpre
    obtain ⟨hs1, hpost⟩ := big_sound E HG hq hs trivial
    have hkq : ∀ q, r = some q → KeyOK E nt F (args.set i q) v := fun q hq' =>
      ⟨hpre'.1, derList_set E args v i q si hpre'.2 hsi (hpost q hq')⟩
    have hs3 : SInv E s3 := hs1.pushStep HG F args nt v i r hkq s3 hp
    exact ihb hs3 hpre' (HInvN.pushStep_on H hs1 (ihq hs trivial hi) F args nt v i r hkq hp)
  | init_skip h => intro _ _ hi; exact hi
  | @init_run s s1 s3 s' nt rs b r h hrs hr hp hq ihr ihq =>
    intro hs _ hi
    have hs0 : SInv E { s with initS := s.initS ++ [nt] } :=
      ⟨hs.cache_ok, hs.heap_prio, hs.heap_seen, hs.seen_der, hs.succ_seen, hs.keys_ok, hs.maxNT_ok, hs.maxRule_ok,
        hs.start_ok⟩
    have hrows : ∀ x ∈ rs, altsOf E nt x.1 = x.2 := by
      intro x hx
      unfold altsOf
      rw [hrs]
      simp only
      rw [AList.lookup_of_mem_nodup (HG.rows nt rs hrs) (show (x.1, x.2) ∈ rs from hx)]
      rfl
    have hpre1 : SPre E (.initRules nt rs none) := ⟨hrows, by intro b hb; cases hb⟩
    obtain ⟨hs1, hbest⟩ := big_sound E HG hr hs0 hpre1
    have hbd : Der E b.1 nt := hbest b rfl
    have hs2 : SInv E { s1 with maxNT := AList.insert nt b.1 s1.maxNT } := by
      refine ⟨hs1.cache_ok, hs1.heap_prio, hs1.heap_seen, hs1.seen_der, hs1.succ_seen, hs1.keys_ok, ?_, hs1.maxRule_ok,
        hs1.start_ok⟩
      intro nt' m hl
      rw [AList.lookup_insert] at hl
      split at hl
      · rename_i heq; cases hl; subst heq; exact hbd
      · exact hs1.maxNT_ok nt' m hl
    have hs3 := SInv.initPush HG nt _ hs2 hp
    have h1 : HInvN E s1 := ihr hs0 hpre1 hi
    exact ihq hs3 trivial (HInvN.initPush_on H nt _ hs2 h1 hp)
  | rules_nil => intro _ _ hi; exact hi
  | @rules_cons s s1 s' nt P alts rest best best1 best' ha hb iha ihb =>
    intro hs hpre hi
    have hP : altsOf E nt P = alts := hpre.1 (P, alts) List.mem_cons_self
    have hpreA : SPre E (.initAlts nt P alts best) := ⟨by intro vw hvw; rw [hP]; exact hvw, hpre.2⟩
    obtain ⟨hs1, hb1⟩ := big_sound E HG ha hs hpreA
    exact ihb hs1 ⟨fun x hx => hpre.1 x (List.mem_cons_of_mem _ hx), hb1⟩ (iha hs hpreA hi)
  | alts_nil => intro _ _ hi; exact hi
  | @alts_leaf s s1 s3 nt P v w rest best arguments pr ha hc hv iha =>
    intro hs _ hi
    have hcs := computePrio_step E hc
    intro nt'
    show Heapq.IsHeap _ (s3.heapOf nt')
    rw [hcs.heapOf]
    exact iha hs trivial hi nt'
  | @alts_cons s s1 s3 s' nt P v w rest best arguments pr best' ha hc hv hb iha ihb =>
    intro hs hpre hi
    have hm := hpre.1 _ List.mem_cons_self
    obtain ⟨hs1, hargs⟩ := big_sound E HG ha hs trivial
    have hl : DerList E arguments v := by simpa using hargs [] trivial
    obtain ⟨hs2, hd⟩ := hs1.altStep HG nt P v w arguments pr hm hl hc
    have hcs := computePrio_step E hc
    refine ihb hs2 ⟨fun vw hvw => hpre.1 vw (List.mem_cons_of_mem _ hvw), bestUpd_der E nt best _ pr hpre.2 hd⟩ ?_
    intro nt'
    show Heapq.IsHeap _ (s3.heapOf nt')
    rw [hcs.heapOf]
    exact iha hs trivial hi nt'
  | args_nil => intro _ _ hi; exact hi
  | args_cons hi' hm hb ihi ihb =>
    intro hs _ hi
    exact ihb (big_sound E HG hi' hs trivial).1 trivial (ihi hs trivial hi)

end PS.UHS
