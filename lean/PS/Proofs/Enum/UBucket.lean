/- Bucket search on unambiguous grammars (`BucketSearch` of u_heap_search.py): the algebra of bucket tuples
   (the definitions are those of heap_search.py, PS/Model/Enum/HeapSearch.lean) and the instance of the
   order / completeness / termination hypotheses. -/
import PS.Proofs.Enum.GLaw
import PS.Proofs.Enum.UTotalCheck
namespace PS.UHS
open PS PS.G
set_option linter.unusedSectionVars false
variable {U : Type} [DecidableEq U]

theorem Bucket.lt_eq : ∀ a b : Bucket, Bucket.lt a b = PS.HS.Bucket.lt a b
  | [], _ => by simp [Bucket.lt, PS.HS.Bucket.lt]
  | _ :: _, [] => by simp [Bucket.lt, PS.HS.Bucket.lt]
  | a :: as, b :: bs => by
    simp only [Bucket.lt, PS.HS.Bucket.lt]
    rw [Bucket.lt_eq as bs]

theorem bucket_weakOn (size : Nat) : Heapq.WeakOrderOn (fun b : Bucket => b.length = size) Bucket.lt := by
  have h := PS.HS.Bucket.weakOrder size
  have e : (fun a b : { b : Bucket // b.length = size } => Bucket.lt a.1 b.1) =
      (fun a b : { b : PS.HS.Bucket // b.length = size } => PS.HS.Bucket.lt a.1 b.1) := by
    funext a b; exact Bucket.lt_eq a.1 b.1
  unfold Heapq.WeakOrderOn
  rw [e]; exact h

theorem Bucket.add_lt_iff (a b c : Bucket) (h1 : a.length = b.length) (h2 : b.length = c.length) :
    Bucket.lt (Bucket.add a c) (Bucket.add b c) = Bucket.lt a b := by
  rw [Bucket.lt_eq, Bucket.lt_eq]
  exact PS.HG.Bucket.add_lt_iff a b c h1 h2

theorem Bucket.add_comm (a b : Bucket) : Bucket.add a b = Bucket.add b a := PS.HG.Bucket.add_comm a b

theorem Bucket.ofProb_length (size : Nat) (p : Rat) : (Bucket.ofProb size p).length = size := by
  unfold Bucket.ofProb
  simp

theorem Bucket.add_length (a b : Bucket) (size : Nat) (ha : a.length = size) (hb : b.length = size) :
    (Bucket.add a b).length = size := by
  unfold Bucket.add
  simp [ha, hb]

/-- incrementing the same counter of two tuples of one length does not change their order -/
theorem Bucket.bump_lt : ∀ (a b : Bucket) (i : Nat), a.length = b.length →
    Bucket.lt (a.modify i (· + 1)) (b.modify i (· + 1)) = Bucket.lt a b
  | [], [], _, _ => by simp [Bucket.lt]
  | [], _ :: _, _, h => by simp at h
  | _ :: _, [], _, h => by simp at h
  | x :: xs, y :: ys, 0, _ => by
    show Bucket.lt ((x + 1) :: xs) ((y + 1) :: ys) = Bucket.lt (x :: xs) (y :: ys)
    simp only [Bucket.lt]
    by_cases h1 : x < y
    · have : x + 1 < y + 1 := by omega
      simp [h1, this]
    · by_cases h2 : x > y
      · have : ¬ x + 1 < y + 1 := by omega
        have h3 : x + 1 > y + 1 := by omega
        simp [h1, h2, this, h3]
      · have : ¬ x + 1 < y + 1 := by omega
        have h3 : ¬ x + 1 > y + 1 := by omega
        simp [h1, h2, this, h3]
  | x :: xs, y :: ys, i + 1, h => by
    simp only [List.modify_succ_cons, Bucket.lt]
    rw [Bucket.bump_lt xs ys i (by simpa using h)]

/-- **bucket search** (`BucketSearch`, no filter) satisfies the hypotheses of the order / completeness theorems -/
theorem rhyp_bucket (E : Env U Bucket) (rank : UNT U → Nat) (size : Nat) (hops : E.ops = bucketOps size false)
    (hk : E.kway = true) (c1 : rowsB E.G = true) (c2 : arityB E.G = true) (c3 : acyclicB E.G rank = true)
    (c4 : budetB E.G = true) (c5 : altKeysB E.G = true) (c6 : flatB E.G = true) (c7 : leafOneB E.G = true)
    (c9 : (E.G.starts.map (·.1)).Nodup) :
    RHyp E rank (fun b : Bucket => b.length = size) := by
  have hdet := budet_of_check E c4
  refine ⟨⟨GHyp.of_checks E c1 c2 hk, acyclic_of_check E rank c3, ?_, by rw [hops]; rfl,
    ualt_of_budet E hdet (altKeys_of_check E c5), flat_of_check E c6, leafOne_of_check E c7, ?_, ?_, ?_, ?_⟩,
    sdisj_of_budet E hdet, c9, ?_, ?_⟩
  · rw [hops]; exact bucket_weakOn size
  · intro nt F v w _; rw [hops]; exact Bucket.ofProb_length size w
  · intro a b ha hb; rw [hops]; exact Bucket.add_length a b size ha hb
  · intro a b c ha hb hc h
    rw [hops] at h ⊢
    show Bucket.lt (Bucket.add a c) (Bucket.add b c) = false
    rw [Bucket.add_lt_iff a b c (ha.trans hb.symm) (hb.trans hc.symm)]
    exact h
  · intro a b c ha hb hc h
    rw [hops] at h ⊢
    show Bucket.lt (Bucket.add c a) (Bucket.add c b) = false
    rw [Bucket.add_comm c a, Bucket.add_comm c b, Bucket.add_lt_iff a b c (ha.trans hb.symm) (hb.trans hc.symm)]
    exact h
  · intro a b nt w _ ha hb h
    rw [hops] at h ⊢
    show Bucket.lt (Bucket.bump size a w) (Bucket.bump size b w) = false
    unfold Bucket.bump
    rw [Bucket.bump_lt a b _ (ha.trans hb.symm)]
    exact h
  · intro a nt w _ ha
    rw [hops]
    show (Bucket.bump size a w).length = size
    unfold Bucket.bump
    simp [ha]

end PS.UHS
