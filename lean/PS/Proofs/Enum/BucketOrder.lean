/- `Bucket.__lt__` on tuples of one length is a strict weak order (what `HeapInv` needs). -/
import PS.Proofs.Enum.HeapSearch
import PS.Proofs.Enum.HeapInv
namespace PS.HS

/-- `not <` is transitive on bucket tuples of the same length -/
theorem Bucket.not_lt_trans : ∀ a b c : Bucket, a.length = b.length → b.length = c.length →
    Bucket.lt b a = false → Bucket.lt c b = false → Bucket.lt c a = false
  | [], _, [], _, _, _, _ => by simp [Bucket.lt]
  | [], _, _ :: _, _, _, _, _ => by simp [Bucket.lt]
  | _ :: _, _, [], _, _, _, _ => by simp [Bucket.lt]
  | _ :: _, [], _ :: _, h1, _, _, _ => by simp at h1
  | x :: xs, y :: ys, z :: zs, h1, h2, hba, hcb => by
    simp only [Bucket.lt] at hba hcb ⊢
    by_cases hyx : y < x
    · simp [hyx] at hba
    · by_cases hxy : y > x
      · by_cases hzy : z < y
        · simp [hzy] at hcb
        · have : ¬ z < x := by omega
          have : z > x := by omega
          simp [*]
      · have : y = x := by omega
        subst this
        simp only [Nat.lt_irrefl, if_false, gt_iff_lt] at hba
        by_cases hzy : z < y
        · simp [hzy] at hcb
        · by_cases hyz : z > y
          · simp [hzy, hyz]
          · have : z = y := by omega
            subst this
            simp only [Nat.lt_irrefl, if_false, gt_iff_lt] at hcb ⊢
            exact Bucket.not_lt_trans xs ys zs (by simpa using h1) (by simpa using h2) hba hcb

/-- the bucket order on tuples of length `n` is a strict weak order -/
theorem Bucket.weakOrder (n : Nat) :
    Heapq.WeakOrder (fun a b : { b : Bucket // b.length = n } => Bucket.lt a.1 b.1) :=
  ⟨fun a b h => Bucket.lt_asymm a.1 b.1 h,
   fun a b c h1 h2 => Bucket.not_lt_trans a.1 b.1 c.1 (a.2.trans b.2.symm) (b.2.trans c.2.symm) h1 h2⟩

end PS.HS
