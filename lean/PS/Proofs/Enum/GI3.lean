/- (I3) with threshold and filter: every program popped for `S` (recorded or skipped) has, at every
   argument position, either the successor program added to `hash_table_program[S]` or an exhausted
   argument. -/
import PS.Proofs.Enum.GCover
namespace PS.HG
open PS PS.G PS.HS
set_option linter.unusedSectionVars false
variable {S π : Type} [DecidableEq S]

def Fact (s : St S Unit π) (nt : NT S Unit) (F : Sym) (args : List Prog) (i : Nat) (a : Ty × S) (ai : Prog) : Prop :=
  (∃ z, AList.lookup (some ai) (s.succOf (argNT a)) = some z ∧ Tree.node F (args.set i z) ∈ s.seenOf nt) ∨
  (AList.lookup (some ai) (s.succOf (argNT a)) = none ∧ s.heapOf (argNT a) = [])

def DoneFrom (E : Env S Unit π) (s : St S Unit π) (nt : NT S Unit) (y : Prog) (i0 : Nat) : Prop :=
  ∀ F args ra, y = .node F args → E.G.rule? nt F = some (ra, ()) →
    ∀ (i : Nat) a ai, i0 ≤ i → ra[i]? = some a → args[i]? = some ai → Fact s nt F args i a ai

def I3 (E : Env S Unit π) (s : St S Unit π) : Prop := ∀ nt y, Popped E s nt y → DoneFrom E s nt y 0

/-- what is needed of a transition for a fact to survive -/
structure Keeps (s s' : St S Unit π) (c : NT S Unit) : Prop where
  stable : Stable s s'
  seen : SeenMono s s'
  empty : s.heapOf c = [] → s'.heapOf c = [] ∧ s'.succOf c = s.succOf c

theorem Fact.keep {s s' : St S Unit π} {nt : NT S Unit} {F : Sym} {args : List Prog} {i : Nat} {a : Ty × S} {ai : Prog}
    (hf : Fact s nt F args i a ai) (k : Keeps s s' (argNT a)) : Fact s' nt F args i a ai := by
  rcases hf with ⟨z, hz, hm⟩ | ⟨hnone, hemp⟩
  · exact Or.inl ⟨z, k.stable _ _ _ hz, k.seen _ _ hm⟩
  · obtain ⟨h1, h2⟩ := k.empty hemp
    exact Or.inr ⟨by rw [h2]; exact hnone, h1⟩

theorem DoneFrom.keep {E : Env S Unit π} {s s' : St S Unit π} {nt : NT S Unit} {y : Prog} {i0 : Nat}
    (hd : DoneFrom E s nt y i0)
    (k : ∀ F args ra, y = .node F args → E.G.rule? nt F = some (ra, ()) → ∀ a ∈ ra, Keeps s s' (argNT a)) :
    DoneFrom E s' nt y i0 := by
  intro F args ra hy hr i a ai hi ha hai
  exact (hd F args ra hy hr i a ai hi ha hai).keep (k F args ra hy hr a (List.mem_of_getElem? ha))

/-- a call keeps the facts whose argument non-terminal it is not an `__add_successors__` for -/
theorem keeps_of_core {E : Env S Unit π} {rank} {H0 : NT S Unit → List (π × Prog)} {c : Call S Unit}
    {s s' : St S Unit π} {r : Option Prog} (hb : Big E c s s' r) (hc : Core E rank H0 c s s' r)
    (nt' : NT S Unit) (hna : ¬ c.addsAt nt') : Keeps s s' nt' :=
  ⟨hc.stable, hc.seen, fun he => big_emptyStable E hb nt' he hna⟩

theorem keeps_pushStep (E : Env S Unit π) (s : St S Unit π) (F : Sym) (args : List Prog) (nt nt' : NT S Unit)
    (i : Nat) (r : Option Prog) (hne : nt' ≠ nt) : Keeps s (pushStep E s F args nt i r) nt' := by
  obtain ⟨w1, w2, w3, _⟩ := pushStep_views E s F args nt i r
  refine ⟨fun nt'' k v hk => by rw [w1]; exact hk, w2, fun he => ⟨by rw [(w3 nt' hne).1]; exact he, w1 nt'⟩⟩

def I3Post (E : Env S Unit π) (c : Call S Unit) (s s' : St S Unit π) : Prop :=
  (∀ nt y, Popped E s' nt y → Popped E s nt y ∨ DoneFrom E s' nt y 0) ∧
  (match c with
   | .addSucc prog nt => DoneFrom E s' nt prog 0
   | .addLoop F args nt i _ _ _ => DoneFrom E s' nt (.node F args) i
   | _ => True)

theorem child_ne {E : Env S Unit π} {rank} {Good} (L : Law E rank Good) {nt nt0 : NT S Unit} (hr : rank nt < rank nt0)
    {F : Sym} {ra : List (Ty × S)} (hrule : E.G.rule? nt F = some (ra, ())) {a : Ty × S} (ha : a ∈ ra) :
    argNT a ≠ nt0 := by
  intro heq
  have := L.acyclic nt F ra hrule a ha
  rw [heq] at this
  omega

/-- static hypotheses of (I3) -/
structure I3Hyp (E : Env S Unit π) : Prop where
  wtotal : WTotal E
  nodrop : E.dropDeleted = false

/-- popped in the state after a pop: popped before, or the program just popped -/
theorem popped_after_pop {E : Env S Unit π} {s s0 : St S Unit π} {nt : NT S Unit} {e : π × Prog} {h' : List (π × Prog)}
    (hperm : (s.heapProgs nt).Perm (e.2 :: h'.map (·.2)))
    (hheap : ∀ nt', s0.heapProgs nt' = if nt' = nt then h'.map (·.2) else s.heapProgs nt')
    (hseen : ∀ nt', s0.seenOf nt' = s.seenOf nt') (hdel : s0.deleted = s.deleted)
    (hsucc : ∀ nt' k v, AList.lookup k (s0.succOf nt') = some v →
      AList.lookup k (s.succOf nt') = some v ∨ (nt' = nt ∧ v = e.2))
    (nt' : NT S Unit) (y : Prog) (hp : Popped E s0 nt' y) : Popped E s nt' y ∨ (nt' = nt ∧ y = e.2) := by
  rcases hp with ⟨k, hk⟩ | ⟨h1, h2, h3, h4⟩
  · rcases hsucc nt' k y hk with h | h
    · exact Or.inl (Or.inl ⟨k, h⟩)
    · exact Or.inr h
  · rw [hseen] at h1
    rw [hdel] at h3
    rw [hheap] at h2
    by_cases hne : nt' = nt
    · subst hne
      simp only [if_true] at h2
      by_cases hin : y ∈ s.heapProgs nt'
      · rcases List.mem_cons.mp (hperm.subset hin) with rfl | hin'
        · exact Or.inr ⟨rfl, rfl⟩
        · exact absurd hin' h2
      · exact Or.inl (Or.inr ⟨h1, hin, h3, h4⟩)
    · simp only [hne, if_false] at h2
      exact Or.inl (Or.inr ⟨h1, h2, h3, h4⟩)

/-- the push of a successor does not make anything "popped" -/
theorem popped_pushStep {E : Env S Unit π} (hw : WTotal E) {s1 : St S Unit π} (hs : SInv E s1) (hc : CInv E s1)
    (F : Sym) (args : List Prog) (nt : NT S Unit) (i : Nat) (r : Option Prog)
    (ra : List (Ty × S)) (a : Ty × S) (ai : Prog) (hr : E.G.rule? nt F = some (ra, ()))
    (hgl : genList E.G args ra = true) (ha : ra[i]? = some a) (hai : args[i]? = some ai)
    (hseen : Tree.node F args ∈ s1.seenOf nt)
    (hq : ∀ q, r = some q → AList.lookup (some ai) (s1.succOf (argNT a)) = some q ∧ gen E.G q (argNT a) = true)
    (nt' : NT S Unit) (y : Prog) (hp : Popped E (pushStep E s1 F args nt i r) nt' y) : Popped E s1 nt' y := by
  unfold pushStep at hp
  cases r with
  | none => exact hp
  | some q =>
    simp only at hp
    split at hp
    · exact hp
    · rename_i hguard
      obtain ⟨hlk, hgq⟩ := hq q rfl
      have hgl' : genList E.G (args.set i q) ra = true := genList_set E.G args ra i q a hgl ha hgq
      have hnew : Tree.node F (args.set i q) ∉ s1.seenOf nt := by
        intro hm; apply hguard; simp [hm]
      have hargs : ∀ (j : Nat) kj aj, (args.set i q)[j]? = some kj → ra[j]? = some aj →
          (AList.lookup (kj, argNT aj) s1.cache).isSome = true := by
        intro j kj aj hkj haj
        by_cases hji : j = i
        · subst hji
          have hlen : j < args.length := (List.getElem?_eq_some_iff.mp hai).1
          rw [List.getElem?_set_self hlen] at hkj
          cases hkj
          rw [ha] at haj; cases haj
          exact hc.val_cached _ _ _ hlk
        · rw [List.getElem?_set_ne (Ne.symm hji)] at hkj
          exact hc.args_cached nt F args ra hseen hr j kj aj hkj haj
      obtain ⟨⟨c', v⟩, hcp⟩ := computePrio_total E hw s1.cache nt F (args.set i q) ra hr hgl' hargs
      have hgen : gen E.G (.node F (args.set i q)) nt = true := by rw [gen, hr]; exact hgl'
      have hv := (computePrio_spec E _ hs.cache_ok nt _ hgen c' v hcp).1
      obtain ⟨v1, v2, _, v4, v5⟩ := pushNew_views E s1 nt (.node F (args.set i q))
      rcases hp with ⟨k, hk⟩ | ⟨h1, h2, h3, py, hpy, hok⟩
      · rw [v1] at hk; exact Or.inl ⟨k, hk⟩
      · right
        rw [v5] at h3
        rw [v2] at h1
        -- the heap of the new state contains the old one
        have hsub : ∀ p, p ∈ s1.heapProgs nt' → p ∈ (pushNew E s1 nt (Tree.node F (args.set i q))).heapProgs nt' := by
          intro p hin
          rw [pushNew_eq E s1 nt _ c' v hcp]
          split
          · unfold St.heapProgs
            rw [St.heapOf_setHeap]
            split
            · rename_i heq; subst heq
              obtain ⟨e0, he0, he02⟩ := List.mem_map.mp hin
              exact List.mem_map.mpr ⟨e0, (Heapq.push_perm (ltE E.ops) _ _).symm.subset (List.mem_cons_of_mem _ he0), he02⟩
            · exact hin
          · exact hin
        split at h1
        · rename_i heq
          subst heq
          rcases List.mem_append.mp h1 with hold | hnw
          · exact ⟨hold, fun hin => h2 (hsub y hin), h3, py, hpy, hok⟩
          · -- the new program: it is in the heap, or below the threshold
            exfalso
            simp only [List.mem_singleton] at hnw
            subst hnw
            rw [hv] at hpy
            have hvp : v = py := Option.some.inj hpy
            rw [← hvp] at hok
            apply h2
            rw [pushNew_eq E s1 nt' _ c' v hcp]
            simp only [hok, if_true]
            unfold St.heapProgs
            rw [St.heapOf_setHeap]
            simp only [if_true]
            exact List.mem_map.mpr ⟨(v, _), (Heapq.push_perm (ltE E.ops) _ _).symm.subset (List.mem_cons_self), rfl⟩
        · exact ⟨h1, fun hin => h2 (hsub y hin), h3, py, hpy, hok⟩

theorem pushStep_mem (E : Env S Unit π) (hnd : E.dropDeleted = false) (s : St S Unit π) (F : Sym) (args : List Prog)
    (nt : NT S Unit) (i : Nat) (z : Prog) : Tree.node F (args.set i z) ∈ (pushStep E s F args nt i (some z)).seenOf nt := by
  unfold pushStep
  simp only [hnd, Bool.false_and, Bool.or_false]
  split
  · rename_i hc; simpa using hc
  · rw [(pushNew_views E s nt _).2.1]; simp

/-- one iteration of the loop of `__add_successors__` for (I3) -/
theorem iter_i3 {E : Env S Unit π} {rank} {Good} (L : Law E rank Good) (H3 : I3Hyp E) {H0 : NT S Unit → List (π × Prog)}
    {s s1 : St S Unit π} {F : Sym} {args : List Prog} {nt s2 : NT S Unit} {i argsLen : Nat}
    {info : Info S} {ai : Prog} {r : Option Prog}
    (hai : args[i]? = some ai) (hlt : i < argsLen)
    (hq : Big E (.query s2 (some ai)) s s1 r)
    (ihq : Full E H0 s → CInv E s → SPre E (.query s2 (some ai)) → NPre (.query s2 (some ai)) s →
      OPre E H0 (.query s2 (some ai)) s → I3Post E (.query s2 (some ai)) s s1)
    (hf : Full E H0 s) (hc : CInv E s)
    (hspre : SPre E (.addLoop F args nt i argsLen info s2))
    (hopre : OPre E H0 (.addLoop F args nt i argsLen info s2) s) :
    Full E H0 (pushStep E s1 F args nt i r) ∧ CInv E (pushStep E s1 F args nt i r) ∧
    (∀ nt', rank nt ≤ rank nt' → (pushStep E s1 F args nt i r).succOf nt' = s.succOf nt') ∧
    SeenMono s (pushStep E s1 F args nt i r) ∧ gen E.G ai s2 = true ∧
    (∀ nt' y, Popped E (pushStep E s1 F args nt i r) nt' y →
      Popped E s nt' y ∨ (DoneFrom E (pushStep E s1 F args nt i r) nt' y 0 ∧ rank nt' < rank nt)) ∧
    (∀ ra a, E.G.rule? nt F = some (ra, ()) → ra[i]? = some a →
      Fact (pushStep E s1 F args nt i r) nt F args i a ai ∧ argNT a ≠ nt) := by
  obtain ⟨hf3, f3, m3, _, _, hgai, c1, _⟩ := loop_iter L hai hlt hq (fun a b c d => big_core L hq a b c d) hf hspre hopre
  obtain ⟨ra, hr, hgl, hlen, hinfo⟩ := hspre
  obtain ⟨hinf, a, ha, hs2⟩ := hinfo hlt
  have hqpre : OPre E H0 (.query s2 (some ai)) s := by
    intro x hx; cases hx; rw [hs2]; exact hf.oinv.args nt F args ra hopre.1 hr i _ a hai ha
  have hc1 := big_cinv L H3.wtotal hq hf trivial trivial hqpre hc
  obtain ⟨_, spost⟩ := big_sound E hq hf.sinv trivial
  obtain ⟨a1, _⟩ := ihq hf hc trivial trivial hqpre
  have hrank : rank s2 < rank nt := by
    rw [hs2]; exact L.acyclic nt F ra hr a (List.mem_of_getElem? ha)
  have hs2ne : argNT a ≠ nt := by rw [← hs2]; intro heq; rw [heq] at hrank; omega
  have hsame : s1.succOf nt = s.succOf nt := c1.frame nt hrank
  have hqs : ∀ q, r = some q → AList.lookup (some ai) (s1.succOf (argNT a)) = some q ∧ gen E.G q (argNT a) = true :=
    fun q hq' => ⟨by rw [← hs2]; exact c1.post q hq', by rw [← hs2]; exact spost q hq'⟩
  have hvals1 : BelowVals E s1 nt (.node F args) := by
    obtain ⟨pp, hpp, hb'⟩ := hopre.2.2
    exact ⟨pp, hpp, fun k v pv hk hpv => hb' k v pv (by rw [← hsame]; exact hk) hpv⟩
  have hc3 : CInv E (pushStep E s1 F args nt i r) :=
    cinv_push E H0 H3.wtotal s1 F args nt i r ra a ai c1.full hc1 hr hgl ha hai (c1.seen _ _ hopre.1)
      (by rw [hsame]; exact hopre.2.1) hvals1 hqs
  obtain ⟨w1, w2, w3, w4⟩ := pushStep_views E s1 F args nt i r
  refine ⟨hf3, hc3, f3, m3, hgai, ?_, ?_⟩
  · intro nt' y hp
    have hp1 := popped_pushStep H3.wtotal c1.full.sinv hc1 F args nt i r ra a ai hr hgl ha hai (c1.seen _ _ hopre.1) hqs nt' y hp
    by_cases hle : rank nt' ≤ rank s2
    · rcases a1 nt' y hp1 with hold | hd
      · exact Or.inl hold
      · have hlt' : rank nt' < rank nt := by omega
        refine Or.inr ⟨?_, hlt'⟩
        exact hd.keep (fun F' args' ra' _ hr' a' ha' =>
          keeps_pushStep E s1 F args nt (argNT a') i r (child_ne L hlt' hr' ha'))
    · -- the tables of this non-terminal were not touched by the query
      left
      have hlt' : rank s2 < rank nt' := by omega
      have e1 : s1.succOf nt' = s.succOf nt' := c1.frame nt' hlt'
      obtain ⟨e2, e3⟩ := c1.frameH nt' hlt'
      rcases hp1 with ⟨k, hk⟩ | ⟨h1, h2, h3, h4⟩
      · exact Or.inl ⟨k, by rw [← e1]; exact hk⟩
      · refine Or.inr ⟨by rw [← e3]; exact h1, ?_, by rw [← c1.del]; exact h3, h4⟩
        unfold St.heapProgs at h2 ⊢
        rw [← e2]; exact h2
  · intro ra' a' hr' ha'
    rw [hr] at hr'; cases hr'
    rw [ha] at ha'; cases ha'
    refine ⟨?_, hs2ne⟩
    cases hr' : r with
    | some z =>
      left
      refine ⟨z, ?_, pushStep_mem E H3.nodrop s1 F args nt i z⟩
      have := (pushStep_views E s1 F args nt i (some z)).1 (argNT a)
      rw [this]
      exact (hqs z hr').1
    | none =>
      right
      obtain ⟨n1, n2⟩ := c1.none_post hr'
      obtain ⟨p1, p2⟩ := pushStep_other E s1 F args nt (argNT a) i none hs2ne
      rw [p1, p2, ← hs2]
      exact ⟨n1, n2⟩

theorem big_i3 {E : Env S Unit π} {rank} {Good} (L : Law E rank Good) (H3 : I3Hyp E) {H0 : NT S Unit → List (π × Prog)}
    {c : Call S Unit} {s s' : St S Unit π} {r : Option Prog} (hb : Big E c s s' r) :
    Full E H0 s → CInv E s → SPre E c → NPre c s → OPre E H0 c s → I3Post E c s s' := by
  induction hb with
  | @query_direct s s' nt p r h hb ih =>
    intro hf hc _ _ hpre
    have hpre' : OPre E H0 (.lop nt p) s := by
      intro x hx
      rcases hpre x hx with hv | ⟨hempty, _⟩
      · exact Or.inl hv
      · rcases h with h | h
        · rw [h] at hx; cases hx
        · rw [hempty] at h; simp at h
    exact ⟨(ih hf hc trivial trivial hpre').1, trivial⟩
  | @query_first s s1 s' nt p r0 r hp h h0 hb ih0 ih =>
    intro hf hc _ _ hpre
    have hq0 : OPre E H0 (.query nt none) s := by intro x hx; cases hx
    have c0 := big_core L h0 hf trivial trivial hq0
    have hc1 := big_cinv L H3.wtotal h0 hf trivial trivial hq0 hc
    have hnone : AList.lookup none (s.succOf nt) = none := by
      cases hl : AList.lookup none (s.succOf nt) with
      | none => rfl
      | some v => rw [hl] at h; simp at h
    have hpre' : OPre E H0 (.lop nt p) s1 := by
      intro x hx
      rcases hpre x hx with ⟨k, hk⟩ | ⟨hempty, hfp⟩
      · exact Or.inl ⟨k, c0.stable _ _ _ hk⟩
      · have hdel : s.deleted = [] ∨ s.heapOf nt = [] := by
          rcases hf.oinv.del_ok with hd | hd
          · exact Or.inl hd
          · right
            cases hh : s.heapOf nt with
            | nil => rfl
            | cons e0 r0' => exact absurd hempty (hd nt (by rw [hh]; simp))
        rcases query_none_inv h0 hnone hdel with ⟨hpe, heq⟩ | ⟨e, h', hpt, hr0⟩
        · right; rw [heq]; exact (Heapq.pop_none_iff _ _).mp hpe
        · left
          rw [hf.oinv.fresh nt hempty] at hpt
          have := hfp e h' hpt
          exact ⟨none, by rw [← this]; exact c0.post _ hr0⟩
    obtain ⟨a1, _⟩ := ih0 hf hc trivial trivial hq0
    obtain ⟨b1, _⟩ := ih c0.full hc1 trivial trivial hpre'
    have c1 := big_core L hb c0.full trivial trivial hpre'
    refine ⟨?_, trivial⟩
    intro nt' y hp'
    rcases b1 nt' y hp' with hold | hd
    · rcases a1 nt' y hold with hold' | hd
      · exact Or.inl hold'
      · exact Or.inr (hd.keep (fun _ _ _ _ _ a' _ => keeps_of_core hb c1 (argNT a') (fun h => h)))
    · exact Or.inr hd
  | lop_hit h => intro _ _ _ _ _; exact ⟨fun _ _ hp => Or.inl hp, trivial⟩
  | lop_miss h hb ih => intro hf hc _ _ hpre; exact ⟨(ih hf hc trivial h hpre).1, trivial⟩
  | pop_empty h => intro _ _ _ _ _; exact ⟨fun _ _ hp => Or.inl hp, trivial⟩
  | @pop_deleted s s1 s' nt key e h' x r h hd ha hb iha ihb =>
    intro hf hc _ hnone hpre
    obtain ⟨oa, hnea, hvals⟩ := popSkip_order L hf.sinv hf.hinv hf.oinv nt e h' h hd
    obtain ⟨hm, hsub, _, _, _, hha⟩ := pop_facts L hf.sinv hf.hinv hf.oinv nt e h' h
    have hseen := hf.sinv.heap_seen _ _ hm
    have hg := hf.sinv.seen_gen _ _ hseen
    have hfa : Full E H0 (s.setHeap nt h') :=
      ⟨hf.sinv.setHeap_sub nt h' hsub, hf.ninv.popSkip nt e h' h, hha, oa⟩
    have hca := cinv_skip E H0 s nt e h' hf hc h hd
    have hopre : OPre E H0 (.addSucc e.2 nt) (s.setHeap nt h') := ⟨hseen, hnea, hvals⟩
    have ca := big_core L ha hfa hg trivial hopre
    have hc1 := big_cinv L H3.wtotal ha hfa hg trivial hopre hca
    have hsucc1 : s1.succOf nt = s.succOf nt := ca.frame nt (Nat.le_refl _)
    have hheapne : s.heapOf nt ≠ [] := by intro he; rw [he] at hm; cases hm
    have hnone1 : AList.lookup key (s1.succOf nt) = none := by rw [hsucc1]; exact hnone
    have hpre1 : OPre E H0 (.popLoop nt key) s1 := by
      intro y hy
      rcases hpre y hy with ⟨k, hk⟩ | he
      · exact Or.inl ⟨k, by rw [hsucc1]; exact hk⟩
      · exact absurd he hheapne
    have cb := big_core L hb ca.full trivial hnone1 hpre1
    obtain ⟨a1, a2⟩ := iha hfa hca hg trivial hopre
    obtain ⟨b1, _⟩ := ihb ca.full hc1 trivial hnone1 hpre1
    have hkeep : ∀ nt' y, DoneFrom E s1 nt' y 0 → DoneFrom E s' nt' y 0 :=
      fun nt' y hd' => hd'.keep (fun _ _ _ _ _ a' _ => keeps_of_core hb cb (argNT a') (fun h => h))
    have hheap0 : ∀ nt', (s.setHeap nt h').heapProgs nt' = if nt' = nt then h'.map (·.2) else s.heapProgs nt' := by
      intro nt'; unfold St.heapProgs; rw [St.heapOf_setHeap]; split <;> rfl
    refine ⟨?_, trivial⟩
    intro nt' y hp'
    rcases b1 nt' y hp' with hold | hd'
    · rcases a1 nt' y hold with hold' | hd'
      · rcases popped_after_pop (E := E) (pop_progs h) hheap0 (fun _ => rfl) rfl (fun _ _ _ hk => Or.inl hk) nt' y hold'
          with hs' | ⟨rfl, rfl⟩
        · exact Or.inl hs'
        · exact Or.inr (hkeep _ _ a2)
      · exact Or.inr (hkeep _ _ hd')
    · exact Or.inr hd'
  | @pop_take s s' nt key e h' x h hd ha iha =>
    intro hf hc _ hnone hpre
    obtain ⟨oa, hnea, hvals⟩ := popTake_order L hf.sinv hf.hinv hf.oinv nt key e h' h hpre hnone
    obtain ⟨hm, hsub, _, _, _, hha⟩ := pop_facts L hf.sinv hf.hinv hf.oinv nt e h' h
    have hheapne : s.heapOf nt ≠ [] := by intro he; rw [he] at hm; cases hm
    have hseen := hf.sinv.heap_seen _ _ hm
    have hg := hf.sinv.seen_gen _ _ hseen
    have h1 := (hf.sinv.setHeap_sub nt h' hsub).setSucc nt key e.2 hseen
    have hfa : Full E H0 (s.popTake nt key e h') :=
      ⟨h1.congr (fun _ => rfl) (fun _ => rfl) (fun _ => rfl) h1.cache_ok, (hf.ninv.popTake nt key e h' h hnone).1,
       fun nt' => hha nt', oa⟩
    have hkey : ∀ x, key = some x → ∃ k, AList.lookup k (s.succOf nt) = some x := by
      intro x hx
      rcases hpre x hx with hv | he
      · exact hv
      · exact absurd he hheapne
    have hca := cinv_pop E H0 s nt key e h' hf hc h hd hkey hnone
    obtain ⟨a1, a2⟩ := iha hfa hca hg trivial ⟨hseen, hnea, hvals⟩
    refine ⟨?_, trivial⟩
    intro nt' y hp'
    rcases a1 nt' y hp' with hold | hd'
    · rcases popped_after_pop (E := E) (pop_progs h) (popTake_heapProgs s nt key e h') (fun _ => rfl) rfl (by
          intro nt'' k v hk
          rw [popTake_succOf] at hk
          split at hk
          · rename_i heq
            rw [AList.lookup_insert] at hk
            split at hk
            · cases hk; exact Or.inr ⟨heq, rfl⟩
            · exact Or.inl (heq ▸ hk)
          · exact Or.inl hk) nt' y hold with hs' | ⟨rfl, rfl⟩
      · exact Or.inl hs'
      · exact Or.inr a2
    · exact Or.inr hd'
  | succ_leaf =>
    intro _ _ _ _ _
    refine ⟨fun _ _ hp => Or.inl hp, ?_⟩
    intro F args ra hy _ i a ai _ _ hai
    cases hy
    simp at hai
  | @succ_fun s s' F a as nt r rl x hd hr hb ih =>
    intro hf hc hspre _ hpre
    obtain ⟨a1, a2⟩ := ih hf hc (spre_first hspre hd hr) trivial hpre
    exact ⟨a1, a2⟩
  | @loop_done s F args nt i argsLen info s2 h =>
    intro _ _ hspre _ _
    refine ⟨fun _ _ hp => Or.inl hp, ?_⟩
    obtain ⟨ra, hr, _, hlen, _⟩ := hspre
    intro F' args' ra' hy hr' j a ai hj ha _
    cases hy
    rw [hr] at hr'; cases hr'
    have : j < ra.length := (List.getElem?_eq_some_iff.mp ha).1
    omega
  | @loop_step s s1 s' F args nt i argsLen info s2 ai r r' x h hai hq hc hda hb ihq ihb =>
    intro hf hcv hspre _ hpre
    obtain ⟨hf3, hc3, f3, m3, hgai, hnew, hfact⟩ := iter_i3 L H3 hai h hq ihq hf hcv hspre hpre
    have hspre' := spre_next hspre h hc hgai hda
    obtain ⟨ra, hr, hgl, hlen, hinfo⟩ := hspre
    obtain ⟨hinf, a, ha, hs2⟩ := hinfo h
    have hopre' : OPre E H0 (.addLoop F args nt (i + 1) argsLen r'.1 r'.2) (pushStep E s1 F args nt i r) := by
      refine ⟨m3 _ _ hpre.1, ?_, ?_⟩
      · rw [f3 nt (Nat.le_refl _)]; exact hpre.2.1
      · obtain ⟨pp, hpp, hbd⟩ := hpre.2.2
        exact ⟨pp, hpp, fun k v pv hk hpv => hbd k v pv (by rw [← f3 nt (Nat.le_refl _)]; exact hk) hpv⟩
    obtain ⟨b1, b2⟩ := ihb hf3 hc3 hspre' trivial hopre'
    have c4 := big_core L hb hf3 hspre' trivial hopre'
    obtain ⟨hfi, hane⟩ := hfact ra a hr ha
    refine ⟨?_, ?_⟩
    · intro nt' y hp'
      rcases b1 nt' y hp' with hold | hd'
      · rcases hnew nt' y hold with hold' | ⟨hd', hrk⟩
        · exact Or.inl hold'
        · right
          exact hd'.keep (fun F' args' ra' _ hr' a' ha' =>
            keeps_of_core hb c4 (argNT a') (fun heq => child_ne L hrk hr' ha' heq.symm))
      · exact Or.inr hd'
    · intro F' args' ra' hy hr' j a' aj hj ha' haj
      cases hy
      rw [hr] at hr'; cases hr'
      by_cases hji : j = i
      · subst hji
        rw [ha] at ha'; cases ha'
        rw [hai] at haj; cases haj
        exact hfi.keep (keeps_of_core hb c4 (argNT a) (fun heq => hane heq.symm))
      · exact b2 F args ra rfl hr j a' aj (by omega) ha' haj
  | @loop_last s s1 F args nt i argsLen info s2 ai r h hai hq hc ihq =>
    intro hf hcv hspre _ hpre
    obtain ⟨hf3, hc3, f3, m3, hgai, hnew, hfact⟩ := iter_i3 L H3 hai h hq ihq hf hcv hspre hpre
    obtain ⟨ra, hr, hgl, hlen, hinfo⟩ := hspre
    obtain ⟨hinf, a, ha, hs2⟩ := hinfo h
    obtain ⟨hfi, _⟩ := hfact ra a hr ha
    refine ⟨?_, ?_⟩
    · intro nt' y hp'
      rcases hnew nt' y hp' with hold | ⟨hd', _⟩
      · exact Or.inl hold
      · exact Or.inr hd'
    · intro F' args' ra' hy hr' j a' aj hj ha' haj
      cases hy
      rw [hr] at hr'; cases hr'
      have hjl : j < ra.length := (List.getElem?_eq_some_iff.mp ha').1
      have hji : j = i := by omega
      subst hji
      rw [ha] at ha'; cases ha'
      rw [hai] at haj; cases haj
      exact hfi

end PS.HG
