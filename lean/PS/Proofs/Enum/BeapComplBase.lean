/- Completeness of beap search, part 1: the relations between a queued combination and a program.
   For a program `P(k₁ … kₙ)` of non-terminal `S` (rule `P ↦ a₁ … aₙ`) and a combination `u`:
   * `EqArgs`   : `u` is the combination of the program: `cost(kⱼ) = cost_list[aⱼ][uⱼ]` for every j;
   * `BelowArgs`: `u` lies on the producer chain of the program's combination: a prefix of zeros, then one
     position whose cost is ≤ the cost of the corresponding argument, then positions that are equal.
   The successor loop moves a combination that is below, but not equal to, a program one step up its chain. -/
import PS.Proofs.Enum.BeapNodupFinal
import PS.Model.Enum.BeapSpec
namespace PS.Beap
open PS PS.G PS.Heapq
set_option linter.unusedSectionVars false
variable {S : Type} [DecidableEq S]

def EqArgs (E : Env S) (s : St S) : List (Ty × S) → List Nat → List Prog → Prop
  | [], [], [] => True
  | a :: as, c :: cs, k :: ks =>
    (∃ e, (s.clOf (ntOf a))[c]? = some e ∧ costOf E k (ntOf a) = some e.fin) ∧ EqArgs E s as cs ks
  | _, _, _ => False

def BelowArgs (E : Env S) (s : St S) : List (Ty × S) → List Nat → List Prog → Prop
  | [], [], [] => True
  | a :: as, c :: cs, k :: ks =>
    (c = 0 ∧ BelowArgs E s as cs ks) ∨
    ((∃ e y, (s.clOf (ntOf a))[c]? = some e ∧ costOf E k (ntOf a) = some y ∧ e.fin ≤ y) ∧ EqArgs E s as cs ks)
  | _, _, _ => False

theorem EqArgs.ext {E : Env S} {s s' : St S} (he : Ext s s') : ∀ (as : List (Ty × S)) (cs : List Nat) (ks : List Prog),
    EqArgs E s as cs ks → EqArgs E s' as cs ks
  | [], [], [], _ => trivial
  | a :: as, c :: cs, k :: ks, h => by
    obtain ⟨⟨e, h1, h2⟩, h3⟩ := h
    exact ⟨⟨e, he.get _ _ _ h1, h2⟩, EqArgs.ext he as cs ks h3⟩
  | [], [], _ :: _, h => by cases h
  | [], _ :: _, _, h => by cases h
  | _ :: _, [], _, h => by cases h
  | _ :: _, _ :: _, [], h => by cases h

theorem BelowArgs.ext {E : Env S} {s s' : St S} (he : Ext s s') : ∀ (as : List (Ty × S)) (cs : List Nat) (ks : List Prog),
    BelowArgs E s as cs ks → BelowArgs E s' as cs ks
  | [], [], [], _ => trivial
  | a :: as, c :: cs, k :: ks, h => by
    rcases h with ⟨h1, h2⟩ | ⟨⟨e, y, h1, h2, h3⟩, h4⟩
    · exact Or.inl ⟨h1, BelowArgs.ext he as cs ks h2⟩
    · exact Or.inr ⟨⟨e, y, he.get _ _ _ h1, h2, h3⟩, EqArgs.ext he as cs ks h4⟩
  | [], [], _ :: _, h => by cases h
  | [], _ :: _, _, h => by cases h
  | _ :: _, [], _, h => by cases h
  | _ :: _, _ :: _, [], h => by cases h

theorem EqArgs.length {E : Env S} {s : St S} : ∀ (as : List (Ty × S)) (cs : List Nat) (ks : List Prog),
    EqArgs E s as cs ks → cs.length = as.length ∧ ks.length = as.length
  | [], [], [], _ => ⟨rfl, rfl⟩
  | a :: as, c :: cs, k :: ks, h => by
    obtain ⟨g1, g2⟩ := EqArgs.length as cs ks h.2
    simp [g1, g2]
  | [], [], _ :: _, h => by cases h
  | [], _ :: _, _, h => by cases h
  | _ :: _, [], _, h => by cases h
  | _ :: _, _ :: _, [], h => by cases h

theorem BelowArgs.length {E : Env S} {s : St S} : ∀ (as : List (Ty × S)) (cs : List Nat) (ks : List Prog),
    BelowArgs E s as cs ks → cs.length = as.length ∧ ks.length = as.length
  | [], [], [], _ => ⟨rfl, rfl⟩
  | a :: as, c :: cs, k :: ks, h => by
    rcases h with ⟨_, h2⟩ | ⟨_, h4⟩
    · obtain ⟨g1, g2⟩ := BelowArgs.length as cs ks h2; simp [g1, g2]
    · obtain ⟨g1, g2⟩ := EqArgs.length as cs ks h4; simp [g1, g2]
  | [], [], _ :: _, h => by cases h
  | [], _ :: _, _, h => by cases h
  | _ :: _, [], _, h => by cases h
  | _ :: _, _ :: _, [], h => by cases h

/-- equal everywhere is a special case of below -/
theorem EqArgs.below {E : Env S} {s : St S} : ∀ (as : List (Ty × S)) (cs : List Nat) (ks : List Prog),
    EqArgs E s as cs ks → BelowArgs E s as cs ks
  | [], [], [], _ => trivial
  | a :: as, c :: cs, k :: ks, h => by
    obtain ⟨⟨e, h1, h2⟩, h3⟩ := h
    exact Or.inr ⟨⟨e, e.fin, h1, h2, Rat.le_refl⟩, h3⟩
  | [], [], _ :: _, h => by cases h
  | [], _ :: _, _, h => by cases h
  | _ :: _, [], _, h => by cases h
  | _ :: _, _ :: _, [], h => by cases h

/-- the first cost of every (initialised) non-terminal is a lower bound of the cost of its programs -/
def LB (E : Env S) (s : St S) : Prop :=
  ∀ nt c rest p x, s.clOf nt = c :: rest → costOf E p nt = some x → c.fin ≤ x

/-- the cost of a priced combination that is below a program is at most the cost of the program's arguments -/
theorem below_cost (E : Env S) (s : St S) (hlb : LB E s) : ∀ (as : List (Ty × S)) (cs : List Nat) (ks : List Prog) (k x : Rat),
    BelowArgs E s as cs ks → combCost s as cs = some k → costOfList E ks as = some x → k ≤ x
  | [], [], [], k, x, _, hk, hx => by
    simp only [combCost, Option.some.injEq] at hk
    simp only [costOfList, Option.some.injEq] at hx
    subst hk; subst hx; exact Rat.le_refl
  | a :: as, c :: cs, k0 :: ks, k, x, h, hk, hx => by
    simp only [combCost] at hk
    simp only [costOfList] at hx
    split at hk
    · next e k' he hk' =>
      cases hk
      split at hx
      · next y x' hy hx' =>
        cases hx
        rcases h with ⟨h1, h2⟩ | ⟨⟨e', y', g1, g2, g3⟩, g4⟩
        · subst h1
          have hrest := below_cost E s hlb as cs ks k' x' h2 hk' hx'
          have hcl : ∃ rest, s.clOf (ntOf a) = e :: rest := by
            cases hc : s.clOf (ntOf a) with
            | nil => rw [hc] at he; simp at he
            | cons c0 r => rw [hc] at he; simp at he; exact ⟨r, by rw [he]⟩
          obtain ⟨rest, hcl⟩ := hcl
          have := hlb _ e rest k0 y hcl hy
          grind
        · rw [he] at g1; cases g1
          rw [hy] at g2; cases g2
          have hrest := below_cost E s hlb as cs ks k' x' (EqArgs.below as cs ks g4) hk' hx'
          grind
      · cases hx
    · cases hk
  | [], [], _ :: _, _, _, h, _, _ => by cases h
  | [], _ :: _, _, _, _, h, _, _ => by cases h
  | _ :: _, [], _, _, _, h, _, _ => by cases h
  | _ :: _, _ :: _, [], _, _, h, _, _ => by cases h

/-- a combination below, but not equal to, a program: the position to move on, and the combination obtained -/
theorem below_step (E : Env S) (s : St S) (hlb : LB E s) : ∀ (as : List (Ty × S)) (cs : List Nat) (ks : List Prog) (k x : Rat),
    BelowArgs E s as cs ks → ¬ EqArgs E s as cs ks → combCost s as cs = some k → costOfList E ks as = some x →
    ∃ i a k0 e y, i < as.length ∧ (∀ j, j < i → cs.getD j 0 = 0) ∧ as[i]? = some a ∧ ks[i]? = some k0 ∧
      (s.clOf (ntOf a))[cs.getD i 0]? = some e ∧ costOf E k0 (ntOf a) = some y ∧ e.fin < y ∧
      ∀ e', (s.clOf (ntOf a))[cs.getD i 0 + 1]? = some e' → e'.fin ≤ y → BelowArgs E s as (cs.set i (cs.getD i 0 + 1)) ks
  | [], [], [], _, _, _, hne, _, _ => absurd trivial hne
  | a :: as, c :: cs, k0 :: ks, k, x, h, hne, hk, hx => by
    simp only [combCost] at hk
    simp only [costOfList] at hx
    split at hk
    · next e k' he hk' =>
      cases hk
      split at hx
      · next y x' hy hx' =>
        cases hx
        have here : ∀ (hle : e.fin ≤ y), EqArgs E s as cs ks →
            ∃ i a' k0' e0 y0, i < (a :: as).length ∧ (∀ j, j < i → (c :: cs).getD j 0 = 0) ∧ (a :: as)[i]? = some a' ∧
              (k0 :: ks)[i]? = some k0' ∧ (s.clOf (ntOf a'))[(c :: cs).getD i 0]? = some e0 ∧ costOf E k0' (ntOf a') = some y0 ∧
              e0.fin < y0 ∧ ∀ e', (s.clOf (ntOf a'))[(c :: cs).getD i 0 + 1]? = some e' → e'.fin ≤ y0 →
                BelowArgs E s (a :: as) ((c :: cs).set i ((c :: cs).getD i 0 + 1)) (k0 :: ks) := by
          intro hle heq
          have hlt : e.fin < y := by
            by_cases hey : e.fin = y
            · exact absurd ⟨⟨e, he, by rw [hey]; exact hy⟩, heq⟩ hne
            · grind
          refine ⟨0, a, k0, e, y, by simp, fun j hj => by omega, rfl, rfl, he, hy, hlt, fun e' he' hle' => ?_⟩
          exact Or.inr ⟨⟨e', y, he', hy, hle'⟩, heq⟩
        rcases h with ⟨h1, h2⟩ | ⟨⟨e', y', g1, g2, g3⟩, g4⟩
        · subst h1
          have hcl : ∃ rest, s.clOf (ntOf a) = e :: rest := by
            cases hc : s.clOf (ntOf a) with
            | nil => rw [hc] at he; simp at he
            | cons c0 r => rw [hc] at he; simp at he; exact ⟨r, by rw [he]⟩
          obtain ⟨rest, hcl⟩ := hcl
          have hle := hlb _ e rest k0 y hcl hy
          by_cases heq : EqArgs E s as cs ks
          · exact here hle heq
          · obtain ⟨i, a', k0', e0, y0, q1, q2, q3, q4, q5, q6, q7, q8⟩ := below_step E s hlb as cs ks k' x' h2 heq hk' hx'
            refine ⟨i + 1, a', k0', e0, y0, by simp; omega, fun j hj => ?_, by simpa using q3, by simpa using q4,
              by simpa using q5, q6, q7, fun e' he' hle' => ?_⟩
            · cases j with
              | zero => rfl
              | succ j => simpa using q2 j (by omega)
            · have := q8 e' (by simpa using he') hle'
              simp only [List.getD_cons_succ, List.set_cons_succ]
              exact Or.inl ⟨rfl, this⟩
        · rw [he] at g1; cases g1
          rw [hy] at g2; cases g2
          exact here g3 g4
      · cases hx
    · cases hk
  | [], [], _ :: _, _, _, h, _, _, _ => by cases h
  | [], _ :: _, _, _, _, h, _, _, _ => by cases h
  | _ :: _, [], _, _, _, h, _, _, _ => by cases h
  | _ :: _, _ :: _, [], _, _, h, _, _, _ => by cases h

/-- every clean program of cost `cost_list[a][c]` is in the list -/
def PossComp (E : Env S) (s : St S) (ps : List Prog) (ac : NT S Unit × Nat) : Prop :=
  ∀ q e, clean E.filter q = true → (s.clOf ac.1)[ac.2]? = some e → costOf E q ac.1 = some e.fin → q ∈ ps

/-- the arguments of a clean program whose combination is `cs` form a tuple of the product -/
theorem eq_product (E : Env S) (s : St S) : ∀ (as : List (Ty × S)) (cs : List Nat) (ks : List Prog) (poss : List (List Prog)),
    EqArgs E s as cs ks → cleanList E.filter ks = true → All2 (PossComp E s) poss ((as.map ntOf).zip cs) → All2 (· ∈ ·) ks poss
  | [], [], [], poss, _, _, h => by
    simp only [List.map_nil, List.zip_nil_left] at h
    cases h; exact All2.nil
  | a :: as, c :: cs, k :: ks, poss, h, hc, hp => by
    simp only [List.map_cons, List.zip_cons_cons] at hp
    cases hp with
    | cons m r =>
      obtain ⟨⟨e, h1, h2⟩, h3⟩ := h
      simp only [cleanList, Bool.and_eq_true] at hc
      exact All2.cons (m k e hc.1 h1 h2) (eq_product E s as cs ks _ h3 hc.2 r)
  | [], [], _ :: _, _, h, _, _ => by cases h
  | [], _ :: _, _, _, h, _, _ => by cases h
  | _ :: _, [], _, _, h, _, _ => by cases h
  | _ :: _, _ :: _, [], _, h, _, _ => by cases h

end PS.Beap
