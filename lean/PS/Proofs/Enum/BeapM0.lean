/- Merge-aware completeness of beap search, part 0.
   The files BeapM0 … BeapM7 are a copy of the completeness development (BeapComplBase … BeapComplFinal; every copied name
   carries the suffix `m`) with two changes: (1) the filter is replaced by an EFFECTIVE FILTER `F` (a parameter: accepted by
   `E.filter` and not merged so far; `EInvm.d1`: `_deleted` only holds programs that `F` rejects, `EInvm.fle`: F ≤ E.filter),
   so that `merge_program` becomes a step that strengthens the filter; (2) the invariants "an empty bank entry is marked in
   `_empties`" (E4g, FR.3, FrK.e4) are dropped — they are false after a merge emptied an entry — and replaced by the
   hypothesis `E.fixEmptied = true` (the repaired `_query_list_`, fix C12-F13); `HG2`/`MK` keep the fact for the nested
   queries, during which no merge happens.  This file: PossComp, eq_product. -/
import PS.Proofs.Enum.BeapComplFinal
namespace PS.Beap
open PS PS.G PS.Heapq
set_option linter.unusedSectionVars false
set_option linter.unusedVariables false
variable {S : Type} [DecidableEq S] {F : Prog → Bool}

/-- placeholder of the invariant `E4g` of the merge-free development: with the repaired `_query_list_`
    (`Env.fixEmptied`) an empty bank entry needs no mark in `_empties` -/
def E4gm (s : St S) : Prop := True
theorem E4gm.of_tables {s s' : St S} (h : E4gm s) (hc : ∀ nt, s'.clOf nt = s.clOf nt)
    (hb : ∀ nt, s'.bankOf nt = s.bankOf nt) (he : ∀ nt, s'.emptiesOf nt = s.emptiesOf nt) : E4gm s' := trivial
theorem e4g_of_localm (s s' : St S) (nt : NT S Unit) (ci : Nat) (h4 : E4gm s) (hother : ∀ S', S' ≠ nt → Same4 s s' S')
    (hcl : s'.clOf nt = s.clOf nt)
    (hem : ∀ ci', (s.emptiesOf nt).contains ci' = true → (s'.emptiesOf nt).contains ci' = true)
    (hlk : ∀ ci', ci' ≠ ci → AList.lookup ci' (s'.bankOf nt) = AList.lookup ci' (s.bankOf nt))
    (hci : ci + 1 = (s.clOf nt).length) : E4gm s' := trivial
/-- a generating query has a non-empty bank entry (true as long as no program is merged while the query runs) -/
def HG2 (s : St S) (nt : NT S Unit) (fr : Frame) : Prop := fr.hasGen = true → s.bankAt nt fr.ci ≠ []
/-- an empty bank entry is marked in `_empties` -/
def MK (s : St S) (nt : NT S Unit) (ci : Nat) : Prop :=
  AList.lookup ci (s.bankOf nt) = some [] → (s.emptiesOf nt).contains ci = true

/-- every clean program of cost `cost_list[a][c]` is in the list -/
def PossCompm (E : Env S) (F : Prog → Bool) (s : St S) (ps : List Prog) (ac : NT S Unit × Nat) : Prop :=
  ∀ q e, clean F q = true → (s.clOf ac.1)[ac.2]? = some e → costOf E q ac.1 = some e.fin → q ∈ ps

/-- the arguments of a clean program whose combination is `cs` form a tuple of the product -/
theorem eq_productm (E : Env S) (s : St S) : ∀ (as : List (Ty × S)) (cs : List Nat) (ks : List Prog) (poss : List (List Prog)),
    EqArgs E s as cs ks → cleanList F ks = true → All2 (PossCompm E F s) poss ((as.map ntOf).zip cs) → All2 (· ∈ ·) ks poss
  | [], [], [], poss, _, _, h => by
    simp only [List.map_nil, List.zip_nil_left] at h
    cases h; exact All2.nil
  | a :: as, c :: cs, k :: ks, poss, h, hc, hp => by
    simp only [List.map_cons, List.zip_cons_cons] at hp
    cases hp with
    | cons m r =>
      obtain ⟨⟨e, h1, h2⟩, h3⟩ := h
      simp only [cleanList, Bool.and_eq_true] at hc
      exact All2.cons (m k e hc.1 h1 h2) (eq_productm E s as cs ks _ h3 hc.2 r)
  | [], [], _ :: _, _, h, _, _ => by cases h
  | [], _ :: _, _, _, h, _, _ => by cases h
  | _ :: _, [], _, _, h, _, _ => by cases h
  | _ :: _, _ :: _, [], _, h, _, _ => by cases h



end PS.Beap
