/- Decidable sufficient conditions for the static hypotheses of the completeness theorem. -/
import PS.Proofs.Enum.HSComplete
import PS.Proofs.Enum.HSOrderCheck
namespace PS.HS
open PS PS.G
set_option linter.unusedSectionVars false
variable {S : Type} [DecidableEq S]

theorem wtotal_of_all (E : Env S Unit Rat)
    (h : E.G.rules.all (fun e => e.2.all fun r => (ruleW E e.1 r.1).isSome) = true) : WTotal E := by
  intro nt F rl hr
  unfold TT.rule? at hr
  cases hl : AList.lookup nt E.G.rules with
  | none => simp [hl] at hr
  | some rs =>
    simp only [hl] at hr
    have a1 := List.all_eq_true.mp h (nt, rs) (AList.lookup_some_mem hl)
    exact List.all_eq_true.mp a1 (F, rl) (AList.lookup_some_mem hr)

theorem closed_of_all (G : TT S Unit)
    (h : G.rules.all (fun e => e.2.all fun r => r.2.1.all fun a => (AList.lookup (argNT a) G.rules).isSome) = true) :
    Closed G := by
  intro nt F ra hr a ha
  unfold TT.rule? at hr
  cases hl : AList.lookup nt G.rules with
  | none => simp [hl] at hr
  | some rs =>
    simp only [hl] at hr
    have a1 := List.all_eq_true.mp h (nt, rs) (AList.lookup_some_mem hl)
    have a2 := List.all_eq_true.mp a1 (F, (ra, ())) (AList.lookup_some_mem hr)
    exact List.all_eq_true.mp a2 a ha

theorem nonempty_of_all (G : TT S Unit) (h : G.rules.all (fun e => !e.2.isEmpty) = true) :
    ∀ nt rs, AList.lookup nt G.rules = some rs → rs ≠ [] := by
  intro nt rs hl hempty
  have a1 := List.all_eq_true.mp h (nt, rs) (AList.lookup_some_mem hl)
  subst hempty
  simp at a1

/-- all the static hypotheses from Boolean checks on a literal grammar -/
theorem compHyp_of_checks (E : Env S Unit Rat) (rank : NT S Unit → Nat)
    (hops : E.ops = probOps 0)
    (h1 : E.W.all (fun e => e.2.all fun r => decide (0 ≤ r.2)) = true)
    (h2 : E.G.rules.all (fun e => e.2.all fun r => r.2.1.all fun a => decide (rank (argNT a) < rank e.1)) = true)
    (h3 : E.G.rules.all (fun e => decide ((AList.keys e.2).Nodup)) = true)
    (h4 : E.G.rules.all (fun e => !e.2.isEmpty) = true)
    (h5 : (AList.keys E.G.rules).Nodup)
    (h6 : E.G.rules.all (fun e => e.2.all fun r => (ruleW E e.1 r.1).isSome) = true)
    (h7 : E.G.rules.all (fun e => e.2.all fun r => r.2.1.all fun a => (AList.lookup (argNT a) E.G.rules).isSome) = true)
    (h8 : ∀ p, E.filter p = true) : CompHyp E rank :=
  { ord := ⟨⟨0, hops⟩, wnonneg_of_all E.W h1, acyclic_of_all E.G rank h2⟩
    init := ⟨rowsNodup_of_all E.G h3, acyclic_of_all E.G rank h2, nonempty_of_all E.G h4⟩
    thr := by rw [hops]; rfl
    keys := h5
    wtotal := wtotal_of_all E h6
    closed := closed_of_all E.G h7
    nofilter := h8 }

end PS.HS
