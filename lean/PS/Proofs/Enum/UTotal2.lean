/- Heap search on unambiguous, acyclic grammars, termination: every call of the model returns when the
   fuel is at least (rank + 1) · (rows + alternatives + arity + 6) — no KeyError, no failed assertion. -/
import PS.Proofs.Enum.UTotal1
import PS.Proofs.Enum.UNoBack
namespace PS.UHS
open PS PS.G
set_option linter.unusedSectionVars false
variable {U π : Type} [DecidableEq U]
variable {E : Env U π} {rank : UNT U → Nat} {Good : π → Prop}

/-- size bounds and closedness of the rule table -/
structure THyp (E : Env U π) (L Al A : Nat) : Prop where
  rows_len : ∀ nt rs, AList.lookup nt E.G.rules = some rs → rs.length ≤ L
  alts_len : ∀ nt rs, AList.lookup nt E.G.rules = some rs → ∀ x ∈ rs, x.2.length ≤ Al
  arity : ∀ nt F v w, (v, w) ∈ altsOf E nt F → v.length ≤ A
  /-- every non-terminal of an alternative and every start symbol has a row -/
  closed : ∀ nt F v w, (v, w) ∈ altsOf E nt F → ∀ a ∈ v, ∃ rs, AList.lookup a E.G.rules = some rs
  starts_closed : ∀ nt w, startW E nt = some w → ∃ rs, AList.lookup nt E.G.rules = some rs
  /-- no non-terminal without rule (`assert best_program`) -/
  nonempty : ∀ nt rs, AList.lookup nt E.G.rules = some rs → flatOf rs ≠ []

/-- calls at the non-terminals of smaller rank return with fuel `B` when at most `D` programs were rejected -/
structure Low (E : Env U π) (rank : UNT U → Nat) (r B D : Nat) : Prop where
  query : ∀ si, rank si < r → (∃ rs, AList.lookup si E.G.rules = some rs) → ∀ n s p, B ≤ n → Base E s → CacheC s →
    s.deleted.length ≤ D → OPre E rank (.query si p) s → ∃ res, UHS.query E n s si p = some res
  initNT : ∀ si, rank si < r → (∃ rs, AList.lookup si E.G.rules = some rs) → ∀ n s, B ≤ n → Base E s → CacheC s →
    s.deleted.length ≤ D → OPre E rank (.initNT si) s → ∃ res, UHS.initNT E n s si = some res

/-! ### the argument loop of `__add_successors_to_heap__` -/

/-- without filter nothing is ever deleted -/
theorem Base.nodel {s : St U π} (hb : Base E s) (hnf : ∀ p, E.filter p = true) : s.deleted = [] := by
  apply List.eq_nil_iff_forall_not_mem.mpr
  intro q hq
  have := hb.delF q hq
  rw [hnf] at this; cases this

/-- the precondition of the nested query -/
theorem loop_pre_query (H : OHyp E rank Good) {s : St U π} {F : Sym} {args : List Prog} {nt : UNT U} {v : List (UNT U)}
    {i : Nat} {ai : Prog} {si : UNT U} (hbase : Base E s) (hko : KeyOK E nt F args v)
    (hpre : OPre E rank (.addLoop F args nt v (i + 1)) s) (hai : args[i]? = some ai) (hsi : v[i]? = some si) :
    rank si < rank nt ∧ OPre E rank (.query si (some ai)) s := by
  obtain ⟨h1, h2, hseen, hlive, h4, h5⟩ := hpre
  obtain ⟨w, hw⟩ := hko.1
  have hrk : rank si < rank nt := H.acyclic nt F v w hw si (List.mem_of_getElem? hsi)
  have hkp : Popped s si ai := h2.1.args F args v hseen h5 i ai si hai hsi
  obtain ⟨x0, hx0⟩ := h2.1.closed F v w hw si (List.mem_of_getElem? hsi)
  have hsi_full : Full E rank s si := by
    rcases h1 si hrk with hu | hn
    · rw [hu.2.2.1] at hx0; cases hx0
    · exact hn
  exact ⟨hrk, h1.mono (Nat.le_of_lt hrk), Or.inr ⟨hsi_full.1, hsi_full.2.2⟩, fun k hk => by cases hk; exact hkp,
    fun e0 => absurd e0 hsi_full.2.1⟩

/-- the state after the nested query: what the loop body needs -/
theorem loop_after_query (H : OHyp E rank Good) {s s1 : St U π} {F : Sym} {args : List Prog} {nt : UNT U}
    {v : List (UNT U)} {i : Nat} {ai : Prog} {si : UNT U} {r : Option Prog} (hbase : Base E s) (hko : KeyOK E nt F args v)
    (hpre : OPre E rank (.addLoop F args nt v (i + 1)) s) (hai : args[i]? = some ai) (hsi : v[i]? = some si)
    (hq : Big E (.query si (some ai)) s s1 (.prog r)) :
    Base E s1 ∧ Below E rank (rank nt) s1 ∧ NTInv E s1 nt ∧ CInv E rank s1 nt (some (Tree.node F args)) (i + 1) ∧
    AList.lookup (nt, Tree.node F args) s1.keys = some v ∧ Tree.node F args ∈ s1.seenOf nt ∧ s1.succOf nt ≠ [] ∧
    (∀ x, Popped s1 nt x → LE E nt x (Tree.node F args)) ∧ si ≠ nt ∧
    (∀ q, r = some q → Popped s1 si q ∧ LE E si ai q) ∧
    (∀ q, r = some q → AList.lookup (some ai) (s1.succOf si) = some q) ∧
    (r = none → s1.initS.contains si = true ∧ s1.heapOf si = [] ∧ AList.lookup (some ai) (s1.succOf si) = none) ∧
    (∀ (j : Nat) (aj : Prog) (sj : UNT U), args[j]? = some aj → v[j]? = some sj → Popped s1 sj aj) := by
  obtain ⟨hrk, hqpre⟩ := loop_pre_query H hbase hko hpre hai hsi
  obtain ⟨h1, h2, hseen, hlive, h4, h5⟩ := hpre
  have hne : si ≠ nt := by intro e; rw [e] at hrk; exact Nat.lt_irrefl _ hrk
  obtain ⟨hbase1, hst1, hfr1, hnpost, _, hkept1⟩ := big_all H hq hbase trivial trivial
  have hkept1' : ∀ sj, Kept s s1 sj := fun sj => hkept1 sj (by simp [Call.inner])
  obtain ⟨a1, a2, a4, a5⟩ := big_order H hq hbase trivial trivial hqpre
  have hfr1' : Frame rank (rank si) (some si) s s1 := hfr1
  have hsame : Same s s1 nt := hfr1' nt (Nat.le_of_lt hrk) (by intro e; cases e; exact hne rfl)
  have hpop1 : ∀ x, Popped s1 nt x ↔ Popped s nt x := by intro x; unfold Popped; rw [hsame.succ]
  have hr1 : ∀ q, r = some q → AList.lookup (some ai) (s1.succOf si) = some q := fun q hq' => hnpost q hq'
  refine ⟨hbase1, h1.merge hfr1' hst1 hkept1' a1 a2, h2.1.transfer hsame hst1,
    h2.2.transfer hsame hst1 (fun sj _ => hkept1' sj), by rw [hsame.keys]; exact h5, by rw [hsame.seen]; exact hseen,
    by rw [hsame.succ]; exact hlive, fun x hx => h4 x ((hpop1 x).mp hx), hne, ?_, hr1, ?_, ?_⟩
  · intro q hq'
    subst hq'
    exact ⟨⟨_, hr1 q rfl⟩, a4 q rfl ai rfl⟩
  · intro hq'
    subst hq'
    obtain ⟨e1, e2⟩ := a5 rfl
    exact ⟨a2.1.init, e1, e2⟩
  · intro j aj sj haj hsj
    exact (h2.1.args F args v hseen h5 j aj sj haj hsj).mono hst1

/-- the loop body does not fail -/
theorem pushStep_total (H : OHyp E rank Good) {s1 : St U π} {F : Sym} {args : List Prog} {nt : UNT U} {v : List (UNT U)}
    {i : Nat} {ai : Prog} {si : UNT U} (r : Option Prog) (hbase1 : Base E s1) (hc1 : CacheC s1) (hko : KeyOK E nt F args v)
    (hai : args[i]? = some ai) (hsi : v[i]? = some si) (hr : ∀ q, r = some q → Popped s1 si q)
    (hargs : ∀ (j : Nat) (aj : Prog) (sj : UNT U), args[j]? = some aj → v[j]? = some sj → Popped s1 sj aj) :
    ∃ s3, pushStep E s1 F args nt v i r = some s3 := by
  unfold pushStep
  cases r with
  | none => exact ⟨s1, rfl⟩
  | some q =>
    simp only
    split
    · exact ⟨s1, rfl⟩
    · have hqp := hr q rfl
      have hko' : KeyOK E nt F (args.set i q) v :=
        ⟨hko.1, derList_set E args v i q si hko.2 hsi (hqp.der hbase1.sinv)⟩
      have hcache : ∀ (j : Nat) (aj : Prog) (sj : UNT U), (args.set i q)[j]? = some aj → v[j]? = some sj →
          ∃ pr, AList.lookup (aj, sj) s1.cache = some pr := by
        intro j aj sj haj hsj
        by_cases hji : j = i
        · subst hji
          have hlt : j < args.length := (List.getElem?_eq_some_iff.mp hai).1
          rw [List.getElem?_set_self hlt] at haj
          cases haj
          rw [hsi] at hsj; cases hsj
          exact hc1 _ _ (hqp.seen hbase1.sinv)
        · rw [List.getElem?_set_ne (fun e => hji e.symm)] at haj
          exact hc1 sj aj ((hargs j aj sj haj hsj).seen hbase1.sinv)
      obtain ⟨res, hres⟩ := computePrio_total H
        { s1.addSeen nt (Tree.node F (args.set i q)) with keys := AList.insert (nt, Tree.node F (args.set i q)) v s1.keys }
        nt F (args.set i q) v hko' (AList.lookup_insert_self _ _ _) hcache
      rw [hres]
      exact ⟨_, rfl⟩

theorem addLoop_total (H : OHyp E rank Good) {B D : Nat} {nt : UNT U} (Lw : Low E rank (rank nt) B D)
    (hclosed : ∀ F v w, (v, w) ∈ altsOf E nt F → ∀ a ∈ v, ∃ rs, AList.lookup a E.G.rules = some rs)
    (F : Sym) (args : List Prog) (v : List (UNT U)) (hko : KeyOK E nt F args v) :
    ∀ (i : Nat) (n : Nat) (s : St U π), B + i + 1 ≤ n → i ≤ args.length → Base E s → CacheC s → s.deleted.length ≤ D →
      OPre E rank (.addLoop F args nt v i) s → ∃ s', addLoop E n s F args nt v i = some s' := by
  have hk := H.ghyp.kway
  have hlen := derList_length E _ _ hko.2
  obtain ⟨w, hw⟩ := hko.1
  intro i
  induction i with
  | zero =>
    intro n s hn _ _ _ _ _
    cases n with
    | zero => omega
    | succ n => exact ⟨s, by simp [addLoop]⟩
  | succ i ih =>
    intro n s hn hi hbase hc hD hpre
    cases n with
    | zero => omega
    | succ n =>
      have hai : args[i]? = some (args[i]'(by omega)) := List.getElem?_eq_getElem (by omega)
      have hsi : v[i]? = some (v[i]'(by omega)) := List.getElem?_eq_getElem (by omega)
      obtain ⟨hrk, hqpre⟩ := loop_pre_query H hbase hko hpre hai hsi
      obtain ⟨res, hres⟩ := Lw.query _ hrk (hclosed F v w hw _ (List.mem_of_getElem? hsi)) n s _ (by omega) hbase hc hD hqpre
      obtain ⟨s1, r⟩ := res
      have hq := big_of_query E hres
      obtain ⟨hbase1, hbel1, hn1, hcinv1, hkey1, hseen1, hlive1, hlat1, hne, hr, hr1, hr2, hargs⟩ :=
        loop_after_query H hbase hko hpre hai hsi hq
      have hc1 := (big_cacheC E hk hq hc).1
      obtain ⟨s3, hs3⟩ := pushStep_total H r hbase1 hc1 hko hai hsi (fun q hq' => (hr q hq').1) hargs
      obtain ⟨hbase3, hn3, hsucc3, ho3, hst3, hkey3, hc3, hseen3⟩ := hn1.pushStep H hbase1 hko hkey1 hseen1 hlive1 hlat1 hai hsi
        hne hr hcinv1 hr1 hr2 hs3
      have hbel3 : Below E rank (rank nt) s3 := hbel1.only ho3 hst3 (Nat.le_refl _)
      have hpop3 : ∀ x, Popped s3 nt x ↔ Popped s1 nt x := by intro x; unfold Popped; rw [hsucc3]
      have hD3 : s3.deleted.length ≤ D := by
        rw [(pushStep_proc E hk hs3).2, big_deleted E hq hk]; exact hD
      obtain ⟨s', hs'⟩ := ih n s3 (by omega) (by omega) hbase3 (hc1.pushStep E hk hs3).1 hD3
        ⟨hbel3, ⟨hn3, hc3⟩, hseen3 _ hseen1, by rw [hsucc3]; exact hlive1, fun x hx => hlat1 x ((hpop3 x).mp hx), hkey3⟩
      refine ⟨s', ?_⟩
      unfold addLoop
      simp only [hai, hsi, hres]
      change (match pushStep E s1 F args nt v i r with
        | none => none
        | some s3 => addLoop E n s3 F args nt v i) = some s'
      rw [hs3]
      exact hs'

/-! ### `query` on an initialised non-terminal -/

theorem popLoop_total (H : OHyp E rank Good) {L Al A : Nat} (T : THyp E L Al A) {B D : Nat}
    {nt : UNT U} (Lw : Low E rank (rank nt) B D) : ∀ (m n : Nat) (s : St U π) (key : Option Prog), undone s nt ≤ m →
    B + A + 3 + m ≤ n → Base E s → CacheC s → s.deleted.length ≤ D → AList.lookup key (s.succOf nt) = none →
    OPre E rank (.popLoop nt key) s → ∃ res, popLoop E n s nt key = some res := by
  have hk := H.ghyp.kway
  intro m
  induction m with
  | zero =>
    intro n s key hm hn hbase hc hD hnpre hpre
    exact step H T Lw 0 (fun s1 hlt => by omega) n s key hm hn hbase hc hD hnpre hpre
  | succ m ih =>
    intro n s key hm hn hbase hc hD hnpre hpre
    exact step H T Lw (m + 1) (fun s1 hlt n1 key1 hn1 hb1 hc1 hD1 hnp1 hpre1 =>
      ih n1 s1 key1 (by omega) hn1 hb1 hc1 hD1 hnp1 hpre1) n s key hm hn hbase hc hD hnpre hpre
where
  step (H : OHyp E rank Good) {L Al A : Nat} (T : THyp E L Al A) {B D : Nat} {nt : UNT U} (Lw : Low E rank (rank nt) B D)
      (m : Nat)
      (ih : ∀ s1 : St U π, undone s1 nt < m → ∀ (n1 : Nat) (key1 : Option Prog), B + A + 3 + (m - 1) ≤ n1 → Base E s1 →
        CacheC s1 → s1.deleted.length ≤ D → AList.lookup key1 (s1.succOf nt) = none →
        OPre E rank (.popLoop nt key1) s1 → ∃ res, popLoop E n1 s1 nt key1 = some res)
      (n : Nat) (s : St U π) (key : Option Prog) (hm : undone s nt ≤ m) (hn : B + A + 3 + m ≤ n) (hbase : Base E s)
      (hc : CacheC s) (hD : s.deleted.length ≤ D) (hnpre : AList.lookup key (s.succOf nt) = none)
      (hpre : OPre E rank (.popLoop nt key) s) : ∃ res, popLoop E n s nt key = some res := by
    have hk := H.ghyp.kway
    cases n with
    | zero => omega
    | succ n =>
      unfold popLoop
      cases hp : Heapq.pop (ltE E.ops) (s.heapOf nt) with
      | none => exact ⟨_, rfl⟩
      | some eh =>
        obtain ⟨e, h'⟩ := eh
        simp only
        obtain ⟨h1, h2, h3, h4⟩ := hpre
        -- `__add_successors__` of the popped program returns
        have haddS : ∀ (s0 : St U π), Base E s0 → CacheC s0 → s0.deleted.length ≤ D →
            OPre E rank (.addSucc e.2 nt) s0 → ∃ s', addSucc E n s0 e.2 nt = some s' := by
          intro s0 hbase0 hc0 hD0 hpre0
          obtain ⟨hb0, hnc, hseen0, hlive0, l0⟩ := hpre0
          cases n with
          | zero => omega
          | succ n =>
            rcases hprog : e.2 with ⟨F, kids⟩
            rw [hprog] at hseen0 hnc l0
            cases kids with
            | nil => exact ⟨_, rfl⟩
            | cons a as =>
              obtain ⟨v, hv⟩ := hnc.2.keyed _ hseen0
              have hko := hbase0.sinv.keys_ok nt F (a :: as) v hv
              obtain ⟨w, hw⟩ := hko.1
              have hA := T.arity nt F v w hw
              have hlen := derList_length E _ _ hko.2
              simp only [addSucc, hv]
              exact addLoop_total H Lw (fun F v w hm => T.closed nt F v w hm) F (a :: as) v hko (a :: as).length n _
                (by rw [hlen]; omega) (Nat.le_refl _) hbase0 hc0 hD0 ⟨hb0, hnc, hseen0, hlive0, l0, hv⟩
        by_cases hdel : s.deleted.contains e.2 = true
        · -- the popped program was rejected: it is skipped
          have hdel' : (s.setHeap nt h').deleted.contains e.2 = true := hdel
          simp only [hdel', if_true]
          have hlive : s.succOf nt ≠ [] := by
            intro e0
            rw [h4 e0] at hdel
            simp at hdel
          obtain ⟨hbase0, hst0, ho0⟩ := hbase.popDrop H nt e h' hp
          obtain ⟨n0, l0⟩ := h2.1.popDrop H hbase e h' hp hlive
          have c0 : CInv E rank (s.setHeap nt h') nt (some e.2) (arity e.2) :=
            h2.2.popDrop hbase e h' hp hdel _ (by intro F args he; rw [he]; exact Nat.le_refl _)
          have hb0 : Below E rank (rank nt) (s.setHeap nt h') := h1.only ho0 hst0 (Nat.le_refl _)
          have hm0 := (mem_of_pop _ _ _ _ hp).1
          have hseen0 : e.2 ∈ (s.setHeap nt h').seenOf nt := hbase.sinv.heap_seen nt e hm0
          have hc0 : CacheC (s.setHeap nt h') := hc.congr (fun _ => rfl) (CacheGrow.refl _)
          have hpre0 : OPre E rank (.addSucc e.2 nt) (s.setHeap nt h') := ⟨hb0, ⟨n0, c0⟩, hseen0, hlive, l0⟩
          obtain ⟨s1, hs1⟩ := haddS _ hbase0 hc0 hD hpre0
          simp only [hs1]
          have ha := (big_of_run E n).2.2.1 _ _ _ _ hs1
          obtain ⟨hbase1, hst1, _, _, _, _⟩ := big_all H ha hbase0 trivial trivial
          obtain ⟨a1, a2, a3⟩ := big_order H ha hbase0 trivial trivial hpre0
          have hsucc1 : s1.succOf nt = s.succOf nt := a3
          have hc1 := (big_cacheC E hk ha hc0).1
          have hdl1 : s1.deleted = s.deleted := by
            have := big_deleted E ha hk
            exact this
          -- one rejected program less to skip
          have hperm := pop_progs hp
          have hnd : (e.2 :: h'.map (·.2)).Nodup := hperm.nodup_iff.mp (hbase.ninv.heap_nodup nt)
          have hproc0 : Proc (s.setHeap nt h') nt e.2 := by
            refine ⟨hseen0, ?_⟩
            unfold St.heapProgs
            rw [St.heapOf_setHeap, if_pos rfl]
            exact (List.nodup_cons.mp hnd).1
          have hnproc : ¬ Proc s nt e.2 := by
            intro hpr
            apply hpr.2
            exact hperm.symm.subset List.mem_cons_self
          have hlt : undone s1 nt < undone s nt := by
            apply undone_lt hdl1 _ e.2 (by simpa using hdel) hnproc
              (addSucc_proc E H.ghyp rank H.acyclic ha hbase0.sinv e.2 hproc0)
            intro q hq
            apply addSucc_proc E H.ghyp rank H.acyclic ha hbase0.sinv q
            refine ⟨hq.1, ?_⟩
            unfold St.heapProgs
            rw [St.heapOf_setHeap, if_pos rfl]
            intro hin
            exact hq.2 (hperm.symm.subset (List.mem_cons_of_mem _ hin))
          exact ih s1 (by omega) n key (by omega) hbase1 hc1 (by rw [hdl1]; exact hD)
            (by rw [hsucc1]; exact hnpre)
            ⟨a1, a2, fun k hk' => by unfold Popped; rw [hsucc1]; exact h3 k hk', fun e0 => absurd (hsucc1 ▸ e0) hlive⟩
        · have hdel' : (s.setHeap nt h').deleted.contains e.2 = false := by
            show s.deleted.contains e.2 = false
            simpa using hdel
          simp only [hdel', Bool.false_eq_true, if_false]
          obtain ⟨hbase0, hst0, ho0⟩ := hbase.popTake H nt key e h' hp hnpre
          obtain ⟨n0, p0, l0, le0⟩ := h2.1.popTake H hbase key e h' hp hnpre h3
          have c0 : CInv E rank (s.popTake nt key e h') nt (some e.2) (arity e.2) :=
            h2.2.popTake hbase key e h' hp hnpre _ (by intro F args he; rw [he]; exact Nat.le_refl _)
          have hb0 : Below E rank (rank nt) (s.popTake nt key e h') := h1.only ho0 hst0 (Nat.le_refl _)
          have hc0 : CacheC (s.popTake nt key e h') := hc.congr (fun _ => rfl) (CacheGrow.refl _)
          have hlive0 : (s.popTake nt key e h').succOf nt ≠ [] := by
            obtain ⟨k, hk'⟩ := p0
            intro e'; rw [e'] at hk'; cases hk'
          obtain ⟨s', hs'⟩ := haddS _ hbase0 hc0 hD ⟨hb0, ⟨n0, c0⟩, p0.seen hbase0.sinv, hlive0, l0⟩
          show ∃ res, (match addSucc E n (s.popTake nt key e h') e.2 nt with
            | none => none
            | some s' => some (s', some e.2)) = some res
          rw [hs']
          exact ⟨_, rfl⟩

theorem queryInited_total (H : OHyp E rank Good) {L Al A : Nat} (T : THyp E L Al A) {B D : Nat}
    {nt : UNT U} (Lw : Low E rank (rank nt) B D) (n : Nat) (s : St U π) (p : Option Prog) (hn : B + A + 4 + D ≤ n)
    (hbase : Base E s) (hc : CacheC s) (hD : s.deleted.length ≤ D) (hinit : s.initS.contains nt = true)
    (hpre : OPre E rank (.query nt p) s) : ∃ res, query E n s nt p = some res := by
  cases n with
  | zero => omega
  | succ n =>
    unfold query
    simp only [hinit, if_true]
    cases hl : AList.lookup p (s.succOf nt) with
    | some r => exact ⟨_, rfl⟩
    | none =>
      simp only
      obtain ⟨h1, h2, h3, h4⟩ := hpre
      have hn2 : NTInv E s nt ∧ CInv E rank s nt none 0 := by
        rcases h2 with hu | hn2
        · rw [hu.1] at hinit; cases hinit
        · exact hn2
      exact popLoop_total H T Lw D n s p (Nat.le_trans (undone_le s nt) hD) (by omega) hbase hc hD hl ⟨h1, hn2, h3, h4⟩

end PS.UHS
