/- With enough fuel `query` returns (acyclic context-free grammar, any priority satisfying `Law`,
   filter and threshold allowed): the nesting depth of the mutual recursion is bounded by the rank
   of the non-terminal, the arity of the rules and the number of rejected programs (each pop of a
   rejected program costs one level of the pop loop, and a popped program never comes back). -/
import PS.Proofs.Enum.GLaw
namespace PS.HG
open PS PS.G PS.HS
set_option linter.unusedSectionVars false
set_option linter.unusedVariables false
variable {S π : Type} [DecidableEq S]

/-! ### a popped program never comes back -/

def NoBack (s0 s : St S Unit π) : Prop :=
  SeenMono s0 s ∧ ∀ nt y, y ∈ s0.seenOf nt → y ∉ s0.heapProgs nt → y ∉ s.heapProgs nt

theorem NoBack.refl (s : St S Unit π) : NoBack s s := ⟨fun _ _ h => h, fun _ _ _ h => h⟩

theorem pushStep_heap_fresh (E : Env S Unit π) (s1 : St S Unit π) (F : Sym) (args : List Prog) (nt : NT S Unit)
    (i : Nat) (r : Option Prog) (nt' : NT S Unit) (p : Prog)
    (hp : p ∈ (pushStep E s1 F args nt i r).heapProgs nt') : p ∈ s1.heapProgs nt' ∨ p ∉ s1.seenOf nt' := by
  unfold pushStep at hp
  cases r with
  | none => exact Or.inl hp
  | some q =>
    simp only at hp
    split at hp
    · exact Or.inl hp
    · rename_i hguard
      obtain ⟨e, he, rfl⟩ := List.mem_map.mp hp
      rcases (pushNew_views E s1 nt (.node F (args.set i q))).2.2.1 nt' e he with h | ⟨rfl, h2, _⟩
      · exact Or.inl (List.mem_map.mpr ⟨e, h, rfl⟩)
      · right
        rw [h2]
        intro hmem
        apply hguard
        simp [hmem]

theorem big_noBack {E : Env S Unit π} {rank} {Good} (L : Law E rank Good) {H0 : NT S Unit → List (π × Prog)}
    {c : Call S Unit} {s s' : St S Unit π} {r : Option Prog} (hb : Big E c s s' r)
    (hf : Full E H0 s) (h1 : SPre E c) (h2 : NPre c s) (h3 : OPre E H0 c s) : NoBack s s' := by
  refine big_prim L (NoBack s) ?_ ?_ ?_ hb hf h1 h2 h3 (NoBack.refl s)
  · intro s1 nt key e h' _ hP hp _ _ _
    refine ⟨fun nt' p hp' => hP.1 nt' p hp', ?_⟩
    intro nt' y hy hny hmem
    rw [popTake_heapProgs] at hmem
    split at hmem
    · rename_i heq; subst heq
      obtain ⟨e', he', rfl⟩ := List.mem_map.mp hmem
      exact hP.2 nt' _ hy hny (List.mem_map.mpr ⟨e', (mem_of_pop _ _ _ _ hp).2 e' he', rfl⟩)
    · exact hP.2 nt' y hy hny hmem
  · intro s1 nt e h' _ hP hp _
    refine ⟨fun nt' p hp' => hP.1 nt' p hp', ?_⟩
    intro nt' y hy hny hmem
    unfold St.heapProgs at hmem
    rw [St.heapOf_setHeap] at hmem
    split at hmem
    · rename_i heq; subst heq
      obtain ⟨e', he', rfl⟩ := List.mem_map.mp hmem
      exact hP.2 nt' _ hy hny (List.mem_map.mpr ⟨e', (mem_of_pop _ _ _ _ hp).2 e' he', rfl⟩)
    · exact hP.2 nt' y hy hny hmem
  · intro s1 F args nt i r ra a ai _ hP _ _ _ _ _ _ _ _
    obtain ⟨_, w2, _, _⟩ := pushStep_views E s1 F args nt i r
    refine ⟨fun nt' p hp' => w2 nt' p (hP.1 nt' p hp'), ?_⟩
    intro nt' y hy hny hmem
    rcases pushStep_heap_fresh E s1 F args nt i r nt' y hmem with h | h
    · exact hP.2 nt' y hy hny h
    · exact h (hP.1 nt' y hy)

/-! ### the rejected programs that can still be popped -/

def pendF (s : St S Unit π) (nt : NT S Unit) (d : Prog) : Bool :=
  !((s.seenOf nt).contains d) || (s.heapProgs nt).contains d

def pend (s : St S Unit π) (nt : NT S Unit) (D : List Prog) : Nat := (D.filter (pendF s nt)).length

theorem filter_length_mono {α : Type} (f g : α → Bool) :
    ∀ (l : List α), (∀ x ∈ l, f x = true → g x = true) → (l.filter f).length ≤ (l.filter g).length
  | [], _ => Nat.le_refl _
  | x :: xs, h => by
    have ih := filter_length_mono f g xs (fun y hy => h y (List.mem_cons_of_mem _ hy))
    simp only [List.filter_cons]
    cases hf : f x with
    | false =>
      simp only [Bool.false_eq_true, if_false]
      split
      · simp only [List.length_cons]; omega
      · exact ih
    | true =>
      have := h x List.mem_cons_self hf
      simp only [this, if_true, List.length_cons]
      omega

theorem filter_length_lt {α : Type} (f g : α → Bool) :
    ∀ (l : List α), (∀ x ∈ l, f x = true → g x = true) → (∃ x ∈ l, f x = false ∧ g x = true) →
      (l.filter f).length < (l.filter g).length
  | [], _, ⟨_, hx, _⟩ => by cases hx
  | x :: xs, h, ⟨z, hz, hfz, hgz⟩ => by
    have hmono := filter_length_mono f g xs (fun y hy => h y (List.mem_cons_of_mem _ hy))
    simp only [List.filter_cons]
    rcases List.mem_cons.mp hz with rfl | hz'
    · simp only [hfz, hgz, Bool.false_eq_true, if_false, if_true, List.length_cons]
      omega
    · have ih := filter_length_lt f g xs (fun y hy => h y (List.mem_cons_of_mem _ hy)) ⟨z, hz', hfz, hgz⟩
      cases hf : f x with
      | false =>
        simp only [Bool.false_eq_true, if_false]
        split
        · simp only [List.length_cons]; omega
        · exact ih
      | true =>
        have := h x List.mem_cons_self hf
        simp only [this, if_true, List.length_cons]
        omega

theorem pend_le_of_noBack {s0 s : St S Unit π} (h : NoBack s0 s) (nt : NT S Unit) (D : List Prog) :
    pend s nt D ≤ pend s0 nt D := by
  apply filter_length_mono
  intro d _ hd
  unfold pendF at hd ⊢
  cases h0 : (s0.seenOf nt).contains d with
  | false => rfl
  | true =>
    cases h1 : (s0.heapProgs nt).contains d with
    | true => rfl
    | false =>
      exfalso
      have hy : d ∈ s0.seenOf nt := by simpa using h0
      have hny : d ∉ s0.heapProgs nt := by simpa using h1
      have a := h.1 nt d hy
      have b := h.2 nt d hy hny
      have a' : (s.seenOf nt).contains d = true := by simpa using a
      have b' : (s.heapProgs nt).contains d = false := by simpa using b
      rw [a', b'] at hd
      cases hd

theorem pend_le_length (s : St S Unit π) (nt : NT S Unit) (D : List Prog) : pend s nt D ≤ D.length :=
  List.length_filter_le _ _

/-- popping a rejected program strictly decreases the number of pending rejected programs -/
theorem pend_skip {lt : (π × Prog) → (π × Prog) → Bool} {s : St S Unit π} (hn : NInvF s) (nt : NT S Unit) (e : π × Prog)
    (h' : List (π × Prog)) (hp : Heapq.pop lt (s.heapOf nt) = some (e, h'))
    (D : List Prog) (hd : e.2 ∈ D) : pend (s.setHeap nt h') nt D < pend s nt D := by
  have hperm := pop_progs hp
  have hnd : (e.2 :: h'.map (·.2)).Nodup := hperm.nodup_iff.mp (hn.heap_nodup nt)
  have hheap : (s.setHeap nt h').heapProgs nt = h'.map (·.2) := by
    unfold St.heapProgs; rw [St.heapOf_setHeap]; simp
  have hseen : (s.setHeap nt h').seenOf nt = s.seenOf nt := rfl
  apply filter_length_lt
  · intro d _ hd'
    unfold pendF at hd' ⊢
    rw [hseen, hheap] at hd'
    cases h0 : (s.seenOf nt).contains d with
    | false => rfl
    | true =>
      rw [h0] at hd'
      simp only [Bool.not_true, Bool.false_or] at hd' ⊢
      have : d ∈ h'.map (·.2) := by simpa using hd'
      have : d ∈ s.heapProgs nt := hperm.mem_iff.mpr (List.mem_cons_of_mem _ this)
      simpa using this
  · refine ⟨e.2, hd, ?_, ?_⟩
    · unfold pendF
      rw [hseen, hheap]
      have h1 : e.2 ∈ s.seenOf nt := hn.heap_seen nt e.2 (hperm.mem_iff.mpr List.mem_cons_self)
      have h2 : e.2 ∉ h'.map (·.2) := (List.nodup_cons.mp hnd).1
      have h1' : (s.seenOf nt).contains e.2 = true := by simpa using h1
      have h2' : (h'.map (·.2)).contains e.2 = false := by simpa using h2
      rw [h1', h2']; rfl
    · unfold pendF
      have : e.2 ∈ s.heapProgs nt := hperm.mem_iff.mpr List.mem_cons_self
      have h' : (s.heapProgs nt).contains e.2 = true := by simpa using this
      rw [h']; simp

/-! ### totality -/

/-- the children (lower rank) answer with fuel `B` as long as at most `Dm` programs were rejected -/
def ChildTotal (E : Env S Unit π) (rank : NT S Unit → Nat) (H0 : NT S Unit → List (π × Prog)) (Dm R B : Nat) : Prop :=
  ∀ nt, rank nt < R → ∀ n, B ≤ n → ∀ s p, Full E H0 s → s.deleted.length ≤ Dm → OPre E H0 (.query nt p) s →
    ∃ res, query E n s nt p = some res

theorem addLoop_total {E : Env S Unit π} {rank} {Good} (L : Law E rank Good) {H0 : NT S Unit → List (π × Prog)}
    {Dm R B : Nat} (ihc : ChildTotal E rank H0 Dm R B) :
    ∀ (d : Nat) (i argsLen : Nat), argsLen - i = d → ∀ m, B + 1 + d ≤ m →
      ∀ (s : St S Unit π) (F : Sym) (args : List Prog) (nt : NT S Unit) (info : Info S) (s2 : NT S Unit),
        rank nt ≤ R → Full E H0 s → s.deleted.length ≤ Dm → SPre E (.addLoop F args nt i argsLen info s2) →
        OPre E H0 (.addLoop F args nt i argsLen info s2) s →
        ∃ s', addLoop E m s F args nt i argsLen info s2 = some s' := by
  intro d
  induction d with
  | zero =>
    intro i argsLen hd m hm s F args nt info s2 _ _ _ _ _
    obtain ⟨m', rfl⟩ : ∃ m', m = m' + 1 := ⟨m - 1, by omega⟩
    unfold addLoop
    have : i ≥ argsLen := by omega
    simp [this]
  | succ d ih =>
    intro i argsLen hd m hm s F args nt info s2 hrk hf hdm hspre hopre
    obtain ⟨m', rfl⟩ : ∃ m', m = m' + 1 := ⟨m - 1, by omega⟩
    have hlt : i < argsLen := by omega
    unfold addLoop
    have hnge : ¬ i ≥ argsLen := by omega
    simp only [hnge, if_false]
    have hspre0 := hspre
    obtain ⟨ra, hr, hgl, hlen, hinfo⟩ := hspre
    obtain ⟨hinf, a, ha, hs2⟩ := hinfo hlt
    have hlenargs := genList_length' E.G args ra hgl
    have hil : i < args.length := by omega
    have hai : args[i]? = some args[i] := List.getElem?_eq_getElem hil
    rw [hai]
    simp only
    have hrank : rank s2 < rank nt := by
      rw [hs2]; exact L.acyclic nt F ra hr a (List.mem_of_getElem? ha)
    have hqpre : OPre E H0 (.query s2 (some args[i])) s := by
      intro x hx; cases hx; rw [hs2]; exact hf.oinv.args nt F args ra hopre.1 hr i _ a hai ha
    obtain ⟨⟨s1, r⟩, hq⟩ := ihc s2 (by omega) m' (by omega) s (some args[i]) hf hdm hqpre
    rw [hq]
    simp only
    have hb := big_of_query E hq
    obtain ⟨hf3, f3, m3, _, hdel3, hgai, _, _⟩ := loop_iter L hai hlt hb (fun a b c d => big_core L hb a b c d) hf hspre0 hopre
    have hpush : (match r with
        | none => s1
        | some q =>
          if (s1.seenOf nt).contains (Tree.node F (args.set i q)) ||
              (E.dropDeleted && s1.deleted.contains (Tree.node F (args.set i q))) then s1
          else pushNew E s1 nt (Tree.node F (args.set i q))) = pushStep E s1 F args nt i r := by
      cases r <;> rfl
    by_cases hc : i + 1 < argsLen
    · simp only [hc, if_true]
      obtain ⟨r2, hr2, hadv1, hadv2⟩ := deriveAll_gen E.G args[i] s2 info hgai
      rw [hr2]
      simp only
      have hspre' : SPre E (.addLoop F args nt (i + 1) argsLen r2.1 r2.2) := by
        refine ⟨ra, hr, hgl, hlen, ?_⟩
        intro _
        have hlt' : i + 1 < ra.length := by omega
        have hdrop : ra.drop (i + 1) = ra[i + 1] :: ra.drop (i + 1 + 1) := List.drop_eq_getElem_cons hlt'
        refine ⟨?_, ra[i + 1], List.getElem?_eq_getElem hlt', ?_⟩
        · rw [hadv1, hinf, hdrop]; rfl
        · exact hadv2 _ _ (by rw [hinf, hdrop])
      have hopre' : OPre E H0 (.addLoop F args nt (i + 1) argsLen r2.1 r2.2) (pushStep E s1 F args nt i r) := by
        refine ⟨m3 _ _ hopre.1, ?_, ?_⟩
        · rw [f3 nt (Nat.le_refl _)]; exact hopre.2.1
        · obtain ⟨pp, hpp, hbd⟩ := hopre.2.2
          exact ⟨pp, hpp, fun k v pv hk hpv => hbd k v pv (by rw [← f3 nt (Nat.le_refl _)]; exact hk) hpv⟩
      have := ih (i + 1) argsLen (by omega) m' (by omega) (pushStep E s1 F args nt i r) F args nt r2.1 r2.2 hrk hf3
        (by rw [hdel3]; exact hdm) hspre' hopre'
      cases r <;> exact this
    · simp only [hc, if_false]
      exact ⟨_, rfl⟩

theorem addSucc_total {E : Env S Unit π} {rank} {Good} (L : Law E rank Good) {H0 : NT S Unit → List (π × Prog)}
    {Dm R B A : Nat} (hA : ArityLe E.G A) (ihc : ChildTotal E rank H0 Dm R B)
    (m : Nat) (hm : B + 2 + A ≤ m) (s : St S Unit π) (prog : Prog) (nt : NT S Unit) (hrk : rank nt ≤ R)
    (hf : Full E H0 s) (hdm : s.deleted.length ≤ Dm) (hg : gen E.G prog nt = true)
    (hopre : OPre E H0 (.addSucc prog nt) s) :
    ∃ s', addSucc E m s prog nt = some s' := by
  obtain ⟨m', rfl⟩ : ∃ m', m = m' + 1 := ⟨m - 1, by omega⟩
  obtain ⟨F, kids⟩ := prog
  cases kids with
  | nil => exact ⟨s, by simp [addSucc]⟩
  | cons a as =>
    simp only [addSucc]
    rw [gen] at hg
    cases hr : E.G.rule? nt F with
    | none => simp [hr] at hg
    | some rl =>
      obtain ⟨ra, u⟩ := rl
      cases u
      simp only [hr] at hg
      have hd : derive E.G [] nt F = some (deriveWith [] nt ra ()) := by unfold derive; rw [hr]
      rw [hd]
      simp only
      have hspre : SPre E (.addLoop F (a :: as) nt 0 ra.length (deriveWith [] nt ra ()).1 (deriveWith [] nt ra ()).2) := by
        refine ⟨ra, hr, hg, rfl, ?_⟩
        intro _
        cases ra with
        | nil => simp [genList] at hg
        | cons a0 as0 =>
          obtain ⟨t0, s0⟩ := a0
          exact ⟨by simp [deriveWith], (t0, s0), by simp, by simp [deriveWith, argNT]⟩
      exact addLoop_total L ihc ra.length 0 ra.length rfl m' (by have := hA nt F ra hr; omega) _ F (a :: as) nt _ _
        hrk hf hdm hspre hopre

theorem popLoop_total {E : Env S Unit π} {rank} {Good} (L : Law E rank Good) {H0 : NT S Unit → List (π × Prog)}
    {Dm R B A : Nat} (hA : ArityLe E.G A) (ihc : ChildTotal E rank H0 Dm R B) (nt : NT S Unit) (key : Option Prog)
    (hrk : rank nt ≤ R) :
    ∀ (μ : Nat) (m : Nat), B + 3 + A + μ ≤ m → ∀ (s : St S Unit π), pend s nt s.deleted ≤ μ →
      Full E H0 s → s.deleted.length ≤ Dm → AList.lookup key (s.succOf nt) = none →
      OPre E H0 (.popLoop nt key) s → ∃ res, popLoop E m s nt key = some res := by
  intro μ
  induction μ with
  | zero =>
    intro m hm s hμ hf hdm hnone hpre
    obtain ⟨m', rfl⟩ : ∃ m', m = m' + 1 := ⟨m - 1, by omega⟩
    unfold popLoop
    cases hp : Heapq.pop (ltE E.ops) (s.heapOf nt) with
    | none => exact ⟨_, rfl⟩
    | some eh =>
      obtain ⟨e, h'⟩ := eh
      simp only
      cases hdel : (s.setHeap nt h').deleted.contains e.2 with
      | true =>
        exfalso
        have hd : e.2 ∈ s.deleted := by
          have : s.deleted.contains e.2 = true := hdel
          simpa using this
        have := pend_skip hf.ninv nt e h' hp s.deleted hd
        omega
      | false =>
        simp only [Bool.false_eq_true, if_false]
        have hdel' : s.deleted.contains e.2 = false := hdel
        obtain ⟨oa, hnea, hvals⟩ := popTake_order L hf.sinv hf.hinv hf.oinv nt key e h' hp hpre hnone
        obtain ⟨hmem, hsub, _, _, _, hha⟩ := pop_facts L hf.sinv hf.hinv hf.oinv nt e h' hp
        have hseen := hf.sinv.heap_seen _ _ hmem
        have hg := hf.sinv.seen_gen _ _ hseen
        have h1 := (hf.sinv.setHeap_sub nt h' hsub).setSucc nt key e.2 hseen
        have hfa : Full E H0 (s.popTake nt key e h') :=
          ⟨h1.congr (fun _ => rfl) (fun _ => rfl) (fun _ => rfl) h1.cache_ok, (hf.ninv.popTake nt key e h' hp hnone).1,
           fun nt' => hha nt', oa⟩
        have hopre : OPre E H0 (.addSucc e.2 nt) (s.popTake nt key e h') := ⟨hseen, hnea, hvals⟩
        obtain ⟨s', hs'⟩ := addSucc_total L hA ihc m' (by omega) (s.popTake nt key e h') e.2 nt hrk hfa hdm hg hopre
        have : addSucc E m' (((s.setHeap nt h').setSucc nt key e.2).setPred nt e.2 key) e.2 nt = some s' := hs'
        rw [this]
        exact ⟨_, rfl⟩
  | succ μ ih =>
    intro m hm s hμ hf hdm hnone hpre
    obtain ⟨m', rfl⟩ : ∃ m', m = m' + 1 := ⟨m - 1, by omega⟩
    unfold popLoop
    cases hp : Heapq.pop (ltE E.ops) (s.heapOf nt) with
    | none => exact ⟨_, rfl⟩
    | some eh =>
      obtain ⟨e, h'⟩ := eh
      simp only
      obtain ⟨hmem, hsub, _, _, _, hha⟩ := pop_facts L hf.sinv hf.hinv hf.oinv nt e h' hp
      have hseen := hf.sinv.heap_seen _ _ hmem
      have hg := hf.sinv.seen_gen _ _ hseen
      cases hdel : (s.setHeap nt h').deleted.contains e.2 with
      | true =>
        simp only [if_true]
        have hdel' : s.deleted.contains e.2 = true := hdel
        have hd : e.2 ∈ s.deleted := by simpa using hdel'
        have hlt := pend_skip hf.ninv nt e h' hp s.deleted hd
        obtain ⟨oa, hnea, hvals⟩ := popSkip_order L hf.sinv hf.hinv hf.oinv nt e h' hp hdel'
        have hfa : Full E H0 (s.setHeap nt h') :=
          ⟨hf.sinv.setHeap_sub nt h' hsub, hf.ninv.popSkip nt e h' hp, hha, oa⟩
        have hopre : OPre E H0 (.addSucc e.2 nt) (s.setHeap nt h') := ⟨hseen, hnea, hvals⟩
        obtain ⟨s1, hs1⟩ := addSucc_total L hA ihc m' (by omega) (s.setHeap nt h') e.2 nt hrk hfa hdm hg hopre
        rw [hs1]
        simp only
        have ha := (big_of_run E m').2.2.1 _ _ _ _ hs1
        have ca := big_core L ha hfa hg trivial hopre
        have hnb := big_noBack L ha hfa hg trivial hopre
        have hsucc1 : s1.succOf nt = s.succOf nt := ca.frame nt (Nat.le_refl _)
        have hheapne : s.heapOf nt ≠ [] := by intro he; rw [he] at hmem; cases hmem
        have hdel1 : s1.deleted = s.deleted := ca.del
        refine ih m' (by omega) s1 ?_ ca.full (by rw [hdel1]; exact hdm) (by rw [hsucc1]; exact hnone) ?_
        · rw [hdel1]
          have := pend_le_of_noBack hnb nt s.deleted
          have h2 : pend (s.setHeap nt h') nt s.deleted < pend s nt s.deleted := hlt
          omega
        · intro y hy
          rcases hpre y hy with ⟨k, hk⟩ | he
          · exact Or.inl ⟨k, by rw [hsucc1]; exact hk⟩
          · exact absurd he hheapne
      | false =>
        simp only [Bool.false_eq_true, if_false]
        obtain ⟨oa, hnea, hvals⟩ := popTake_order L hf.sinv hf.hinv hf.oinv nt key e h' hp hpre hnone
        have h1 := (hf.sinv.setHeap_sub nt h' hsub).setSucc nt key e.2 hseen
        have hfa : Full E H0 (s.popTake nt key e h') :=
          ⟨h1.congr (fun _ => rfl) (fun _ => rfl) (fun _ => rfl) h1.cache_ok, (hf.ninv.popTake nt key e h' hp hnone).1,
           fun nt' => hha nt', oa⟩
        have hopre : OPre E H0 (.addSucc e.2 nt) (s.popTake nt key e h') := ⟨hseen, hnea, hvals⟩
        obtain ⟨s', hs'⟩ := addSucc_total L hA ihc m' (by omega) (s.popTake nt key e h') e.2 nt hrk hfa hdm hg hopre
        have : addSucc E m' (((s.setHeap nt h').setSucc nt key e.2).setPred nt e.2 key) e.2 nt = some s' := hs'
        rw [this]
        exact ⟨_, rfl⟩

/-- **with enough fuel `query` returns** -/
theorem query_total {E : Env S Unit π} {rank} {Good} (L : Law E rank Good) {H0 : NT S Unit → List (π × Prog)}
    {A Dm : Nat} (hA : ArityLe E.G A) :
    ∀ R, ChildTotal E rank H0 Dm R (R * (A + 5 + Dm)) := by
  intro R
  induction R with
  | zero => intro nt hr; omega
  | succ R ih =>
    intro nt hrk n hn s p hf hdm hpre
    have hrk' : rank nt ≤ R := by omega
    have hn' : R * (A + 5 + Dm) + 5 + A + Dm ≤ n := by
      have : (R + 1) * (A + 5 + Dm) = R * (A + 5 + Dm) + (A + 5 + Dm) := Nat.succ_mul R _
      omega
    obtain ⟨n1, rfl⟩ : ∃ n1, n = n1 + 1 := ⟨n - 1, by omega⟩
    have pl : ∀ (m : Nat), R * (A + 5 + Dm) + 3 + A + Dm ≤ m → ∀ (s1 : St S Unit π) (key : Option Prog), Full E H0 s1 →
        s1.deleted.length ≤ Dm → AList.lookup key (s1.succOf nt) = none → OPre E H0 (.popLoop nt key) s1 →
        ∃ res, popLoop E m s1 nt key = some res := by
      intro m hm s1 key hf1 hd1 hl hp1
      exact popLoop_total L hA ih nt key hrk' Dm m hm s1
        (Nat.le_trans (pend_le_length s1 nt s1.deleted) hd1) hf1 hd1 hl hp1
    -- the part after the optional first query
    have cont : ∀ s1 : St S Unit π, Full E H0 s1 → s1.deleted.length ≤ Dm → OPre E H0 (.lop nt p) s1 →
        ∃ res, (match AList.lookup p (s1.succOf nt) with
          | some r => some (s1, some r)
          | none => popLoop E n1 s1 nt p) = some res := by
      intro s1 hf1 hd1 hpre1
      cases hl : AList.lookup p (s1.succOf nt) with
      | some q => exact ⟨_, rfl⟩
      | none => exact pl n1 (by omega) s1 p hf1 hd1 hl hpre1
    unfold query
    cases p with
    | none =>
      simp only
      exact cont s hf hdm (by intro x hx; cases hx)
    | some x =>
      simp only
      cases hn0 : (AList.lookup none (s.succOf nt)).isSome with
      | true =>
        simp only [if_true]
        refine cont s hf hdm ?_
        intro y hy
        rcases hpre y hy with hv | ⟨hempty, _⟩
        · exact Or.inl hv
        · rw [hempty] at hn0; simp at hn0
      | false =>
        simp only [Bool.false_eq_true, if_false]
        have hnone : AList.lookup none (s.succOf nt) = none := by
          cases hl : AList.lookup none (s.succOf nt) with
          | none => rfl
          | some v => rw [hl] at hn0; cases hn0
        obtain ⟨n2, rfl⟩ : ∃ n2, n1 = n2 + 1 := ⟨n1 - 1, by omega⟩
        have hq0pre : OPre E H0 (.query nt none) s := by intro y hy; cases hy
        obtain ⟨res0, hres0⟩ : ∃ res, query E (n2 + 1) s nt none = some res := by
          unfold query
          simp only [hnone]
          exact pl n2 (by omega) s none hf hdm hnone (by intro y hy; cases hy)
        rw [hres0]
        simp only [Option.map_some]
        have hb0 := big_of_query E (s' := res0.1) (r := res0.2) hres0
        have c0 := big_core L hb0 hf trivial trivial hq0pre
        refine cont res0.1 c0.full (by rw [c0.del]; exact hdm) ?_
        intro y hy
        rcases hpre y hy with ⟨k, hk⟩ | ⟨hempty, hfp⟩
        · exact Or.inl ⟨k, c0.stable _ _ _ hk⟩
        · have hdel : s.deleted = [] ∨ s.heapOf nt = [] := by
            rcases hf.oinv.del_ok with hd | hd
            · exact Or.inl hd
            · right
              cases hh : s.heapOf nt with
              | nil => rfl
              | cons e0 r0' => exact absurd hempty (hd nt (by rw [hh]; simp))
          rcases query_none_inv hb0 hnone hdel with ⟨hpe, heq⟩ | ⟨e, h', hpt, hr0⟩
          · right; rw [heq]; exact (Heapq.pop_none_iff _ _).mp hpe
          · left
            rw [hf.oinv.fresh nt hempty] at hpt
            have := hfp e h' hpt
            exact ⟨none, by rw [← this]; exact c0.post _ hr0⟩

end PS.HG
