/- Merge-aware completeness, part 5 (copy of BeapComplResume.lean, see BeapM0.lean): one step of `query`. -/
import PS.Proofs.Enum.BeapM4
namespace PS.Beap
open PS PS.G PS.Heapq
set_option linter.unusedSectionVars false
set_option linter.unusedVariables false
variable {S : Type} [DecidableEq S] {F : Prog → Bool}

/-- the product loop only appends to the banks -/
theorem emit_bank_mono (E : Env S) (nt : NT S Unit) (ci : Nat) (P : Sym) (isFun : Bool) :
    ∀ (pend : List (List Prog)) (s : St S) (nt' : NT S Unit) (ci' : Nat) (q : Prog),
      q ∈ s.bankAt nt' ci' → q ∈ (emit E nt ci P isFun s pend).1.bankAt nt' ci' := by
  intro pend
  induction pend with
  | nil => intro s nt' ci' q h; exact h
  | cons a rest ih =>
    intro s nt' ci' q h
    by_cases hd : s.deleted.contains (mkProg P isFun a) = true
    · have e : emit E nt ci P isFun s (a :: rest) = emit E nt ci P isFun s rest := by
        simp only [emit]; rw [if_pos hd]
      rw [e]; exact ih s nt' ci' q h
    · by_cases hf : (!E.filter (mkProg P isFun a)) = true
      · have e : emit E nt ci P isFun s (a :: rest) = emit E nt ci P isFun (s.addDeleted (mkProg P isFun a)) rest := by
          simp only [emit]; rw [if_neg hd, if_pos hf]
        rw [e]
        exact ih _ nt' ci' q (by rw [St.addDeleted_bankAt]; exact h)
      · have e : emit E nt ci P isFun s (a :: rest) =
            (s.setBank nt ci (((AList.lookup ci (s.bankOf nt)).getD []) ++ [mkProg P isFun a]), some (mkProg P isFun a, rest)) := by
          simp only [emit]; rw [if_neg hd, if_neg hf]
        rw [e]
        simp only
        rw [St.bankAt_setBank]
        split
        · next hh =>
          obtain ⟨rfl, rfl⟩ := hh
          exact List.mem_append_left _ h
        · exact h

theorem rk_stepm (E : Env S) (hpos : PosW E) (n : Nat) (ihR : RKm E F n) (ihA : AKm E F n) : RKm E F (n + 1) := by
  intro s nt fr r x hw h4 hfo hk hx h
  unfold resume at h
  obtain ⟨t1, t2⟩ := emit_tables E nt fr.ci fr.P fr.isFun fr.pending s
  obtain ⟨ce1, ce2, ce3⟩ := emit_cost E nt fr.ci fr.P fr.isFun fr.cost fr.pending s hw.c hk.fc.1 hk.fc.2
  obtain ⟨k1, k2, k3, k4, k5, k6⟩ := emit_km E nt fr fr.pending s hw.e hw.cr hk
  have hbk := emit_bank E nt fr.ci fr.P fr.isFun fr.pending s
  have hbmono := emit_bank_mono E nt fr.ci fr.P fr.isFun fr.pending s
  have hlast0 := hk.fo.last
  have hnl : ¬ lastGe s nt x := by
    intro ⟨c0, a1, a2⟩
    rw [hlast0] at a1; cases a1
    exact absurd a2 (by grind)
  have he4_1 : E4gm (emit E nt fr.ci fr.P fr.isFun s fr.pending).1 :=
    e4g_of_localm s _ nt fr.ci h4 k3 (t1 nt) (fun ci' hh => by rw [k4]; exact hh) k5 hk.fo.1
  split at h
  · next s1 p rest hem =>
    cases h
    have e1 : (emit E nt fr.ci fr.P fr.isFun s fr.pending).1 = s1 := by rw [hem]
    rw [hem] at k6
    rw [e1] at t1 t2 ce1 k1 k2 k3 he4_1
    refine ⟨⟨ce1, hw.o.of_eq t1 t2, k1, k2⟩, he4_1, keep4_of_other x s s1 nt k3 hnl,
      fun S' hS hl => (hfo S' hS hl).of_same (k3 S' hS) (Ext.of_eq t1), fun p' fr' hy => ?_, fun hr => (by cases hr), fun ci q hq => ?_,
      fun hr => (by cases hr), fun _ hr => (by cases hr), fun _ hr => (by cases hr)⟩
    · cases hy
      refine ⟨k6.1, hk.ns (hk.pe ?_), fun _ => k6.2⟩
      intro hnil
      rw [hnil] at hem
      simp [emit] at hem
    · rcases hbk nt ci q (by rw [e1]; exact hq) with h' | ⟨rest', h'⟩
      · exact Or.inl h'
      · rw [hem] at h'
        simp only [Option.some.injEq, Prod.mk.injEq] at h'
        exact Or.inr ⟨{ fr with hasGen := true, pending := rest }, by rw [h'.1]⟩
  · next s1 hem =>
    have e1 : (emit E nt fr.ci fr.P fr.isFun s fr.pending).1 = s1 := by rw [hem]
    rw [hem] at k6
    rw [e1] at t1 t2 ce1 ce2 k1 k2 k3 k4 k5 he4_1
    have k6 : FrKm E F s1 nt { fr with pending := [] } := k6
    have hbmono1 : ∀ nt' ci' q, q ∈ s.bankAt nt' ci' → q ∈ s1.bankAt nt' ci' := fun nt' ci' q hq => by
      have := hbmono nt' ci' q hq; rw [e1] at this; exact this
    have hbk1 : ∀ ci q, q ∈ s1.bankAt nt ci → q ∈ s.bankAt nt ci := by
      intro ci q hq
      rcases hbk nt ci q (by rw [e1]; exact hq) with h' | ⟨rest', h'⟩
      · exact h'
      · rw [hem] at h'; cases h'
    have hw1 : WInvm E F s1 := ⟨ce1, hw.o.of_eq t1 t2, k1, k2⟩
    have hkeep1 : Keep4 x s s1 := keep4_of_other x s s1 nt k3 hnl
    have hFR1 : ∀ S', S' ≠ nt → ¬ lastGe s S' x → FRm E F s1 S' := fun S' hS hl => (hfo S' hS hl).of_same (k3 S' hS) (Ext.of_eq t1)
    have hnl1 : ¬ lastGe s1 nt x := by
      intro ⟨c0, a1, a2⟩
      exact hnl ⟨c0, by rw [← t1 nt]; exact a1, a2⟩
    -- the end of the query
    have hepi : (∀ e q, s1.queueOf nt = e :: q → e.cost ≠ fr.cost) →
        WInvm E F (epilogue s1 nt fr) ∧ E4gm (epilogue s1 nt fr) ∧ Keep4 x s (epilogue s1 nt fr) ∧
        (∀ S', S' ≠ nt → ¬ lastGe s S' x → FRm E F (epilogue s1 nt fr) S') ∧
        (FRm E F (epilogue s1 nt fr) nt ∧ IdxDonem E F (epilogue s1 nt fr) nt fr.ci ∧
          ∀ ci', Entered (epilogue s1 nt fr) nt ci' → ci' ≤ fr.ci) ∧
        (∀ ci q, q ∈ (epilogue s1 nt fr).bankAt nt ci → q ∈ s.bankAt nt ci) ∧
        (((epilogue s1 nt fr).queueOf nt = [] ∧ ((epilogue s1 nt fr).clOf nt).length = fr.ci + 1) ∨
          (∃ e q, (epilogue s1 nt fr).queueOf nt = e :: q ∧ ((epilogue s1 nt fr).clOf nt)[fr.ci + 1]? = some e.cost)) ∧
        ((fr.noSucc = false ∨ ∃ e q, s.queueOf nt = e :: q ∧ e.cost = fr.cost) → fr.hasGen = false →
          (epilogue s1 nt fr).failedByEmpties = true) ∧
        (HG2 s nt fr → MK (epilogue s1 nt fr) nt fr.ci) := by
      intro hne
      obtain ⟨g1, g2, g3, g4, g5, g6, g7, g8, g9⟩ := epilogue_km E s1 nt { fr with pending := [] } x hw1 he4_1 k6 rfl hx hne
      refine ⟨g1, g2, hkeep1.trans (keep4_of_other x s1 _ nt g3 hnl1),
        fun S' hS hl => (hFR1 S' hS hl).of_same (g3 S' hS) g6, ⟨g4, g5, g7⟩, fun ci q hq => hbk1 ci q (by rw [← g8]; exact hq), ?_, fun hproc hg => ?_,
        fun hg2 => g9 (fun hh => ?_)⟩
      rotate_right
      · obtain ⟨q0, hq0⟩ := List.exists_mem_of_ne_nil _ (hg2 hh)
        exact List.ne_nil_of_mem (hbmono1 nt fr.ci q0 hq0)
      · have hlen1 : (s1.clOf nt).length = fr.ci + 1 := k6.fo.1.symm
        rcases epilogue_append s1 nt fr with ⟨a1, a2⟩ | ⟨e, q, a1, a2⟩
        · exact Or.inl ⟨a1, by rw [a2]; exact hlen1⟩
        · refine Or.inr ⟨e, q, a1, ?_⟩
          rw [a2, List.getElem?_append_right (by omega)]
          simp [hlen1]
      · apply epilogue_fbe
        have hns : fr.noSucc = false := by
          rcases hproc with h' | ⟨e, q, h1, h2⟩
          · exact h'
          · exact absurd h2 (hne e q (by rw [t2 nt]; exact h1))
        rw [hg, hns]; rfl
    split at h
    · next hq0 =>
      cases h
      obtain ⟨g1, g2, g3, g4, g5, g6, g7, g8, g9⟩ := hepi (fun e q hq => by rw [hq0] at hq; cases hq)
      exact ⟨g1, g2, g3, g4, fun _ _ hy => (by cases hy), fun _ => g5, fun ci q hq => Or.inl (g6 ci q hq), fun _ => g7,
        fun hp _ hg => g8 hp hg, fun hg2 _ => g9 hg2⟩
    · next e0 q0 hq0 =>
      split at h
      · next hcost =>
        cases h
        obtain ⟨g1, g2, g3, g4, g5, g6, g7, g8, g9⟩ := hepi (fun e q hq => by rw [hq0] at hq; cases hq; simpa using hcost)
        exact ⟨g1, g2, g3, g4, fun _ _ hy => (by cases hy), fun _ => g5, fun ci q hq => Or.inl (g6 ci q hq), fun _ => g7,
          fun hp _ hg => g8 hp hg, fun hg2 _ => g9 hg2⟩
      · next hcost =>
        have hcost' : e0.cost = fr.cost := by
          by_cases hce : e0.cost = fr.cost
          · exact hce
          · exact absurd hce (by simpa using hcost)
        split at h
        · cases h
        · next el q' hpop =>
          have hhead : el = e0 := by
            have := pop_head ltE _ _ _ hpop
            rw [hq0] at this; simpa using this.symm
          subst hhead
          have hel : el ∈ s1.queueOf nt := (mem_of_pop _ _ _ _ hpop el).mpr (Or.inl rfl)
          obtain ⟨rl0, w, k, hrl0, hwt, hkc, hcst⟩ := hw1.c.queue nt el hel
          have hfo1 : FrO s1 nt fr := k6.fo
          have hfc1 : FrC E s1 nt fr := hk.fc.ext (Ext.of_eq t1)
          have hlast1 := hfo1.last
          have hfrk : fr.cost.fin = w + k := by rw [← hcost', hcst]; rfl
          have hwpos := hpos nt el.P w hwt
          have hw2 : WInvm E F (s1.setQueue nt q') :=
            ⟨cinv_pop E s1 nt el q' hw1.c hpop, oi_pop s1 nt el q' hw1.o hpop,
             hw1.e.of_tables (fun _ => rfl) (fun _ => rfl) (fun _ => rfl) rfl,
             fun S' => (hw1.cr S').of_same rfl (fun _ => rfl)⟩
          have he4_2 : E4gm (s1.setQueue nt q') := he4_1.of_tables (fun _ => rfl) (fun _ => rfl) (fun _ => rfl)
          have hsame12 : ∀ S', S' ≠ nt → Same4 s1 (s1.setQueue nt q') S' := fun S' hS =>
            ⟨rfl, by rw [St.queueOf_setQueue]; simp [hS], rfl, rfl⟩
          have hFR2 : ∀ S', S' ≠ nt → ¬ lastGe s S' x → FRm E F (s1.setQueue nt q') S' := fun S' hS hl =>
            (hFR1 S' hS hl).of_same (hsame12 S' hS) (Ext.of_eq fun _ => rfl)
          have hlG2 : lastGe (s1.setQueue nt q') nt fr.cost.fin := ⟨fr.cost, hlast1, Rat.le_refl⟩
          have hfrset2 : FRsetm E F fr.cost.fin (s1.setQueue nt q') := by
            intro S' hl
            by_cases hS : S' = nt
            · subst hS; exact absurd hlG2 hl
            · apply hFR2 S' hS
              intro ⟨c0, a1, a2⟩
              apply hl
              exact ⟨c0, by show (s1.clOf S').getLast? = _; rw [t1 S']; exact a1, by grind⟩
          split at h
          · cases h
          · next rl hrl =>
            have : rl0 = rl := by rw [hrl0] at hrl; exact Option.some.inj hrl
            subst this
            simp only at h
            split at h
            · cases h
            · next s3 ae af poss hargs =>
              obtain ⟨_, hent0⟩ := combCost_entry_le s1 hw1.o.pos rl0.1 el.comb k hkc
              have hb : ∀ a c, (a, c) ∈ (rl0.1.map ntOf).zip el.comb →
                  ∃ e, ((s1.setQueue nt q').clOf a)[c]? = some e ∧ e.fin < fr.cost.fin := by
                intro a c hm
                obtain ⟨e, h1, h2⟩ := hent0 a c hm
                exact ⟨e, h1, by grind⟩
              obtain ⟨hw3, he4_3, frp3, keep3, ext23, hposs, hafae, haenil, _, hent⟩ :=
                ihA _ _ _ _ _ _ [] _ fr.cost.fin hw2 he4_2 hfrset2 hb All2.nil (fun hh => by cases hh) hargs
              simp only [List.nil_append] at hposs
              have hafae : af = true → ae = true := hafae
              have haenil : ae = true → false = true ∨ [] ∈ poss := haenil
              have hw3 : WInvm E F s3 := hw3
              have hnt3 : Same4 (s1.setQueue nt q') s3 nt := keep3 nt hlG2
              have hcl3 : s3.clOf nt = s1.clOf nt := hnt3.1
              have hq3 : s3.queueOf nt = q' := by rw [hnt3.2.1, St.queueOf_setQueue]; simp
              have hx13 : Ext s1 s3 := (Ext.of_eq fun _ => rfl).trans ext23
              have hk3 : combCost s3 rl0.1 el.comb = some k := combCost_ext hx13 _ _ _ hkc
              have hkeep3 : Keep4 x s s3 :=
                (hkeep1.trans (keep4_of_other x s1 _ nt hsame12 hnl1)).trans (keep3.mono (by grind))
              have hFR3 : ∀ S', S' ≠ nt → ¬ lastGe s S' x → FRm E F s3 S' := by
                intro S' hS hl
                by_cases hl2 : lastGe (s1.setQueue nt q') S' fr.cost.fin
                · exact (hFR2 S' hS hl).of_same (keep3 S' hl2) ext23
                · exact frp3 S' hl2
              have hfailed : (af && !ae) = false := by
                cases af
                · rfl
                · rw [hafae rfl]; rfl
              split at h
              · next hfo' => rw [hfailed] at hfo'; cases hfo'
              · have hfc : fr.cost = Cost.ofRat (w + k) := by rw [← hcost', hcst]
                have hfrf : fr.cost.inf = 0 := by rw [hfc]; rfl
                have hlow3 : ∀ c ∈ s3.clOf nt, c.fin ≤ fr.cost.fin := by
                  intro c hcm
                  rw [hcl3] at hcm
                  exact le_last_of_pairwise _ (hw1.o.mono nt) fr.cost hlast1 c hcm
                obtain ⟨hs4, hcl4, hq4⟩ := succLoop_oi nt fr.cost el.P el.comb hfrf (rl0.1.map ntOf) s3 0 hw3.o hlow3
                obtain ⟨hc4, _⟩ := succLoop_cost E nt el.P el.comb rl0 w k hrl0 hwt (rl0.1.map ntOf) s3 0 hw3.c hk3 (by simp)
                rw [← hfc] at hc4
                obtain ⟨hb4, hem4, hd4⟩ := succLoop_tables nt fr.cost el.P el.comb (rl0.1.map ntOf) s3 0
                obtain ⟨hperm4, _⟩ := succLoop_perm nt fr.cost el.P el.comb (rl0.1.map ntOf) s3 0
                generalize hs4def : succLoop nt fr.cost el.P el.comb s3 0 (rl0.1.map ntOf) = s4 at *
                have hx34 : Ext s3 s4 := Ext.of_eq hcl4
                have hx14 : Ext s1 s4 := hx13.trans hx34
                have hw4 : WInvm E F s4 := ⟨hc4, hs4, hw3.e.of_tables hcl4 hb4 hem4 hd4,
                  fun S' => (hw3.cr S').of_same (hcl4 S') (fun ci => by unfold St.bankAt; rw [hb4])⟩
                have he4_4 : E4gm s4 := he4_3.of_tables hcl4 hb4 hem4
                have hsame34 : ∀ S', S' ≠ nt → Same4 s3 s4 S' := fun S' hS => ⟨hcl4 S', hq4 S' hS, hb4 S', hem4 S'⟩
                have hnl3 : ¬ lastGe s3 nt x := by
                  intro ⟨c0, a1, a2⟩
                  rw [hcl3, hlast1] at a1; cases a1
                  exact absurd a2 (by grind)
                have hkeep4 : Keep4 x s s4 := hkeep3.trans (keep4_of_other x s3 s4 nt hsame34 hnl3)
                have hFR4 : ∀ S', S' ≠ nt → ¬ lastGe s S' x → FRm E F s4 S' := fun S' hS hl =>
                  (hFR3 S' hS hl).of_same (hsame34 S' hS) hx34
                -- the tables of `nt`
                have hbank4 : s4.bankOf nt = s1.bankOf nt := by rw [hb4, hnt3.2.2.1]; rfl
                have hemp4 : s4.emptiesOf nt = s1.emptiesOf nt := by rw [hem4, hnt3.2.2.2]; rfl
                have hclnt4 : s4.clOf nt = s1.clOf nt := by rw [hcl4, hcl3]
                have hba4 : ∀ ci, s4.bankAt nt ci = s1.bankAt nt ci := fun ci => by unfold St.bankAt; rw [hbank4]
                have hqmem4 : ∀ el', el' ∈ q' → el' ∈ s4.queueOf nt := fun el' hm =>
                  hperm4.mem_iff.mpr (List.mem_append_right _ (by rw [hq3]; exact hm))
                have hlen : el.comb.length = rl0.1.length := combCost_length s1 _ _ _ hkc
                -- the frontier clause after the successors were pushed
                have hwit : ∀ f kids y rl', clean F (.node f kids) = true → costOf E (.node f kids) nt = some y →
                    fr.cost.fin ≤ y → E.G.rule? nt f = some rl' →
                    (y = fr.cost.fin ∧ Tree.node f kids ∈ s4.bankAt nt fr.ci) ∨
                    (∃ el', el' ∈ s4.queueOf nt ∧ el'.P = f ∧ BelowArgs E s4 rl'.1 el'.comb kids) ∨
                    (f = el.P ∧ All2 (· ∈ ·) kids poss) := by
                  intro f kids y rl' hcl hy hle hr
                  rcases k6.frf f kids y rl' hcl hy hle hr with g | ⟨el', g1, g2, g3⟩ | ⟨a, g1, _⟩
                  · exact Or.inl ⟨g.1, by rw [hba4]; exact g.2⟩
                  · rcases (mem_of_pop _ _ _ _ hpop el').mp g1 with heq | hq'
                    · subst heq
                      subst g2
                      have : rl' = rl0 := by rw [hrl0] at hr; exact (Option.some.inj hr).symm
                      subst this
                      have hb3 : BelowArgs E s3 rl'.1 el'.comb kids := BelowArgs.ext hx13 _ _ _ g3
                      by_cases heq : EqArgs E s3 rl'.1 el'.comb kids
                      · right; right
                        exact ⟨rfl, eq_productm E s3 _ _ _ _ heq (clean_kids _ _ _ hcl) (hposs.mono (fun _ _ hh => hh.2))⟩
                      · right; left
                        obtain ⟨xs, hxs⟩ : ∃ xs, costOfList E kids rl'.1 = some xs := by
                          obtain ⟨args, u⟩ := rl'
                          simp only [costOf, hrl0, hwt] at hy
                          split at hy
                          · next xs hxs => exact ⟨xs, hxs⟩
                          · cases hy
                        obtain ⟨i, a, k0, e, y0, hi, hz, hai, hki, hcle, hcy, hlt, hnext⟩ :=
                          below_step E s3 hw3.e.lb rl'.1 el'.comb kids k xs hb3 heq hk3 hxs
                        have hci : el'.comb[i]? = some (el'.comb.getD i 0) := getElem?_getD' _ _ _ (by omega)
                        have hmemz : (ntOf a, el'.comb.getD i 0) ∈ (rl'.1.map ntOf).zip el'.comb :=
                          mem_zip_of_get _ _ i _ _ (by simp [hai]) hci
                        have hentA := hent _ _ hmemz
                        obtain ⟨e2, he2, he2l⟩ := hb _ _ hmemz
                        have he23 := ext23.get _ _ _ he2
                        have : e2 = e := by rw [hcle] at he23; exact (Option.some.inj he23).symm
                        subst this
                        have hfrA : el'.comb.getD i 0 + 1 = (s3.clOf (ntOf a)).length → FRm E F s3 (ntOf a) := by
                          intro hl'
                          apply frp3
                          intro ⟨c0, a1, a2⟩
                          have hc0 : c0 ∈ (s1.setQueue nt q').clOf (ntOf a) := List.mem_of_mem_getLast? a1
                          have hc0' : c0 ∈ s3.clOf (ntOf a) := (ext23 (ntOf a)).subset hc0
                          have := le_last_of_pairwise _ (hw3.o.mono _) e2 (getLast_of_len _ _ e2 hcle hl') c0 hc0'
                          grind
                        obtain ⟨e', he', hle'⟩ := next_okm E s3 hw3 (ntOf a) _ e2 k0 y0 hcle
                          (cleanList_get _ _ i k0 (clean_kids _ _ _ hcl) hki) hcy hlt hentA hfrA
                        have hnb := hnext e' he' hle'
                        have hlen' : el'.comb.getD i 0 + 1 < (s3.clOf (ntOf a)).length := (List.getElem?_eq_some_iff.mp he').1
                        obtain ⟨el'', m1, m2, m3⟩ := succ_pushed nt fr.cost el'.P el'.comb (rl'.1.map ntOf) s3 i (ntOf a)
                          (by simp [hai]) hz hlen'
                        rw [hs4def] at m1
                        exact ⟨el'', m1, m2, by rw [m3]; exact BelowArgs.ext hx34 _ _ _ hnb⟩
                    · exact Or.inr (Or.inl ⟨el', hqmem4 el' hq', g2, BelowArgs.ext hx14 _ _ _ g3⟩)
                  · cases g1
                -- the recursive call
                have hrec : ∀ (s5 : St S) (fr5 : Frame), WInvm E F s5 → E4gm s5 → (∀ S', S' ≠ nt → Same4 s4 s5 S') →
                    s5.clOf nt = s4.clOf nt → Ext s4 s5 → (∀ ci, s5.bankAt nt ci = s4.bankAt nt ci) → FrKm E F s5 nt fr5 → fr5.cost = fr.cost → fr5.ci = fr.ci →
                    fr5.noSucc = false → fr5.hasGen = fr.hasGen →
                    resume E n s5 nt fr5 = some r →
                    WInvm E F r.1 ∧ E4gm r.1 ∧ Keep4 x s r.1 ∧ (∀ S', S' ≠ nt → ¬ lastGe s S' x → FRm E F r.1 S') ∧
                    (∀ p fr', r.2 = .yield p fr' → FrKm E F r.1 nt fr' ∧ fr'.noSucc = false ∧ HG2 r.1 nt fr') ∧
                    (r.2 = .ret → FRm E F r.1 nt ∧ IdxDonem E F r.1 nt fr.ci ∧ ∀ ci', Entered r.1 nt ci' → ci' ≤ fr.ci) ∧
                    (∀ ci q, q ∈ r.1.bankAt nt ci → q ∈ s.bankAt nt ci ∨ ∃ fr', r.2 = .yield q fr') ∧
                    (r.2 = .ret → (r.1.queueOf nt = [] ∧ (r.1.clOf nt).length = fr.ci + 1) ∨
                      (∃ e q, r.1.queueOf nt = e :: q ∧ (r.1.clOf nt)[fr.ci + 1]? = some e.cost)) ∧
                    ((fr.noSucc = false ∨ ∃ e q, s.queueOf nt = e :: q ∧ e.cost = fr.cost) → r.2 = .ret → fr.hasGen = false →
                      r.1.failedByEmpties = true) ∧
                    (HG2 s nt fr → r.2 = .ret → MK r.1 nt fr.ci) := by
                  intro s5 fr5 hw5 he5 hsame45 hcl5 hx45 hba45 hk5 hcost5 hci5 hns5 hhg5 hres
                  have hnl4 : ¬ lastGe s4 nt x := by
                    intro ⟨c0, a1, a2⟩
                    rw [hclnt4, hlast1] at a1; cases a1
                    exact absurd a2 (by grind)
                  have hkeep5 : Keep4 x s s5 := hkeep4.trans (keep4_of_other x s4 s5 nt hsame45 hnl4)
                  have hFR5 : ∀ S', S' ≠ nt → ¬ lastGe s S' x → FRm E F s5 S' := fun S' hS hl =>
                    (hFR4 S' hS hl).of_same (hsame45 S' hS) hx45
                  have hfo5 : FRom E F x s5 nt := frp_nowm E x (· ≠ nt) s s5 hFR5 hkeep5
                  have hg2_5 : HG2 s nt fr → HG2 s5 nt fr5 := by
                    intro hg2 hh
                    rw [hci5, hba45, hba4]
                    rw [hhg5] at hh
                    obtain ⟨q0, hq0⟩ := List.exists_mem_of_ne_nil _ (hg2 hh)
                    exact List.ne_nil_of_mem (hbmono1 nt fr.ci q0 hq0)
                  obtain ⟨q1, q2, q3, q4, q5, q6, q7, q8, q9, q10⟩ := ihR _ _ _ _ x hw5 he5 hfo5 hk5 (by rw [hcost5]; exact hx) hres
                  obtain ⟨_, ext5r, _⟩ := (cost_all E n).2.2.2.1 _ _ _ _ hw5.c hk5.fc hres
                  refine ⟨q1, q2, hkeep5.trans q3, frp_transm E x (· ≠ nt) s s5 r.1 hFR5 q4 q3 ext5r, q5,
                    fun hr => (by rw [← hci5]; exact q6 hr), fun ci q hq => ?_, fun hr => (by rw [← hci5]; exact q8 hr),
                    fun _ hr hg => q9 (Or.inl hns5) hr (by rw [hhg5]; exact hg),
                    fun hg2 hr => (by rw [← hci5]; exact q10 (hg2_5 hg2) hr)⟩
                  rcases q7 ci q hq with h' | h'
                  · left; apply hbk1; rw [← hba4, ← hba45]; exact h'
                  · exact Or.inr h'
                have hfo4 : ∀ fr' : Frame, fr'.ci = fr.ci → fr'.cost = fr.cost → FrO s4 nt fr' := by
                  intro fr' h1 h2
                  exact ⟨by rw [h1, hclnt4]; exact hfo1.1, by rw [h1, h2, hclnt4]; exact hfo1.2⟩
                split at h
                · next hae =>
                  -- an argument is allowed to be empty: no program of this combination
                  refine hrec s4 { fr with noSucc := fr.noSucc && (af && !ae), pending := [] } hw4 he4_4 (fun S' _ => Same4.refl s4 S') rfl (Ext.refl _) (fun _ => rfl) ?_ rfl rfl (by simp [hfailed]) rfl h
                  refine ⟨hfo4 _ rfl rfl, ⟨hx14.get _ _ _ hfc1.1, fun a ha => (by cases ha)⟩, k6.fin,
                    fun hh => (by rw [hba4]; exact k6.hg hh),
                    fun _ => (by simp [hfailed]), (by rw [hemp4]; exact k6.ne),
                    fun hh => absurd rfl hh, fun f kids y rl' hcl hy hle hr => ?_⟩
                  rcases hwit f kids y rl' hcl hy hle hr with g | g | ⟨_, g2⟩
                  · exact Or.inl g
                  · exact Or.inr (Or.inl g)
                  · exfalso
                    rcases haenil hae with h' | h'
                    · cases h'
                    · exact all2_mem_nil _ _ g2 h'
                · next hae =>
                  have hae' : ae = false := by cases ae <;> simp_all
                  have haf : af = false := by
                    cases af
                    · rfl
                    · exact absurd (hafae rfl) hae
                  obtain ⟨_, _, hpc⟩ := (cost_all E n).2.2.2.2 _ _ _ _ _ [] [] _ hw2.c All2.nil hargs
                  have hpc := hpc haf
                  simp only [List.nil_append] at hpc
                  have key5 : ∀ s5 : St S, WInvm E F s5 → E4gm s5 → (∀ S', S' ≠ nt → Same4 s4 s5 S') → s5.clOf nt = s4.clOf nt →
                      Ext s4 s5 → (∀ ci, s5.bankAt nt ci = s4.bankAt nt ci) → s5.emptiesOf nt = s4.emptiesOf nt →
                      (AList.lookup fr.ci (s5.bankOf nt)).isSome = true →
                      (∀ ci', ci' ≠ fr.ci → AList.lookup ci' (s5.bankOf nt) = AList.lookup ci' (s4.bankOf nt)) →
                      s5.queueOf nt = s4.queueOf nt →
                      resume E n s5 nt { fr with noSucc := fr.noSucc && (af && !ae), P := el.P, isFun := !(rl0.1.map ntOf).isEmpty, pending := product poss } = some r →
                      WInvm E F r.1 ∧ E4gm r.1 ∧ Keep4 x s r.1 ∧ (∀ S', S' ≠ nt → ¬ lastGe s S' x → FRm E F r.1 S') ∧
                      (∀ p fr', r.2 = .yield p fr' → FrKm E F r.1 nt fr' ∧ fr'.noSucc = false ∧ HG2 r.1 nt fr') ∧
                    (r.2 = .ret → FRm E F r.1 nt ∧ IdxDonem E F r.1 nt fr.ci ∧ ∀ ci', Entered r.1 nt ci' → ci' ≤ fr.ci) ∧
                    (∀ ci q, q ∈ r.1.bankAt nt ci → q ∈ s.bankAt nt ci ∨ ∃ fr', r.2 = .yield q fr') ∧
                    (r.2 = .ret → (r.1.queueOf nt = [] ∧ (r.1.clOf nt).length = fr.ci + 1) ∨
                      (∃ e q, r.1.queueOf nt = e :: q ∧ (r.1.clOf nt)[fr.ci + 1]? = some e.cost)) ∧
                    ((fr.noSucc = false ∨ ∃ e q, s.queueOf nt = e :: q ∧ e.cost = fr.cost) → r.2 = .ret → fr.hasGen = false →
                      r.1.failedByEmpties = true) ∧
                    (HG2 s nt fr → r.2 = .ret → MK r.1 nt fr.ci) := by
                    intro s5 hw5 he5 hsame45 hcl5 hx45 hba5 hemp5 hsome5 hlk5 hq5 hres
                    refine hrec s5 { fr with noSucc := fr.noSucc && (af && !ae), P := el.P, isFun := !(rl0.1.map ntOf).isEmpty, pending := product poss } hw5 he5 hsame45 hcl5 hx45 hba5 ?_ rfl rfl (by simp [hfailed]) rfl hres
                    refine ⟨⟨by rw [hcl5, hclnt4]; exact hfo1.1, by rw [hcl5, hclnt4]; exact hfo1.2⟩, ⟨(hx14.trans hx45).get _ _ _ hfc1.1, fun a ha => ?_⟩,
                      k6.fin, fun hh => (by rw [hba5, hba4]; exact k6.hg hh),
                      fun _ => (by simp [hfailed]), (by rw [hemp5, hemp4]; exact k6.ne),
                      fun _ => hsome5, fun f kids y rl' hcl hy hle hr => ?_⟩
                    · simp only at ha ⊢
                      have ha2 := (mem_product poss a).mp ha
                      have hcl := tuple_cost E s3 a poss rl0.1 el.comb k ha2 hpc hk3
                      unfold mkProg
                      split
                      · obtain ⟨args, u⟩ := rl0
                        simp only [costOf, hrl0, hwt, hcl, hfc]; rfl
                      · next hif =>
                        have hnil : rl0.1 = [] := by
                          cases hrl1 : rl0.1 with
                          | nil => rfl
                          | cons x xs => simp [hrl1] at hif
                        have hk0 : k = 0 := by
                          have := combCost_length s3 _ _ _ hk3
                          rw [hnil] at hk3 this
                          have hc0 : el.comb = [] := List.length_eq_zero_iff.mp (by simpa using this)
                          rw [hc0] at hk3
                          simpa [combCost] using hk3.symm
                        obtain ⟨args, u⟩ := rl0
                        simp only at hnil; subst hnil
                        simp only [costOf, hrl0, hwt, costOfList, hfc, hk0]; rfl
                    · rcases hwit f kids y rl' hcl hy hle hr with g | ⟨el', g1, g2, g3⟩ | ⟨g1, g2⟩
                      · exact Or.inl ⟨g.1, by rw [hba5]; exact g.2⟩
                      · exact Or.inr (Or.inl ⟨el', by rw [hq5]; exact g1, g2, BelowArgs.ext hx45 _ _ _ g3⟩)
                      · right; right
                        refine ⟨kids, (mem_product poss kids).mpr g2, ?_⟩
                        subst g1
                        show Tree.node el.P kids = mkProg el.P (!(rl0.1.map ntOf).isEmpty) kids
                        unfold mkProg
                        split
                        · rfl
                        · next hif =>
                          have hnil : rl0.1 = [] := by
                            cases hrl1 : rl0.1 with
                            | nil => rfl
                            | cons x xs => simp [hrl1] at hif
                          have hp0 : poss = [] := by
                            have := hposs.length_eq
                            rw [hnil] at this
                            exact List.length_eq_zero_iff.mp (by simpa using this)
                          rw [hp0] at g2
                          cases g2
                          rfl
                  split at h
                  · next hsome =>
                    exact key5 s4 hw4 he4_4 (fun S' _ => Same4.refl s4 S') rfl (Ext.refl _) (fun _ => rfl) rfl hsome (fun _ _ => rfl) rfl h
                  · next hnone =>
                    have hlknone : AList.lookup fr.ci (s4.bankOf nt) = none := by
                      cases hlk : AList.lookup fr.ci (s4.bankOf nt) with
                      | none => rfl
                      | some v => rw [hlk] at hnone; exact absurd rfl hnone
                    have hba5 : ∀ S' ci, (s4.setBank nt fr.ci []).bankAt S' ci = s4.bankAt S' ci := by
                      intro S' ci
                      rw [St.bankAt_setBank]
                      split
                      · next hh => obtain ⟨rfl, hc⟩ := hh; rw [hc]; exact (bankAt_of_lookup s4 S' fr.ci hlknone).symm
                      · rfl
                    have hsame45 : ∀ S', S' ≠ nt → Same4 s4 (s4.setBank nt fr.ci []) S' := fun S' hS =>
                      ⟨rfl, rfl, by rw [St.bankOf_setBank]; simp [hS], rfl⟩
                    have hlk5 : ∀ ci', ci' ≠ fr.ci → AList.lookup ci' ((s4.setBank nt fr.ci []).bankOf nt) = AList.lookup ci' (s4.bankOf nt) :=
                      fun ci' hne => lookup_setBank_other s4 nt nt fr.ci ci' [] (fun hh => hne hh.2)
                    have hci : fr.ci + 1 = (s4.clOf nt).length := by rw [hclnt4]; exact hfo1.1
                    refine key5 (s4.setBank nt fr.ci []) ?_ ?_ hsame45 rfl (Ext.of_eq fun _ => rfl) (hba5 nt) rfl
                      (by rw [lookup_setBank_self]; rfl) hlk5 rfl h
                    · refine ⟨?_, OI.of_eq (s := s4) (fun _ => rfl) (fun _ => rfl) hw4.o, ?_, fun S' => (hw4.cr S').of_same rfl (hba5 S')⟩
                      · refine ⟨fun nt' c hm => hw4.c.fin nt' c hm, fun nt' x' hm => ?_, fun nt' ci p hp => ?_⟩
                        · obtain ⟨rl, w', k', g1, g2, g3, g4⟩ := hw4.c.queue nt' x' hm
                          exact ⟨rl, w', k', g1, g2, by rw [combCost_setBank]; exact g3, g4⟩
                        · rw [hba5] at hp; exact hw4.c.bank nt' ci p hp
                      · refine ⟨fun S' ci hh => ?_, hw4.e.d1, hw4.e.fle, fun S' ci hh => ?_, hw4.e.lb⟩
                        · rw [hba5]; exact hw4.e.e2 S' ci hh
                        · by_cases hh' : S' = nt ∧ ci = fr.ci
                          · obtain ⟨rfl, rfl⟩ := hh'
                            show fr.ci < (s4.clOf S').length; omega
                          · apply hw4.e.be S' ci
                            unfold Entered at hh ⊢
                            rw [lookup_setBank_other s4 nt S' fr.ci ci [] hh'] at hh; exact hh
                    · exact e4g_of_localm s4 _ nt fr.ci he4_4 hsame45 rfl (fun _ hh => hh) hlk5 hci

theorem compl_allm (E : Env S) (hfix : E.fixEmptied = true) (hpos : PosW E) : ∀ n : Nat, QLKm E F n ∧ RQKm E F n ∧ DKm E F n ∧ RKm E F n ∧ AKm E F n := by
  intro n
  induction n with
  | zero =>
    refine ⟨?_, ?_, ?_, ?_, ?_⟩
    · intro s nt ci r x _ _ _ _ h; simp [queryList] at h
    · intro s nt ci s' x c _ _ _ _ _ _ _ h; simp [runQuery] at h
    · intro s nt fr s' x _ _ _ _ _ _ h; simp [drive] at h
    · intro s nt fr r x _ _ _ _ _ h; simp [resume] at h
    · intro s as cs ae af acc done r x _ _ _ _ _ _ h; simp [argsLoop] at h
  | succ n ih =>
    obtain ⟨a, b, c, d, e⟩ := ih
    exact ⟨qlk_stepm E hfix hpos n b, rqk_stepm E n c, dk_stepm E n d c, rk_stepm E hpos n d e, ak_stepm E n a e⟩



end PS.Beap
