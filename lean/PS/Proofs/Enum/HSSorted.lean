/- Assembly: on an acyclic context-free grammar without empty rows, heap search without filter and
   without threshold yields programs in non-increasing order of probability. -/
import PS.Proofs.Enum.HSMaxOK
namespace PS.HS
open PS PS.G
set_option linter.unusedSectionVars false
variable {S : Type} [DecidableEq S]

theorem reevalPass_K (E : Env S Unit Rat) (rank : NT S Unit → Nat) (H : InitHyp E rank) (fuel : Nat) :
    ∀ (nts : List (NT S Unit)) (s : St S Unit Rat) (ch : Bool) (s' : St S Unit Rat) (ch' : Bool),
      KInv E s → MInv E s → s.initS = [] → reevalPass E fuel nts s ch = some (s', ch') →
      KInv E s' ∧ MInv E s' ∧ s'.initS = [] := by
  intro nts
  induction nts with
  | nil =>
    intro s ch s' ch' hk hm hi h
    simp only [reevalPass, Option.some.injEq, Prod.mk.injEq] at h
    obtain ⟨rfl, _⟩ := h
    exact ⟨hk, hm, hi⟩
  | cons nt rest ih =>
    intro s ch s' ch' hk hm hi h
    unfold reevalPass at h
    split at h
    · simp at h
    · rename_i s1 h1
      obtain ⟨k1, _, hi1, _, _⟩ := (init_K E rank H fuel).1 s nt s1 hk hm (by rw [hi]; intro x hx; cases hx) h1
      exact ih _ _ _ _ k1 (initNT_sound E H.rows hm h1).1 (hi1.trans hi) h

theorem reevaluate_K (E : Env S Unit Rat) (rank : NT S Unit → Nat) (H : InitHyp E rank) (fuel : Nat) :
    ∀ (k : Nat) (s s' : St S Unit Rat), KInv E s → MInv E s → s.initS = [] → reevaluate E fuel k s = some s' →
      KInv E s' ∧ MInv E s' := by
  intro k
  induction k with
  | zero => intro s s' _ _ _ h; simp [reevaluate] at h
  | succ k ih =>
    intro s s' hk hm hi h
    unfold reevaluate at h
    split at h
    · simp at h
    · rename_i s1 hp
      obtain ⟨k1, m1, i1⟩ := reevalPass_K E rank H fuel _ _ _ _ _ hk hm hi hp
      exact ih _ _ k1 m1 i1 h
    · rename_i s1 hp
      simp only [Option.some.injEq] at h
      subst h
      obtain ⟨k1, m1, _⟩ := reevalPass_K E rank H fuel _ _ _ _ _ hk hm hi hp
      exact ⟨k1, m1⟩

theorem kinv_empty (E : Env S Unit Rat) : KInv E (St.empty E.G) := by
  refine ⟨?_, ?_, ?_, ?_⟩
  · intro nt F prog ra h; simp [MR, St.empty] at h
  · intro nt rs m _ h; simp [MN, St.empty] at h
  · intro nt h; simp [St.empty] at h
  · intro nt P prog h; simp [MR, St.empty] at h

/-- **the state built by `__init_heap__` is a `Base` state** -/
theorem preHeaps_base (E : Env S Unit Rat) (rank : NT S Unit → Nat) (H : InitHyp E rank)
    (w : Heapq.WeakOrder E.ops.lt) (hthr : E.ops.thr = none) (hk : (AList.keys E.G.rules).Nodup) (fuel : Nat) :
    ∀ s3, preHeaps E fuel (St.empty E.G) = some s3 → Base E s3 := by
  intro s3 h
  unfold preHeaps at h
  split at h
  · simp at h
  · rename_i s1 h1
    split at h
    · simp at h
    · rename_i s2 h2
      have hg := ginv_new E
      have hm0 : MInv E (St.empty E.G) := hg.2 rfl
      obtain ⟨k1, _, hi1, _, _⟩ := (init_K E rank H fuel).1 _ _ s1 (kinv_empty E) hm0
        (by intro x hx; simp [St.empty] at hx) h1
      obtain ⟨hm1, hf1⟩ := initNT_sound E H.rows hm0 h1
      obtain ⟨k2, hm2⟩ := reevaluate_K E rank H fuel _ _ _ k1 hm1 (hi1.trans rfl) h2
      obtain ⟨_, hf2⟩ := reevaluate_sound E H.rows fuel _ _ _ hm1 h2
      have hs2 : SInv E s2 := hf2.sinv (hf1.sinv hg.1 hm1.cache_ok) hm2.cache_ok
      have hfr := hf1.trans hf2
      have hempty : ∀ nt, s2.heapOf nt = [] ∧ s2.seenOf nt = [] ∧ s2.succOf nt = [] := by
        intro nt
        obtain ⟨f1, f2, _, f4, _⟩ := hfr
        refine ⟨?_, ?_, ?_⟩
        · unfold St.heapOf; rw [f1]; exact getD_lookup_map_const _ _ _
        · unfold St.seenOf; rw [f4]; exact getD_lookup_map_const _ _ _
        · unfold St.succOf; rw [f2]; exact getD_lookup_map_const _ _ _
      exact base_of_maxOK E w hthr hk s2 s3 hs2 hm2 k2.maxOK hempty h

/-- **best-first order**: heap search on an acyclic context-free grammar -/
theorem take_sorted (E : Env S Unit Rat) (rank : NT S Unit → Nat) (H : OrdHyp E rank) (HI : InitHyp E rank)
    (hthr : E.ops.thr = none) (hk : (AList.keys E.G.rules).Nodup) (hf : ∀ p, E.filter p = true)
    (fuel k : Nat) (g' : Gen S Unit Rat) (out : List Prog) (b : Bool)
    (h : take E fuel k (Gen.new E.G) [] = some (g', out, b)) :
    out.Pairwise (fun p q => prob E.G E.W q E.G.start ≤ prob E.G E.W p E.G.start) :=
  take_sorted_of_pro H HI.rows hf fuel k
    (prologue_order H HI.rows fuel (preHeaps_base E rank HI H.weak hthr hk fuel)) g' out b h

end PS.HS
