/- Bee search, local completeness of one expansion: when a combination is popped and every argument bank at its
   index is non-empty, EVERY tuple of argument programs taken from those banks is offered to `_add_program_`
   (the suspended product is the full product), and each offered program is then banked, rejected by the filter,
   or was deleted. -/
import PS.Proofs.Enum.BeeNodup
namespace PS.Bee
open PS PS.G

variable {S : Type} [DecidableEq S]
set_option linter.unusedSectionVars false
set_option linter.unusedSimpArgs false

theorem mem_product {α : Type} : ∀ (aps : List (List α)) (kids : List α), kids.length = aps.length →
    (∀ (i : Nat) (k : α) (l : List α), kids[i]? = some k → aps[i]? = some l → k ∈ l) → kids ∈ product aps
  | [], kids, hl, _ => by
    have : kids = [] := List.length_eq_zero_iff.mp (by simpa using hl)
    subst this; simp [product]
  | l :: ls, kids, hl, h => by
    cases kids with
    | nil => simp at hl
    | cons k ks =>
      simp only [product, List.mem_flatMap, List.mem_map]
      refine ⟨k, h 0 k l rfl rfl, ks, ?_, rfl⟩
      apply mem_product ls ks (by simpa using hl)
      intro i k' l' hk hl'
      exact h (i + 1) k' l' (by simpa using hk) (by simpa using hl')

/-- the lists handed to `product` are exactly the argument banks at the indices of the combination -/
theorem argsPossibles_lists (s : St S) (combo : List Nat) :
    ∀ (args : List (Ty × S)) (i : Nat) (aps : List (List Prog)), argsPossibles s combo args i = some (some aps) →
      aps.length = args.length ∧
      ∀ (j : Nat) (a : Ty × S) (v : Nat) (l : List Prog), args[j]? = some a → combo[i + j]? = some v → aps[j]? = some l →
        AList.lookup v (s.bankOf (a.1, (a.2, ()))) = some l := by
  intro args
  induction args with
  | nil =>
    intro i aps h
    simp only [argsPossibles, Option.some.injEq] at h; subst h
    exact ⟨rfl, fun j a v l ha => by simp at ha⟩
  | cons a rest ih =>
    intro i aps h
    obtain ⟨t, sx⟩ := a
    simp only [argsPossibles] at h
    cases hl : AList.lookup (t, (sx, ())) s.bank with
    | none => simp [hl] at h
    | some localBank =>
      simp only [hl] at h
      cases hc : combo[i]? with
      | none => simp [hc] at h
      | some ci =>
        simp only [hc] at h
        cases hci : AList.lookup ci localBank with
        | none => simp [hci] at h
        | some ps =>
          cases ps with
          | nil => simp [hci] at h
          | cons p ps =>
            simp only [hci] at h
            cases hrec : argsPossibles s combo rest (i + 1) with
            | none => simp [hrec] at h
            | some r =>
              cases r with
              | none => simp [hrec] at h
              | some r =>
                simp only [hrec, Option.some.injEq] at h; subst h
                obtain ⟨ih1, ih2⟩ := ih (i + 1) r hrec
                have hbo : s.bankOf (t, (sx, ())) = localBank := by simp [St.bankOf, hl]
                refine ⟨by simp [ih1], ?_⟩
                intro j a v l ha hv hlj
                cases j with
                | zero =>
                  simp only [List.getElem?_cons_zero, Option.some.injEq] at ha hlj
                  subst ha; subst hlj
                  simp only [Nat.add_zero] at hv
                  rw [hc] at hv; cases hv
                  rw [hbo]; exact hci
                | succ j =>
                  simp only [List.getElem?_cons_succ] at ha hlj
                  have : i + (j + 1) = i + 1 + j := by omega
                  rw [this] at hv
                  exact ih2 j a v l ha hv hlj

/-- **one expansion offers every product**: if `argsPossibles` succeeds for the popped combination, every tuple
    `kids` whose i-th program is in the bank of the i-th argument at the combination's i-th index is in the product -/
theorem offers_all (s : St S) (combo : List Nat) (args : List (Ty × S)) (aps : List (List Prog))
    (h : argsPossibles s combo args 0 = some (some aps)) (kids : List Prog) (hlen : kids.length = args.length)
    (hk : ∀ (j : Nat) (a : Ty × S) (k : Prog) (v : Nat), args[j]? = some a → kids[j]? = some k → combo[j]? = some v →
      inBank s (a.1, (a.2, ())) v k)
    (hcombo : args.length ≤ combo.length) : kids ∈ product aps := by
  obtain ⟨h1, h2⟩ := argsPossibles_lists s combo args 0 aps h
  apply mem_product aps kids (by omega)
  intro i k l hki hli
  have hi : i < args.length := by
    have := (List.getElem?_eq_some_iff.mp hli).1; omega
  have hv : combo[i]? = some combo[i] := List.getElem?_eq_getElem (by omega)
  have ha : args[i]? = some args[i] := List.getElem?_eq_getElem hi
  have hl := h2 i args[i] combo[i] l ha (by simpa using hv) hli
  obtain ⟨ps, hps, hkin⟩ := hk i args[i] k combo[i] ha hki hv
  rw [hl] at hps; cases hps; exact hkin

/-- and when `argsPossibles` answers "break" some argument bank is missing or empty at the combination's index:
    there is no such tuple at all -/
theorem no_offer (s : St S) (combo : List Nat) :
    ∀ (args : List (Ty × S)) (i : Nat), argsPossibles s combo args i = some none →
      ¬ ∃ kids : List Prog, kids.length = args.length ∧
        ∀ (j : Nat) (a : Ty × S) (k : Prog) (v : Nat), args[j]? = some a → kids[j]? = some k → combo[i + j]? = some v →
          inBank s (a.1, (a.2, ())) v k := by
  intro args
  induction args with
  | nil => intro i h; simp [argsPossibles] at h
  | cons a rest ih =>
    intro i h ⟨kids, hlen, hk⟩
    obtain ⟨t, sx⟩ := a
    cases kids with
    | nil => simp at hlen
    | cons k ks =>
      simp only [argsPossibles] at h
      cases hl : AList.lookup (t, (sx, ())) s.bank with
      | none => simp [hl] at h
      | some localBank =>
        simp only [hl] at h
        have hbo : s.bankOf (t, (sx, ())) = localBank := by simp [St.bankOf, hl]
        cases hc : combo[i]? with
        | none => simp [hc] at h
        | some ci =>
          simp only [hc] at h
          obtain ⟨ps, hps, hkin⟩ := hk 0 (t, sx) k ci rfl rfl (by simpa using hc)
          rw [hbo] at hps
          cases hci : AList.lookup ci localBank with
          | none => rw [hci] at hps; cases hps
          | some l =>
            cases l with
            | nil => rw [hci] at hps; cases hps; cases hkin
            | cons p ps' =>
              simp only [hci] at h
              cases hrec : argsPossibles s combo rest (i + 1) with
              | none => simp [hrec] at h
              | some r =>
                cases r with
                | some r => simp [hrec] at h
                | none =>
                  apply ih (i + 1) hrec
                  refine ⟨ks, by simpa using hlen, ?_⟩
                  intro j a' k' v ha hkk hv
                  have : i + 1 + j = i + (j + 1) := by omega
                  rw [this] at hv
                  exact hk (j + 1) a' k' v (by simpa using ha) (by simpa using hkk) hv

end PS.Bee
