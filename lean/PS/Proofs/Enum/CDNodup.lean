/- No duplicate programs, one level of the construction: when the banks of the argument non-terminals are
   duplicate-free and pairwise disjoint across cost indices, the products `itertools.product(*pools)` taken for
   pairwise distinct index tuples are duplicate-free and pairwise disjoint, so every program `P(t1,…,tn)` is built
   at most once for a rule.  With the frontier theorem (no index tuple twice) this is the inductive step of "each
   program enters a bank at most once". -/
import PS.Model.Enum.ConstantDelay
import PS.Proofs.Enum.CDSucc
namespace PS.CD

/-- `itertools.product` of duplicate-free pools is duplicate-free -/
theorem cartesian_nodup : ∀ (pools : List (List Prog)), (∀ p ∈ pools, p.Nodup) → (cartesian pools).Nodup
  | [], _ => by simp [cartesian]
  | p :: ps, h => by
    have ih := cartesian_nodup ps (fun q hq => h q (List.mem_cons_of_mem _ hq))
    have hp := h p List.mem_cons_self
    simp only [cartesian]
    rw [List.Nodup, List.pairwise_flatMap]
    refine ⟨?_, ?_⟩
    · intro x _
      exact List.Pairwise.map _ (fun a b hab h => hab (by simpa using h)) ih
    · refine List.Pairwise.imp ?_ hp
      intro x y hxy a ha b hb hab
      rw [List.mem_map] at ha hb
      obtain ⟨r1, _, h1⟩ := ha
      obtain ⟨r2, _, h2⟩ := hb
      rw [← h1, ← h2] at hab
      simp only [List.cons.injEq] at hab
      exact hxy hab.1

/-- the pools of an index tuple: `lvl a i` stands for the bank `_bank_nt[a][i]` -/
def poolsOf (lvl : NT → Nat → List Prog) : List NT → List Nat → List (List Prog)
  | a :: as, c :: cs => lvl a c :: poolsOf lvl as cs
  | _, _ => []

/-- the banks of a non-terminal are pairwise disjoint across cost indices -/
def LevelsDisjoint (lvl : NT → Nat → List Prog) (a : NT) : Prop := ∀ i j p, p ∈ lvl a i → p ∈ lvl a j → i = j

/-- **a tuple of programs determines its index tuple**: it lies in the product of at most one index tuple -/
theorem cartesian_index_unique (lvl : NT → Nat → List Prog) : ∀ (args : List NT) (c c' : List Nat) (t : List Prog),
    c.length = args.length → c'.length = args.length → (∀ a ∈ args, LevelsDisjoint lvl a) →
    t ∈ cartesian (poolsOf lvl args c) → t ∈ cartesian (poolsOf lvl args c') → c = c'
  | [], c, c', _, h1, h2, _, _, _ => by
    simp only [List.length_nil, List.length_eq_zero_iff] at h1 h2
    rw [h1, h2]
  | a :: as, [], _, _, h1, _, _, _, _ => by simp at h1
  | a :: as, _ :: _, [], _, _, h2, _, _, _ => by simp at h2
  | a :: as, x :: c, y :: c', t, h1, h2, hd, ht, ht' => by
    simp only [poolsOf, cartesian, List.mem_flatMap, List.mem_map] at ht ht'
    obtain ⟨p, hp, r, hr, rfl⟩ := ht
    obtain ⟨p', hp', r', hr', he⟩ := ht'
    simp only [List.cons.injEq] at he
    obtain ⟨he1, he2⟩ := he
    subst he1; subst he2
    have hxy : x = y := (hd a List.mem_cons_self x y p' hp hp').symm ▸ rfl
    have := cartesian_index_unique lvl as c c' r' (by simpa using h1) (by simpa using h2)
      (fun b hb => hd b (List.mem_cons_of_mem _ hb)) hr hr'
    rw [this, (hd a List.mem_cons_self x y p' hp hp')]

theorem poolsOf_nodup (lvl : NT → Nat → List Prog) (hn : ∀ a i, (lvl a i).Nodup) : ∀ (args : List NT) (c : List Nat),
    ∀ p ∈ poolsOf lvl args c, p.Nodup
  | [], _, p, h => by simp [poolsOf] at h
  | _ :: _, [], p, h => by simp [poolsOf] at h
  | a :: as, x :: c, p, h => by
    simp only [poolsOf, List.mem_cons] at h
    rcases h with h | h
    · rw [h]; exact hn a x
    · exact poolsOf_nodup lvl hn as c p h

/-- **NO DUPLICATE PROGRAM FOR A RULE, one level**: if the banks of the argument non-terminals are duplicate-free and
    pairwise disjoint across cost indices, and the index tuples `cs` are pairwise distinct (which the frontier rule
    guarantees: C02_Cd_frontier_nodup), then the programs `P(t1,…,tn)` built from the products of all these index
    tuples are pairwise distinct -/
theorem rule_programs_nodup (lvl : NT → Nat → List Prog) (P : Sym) (args : List NT) (cs : List (List Nat))
    (hn : ∀ a i, (lvl a i).Nodup) (hd : ∀ a ∈ args, LevelsDisjoint lvl a) (hcs : cs.Nodup)
    (hlen : ∀ c ∈ cs, c.length = args.length) :
    ((cs.flatMap fun c => cartesian (poolsOf lvl args c)).map (fun t => (Tree.node P t : Prog))).Nodup := by
  have key : (cs.flatMap fun c => cartesian (poolsOf lvl args c)).Pairwise (· ≠ ·) := ?_
  · exact List.Pairwise.map (fun t => (Tree.node P t : Prog)) (fun a b (hab : a ≠ b) h => hab (by simpa using h)) key
  rw [List.pairwise_flatMap]
  refine ⟨fun c _ => cartesian_nodup _ (poolsOf_nodup lvl hn args c), ?_⟩
  refine List.Pairwise.imp_of_mem ?_ hcs
  intro c c' hc hc' hne t ht t' ht' htt
  subst htt
  exact hne (cartesian_index_unique lvl args c c' t (hlen c hc) (hlen c' hc') hd ht ht')

end PS.CD
