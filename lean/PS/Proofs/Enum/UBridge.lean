/- The derivability relation of the heap-search development (`UHS.Der`) is membership in the
   specification of unambiguous grammars (PS/Model/Ucfg.lean: `U.derivs`, `PS.U.allDerivs`, `PS.U.genU`)
   for the grammar table stripped of its weights. -/
import PS.Model.Ucfg
import PS.Proofs.Enum.USpec
namespace PS.UHS
open PS PS.G
set_option linter.unusedSectionVars false
variable {U π : Type} [DecidableEq U]

/-- the UCFG under the weighted table (`someStart` is only used in the end-of-derivation marker
    of `UCFG.derive`, not in the specification) -/
def UG.toUCFG (G : UG U) (d : UNT U) : PS.U.UCFG U :=
  { starts := G.starts.map (·.1),
    rules := G.rules.map (fun r => (r.1, r.2.map (fun a => (a.1, a.2.map (·.1))))),
    someStart := d }

theorem lookup_map_val {κ ν μ : Type} [DecidableEq κ] (f : ν → μ) (k : κ) (l : AList κ ν) :
    AList.lookup k (l.map (fun r => (r.1, f r.2))) = (AList.lookup k l).map f := by
  induction l with
  | nil => rfl
  | cons a l ih =>
    simp only [List.map_cons, AList.lookup]
    split
    · rfl
    · exact ih

theorem alts?_toUCFG (E : Env U π) (d : UNT U) (nt : UNT U) (F : Sym) :
    (E.G.toUCFG d).alts? nt F =
      match AList.lookup nt E.G.rules with
      | none => none
      | some rs => (AList.lookup F rs).map (fun a => a.map (·.1)) := by
  unfold PS.U.UCFG.alts? UG.toUCFG
  simp only
  rw [lookup_map_val (fun (x : AList Sym (List (List (UNT U) × Rat))) => x.map (fun a => (a.1, a.2.map (·.1))))]
  cases AList.lookup nt E.G.rules with
  | none => rfl
  | some rs =>
    simp only [Option.map_some]
    exact lookup_map_val (fun (a : List (List (UNT U) × Rat)) => a.map (·.1)) F rs

/-- an alternative of the spec grammar is an alternative of the weighted table -/
theorem mem_alts_iff (E : Env U π) (d : UNT U) (nt : UNT U) (F : Sym) (v : List (UNT U)) :
    (∃ cands, (E.G.toUCFG d).alts? nt F = some cands ∧ v ∈ cands) ↔ ∃ w, (v, w) ∈ altsOf E nt F := by
  rw [alts?_toUCFG]
  unfold altsOf
  cases AList.lookup nt E.G.rules with
  | none => simp
  | some rs =>
    simp only
    cases AList.lookup F rs with
    | none => simp
    | some a =>
      simp only [Option.map_some, Option.some.injEq, Option.getD_some]
      constructor
      · rintro ⟨cands, rfl, hv⟩
        obtain ⟨x, hx, rfl⟩ := List.mem_map.mp hv
        exact ⟨x.2, hx⟩
      · rintro ⟨w, hw⟩
        exact ⟨_, rfl, List.mem_map.mpr ⟨(v, w), hw, rfl⟩⟩

mutual
  theorem der_iff_derivs (E : Env U π) (d : UNT U) : ∀ (p : Prog) (nt : UNT U),
      Der E p nt ↔ PS.U.derivs (E.G.toUCFG d) p nt ≠ []
    | .node F kids, nt => by
      rw [der_node, PS.U.derivs]
      constructor
      · rintro ⟨v, w, hm, hl⟩
        obtain ⟨cands, hc, hv⟩ := (mem_alts_iff E d nt F v).mpr ⟨w, hm⟩
        rw [hc]
        simp only
        have hne := (derList_iff_derivsList E d kids v).mp hl
        obtain ⟨x, hx⟩ := List.exists_mem_of_ne_nil _ hne
        intro hcon
        have : ((nt, F, v) :: x) ∈ cands.flatMap (fun args =>
            (PS.U.derivsList (E.G.toUCFG d) kids args).map (fun r => (nt, F, args) :: r)) :=
          List.mem_flatMap.mpr ⟨v, hv, List.mem_map.mpr ⟨x, hx, rfl⟩⟩
        rw [hcon] at this
        cases this
      · intro hne
        cases hc : (E.G.toUCFG d).alts? nt F with
        | none => simp [hc] at hne
        | some cands =>
          simp only [hc] at hne
          obtain ⟨x, hx⟩ := List.exists_mem_of_ne_nil _ hne
          obtain ⟨v, hv, hx'⟩ := List.mem_flatMap.mp hx
          obtain ⟨y, hy, _⟩ := List.mem_map.mp hx'
          obtain ⟨w, hw⟩ := (mem_alts_iff E d nt F v).mp ⟨cands, hc, hv⟩
          exact ⟨v, w, hw, (derList_iff_derivsList E d kids v).mpr (List.ne_nil_of_mem hy)⟩
  theorem derList_iff_derivsList (E : Env U π) (d : UNT U) : ∀ (ks : List Prog) (v : List (UNT U)),
      DerList E ks v ↔ PS.U.derivsList (E.G.toUCFG d) ks v ≠ []
    | [], [] => by simp [DerList, PS.U.derivsList]
    | [], _ :: _ => by simp [DerList, PS.U.derivsList]
    | _ :: _, [] => by simp [DerList, PS.U.derivsList]
    | k :: ks, a :: as => by
      rw [DerList, PS.U.derivsList, der_iff_derivs E d k a, derList_iff_derivsList E d ks as]
      constructor
      · rintro ⟨h1, h2⟩
        obtain ⟨x, hx⟩ := List.exists_mem_of_ne_nil _ h1
        obtain ⟨y, hy⟩ := List.exists_mem_of_ne_nil _ h2
        exact List.ne_nil_of_mem (List.mem_flatMap.mpr ⟨x, hx, List.mem_map.mpr ⟨y, hy, rfl⟩⟩)
      · intro hne
        obtain ⟨z, hz⟩ := List.exists_mem_of_ne_nil _ hne
        obtain ⟨x, hx, hz'⟩ := List.mem_flatMap.mp hz
        obtain ⟨y, hy, _⟩ := List.mem_map.mp hz'
        exact ⟨List.ne_nil_of_mem hx, List.ne_nil_of_mem hy⟩
end

theorem startW_some_iff (E : Env U π) (nt : UNT U) :
    (∃ w, startW E nt = some w) ↔ nt ∈ E.G.starts.map (·.1) := by
  unfold startW
  have := @AList.lookup_isSome_iff_mem_keys _ _ _ nt E.G.starts
  rw [Option.isSome_iff_exists] at this
  exact this

/-- derivable from a start symbol = member of the specification language `genU` -/
theorem derStart_iff_genU (E : Env U π) (d : UNT U) (p : Prog) :
    (∃ nt w, startW E nt = some w ∧ Der E p nt) ↔ PS.U.genU (E.G.toUCFG d) p = true := by
  unfold PS.U.genU PS.U.allDerivs
  simp only [Bool.not_eq_eq_eq_not, Bool.not_true, List.isEmpty_eq_false_iff]
  constructor
  · rintro ⟨nt, w, hw, hd⟩
    have hs : nt ∈ (E.G.toUCFG d).starts := (startW_some_iff E nt).mp ⟨w, hw⟩
    obtain ⟨x, hx⟩ := List.exists_mem_of_ne_nil _ ((der_iff_derivs E d p nt).mp hd)
    exact List.ne_nil_of_mem (List.mem_flatMap.mpr ⟨nt, hs, List.mem_map.mpr ⟨x, hx, rfl⟩⟩)
  · intro hne
    obtain ⟨z, hz⟩ := List.exists_mem_of_ne_nil _ hne
    obtain ⟨nt, hs, hz'⟩ := List.mem_flatMap.mp hz
    obtain ⟨x, hx, _⟩ := List.mem_map.mp hz'
    obtain ⟨w, hw⟩ := (startW_some_iff E nt).mpr hs
    exact ⟨nt, w, hw, (der_iff_derivs E d p nt).mpr (List.ne_nil_of_mem hx)⟩

end PS.UHS
