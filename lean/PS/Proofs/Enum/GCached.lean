/- The max-priority phase memoises the priority of every program it records (for every fuel):
   `CachedM` is an invariant of `__init_non_terminal__` / `_reevaluate_`. -/
import PS.Proofs.Enum.GPrologue
namespace PS.HG
open PS PS.G PS.HS
set_option linter.unusedSectionVars false
set_option linter.unusedVariables false
variable {S π : Type} [DecidableEq S]

def CMono (s s' : St S Unit π) : Prop :=
  ∀ key, (AList.lookup key s.cache).isSome = true → (AList.lookup key s'.cache).isSome = true

theorem CMono.refl (s : St S Unit π) : CMono s s := fun _ h => h
theorem CMono.trans {s s1 s2 : St S Unit π} (h1 : CMono s s1) (h2 : CMono s1 s2) : CMono s s2 :=
  fun k h => h2 k (h1 k h)

theorem init_cached (E : Env S Unit π) : ∀ n : Nat,
    (∀ s nt s', initNT E n s nt = some s' → CachedM s → CachedM s' ∧ CMono s s') ∧
    (∀ s nt rs best s' best', maxLoop E n s nt rs best = some (s', best') → CachedM s →
      (∀ b, best = some b → (AList.lookup (b.1, nt) s.cache).isSome = true) →
      CachedM s' ∧ CMono s s' ∧ (∀ b, best' = some b → (AList.lookup (b.1, nt) s'.cache).isSome = true)) ∧
    (∀ s k info cur acc s' arguments, maxArgs E n s k info cur acc = some (s', arguments) → CachedM s →
      CachedM s' ∧ CMono s s') := by
  intro n
  induction n with
  | zero =>
    refine ⟨?_, ?_, ?_⟩
    · intro s nt s' h; simp [initNT] at h
    · intro s nt rs best s' best' h; simp [maxLoop] at h
    · intro s k info cur acc s' arguments h; simp [maxArgs] at h
  | succ n ih =>
    obtain ⟨ihI, ihL, ihA⟩ := ih
    refine ⟨?_, ?_, ?_⟩
    · intro s nt s' h hc
      unfold initNT at h
      split at h
      · cases h; exact ⟨hc, CMono.refl _⟩
      · split at h
        · simp at h
        · split at h
          · cases h; exact ⟨hc, CMono.refl _⟩
          · split at h
            · simp at h
            · rename_i s1 best hml
              have hc0 : CachedM { s with initS := s.initS ++ [nt] } := ⟨hc.mn, hc.mr⟩
              obtain ⟨hc1, hm1, hb1⟩ := ihL { s with initS := s.initS ++ [nt] } _ _ _ _ _ hml hc0
                (by intro b hb; cases hb)
              have hm1' : CMono s s1 := hm1
              split at h
              · rename_i b
                simp only [Option.some.injEq] at h; subst h
                refine ⟨⟨?_, fun x P p hp => hc1.mr x P p hp⟩, hm1'⟩
                intro x m hm
                have hm' : AList.lookup x (AList.insert nt b.1 s1.maxNT) = some m := hm
                rw [AList.lookup_insert] at hm'
                split at hm'
                · rename_i heq; cases heq; cases hm'; exact hb1 b rfl
                · exact hc1.mn x m hm'
              · simp only [Option.some.injEq] at h; subst h
                exact ⟨⟨fun x m hm => hc1.mn x m hm, fun x P p hp => hc1.mr x P p hp⟩, hm1'⟩
    · intro s nt rs best s' best' h hc hbest
      cases rs with
      | nil =>
        simp only [maxLoop, Option.some.injEq, Prod.mk.injEq] at h
        obtain ⟨rfl, rfl⟩ := h
        exact ⟨hc, CMono.refl _, hbest⟩
      | cons hd rest =>
        obtain ⟨P, rl⟩ := hd
        unfold maxLoop at h
        dsimp only at h
        split at h
        · simp at h
        · rename_i s1 hb
          have hf1 : CachedM s1 ∧ CMono s s1 := by
            split at hb
            · split at hb
              · simp at hb
              · split at hb
                · simp at hb
                · rename_i s1' arguments hma
                  have := ihA _ _ _ _ _ _ _ hma hc
                  split at hb
                  · simp only [Option.some.injEq, Prod.mk.injEq] at hb; obtain ⟨rfl, _⟩ := hb; exact this
                  · simp only [Option.some.injEq, Prod.mk.injEq] at hb; obtain ⟨rfl, _⟩ := hb; exact this
            · simp at hb
          obtain ⟨a, b, c⟩ := ihL _ _ _ _ _ _ h hf1.1 (fun b hb => hf1.2 _ (hbest b hb))
          exact ⟨a, hf1.2.trans b, c⟩
        · rename_i s1 prog hb
          have hf1 : CachedM s1 ∧ CMono s s1 := by
            split at hb
            · split at hb
              · simp at hb
              · split at hb
                · simp at hb
                · rename_i s1' arguments hma
                  have := ihA _ _ _ _ _ _ _ hma hc
                  split at hb
                  · simp only [Option.some.injEq, Prod.mk.injEq] at hb; obtain ⟨rfl, _⟩ := hb; exact this
                  · simp only [Option.some.injEq, Prod.mk.injEq] at hb; obtain ⟨rfl, _⟩ := hb; exact this
            · simp only [Option.some.injEq, Prod.mk.injEq] at hb; obtain ⟨rfl, _⟩ := hb; exact ⟨hc, CMono.refl _⟩
          split at h
          · simp at h
          · rename_i c pr hcp
            obtain ⟨hmono, hnew⟩ := computePrio_cache E _ _ _ _ _ hcp
            have hc2 := hf1.1.step nt P prog c hmono hnew
            have hm2 : CMono s1 { s1 with cache := c, maxRule := AList.insert (nt, P) prog s1.maxRule } := hmono
            obtain ⟨a, b, d⟩ := ihL _ _ _ _ _ _ h hc2 (by
              intro b0 hb0
              cases best with
              | none =>
                simp only [Option.some.injEq] at hb0; subst hb0; exact hnew
              | some bb =>
                simp only at hb0
                split at hb0
                · simp only [Option.some.injEq] at hb0; subst hb0; exact hnew
                · simp only [Option.some.injEq] at hb0; subst hb0
                  exact hmono _ (hf1.2 _ (hbest _ rfl)))
            exact ⟨a, hf1.2.trans (hm2.trans b), d⟩
    · intro s k info cur acc s' arguments h hc
      cases k with
      | zero =>
        simp only [maxArgs, Option.some.injEq, Prod.mk.injEq] at h
        obtain ⟨rfl, _⟩ := h
        exact ⟨hc, CMono.refl _⟩
      | succ k =>
        unfold maxArgs at h
        split at h
        · simp at h
        · rename_i s1 hi
          have hf1 := ihI _ _ _ hi hc
          split at h
          · simp only [Option.some.injEq, Prod.mk.injEq] at h
            obtain ⟨rfl, _⟩ := h
            exact hf1
          · split at h
            · simp at h
            · obtain ⟨a, b⟩ := ihA _ _ _ _ _ _ _ h hf1.1
              exact ⟨a, hf1.2.trans b⟩

theorem reevalPass_cached (E : Env S Unit π) (fuel : Nat) :
    ∀ (nts : List (NT S Unit)) (s : St S Unit π) (ch : Bool) (s' : St S Unit π) (ch' : Bool),
      reevalPass E fuel nts s ch = some (s', ch') → CachedM s → CachedM s' := by
  intro nts
  induction nts with
  | nil =>
    intro s ch s' ch' h hc
    simp only [reevalPass, Option.some.injEq, Prod.mk.injEq] at h
    obtain ⟨rfl, _⟩ := h
    exact hc
  | cons nt rest ih =>
    intro s ch s' ch' h hc
    unfold reevalPass at h
    split at h
    · simp at h
    · rename_i s1 hi
      exact ih _ _ _ _ h ((init_cached E fuel).1 _ _ _ hi hc).1

theorem reevaluate_cached (E : Env S Unit π) (fuel : Nat) :
    ∀ (k : Nat) (s s' : St S Unit π), reevaluate E fuel k s = some s' → CachedM s → CachedM s' := by
  intro k
  induction k with
  | zero => intro s s' h; simp [reevaluate] at h
  | succ k ih =>
    intro s s' h hc
    unfold reevaluate at h
    split at h
    · simp at h
    · rename_i s1 hp
      exact ih _ _ h (reevalPass_cached E fuel _ _ _ _ _ hp hc)
    · rename_i s1 hp
      simp only [Option.some.injEq] at h
      subst h
      exact reevalPass_cached E fuel _ _ _ _ _ hp hc

end PS.HG
