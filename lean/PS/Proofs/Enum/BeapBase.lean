/- Basic facts about the beap-search machine (PS/Model/Enum/BeapSearch.lean): table accessors,
   `heapify` keeps the multiset, `product`, membership by `Forall₂`. -/
import PS.Model.Enum.BeapSearch
import PS.Proofs.Enum.Heapq
namespace PS.Beap
open PS PS.G
set_option linter.unusedSectionVars false
variable {S : Type} [DecidableEq S]

/-- `bank[S][ci]` (empty when absent) -/
def St.bankAt (s : St S) (nt : NT S Unit) (ci : Nat) : List Prog := (AList.lookup ci (s.bankOf nt)).getD []

namespace St
variable (s : St S) (nt nt' : NT S Unit)

@[simp] theorem queueOf_setCL (cl) : (s.setCL nt cl).queueOf nt' = s.queueOf nt' := rfl
@[simp] theorem bankOf_setCL (cl) : (s.setCL nt cl).bankOf nt' = s.bankOf nt' := rfl
@[simp] theorem emptiesOf_setCL (cl) : (s.setCL nt cl).emptiesOf nt' = s.emptiesOf nt' := rfl
@[simp] theorem deleted_setCL (cl) : (s.setCL nt cl).deleted = s.deleted := rfl
@[simp] theorem clOf_setQueue (q) : (s.setQueue nt q).clOf nt' = s.clOf nt' := rfl
@[simp] theorem bankOf_setQueue (q) : (s.setQueue nt q).bankOf nt' = s.bankOf nt' := rfl
@[simp] theorem emptiesOf_setQueue (q) : (s.setQueue nt q).emptiesOf nt' = s.emptiesOf nt' := rfl
@[simp] theorem deleted_setQueue (q) : (s.setQueue nt q).deleted = s.deleted := rfl
@[simp] theorem clOf_setBank (ci ps) : (s.setBank nt ci ps).clOf nt' = s.clOf nt' := rfl
@[simp] theorem queueOf_setBank (ci ps) : (s.setBank nt ci ps).queueOf nt' = s.queueOf nt' := rfl
@[simp] theorem emptiesOf_setBank (ci ps) : (s.setBank nt ci ps).emptiesOf nt' = s.emptiesOf nt' := rfl
@[simp] theorem deleted_setBank (ci ps) : (s.setBank nt ci ps).deleted = s.deleted := rfl

theorem queueOf_setQueue (q) : (s.setQueue nt q).queueOf nt' = if nt' = nt then q else s.queueOf nt' := by
  unfold setQueue queueOf
  simp only [AList.lookup_insert]
  split <;> rfl

theorem clOf_setCL (cl) : (s.setCL nt cl).clOf nt' = if nt' = nt then cl else s.clOf nt' := by
  unfold setCL clOf
  simp only [AList.lookup_insert]
  split <;> rfl

theorem bankOf_setBank (ci ps) :
    (s.setBank nt ci ps).bankOf nt' = if nt' = nt then AList.insert ci ps (s.bankOf nt) else s.bankOf nt' := by
  unfold setBank
  show (AList.lookup nt' (AList.insert nt _ s.bank)).getD [] = _
  simp only [AList.lookup_insert]
  split <;> rfl

theorem bankAt_setBank (ci ci' ps) :
    (s.setBank nt ci ps).bankAt nt' ci' = if nt' = nt ∧ ci' = ci then ps else s.bankAt nt' ci' := by
  unfold bankAt
  rw [bankOf_setBank]
  by_cases h : nt' = nt
  · subst h
    simp only [true_and, if_true, AList.lookup_insert]
    by_cases h2 : ci' = ci <;> simp [h2]
  · simp [h]

@[simp] theorem bankAt_setCL (cl ci) : (s.setCL nt cl).bankAt nt' ci = s.bankAt nt' ci := rfl
@[simp] theorem bankAt_setQueue (q ci) : (s.setQueue nt q).bankAt nt' ci = s.bankAt nt' ci := rfl

theorem addDeleted_queueOf (p) : (s.addDeleted p).queueOf nt = s.queueOf nt := by
  unfold addDeleted; split <;> rfl
theorem addDeleted_bankAt (p ci) : (s.addDeleted p).bankAt nt ci = s.bankAt nt ci := by
  unfold addDeleted; split <;> rfl
theorem addDeleted_bankOf (p) : (s.addDeleted p).bankOf nt = s.bankOf nt := by
  unfold addDeleted; split <;> rfl
theorem addDeleted_clOf (p) : (s.addDeleted p).clOf nt = s.clOf nt := by
  unfold addDeleted; split <;> rfl
theorem addDeleted_emptiesOf (p) : (s.addDeleted p).emptiesOf nt = s.emptiesOf nt := by
  unfold addDeleted; split <;> rfl
theorem addEmpty_queueOf (ci) : (s.addEmpty nt ci).queueOf nt' = s.queueOf nt' := by
  unfold addEmpty; split <;> rfl
theorem addEmpty_bankAt (ci ci') : (s.addEmpty nt ci).bankAt nt' ci' = s.bankAt nt' ci' := by
  unfold addEmpty; split <;> rfl
theorem addEmpty_clOf (ci) : (s.addEmpty nt ci).clOf nt' = s.clOf nt' := by
  unfold addEmpty; split <;> rfl
theorem addEmpty_deleted (ci) : (s.addEmpty nt ci).deleted = s.deleted := by
  unfold addEmpty; split <;> rfl

theorem mem_addDeleted (p : Prog) : p ∈ (s.addDeleted p).deleted := by
  unfold addDeleted
  by_cases h : s.deleted.contains p = true
  · simp only [h, if_true]; simpa using h
  · have h' : p ∉ s.deleted := by simpa using h
    simp [h']

theorem addDeleted_mono (p q : Prog) (h : q ∈ s.deleted) : q ∈ (s.addDeleted p).deleted := by
  unfold addDeleted
  by_cases hc : s.deleted.contains p = true
  · simp only [hc, if_true]; exact h
  · have h' : p ∉ s.deleted := by simpa using hc
    simp [h', h]

theorem mem_addDeleted_iff (p q : Prog) : q ∈ (s.addDeleted p).deleted ↔ q = p ∨ q ∈ s.deleted := by
  unfold addDeleted
  by_cases hc : s.deleted.contains p = true
  · simp only [hc, if_true]
    have : p ∈ s.deleted := by simpa using hc
    constructor
    · exact Or.inr
    · rintro (rfl | h) <;> assumption
  · have h' : p ∉ s.deleted := by simpa using hc
    simp [h', or_comm]
end St

/-! ### heap operations keep the multiset -/
section heap
variable {α : Type}
open PS.Heapq

theorem siftdownFrom_perm (lt : α → α → Bool) (start : Nat) (fuel : Nat) (h : List α) (pos : Nat) :
    (siftdownFrom lt start fuel h pos).Perm h := by
  induction fuel generalizing h pos with
  | zero => exact List.Perm.refl _
  | succ n ih =>
    unfold siftdownFrom
    split
    · exact List.Perm.refl _
    · simp only
      split
      · exact (ih _ _).trans (swap_perm h _ _)
      · exact List.Perm.refl _

theorem siftupAt_perm (lt : α → α → Bool) (h : List α) (pos : Nat) : (siftupAt lt h pos).Perm h := by
  unfold siftupAt
  exact (siftdownFrom_perm lt _ _ _ _).trans (bubble_perm lt _ _ _)

theorem heapifyLoop_perm (lt : α → α → Bool) (k : Nat) (h : List α) : (heapifyLoop lt k h).Perm h := by
  induction k generalizing h with
  | zero => exact List.Perm.refl _
  | succ n ih => unfold heapifyLoop; exact (ih _).trans (siftupAt_perm lt h n)

/-- `heapify` permutes the array -/
theorem heapify_perm (lt : α → α → Bool) (h : List α) : (heapify lt h).Perm h := heapifyLoop_perm lt _ h

theorem mem_push (lt : α → α → Bool) (h : List α) (x y : α) : y ∈ push lt h x ↔ y = x ∨ y ∈ h := by
  rw [(push_perm lt h x).mem_iff]; simp

theorem mem_of_pop (lt : α → α → Bool) (h : List α) (x : α) (h' : List α) (hp : pop lt h = some (x, h')) (y : α) :
    y ∈ h ↔ y = x ∨ y ∈ h' := by
  rw [(pop_perm lt h x h' hp).mem_iff]; simp
end heap

/-- pointwise relation between two lists of the same length -/
inductive All2 {α β : Type} (R : α → β → Prop) : List α → List β → Prop
  | nil : All2 R [] []
  | cons {a b l1 l2} : R a b → All2 R l1 l2 → All2 R (a :: l1) (b :: l2)

theorem All2.length_eq {α β : Type} {R : α → β → Prop} {l1 : List α} {l2 : List β} (h : All2 R l1 l2) :
    l1.length = l2.length := by
  induction h with
  | nil => rfl
  | cons _ _ ih => simp [ih]

theorem All2.append {α β : Type} {R : α → β → Prop} {l1 l1' : List α} {l2 l2' : List β}
    (h : All2 R l1 l2) (h' : All2 R l1' l2') : All2 R (l1 ++ l1') (l2 ++ l2') := by
  induction h with
  | nil => exact h'
  | cons hr _ ih => exact All2.cons hr ih

/-! ### `itertools.product` -/
theorem mem_product {α : Type} : ∀ (ls : List (List α)) (a : List α), a ∈ product ls ↔ All2 (· ∈ ·) a ls
  | [], a => by
    simp only [product, List.mem_singleton]
    constructor
    · rintro rfl; exact All2.nil
    · intro h; cases h; rfl
  | l :: ls, a => by
    simp only [product, List.mem_flatMap, List.mem_map]
    constructor
    · rintro ⟨x, hx, r, hr, rfl⟩
      exact All2.cons hx ((mem_product ls r).mp hr)
    · intro h
      cases h with
      | cons hx hr => exact ⟨_, hx, _, (mem_product ls _).mpr hr, rfl⟩

/-! ### membership -/
theorem genList_of_forall₂ (G : TT S Unit) : ∀ (kids : List Prog) (args : List (Ty × S)),
    All2 (fun k a => gen G k (ntOf a) = true) kids args → genList G kids args = true
  | [], [], _ => by simp [genList]
  | [], _ :: _, h => by cases h
  | _ :: _, [], h => by cases h
  | k :: ks, a :: as, h => by
    cases h with
    | cons h1 h2 =>
      obtain ⟨t, s⟩ := a
      simp only [genList, Bool.and_eq_true]
      exact ⟨h1, genList_of_forall₂ G ks as h2⟩

theorem gen_node (G : TT S Unit) (f : Sym) (kids : List Prog) (nt : NT S Unit) (rl : List (Ty × S) × Unit)
    (hr : G.rule? nt f = some rl) : gen G (.node f kids) nt = genList G kids rl.1 := by
  obtain ⟨args, u⟩ := rl
  simp only [gen, hr]

end PS.Beap
