/- With enough fuel the prologue of `generator()` returns and leaves a quiescent state
   (generic priority type, threshold). -/
import PS.Proofs.Enum.GInitTotal
import PS.Proofs.Enum.HSOrderInit
namespace PS.HG
open PS PS.G PS.HS
set_option linter.unusedSectionVars false
variable {S π : Type} [DecidableEq S]

/-- all the non-terminals of the table have rank below `Rall` -/
def RankLt (G : TT S Unit) (rank : NT S Unit → Nat) (Rall : Nat) : Prop :=
  ∀ nt, nt ∈ AList.keys G.rules → rank nt < Rall

/-- state of the max-priority phase between two calls -/
structure MaxSt (E : Env S Unit π) (s : St S Unit π) : Prop where
  kinv : KInv E s
  minv : MInv E s
  cached : CachedM s
  noinit : s.initS = []

theorem initNT_top {E : Env S Unit π} {rank} {A Rm : Nat} (T : TotHyp E rank A Rm) {Rall : Nat}
    (hR : RankLt E.G rank Rall) (fuel : Nat) (hfuel : Rall * (A + Rm + 4) ≤ fuel)
    (s : St S Unit π) (hs : MaxSt E s) (nt : NT S Unit) (hnt : nt ∈ AList.keys E.G.rules) :
    ∃ s', initNT E fuel s nt = some s' ∧ MaxSt E s' ∧ (MN s' nt).isSome = true ∧ Ext s s' ∧ FrameT s s' := by
  have hrow := (AList.lookup_isSome_iff_mem_keys (k := nt) (d := E.G.rules)).mpr hnt
  have hpre : ∀ x ∈ s.initS, rank nt < rank x := by rw [hs.noinit]; intro x hx; cases hx
  obtain ⟨s', h, hc'⟩ := initNT_total T Rall nt (hR nt hnt) fuel hfuel s hs.kinv hs.minv hs.cached hrow hpre
  obtain ⟨k', hsome, hinit, hx, _⟩ := (init_K E rank T.init fuel).1 s nt s' hs.kinv hs.minv hpre h
  exact ⟨s', h, ⟨k', (initNT_sound E T.init.rows hs.minv h).1, hc', hinit.trans hs.noinit⟩, hsome, hx,
    (init_frame E fuel).1 _ _ _ h⟩

theorem reevalPass_total {E : Env S Unit π} {rank} {A Rm : Nat} (T : TotHyp E rank A Rm) {Rall : Nat}
    (hR : RankLt E.G rank Rall) (fuel : Nat) (hfuel : Rall * (A + Rm + 4) ≤ fuel) :
    ∀ (nts : List (NT S Unit)), (∀ nt ∈ nts, nt ∈ AList.keys E.G.rules) → ∀ (s : St S Unit π) (ch : Bool),
      MaxSt E s → ∃ s' ch', reevalPass E fuel nts s ch = some (s', ch') ∧ MaxSt E s' ∧ Ext s s' ∧ FrameT s s' ∧
        ∀ nt ∈ nts, (MN s' nt).isSome = true := by
  intro nts
  induction nts with
  | nil => intro _ s ch hs; exact ⟨s, ch, rfl, hs, Ext.refl _, FrameT.refl _, by intro nt hm; cases hm⟩
  | cons nt rest ih =>
    intro hk s ch hs
    obtain ⟨s1, h1, hs1, hsome, hx1, hf1⟩ := initNT_top T hR fuel hfuel s hs nt (hk nt (List.mem_cons_self))
    obtain ⟨s', ch', h2, hs', hx2, hf2, hall⟩ := ih (fun x hx => hk x (List.mem_cons_of_mem _ hx)) s1
      (ch || (AList.lookup nt s1.maxNT).isNone || decide (AList.lookup nt s.maxNT ≠ AList.lookup nt s1.maxNT)) hs1
    refine ⟨s', ch', ?_, hs', hx1.trans hx2, hf1.trans hf2, ?_⟩
    · unfold reevalPass; rw [h1]; exact h2
    · intro x hx
      rcases List.mem_cons.mp hx with rfl | hx
      · cases hm : MN s1 x with
        | none => rw [hm] at hsome; cases hsome
        | some m => rw [hx2.1 x m hm]; rfl
      · exact hall x hx

/-- a pass over non-terminals that are all initialised changes nothing -/
theorem reevalPass_done {E : Env S Unit π} (fuel : Nat) (hf : 1 ≤ fuel) :
    ∀ (nts : List (NT S Unit)) (s : St S Unit π) (ch : Bool), KInv E s → s.initS = [] →
      (∀ nt ∈ nts, (MN s nt).isSome = true ∧ (AList.lookup nt E.G.rules).isSome = true) →
      reevalPass E fuel nts s ch = some (s, ch) := by
  intro nts
  induction nts with
  | nil => intro s ch _ _ _; rfl
  | cons nt rest ih =>
    intro s ch hk hinit hall
    obtain ⟨hsome, hrow⟩ := hall nt (List.mem_cons_self)
    obtain ⟨f', rfl⟩ : ∃ f', fuel = f' + 1 := ⟨fuel - 1, by omega⟩
    have hi : initNT E (f' + 1) s nt = some s := by
      unfold initNT
      rw [hinit]
      simp only [List.contains_nil, Bool.false_eq_true, if_false]
      cases hrs : AList.lookup nt E.G.rules with
      | none => rw [hrs] at hrow; cases hrow
      | some rs =>
        simp only
        cases hm : MN s nt with
        | none => rw [hm] at hsome; cases hsome
        | some m =>
          have hall' : rs.all (fun r => (AList.lookup (nt, r.1) s.maxRule).isSome) = true := by
            apply List.all_eq_true.mpr
            intro r hr
            exact (hk.best nt rs m hrs hm).1 r.1 (List.mem_map.mpr ⟨r, hr, rfl⟩)
          simp only [hall', if_true]
    unfold reevalPass
    rw [hi]
    simp only
    have : (ch || (AList.lookup nt s.maxNT).isNone || decide (AList.lookup nt s.maxNT ≠ AList.lookup nt s.maxNT)) = ch := by
      have h1 : (AList.lookup nt s.maxNT).isNone = false := by
        cases hm : AList.lookup nt s.maxNT with
        | none =>
          have : MN s nt = none := hm
          rw [this] at hsome; cases hsome
        | some _ => rfl
      simp [h1]
    rw [this]
    exact ih s ch hk hinit (fun x hx => hall x (List.mem_cons_of_mem _ hx))

theorem reevaluate_total {E : Env S Unit π} {rank} {A Rm : Nat} (T : TotHyp E rank A Rm) {Rall : Nat}
    (hR : RankLt E.G rank Rall) (fuel : Nat) (hfuel : Rall * (A + Rm + 4) ≤ fuel) (hf1 : 1 ≤ fuel)
    (k : Nat) (hk : 2 ≤ k) (s : St S Unit π) (hs : MaxSt E s) :
    ∃ s', reevaluate E fuel k s = some s' ∧ MaxSt E s' ∧ FrameT s s' ∧
      ∀ nt ∈ AList.keys E.G.rules, (MN s' nt).isSome = true := by
  obtain ⟨s1, ch, h1, hs1, _, hf1', hall1⟩ := reevalPass_total T hR fuel hfuel (AList.keys E.G.rules) (fun _ h => h) s false hs
  obtain ⟨k', rfl⟩ : ∃ k', k = k' + 1 := ⟨k - 1, by omega⟩
  unfold reevaluate
  rw [h1]
  cases ch with
  | false => exact ⟨s1, rfl, hs1, hf1', hall1⟩
  | true =>
    simp only
    obtain ⟨k'', rfl⟩ : ∃ k'', k' = k'' + 1 := ⟨k' - 1, by omega⟩
    have h2 := reevalPass_done (E := E) fuel hf1 (AList.keys E.G.rules) s1 false hs1.kinv hs1.noinit
      (fun nt hnt => ⟨hall1 nt hnt, (AList.lookup_isSome_iff_mem_keys (k := nt) (d := E.G.rules)).mpr hnt⟩)
    unfold reevaluate
    rw [h2]
    exact ⟨s1, rfl, hs1, hf1', hall1⟩


/-! ### `__init_heap__` returns -/

theorem initHeapLoop_total (E : Env S Unit π) (hw : WTotal E)
    (s0 : St S Unit π) (hk : KInv E s0) (hm0 : MInv E s0) (nt : NT S Unit) (rs : AList Sym (List (Ty × S) × Unit))
    (hrs : AList.lookup nt E.G.rules = some rs) (hnd : (AList.keys rs).Nodup)
    (hpres : ∀ P ∈ AList.keys rs, (MR s0 nt P).isSome = true) :
    ∀ (Ps processed : List Sym), AList.keys rs = processed ++ Ps → ∀ (s : St S Unit π),
      s.maxRule = s0.maxRule →
      (∀ p ∈ s.seenOf nt, ∃ Q ∈ processed, MR s0 nt Q = some p) →
      (∀ key, (AList.lookup key s0.cache).isSome = true → (AList.lookup key s.cache).isSome = true) →
      ArgsCached E s0 →
      ∃ s', initHeapLoop E nt Ps s = some s' ∧ s'.maxRule = s0.maxRule ∧
        (∀ key, (AList.lookup key s0.cache).isSome = true → (AList.lookup key s'.cache).isSome = true) ∧
        (∀ nt', nt' ≠ nt → s'.seenOf nt' = s.seenOf nt') := by
  intro Ps
  induction Ps with
  | nil =>
    intro processed _ s hm _ hc _
    exact ⟨s, rfl, hm, hc, fun _ _ => rfl⟩
  | cons P rest ih =>
    intro processed hsplit s hm hseen hc hac
    have hPk : P ∈ AList.keys rs := by rw [hsplit]; simp
    have hPnp : P ∉ processed := by
      rw [hsplit] at hnd
      intro hmem
      exact (List.nodup_append.mp hnd).2.2 P hmem P (List.mem_cons_self) rfl
    have hrule : ∀ Q ∈ AList.keys rs, ∃ ra, E.G.rule? nt Q = some (ra, ()) := by
      intro Q hQ
      have := (AList.lookup_isSome_iff_mem_keys (k := Q) (d := rs)).mpr hQ
      cases hl : AList.lookup Q rs with
      | none => rw [hl] at this; cases this
      | some rl =>
        obtain ⟨ra, u⟩ := rl
        cases u
        exact ⟨ra, by unfold TT.rule?; rw [hrs]; exact hl⟩
    have hp := hpres P hPk
    cases hmr : MR s0 nt P with
    | none => rw [hmr] at hp; cases hp
    | some prog =>
      obtain ⟨ra, hr⟩ := hrule P hPk
      obtain ⟨ms, hms, _⟩ := hk.sync nt P prog ra hmr hr
      have hlk : AList.lookup (nt, P) s.maxRule = some prog := by rw [hm]; exact hmr
      have hnotseen : (s.seenOf nt).contains prog = false := by
        cases hcc : (s.seenOf nt).contains prog with
        | false => rfl
        | true =>
          exfalso
          obtain ⟨Q, hQ, hQm⟩ := hseen prog (by simpa using hcc)
          have hQk : Q ∈ AList.keys rs := by rw [hsplit]; exact List.mem_append_left _ hQ
          obtain ⟨raQ, hrQ⟩ := hrule Q hQk
          obtain ⟨msQ, hmsQ, _⟩ := hk.sync nt Q prog raQ hQm hrQ
          rw [hms] at hmsQ
          cases hmsQ
          exact hPnp hQ
      -- `compute_priority` succeeds
      have hg := hm0.rule_gen nt P prog hmr
      have hgl : genList E.G ms ra = true := by rw [hms, gen, hr] at hg; exact hg
      obtain ⟨⟨c', v⟩, hcp⟩ := computePrio_total E hw s.cache nt P ms ra hr hgl
        (fun j kj aj hkj haj => hc _ (hac nt P prog hmr P ms ra hms hr j kj aj hkj haj))
      rw [← hms] at hcp
      have hstep : initHeapLoop E nt (P :: rest) s = initHeapLoop E nt rest (pushNew E s nt prog) := by
        conv => lhs; unfold initHeapLoop
        simp only [hlk, hnotseen, Bool.false_eq_true, if_false]
        have : computePrio E (s.addSeen nt prog).cache nt prog = some (c', v) := hcp
        simp only [this]
        unfold pushNew
        simp only [this]
      rw [hstep]
      obtain ⟨v1, v2, _, _, _⟩ := pushNew_views E s nt prog
      have hmr' := (pushNew_maxRule E s nt prog).1
      obtain ⟨mono, _⟩ := computePrio_cache E s.cache nt _ c' v hcp
      have hcache1 : ∀ key, (AList.lookup key s.cache).isSome = true →
          (AList.lookup key (pushNew E s nt prog).cache).isSome = true := by
        intro key hkk
        rw [pushNew_eq E s nt prog c' v hcp]
        split <;> exact mono key hkk
      obtain ⟨s', h', a1, a2, a3⟩ := ih (processed ++ [P]) (by rw [hsplit]; simp) (pushNew E s nt prog)
        (hmr'.trans hm)
        (by
          intro p hp'
          rw [v2] at hp'
          simp only [if_true] at hp'
          rcases List.mem_append.mp hp' with hold | hnew
          · obtain ⟨Q, hQ, hQm⟩ := hseen p hold
            exact ⟨Q, List.mem_append_left _ hQ, hQm⟩
          · simp only [List.mem_singleton] at hnew
            subst hnew
            exact ⟨P, by simp, hmr⟩)
        (fun key hkk => hcache1 key (hc key hkk)) hac
      refine ⟨s', h', a1, a2, ?_⟩
      intro nt' hne
      rw [a3 nt' hne, v2]
      simp [hne]

theorem initHeaps_total (E : Env S Unit π) {rank : NT S Unit → Nat} (H : InitHyp E rank) (hw : WTotal E)
    (s0 : St S Unit π) (hk : KInv E s0) (hm0 : MInv E s0) (hac : ArgsCached E s0)
    (hdone : ∀ nt ∈ AList.keys E.G.rules, (MN s0 nt).isSome = true) :
    ∀ (rows : List (NT S Unit × AList Sym (List (Ty × S) × Unit))), (AList.keys rows).Nodup →
      (∀ nt rs, (nt, rs) ∈ rows → AList.lookup nt E.G.rules = some rs) → ∀ (s : St S Unit π),
      s.maxRule = s0.maxRule → (∀ nt rs, (nt, rs) ∈ rows → s.seenOf nt = []) →
      (∀ key, (AList.lookup key s0.cache).isSome = true → (AList.lookup key s.cache).isSome = true) →
      ∃ s', initHeaps E rows s = some s' := by
  intro rows
  induction rows with
  | nil => intro _ _ s _ _ _; exact ⟨s, rfl⟩
  | cons row rest ih =>
    intro hnd hrows s hm hseen hc
    obtain ⟨nt, rs⟩ := row
    have hrs := hrows nt rs (List.mem_cons_self)
    have hntk : nt ∈ AList.keys E.G.rules := List.mem_map.mpr ⟨(nt, rs), AList.lookup_some_mem hrs, rfl⟩
    have hd := hdone nt hntk
    cases hmn : MN s0 nt with
    | none => rw [hmn] at hd; cases hd
    | some m =>
      have hpres := (hk.best nt rs m hrs hmn).1
      obtain ⟨s1, h1, a1, a2, a3⟩ := initHeapLoop_total E hw s0 hk hm0 nt rs hrs (H.rows nt rs hrs) hpres
        (AList.keys rs) [] rfl s hm (by rw [hseen nt rs (List.mem_cons_self)]; intro p hp; cases hp) hc hac
      simp only [AList.keys, List.map_cons, List.nodup_cons] at hnd
      obtain ⟨s', h'⟩ := ih hnd.2 (fun nt' rs' hmem => hrows nt' rs' (List.mem_cons_of_mem _ hmem)) s1 a1
        (by
          intro nt' rs' hmem
          have hne : nt' ≠ nt := by
            intro heq; subst heq
            exact hnd.1 (List.mem_map.mpr ⟨(nt', rs'), hmem, rfl⟩)
          rw [a3 nt' hne]
          exact hseen nt' rs' (List.mem_cons_of_mem _ hmem))
        a2
      exact ⟨s', by unfold initHeaps; rw [h1]; exact h'⟩

/-- in sync tables with memoised max programs give memoised arguments -/
theorem argsCached_of {E : Env S Unit π} {s : St S Unit π} (hk : KInv E s) (hc : CachedM s) : ArgsCached E s := by
  intro nt P prog hmr F args ra hp hr i ai a hai ha
  have hFP : F = P := by
    obtain ⟨raP, hrp⟩ := hk.has_rule nt P prog hmr
    obtain ⟨ms, hms, _⟩ := hk.sync nt P prog raP hmr hrp
    rw [hp] at hms
    cases hms; rfl
  subst hFP
  obtain ⟨ms, hms, hsync⟩ := hk.sync nt F prog ra hmr hr
  rw [hp] at hms
  cases hms
  exact hc.mn _ _ (hsync i a ai ha hai)

/-! ### the state built by `__init_heap__` -/

/-- `Quiet` without "every non-terminal with a non-empty heap has started" -/
structure Quiet0 (E : Env S Unit π) (H0 : NT S Unit → List (π × Prog)) (s : St S Unit π) : Prop where
  full : Full E H0 s
  tinv : TInv E H0 s
  cinv : CInv E s
  i3 : I3 E s
  init_seen : ∀ nt F ra, E.G.rule? nt F = some (ra, ()) →
    ∃ ms, Tree.node F ms ∈ s.seenOf nt ∧
      ∀ (i : Nat) a m, ra[i]? = some a → ms[i]? = some m → FP E H0 (argNT a) m
  del_rej : ∀ p ∈ s.deleted, E.filter p = false

theorem Quiet0.quiet {E : Env S Unit π} {H0} {s : St S Unit π} (q : Quiet0 E H0 s) (hs : HeapStarted s) : Quiet E H0 s :=
  ⟨q.full, q.tinv, q.cinv, q.i3, hs, q.init_seen, q.del_rej⟩

theorem filterMap_all_of_length {α β : Type} (f : α → Option β) :
    ∀ (l : List α), (l.filterMap f).length = l.length → ∀ x ∈ l, (f x).isSome = true
  | [], _, x, hx => by cases hx
  | y :: r, h, x, hx => by
    cases hfy : f y with
    | none =>
      simp only [List.filterMap_cons, hfy, List.length_cons] at h
      have := List.length_filterMap_le f r
      omega
    | some b =>
      simp only [List.filterMap_cons, hfy, List.length_cons, Nat.add_right_cancel_iff] at h
      rcases List.mem_cons.mp hx with rfl | hx'
      · rw [hfy]; rfl
      · exact filterMap_all_of_length f r h x hx'

theorem base_quiet {E : Env S Unit π} {rank} {Good} (L : Law E rank Good) (hkeys : (AList.keys E.G.rules).Nodup)
    (s2 s3 : St S Unit π) (hk : KInv E s2) (hm : MInv E s2) (hcm : CachedM s2) (hs2 : SInv E s2) (hn2 : NInv s2)
    (hempty : ∀ nt, s2.heapOf nt = [] ∧ s2.seenOf nt = [] ∧ s2.succOf nt = [])
    (h : initHeaps E E.G.rules s2 = some s3) :
    Quiet0 E s3.heapOf s3 ∧ (∀ nt, AList.lookup nt E.G.rules = none → s3.heapOf nt = []) := by
  have hc2 : CInv E s2 := by
    refine ⟨?_, ?_, ?_, ?_, ?_⟩
    · intro nt p hp; rw [(hempty nt).2.1] at hp; cases hp
    · intro nt e he; rw [(hempty nt).1] at he; cases he
    · intro nt e he; rw [(hempty nt).1] at he; cases he
    · intro nt k v hkk; rw [(hempty nt).2.2] at hkk; simp at hkk
    · intro nt F args ra hp; rw [(hempty nt).2.1] at hp; cases hp
  obtain ⟨a1, a2, a3, a4, a5, a6, hs3, _, hc3⟩ := initHeaps_spec E _ _ _ hkeys hs2 hm hc2 (argsCached_of hk hcm) h
  have hn3 : NInvF s3 := NInvF.ofNInv (initHeaps_ninv E _ _ _ hn2 h).1
  have hdel3 : s3.deleted = [] := a6.trans hn2.no_deleted
  have hno_succ : ∀ nt, s3.succOf nt = [] := fun nt => (a3 nt).trans (hempty nt).2.2
  -- entries are good
  have hgoodent : ∀ nt Ps, ∀ e ∈ entries E s2 nt Ps, Good e.1 := by
    intro nt Ps e he
    unfold entries at he
    obtain ⟨P, _, hP⟩ := List.mem_filterMap.mp he
    unfold entry at hP
    cases hmr : AList.lookup (nt, P) s2.maxRule with
    | none => rw [hmr] at hP; cases hP
    | some prog =>
      rw [hmr] at hP
      simp only [Option.bind_some] at hP
      cases hpv : prioSpec E prog nt with
      | none => rw [hpv] at hP; cases hP
      | some v =>
        rw [hpv] at hP
        simp only [Option.map_some, Option.some.injEq] at hP
        rw [← hP]
        exact L.good _ _ _ hpv
  have hok_up : ∀ x y : π × Prog, Good x.1 → Good y.1 → pushOK E.ops x.1 = true → ltE E.ops x y = false →
      pushOK E.ops y.1 = true := fun x y hx hy hox hlt => L.pushOK_mono hx hy hlt hox
  -- the tables of a non-terminal after `__init_heap__`
  have hrow : ∀ nt rs, AList.lookup nt E.G.rules = some rs →
      s3.heapOf nt = (pushed E s2 nt (AList.keys rs)).foldl (Heapq.push (ltE E.ops)) [] ∧
      s3.seenOf nt = (entries E s2 nt (AList.keys rs)).map (·.2) ∧
      (entries E s2 nt (AList.keys rs)).length = (AList.keys rs).length := by
    intro nt rs hl
    obtain ⟨b1, b2, b3⟩ := a1 nt rs (AList.lookup_some_mem hl)
    rw [(hempty nt).1] at b1
    rw [(hempty nt).2.1] at b2
    exact ⟨b1, by simpa using b2, b3⟩
  have hnorow : ∀ nt, AList.lookup nt E.G.rules = none → s3.heapOf nt = [] ∧ s3.seenOf nt = [] := by
    intro nt hl
    have hnk : nt ∉ AList.keys E.G.rules := by
      intro hmem
      have := (AList.lookup_isSome_iff_mem_keys (k := nt) (d := E.G.rules)).mpr hmem
      rw [hl] at this; cases this
    obtain ⟨b1, b2⟩ := a2 nt hnk
    exact ⟨b1.trans (hempty nt).1, b2.trans (hempty nt).2.1⟩
  have hpushed_good : ∀ nt Ps, ∀ e ∈ pushed E s2 nt Ps, Good e.1 :=
    fun nt Ps e he => hgoodent nt Ps e (List.mem_filter.mp he).1
  -- heaps are valid, and their first pop is `max_priority[S]`
  have hheapfacts : ∀ nt rs, AList.lookup nt E.G.rules = some rs →
      Heapq.IsHeap (ltE E.ops) (s3.heapOf nt) ∧
      (s3.heapOf nt).head? = ((entries E s2 nt (AList.keys rs)).foldl (Heapq.bestStep (ltE E.ops)) none).filter
        (fun e => pushOK E.ops e.1) := by
    intro nt rs hl
    obtain ⟨b1, _, _⟩ := hrow nt rs hl
    obtain ⟨c1, c2⟩ := foldl_push_head_on L.ltE (pushed E s2 nt (AList.keys rs)) []
      (by intro y hy; cases hy) (hpushed_good nt _) (Heapq.isHeap_nil _)
    rw [b1]
    refine ⟨c2, ?_⟩
    rw [c1]
    have := foldl_bestStep_filter L.ltE (fun e : π × Prog => pushOK E.ops e.1) hok_up (entries E s2 nt (AList.keys rs)) none
      (hgoodent nt _) (by intro a ha; cases ha)
    simpa [pushed] using this
  have hh3 : HInv E s3 := by
    intro nt
    cases hl : AList.lookup nt E.G.rules with
    | none => rw [(hnorow nt hl).1]; exact Heapq.isHeap_nil _
    | some rs => exact (hheapfacts nt rs hl).1
  -- the first pop of a non-terminal is its max program
  have hfp : ∀ c m, MN s2 c = some m → FP E s3.heapOf c m := by
    intro c m hmn e h' hp
    cases hlc : AList.lookup c E.G.rules with
    | none => rw [(hnorow c hlc).1] at hp; simp [Heapq.pop] at hp
    | some rsc =>
      obtain ⟨_, pr, hbest⟩ := hk.best c rsc m hlc hmn
      have hhead := Heapq.pop_head _ _ _ _ hp
      rw [(hheapfacts c rsc hlc).2, hbest] at hhead
      simp only [Option.filter] at hhead
      split at hhead
      · cases hhead; rfl
      · cases hhead
  -- the arguments of the initial programs
  have hargs_first : ∀ nt F args ra, Tree.node F args ∈ s3.seenOf nt → E.G.rule? nt F = some (ra, ()) →
      ∀ (i : Nat) ai a, args[i]? = some ai → ra[i]? = some a → FP E s3.heapOf (argNT a) ai := by
    intro nt F args ra hmem hr i ai a hai ha
    cases hl : AList.lookup nt E.G.rules with
    | none => rw [(hnorow nt hl).2] at hmem; cases hmem
    | some rs =>
      rw [(hrow nt rs hl).2.1] at hmem
      obtain ⟨ent, hent, hent2⟩ := List.mem_map.mp hmem
      unfold entries at hent
      obtain ⟨P, hPk, hP⟩ := List.mem_filterMap.mp hent
      unfold entry at hP
      cases hmr : AList.lookup (nt, P) s2.maxRule with
      | none => rw [hmr] at hP; cases hP
      | some prog =>
        rw [hmr] at hP
        simp only [Option.bind_some] at hP
        cases hpv : prioSpec E prog nt with
        | none => rw [hpv] at hP; cases hP
        | some v =>
          rw [hpv] at hP
          simp only [Option.map_some, Option.some.injEq] at hP
          have hprog : prog = .node F args := by rw [← hent2, ← hP]
          obtain ⟨raP, hrP⟩ := hk.has_rule nt P prog hmr
          obtain ⟨ms', hms', _⟩ := hk.sync nt P prog raP hmr hrP
          have hF : F = P := by rw [hprog] at hms'; cases hms'; rfl
          subst hF
          obtain ⟨ms, hms, hsync⟩ := hk.sync nt F prog ra hmr hr
          rw [hprog] at hms
          cases hms
          exact hfp _ _ (hsync i a ai ha hai)
  have ho3 : OInv E s3.heapOf s3 := by
    refine ⟨?_, ?_, ?_, ?_, fun _ _ => rfl, Or.inl hdel3⟩
    · intro nt e _ k v pv hkk; rw [hno_succ] at hkk; simp at hkk
    · intro nt k v pk pv hkk; rw [hno_succ] at hkk; simp at hkk
    · intro nt k v hkk; rw [hno_succ] at hkk; simp at hkk
    · intro nt F args ra hmem hr i ai a hai ha
      exact Or.inr ⟨hno_succ _, hargs_first nt F args ra hmem hr i ai a hai ha⟩
  refine ⟨⟨⟨hs3, hn3, hh3, ho3⟩, ?_, hc3, ?_, ?_, ?_⟩, fun nt hl => (hnorow nt hl).1⟩
  · refine ⟨?_, ?_, ?_, ?_, ?_⟩
    · intro nt x v hkk; rw [hno_succ] at hkk; simp at hkk
    · intro nt hne; exact absurd (hno_succ nt) hne
    · intro nt hne; exact absurd (hno_succ nt) hne
    · intro nt k v hkk; rw [hno_succ] at hkk; simp at hkk
    · intro nt v hkk; rw [hno_succ] at hkk; simp at hkk
  · intro nt y hp
    rcases hp with ⟨k, hkk⟩ | ⟨_, _, hd, _⟩
    · rw [hno_succ] at hkk; simp at hkk
    · rw [hdel3] at hd; cases hd
  · -- the initial program of every rule
    intro nt F ra hr
    have hr' := hr
    unfold TT.rule? at hr'
    cases hl : AList.lookup nt E.G.rules with
    | none => rw [hl] at hr'; cases hr'
    | some rs =>
      rw [hl] at hr'
      have hFk : F ∈ AList.keys rs := List.mem_map.mpr ⟨(F, (ra, ())), AList.lookup_some_mem hr', rfl⟩
      obtain ⟨_, b2, b3⟩ := hrow nt rs hl
      have hsome := filterMap_all_of_length (entry E s2 nt) (AList.keys rs) b3 F hFk
      cases hent : entry E s2 nt F with
      | none => rw [hent] at hsome; cases hsome
      | some ent =>
        have hmemE : ent ∈ entries E s2 nt (AList.keys rs) := List.mem_filterMap.mpr ⟨F, hFk, hent⟩
        unfold entry at hent
        cases hmr : AList.lookup (nt, F) s2.maxRule with
        | none => rw [hmr] at hent; cases hent
        | some prog =>
          rw [hmr] at hent
          simp only [Option.bind_some] at hent
          cases hpv : prioSpec E prog nt with
          | none => rw [hpv] at hent; cases hent
          | some v =>
            rw [hpv] at hent
            simp only [Option.map_some, Option.some.injEq] at hent
            obtain ⟨ms, hms, _⟩ := hk.sync nt F prog ra hmr hr
            have hin : Tree.node F ms ∈ s3.seenOf nt := by
              rw [b2]
              exact List.mem_map.mpr ⟨ent, hmemE, by rw [← hent, hms]⟩
            exact ⟨ms, hin, fun i a m ha hmi => hargs_first nt F ms ra hin hr i m a hmi ha⟩
  · intro p hp; rw [hdel3] at hp; cases hp

end PS.HG
