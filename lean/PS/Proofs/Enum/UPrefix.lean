/- Heap search on unambiguous, acyclic grammars: PREFIX COMPLETENESS — in every quiescent state, every
   derivable program that was not popped for a non-terminal is dominated by an element of its heap, hence
   nothing better than a popped program is left (best-first completeness of every prefix). -/
import PS.Proofs.Enum.UCompleteRun
import PS.Proofs.Enum.GInst
namespace PS.UHS
open PS PS.G
set_option linter.unusedSectionVars false
variable {U π : Type} [DecidableEq U]
variable {E : Env U π} {rank : UNT U → Nat} {Good : π → Prop}

/-! ### positions in the successor chain -/

/-- the popped programs of a successor table, in pop order -/
def vals (t : AList (Option Prog) Prog) : List Prog := t.map (·.2)

theorem idxOf_inj {α : Type} [DecidableEq α] (l : List α) (a b : α) (ha : a ∈ l) (hb : b ∈ l) (h : l.idxOf a = l.idxOf b) :
    a = b := by
  have h1 := List.getElem_idxOf (List.idxOf_lt_length_iff.mpr ha)
  have h2 := List.getElem_idxOf (List.idxOf_lt_length_iff.mpr hb)
  rw [← h1, ← h2]
  simp only [h]

theorem idxOf_cons_ne {α : Type} [DecidableEq α] (l : List α) (a x : α) (h : x ≠ a) :
    (a :: l).idxOf x = l.idxOf x + 1 := by
  rw [List.idxOf_cons]
  have : (a == x) = false := by simpa using Ne.symm h
  rw [this]; rfl

theorem idxOf_snoc_self {α : Type} [DecidableEq α] : ∀ (l : List α) (x : α), x ∉ l → (l ++ [x]).idxOf x = l.length
  | [], x, _ => by simp
  | a :: l, x, h => by
    have hne : x ≠ a := fun e => h (e ▸ List.mem_cons_self)
    rw [List.cons_append, idxOf_cons_ne _ _ _ hne, idxOf_snoc_self l x (fun hm => h (List.mem_cons_of_mem _ hm))]
    rfl

theorem mem_vals {t : AList (Option Prog) Prog} {x : Prog} : x ∈ vals t ↔ ∃ k, (k, x) ∈ t := by
  unfold vals
  constructor
  · intro h
    obtain ⟨e, he, rfl⟩ := List.mem_map.mp h
    exact ⟨e.1, he⟩
  · rintro ⟨k, hk⟩
    exact List.mem_map.mpr ⟨(k, x), hk, rfl⟩

theorem popped_iff_vals {s : St U π} {nt : UNT U} (hn : NTInv E s nt) (x : Prog) : Popped s nt x ↔ x ∈ vals (s.succOf nt) := by
  rw [mem_vals]
  constructor
  · rintro ⟨k, hk⟩; exact ⟨k, AList.lookup_some_mem hk⟩
  · rintro ⟨k, hk⟩; exact ⟨k, lookup_of_mem hn.keys_nodup hk⟩

/-- the popped programs are pairwise distinct -/
theorem vals_nodup {s : St U π} {nt : UNT U} (hn : NTInv E s nt) (hi : NInv E s) : (vals (s.succOf nt)).Nodup := by
  have hnd := hn.keys_nodup
  have hinj : ∀ e e', e ∈ s.succOf nt → e' ∈ s.succOf nt → e.2 = e'.2 → e = e' := by
    intro e e' he he' h
    have h1 := lookup_of_mem hnd (show (e.1, e.2) ∈ s.succOf nt from he)
    have h2 := lookup_of_mem hnd (show (e'.1, e'.2) ∈ s.succOf nt from he')
    rw [h] at h1
    exact Prod.ext (hi.succ_inj nt _ _ _ h1 h2) h
  generalize s.succOf nt = t at hnd hinj
  unfold vals
  induction t with
  | nil => exact List.nodup_nil
  | cons a t ih =>
    simp only [List.map_cons, List.nodup_cons]
    unfold AList.keys at hnd
    simp only [List.map_cons, List.nodup_cons] at hnd
    refine ⟨?_, ih hnd.2 (fun e e' he he' => hinj e e' (List.mem_cons_of_mem _ he) (List.mem_cons_of_mem _ he'))⟩
    intro hm
    obtain ⟨e, he, hee⟩ := List.mem_map.mp hm
    have := hinj e a (List.mem_cons_of_mem _ he) List.mem_cons_self hee
    subst this
    exact hnd.1 (List.mem_map.mpr ⟨e, he, rfl⟩)

/-- the successor is the next position of the chain -/
theorem chain_idx : ∀ (t : AList (Option Prog) Prog) (k0 : Option Prog), ChainL k0 t → (AList.keys t).Nodup → (vals t).Nodup →
    (∀ y, k0 = some y → y ∉ vals t) → ∀ x z, x ∈ vals t → AList.lookup (some x) t = some z →
    (vals t).idxOf z = (vals t).idxOf x + 1
  | [], _, _, _, _, _, x, _, hx, _ => by cases hx
  | (k', x0) :: rest, k0, hc, hk, hv, hk0, x, z, hx, hl => by
    obtain ⟨rfl, hc'⟩ := hc
    unfold AList.keys at hk
    simp only [List.map_cons, List.nodup_cons] at hk
    have hv' : x0 ∉ vals rest ∧ (vals rest).Nodup := by
      unfold vals at hv ⊢
      simpa using hv
    have hlr : AList.lookup (some x) rest = some z := by
      simp only [AList.lookup] at hl
      split at hl
      · rename_i heq
        exfalso
        exact hk0 x heq hx
      · exact hl
    have hzr : z ∈ vals rest := mem_vals.mpr ⟨some x, AList.lookup_some_mem hlr⟩
    have hzne : z ≠ x0 := fun e => hv'.1 (e ▸ hzr)
    show (x0 :: vals rest).idxOf z = (x0 :: vals rest).idxOf x + 1
    rw [idxOf_cons_ne _ _ _ hzne]
    by_cases hxx : x = x0
    · subst hxx
      simp only [List.idxOf_cons_self]
      -- the first entry of `rest` has the key `some x`
      cases rest with
      | nil => cases hzr
      | cons e rest' =>
        obtain ⟨k1, x1⟩ := e
        obtain ⟨hk1, _⟩ := hc'
        subst hk1
        simp only [AList.lookup, if_true, Option.some.injEq] at hlr
        subst hlr
        show (x1 :: vals rest').idxOf x1 + 1 = 0 + 1
        simp
    · have hxr : x ∈ vals rest := by
        have : x ∈ x0 :: vals rest := hx
        rcases List.mem_cons.mp this with h | h
        · exact absurd h hxx
        · exact h
      rw [idxOf_cons_ne _ _ _ hxx]
      have := chain_idx rest (some x0) hc' hk.2 hv'.2 (by intro y hy; cases hy; exact hv'.1) x z hxr hlr
      omega

/-! ### order along the chain, monotonicity in all arguments -/

/-- a property kept along `succ` holds on a suffix of the chain when it holds for the program before it -/
theorem suffix_induct (t : AList (Option Prog) Prog) (hnd : (AList.keys t).Nodup) (Q : Prog → Prop)
    (hs : ∀ y q, Q y → AList.lookup (some y) t = some q → Q q) :
    ∀ (t' : AList (Option Prog) Prog) (y0 : Prog), ChainL (some y0) t' → (∀ e, e ∈ t' → e ∈ t) → Q y0 → ∀ e, e ∈ t' → Q e.2
  | [], _, _, _, _, e, he => by cases he
  | (k', x0) :: rest, y0, hc, hsub, hq, e, he => by
    obtain ⟨rfl, hc'⟩ := hc
    have hl : AList.lookup (some y0) t = some x0 := lookup_of_mem hnd (hsub _ List.mem_cons_self)
    have hq0 : Q x0 := hs y0 x0 hq hl
    rcases List.mem_cons.mp he with rfl | he'
    · exact hq0
    · exact suffix_induct t hnd Q hs rest x0 hc' (fun e he => hsub e (List.mem_cons_of_mem _ he)) hq0 e he'

/-- the popped programs are sorted -/
theorem sorted_vals (H : OHyp E rank Good) {s : St U π} {nt : UNT U} (hb : Base E s) (hn : NTInv E s nt) :
    (vals (s.succOf nt)).Pairwise (LE E nt) := by
  have hder : ∀ k x, (k, x) ∈ s.succOf nt → Der E x nt :=
    fun k x hx => (Popped.der hb.sinv ⟨k, lookup_of_mem hn.keys_nodup hx⟩)
  have hmain : ∀ (t' : AList (Option Prog) Prog) (k0 : Option Prog), ChainL k0 t' → (∀ e, e ∈ t' → e ∈ s.succOf nt) →
      (vals t').Pairwise (LE E nt) := by
    intro t'
    induction t' with
    | nil => intro _ _ _; exact List.Pairwise.nil
    | cons e rest ih =>
      intro k0 hc hsub
      obtain ⟨k', x0⟩ := e
      obtain ⟨rfl, hc'⟩ := hc
      show (x0 :: vals rest).Pairwise (LE E nt)
      refine List.pairwise_cons.mpr ⟨?_, ih (some x0) hc' (fun e he => hsub e (List.mem_cons_of_mem _ he))⟩
      intro z hz
      obtain ⟨kz, hkz⟩ := mem_vals.mp hz
      have hx0d : Der E x0 nt := hder k' x0 (hsub _ List.mem_cons_self)
      exact (suffix_induct (s.succOf nt) hn.keys_nodup (fun q => LE E nt x0 q ∧ Der E q nt)
        (fun y q hy hyq => ⟨LE.trans H hy.2 hy.1 (hn.sorted y q hyq), hder _ _ (AList.lookup_some_mem hyq)⟩)
        rest x0 hc' (fun e he => hsub e (List.mem_cons_of_mem _ he)) ⟨LE.refl H nt x0, hx0d⟩ (kz, z) hkz).1
  exact hmain (s.succOf nt) none hn.chain (fun e he => he)

/-- a program at an earlier (or the same) position of the chain is not worse -/
theorem le_of_idx (H : OHyp E rank Good) {s : St U π} {nt : UNT U} (hb : Base E s) (hn : NTInv E s nt) (x y : Prog)
    (hx : x ∈ vals (s.succOf nt)) (hy : y ∈ vals (s.succOf nt))
    (h : (vals (s.succOf nt)).idxOf x ≤ (vals (s.succOf nt)).idxOf y) : LE E nt x y := by
  rcases Nat.lt_or_eq_of_le h with hlt | heq
  · have hp := List.pairwise_iff_getElem.mp (sorted_vals H hb hn) _ _ (List.idxOf_lt_length_iff.mpr hx)
      (List.idxOf_lt_length_iff.mpr hy) hlt
    rw [List.getElem_idxOf, List.getElem_idxOf] at hp
    exact hp
  · rw [idxOf_inj _ x y hx hy heq]
    exact LE.refl H nt y

/-- monotonicity in all the arguments at once -/
theorem hasPrioList_mono (H : OHyp E rank Good) : ∀ (ks ks' : List Prog) (v : List (UNT U)) (acc acc' pr pr' : π),
    Good acc → Good acc' → E.ops.lt acc' acc = false →
    (∀ (j : Nat) (a a' : Prog) (sj : UNT U), ks[j]? = some a → ks'[j]? = some a' → v[j]? = some sj → LE E sj a a') →
    HasPrioList E ks v acc pr → HasPrioList E ks' v acc' pr' → E.ops.lt pr' pr = false
  | [], [], [], acc, acc', pr, pr', _, _, hle, _, h, h' => by rw [HasPrioList] at h h'; rw [h, h']; exact hle
  | [], _ :: _, [], _, _, _, _, _, _, _, _, _, h' => by simp [HasPrioList] at h'
  | [], _, _ :: _, _, _, _, _, _, _, _, _, h, _ => by simp [HasPrioList] at h
  | _ :: _, _, [], _, _, _, _, _, _, _, _, h, _ => by simp [HasPrioList] at h
  | _ :: _, [], _ :: _, _, _, _, _, _, _, _, _, _, h' => by simp [HasPrioList] at h'
  | k :: ks, k' :: ks', a :: as, acc, acc', pr, pr', ha, ha', hle, hp, h, h' => by
    rw [HasPrioList] at h h'
    obtain ⟨pk, h1, h2⟩ := h
    obtain ⟨pk', h1', h2'⟩ := h'
    have gk := hasPrio_good H _ _ _ h1
    have gk' := hasPrio_good H _ _ _ h1'
    have hkk : E.ops.lt pk' pk = false := hp 0 k k' a rfl rfl rfl pk pk' h1 h1'
    have e1 : E.ops.lt (E.ops.combine acc' pk) (E.ops.combine acc pk) = false := H.mono_r _ _ _ ha' ha gk hle
    have e2 : E.ops.lt (E.ops.combine acc' pk') (E.ops.combine acc' pk) = false := H.mono_l _ _ _ gk' gk ha' hkk
    exact hasPrioList_mono H ks ks' as _ _ pr pr' (H.good_comb _ _ ha gk) (H.good_comb _ _ ha' gk')
      (H.weak.ntrans (H.good_comb _ _ ha gk) (H.good_comb _ _ ha' gk) (H.good_comb _ _ ha' gk') e1 e2)
      (fun j x x' sj hx hx' hsj => hp (j + 1) x x' sj hx hx' hsj) h2 h2'

theorem LE.all (H : OHyp E rank Good) {nt : UNT U} {F : Sym} {a b : List Prog} {v : List (UNT U)}
    (hka : KeyOK E nt F a v) (hkb : KeyOK E nt F b v)
    (hp : ∀ (j : Nat) (x x' : Prog) (sj : UNT U), a[j]? = some x → b[j]? = some x' → v[j]? = some sj → LE E sj x x') :
    LE E nt (.node F a) (.node F b) := by
  intro px py hx hy
  rw [hasPrio_node] at hx hy
  obtain ⟨v1, w1, hm1, hl1⟩ := hx
  obtain ⟨v2, w2, hm2, hl2⟩ := hy
  obtain ⟨w, hm⟩ := hka.1
  obtain ⟨rfl, rfl⟩ := H.ualt nt F a v w v1 w1 hm hm1 hka.2 (hasPrioList_derList E _ _ _ _ hl1)
  obtain ⟨rfl, rfl⟩ := H.ualt nt F b v w v2 w2 hm hm2 hkb.2 (hasPrioList_derList E _ _ _ _ hl2)
  exact hasPrioList_mono H a b v _ _ px py (H.good_rule nt F v w hm) (H.good_rule nt F v w hm) (H.weak.irrefl (H.good_rule nt F v w hm)) hp hl1 hl2

/-! ### every unpopped derivable program is dominated by a heap element -/

/-- the number of chain steps left, summed over the argument positions -/
def mu (s : St U π) : List Prog → List (UNT U) → Nat
  | a :: as, sj :: v => ((s.succOf sj).length - (vals (s.succOf sj)).idxOf a) + mu s as v
  | _, _ => 0

theorem mu_set (s : St U π) : ∀ (a : List Prog) (v : List (UNT U)) (j : Nat) (aj q : Prog) (sj : UNT U),
    a[j]? = some aj → v[j]? = some sj → (vals (s.succOf sj)).idxOf q = (vals (s.succOf sj)).idxOf aj + 1 →
    (vals (s.succOf sj)).idxOf q < (s.succOf sj).length → mu s (a.set j q) v < mu s a v
  | [], _, _, _, _, _, h, _, _, _ => by simp at h
  | _ :: _, [], _, _, _, _, _, h, _, _ => by simp at h
  | x :: a, y :: v, 0, aj, q, sj, ha, hv, hidx, hlt => by
    simp only [List.getElem?_cons_zero, Option.some.injEq] at ha hv
    subst ha; subst hv
    simp only [List.set_cons_zero, mu]
    omega
  | x :: a, y :: v, j + 1, aj, q, sj, ha, hv, hidx, hlt => by
    simp only [List.getElem?_cons_succ] at ha hv
    simp only [List.set_cons_succ, mu]
    have := mu_set s a v j aj q sj ha hv hidx hlt
    omega

/-- the argument `a` is popped and not after the target argument `b` in the chain of `sj` -/
def PreArg (s : St U π) (sj : UNT U) (a b : Prog) : Prop :=
  Popped s sj a ∧ (Popped s sj b → (vals (s.succOf sj)).idxOf a ≤ (vals (s.succOf sj)).idxOf b)

/-- nothing better than a popped program of `nt` is left unpopped -/
def PrefixOK (E : Env U π) (s : St U π) (nt : UNT U) : Prop :=
  ∀ x y, Popped s nt x → Der E y nt → PS.HG.clean E.filter y = true → ¬ Popped s nt y → LE E nt x y

theorem exists_ne_of_ne {α : Type} : ∀ (a b : List α), a.length = b.length → a ≠ b →
    ∃ (j : Nat) (x y : α), a[j]? = some x ∧ b[j]? = some y ∧ x ≠ y
  | [], [], _, h => absurd rfl h
  | [], _ :: _, h, _ => by simp at h
  | _ :: _, [], h, _ => by simp at h
  | x :: a, y :: b, hl, hne => by
    by_cases hxy : x = y
    · subst hxy
      obtain ⟨j, x', y', h1, h2, h3⟩ := exists_ne_of_ne a b (by simpa using hl) (by intro e; apply hne; rw [e])
      exact ⟨j + 1, x', y', h1, h2, h3⟩
    · exact ⟨0, x, y, rfl, rfl, hxy⟩

/-- **domination**: in a quiescent state, a derivable program of `nt` that was not popped is not better
    than some element of the heap of `nt` -/
theorem dominated (H : OHyp E rank Good) {s : St U π} (hb : Base E s) (hall : All E rank s)
    (nt : UNT U) (hf : Full E rank s nt) (hlow : ∀ sj, rank sj < rank nt → Full E rank s sj → PrefixOK E s sj)
    (y : Prog) (hy : Der E y nt) (hcl : PS.HG.clean E.filter y = true) (hny : ¬ Popped s nt y) :
    ∃ e, e ∈ s.heapOf nt ∧ LE E nt e.2 y := by
  obtain ⟨hn, hlive, hc⟩ := hf
  obtain ⟨F, b⟩ := y
  obtain ⟨v, w, hm, hdl⟩ := (der_node E F b nt).mp hy
  have hlen : b.length = v.length := derList_length E b v hdl
  obtain ⟨kids0, hk0seen, hk0len, hk0first⟩ := hc.initial F v w hm
  have hrankj : ∀ (j : Nat) (sj : UNT U), v[j]? = some sj → rank sj < rank nt :=
    fun j sj h => H.acyclic nt F v w hm sj (List.mem_of_getElem? h)
  have hfullj : ∀ (j : Nat) (sj : UNT U), v[j]? = some sj → Full E rank s sj := by
    intro j sj hsj
    have hj : j < v.length := (List.getElem?_eq_some_iff.mp hsj).1
    have hk0 : kids0[j]? = some (kids0[j]'(by omega)) := List.getElem?_eq_getElem (by omega)
    have hf0 := hk0first j _ sj hk0 hsj
    rcases hall sj with hu | hfu
    · rw [hu.2.2.1] at hf0; cases hf0
    · exact hfu
  have hkob : KeyOK E nt F b v := ⟨⟨w, hm⟩, hdl⟩
  -- the claim, by induction on the number of chain steps left
  have claim : ∀ (n : Nat) (a : List Prog), mu s a v ≤ n → a.length = v.length → Tree.node F a ∈ s.seenOf nt →
      (∀ (j : Nat) (aj bj : Prog) (sj : UNT U), a[j]? = some aj → b[j]? = some bj → v[j]? = some sj → PreArg s sj aj bj) →
      ∃ e, e ∈ s.heapOf nt ∧ LE E nt e.2 (Tree.node F b) := by
    intro n
    induction n with
    | zero =>
      intro a hmu hla hseen hpre
      -- no step left: handled by the general step below with `n = 0` via the same argument
      exact step_case H hb hall hn hc hm hdl hrankj hfullj hlow hcl hny 0 (fun a' hlt => by omega) a hmu hla hseen hpre
    | succ n ih =>
      intro a hmu hla hseen hpre
      exact step_case H hb hall hn hc hm hdl hrankj hfullj hlow hcl hny (n + 1)
        (fun a' hlt hla' hs' hp' => ih a' (by omega) hla' hs' hp') a hmu hla hseen hpre
  apply claim (mu s kids0 v) kids0 (Nat.le_refl _) hk0len hk0seen
  intro j aj bj sj haj hbj hsj
  have hfj := hfullj j sj hsj
  have h0 := hk0first j aj sj haj hsj
  refine ⟨⟨none, h0⟩, fun _ => ?_⟩
  -- the first pop is at position 0
  have : (vals (s.succOf sj)).idxOf aj = 0 := by
    have hch := hfj.1.chain
    cases ht : s.succOf sj with
    | nil => rw [ht] at h0; cases h0
    | cons e rest =>
      obtain ⟨k, x⟩ := e
      rw [ht] at hch h0
      obtain ⟨rfl, _⟩ := hch
      simp only [AList.lookup, if_true, Option.some.injEq] at h0
      subst h0
      simp [vals]
  omega
where
  step_case (H : OHyp E rank Good) {s : St U π} (hb : Base E s) (hall : All E rank s) {nt : UNT U} {F : Sym}
      {b : List Prog} {v : List (UNT U)} {w : Rat} (hn : NTInv E s nt) (hc : CInv E rank s nt none 0)
      (hm : (v, w) ∈ altsOf E nt F) (hdl : DerList E b v)
      (hrankj : ∀ (j : Nat) (sj : UNT U), v[j]? = some sj → rank sj < rank nt)
      (hfullj : ∀ (j : Nat) (sj : UNT U), v[j]? = some sj → Full E rank s sj)
      (hlow : ∀ sj, rank sj < rank nt → Full E rank s sj → PrefixOK E s sj)
      (hcl : PS.HG.clean E.filter (Tree.node F b) = true) (hny : ¬ Popped s nt (Tree.node F b)) (n : Nat)
      (ih : ∀ a' : List Prog, mu s a' v < n → a'.length = v.length → Tree.node F a' ∈ s.seenOf nt →
        (∀ (j : Nat) (aj bj : Prog) (sj : UNT U), a'[j]? = some aj → b[j]? = some bj → v[j]? = some sj → PreArg s sj aj bj) →
        ∃ e, e ∈ s.heapOf nt ∧ LE E nt e.2 (Tree.node F b))
      (a : List Prog) (hmu : mu s a v ≤ n) (hla : a.length = v.length) (hseen : Tree.node F a ∈ s.seenOf nt)
      (hpre : ∀ (j : Nat) (aj bj : Prog) (sj : UNT U), a[j]? = some aj → b[j]? = some bj → v[j]? = some sj → PreArg s sj aj bj) :
      ∃ e, e ∈ s.heapOf nt ∧ LE E nt e.2 (Tree.node F b) := by
    have hlen : b.length = v.length := derList_length E b v hdl
    have hkob : KeyOK E nt F b v := ⟨⟨w, hm⟩, hdl⟩
    have hda : DerList E a v := derList_of_forall E a v hla (fun j aj sj haj hsj => by
      have hbj : b[j]? = some (b[j]'(by have := (List.getElem?_eq_some_iff.mp hsj).1; omega)) :=
        List.getElem?_eq_getElem _
      exact (hpre j aj _ sj haj hbj hsj).1.der hb.sinv)
    have hkoa : KeyOK E nt F a v := ⟨⟨w, hm⟩, hda⟩
    -- coordinatewise, `a` is not worse than `b`
    have hle : ∀ (j : Nat) (x x' : Prog) (sj : UNT U), a[j]? = some x → b[j]? = some x' → v[j]? = some sj → LE E sj x x' := by
      intro j x x' sj hx hx' hsj
      obtain ⟨hpx, hidx⟩ := hpre j x x' sj hx hx' hsj
      have hfj := hfullj j sj hsj
      by_cases hpb : Popped s sj x'
      · exact le_of_idx H hb hfj.1 x x' ((popped_iff_vals hfj.1 x).mp hpx) ((popped_iff_vals hfj.1 x').mp hpb) (hidx hpb)
      · exact hlow sj (hrankj j sj hsj) hfj x x' hpx (derList_get E b v j x' sj hdl hx' hsj)
          (by rw [PS.HG.clean, Bool.and_eq_true] at hcl; exact PS.HG.cleanList_get E.filter b j x' hcl.2 hx') hpb
    by_cases hheap : Tree.node F a ∈ s.heapProgs nt
    · obtain ⟨e, he, hee⟩ := List.mem_map.mp hheap
      exact ⟨e, he, by rw [hee]; exact LE.all H hkoa hkob hle⟩
    · exact step_popped H hb hall hn hc hm hdl hrankj hfullj hcl hny n ih a hmu hla hseen hpre hda ⟨hseen, hheap⟩
  step_popped (H : OHyp E rank Good) {s : St U π} (hb : Base E s) (hall : All E rank s)
      {nt : UNT U} {F : Sym} {b : List Prog} {v : List (UNT U)} {w : Rat} (hn : NTInv E s nt) (hc : CInv E rank s nt none 0)
      (hm : (v, w) ∈ altsOf E nt F) (hdl : DerList E b v)
      (hrankj : ∀ (j : Nat) (sj : UNT U), v[j]? = some sj → rank sj < rank nt)
      (hfullj : ∀ (j : Nat) (sj : UNT U), v[j]? = some sj → Full E rank s sj)
      (hcl : PS.HG.clean E.filter (Tree.node F b) = true) (hny : ¬ Popped s nt (Tree.node F b)) (n : Nat)
      (ih : ∀ a' : List Prog, mu s a' v < n → a'.length = v.length → Tree.node F a' ∈ s.seenOf nt →
        (∀ (j : Nat) (aj bj : Prog) (sj : UNT U), a'[j]? = some aj → b[j]? = some bj → v[j]? = some sj → PreArg s sj aj bj) →
        ∃ e, e ∈ s.heapOf nt ∧ LE E nt e.2 (Tree.node F b))
      (a : List Prog) (hmu : mu s a v ≤ n) (hla : a.length = v.length) (hseen : Tree.node F a ∈ s.seenOf nt)
      (hpre : ∀ (j : Nat) (aj bj : Prog) (sj : UNT U), a[j]? = some aj → b[j]? = some bj → v[j]? = some sj → PreArg s sj aj bj)
      (hda : DerList E a v) (hproc : Proc s nt (Tree.node F a)) :
      ∃ e, e ∈ s.heapOf nt ∧ LE E nt e.2 (Tree.node F b) := by
    have hlen : b.length = v.length := derList_length E b v hdl
    · -- popped: some argument differs from the target; its position has been treated
      have hne : a ≠ b := by
        intro e
        subst e
        -- taken out of the heap but not popped: it was skipped as a rejected program
        rcases hc.cover _ hseen with h1 | h1 | h1
        · exact hproc.2 h1
        · exact hny h1
        · rw [PS.HG.clean_self E.filter _ hcl] at h1; cases h1
      obtain ⟨j, aj, bj, haj, hbj, hnej⟩ := exists_ne_of_ne a b (by omega) hne
      have hjv : j < v.length := by have := (List.getElem?_eq_some_iff.mp haj).1; omega
      have hsj : v[j]? = some (v[j]'hjv) := List.getElem?_eq_getElem hjv
      have hfj := hfullj j _ hsj
      obtain ⟨hpaj, hidx⟩ := hpre j aj bj _ haj hbj hsj
      obtain ⟨v', hv'⟩ := hc.keyed _ hseen
      have hko' := hb.sinv.keys_ok nt F a v' hv'
      obtain ⟨w', hw'⟩ := hko'.1
      obtain ⟨rfl, _⟩ := H.ualt nt F a v' w' v w hw' hm hko'.2 hda
      have hajv : aj ∈ vals (s.succOf (v'[j]'hjv)) := (popped_iff_vals hfj.1 aj).mp hpaj
      rcases hc.succs F a v' hproc hv' j aj _ haj hsj (hrankj j _ hsj) (by intro e; cases e) with ⟨q, h1, h2⟩ | ⟨_, h2, h3⟩
      · -- the successor of the argument: one chain step less
        have hqv : q ∈ vals (s.succOf (v'[j]'hjv)) := mem_vals.mpr ⟨some aj, AList.lookup_some_mem h1⟩
        have hidxq := chain_idx _ none hfj.1.chain hfj.1.keys_nodup (vals_nodup hfj.1 hb.ninv) (by intro y hy; cases hy)
          aj q hajv h1
        have hlt : (vals (s.succOf (v'[j]'hjv))).idxOf q < (s.succOf (v'[j]'hjv)).length := by
          have := List.idxOf_lt_length_iff.mpr hqv
          simpa [vals] using this
        apply ih (a.set j q) (by have := mu_set s a v' j aj q _ haj hsj hidxq hlt; omega) (by simpa using hla) h2
        intro j' x x' sj' hx hx' hsj'
        by_cases hjj : j' = j
        · subst hjj
          rw [List.getElem?_set_self (by omega)] at hx
          cases hx
          rw [hbj] at hx'; cases hx'
          rw [hsj] at hsj'; cases hsj'
          refine ⟨⟨some aj, h1⟩, fun hpb => ?_⟩
          have h1' := hidx hpb
          have hbv := (popped_iff_vals hfj.1 _).mp hpb
          have : (vals (s.succOf (v'[j']'hjv))).idxOf aj ≠ (vals (s.succOf (v'[j']'hjv))).idxOf bj :=
            fun e => hnej (idxOf_inj _ aj bj hajv hbv e)
          omega
        · rw [List.getElem?_set_ne (fun e => hjj e.symm)] at hx
          exact hpre j' x x' sj' hx hx' hsj'
      · -- the non-terminal of the argument is exhausted: the target argument was popped and is later in the chain
        exfalso
        have hbpop : Popped s (v'[j]'hjv) bj :=
          exhausted_complete H hb hall _ _ rfl hfj h2 bj (derList_get E b v' j bj _ hdl hbj hsj)
            (by rw [PS.HG.clean, Bool.and_eq_true] at hcl; exact PS.HG.cleanList_get E.filter b j bj hcl.2 hbj)
        have hbv := (popped_iff_vals hfj.1 bj).mp hbpop
        have h1' := hidx hbpop
        -- `aj` is the last element of the chain
        obtain ⟨l, ⟨k, x⟩, hlx⟩ := snoc_of_ne_nil _ hfj.2.1
        have hlast : some aj = lastK none (s.succOf (v'[j]'hjv)) := by
          apply chainL_miss _ none (some aj) hfj.1.chain h3
          obtain ⟨k', hk'⟩ := hpaj
          exact Or.inr ⟨(k', aj), AList.lookup_some_mem hk', rfl⟩
        have hajx : aj = x := by
          rw [hlx] at hlast
          unfold lastK at hlast
          simp only [List.getLast?_append, List.getLast?_singleton, Option.some_or] at hlast
          exact Option.some.inj hlast
        subst hajx
        have hvn := vals_nodup hfj.1 hb.ninv
        have hidxa : (vals (s.succOf (v'[j]'hjv))).idxOf aj = l.length := by
          rw [hlx] at hvn ⊢
          unfold vals at hvn ⊢
          rw [List.map_append] at hvn ⊢
          simp only [List.map_cons, List.map_nil] at hvn ⊢
          rw [idxOf_snoc_self _ _ (by
            intro hmem
            have := (List.nodup_append.mp hvn).2.2 _ hmem aj (by simp)
            exact this rfl)]
          simp
        have hidxb : (vals (s.succOf (v'[j]'hjv))).idxOf bj < (s.succOf (v'[j]'hjv)).length := by
          have := List.idxOf_lt_length_iff.mpr hbv
          simpa [vals] using this
        rw [hlx] at hidxb
        simp only [List.length_append, List.length_singleton] at hidxb
        have : (vals (s.succOf (v'[j]'hjv))).idxOf aj = (vals (s.succOf (v'[j]'hjv))).idxOf bj := by
          rw [hlx] at h1' hidxa ⊢
          omega
        exact hnej (idxOf_inj _ aj bj hajv hbv this)

/-- **prefix completeness of every non-terminal**: nothing better than a popped program is left unpopped -/
theorem prefixOK_all (H : OHyp E rank Good) {s : St U π} (hb : Base E s) (hall : All E rank s) :
    ∀ (r : Nat) (nt : UNT U), rank nt = r → Full E rank s nt → PrefixOK E s nt := by
  intro r
  induction r using Nat.strongRecOn with
  | _ r ih =>
  intro nt hr hf x y hx hy hcl hny
  obtain ⟨e, he, hle⟩ := dominated H hb hall nt hf (fun sj hsj hfj => ih (rank sj) (by omega) sj rfl hfj) y hy hcl hny
  have hde : Der E e.2 nt := hb.sinv.seen_der nt e.2 (hb.sinv.heap_seen nt e he)
  exact LE.trans H hde (hf.1.heap_le x hx e he) hle

/-! ### the generator level -/

/-- **PREFIX COMPLETENESS of the enumeration** (every fuel, every prefix, stopped or not): a member that is
    strictly better than a yielded program has been yielded -/
theorem accepted_all (hnf : ∀ p, E.filter p = true) (emE : List (π × Prog × UNT U)) :
    accepted E emE = (emE.map (·.2.1)).reverse := by
  unfold accepted
  have : emE.filter (fun e => E.filter e.2.1) = emE := by
    rw [List.filter_eq_self]
    intro x _
    exact hnf _
  rw [this]

theorem take_prefix_complete (R : RHyp E rank Good) (fuel k : Nat) (s' : St U π)
    (out : List Prog) (b : Bool)
    (h : take E fuel k (St.empty E.G) [] = some (s', out, b)) (p q : Prog) (hq : q ∈ out) (kp kq : π)
    (hkp : StartKey E p kp) (hkq : StartKey E q kq) (hlt : E.ops.lt kp kq = true)
    (hcl : PS.HG.clean E.filter p = true) : p ∈ out := by
  have H := R.ohyp
  obtain ⟨emE, hc, hout, _⟩ := (oc_empty E).take R k rfl h
  have hog := hc.og
  rw [hout] at hq ⊢
  unfold accepted at hq ⊢
  rw [List.mem_reverse] at hq ⊢
  obtain ⟨xq, hxqf, hxqe⟩ := List.mem_map.mp hq
  have hxq : xq ∈ emE := (List.mem_filter.mp hxqf).1
  -- the key of the yielded `q` is the priority of its entry
  have hkq' : kq = xq.1 := by
    obtain ⟨nt, w, pr, hw, hpr, hk⟩ := hkq
    obtain ⟨w2, pr2, hw2, hpr2, he2⟩ := hog.em_key xq hxq
    rw [hxqe] at hpr2
    have hnt : nt = xq.2.2 := R.disj q nt xq.2.2 ⟨pr, hpr⟩ ⟨pr2, hpr2⟩ ⟨w, hw⟩ ⟨w2, hw2⟩
    subst hnt
    rw [hw] at hw2; cases hw2
    rw [hk, he2, hasPrio_fun H _ _ _ _ hpr hpr2]
  obtain ⟨nt, w, prp, hw, hprp, hkpe⟩ := hkp
  apply Classical.byContradiction
  intro hnp
  have hinit : s'.initS ≠ [] := by
    intro h0
    have := (hog.ginv.inited h0).2
    have : emE = [] := by simpa using this
    rw [this] at hxq; cases hxq
  have hnotem : (p, nt) ∉ emE.map (·.2) := by
    intro hm
    obtain ⟨x, hx, hxe⟩ := List.mem_map.mp hm
    have hx1 : x.2.1 = p := by rw [hxe]
    exact hnp (List.mem_map.mpr ⟨x, List.mem_filter.mpr ⟨hx, by rw [hx1]; exact PS.HG.clean_self E.filter p hcl⟩, hx1⟩)
  by_cases hheap : nt ∈ s'.startHeap.map (·.2.2)
  · obtain ⟨f, hf, hfe⟩ := List.mem_map.mp hheap
    have hfull : Full E rank s' nt := by
      have hfront := hog.ginv.front f hf
      rw [hfe] at hfront
      rcases hog.all nt with hu | hfu
      · rw [hu.2.2.1] at hfront; cases hfront
      · exact hfu
    have hfpop : Popped s' nt f.2.1 := by
      have := hog.ginv.front f hf
      rw [hfe] at this
      exact ⟨_, this⟩
    -- the front entry is not worse than the unemitted `p`
    have hlefp : LE E nt f.2.1 p := by
      by_cases hpp : Popped s' nt p
      · -- `p` is on the chain after the programs taken from `nt`
        have hC := hog.ginv.chain nt
        have hfront := hog.ginv.front f hf
        rw [hfe] at hfront
        have key : ∀ x, Popped s' nt x → x ∈ doneR (emE.map (·.2)) nt ∨ LE E nt f.2.1 x := by
          apply popped_induct hfull.1
          · intro x hx
            cases hD : doneR (emE.map (·.2)) nt with
            | nil =>
              rw [hD] at hfront
              simp only [List.head?_nil] at hfront
              rw [hx] at hfront
              cases hfront
              exact Or.inr (LE.refl H nt _)
            | cons d ds =>
              left
              obtain ⟨a, x0, hax⟩ := snoc_of_ne_nil (d :: ds) (by simp)
              rw [hD, hax] at hC
              have := chainR_split _ x0 [] a hC
              simp only [List.head?_nil] at this
              rw [hx] at this
              cases this
              rw [hax]; simp
          · intro y z hy hyz
            rcases hy with hy | hy
            · obtain ⟨a, b', hab⟩ := List.append_of_mem hy
              cases a with
              | nil =>
                rw [hab] at hfront
                simp only [List.nil_append, List.head?_cons] at hfront
                rw [hyz] at hfront
                cases hfront
                exact Or.inr (LE.refl H nt _)
              | cons a0 a' =>
                left
                obtain ⟨a'', z', haz⟩ := snoc_of_ne_nil (a0 :: a') (by simp)
                rw [hab, haz, List.append_assoc] at hC
                have := chainR_split _ z' (y :: b') a'' (by simpa using hC)
                simp only [List.head?_cons] at this
                rw [hyz] at this
                cases this
                rw [hab, haz]; simp
            · exact Or.inr (LE.trans H ((Popped.der hog.base.sinv ⟨_, AList.lookup_some_mem hyz |> fun hm =>
                lookup_of_mem hfull.1.keys_nodup hm⟩)) (LE.trans H (by
                  -- `y` is popped: it is a key of the table
                  cases hly : AList.lookup (some y) (s'.succOf nt) with
                  | none => rw [hly] at hyz; cases hyz
                  | some _ =>
                    have : Popped s' nt y := by
                      have hkm := AList.lookup_some_mem hyz
                      -- the key `some y` occurs after an entry with value `y`
                      obtain ⟨l1, l2, hsplit⟩ := List.append_of_mem hkm
                      have hch := hfull.1.chain
                      rw [hsplit] at hch
                      rcases chainL_key_pred l1 none y z l2 hch with ⟨_, h2⟩ | ⟨l0, k', h1⟩
                      · cases h2
                      · exact ⟨k', lookup_of_mem hfull.1.keys_nodup (by rw [hsplit, h1]; simp)⟩
                    exact this.der hog.base.sinv) hy (hfull.1.sorted y z hyz)) (LE.refl H nt z))
        rcases key p hpp with hin | hle
        · exact absurd ((mem_doneR _ p nt).mp hin) hnotem
        · exact hle
      · exact prefixOK_all H hog.base hog.all (rank nt) nt rfl hfull f.2.1 p hfpop ⟨prp, hprp⟩ hcl hpp
    -- keys: kq ≤ key f ≤ kp
    obtain ⟨wf, prf, hwf, hprf, hfk⟩ := hog.base.sinv.start_ok f hf
    rw [hfe] at hwf hprf
    rw [hw] at hwf; cases hwf
    have h1 : E.ops.lt f.1 xq.1 = false := hog.heap_ge f hf xq hxq
    have h2 : E.ops.lt kp f.1 = false := by
      rw [hkpe, hfk]
      exact R.adj_mono prp prf nt w hw (hasPrio_good H _ _ _ hprp) (hasPrio_good H _ _ _ hprf) (hlefp prf prp hprf hprp)
    have hgq : Good xq.1 := by
      obtain ⟨w2, pr2, hw2, hpr2, he2⟩ := hog.em_key xq hxq
      rw [he2]; exact R.good_adjust _ _ _ hw2 (hasPrio_good H _ _ _ hpr2)
    have hgp : Good kp := by rw [hkpe]; exact R.good_adjust _ _ _ hw (hasPrio_good H _ _ _ hprp)
    have := H.weak.ntrans hgq (start_good R hog.base.sinv f hf) hgp h1 h2
    rw [← hkq', hlt] at this
    cases this
  · -- the start symbol is exhausted: everything derivable from it was popped and handed over
    have hex := hc.exh hinit nt w hw hheap
    have hfull : Full E rank s' nt := by
      rcases hog.all nt with hu | hfu
      · have := hex.1; rw [hu.1] at this; cases this
      · exact hfu
    have hpp := exhausted_complete H hog.base hog.all (rank nt) nt rfl hfull hex.2.1 p ⟨prp, hprp⟩ hcl
    exact hnotem (hex.2.2 p hpp)

end PS.UHS
