/- Termination of the generator loop of heap search on acyclic context-free grammars: with enough
   fuel every `next` returns, and since the yielded programs are distinct members of a finite
   language the generator stops. -/
import Mathlib.Data.List.Perm.Subperm
import PS.Proofs.Enum.HSTotal
namespace PS.HS
open PS PS.G
set_option linter.unusedSectionVars false
variable {S : Type} [DecidableEq S]

/-! ### the language of an acyclic grammar is finite -/
mutual
  theorem depth_le_rank (G : TT S Unit) (rank : NT S Unit → Nat)
      (hac : ∀ nt F ra, G.rule? nt F = some (ra, ()) → ∀ a ∈ ra, rank (argNT a) < rank nt) :
      ∀ (t : Prog) (nt : NT S Unit), gen G t nt = true → Tree.depth t ≤ rank nt + 1
    | .node f kids, nt, hg => by
      rw [gen] at hg
      cases hr : G.rule? nt f with
      | none => simp [hr] at hg
      | some rl =>
        obtain ⟨ra, u⟩ := rl
        cases u
        simp only [hr] at hg
        have := depthList_le_rank G rank hac kids ra (rank nt) (fun a ha => hac nt f ra hr a ha) hg
        simp only [Tree.depth]
        omega
  theorem depthList_le_rank (G : TT S Unit) (rank : NT S Unit → Nat)
      (hac : ∀ nt F ra, G.rule? nt F = some (ra, ()) → ∀ a ∈ ra, rank (argNT a) < rank nt) :
      ∀ (ks : List Prog) (ra : List (Ty × S)) (b : Nat), (∀ a ∈ ra, rank (argNT a) < b) →
        genList G ks ra = true → Tree.depthList ks ≤ b
    | [], _, _, _, _ => by simp [Tree.depthList]
    | _ :: _, [], _, _, hg => by simp [genList] at hg
    | k :: ks, (t, s) :: as, b, hb, hg => by
      simp only [genList, Bool.and_eq_true] at hg
      have h1 := depth_le_rank G rank hac k (t, (s, ())) hg.1
      have h2 := depthList_le_rank G rank hac ks as b (fun a ha => hb a (List.mem_cons_of_mem _ ha)) hg.2
      have h3 := hb (t, s) (List.mem_cons_self)
      simp only [Tree.depthList]
      have : rank (argNT (t, s)) = rank ((t, (s, ())) : NT S Unit) := rfl
      omega
end

/-- the members of the grammar, as a finite list -/
def members (G : TT S Unit) (rank : NT S Unit → Nat) : List Prog := lang G (rank G.start + 1) G.start

theorem mem_members {E : Env S Unit Rat} {rank} (C : CompHyp E rank) (p : Prog)
    (hg : gen E.G p E.G.start = true) : p ∈ members E.G rank :=
  (mem_lang_iff E.G C.init.rows _ p E.G.start).mpr ⟨hg, depth_le_rank E.G rank C.ord.acyclic p E.G.start hg⟩

/-! ### every `next` returns -/

theorem next_total {E : Env S Unit Rat} {rank} (C : CompHyp E rank) {H0 : NT S Unit → List (Rat × Prog)}
    {A : Nat} (hA : ArityLe E.G A) (fuel : Nat) (hfuel : (rank E.G.start + 1) * (A + 5) ≤ fuel) (hf1 : 1 ≤ fuel)
    (hpq : ∀ s0, prologue E fuel (St.empty E.G) = some s0 → Quiet0 E H0 s0 ∧ Started E s0 ∧ CoverHyp E H0)
    (hpro : prologue E fuel (St.empty E.G) ≠ none)
    (g : Gen S Unit Rat) (acc : List Prog) (hg : CGen E H0 g acc) : ∃ res, next E fuel g = some res := by
  obtain ⟨hng, hst1, hst0⟩ := hg
  have key : ∀ s : St S Unit Rat, Quiet0 E H0 s → chainFrom (s.succOf E.G.start) none acc →
      ∃ res, nextLoop E fuel fuel s g.current = some res := by
    intro s q hch
    obtain ⟨f', rfl⟩ : ∃ f', fuel = f' + 1 := ⟨fuel - 1, by omega⟩
    have hpre : OPre E H0 (.query E.G.start g.current) s := by
      intro x hx
      left
      rw [hng.2.2] at hx
      rcases lastOr_mem none acc with e | ⟨z, hz, e⟩
      · rw [e] at hx; cases hx
      · rw [e] at hx; cases hx
        exact chain_mem_value _ acc none hch x hz
    obtain ⟨⟨s1, r⟩, hq⟩ := query_total C.ord hA (rank E.G.start + 1) E.G.start (by omega) (f' + 1) hfuel s g.current
      q.full hpre
    unfold nextLoop
    rw [hq]
    cases r with
    | none => exact ⟨_, rfl⟩
    | some p => simp only [C.nofilter p, if_true]; exact ⟨_, rfl⟩
  unfold next
  split
  · rename_i hstd
    exact key _ (hst1 hstd).1 hng.2.1
  · rename_i hstd
    have hstd' : g.started = false := by simpa using hstd
    obtain ⟨hempty, hacc⟩ := hst0 hstd'
    rw [hempty]
    cases hp : prologue E fuel (St.empty E.G) with
    | none => exact absurd hp hpro
    | some s0 =>
      simp only
      refine key s0 (hpq s0 hp).1 ?_
      rw [hacc]; trivial

/-- **the generator stops** (once the prologue has returned) -/
theorem take_stops_aux {E : Env S Unit Rat} {rank} (C : CompHyp E rank) {H0 : NT S Unit → List (Rat × Prog)}
    {A : Nat} (hA : ArityLe E.G A) (fuel : Nat) (hfuel : (rank E.G.start + 1) * (A + 5) ≤ fuel) (hf1 : 1 ≤ fuel)
    (hpq : ∀ s0, prologue E fuel (St.empty E.G) = some s0 → Quiet0 E H0 s0 ∧ Started E s0 ∧ CoverHyp E H0)
    (hpro : prologue E fuel (St.empty E.G) ≠ none) :
    ∀ (d : Nat) (g : Gen S Unit Rat) (acc : List Prog), CGen E H0 g acc →
      (∀ p ∈ acc, gen E.G p E.G.start = true) → GInv E g →
      (members E.G rank).length - acc.length = d →
      ∃ k g' out, take E fuel k g acc = some (g', out, true) := by
  intro d
  induction d with
  | zero =>
    intro g acc hg hsound hgi hd
    obtain ⟨⟨g1, r⟩, hn⟩ := next_total C hA fuel hfuel hf1 hpq hpro g acc hg
    cases r with
    | none => exact ⟨1, g1, acc, by simp [take, hn]⟩
    | some p =>
      exfalso
      have hg1 := (next_complete C fuel hpq g g1 acc (some p) hg hn).1 p rfl
      have hnd : (acc ++ [p]).Nodup := hg1.1.nodup
      have hp := (next_sound E C.init.rows fuel g g1 (some p) hgi hn).2 p rfl
      have hsub : acc ++ [p] ⊆ members E.G rank := by
        intro q hq
        rcases List.mem_append.mp hq with hq | hq
        · exact mem_members C q (hsound q hq)
        · simp only [List.mem_singleton] at hq; subst hq; exact mem_members C q hp
      have := hnd.length_le_of_subset hsub
      simp only [List.length_append, List.length_singleton] at this
      omega
  | succ d ih =>
    intro g acc hg hsound hgi hd
    obtain ⟨⟨g1, r⟩, hn⟩ := next_total C hA fuel hfuel hf1 hpq hpro g acc hg
    cases r with
    | none => exact ⟨1, g1, acc, by simp [take, hn]⟩
    | some p =>
      have hg1 := (next_complete C fuel hpq g g1 acc (some p) hg hn).1 p rfl
      obtain ⟨hgi1, hp⟩ := next_sound E C.init.rows fuel g g1 (some p) hgi hn
      have hsound1 : ∀ q ∈ acc ++ [p], gen E.G q E.G.start = true := by
        intro q hq
        rcases List.mem_append.mp hq with hq | hq
        · exact hsound q hq
        · simp only [List.mem_singleton] at hq; subst hq; exact hp q rfl
      obtain ⟨k, g', out, hk⟩ := ih g1 (acc ++ [p]) hg1 hsound1 hgi1
        (by simp only [List.length_append, List.length_singleton]; omega)
      exact ⟨k + 1, g', out, by simp [take, hn, hk]⟩

/-- a bound on the arity of the rules of a literal grammar -/
def maxArity (G : TT S Unit) : Nat :=
  (G.rules.flatMap (fun e => e.2.map (fun r => r.2.1.length))).foldl max 0

theorem le_foldl_max (l : List Nat) (b x : Nat) (h : x ∈ l ∨ x ≤ b) : x ≤ l.foldl max b := by
  induction l generalizing b with
  | nil =>
    rcases h with h | h
    · cases h
    · exact h
  | cons y r ih =>
    simp only [List.foldl_cons]
    apply ih
    rcases h with h | h
    · rcases List.mem_cons.mp h with rfl | h
      · exact Or.inr (Nat.le_max_right _ _)
      · exact Or.inl h
    · exact Or.inr (Nat.le_trans h (Nat.le_max_left _ _))

theorem arityLe_maxArity (G : TT S Unit) : ArityLe G (maxArity G) := by
  intro nt F ra hr
  unfold TT.rule? at hr
  cases hl : AList.lookup nt G.rules with
  | none => simp [hl] at hr
  | some rs =>
    simp only [hl] at hr
    apply le_foldl_max
    left
    apply List.mem_flatMap.mpr
    exact ⟨(nt, rs), AList.lookup_some_mem hl, List.mem_map.mpr ⟨(F, (ra, ())), AList.lookup_some_mem hr, rfl⟩⟩

/-- **TERMINATION of the generator loop**: if the prologue of `generator()` returns, then with fuel at
    least `(rank start + 1) * (max arity + 5)` the generator stops after finitely many `next` -/
theorem take_stops (E : Env S Unit Rat) (rank : NT S Unit → Nat) (C : CompHyp E rank) (fuel : Nat)
    (hfuel : (rank E.G.start + 1) * (maxArity E.G + 5) ≤ fuel)
    (hpro : prologue E fuel (St.empty E.G) ≠ none) :
    ∃ k g' out, take E fuel k (Gen.new E.G) [] = some (g', out, true) := by
  have hf1 : 1 ≤ fuel := by
    have : 1 ≤ (rank E.G.start + 1) * (maxArity E.G + 5) := Nat.mul_pos (by omega) (by omega)
    omega
  cases h3 : preHeaps E fuel (St.empty E.G) with
  | none =>
    exfalso
    apply hpro
    rw [prologue_eq, h3]
  | some s3 =>
    have hnew : CGen E s3.heapOf (Gen.new E.G) [] :=
      ⟨ngInv_new E, (fun hc => by cases hc), fun _ => ⟨rfl, rfl⟩⟩
    exact take_stops_aux C (arityLe_maxArity E.G) fuel hfuel hf1 (prologue_quiet E rank C fuel s3 h3) hpro _ _ _
      hnew (by intro p hp; cases hp) (ginv_new E) rfl

end PS.HS
