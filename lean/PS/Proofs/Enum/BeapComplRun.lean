/- Completeness of beap search, part 3: the invariants through `_query_list_` / `query`. -/
import PS.Proofs.Enum.BeapEntered
namespace PS.Beap
open PS PS.G PS.Heapq
set_option linter.unusedSectionVars false
variable {S : Type} [DecidableEq S]

/-- completed indices strictly before the last one: an empty bank entry is marked empty -/
def E4g (s : St S) : Prop :=
  ∀ nt ci, ci + 1 < (s.clOf nt).length → AList.lookup ci (s.bankOf nt) = some [] → (s.emptiesOf nt).contains ci = true

/-- every clean program of cost `cost_list[nt][ci]` is in `bank[nt][ci]` -/
def IdxDone (E : Env S) (s : St S) (nt : NT S Unit) (ci : Nat) : Prop := PossComp E s (s.bankAt nt ci) (nt, ci)

/-- a queue element below a program is not more expensive than the program -/
theorem witness_le (E : Env S) (s : St S) (hc : CInv E s) (hlb : LB E s) (nt : NT S Unit) (el : HeapEl) (hel : el ∈ s.queueOf nt)
    (kids : List Prog) (x : Rat) (rl : List (Ty × S) × Unit) (hr : E.G.rule? nt el.P = some rl)
    (hx : costOf E (.node el.P kids) nt = some x) (hb : BelowArgs E s rl.1 el.comb kids) : el.cost.fin ≤ x := by
  obtain ⟨rl', w, k, g1, g2, g3, g4⟩ := hc.queue nt el hel
  rw [hr] at g1; cases g1
  obtain ⟨args, u⟩ := rl
  simp only [costOf, hr, g2] at hx
  split at hx
  · next xs hxs =>
    cases hx
    have := below_cost E s hlb args el.comb kids k xs hb g3 hxs
    rw [g4]; show w + k ≤ w + xs; grind
  · cases hx

/-- in a strictly increasing cost list equal finite parts mean equal indices -/
theorem idx_of_fin (s : St S) (ho : OI s) (nt : NT S Unit) (i j : Nat) (e e' : Cost) (hi : (s.clOf nt)[i]? = some e)
    (hj : (s.clOf nt)[j]? = some e') (h : e.fin = e'.fin) : i = j := by
  obtain ⟨hi1, rfl⟩ := List.getElem?_eq_some_iff.mp hi
  obtain ⟨hj1, rfl⟩ := List.getElem?_eq_some_iff.mp hj
  rcases Nat.lt_trichotomy i j with hlt | heq | hgt
  · have := List.pairwise_iff_getElem.mp (ho.mono nt) i j hi1 hj1 hlt; grind
  · exact heq
  · have := List.pairwise_iff_getElem.mp (ho.mono nt) j i hj1 hi1 hgt; grind

theorem getLast_of_len (l : List Cost) (ci : Nat) (e : Cost) (h : l[ci]? = some e) (hl : ci + 1 = l.length) : l.getLast? = some e := by
  rw [List.getLast?_eq_getElem?]
  have : l.length - 1 = ci := by omega
  rw [this]; exact h

/-- an index that was entered and is not the index of a running query is complete -/
theorem idxDone_of_entered (E : Env S) (s : St S) (hw : WInv E s) (nt : NT S Unit) (ci : Nat) (e : Cost)
    (he : (s.clOf nt)[ci]? = some e) (hen : Entered s nt ci) (hfr : ci + 1 = (s.clOf nt).length → FR E s nt) : IdxDone E s nt ci := by
  intro q e' hcl he' hq
  simp only at he' hq
  rw [he] at he'; cases he'
  have hci : ci < (s.clOf nt).length := (List.getElem?_eq_some_iff.mp he).1
  by_cases hl : ci + 1 = (s.clOf nt).length
  · have hlast := getLast_of_len _ ci e he hl
    obtain ⟨f1, f2, _⟩ := hfr hl
    have hlen : (s.clOf nt).length - 1 = ci := by omega
    cases q with
    | node f kids =>
      have hrule : ∃ rl, E.G.rule? nt f = some rl := by
        simp only [costOf] at hq
        split at hq
        · next args u w hr hw' => exact ⟨(args, u), hr⟩
        · cases hq
      obtain ⟨rl, hr⟩ := hrule
      rcases f1 f kids e.fin e rl hcl hq hlast Rat.le_refl hr with ⟨_, g2⟩ | ⟨el, g1, _, _⟩
      · rw [hlen] at g2; exact g2
      · rw [f2 (by rw [hlen]; exact hen)] at g1; cases g1
  · -- a completed index strictly before the last one
    have hne : s.clOf nt ≠ [] := by intro h0; rw [h0] at hci; simp at hci
    obtain ⟨l, hlast⟩ : ∃ l, (s.clOf nt).getLast? = some l := by
      cases h0 : (s.clOf nt).getLast? with
      | none => exact absurd (List.getLast?_eq_none_iff.mp h0) hne
      | some l => exact ⟨l, rfl⟩
    have hlt : e.fin < l.fin := by
      rw [List.getLast?_eq_getElem?] at hlast
      obtain ⟨hl1, hl2⟩ := List.getElem?_eq_some_iff.mp hlast
      have := List.pairwise_iff_getElem.mp (hw.o.mono nt) ci ((s.clOf nt).length - 1) hci hl1 (by omega)
      have e1 : (s.clOf nt)[ci] = e := by
        have := List.getElem?_eq_getElem hci; rw [he] at this; exact (Option.some.inj this).symm
      rw [e1, hl2] at this; exact this
    obtain ⟨i, e', g1, g2, g3⟩ := hw.cr nt q e.fin l hcl hq hlast hlt
    have := idx_of_fin s hw.o nt i ci e' e g1 he g2
    subst this; exact g3

theorem PossComp.ext {E : Env S} {s s' : St S} (he : Ext s s') {ps : List Prog} {ac : NT S Unit × Nat}
    (hd : ∃ e, (s.clOf ac.1)[ac.2]? = some e) (h : PossComp E s ps ac) : PossComp E s' ps ac := by
  intro q e' hcl he' hq
  obtain ⟨e, hee⟩ := hd
  have := he.get _ _ _ hee
  rw [this] at he'
  have e1 : e = e' := Option.some.inj he'
  subst e1
  exact h q e hcl hee hq

/-- `PossComp` for an index that exists -/
def PossK (E : Env S) (s : St S) (ps : List Prog) (ac : NT S Unit × Nat) : Prop :=
  (∃ e, (s.clOf ac.1)[ac.2]? = some e) ∧ PossComp E s ps ac
theorem PossK.ext {E : Env S} {s s' : St S} (he : Ext s s') {ps : List Prog} {ac : NT S Unit × Nat}
    (h : PossK E s ps ac) : PossK E s' ps ac :=
  ⟨let ⟨e, h1⟩ := h.1; ⟨e, he.get _ _ _ h1⟩, PossComp.ext he h.1 h.2⟩

/-- the frontier of the idle non-terminals other than `nt` -/
def FRo (E : Env S) (x : Rat) (s : St S) (nt : NT S Unit) : Prop := ∀ S', S' ≠ nt → ¬ lastGe s S' x → FR E s S'
/-- the frontier, after a call, of the non-terminals that were not protected before it -/
def FRp (E : Env S) (x : Rat) (s s' : St S) : Prop := ∀ S', ¬ lastGe s S' x → FR E s' S'

theorem lastGe_of_same {s s' : St S} {nt : NT S Unit} {x : Rat} (h : lastGe s nt x) (hc : s'.clOf nt = s.clOf nt) : lastGe s' nt x := by
  obtain ⟨c0, g1, g2⟩ := h; exact ⟨c0, by rw [hc]; exact g1, g2⟩

/-- from "relative to the state before the call" to "relative to the state after the call" -/
theorem frp_now (E : Env S) (x : Rat) (P : NT S Unit → Prop) (s s' : St S) (h : ∀ S', P S' → ¬ lastGe s S' x → FR E s' S')
    (hk : Keep4 x s s') : ∀ S', P S' → ¬ lastGe s' S' x → FR E s' S' := by
  intro S' hp hl
  apply h S' hp
  intro hl0
  exact hl (lastGe_of_same hl0 (hk S' hl0).1)

/-- two calls in sequence -/
theorem frp_trans (E : Env S) (x : Rat) (P : NT S Unit → Prop) (a b c : St S) (h1 : ∀ S', P S' → ¬ lastGe a S' x → FR E b S')
    (h2 : ∀ S', P S' → ¬ lastGe b S' x → FR E c S') (hk : Keep4 x b c) (he : Ext b c) :
    ∀ S', P S' → ¬ lastGe a S' x → FR E c S' := by
  intro S' hp hl
  by_cases hb : lastGe b S' x
  · exact (h1 S' hp hl).of_same (hk S' hb) he
  · exact h2 S' hp hb

def QLK (E : Env S) (n : Nat) : Prop :=
  ∀ s nt ci r x, WInv E s → E4g s → FRset E x s → (∃ e, (s.clOf nt)[ci]? = some e ∧ e.fin < x) → queryList E n s nt ci = some r →
    WInv E r.1 ∧ E4g r.1 ∧ FRp E x s r.1 ∧ Keep4 x s r.1 ∧ PossComp E r.1 r.2.2 (nt, ci) ∧
    (r.2.2 = [] → r.2.1 = true) ∧ (r.2.1 = true → r.2.2 = []) ∧ Entered r.1 nt ci
def RQK (E : Env S) (n : Nat) : Prop :=
  ∀ s nt ci s' x c, WInv E s → E4g s → FRset E x s → (s.clOf nt)[ci]? = some c → c.fin < x → ci + 1 = (s.clOf nt).length →
    ¬ Entered s nt ci → runQuery E n s nt ci = some s' →
    WInv E s' ∧ E4g s' ∧ FRp E x s s' ∧ Keep4 x s s' ∧ IdxDone E s' nt ci
def DK (E : Env S) (n : Nat) : Prop :=
  ∀ s nt fr s' x, WInv E s → E4g s → FRo E x s nt → FrK E s nt fr → fr.cost.fin < x → drive E n s nt fr = some s' →
    WInv E s' ∧ E4g s' ∧ FRp E x s s' ∧ Keep4 x s s' ∧ IdxDone E s' nt fr.ci
def RK (E : Env S) (n : Nat) : Prop :=
  ∀ s nt fr r x, WInv E s → E4g s → FRo E x s nt → FrK E s nt fr → fr.cost.fin < x → resume E n s nt fr = some r →
    WInv E r.1 ∧ E4g r.1 ∧ Keep4 x s r.1 ∧ (∀ S', S' ≠ nt → ¬ lastGe s S' x → FR E r.1 S') ∧
    (∀ p fr', r.2 = .yield p fr' → FrK E r.1 nt fr' ∧ fr'.noSucc = false) ∧
    (r.2 = .ret → FR E r.1 nt ∧ IdxDone E r.1 nt fr.ci ∧ ∀ ci', Entered r.1 nt ci' → ci' ≤ fr.ci) ∧
    (∀ ci q, q ∈ r.1.bankAt nt ci → q ∈ s.bankAt nt ci ∨ ∃ fr', r.2 = .yield q fr') ∧
    (r.2 = .ret → (r.1.queueOf nt = [] ∧ (r.1.clOf nt).length = fr.ci + 1) ∨
      (∃ e q, r.1.queueOf nt = e :: q ∧ (r.1.clOf nt)[fr.ci + 1]? = some e.cost)) ∧
    ((fr.noSucc = false ∨ ∃ e q, s.queueOf nt = e :: q ∧ e.cost = fr.cost) → r.2 = .ret → fr.hasGen = false →
      r.1.failedByEmpties = true)
def AK (E : Env S) (n : Nat) : Prop :=
  ∀ s as cs ae af acc done r x, WInv E s → E4g s → FRset E x s →
    (∀ a c, (a, c) ∈ as.zip cs → ∃ e, (s.clOf a)[c]? = some e ∧ e.fin < x) →
    All2 (PossK E s) acc done → (af = true → ae = true) →
    argsLoop E n s as cs ae af acc = some r →
    WInv E r.1 ∧ E4g r.1 ∧ FRp E x s r.1 ∧ Keep4 x s r.1 ∧ Ext s r.1 ∧ All2 (PossK E r.1) r.2.2.2 (done ++ as.zip cs) ∧
    (r.2.2.1 = true → r.2.1 = true) ∧ (r.2.1 = true → ae = true ∨ [] ∈ r.2.2.2) ∧ (∀ l ∈ acc, l ∈ r.2.2.2) ∧
    (∀ a c, (a, c) ∈ as.zip cs → Entered r.1 a c)

theorem not_lastGe_of_last (s : St S) (nt : NT S Unit) (ci : Nat) (e : Cost) (x : Rat) (he : (s.clOf nt)[ci]? = some e)
    (hl : ci + 1 = (s.clOf nt).length) (hx : e.fin < x) : ¬ lastGe s nt x := by
  intro ⟨c0, g1, g2⟩
  rw [getLast_of_len _ ci e he hl] at g1; cases g1
  exact absurd g2 (by grind)

theorem qlk_step (E : Env S) (hpos : PosW E) (n : Nat) (ih : RQK E n) : QLK E (n + 1) := by
  intro s nt ci r x hw h4 hfr ⟨e, he, hex⟩ h
  have hci : ci < (s.clOf nt).length := (List.getElem?_eq_some_iff.mp he).1
  have hfrnt : ci + 1 = (s.clOf nt).length → FR E s nt := fun hl => hfr nt (not_lastGe_of_last s nt ci e x he hl hex)
  unfold queryList at h
  split at h
  · next hemp =>
    cases h
    refine ⟨hw, h4, hfr, Keep4.refl _ _, ?_, fun _ => rfl, fun _ => rfl, Or.inr hemp⟩
    have := idxDone_of_entered E s hw nt ci e he (Or.inr hemp) hfrnt
    unfold IdxDone at this
    rw [hw.e.e2 nt ci hemp] at this; exact this
  · next hemp =>
    split at h
    · omega
    · next hlen =>
      split at h
      · next ps hps =>
        cases h
        have hba : s.bankAt nt ci = ps := by simp [St.bankAt, hps]
        refine ⟨hw, h4, hfr, Keep4.refl _ _, ?_, fun hnil => ?_, fun hone => ?_, Or.inl (by rw [hps]; rfl)⟩
        · have := idxDone_of_entered E s hw nt ci e he (Or.inl (by rw [hps]; rfl)) hfrnt
          unfold IdxDone at this
          rw [hba] at this; exact this
        · exfalso
          simp only at hnil
          subst hnil
          by_cases hl : ci + 1 = (s.clOf nt).length
          · exact hemp ((hfrnt hl).2.2 ci hps)
          · exact hemp (h4 nt ci (by omega) hps)
        · simp only [Bool.and_eq_true, List.isEmpty_iff] at hone
          exact hone.2
      · next hbank =>
        split at h
        · cases h
        · next s1 hrq =>
          have hnotent : ¬ Entered s nt ci := by
            intro hen
            rcases hen with h' | h'
            · rw [hbank] at h'; cases h'
            · exact hemp h'
          by_cases hl : ci + 1 = (s.clOf nt).length
          · obtain ⟨g1, g2, g3, g4, g5⟩ := ih _ _ _ _ x _ hw h4 hfr he hex hl hnotent hrq
            split at h
            · next hemp1 =>
              cases h
              refine ⟨g1, g2, g3, g4, ?_, fun _ => rfl, fun _ => rfl, Or.inr hemp1⟩
              unfold IdxDone at g5
              rw [g1.e.e2 nt ci hemp1] at g5; exact g5
            · next hemp1 =>
              split at h
              · next ps hps =>
                cases h
                have hba : s1.bankAt nt ci = ps := by simp [St.bankAt, hps]
                refine ⟨g1, g2, g3, g4, ?_, fun hnil => ?_, fun hone => (by cases hone), Or.inl (by rw [hps]; rfl)⟩
                · unfold IdxDone at g5; rw [hba] at g5; exact g5
                · exfalso
                  simp only at hnil
                  subst hnil
                  exact hemp1 ((g3 nt (not_lastGe_of_last s nt ci e x he hl hex)).2.2 ci hps)
              · cases h
          · obtain ⟨_, g2⟩ := (order_all E hpos n).2.1 _ _ _ _ x _ hw.c hw.o he hex hrq
            obtain ⟨q1, q2⟩ := g2 hl
            exfalso
            split at h
            · next hc' => rw [q2] at hc'; exact hemp hc'
            · split at h
              · next ps hps => rw [q1, hbank] at hps; cases hps
              · cases h

theorem rqk_step (E : Env S) (n : Nat) (ihD : DK E n) : RQK E (n + 1) := by
  intro s nt ci s' x c hw h4 hfr hget hcx hl hnotent h
  unfold runQuery at h
  split at h
  · next hnone => rw [hget] at hnone; cases hnone
  · next c' hc' =>
    have : c' = c := by rw [hget] at hc'; exact (Option.some.inj hc').symm
    subst this
    have hnl := not_lastGe_of_last s nt ci c' x hget hl hcx
    have hlookup : AList.lookup ci (s.bankOf nt) = none := by
      cases hlk : AList.lookup ci (s.bankOf nt) with
      | none => rfl
      | some ps => exact absurd (Or.inl (by rw [hlk]; rfl)) hnotent
    have hne : (s.emptiesOf nt).contains ci = false := by
      cases hce : (s.emptiesOf nt).contains ci with
      | false => rfl
      | true => exact absurd (Or.inr hce) hnotent
    have hlast := getLast_of_len _ ci c' hget hl
    have hlen : (s.clOf nt).length - 1 = ci := by omega
    have hk : FrK E s nt { ci := ci, cost := c', P := default } := by
      refine ⟨⟨hl, hget⟩, ⟨hget, fun a ha => (by cases ha)⟩, hw.o.fin nt c' (List.mem_of_getElem? hget),
        fun _ => bankAt_of_lookup s nt ci hlookup, fun hh => (by cases hh), fun hh => ?_, hne, fun ci' hne' hlk => ?_,
        fun hh => absurd rfl hh, fun f kids y rl hcl hy hle hr => ?_⟩
      · simp only at hh; rw [hlookup] at hh; cases hh
      · have hen : Entered s nt ci' := Or.inl (by rw [hlk]; rfl)
        have := hw.e.be nt ci' hen
        exact h4 nt ci' (by simp only at hne'; omega) hlk
      · rcases (hfr nt hnl).1 f kids y c' rl hcl hy hlast hle hr with ⟨g1, g2⟩ | g
        · left; rw [hlen] at g2; exact ⟨g1, g2⟩
        · right; left; exact g
    obtain ⟨g1, g2, g3, g4, g5⟩ := ihD _ _ _ _ x hw h4 (fun S' _ hl' => hfr S' hl') hk hcx h
    exact ⟨g1, g2, g3, g4, g5⟩

theorem dk_step (E : Env S) (n : Nat) (ihR : RK E n) (ihD : DK E n) : DK E (n + 1) := by
  intro s nt fr s' x hw h4 hfo hk hx h
  unfold drive at h
  split at h
  · cases h
  · next s1 hr =>
    cases h
    obtain ⟨g1, g2, g3, g4, _, g6, _, _, _⟩ := ihR _ _ _ _ x hw h4 hfo hk hx hr
    obtain ⟨q1, q2, _⟩ := g6 rfl
    refine ⟨g1, g2, fun S' hl' => ?_, g3, q2⟩
    by_cases hS : S' = nt
    · subst hS; exact q1
    · exact g4 S' hS hl'
  · next s1 p fr1 hr =>
    obtain ⟨g1, g2, g3, g4, g5, _, _, _, _⟩ := ihR _ _ _ _ x hw h4 hfo hk hx hr
    obtain ⟨_, _, c3⟩ := (cost_all E n).2.2.2.1 _ _ _ _ hw.c hk.fc hr
    obtain ⟨_, _, c6, c7⟩ := c3 p fr1 rfl
    have hk1 := (g5 p fr1 rfl).1
    have hfo1 : FRo E x s1 nt := frp_now E x (· ≠ nt) s s1 g4 g3
    obtain ⟨q1, q2, q3, q4, q5⟩ := ihD _ _ _ _ x g1 g2 hfo1 hk1 (by rw [c7]; exact hx) h
    obtain ⟨_, e2⟩ := (cost_all E n).2.2.1 _ _ _ _ g1.c hk1.fc h
    refine ⟨q1, q2, fun S' hl' => ?_, g3.trans q4, by rw [← c6]; exact q5⟩
    by_cases hS : S' = nt
    · subst hS
      apply q3
      intro ⟨c0, a1, a2⟩
      rw [hk1.fo.last] at a1; cases a1
      rw [c7] at a2; exact absurd a2 (by grind)
    · exact frp_trans E x (· ≠ nt) s s1 s' g4 (fun S'' _ hl'' => q3 S'' hl'') q4 e2 S' hS hl'

theorem ak_step (E : Env S) (n : Nat) (ihQL : QLK E n) (ihA : AK E n) : AK E (n + 1) := by
  intro s as cs ae af acc done r x hw h4 hfr hb hacc haf h
  cases as with
  | nil =>
    simp only [argsLoop] at h; cases h
    exact ⟨hw, h4, hfr, Keep4.refl _ _, Ext.refl _, by simpa using hacc, haf, fun hh => Or.inl hh, fun l hl => hl,
      fun a c hm => (by simp at hm)⟩
  | cons a as =>
    cases cs with
    | nil => simp [argsLoop] at h
    | cons c cs =>
      simp only [argsLoop] at h
      split at h
      · cases h
      · next s1 one poss hql =>
        obtain ⟨e0, he0, he0x⟩ := hb a c (by simp)
        obtain ⟨g1, g2, g3, g4, g5, g6, g7, g8⟩ := ihQL _ _ _ _ x hw h4 hfr ⟨e0, he0, he0x⟩ hql
        obtain ⟨_, c2, _⟩ := (cost_all E n).1 _ _ _ _ hw.c hql
        have g1 : WInv E s1 := g1
        have c2 : Ext s s1 := c2
        have hfr1 : FRset E x s1 := fun S' hl' => frp_now E x (fun _ => True) s s1 (fun S'' _ hl'' => g3 S'' hl'') g4 S' trivial hl'
        have hb' : ∀ a' c', (a', c') ∈ as.zip cs → ∃ e, (s1.clOf a')[c']? = some e ∧ e.fin < x := by
          intro a' c' hm
          obtain ⟨e, h1, h2⟩ := hb a' c' (by simp [hm])
          exact ⟨e, c2.get _ _ _ h1, h2⟩
        have hacc' : All2 (PossK E s1) (acc ++ [poss]) (done ++ [(a, c)]) :=
          All2.append (hacc.mono (fun _ _ hr => hr.ext c2)) (All2.cons ⟨⟨e0, c2.get _ _ _ he0⟩, g5⟩ All2.nil)
        have fin : ∀ ae' af', (af' = true → ae' = true) → (ae' = true → ae = true ∨ poss = []) →
            argsLoop E n s1 as cs ae' af' (acc ++ [poss]) = some r →
            WInv E r.1 ∧ E4g r.1 ∧ FRp E x s r.1 ∧ Keep4 x s r.1 ∧ Ext s r.1 ∧ All2 (PossK E r.1) r.2.2.2 (done ++ (a, c) :: as.zip cs) ∧
            (r.2.2.1 = true → r.2.1 = true) ∧ (r.2.1 = true → ae = true ∨ [] ∈ r.2.2.2) ∧ (∀ l ∈ acc, l ∈ r.2.2.2) ∧
            (∀ a' c', (a', c') ∈ (a :: as).zip (c :: cs) → Entered r.1 a' c') := by
          intro ae' af' haf' hae' h'
          obtain ⟨q1, q2, q3, q4, e2, q5, q6, q7, q8, q9⟩ := ihA _ _ _ _ _ _ _ _ x g1 g2 hfr1 hb' hacc' haf' h'
          refine ⟨q1, q2, fun S' hl' => frp_trans E x (fun _ => True) s s1 r.1 (fun S' _ hl' => g3 S' hl') (fun S' _ hl' => q3 S' hl') q4 e2 S' trivial hl',
            g4.trans q4, c2.trans e2, by simpa using q5, q6, fun hh => ?_, fun l hl => q8 l (List.mem_append_left _ hl), fun a' c' hm => ?_⟩
          rotate_left
          · simp only [List.zip_cons_cons, List.mem_cons, Prod.mk.injEq] at hm
            rcases hm with ⟨rfl, rfl⟩ | hm
            · exact (entered_all E n).2.2.2.2 _ _ _ _ _ _ _ h' _ _ g8
            · exact q9 a' c' hm
          rcases q7 hh with h1 | h1
          · rcases hae' h1 with h2 | h2
            · exact Or.inl h2
            · right; apply q8; rw [h2]; simp
          · exact Or.inr h1
        split at h
        · next hpe =>
          have hpnil : poss = [] := by simpa using hpe
          have hone : one = true := g6 hpnil
          split at h
          · next hno => rw [hone] at hno; cases hno
          · exact fin _ _ (fun _ => by rw [hone]; simp) (fun _ => Or.inr hpnil) h
        · next hpe =>
          have hone : one = false := by
            cases one
            · rfl
            · have hp0 : poss = [] := g7 rfl
              subst hp0; exact absurd rfl hpe
          exact fin _ _ (fun hh => by rw [haf hh]; rfl) (fun hh => by rw [hone] at hh; simp at hh; exact Or.inl hh) h

end PS.Beap
