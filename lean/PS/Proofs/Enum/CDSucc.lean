/- The frontier rule of `query_derivation` (constant_delay.py:301-316, "increment index i until the first
   index > 1"): every index tuple other than (0,…,0) is the successor of exactly one index tuple, at
   exactly one position.  Pure combinatorics on the transcription `succIdx` of the loop's control
   flow, then the link to the model's `succLoop`. -/
import PS.Model.Enum.ConstantDelay
import PS.Proofs.Enum.CDQueue
namespace PS.CD

/-- the successors of an index tuple when every cost list is long enough: increment position 0, 1, …
    up to and including the first position whose index is already ≥ 1 -/
def succs : List Nat → List (List Nat)
  | [] => []
  | x :: xs => ((x + 1) :: xs) :: (if x ≥ 1 then [] else (succs xs).map (x :: ·))

/-- the unique predecessor: decrement the first non-zero index -/
def parent : List Nat → List Nat
  | [] => []
  | 0 :: xs => 0 :: parent xs
  | (x + 1) :: xs => x :: xs

def nonzero (t : List Nat) : Bool := t.any (· != 0)

/-- **bijection lemma**: `t` is a successor of `c` iff `t ≠ (0,…,0)` and `c` is the predecessor of `t` -/
theorem mem_succs_iff : ∀ (c t : List Nat), t ∈ succs c ↔ (nonzero t = true ∧ parent t = c)
  | [], t => by
    simp only [succs, List.not_mem_nil, false_iff, not_and]
    intro hn hp
    cases t with
    | nil => simp [nonzero] at hn
    | cons y ys =>
      cases y with
      | zero => simp [parent] at hp
      | succ y => simp [parent] at hp
  | x :: xs, t => by
    simp only [succs, List.mem_cons]
    constructor
    · rintro (h | h)
      · subst h; simp [nonzero, parent]
      · split at h
        · simp at h
        · rename_i hx
          have hx0 : x = 0 := by omega
          subst hx0
          rw [List.mem_map] at h
          obtain ⟨t', ht', rfl⟩ := h
          obtain ⟨h1, h2⟩ := (mem_succs_iff xs t').mp ht'
          refine ⟨?_, by simp [parent, h2]⟩
          simp only [nonzero, List.any_cons, bne_self_eq_false, Bool.false_or] at h1 ⊢
          exact h1
    · rintro ⟨hn, hp⟩
      cases t with
      | nil => simp [nonzero] at hn
      | cons y ys =>
        cases y with
        | zero =>
          simp only [parent, List.cons.injEq] at hp
          obtain ⟨hx, hxs⟩ := hp
          subst hx
          right
          simp only [ge_iff_le, Nat.le_zero_eq, Nat.add_eq_zero_iff, Nat.succ_ne_self, and_false, if_false, List.mem_map]
          refine ⟨ys, (mem_succs_iff xs ys).mpr ⟨?_, hxs⟩, rfl⟩
          simpa [nonzero] using hn
        | succ y =>
          simp only [parent, List.cons.injEq] at hp
          obtain ⟨hx, hxs⟩ := hp
          subst hx; subst hxs
          left; rfl

/-- no index tuple is pushed twice by one expansion -/
theorem succs_nodup : ∀ (c : List Nat), (succs c).Nodup
  | [] => by simp [succs]
  | x :: xs => by
    simp only [succs]
    rw [List.nodup_cons]
    constructor
    · split
      · simp
      · rename_i hx
        intro h
        rw [List.mem_map] at h
        obtain ⟨t', _, h2⟩ := h
        simp only [List.cons.injEq] at h2
        omega
    · split
      · simp
      · exact List.Pairwise.map (x :: ·) (fun a b hab h => hab (by simpa using h)) (succs_nodup xs)

/-- each index tuple has exactly one generating pair (predecessor, position): two expansions never
    push the same tuple -/
theorem succs_disjoint (c c' t : List Nat) (h : t ∈ succs c) (h' : t ∈ succs c') : c = c' := by
  rw [mem_succs_iff] at h h'
  rw [← h.2, ← h'.2]

/-- every tuple other than (0,…,0) is generated (by its predecessor) -/
theorem succs_cover (t : List Nat) (h : nonzero t = true) : t ∈ succs (parent t) :=
  (mem_succs_iff _ _).mpr ⟨h, rfl⟩

theorem succs_length : ∀ (c t : List Nat), t ∈ succs c → t.length = c.length
  | [], t, h => by simp [succs] at h
  | x :: xs, t, h => by
    simp only [succs, List.mem_cons] at h
    rcases h with h | h
    · subst h; simp
    · split at h
      · simp at h
      · rw [List.mem_map] at h
        obtain ⟨t', ht', rfl⟩ := h
        simp [succs_length xs t' ht']

/-- the index tuples pushed by the successor loop of the code, with the lengths of the cost lists
    of the arguments as they are when the loop runs (`lens[i] = len(self._cost_lists_nt[args[i]])`):
    a position whose next index does not exist yet is skipped when its index is 0 and ends the loop
    otherwise -/
def succIdx (lens : List Nat) (comb : List Nat) : Nat → Nat → List (List Nat)
  | 0, _ => []
  | rem + 1, i =>
    match comb[i]?, lens[i]? with
    | some x, some len =>
      if x + 1 ≥ len then (if x + 1 > 1 then [] else succIdx lens comb rem (i + 1))
      else (comb.set i (x + 1)) :: (if x + 1 > 1 then [] else succIdx lens comb rem (i + 1))
    | _, _ => []

/-- position by position, the loop pushes a sub-list of the successors of the tuple -/
theorem succIdx_aux (lens : List Nat) : ∀ (rem i : Nat) (pre suf : List Nat), pre.length = i →
    (∀ x ∈ pre, x = 0) → ∀ t ∈ succIdx lens (pre ++ suf) rem i, ∃ t' ∈ succs suf, t = pre ++ t' := by
  intro rem
  induction rem with
  | zero => intro i pre suf _ _ t h; simp [succIdx] at h
  | succ rem ih =>
    intro i pre suf hlen hz t h
    simp only [succIdx] at h
    cases suf with
    | nil =>
      have : pre[i]? = none := by simp [hlen]
      simp [this] at h
    | cons x xs =>
      have hget : (pre ++ x :: xs)[i]? = some x := by
        rw [List.getElem?_append_right (by omega)]; simp [hlen]
      simp only [hget] at h
      have hset : (pre ++ x :: xs).set i (x + 1) = pre ++ (x + 1) :: xs := by
        rw [List.set_append_right _ _ (by omega)]; simp [hlen]
      have hrec : ∀ t ∈ succIdx lens (pre ++ x :: xs) rem (i + 1), x = 0 → ∃ t' ∈ succs (x :: xs), t = pre ++ t' := by
        intro t ht hx
        subst hx
        have := ih (i + 1) (pre ++ [0]) xs (by simp [hlen]) (by
          intro y hy; rcases List.mem_append.mp hy with h1 | h1
          · exact hz y h1
          · simpa using h1) t (by simpa using ht)
        obtain ⟨t', ht', rfl⟩ := this
        refine ⟨0 :: t', ?_, by simp⟩
        simp only [succs, List.mem_cons]
        right
        simp only [ge_iff_le, Nat.le_zero_eq, Nat.add_eq_zero_iff, Nat.succ_ne_self, and_false, if_false, List.mem_map]
        exact ⟨t', ht', rfl⟩
      cases hl : lens[i]? with
      | none => simp [hl] at h
      | some len =>
        simp only [hl] at h
        split at h
        · split at h
          · simp at h
          · exact hrec t h (by omega)
        · rw [hset] at h
          rcases List.mem_cons.mp h with h1 | h1
          · exact ⟨(x + 1) :: xs, by simp [succs], h1⟩
          · split at h1
            · simp at h1
            · exact hrec t h1 (by omega)

/-- **the loop pushes only successors**, whatever the lengths of the cost lists are -/
theorem succIdx_sub (lens comb : List Nat) : ∀ t ∈ succIdx lens comb comb.length 0, t ∈ succs comb := by
  intro t h
  obtain ⟨t', ht', rfl⟩ := succIdx_aux lens comb.length 0 [] comb rfl (by simp) t (by simpa using h)
  simpa using ht'

/-! ### the frontier of one derivation queue never holds an index tuple twice -/

/-- the index tuples of one derivation queue: `F` pushed and not yet expanded, `D` expanded -/
structure Front where
  F : List (List Nat)
  D : List (List Nat)

/-- no tuple twice (frontier and expanded together), and every non-zero tuple was generated by its
    predecessor, which has been expanded -/
def FrontInv (a : Front) : Prop :=
  (a.F ++ a.D).Nodup ∧ ∀ t ∈ a.F ++ a.D, nonzero t = true → parent t ∈ a.D

/-- one expansion, as `query_derivation` does it for a popped index tuple `c`: `c` leaves the frontier and
    pairwise distinct successors of `c` (ALL of `succs c`, or fewer when cost lists end: `succIdx`) enter it -/
inductive Front.Step : Front → Front → Prop
  | expand (F1 F2 D : List (List Nat)) (c : List Nat) (new : List (List Nat)) : new.Nodup → (∀ t ∈ new, t ∈ succs c) →
      Front.Step ⟨F1 ++ c :: F2, D⟩ ⟨F1 ++ F2 ++ new, c :: D⟩

inductive Front.Reach : Front → Front → Prop
  | refl (a : Front) : Front.Reach a a
  | step {a b c : Front} : Front.Reach a b → Front.Step b c → Front.Reach a c

theorem front_init (n : Nat) : FrontInv ⟨[List.replicate n 0], []⟩ := by
  refine ⟨by simp, ?_⟩
  intro t ht hnz
  simp only [List.append_nil, List.mem_singleton] at ht
  subst ht
  simp [nonzero] at hnz

theorem front_step {a b : Front} (ha : FrontInv a) (h : Front.Step a b) : FrontInv b := by
  cases h with
  | expand F1 F2 D c new hnd hsub =>
    obtain ⟨h1, h2⟩ := ha
    simp only at h1 h2
    have hcF : c ∈ F1 ++ c :: F2 := by simp
    have hcD : c ∉ D := by
      intro hc
      have := (List.nodup_append.mp h1).2.2 c hcF c hc
      exact this rfl
    have hnew : ∀ t ∈ new, t ∉ (F1 ++ c :: F2) ++ D := by
      intro t ht hmem
      obtain ⟨hnz, hp⟩ := (mem_succs_iff c t).mp (hsub t ht)
      have := h2 t hmem hnz
      rw [hp] at this
      exact hcD this
    have hperm : ((F1 ++ F2 ++ new) ++ c :: D).Perm (new ++ ((F1 ++ c :: F2) ++ D)) := by
      have e1 : ((F1 ++ F2 ++ new) ++ c :: D).Perm (new ++ (F1 ++ F2) ++ c :: D) :=
        List.Perm.append_right _ List.perm_append_comm
      refine e1.trans ?_
      simp only [List.append_assoc]
      refine List.Perm.append_left new ?_
      refine List.Perm.append_left F1 ?_
      exact (List.perm_middle (a := c) (l₁ := F2) (l₂ := D))
    refine ⟨?_, ?_⟩
    · show ((F1 ++ F2 ++ new) ++ c :: D).Nodup
      rw [hperm.nodup_iff, List.nodup_append]
      exact ⟨hnd, h1, fun x hx y hy hxy => hnew x hx (hxy ▸ hy)⟩
    · intro t ht hnz
      show parent t ∈ c :: D
      have ht' := hperm.mem_iff.mp ht
      rcases List.mem_append.mp ht' with h3 | h3
      · rw [((mem_succs_iff c t).mp (hsub t h3)).2]; exact List.mem_cons_self
      · exact List.mem_cons_of_mem _ (h2 t h3 hnz)

/-- **along every sequence of expansions from the initial frontier `(0,…,0)`, whatever the order of the pops and
    whatever the lengths of the cost lists at each expansion, no index tuple is ever generated twice** -/
theorem front_reach_nodup (n : Nat) (b : Front) (h : Front.Reach ⟨[List.replicate n 0], []⟩ b) : (b.F ++ b.D).Nodup := by
  have : FrontInv b := by
    induction h with
    | refl => exact front_init n
    | step _ hs ih => exact front_step ih hs
  exact this.1

/-! ### the successor loop of the machine pushes exactly `succIdx` -/

/-- `len(self._cost_lists_nt[args[i]])` for every argument position -/
def lensOf {α : Type} (s : St α) (args : List NT) : List Nat :=
  args.map fun Si => ((AList.lookup Si s.costNt).getD []).length

/-- **the loop of the model** (`succLoop`, the code path `query_derivation` runs) changes nothing but the
    derivation queue of `args`, and what it pushes into it are exactly the index tuples `succIdx` -/
theorem succLoop_spec {α : Type} (A : Arith α) (asserts : Bool) (args : List NT) (c : α) (comb : List Nat) :
    ∀ (rem i : Nat) (s s' : St α), succLoop A asserts args c comb rem i s = some s' →
    ∀ q, AList.lookup args s.queueDer = some q → QWF q →
    ∃ q', AList.lookup args s'.queueDer = some q' ∧ QWF q' ∧
      q'.contents.Perm (q.contents ++ succIdx (lensOf s args) comb rem i) ∧ q'.k = q.k ∧ q'.maxi = q.maxi ∧
      s' = { s with queueDer := s'.queueDer } ∧
      (∀ a, a ≠ args → AList.lookup a s'.queueDer = AList.lookup a s.queueDer) := by
  intro rem
  induction rem with
  | zero =>
    intro i s s' h q hq hwf
    simp only [succLoop, Option.some.injEq] at h
    subst h
    refine ⟨q, hq, hwf, by simp [succIdx], ?_⟩
    exact ⟨rfl, rfl, rfl, fun _ _ => rfl⟩
  | succ rem ih =>
    intro i s s' h q hq hwf
    simp only [succLoop] at h
    split at h
    · rename_i x Si hx hSi
      split at h
      · simp at h
      · rename_i cl hcl
        have hlen : (lensOf s args)[i]? = some cl.length := by
          simp [lensOf, List.getElem?_map, hSi, hcl]
        simp only [succIdx, hx, hlen]
        split at h
        · rename_i hge
          simp only [hge, if_true]
          split at h
          · simp only [Option.some.injEq] at h
            subst h
            rename_i h1
            simp only [h1, if_true]
            exact ⟨q, hq, hwf, by simp, by simp⟩
          · rename_i h1
            simp only [h1, if_false]
            exact ih _ _ _ h q hq hwf
        · rename_i hge
          simp only [hge, if_false]
          split at h
          · rename_i c0 c1 q0 _ _ hq0
            rw [hq] at hq0
            simp only [Option.some.injEq] at hq0
            subst hq0
            split at h
            · simp at h
            · rename_i q1 hpush
              obtain ⟨hwf1, _, hperm1, hk1, hm1⟩ := qwf_push A q q1 _ asserts hwf hpush
              have hlook : AList.lookup args (s.setQueueDer args q1).queueDer = some q1 := by
                simp [St.setQueueDer, AList.lookup_insert_self]
              have hne : ∀ a, a ≠ args → AList.lookup a (s.setQueueDer args q1).queueDer = AList.lookup a s.queueDer := by
                intro a ha
                simp [St.setQueueDer, AList.lookup_insert_ne _ _ ha]
              split at h
              · rename_i h1
                simp only [Option.some.injEq] at h
                subst h
                simp only [h1, if_true]
                exact ⟨q1, hlook, hwf1, by simpa [Q.contents] using hperm1, by simpa using hk1, by simpa using hm1, by first | rfl | simp [St.setQueueDer], hne⟩
              · rename_i h1
                simp only [h1, if_false]
                obtain ⟨q2, h2a, h2b, h2c, h2d, h2e, h2f, h2g⟩ := ih _ _ _ h q1 hlook hwf1
                refine ⟨q2, h2a, h2b, ?_, by rw [h2d, hk1], by rw [h2e, hm1], ?_, ?_⟩
                · have hl : lensOf (s.setQueueDer args q1) args = lensOf s args := rfl
                  rw [hl] at h2c
                  refine h2c.trans ?_
                  have : (q1.contents ++ succIdx (lensOf s args) comb rem (i + 1)).Perm
                      ((q.contents ++ [comb.set i (x + 1)]) ++ succIdx (lensOf s args) comb rem (i + 1)) :=
                    List.Perm.append_right _ (by simpa using hperm1)
                  refine this.trans ?_
                  simp
                · rw [h2f]; rfl
                · intro a ha
                  rw [h2g a ha, hne a ha]
          · simp at h
    · simp at h

/-- the tuples pushed from position `i'` on leave the positions before `i'` untouched -/
theorem succIdx_keeps (lens comb : List Nat) : ∀ (rem i' i : Nat), i < i' → ∀ t ∈ succIdx lens comb rem i', t[i]? = comb[i]? := by
  intro rem
  induction rem with
  | zero => intro i' i _ t h; simp [succIdx] at h
  | succ rem ih =>
    intro i' i hi t h
    simp only [succIdx] at h
    split at h
    · rename_i x len hx hl
      split at h
      · split at h
        · simp at h
        · exact ih _ _ (by omega) t h
      · rcases List.mem_cons.mp h with h1 | h1
        · subst h1
          rw [List.getElem?_set_ne (by omega)]
        · split at h1
          · simp at h1
          · exact ih _ _ (by omega) t h1
    · simp at h

theorem succIdx_nodup (lens comb : List Nat) : ∀ (rem i : Nat), (succIdx lens comb rem i).Nodup := by
  intro rem
  induction rem with
  | zero => intro i; simp [succIdx]
  | succ rem ih =>
    intro i
    simp only [succIdx]
    split
    · rename_i x len hx hl
      split
      · split
        · simp
        · exact ih _
      · rw [List.nodup_cons]
        constructor
        · split
          · simp
          · intro hmem
            have := succIdx_keeps lens comb rem (i + 1) i (by omega) _ hmem
            have hlt : i < comb.length := (List.getElem?_eq_some_iff.mp hx).1
            rw [List.getElem?_set_self hlt, hx] at this
            simp at this
        · split
          · simp
          · exact ih _
    · simp

/-- every index tuple the machine pushes when it expands `comb` is a successor of `comb` in the sense of the
    bijection lemma, of the same length -/
theorem succLoop_pushes_successors {α : Type} (A : Arith α) (asserts : Bool) (args : List NT) (c : α) (comb : List Nat)
    (s s' : St α) (h : succLoop A asserts args c comb comb.length 0 s = some s') (q : Q α)
    (hq : AList.lookup args s.queueDer = some q) (hwf : QWF q) :
    ∃ q' pushed, AList.lookup args s'.queueDer = some q' ∧ QWF q' ∧ q'.contents.Perm (q.contents ++ pushed) ∧
      pushed.Nodup ∧ ∀ t ∈ pushed, t ∈ succs comb ∧ t.length = comb.length := by
  obtain ⟨q', h1, h2, h3, _⟩ := succLoop_spec A asserts args c comb _ _ _ _ h q hq hwf
  exact ⟨q', _, h1, h2, h3, succIdx_nodup _ _ _ _, fun t ht => ⟨succIdx_sub _ _ t ht, succs_length _ _ (succIdx_sub _ _ t ht)⟩⟩

end PS.CD
