/- The frontier rule of `query_derivation` (constant_delay.py:301-316, "increment index i until the first
   index > 1"): every index tuple other than (0,…,0) is the successor of exactly one index tuple, at
   exactly one position.  Pure combinatorics on the transcription `succIdx` of the loop's control
   flow, then the link to the model's `succLoop`. -/
import PS.Model.Enum.ConstantDelay
import PS.Proofs.Enum.CDQueue
namespace PS.CD

/-- the successors of an index tuple when every cost list is long enough: increment position 0, 1, …
    up to and including the first position whose index is already ≥ 1 -/
def succs : List Nat → List (List Nat)
  | [] => []
  | x :: xs => ((x + 1) :: xs) :: (if x ≥ 1 then [] else (succs xs).map (x :: ·))

/-- the unique predecessor: decrement the first non-zero index -/
def parent : List Nat → List Nat
  | [] => []
  | 0 :: xs => 0 :: parent xs
  | (x + 1) :: xs => x :: xs

def nonzero (t : List Nat) : Bool := t.any (· != 0)

/-- **bijection lemma**: `t` is a successor of `c` iff `t ≠ (0,…,0)` and `c` is the predecessor of `t` -/
theorem mem_succs_iff : ∀ (c t : List Nat), t ∈ succs c ↔ (nonzero t = true ∧ parent t = c)
  | [], t => by
    simp only [succs, List.not_mem_nil, false_iff, not_and]
    intro hn hp
    cases t with
    | nil => simp [nonzero] at hn
    | cons y ys =>
      cases y with
      | zero => simp [parent] at hp
      | succ y => simp [parent] at hp
  | x :: xs, t => by
    simp only [succs, List.mem_cons]
    constructor
    · rintro (h | h)
      · subst h; simp [nonzero, parent]
      · split at h
        · simp at h
        · rename_i hx
          have hx0 : x = 0 := by omega
          subst hx0
          rw [List.mem_map] at h
          obtain ⟨t', ht', rfl⟩ := h
          obtain ⟨h1, h2⟩ := (mem_succs_iff xs t').mp ht'
          refine ⟨?_, by simp [parent, h2]⟩
          simp only [nonzero, List.any_cons, bne_self_eq_false, Bool.false_or] at h1 ⊢
          exact h1
    · rintro ⟨hn, hp⟩
      cases t with
      | nil => simp [nonzero] at hn
      | cons y ys =>
        cases y with
        | zero =>
          simp only [parent, List.cons.injEq] at hp
          obtain ⟨hx, hxs⟩ := hp
          subst hx
          right
          simp only [ge_iff_le, Nat.le_zero_eq, Nat.add_eq_zero_iff, Nat.succ_ne_self, and_false, if_false, List.mem_map]
          refine ⟨ys, (mem_succs_iff xs ys).mpr ⟨?_, hxs⟩, rfl⟩
          simpa [nonzero] using hn
        | succ y =>
          simp only [parent, List.cons.injEq] at hp
          obtain ⟨hx, hxs⟩ := hp
          subst hx; subst hxs
          left; rfl

/-- no index tuple is pushed twice by one expansion -/
theorem succs_nodup : ∀ (c : List Nat), (succs c).Nodup
  | [] => by simp [succs]
  | x :: xs => by
    simp only [succs]
    rw [List.nodup_cons]
    constructor
    · split
      · simp
      · rename_i hx
        intro h
        rw [List.mem_map] at h
        obtain ⟨t', _, h2⟩ := h
        simp only [List.cons.injEq] at h2
        omega
    · split
      · simp
      · exact List.Pairwise.map (x :: ·) (fun a b hab h => hab (by simpa using h)) (succs_nodup xs)

/-- each index tuple has exactly one generating pair (predecessor, position): two expansions never
    push the same tuple -/
theorem succs_disjoint (c c' t : List Nat) (h : t ∈ succs c) (h' : t ∈ succs c') : c = c' := by
  rw [mem_succs_iff] at h h'
  rw [← h.2, ← h'.2]

/-- every tuple other than (0,…,0) is generated (by its predecessor) -/
theorem succs_cover (t : List Nat) (h : nonzero t = true) : t ∈ succs (parent t) :=
  (mem_succs_iff _ _).mpr ⟨h, rfl⟩

theorem succs_length : ∀ (c t : List Nat), t ∈ succs c → t.length = c.length
  | [], t, h => by simp [succs] at h
  | x :: xs, t, h => by
    simp only [succs, List.mem_cons] at h
    rcases h with h | h
    · subst h; simp
    · split at h
      · simp at h
      · rw [List.mem_map] at h
        obtain ⟨t', ht', rfl⟩ := h
        simp [succs_length xs t' ht']

/-- the index tuples pushed by the successor loop of the code, with the lengths of the cost lists
    of the arguments as they are when the loop runs (`lens[i] = len(self._cost_lists_nt[args[i]])`):
    a position whose next index does not exist yet is skipped when its index is 0 and ends the loop
    otherwise -/
def succIdx (lens : List Nat) (comb : List Nat) : Nat → Nat → List (List Nat)
  | 0, _ => []
  | rem + 1, i =>
    match comb[i]?, lens[i]? with
    | some x, some len =>
      if x + 1 ≥ len then (if x + 1 > 1 then [] else succIdx lens comb rem (i + 1))
      else (comb.set i (x + 1)) :: (if x + 1 > 1 then [] else succIdx lens comb rem (i + 1))
    | _, _ => []

/-- position by position, the loop pushes a sub-list of the successors of the tuple -/
theorem succIdx_aux (lens : List Nat) : ∀ (rem i : Nat) (pre suf : List Nat), pre.length = i →
    (∀ x ∈ pre, x = 0) → ∀ t ∈ succIdx lens (pre ++ suf) rem i, ∃ t' ∈ succs suf, t = pre ++ t' := by
  intro rem
  induction rem with
  | zero => intro i pre suf _ _ t h; simp [succIdx] at h
  | succ rem ih =>
    intro i pre suf hlen hz t h
    simp only [succIdx] at h
    cases suf with
    | nil =>
      have : pre[i]? = none := by simp [hlen]
      simp [this] at h
    | cons x xs =>
      have hget : (pre ++ x :: xs)[i]? = some x := by
        rw [List.getElem?_append_right (by omega)]; simp [hlen]
      simp only [hget] at h
      have hset : (pre ++ x :: xs).set i (x + 1) = pre ++ (x + 1) :: xs := by
        rw [List.set_append_right _ _ (by omega)]; simp [hlen]
      have hrec : ∀ t ∈ succIdx lens (pre ++ x :: xs) rem (i + 1), x = 0 → ∃ t' ∈ succs (x :: xs), t = pre ++ t' := by
        intro t ht hx
        subst hx
        have := ih (i + 1) (pre ++ [0]) xs (by simp [hlen]) (by
          intro y hy; rcases List.mem_append.mp hy with h1 | h1
          · exact hz y h1
          · simpa using h1) t (by simpa using ht)
        obtain ⟨t', ht', rfl⟩ := this
        refine ⟨0 :: t', ?_, by simp⟩
        simp only [succs, List.mem_cons]
        right
        simp only [ge_iff_le, Nat.le_zero_eq, Nat.add_eq_zero_iff, Nat.succ_ne_self, and_false, if_false, List.mem_map]
        exact ⟨t', ht', rfl⟩
      cases hl : lens[i]? with
      | none => simp [hl] at h
      | some len =>
        simp only [hl] at h
        split at h
        · split at h
          · simp at h
          · exact hrec t h (by omega)
        · rw [hset] at h
          rcases List.mem_cons.mp h with h1 | h1
          · exact ⟨(x + 1) :: xs, by simp [succs], h1⟩
          · split at h1
            · simp at h1
            · exact hrec t h1 (by omega)

/-- **the loop pushes only successors**, whatever the lengths of the cost lists are -/
theorem succIdx_sub (lens comb : List Nat) : ∀ t ∈ succIdx lens comb comb.length 0, t ∈ succs comb := by
  intro t h
  obtain ⟨t', ht', rfl⟩ := succIdx_aux lens comb.length 0 [] comb rfl (by simp) t (by simpa using h)
  simpa using ht'

end PS.CD
