/- Probabilistic unambiguous grammars (C04): the operations `ProbUGrammar.uniform`,
   `ProbUGrammar.normalise`, and the counters `countU` / `UCFG.programs()`. -/
import PS.Model.Prob
import PS.Proofs.UMass
import PS.Proofs.ProbDet
namespace PS.U.Ops
open PS PS.G PS.U PS.U.Mass
variable {U : Type} [DecidableEq U]

/-! ### dict comprehension with a constant value -/

theorem lookup_foldl_insert_const {κ ν : Type} [DecidableEq κ] (c : ν) (l : List κ) (v : κ)
    (d0 : AList κ ν) :
    AList.lookup v (l.foldl (fun d v => AList.insert v c d) d0)
      = if v ∈ l then some c else AList.lookup v d0 := by
  induction l generalizing d0 with
  | nil => simp
  | cons x xs ih =>
    rw [List.foldl_cons, ih, AList.lookup_insert]
    by_cases h1 : v ∈ xs
    · simp [h1]
    · by_cases h2 : v = x
      · simp [h2]
      · simp [h1, h2]

theorem lookup_foldl_insert_const_nil {κ ν : Type} [DecidableEq κ] (c : ν) (l : List κ) (v : κ) :
    AList.lookup v (l.foldl (fun d v => AList.insert v c d) ([] : AList κ ν))
      = if v ∈ l then some c else none := by
  rw [lookup_foldl_insert_const]; rfl

/-! ### V1 `uniformU` -/

theorem le_sum_of_mem {n : Nat} {l : List Nat} (h : n ∈ l) : n ≤ l.sum := by
  induction l with
  | nil => cases h
  | cons x xs ih =>
    rw [List.sum_cons]
    rcases List.mem_cons.mp h with h | h
    · omega
    · have := ih h; omega

theorem keys_uniformU (G : UCFG U) : AList.keys (uniformU G).tags = AList.keys G.rules := by
  simp [AList.keys, uniformU, List.map_map, Function.comp_def]

/-- the weight of an alternative in the uniform grammar -/
theorem weightU_uniformU (G : UCFG U) (hk : (AList.keys G.rules).Nodup)
    (e : UNT U × AList Sym (List (List (UNT U)))) (he : e ∈ G.rules)
    (hn : (AList.keys e.2).Nodup) (r : Sym × List (List (UNT U))) (hr : r ∈ e.2)
    (args : List (UNT U)) (ha : args ∈ r.2) :
    weightU (uniformU G) (e.1, r.1, args)
      = 1 / (((e.2.map (fun r => r.2.length)).sum : Nat) : Rat) := by
  have h1 : AList.lookup e.1 (uniformU G).tags
      = some (e.2.map (fun r => (r.1, r.2.foldl (fun d v => AList.insert v
          (1 / (((e.2.map (fun r => r.2.length)).sum : Nat) : Rat)) d) []))) := by
    apply AList.lookup_of_mem_nodup
    · rw [keys_uniformU]; exact hk
    · exact List.mem_map.mpr ⟨e, he, rfl⟩
  have h2 : AList.lookup r.1 (e.2.map (fun r => (r.1, r.2.foldl (fun d v => AList.insert v
          (1 / (((e.2.map (fun r => r.2.length)).sum : Nat) : Rat)) d)
            ([] : AList (List (UNT U)) Rat))))
      = some (r.2.foldl (fun d v => AList.insert v
          (1 / (((e.2.map (fun r => r.2.length)).sum : Nat) : Rat)) d) []) := by
    apply AList.lookup_of_mem_nodup
    · simpa [AList.keys, List.map_map, Function.comp_def] using hn
    · exact List.mem_map.mpr ⟨r, hr, rfl⟩
  simp only [weightU, tagOfU, h1, h2, lookup_foldl_insert_const_nil, ha, if_true, Option.getD_some]

theorem uniformU_normalised (G : UCFG U) (hk : (AList.keys G.rules).Nodup)
    (hr : ∀ e ∈ G.rules, (AList.keys e.2).Nodup ∧ (∃ r ∈ e.2, r.2 ≠ []) ∧ ∀ r ∈ e.2, r.2.Nodup) :
    NormalisedU G (uniformU G) := by
  intro e he
  obtain ⟨hnd, ⟨r0, hr0, hne0⟩, _⟩ := hr e he
  refine ⟨?_, hnd⟩
  have h1 : e.2.map (fun r => (r.2.map (fun args => weightU (uniformU G) (e.1, r.1, args))).sum)
      = e.2.map (fun r => ((r.2.length : Nat) : Rat)
          * (1 / (((e.2.map (fun r => r.2.length)).sum : Nat) : Rat))) := by
    apply List.map_congr_left
    intro r hr'
    have : r.2.map (fun args => weightU (uniformU G) (e.1, r.1, args))
        = r.2.map (fun _ => 1 / (((e.2.map (fun r => r.2.length)).sum : Nat) : Rat)) :=
      List.map_congr_left (fun args ha => weightU_uniformU G hk e he hnd r hr' args ha)
    rw [this, sum_map_const]
  rw [h1, sum_map_mul_right, ← natCast_sum]
  apply natCast_mul_one_div
  intro h0
  have hle : r0.2.length ≤ (e.2.map (fun r => r.2.length)).sum :=
    le_sum_of_mem (List.mem_map.mpr ⟨r0, hr0, rfl⟩)
  have : r0.2.length = 0 := by omega
  exact hne0 (List.length_eq_zero_iff.mp this)

/-! ### V2 uniform start weights -/

theorem uniformU_starts (G : UCFG U) (hs : G.starts.Nodup) (hne : G.starts ≠ []) :
    (G.starts.map (startWeight (uniformU G))).sum = 1 := by
  have _ := hs
  have h1 : G.starts.map (startWeight (uniformU G))
      = G.starts.map (fun _ => 1 / (G.starts.length : Rat)) := by
    apply List.map_congr_left
    intro s hs'
    simp only [startWeight, uniformU, lookup_foldl_insert_const_nil, hs', if_true, Option.getD_some]
  rw [h1, sum_map_const]
  exact natCast_mul_one_div _ (fun h => hne (List.length_eq_zero_iff.mp h))

/-! ### V3 `normaliseU` -/

omit [DecidableEq U] in
theorem rowSumU_normaliseRow (d : AList Sym (AList (List (UNT U)) Rat)) (s : Rat) :
    rowSumU (d.map (fun r => (r.1, r.2.map (fun a => (a.1, a.2 / s))))) = rowSumU d / s := by
  simp only [rowSumU, altSum, List.map_map, Function.comp_def]
  rw [← sum_map_div]
  congr 1
  apply List.map_congr_left
  intro r _
  exact sum_map_div r.2 (fun a => a.2) s

omit [DecidableEq U] in
theorem rowSumU_normaliseU (tg : UTags U) :
    ∀ e ∈ (normaliseU tg).tags, ∃ e' ∈ tg.tags, e.1 = e'.1 ∧ (rowSumU e'.2 ≠ 0 → rowSumU e.2 = 1) := by
  intro e he
  obtain ⟨e', he', rfl⟩ := List.mem_map.mp he
  refine ⟨e', he', rfl, ?_⟩
  intro h
  simp only
  rw [rowSumU_normaliseRow, Rat_div_self' _ h]

omit [DecidableEq U] in
theorem startSum_normaliseU (tg : UTags U) (h : (tg.startTags.map (·.2)).sum ≠ 0) :
    ((normaliseU tg).startTags.map (·.2)).sum = 1 := by
  simp only [normaliseU, List.map_map, Function.comp_def]
  rw [sum_map_div tg.startTags (fun e => e.2), Rat_div_self' _ h]

/-! ### V4 the counter against the enumeration -/

theorem prod_eq_foldl (l : List Nat) : l.prod = l.foldl (· * ·) 1 := by
  induction l with
  | nil => rfl
  | cons x xs ih =>
    rw [List.prod_cons, List.foldl_cons, Nat.one_mul, foldl_mul_init x, ih]

theorem countU_eq_length (G : UCFG U) (k : Nat) (nt : UNT U) :
    countU G k nt = (langU G k nt).length := by
  induction k generalizing nt with
  | zero => simp [countU, langU]
  | succ k ih =>
    simp only [countU, langU]
    cases AList.lookup nt G.rules with
    | none => simp
    | some rs =>
      simp only [List.length_flatMap, List.length_map, product_length, List.map_map, prod_eq_foldl]
      congr 1
      apply List.map_congr_left
      intro r _
      congr 1
      apply List.map_congr_left
      intro a _
      simp [ih, Function.comp_def]

/-! ### V5 `UCFG.programs()` and its memo table -/

/-- the counter does not change once the budget covers every derivation -/
theorem countU_stable (G : UCFG U) (j : Nat) : ∀ (a : UNT U) (j' : Nat),
    boundedU G j a = true → j ≤ j' → countU G j' a = countU G j a := by
  induction j with
  | zero => intro a j' hb; simp [boundedU] at hb
  | succ j ih =>
    intro a j' hb hle
    obtain ⟨j'', rfl⟩ : ∃ j'', j' = j'' + 1 := ⟨j' - 1, by omega⟩
    rw [boundedU] at hb
    rw [countU, countU]
    cases hl : AList.lookup a G.rules with
    | none => rfl
    | some rs =>
      rw [hl] at hb
      simp only [List.all_eq_true] at hb
      simp only
      congr 1
      apply List.map_congr_left
      intro r hr
      congr 1
      apply List.map_congr_left
      intro args hargs
      congr 1
      apply List.map_congr_left
      intro x hx
      exact ih x j'' (hb r hr args hargs x hx) (by omega)

theorem countU_bounded_eq (G : UCFG U) (j j' : Nat) (a : UNT U)
    (h : boundedU G j a = true) (h' : boundedU G j' a = true) : countU G j a = countU G j' a := by
  rcases Nat.le_total j j' with hle | hle
  · exact (countU_stable G j a j' h hle).symm
  · exact countU_stable G j' a j h' hle

/-- every memo entry is the count of a bounded state -/
def MemoOK (G : UCFG U) (memo : Memo U) : Prop :=
  ∀ a c, AList.lookup a memo = some c → ∃ j, boundedU G j a = true ∧ c = countU G j a

/-- the specification of one call of `__compute__`, on the states satisfying `P` -/
def CallSpec (G : UCFG U) (cf : UNT U → Memo U → Option (Nat × Memo U)) (P : UNT U → Prop)
    (f : UNT U → Nat) : Prop :=
  ∀ a memo c memo', P a → MemoOK G memo → cf a memo = some (c, memo') → c = f a ∧ MemoOK G memo'

theorem computeArgs_spec (G : UCFG U) (cf : UNT U → Memo U → Option (Nat × Memo U))
    (P : UNT U → Prop) (f : UNT U → Nat) (hc : CallSpec G cf P f) :
    ∀ (args : List (UNT U)) (loc : Nat) (memo : Memo U) (n : Nat) (memo' : Memo U),
      (∀ a ∈ args, P a) → MemoOK G memo → computeArgs cf args loc memo = some (n, memo') →
      n = loc * (args.map f).prod ∧ MemoOK G memo' := by
  intro args
  induction args with
  | nil =>
    intro loc memo n memo' _ hm h
    simp only [computeArgs, Option.some.injEq, Prod.mk.injEq] at h
    obtain ⟨rfl, rfl⟩ := h
    exact ⟨by simp, hm⟩
  | cons a as ih =>
    intro loc memo n memo' hp hm h
    rw [computeArgs] at h
    cases hca : cf a memo with
    | none => rw [hca] at h; simp at h
    | some res =>
      obtain ⟨c, memo1⟩ := res
      rw [hca] at h
      simp only at h
      obtain ⟨rfl, hm1⟩ := hc a memo c memo1 (hp a (by simp)) hm hca
      obtain ⟨rfl, hm2⟩ := ih (loc * f a) memo1 n memo' (fun x hx => hp x (by simp [hx])) hm1 h
      exact ⟨by simp [Nat.mul_assoc], hm2⟩

theorem computeRules_spec (G : UCFG U) (cf : UNT U → Memo U → Option (Nat × Memo U))
    (P : UNT U → Prop) (f : UNT U → Nat) (hc : CallSpec G cf P f) :
    ∀ (alts : List (List (UNT U))) (total : Nat) (memo : Memo U) (n : Nat) (memo' : Memo U),
      (∀ args ∈ alts, ∀ a ∈ args, P a) → MemoOK G memo →
      computeRules cf alts total memo = some (n, memo') →
      n = total + (alts.map (fun args => (args.map f).prod)).sum ∧ MemoOK G memo' := by
  intro alts
  induction alts with
  | nil =>
    intro total memo n memo' _ hm h
    simp only [computeRules, Option.some.injEq, Prod.mk.injEq] at h
    obtain ⟨rfl, rfl⟩ := h
    exact ⟨by simp, hm⟩
  | cons args rest ih =>
    intro total memo n memo' hp hm h
    rw [computeRules] at h
    cases hca : computeArgs cf args 1 memo with
    | none => rw [hca] at h; simp at h
    | some res =>
      obtain ⟨loc, memo1⟩ := res
      rw [hca] at h
      simp only at h
      obtain ⟨rfl, hm1⟩ := computeArgs_spec G cf P f hc args 1 memo loc memo1
        (hp args (by simp)) hm hca
      obtain ⟨rfl, hm2⟩ := ih _ memo1 n memo' (fun x hx => hp x (by simp [hx])) hm1 h
      exact ⟨by simp [Nat.add_assoc], hm2⟩

theorem nat_sum_map_flatMap {α β : Type} (g : α → List β) (h : β → Nat) (l : List α) :
    ((l.flatMap g).map h).sum = (l.map (fun x => ((g x).map h).sum)).sum := by
  induction l with
  | nil => simp
  | cons x xs ih =>
    simp only [List.flatMap_cons, List.map_append, List.sum_append, List.map_cons, List.sum_cons, ih]

/-- `__compute__` on a bounded state returns its number of derivations and keeps the memo
    table correct -/
theorem compute_spec (G : UCFG U) (fuel : Nat) : ∀ (j : Nat),
    CallSpec G (compute G fuel) (fun a => boundedU G j a = true) (countU G j) := by
  induction fuel with
  | zero => intro j a memo c memo' _ _ h; simp [compute] at h
  | succ fuel ih =>
    intro j st memo c memo' hb hm h
    rw [compute] at h
    cases hl : AList.lookup st memo with
    | some c0 =>
      rw [hl] at h
      simp only [Option.some.injEq, Prod.mk.injEq] at h
      obtain ⟨rfl, rfl⟩ := h
      obtain ⟨j0, hb0, rfl⟩ := hm st c0 hl
      exact ⟨countU_bounded_eq G j0 j st hb0 hb, hm⟩
    | none =>
      rw [hl] at h
      simp only at h
      cases j with
      | zero => simp [boundedU] at hb
      | succ j =>
        have hb' := hb
        rw [boundedU] at hb'
        cases hr : AList.lookup st G.rules with
        | none => rw [hr] at hb'; simp at hb'
        | some rs =>
          rw [hr] at hb' h
          simp only [List.all_eq_true] at hb'
          simp only at h
          cases hcr : computeRules (compute G fuel) (rs.flatMap (fun r => r.2)) 0 memo with
          | none => rw [hcr] at h; simp at h
          | some res =>
            obtain ⟨total, memo1⟩ := res
            rw [hcr] at h
            simp only [Option.some.injEq, Prod.mk.injEq] at h
            obtain ⟨rfl, rfl⟩ := h
            obtain ⟨htot, hm1⟩ := computeRules_spec G (compute G fuel)
              (fun a => boundedU G j a = true) (countU G j) (ih j)
              (rs.flatMap (fun r => r.2)) 0 memo total memo1
              (by
                intro args hargs a ha
                obtain ⟨r, hrm, hargs'⟩ := List.mem_flatMap.mp hargs
                exact hb' r hrm args hargs' a ha) hm hcr
            have hcount : total = countU G (j + 1) st := by
              rw [htot, countU, hr, Nat.zero_add, nat_sum_map_flatMap]
            refine ⟨hcount, ?_⟩
            intro a c hlk
            rw [AList.lookup_insert] at hlk
            by_cases hast : a = st
            · rw [if_pos hast] at hlk
              cases hlk
              exact ⟨j + 1, hast ▸ hb, hast ▸ hcount⟩
            · rw [if_neg hast] at hlk
              exact hm1 a c hlk

theorem programsFrom_spec (G : UCFG U) (fuel k : Nat) :
    ∀ (ss : List (UNT U)) (total : Nat) (memo : Memo U) (n : Nat),
      (∀ s ∈ ss, boundedU G k s = true) → MemoOK G memo →
      programsFrom G fuel ss total memo = some n →
      n = total + (ss.map (fun s => countU G k s)).sum := by
  intro ss
  induction ss with
  | nil =>
    intro total memo n _ _ h
    simp only [programsFrom, Option.some.injEq] at h
    simp [h]
  | cons s ss ih =>
    intro total memo n hb hm h
    rw [programsFrom] at h
    cases hc : compute G fuel s memo with
    | none => rw [hc] at h; simp at h
    | some res =>
      obtain ⟨c, memo1⟩ := res
      rw [hc] at h
      simp only at h
      obtain ⟨rfl, hm1⟩ := compute_spec G fuel k s memo c memo1 (hb s (by simp)) hm hc
      rw [ih _ memo1 n (fun x hx => hb x (by simp [hx])) hm1 h]
      simp [Nat.add_assoc]

/-- V5: `UCFG.programs()`: when it returns `n`, and every start symbol is `boundedU` within
    `k`, `n` is the number of derivations from the start symbols -/
theorem programs_eq_countU (G : UCFG U) (fuel n k : Nat) (h : programs G fuel = some n)
    (hb : ∀ s ∈ G.starts, boundedU G k s = true) :
    n = (G.starts.map (fun s => countU G k s)).sum := by
  have hm : MemoOK G ([] : Memo U) := by intro a c hl; simp at hl
  have := programsFrom_spec G fuel k G.starts 0 [] n hb hm h
  simpa using this

/-- … hence the number of entries of the enumeration `langU` from the start symbols -/
theorem programs_eq_length (G : UCFG U) (fuel n k : Nat) (h : programs G fuel = some n)
    (hb : ∀ s ∈ G.starts, boundedU G k s = true) :
    n = (G.starts.map (fun s => (langU G k s).length)).sum := by
  rw [programs_eq_countU G fuel n k h hb]
  congr 1
  apply List.map_congr_left
  intro s _
  exact countU_eq_length G k s

end PS.U.Ops
