/- Probabilistic unambiguous grammars (C04): the operations `ProbUGrammar.uniform`,
   `ProbUGrammar.normalise`, and the counters `countU` / `UCFG.programs()`. -/
import PS.Model.Prob
import PS.Proofs.UMass
import PS.Proofs.ProbDet
namespace PS.U.Ops
open PS PS.G PS.U PS.U.Mass
variable {U : Type} [DecidableEq U]

/-! ### dict comprehension with a constant value -/

theorem lookup_foldl_insert_const {κ ν : Type} [DecidableEq κ] (c : ν) (l : List κ) (v : κ)
    (d0 : AList κ ν) :
    AList.lookup v (l.foldl (fun d v => AList.insert v c d) d0)
      = if v ∈ l then some c else AList.lookup v d0 := by
  induction l generalizing d0 with
  | nil => simp
  | cons x xs ih =>
    rw [List.foldl_cons, ih, AList.lookup_insert]
    by_cases h1 : v ∈ xs
    · simp [h1]
    · by_cases h2 : v = x
      · simp [h2]
      · simp [h1, h2]

theorem lookup_foldl_insert_const_nil {κ ν : Type} [DecidableEq κ] (c : ν) (l : List κ) (v : κ) :
    AList.lookup v (l.foldl (fun d v => AList.insert v c d) ([] : AList κ ν))
      = if v ∈ l then some c else none := by
  rw [lookup_foldl_insert_const]; rfl

/-! ### V1 `uniformU` -/

theorem le_sum_of_mem {n : Nat} {l : List Nat} (h : n ∈ l) : n ≤ l.sum := by
  induction l with
  | nil => cases h
  | cons x xs ih =>
    rw [List.sum_cons]
    rcases List.mem_cons.mp h with h | h
    · omega
    · have := ih h; omega

theorem keys_uniformU (G : UCFG U) : AList.keys (uniformU G).tags = AList.keys G.rules := by
  simp [AList.keys, uniformU, List.map_map, Function.comp_def]

/-- the weight of an alternative in the uniform grammar -/
theorem weightU_uniformU (G : UCFG U) (hk : (AList.keys G.rules).Nodup)
    (e : UNT U × AList Sym (List (List (UNT U)))) (he : e ∈ G.rules)
    (hn : (AList.keys e.2).Nodup) (r : Sym × List (List (UNT U))) (hr : r ∈ e.2)
    (args : List (UNT U)) (ha : args ∈ r.2) :
    weightU (uniformU G) (e.1, r.1, args)
      = 1 / (((e.2.map (fun r => r.2.length)).sum : Nat) : Rat) := by
  have h1 : AList.lookup e.1 (uniformU G).tags
      = some (e.2.map (fun r => (r.1, r.2.foldl (fun d v => AList.insert v
          (1 / (((e.2.map (fun r => r.2.length)).sum : Nat) : Rat)) d) []))) := by
    apply AList.lookup_of_mem_nodup
    · rw [keys_uniformU]; exact hk
    · exact List.mem_map.mpr ⟨e, he, rfl⟩
  have h2 : AList.lookup r.1 (e.2.map (fun r => (r.1, r.2.foldl (fun d v => AList.insert v
          (1 / (((e.2.map (fun r => r.2.length)).sum : Nat) : Rat)) d)
            ([] : AList (List (UNT U)) Rat))))
      = some (r.2.foldl (fun d v => AList.insert v
          (1 / (((e.2.map (fun r => r.2.length)).sum : Nat) : Rat)) d) []) := by
    apply AList.lookup_of_mem_nodup
    · simpa [AList.keys, List.map_map, Function.comp_def] using hn
    · exact List.mem_map.mpr ⟨r, hr, rfl⟩
  simp only [weightU, tagOfU, h1, h2, lookup_foldl_insert_const_nil, ha, if_true, Option.getD_some]

theorem uniformU_normalised (G : UCFG U) (hk : (AList.keys G.rules).Nodup)
    (hr : ∀ e ∈ G.rules, (AList.keys e.2).Nodup ∧ (∃ r ∈ e.2, r.2 ≠ []) ∧ ∀ r ∈ e.2, r.2.Nodup) :
    NormalisedU G (uniformU G) := by
  intro e he
  obtain ⟨hnd, ⟨r0, hr0, hne0⟩, _⟩ := hr e he
  refine ⟨?_, hnd⟩
  have h1 : e.2.map (fun r => (r.2.map (fun args => weightU (uniformU G) (e.1, r.1, args))).sum)
      = e.2.map (fun r => ((r.2.length : Nat) : Rat)
          * (1 / (((e.2.map (fun r => r.2.length)).sum : Nat) : Rat))) := by
    apply List.map_congr_left
    intro r hr'
    have : r.2.map (fun args => weightU (uniformU G) (e.1, r.1, args))
        = r.2.map (fun _ => 1 / (((e.2.map (fun r => r.2.length)).sum : Nat) : Rat)) :=
      List.map_congr_left (fun args ha => weightU_uniformU G hk e he hnd r hr' args ha)
    rw [this, sum_map_const]
  rw [h1, sum_map_mul_right, ← natCast_sum]
  apply natCast_mul_one_div
  intro h0
  have hle : r0.2.length ≤ (e.2.map (fun r => r.2.length)).sum :=
    le_sum_of_mem (List.mem_map.mpr ⟨r0, hr0, rfl⟩)
  have : r0.2.length = 0 := by omega
  exact hne0 (List.length_eq_zero_iff.mp this)

/-! ### V2 uniform start weights -/

theorem uniformU_starts (G : UCFG U) (hs : G.starts.Nodup) (hne : G.starts ≠ []) :
    (G.starts.map (startWeight (uniformU G))).sum = 1 := by
  have _ := hs
  have h1 : G.starts.map (startWeight (uniformU G))
      = G.starts.map (fun _ => 1 / (G.starts.length : Rat)) := by
    apply List.map_congr_left
    intro s hs'
    simp only [startWeight, uniformU, lookup_foldl_insert_const_nil, hs', if_true, Option.getD_some]
  rw [h1, sum_map_const]
  exact natCast_mul_one_div _ (fun h => hne (List.length_eq_zero_iff.mp h))

/-! ### V3 `normaliseU` -/

omit [DecidableEq U] in
theorem rowSumU_normaliseRow (d : AList Sym (AList (List (UNT U)) Rat)) (s : Rat) :
    rowSumU (d.map (fun r => (r.1, r.2.map (fun a => (a.1, a.2 / s))))) = rowSumU d / s := by
  simp only [rowSumU, altSum, List.map_map, Function.comp_def]
  rw [← sum_map_div]
  congr 1
  apply List.map_congr_left
  intro r _
  exact sum_map_div r.2 (fun a => a.2) s

theorem rowSumU_normaliseU (tg : UTags U) :
    ∀ e ∈ (normaliseU tg).tags, ∃ e' ∈ tg.tags, e.1 = e'.1 ∧ (rowSumU e'.2 ≠ 0 → rowSumU e.2 = 1) := by
  intro e he
  obtain ⟨e', he', rfl⟩ := List.mem_map.mp he
  refine ⟨e', he', rfl, ?_⟩
  intro h
  simp only
  rw [rowSumU_normaliseRow, Rat_div_self' _ h]

omit [DecidableEq U] in
theorem startSum_normaliseU (tg : UTags U) (h : (tg.startTags.map (·.2)).sum ≠ 0) :
    ((normaliseU tg).startTags.map (·.2)).sum = 1 := by
  simp only [normaliseU, List.map_map, Function.comp_def]
  rw [sum_map_div tg.startTags (fun e => e.2), Rat_div_self' _ h]

/-! ### V4 the counter against the enumeration -/

theorem prod_eq_foldl (l : List Nat) : l.prod = l.foldl (· * ·) 1 := by
  induction l with
  | nil => rfl
  | cons x xs ih =>
    rw [List.prod_cons, List.foldl_cons, Nat.one_mul, foldl_mul_init x, ih]

theorem countU_eq_length (G : UCFG U) (k : Nat) (nt : UNT U) :
    countU G k nt = (langU G k nt).length := by
  induction k generalizing nt with
  | zero => simp [countU, langU]
  | succ k ih =>
    simp only [countU, langU]
    cases AList.lookup nt G.rules with
    | none => simp
    | some rs =>
      simp only [List.length_flatMap, List.length_map, product_length, List.map_map, prod_eq_foldl]
      congr 1
      apply List.map_congr_left
      intro r _
      congr 1
      apply List.map_congr_left
      intro a _
      simp [ih, Function.comp_def]

end PS.U.Ops
