/-
  `minimise` (PS/Model/Dfta.lean, tree_automaton.py:223-315): the partition refinement loop.

  Part 1 (this file): the loop invariant `PInv`, the fix-point property `Fix` of the partition
  a finished pass leaves behind, "fix-point ⇒ the congruence certificate holds", and
  termination (every pass that is not the last one creates a class; classes ≥ 2 are non-empty
  and disjoint, so there are at most `|states| + 2` of them).

  Everything is relative to a relation `E` on states that the equivalence test respects
  (`Compat`): the invariant says that `E`-related states are never separated.  With `E := Eq`
  this is vacuous (language preservation, termination); with `E :=` Myhill–Nerode equivalence
  (PS/Proofs/DftaMinimal.lean) it gives minimality.
-/
import PS.Proofs.DftaQuot
set_option linter.unusedSectionVars false
namespace PS
namespace DFTA
variable {σ Q X : Type} [DecidableEq σ] [DecidableEq Q] [DecidableEq X]

/-! ### small facts about the tables -/

theorem lookup_foldl_insert (L : List Q) (n : Nat) (d : AList Q Nat) (x : Q) :
    AList.lookup x (L.foldl (fun d q => AList.insert q n d) d) =
      if x ∈ L then some n else AList.lookup x d := by
  induction L generalizing d with
  | nil => simp
  | cons a L ih =>
    rw [List.foldl_cons, ih, AList.lookup_insert]
    by_cases h1 : x ∈ L
    · simp [h1]
    · by_cases h2 : x = a
      · simp [h2]
      · simp [h1, h2]

theorem mem_consumers_iff (A : DFTA σ Q) (q : Q) (S : σ × List Q) (k : Nat) :
    (S, k) ∈ consumers A q ↔ (∃ d, (S, d) ∈ A.rules) ∧ S.2[k]? = some q := by
  unfold consumers
  simp only [List.mem_flatMap, List.mem_filterMap, List.mem_range]
  constructor
  · rintro ⟨rule, hr, k', hk', h⟩
    split at h
    · rename_i hq
      simp only [Option.some.injEq, Prod.mk.injEq] at h
      obtain ⟨e1, e2⟩ := h
      subst e1; subst e2
      exact ⟨⟨rule.2, hr⟩, hq⟩
    · cases h
  · rintro ⟨⟨d, hr⟩, hq⟩
    refine ⟨(S, d), hr, k, ?_, ?_⟩
    · by_contra hlt
      rw [List.getElem?_eq_none (by simpa using hlt)] at hq
      cases hq
    · simp [hq]

theorem lookup_isSome_of_mem {κ ν : Type} [DecidableEq κ] {k : κ} {v : ν} {d : AList κ ν}
    (h : (k, v) ∈ d) : ∃ v', AList.lookup k d = some v' := by
  have : (AList.lookup k d).isSome := by
    rw [AList.lookup_isSome_iff_mem_keys]
    exact List.mem_map.mpr ⟨(k, v), h, rfl⟩
  exact Option.isSome_iff_exists.mp this

theorem halfEquivalent_iff (A : DFTA σ Q) (s2c : AList Q Nat) (a b : Q) :
    halfEquivalent A s2c a b = true ↔
      ∀ S k, (S, k) ∈ consumers A a → ∃ out, AList.lookup (S.1, S.2.set k b) A.rules = some out ∧
        AList.lookup out s2c = clsOfKey A s2c S := by
  unfold halfEquivalent
  rw [List.all_eq_true]
  constructor
  · intro h S k hm
    have := h (S, k) hm
    simp only at this
    cases hl : AList.lookup (S.1, S.2.set k b) A.rules with
    | none => rw [hl] at this; cases this
    | some out =>
      rw [hl] at this
      exact ⟨out, rfl, by simpa using this⟩
  · rintro h ⟨S, k⟩ hm
    obtain ⟨out, h1, h2⟩ := h S k hm
    simp only [h1, h2, beq_self_eq_true]

theorem areEquivalent_refl (A : DFTA σ Q) (s2c : AList Q Nat) (r : Q) :
    areEquivalent A s2c r r = true := by
  have : halfEquivalent A s2c r r = true := by
    rw [halfEquivalent_iff]
    intro S k hm
    obtain ⟨⟨d, hr⟩, hk⟩ := (mem_consumers_iff A r S k).mp hm
    obtain ⟨d', hd'⟩ := lookup_isSome_of_mem hr
    have hset : S.2.set k r = S.2 := by
      have hlt : k < S.2.length := by
        by_contra hlt
        rw [List.getElem?_eq_none (by simpa using hlt)] at hk
        cases hk
      have := List.getElem?_eq_some_iff.mp hk
      obtain ⟨_, e⟩ := this
      rw [← e]; exact List.set_getElem_self hlt
    refine ⟨d', by rw [hset]; exact hd', ?_⟩
    unfold clsOfKey
    rw [hd']; rfl
  unfold areEquivalent
  rw [this]; rfl

/-! ### the invariant -/

/-- `E`-related states have the same class -/
def Resp (E : Q → Q → Prop) (s2c : AList Q Nat) : Prop :=
  ∀ q q', E q q' → AList.lookup q s2c = AList.lookup q' s2c

/-- the equivalence test of the refinement loop does not separate `E`-related states as long
    as the current partition does not -/
def Compat (A : DFTA σ Q) (E : Q → Q → Prop) : Prop :=
  ∀ s2c, Resp E s2c → ∀ r q q', E q q' → areEquivalent A s2c r q = areEquivalent A s2c r q'

theorem compat_eq (A : DFTA σ Q) : Compat A (fun q q' => q = q') := by
  intro s2c _ r q q' e; subst e; rfl

/-- what is true of class `j` of the partition -/
def ClsOK (st : MinState Q) (j : Nat) : Prop :=
  ∃ cls, AList.lookup j st.c2s = some cls ∧ (∀ q, q ∈ cls ↔ AList.lookup q st.s2c = some j) ∧
    (2 ≤ j → cls ≠ [])

/-- the part of the invariant that only speaks about `state2cls` -/
structure SInv (A : DFTA σ Q) (E : Q → Q → Prop) (st : MinState Q) : Prop where
  keys : ∀ q, (AList.lookup q st.s2c).isSome ↔ q ∈ A.states
  bound : ∀ q i, AList.lookup q st.s2c = some i → i ≤ st.n
  fin : ∀ q q' i, AList.lookup q st.s2c = some i → AList.lookup q' st.s2c = some i →
    (q ∈ A.finals ↔ q' ∈ A.finals)
  resp : Resp E st.s2c

/-- invariant of `while not finished` (between passes and between classes of a pass) -/
structure PInv (A : DFTA σ Q) (E : Q → Q → Prop) (st : MinState Q) : Prop extends SInv A E st where
  cls : ∀ j, j ≤ st.n → ClsOK st j

/-- invariant of `while cls:` for class `i`: `cls` is what is left of the class -/
structure LInv (A : DFTA σ Q) (E : Q → Q → Prop) (i : Nat) (cls : List Q) (st : MinState Q) : Prop
    extends SInv A E st where
  hi : i ≤ st.n
  others : ∀ j, j ≤ st.n → j ≠ i → ClsOK st j
  cur : ∀ q, q ∈ cls ↔ AList.lookup q st.s2c = some i
  ne : cls ≠ []

/-! ### one round of `while cls:` -/

/-- the members of the class of the representative `rep` that stay with it -/
def splitSame (A : DFTA σ Q) (st : MinState Q) (rep : Q) (rest : List Q) : List Q :=
  rest.filter (fun q => areEquivalent A st.s2c rep q)

/-- the members that are split off -/
def splitNext (A : DFTA σ Q) (st : MinState Q) (rep : Q) (rest : List Q) : List Q :=
  rest.filter (fun q => !areEquivalent A st.s2c rep q)

/-- the state after a split: `rep` and its equivalents get the fresh class `n + 1` -/
def splitState (A : DFTA σ Q) (st : MinState Q) (rep : Q) (rest : List Q) : MinState Q :=
  { s2c := (rep :: splitSame A st rep rest).foldl (fun d q => AList.insert q (st.n + 1) d) st.s2c
    c2s := AList.insert (st.n + 1) (rep :: splitSame A st rep rest) st.c2s
    n := st.n + 1, finished := false }

/-- the state when nothing is left to split off: class `i` is re-set -/
def doneState (A : DFTA σ Q) (i : Nat) (st : MinState Q) (rep : Q) (rest : List Q) : MinState Q :=
  { st with c2s := AList.insert i (rep :: splitSame A st rep rest) st.c2s }

theorem splitLoop_succ (A : DFTA σ Q) (i fuel : Nat) (rest : List Q) (rep : Q) (st : MinState Q) :
    splitLoop A i (fuel + 1) (rest ++ [rep]) st =
      if splitNext A st rep rest ≠ [] then
        splitLoop A i fuel (splitNext A st rep rest) (splitState A st rep rest)
      else doneState A i st rep rest := by
  rw [splitLoop]
  simp only [List.getLast?_concat, List.dropLast_concat]
  rfl

theorem splitLoop_nil (A : DFTA σ Q) (i fuel : Nat) (st : MinState Q) :
    splitLoop A i fuel [] st = st := by
  cases fuel <;> rw [splitLoop]
  rfl

theorem s2c_splitState (A : DFTA σ Q) (st : MinState Q) (rep : Q) (rest : List Q) (x : Q) :
    AList.lookup x (splitState A st rep rest).s2c =
      if x = rep ∨ (x ∈ rest ∧ areEquivalent A st.s2c rep x = true) then some (st.n + 1)
      else AList.lookup x st.s2c := by
  unfold splitState
  simp only [lookup_foldl_insert, splitSame, List.mem_cons, List.mem_filter]

/-- who gets the fresh class in a split -/
def Moves (A : DFTA σ Q) (st : MinState Q) (rep : Q) (rest : List Q) (x : Q) : Prop :=
  x = rep ∨ (x ∈ rest ∧ areEquivalent A st.s2c rep x = true)

theorem moves_iff (A : DFTA σ Q) (E : Q → Q → Prop) (hE : Compat A E) (i : Nat) (st : MinState Q)
    (rep : Q) (rest : List Q) (h : LInv A E i (rest ++ [rep]) st) (q q' : Q) (e : E q q') :
    Moves A st rep rest q ↔ Moves A st rep rest q' := by
  have hcur : ∀ x, (x ∈ rest ∨ x = rep) ↔ AList.lookup x st.s2c = some i := by
    intro x; have := h.cur x; simpa using this
  have hP : ∀ x, Moves A st rep rest x → AList.lookup x st.s2c = some i := by
    rintro x (e | ⟨e, _⟩)
    · exact (hcur x).mp (Or.inr e)
    · exact (hcur x).mp (Or.inl e)
  have hs := h.resp q q' e
  have hc := hE st.s2c h.resp rep q q' e
  have hM : ∀ x, Moves A st rep rest x → areEquivalent A st.s2c rep x = true := by
    rintro x (e1 | ⟨_, e1⟩)
    · rw [e1]; exact areEquivalent_refl A _ _
    · exact e1
  constructor
  · intro hp
    have h2 := hP q hp
    rw [hs] at h2
    rcases (hcur q').mpr h2 with m | m
    · exact Or.inr ⟨m, by rw [← hc]; exact hM q hp⟩
    · exact Or.inl m
  · intro hp
    have h2 := hP q' hp
    rw [← hs] at h2
    rcases (hcur q).mpr h2 with m | m
    · exact Or.inr ⟨m, by rw [hc]; exact hM q' hp⟩
    · exact Or.inl m

theorem linv_split (A : DFTA σ Q) (E : Q → Q → Prop) (hE : Compat A E) (i : Nat) (st : MinState Q)
    (rep : Q) (rest : List Q) (h : LInv A E i (rest ++ [rep]) st)
    (hne : splitNext A st rep rest ≠ []) :
    LInv A E i (splitNext A st rep rest) (splitState A st rep rest) := by
  have hcur : ∀ x, (x ∈ rest ∨ x = rep) ↔ AList.lookup x st.s2c = some i := by
    intro x; have := h.cur x; simpa using this
  have hP : ∀ x, (x = rep ∨ (x ∈ rest ∧ areEquivalent A st.s2c rep x = true)) →
      AList.lookup x st.s2c = some i := by
    rintro x (e | ⟨e, _⟩)
    · exact (hcur x).mp (Or.inr e)
    · exact (hcur x).mp (Or.inl e)
  have hn1 : (splitState A st rep rest).n = st.n + 1 := rfl
  refine { keys := ?_, bound := ?_, fin := ?_, resp := ?_, hi := ?_, others := ?_, cur := ?_, ne := hne }
  · intro q
    rw [s2c_splitState]
    split
    · rename_i hp
      have := hP q hp
      rw [← h.keys q, this]; simp
    · exact h.keys q
  · intro q j hj
    rw [s2c_splitState] at hj
    rw [hn1]
    split at hj
    · cases hj; exact Nat.le_refl _
    · exact Nat.le_succ_of_le (h.bound q j hj)
  · intro q q' j hq hq'
    rw [s2c_splitState] at hq hq'
    split at hq
    · rename_i hp
      cases hq
      split at hq'
      · rename_i hp'
        exact h.fin q q' i (hP q hp) (hP q' hp')
      · have := h.bound q' _ hq'; omega
    · split at hq'
      · cases hq'; have := h.bound q _ hq; omega
      · exact h.fin q q' j hq hq'
  · intro q q' e
    rw [s2c_splitState, s2c_splitState]
    have hs := h.resp q q' e
    have hiff := moves_iff A E hE i st rep rest h q q' e
    unfold Moves at hiff
    by_cases hp : q = rep ∨ (q ∈ rest ∧ areEquivalent A st.s2c rep q = true)
    · rw [if_pos hp, if_pos (hiff.mp hp)]
    · rw [if_neg hp, if_neg (fun h' => hp (hiff.mpr h')), hs]
  · rw [hn1]; exact Nat.le_succ_of_le h.hi
  · intro j hj hji
    rw [hn1] at hj
    by_cases hjn : j = st.n + 1
    · subst hjn
      refine ⟨rep :: splitSame A st rep rest, ?_, ?_, fun _ => List.cons_ne_nil _ _⟩
      · exact AList.lookup_insert_self _ _ _
      · intro q
        rw [s2c_splitState]
        simp only [splitSame, List.mem_cons, List.mem_filter]
        split
        · rename_i hp; simp only [iff_true]; exact hp
        · rename_i hp
          constructor
          · intro hx; exact absurd hx hp
          · intro hx; have := h.bound q _ hx; omega
    · obtain ⟨cls, h1, h2, h3⟩ := h.others j (by omega) hji
      refine ⟨cls, ?_, ?_, h3⟩
      · show AList.lookup j (AList.insert _ _ _) = _
        rw [AList.lookup_insert_ne _ _ hjn]; exact h1
      · intro q
        rw [h2 q, s2c_splitState]
        split
        · rename_i hp
          have := hP q hp
          rw [this]
          constructor
          · intro e; cases e; exact absurd rfl hji
          · intro e; cases e; exact absurd rfl hjn
        · rfl
  · intro q
    rw [s2c_splitState]
    simp only [splitNext, List.mem_filter]
    split
    · rename_i hp
      have hrefl := areEquivalent_refl A st.s2c rep
      constructor
      · rintro ⟨hm, hne⟩
        rcases hp with e | ⟨_, e⟩
        · subst e; rw [hrefl] at hne; cases hne
        · rw [e] at hne; cases hne
      · intro e; cases e; have := h.hi; omega
    · rename_i hp
      rw [← hcur q]
      constructor
      · rintro ⟨hm, _⟩; exact Or.inl hm
      · intro hm
        rcases hm with hm | hm
        · refine ⟨hm, ?_⟩
          cases hq : areEquivalent A st.s2c rep q
          · rfl
          · exact absurd (Or.inr ⟨hm, hq⟩) hp
        · exact absurd (Or.inl hm) hp

theorem splitNext_nil_iff (A : DFTA σ Q) (st : MinState Q) (rep : Q) (rest : List Q) :
    splitNext A st rep rest = [] ↔ ∀ q ∈ rest, areEquivalent A st.s2c rep q = true := by
  unfold splitNext
  rw [List.filter_eq_nil_iff]
  constructor
  · intro h q hq
    have := h q hq
    cases he : areEquivalent A st.s2c rep q
    · rw [he] at this; exact absurd rfl this
    · rfl
  · intro h q hq
    rw [h q hq]; simp

theorem pinv_done (A : DFTA σ Q) (E : Q → Q → Prop) (i : Nat) (st : MinState Q)
    (rep : Q) (rest : List Q) (h : LInv A E i (rest ++ [rep]) st)
    (hn : splitNext A st rep rest = []) :
    PInv A E (doneState A i st rep rest) := by
  have hcur : ∀ x, (x ∈ rest ∨ x = rep) ↔ AList.lookup x st.s2c = some i := by
    intro x; have := h.cur x; simpa using this
  have hall := (splitNext_nil_iff A st rep rest).mp hn
  refine { keys := h.keys, bound := h.bound, fin := h.fin, resp := h.resp, cls := ?_ }
  intro j hj
  by_cases hji : j = i
  · subst hji
    refine ⟨rep :: splitSame A st rep rest, AList.lookup_insert_self _ _ _, ?_, fun _ => List.cons_ne_nil _ _⟩
    intro q
    show _ ↔ AList.lookup q st.s2c = some j
    rw [← hcur q]
    simp only [splitSame, List.mem_cons, List.mem_filter]
    constructor
    · rintro (e | ⟨e, _⟩)
      · exact Or.inr e
      · exact Or.inl e
    · rintro (e | e)
      · exact Or.inr ⟨e, hall q e⟩
      · exact Or.inl e
  · obtain ⟨cls, h1, h2, h3⟩ := h.others j hj hji
    refine ⟨cls, ?_, h2, h3⟩
    show AList.lookup j (AList.insert _ _ _) = _
    rw [AList.lookup_insert_ne _ _ hji]; exact h1

/-- the `while cls:` loop re-establishes the invariant -/
theorem splitLoop_inv (A : DFTA σ Q) (E : Q → Q → Prop) (hE : Compat A E) (i : Nat) :
    ∀ fuel cls st, cls.length ≤ fuel → LInv A E i cls st → PInv A E (splitLoop A i fuel cls st) := by
  intro fuel
  induction fuel with
  | zero =>
    intro cls st hl h
    exact absurd (List.eq_nil_of_length_eq_zero (Nat.le_zero.mp hl)) h.ne
  | succ fuel ih =>
    intro cls st hl h
    obtain ⟨rest, rep, e⟩ : ∃ rest rep, cls = rest ++ [rep] := by
      have := List.dropLast_append_getLast h.ne
      exact ⟨_, _, this.symm⟩
    subst e
    rw [splitLoop_succ]
    split
    · rename_i hne
      apply ih _ _ _ (linv_split A E hE i st rep rest h hne)
      have : (splitNext A st rep rest).length ≤ rest.length := List.length_filter_le _ _
      simp only [List.length_append, List.length_cons, List.length_nil] at hl
      omega
    · rename_i hn
      exact pinv_done A E i st rep rest h (by simpa using hn)

/-- … started on a class of a valid partition -/
theorem splitLoop_pinv (A : DFTA σ Q) (E : Q → Q → Prop) (hE : Compat A E) (i : Nat)
    (st : MinState Q) (h : PInv A E st) (hi : i ≤ st.n) :
    PInv A E (splitLoop A i (((AList.lookup i st.c2s).getD []).length + 1)
      ((AList.lookup i st.c2s).getD []) st) := by
  obtain ⟨cls, h1, h2, h3⟩ := h.cls i hi
  rw [h1]
  simp only [Option.getD_some]
  by_cases hc : cls = []
  · subst hc; rw [splitLoop_nil]; exact h
  · apply splitLoop_inv A E hE i _ _ _ (Nat.le_succ _)
    exact { keys := h.keys, bound := h.bound, fin := h.fin, resp := h.resp, hi := hi,
            others := fun j hj _ => h.cls j hj, cur := h2, ne := hc }

/-! ### `n` and `finished` -/

theorem splitLoop_track (A : DFTA σ Q) (i : Nat) : ∀ fuel cls st,
    st.n ≤ (splitLoop A i fuel cls st).n ∧
    ((splitLoop A i fuel cls st).finished = false →
        st.finished = false ∨ st.n < (splitLoop A i fuel cls st).n) ∧
    (st.finished = false → (splitLoop A i fuel cls st).finished = false) := by
  intro fuel
  induction fuel with
  | zero => intro cls st; rw [splitLoop]; exact ⟨Nat.le_refl _, fun h => Or.inl h, fun h => h⟩
  | succ fuel ih =>
    intro cls st
    rcases List.eq_nil_or_concat cls with e | ⟨rest, rep, e⟩
    · subst e; rw [splitLoop_nil]; exact ⟨Nat.le_refl _, fun h => Or.inl h, fun h => h⟩
    · rw [List.concat_eq_append] at e
      subst e
      rw [splitLoop_succ]
      split
      · obtain ⟨h1, _, h3⟩ := ih (splitNext A st rep rest) (splitState A st rep rest)
        have hn : (splitState A st rep rest).n = st.n + 1 := rfl
        rw [hn] at h1
        exact ⟨by omega, fun _ => Or.inr (by omega), fun _ => h3 rfl⟩
      · exact ⟨Nat.le_refl _, fun h => Or.inl h, fun h => h⟩

/-- a round that leaves `finished` set did not split -/
theorem splitLoop_finished (A : DFTA σ Q) (i fuel : Nat) (rest : List Q) (rep : Q) (st : MinState Q)
    (h : (splitLoop A i (fuel + 1) (rest ++ [rep]) st).finished = true) :
    splitLoop A i (fuel + 1) (rest ++ [rep]) st = doneState A i st rep rest ∧
      splitNext A st rep rest = [] := by
  rw [splitLoop_succ] at h ⊢
  split
  · rename_i hne
    rw [if_pos hne] at h
    have := (splitLoop_track A i fuel (splitNext A st rep rest) (splitState A st rep rest)).2.2 rfl
    rw [this] at h; cases h
  · rename_i hn
    exact ⟨rfl, by simpa using hn⟩

/-- class `i` passes the test of the last pass: all its members are `are_equivalent` to one
    representative -/
def FixAt (A : DFTA σ Q) (s2c : AList Q Nat) (i : Nat) : Prop :=
  ∀ q, AList.lookup q s2c = some i →
    ∃ rep, ∀ q', AList.lookup q' s2c = some i → areEquivalent A s2c rep q' = true

def Fix (A : DFTA σ Q) (st : MinState Q) : Prop := ∀ i, FixAt A st.s2c i

/-- the body of `for i in range(n + 1)` -/
def passStep (A : DFTA σ Q) (st : MinState Q) (i : Nat) : MinState Q :=
  splitLoop A i (((AList.lookup i st.c2s).getD []).length + 1) ((AList.lookup i st.c2s).getD []) st

theorem minPass_eq (A : DFTA σ Q) (st : MinState Q) :
    minPass A st = (List.range (st.n + 1)).foldl (passStep A) { st with finished := true } := rfl

theorem passStep_fix (A : DFTA σ Q) (E : Q → Q → Prop) (i : Nat) (st : MinState Q)
    (h : PInv A E st) (hi : i ≤ st.n) (hf : (passStep A st i).finished = true) :
    st.finished = true ∧ (passStep A st i).s2c = st.s2c ∧ (passStep A st i).n = st.n ∧
      FixAt A st.s2c i := by
  unfold passStep at hf ⊢
  obtain ⟨cls, h1, h2, _⟩ := h.cls i hi
  rw [h1] at hf ⊢
  simp only [Option.getD_some] at hf ⊢
  rcases List.eq_nil_or_concat cls with e | ⟨rest, rep, e⟩
  · subst e
    rw [splitLoop_nil] at hf ⊢
    refine ⟨hf, rfl, rfl, ?_⟩
    intro q hq
    exact absurd ((h2 q).mpr hq) (List.not_mem_nil)
  · rw [List.concat_eq_append] at e
    subst e
    rw [List.length_append, List.length_singleton] at hf ⊢
    obtain ⟨e1, e2⟩ := splitLoop_finished A i _ rest rep st hf
    rw [e1] at hf ⊢
    refine ⟨hf, rfl, rfl, ?_⟩
    have hall := (splitNext_nil_iff A st rep rest).mp e2
    intro q _
    refine ⟨rep, ?_⟩
    intro q' hq'
    rcases List.mem_append.mp ((h2 q').mpr hq') with m | m
    · exact hall q' m
    · rw [List.mem_singleton.mp m]; exact areEquivalent_refl A _ _

theorem foldl_passStep (A : DFTA σ Q) (E : Q → Q → Prop) (hE : Compat A E) :
    ∀ (is : List Nat) (st : MinState Q), PInv A E st → (∀ i ∈ is, i ≤ st.n) →
      PInv A E (is.foldl (passStep A) st) ∧ st.n ≤ (is.foldl (passStep A) st).n ∧
      ((is.foldl (passStep A) st).finished = false →
        st.finished = false ∨ st.n < (is.foldl (passStep A) st).n) ∧
      ((is.foldl (passStep A) st).finished = true →
        st.finished = true ∧ (is.foldl (passStep A) st).s2c = st.s2c ∧
        (is.foldl (passStep A) st).n = st.n ∧ ∀ i ∈ is, FixAt A st.s2c i) := by
  intro is
  induction is with
  | nil =>
    intro st h _
    exact ⟨h, Nat.le_refl _, fun h => Or.inl h, fun h => ⟨h, rfl, rfl, fun _ hi => absurd hi List.not_mem_nil⟩⟩
  | cons i is ih =>
    intro st h hle
    rw [List.foldl_cons]
    have hi := hle i List.mem_cons_self
    have hp1 : PInv A E (passStep A st i) := splitLoop_pinv A E hE i st h hi
    obtain ⟨t1, t2, _⟩ := splitLoop_track A i (((AList.lookup i st.c2s).getD []).length + 1)
      ((AList.lookup i st.c2s).getD []) st
    change st.n ≤ (passStep A st i).n at t1
    change (passStep A st i).finished = false → st.finished = false ∨ st.n < (passStep A st i).n at t2
    obtain ⟨r1, r2, r3, r4⟩ := ih (passStep A st i) hp1
      (fun j hj => Nat.le_trans (hle j (List.mem_cons_of_mem _ hj)) t1)
    refine ⟨r1, Nat.le_trans t1 r2, ?_, ?_⟩
    · intro hf
      rcases r3 hf with e | e
      · rcases t2 e with e' | e'
        · exact Or.inl e'
        · exact Or.inr (by omega)
      · exact Or.inr (by omega)
    · intro hf
      obtain ⟨f1, f2, f3, f4⟩ := r4 hf
      obtain ⟨g1, g2, g3, g4⟩ := passStep_fix A E i st h hi f1
      refine ⟨g1, by rw [f2, g2], by rw [f3, g3], ?_⟩
      intro j hj
      rcases List.mem_cons.mp hj with e | e
      · subst e; exact g4
      · have := f4 j e
        rw [g2] at this; exact this

/-- one pass: the invariant is kept; an unfinished pass has created a class; a finished pass
    has left `state2cls` alone and every class passed the test -/
theorem minPass_spec (A : DFTA σ Q) (E : Q → Q → Prop) (hE : Compat A E) (st : MinState Q)
    (h : PInv A E st) :
    PInv A E (minPass A st) ∧ ((minPass A st).finished = false → st.n < (minPass A st).n) ∧
      ((minPass A st).finished = true → Fix A (minPass A st)) := by
  rw [minPass_eq]
  have h' : PInv A E { st with finished := true } :=
    { keys := h.keys, bound := h.bound, fin := h.fin, resp := h.resp, cls := h.cls }
  obtain ⟨r1, r2, r3, r4⟩ := foldl_passStep A E hE (List.range (st.n + 1)) _ h'
    (fun i hi => Nat.le_of_lt_succ (List.mem_range.mp hi))
  refine ⟨r1, ?_, ?_⟩
  · intro hf
    rcases r3 hf with e | e
    · cases e
    · exact e
  · intro hf i q hq
    obtain ⟨_, f2, f3, f4⟩ := r4 hf
    have hi : i ≤ st.n := by
      have := r1.bound q i hq
      rw [f3] at this; exact this
    rw [f2] at hq ⊢
    exact f4 i (List.mem_range.mpr (Nat.lt_succ_of_le hi)) q hq

/-- `while not finished`: whatever it returns is a valid partition all of whose classes passed
    the test of the last pass -/
theorem minLoop_spec (A : DFTA σ Q) (E : Q → Q → Prop) (hE : Compat A E) :
    ∀ fuel st st', PInv A E st → minLoop A fuel st = some st' → PInv A E st' ∧ Fix A st' := by
  intro fuel
  induction fuel with
  | zero => intro st st' _ h; rw [minLoop] at h; cases h
  | succ fuel ih =>
    intro st st' hp h
    rw [minLoop] at h
    obtain ⟨p1, _, p3⟩ := minPass_spec A E hE st hp
    split at h
    · rename_i hf
      cases h
      exact ⟨p1, p3 hf⟩
    · exact ih _ _ p1 h

/-! ### the initial partition -/

/-- the state `minimise` starts its loop with -/
def initState (A : DFTA σ Q) (cls0 cls1 : List Q) : MinState Q :=
  { s2c := AList.ofList (A.states.map (fun q => (q, if q ∈ A.finals then 1 else 0)))
    c2s := [(0, cls0), (1, cls1)], n := 1, finished := false }

theorem minimiseState_eq (A : DFTA σ Q) (cls0 cls1 : List Q) (fuel : Nat) :
    minimiseState A cls0 cls1 fuel = minLoop A fuel (initState A cls0 cls1) := rfl

theorem lookup_s2c0 (A : DFTA σ Q) (q : Q) :
    AList.lookup q (AList.ofList (A.states.map (fun q => (q, if q ∈ A.finals then 1 else 0)))) =
      if q ∈ A.states then some (if q ∈ A.finals then 1 else 0) else none := by
  split
  · rename_i hq
    apply AList.lookup_insertMany_of_mem
    · exact ⟨(q, _), List.mem_map.mpr ⟨q, hq, rfl⟩, rfl⟩
    · rintro ⟨k, v⟩ hx hk
      obtain ⟨q', _, e⟩ := List.mem_map.mp hx
      simp only [Prod.mk.injEq] at e hk
      obtain ⟨e1, e2⟩ := e
      subst hk; subst e1; exact e2.symm
  · rename_i hq
    unfold AList.ofList
    rw [AList.lookup_insertMany_of_not_mem]
    · rfl
    · intro x hx e
      obtain ⟨q', hq', e'⟩ := List.mem_map.mp hx
      subst e'
      simp only at e
      subst e; exact hq hq'

/-- the two initial classes are the non-final and the final reachable states, in any order -/
def InitOK (A : DFTA σ Q) (cls0 cls1 : List Q) : Prop :=
  (∀ q, q ∈ cls0 ↔ q ∈ A.states ∧ q ∉ A.finals) ∧ (∀ q, q ∈ cls1 ↔ q ∈ A.states ∧ q ∈ A.finals)

/-- `E` only relates states that the initial partition does not separate -/
def InitResp (A : DFTA σ Q) (E : Q → Q → Prop) : Prop :=
  ∀ q q', E q q' → (q ∈ A.states ↔ q' ∈ A.states) ∧ (q ∈ A.finals ↔ q' ∈ A.finals)

theorem pinv_init (A : DFTA σ Q) (E : Q → Q → Prop) (hE0 : InitResp A E) (cls0 cls1 : List Q)
    (h01 : InitOK A cls0 cls1) : PInv A E (initState A cls0 cls1) := by
  have hl : ∀ q, AList.lookup q (initState A cls0 cls1).s2c =
      if q ∈ A.states then some (if q ∈ A.finals then 1 else 0) else none := lookup_s2c0 A
  refine { keys := ?_, bound := ?_, fin := ?_, resp := ?_, cls := ?_ }
  · intro q; rw [hl]; split <;> simp [*]
  · intro q i hq
    rw [hl] at hq
    show i ≤ 1
    split at hq
    · simp only [Option.some.injEq] at hq
      subst hq; split <;> omega
    · cases hq
  · intro q q' i hq hq'
    rw [hl] at hq hq'
    split at hq
    · split at hq'
      · simp only [Option.some.injEq] at hq hq'
        by_cases h1 : q ∈ A.finals <;> by_cases h2 : q' ∈ A.finals <;>
          simp only [h1, h2, if_true, if_false] at hq hq' ⊢ <;> omega
      · cases hq'
    · cases hq
  · intro q q' e
    obtain ⟨e1, e2⟩ := hE0 q q' e
    rw [hl, hl]
    simp only [e1, e2]
  · intro j hj
    change j ≤ 1 at hj
    have hj' : j = 0 ∨ j = 1 := by omega
    rcases hj' with e | e
    · subst e
      refine ⟨cls0, rfl, ?_, fun h => by omega⟩
      intro q
      rw [h01.1 q, hl]
      by_cases h1 : q ∈ A.states <;> by_cases h2 : q ∈ A.finals <;> simp [h1, h2]
    · subst e
      refine ⟨cls1, rfl, ?_, fun h => by omega⟩
      intro q
      rw [h01.2 q, hl]
      by_cases h1 : q ∈ A.states <;> by_cases h2 : q ∈ A.finals <;> simp [h1, h2]

theorem initOK_filter (A : DFTA σ Q) :
    InitOK A (A.states.filter (fun q => decide (q ∉ A.finals)))
      (A.states.filter (fun q => decide (q ∈ A.finals))) := by
  constructor <;> intro q <;> simp [List.mem_filter]

/-! ### fix-point ⇒ congruence certificate -/

theorem clsTuple_eq_iff (A : DFTA σ Q) (E : Q → Q → Prop) (st : MinState Q) (hp : PInv A E st)
    (q q' : Q) (i i' : Nat) (hq : AList.lookup q st.s2c = some i)
    (hq' : AList.lookup q' st.s2c = some i') : clsTuple st q = clsTuple st q' ↔ i = i' := by
  obtain ⟨cls, h1, h2, _⟩ := hp.cls i (hp.bound q i hq)
  obtain ⟨cls', h1', h2', _⟩ := hp.cls i' (hp.bound q' i' hq')
  unfold clsTuple
  rw [hq, hq']
  simp only [h1, h1', Option.getD_some]
  constructor
  · intro e
    have : q ∈ cls' := by rw [← e]; exact (h2 q).mpr hq
    have := (h2' q).mp this
    rw [hq] at this
    exact Option.some.inj this
  · intro e; subst e
    rw [h1] at h1'; exact Option.some.inj h1'

theorem clsTuple_congr (st : MinState Q) (d d' : Q)
    (h : AList.lookup d st.s2c = AList.lookup d' st.s2c) : clsTuple st d = clsTuple st d' := by
  unfold clsTuple; rw [h]

/-- what one half of `are_equivalent` gives for a rule consuming `a` at position `k` -/
theorem half_step (A : DFTA σ Q) (hd : A.Det) (s2c : AList Q Nat) (a b : Q)
    (h : halfEquivalent A s2c a b = true) (S : σ × List Q) (k : Nat) (d : Q)
    (hr : (S, d) ∈ A.rules) (hk : S.2[k]? = some a) :
    ∃ out, ((S.1, S.2.set k b), out) ∈ A.rules ∧ AList.lookup out s2c = AList.lookup d s2c := by
  obtain ⟨out, h1, h2⟩ := (halfEquivalent_iff A s2c a b).mp h S k
    ((mem_consumers_iff A a S k).mpr ⟨⟨d, hr⟩, hk⟩)
  refine ⟨out, AList.lookup_some_mem h1, ?_⟩
  rw [h2]
  unfold clsOfKey
  rw [(AList.lookup_eq_some_iff_mem hd).mpr hr]; rfl

/-- two states tested equivalent to the same representative can replace each other in a rule -/
theorem fix_step (A : DFTA σ Q) (hd : A.Det) (s2c : AList Q Nat) (rep q q' : Q)
    (h1 : areEquivalent A s2c rep q = true) (h2 : areEquivalent A s2c rep q' = true)
    (S : σ × List Q) (k : Nat) (d : Q) (hr : (S, d) ∈ A.rules) (hk : S.2[k]? = some q) :
    ∃ out, ((S.1, S.2.set k q'), out) ∈ A.rules ∧ AList.lookup out s2c = AList.lookup d s2c := by
  unfold areEquivalent at h1 h2
  rw [Bool.and_eq_true] at h1 h2
  obtain ⟨o1, r1, e1⟩ := half_step A hd s2c q rep h1.2 S k d hr hk
  have hlt : k < S.2.length := by
    by_contra hlt
    rw [List.getElem?_eq_none (by simpa using hlt)] at hk
    cases hk
  obtain ⟨o2, r2, e2⟩ := half_step A hd s2c rep q' h2.1 (S.1, S.2.set k rep) k o1 r1
    (List.getElem?_set_self hlt)
  simp only [List.set_set] at r2
  exact ⟨o2, r2, by rw [e2, e1]⟩

theorem mem_stateSet (A : DFTA σ Q) (x : Q) : x ∈ stateSet A ↔ x ∈ allStates A := by
  unfold stateSet
  rw [mem_foldl_addNew]
  simp

/-- **fix-point ⇒ congruence.**  A valid partition all of whose classes passed the test of the
    last pass passes the executable congruence certificate (for every injective naming `f` of
    the classes), provided every state the automaton mentions is reachable. -/
theorem cert_of_fix (A : DFTA σ Q) (hd : A.Det) (E : Q → Q → Prop) (st : MinState Q)
    (f : List Q → X) (hf : ∀ a b, f a = f b → a = b) (hp : PInv A E st) (hfix : Fix A st)
    (hall : ∀ q ∈ allStates A, q ∈ A.states) :
    congruenceCert A (fun q => f (clsTuple st q)) (stateSet A) = true := by
  unfold congruenceCert
  rw [List.all_eq_true]
  intro q hq
  rw [List.all_eq_true]
  intro q' hq'
  split
  · rename_i hc
    have hc' := hf _ _ hc
    obtain ⟨i, hi⟩ := Option.isSome_iff_exists.mp ((hp.keys q).mpr (hall q ((mem_stateSet A q).mp hq)))
    obtain ⟨i', hi'⟩ := Option.isSome_iff_exists.mp ((hp.keys q').mpr (hall q' ((mem_stateSet A q').mp hq')))
    have e := (clsTuple_eq_iff A E st hp q q' i i' hi hi').mp hc'
    subst e
    rw [Bool.and_eq_true]
    constructor
    · have := hp.fin q q' i hi hi'
      simp only [beq_iff_eq, decide_eq_decide]; exact this
    · obtain ⟨rep, hrep⟩ := hfix i q hi
      rw [List.all_eq_true]
      rintro ⟨S, k⟩ hm
      obtain ⟨⟨d, hr⟩, hk⟩ := (mem_consumers_iff A q S k).mp hm
      obtain ⟨out, r, e⟩ := fix_step A hd st.s2c rep q q' (hrep q hi) (hrep q' hi') S k d hr hk
      simp only
      rw [(AList.lookup_eq_some_iff_mem hd).mpr hr, (AList.lookup_eq_some_iff_mem hd).mpr r]
      simp only [decide_eq_true_eq]
      rw [clsTuple_congr st out d e]
  · rfl

/-! ### termination -/

/-- pigeonhole, relational form: an injective relation from a duplicate-free list into a list -/
theorem length_le_of_inj_rel {α β : Type} [DecidableEq β] (R : α → β → Prop) :
    ∀ (l : List α) (l' : List β), l.Nodup → (∀ a ∈ l, ∃ b ∈ l', R a b) →
      (∀ a a' b, a ∈ l → a' ∈ l → R a b → R a' b → a = a') → l.length ≤ l'.length := by
  intro l
  induction l with
  | nil => intro _ _ _ _; exact Nat.zero_le _
  | cons a l ih =>
    intro l' hnd hex hinj
    obtain ⟨b, hb, hab⟩ := hex a List.mem_cons_self
    rw [List.nodup_cons] at hnd
    have := ih (l'.erase b) hnd.2 ?_ ?_
    · rw [List.length_erase_of_mem hb] at this
      have hpos : 0 < l'.length := List.length_pos_of_mem hb
      simp only [List.length_cons]; omega
    · intro a' ha'
      obtain ⟨b', hb', hab'⟩ := hex a' (List.mem_cons_of_mem _ ha')
      refine ⟨b', ?_, hab'⟩
      apply (List.mem_erase_of_ne ?_).mpr hb'
      intro e; subst e
      have := hinj a a' b' List.mem_cons_self (List.mem_cons_of_mem _ ha') hab hab'
      subst this; exact hnd.1 ha'
    · intro x y b' hx hy
      exact hinj x y b' (List.mem_cons_of_mem _ hx) (List.mem_cons_of_mem _ hy)

/-- classes `2 … n` are non-empty and disjoint sets of reachable states -/
theorem pinv_n_le (A : DFTA σ Q) (E : Q → Q → Prop) (st : MinState Q) (hp : PInv A E st) :
    st.n ≤ A.states.length + 1 := by
  have := length_le_of_inj_rel (fun (i : Nat) (q : Q) => AList.lookup q st.s2c = some i)
    (List.range' 2 (st.n - 1)) A.states (List.nodup_range' 1 Nat.one_pos) ?_ ?_
  · rw [List.length_range'] at this; omega
  · intro i hi
    rw [List.mem_range'_1] at hi
    obtain ⟨cls, _, h2, h3⟩ := hp.cls i (by omega)
    obtain ⟨q, hq⟩ := List.exists_mem_of_ne_nil cls (h3 hi.1)
    have hs := (h2 q).mp hq
    exact ⟨q, (hp.keys q).mp (by rw [hs]; rfl), hs⟩
  · intro i i' q _ _ h1 h2
    rw [h1] at h2; exact Option.some.inj h2

/-- `while not finished` ends within `|states| + 2 - n` passes -/
theorem minLoop_terminates (A : DFTA σ Q) (E : Q → Q → Prop) (hE : Compat A E) :
    ∀ fuel st, PInv A E st → A.states.length + 2 ≤ st.n + fuel → ∃ st', minLoop A fuel st = some st' := by
  intro fuel
  induction fuel with
  | zero =>
    intro st hp hle
    have := pinv_n_le A E st hp
    omega
  | succ fuel ih =>
    intro st hp hle
    rw [minLoop]
    obtain ⟨p1, p2, _⟩ := minPass_spec A E hE st hp
    split
    · exact ⟨_, rfl⟩
    · rename_i hf
      have := p2 (by simpa using hf)
      exact ih _ p1 (by omega)

/-! ### `minimise` -/

/-- every state the automaton mentions (in a rule or as a final state) is reachable.  This is
    the part of "reduced" that `minimise` needs for its result to have the same language; the
    Python code raises `KeyError` when it does not hold (`consumer_of` / `state2cls` only have
    the reachable states as keys). -/
def AllReach (A : DFTA σ Q) : Prop := ∀ q ∈ allStates A, q ∈ A.states

theorem initResp_eq (A : DFTA σ Q) : InitResp A (fun q q' => q = q') := by
  intro q q' e; subst e; exact ⟨Iff.rfl, Iff.rfl⟩

/-- the loop of `minimise` ends (for every class order) as soon as `|states| + 1` passes are
    allowed -/
theorem minimiseState_terminates (A : DFTA σ Q) (cls0 cls1 : List Q) (h01 : InitOK A cls0 cls1)
    (fuel : Nat) (hfuel : A.states.length + 1 ≤ fuel) :
    ∃ st, minimiseState A cls0 cls1 fuel = some st := by
  rw [minimiseState_eq]
  apply minLoop_terminates A _ (compat_eq A) fuel _ (pinv_init A _ (initResp_eq A) cls0 cls1 h01)
  show A.states.length + 2 ≤ 1 + fuel
  omega

/-- the partition the loop ends with passes the congruence certificate -/
theorem minimiseState_cert (A : DFTA σ Q) (hd : A.Det) (hall : AllReach A) (cls0 cls1 : List Q)
    (h01 : InitOK A cls0 cls1) (fuel : Nat) (st : MinState Q)
    (h : minimiseState A cls0 cls1 fuel = some st) (f : List Q → X) (hf : ∀ a b, f a = f b → a = b) :
    congruenceCert A (fun q => f (clsTuple st q)) (stateSet A) = true := by
  rw [minimiseState_eq] at h
  obtain ⟨hp, hfix⟩ := minLoop_spec A _ (compat_eq A) fuel _ st
    (pinv_init A _ (initResp_eq A) cls0 cls1 h01) h
  exact cert_of_fix A hd _ st f hf hp hfix hall

theorem minimiseCore_terminates (f : List Q → X) (A : DFTA σ Q) (cls0 cls1 : List Q)
    (h01 : InitOK A cls0 cls1) (fuel : Nat) (hfuel : A.states.length + 1 ≤ fuel) :
    ∃ M, minimiseCore f A cls0 cls1 fuel = some M := by
  obtain ⟨st, hst⟩ := minimiseState_terminates A cls0 cls1 h01 fuel hfuel
  unfold minimiseState at hst
  unfold minimiseCore
  simp only at hst ⊢
  rw [hst]
  exact ⟨_, rfl⟩

theorem minimiseCore_lang (f : List Q → X) (hf : ∀ a b, f a = f b → a = b) (A : DFTA σ Q)
    (hd : A.Det) (hall : AllReach A) (cls0 cls1 : List Q) (h01 : InitOK A cls0 cls1) (fuel : Nat)
    (M : DFTA σ X) (h : minimiseCore f A cls0 cls1 fuel = some M) (t : Tree σ) :
    M.accepts t = A.accepts t := by
  obtain ⟨st, hst, e⟩ := minimiseCore_eq f A cls0 cls1 fuel M h
  rw [e]
  exact accepts_quotient A hd _ _ (allStates_subset_stateSet A)
    (minimiseState_cert A hd hall cls0 cls1 h01 fuel st hst f hf) t

end DFTA
end PS
