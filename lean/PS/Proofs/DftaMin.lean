/-
  `minimise` (PS/Model/Dfta.lean, tree_automaton.py:223-315): the partition refinement loop.

  Part 1 (this file): the loop invariant `PInv`, the fix-point property `Fix` of the partition
  a finished pass leaves behind, "fix-point ⇒ the congruence certificate holds", and
  termination (every pass that is not the last one creates a class; classes ≥ 2 are non-empty
  and disjoint, so there are at most `|states| + 2` of them).

  Everything is relative to a relation `E` on states that the equivalence test respects
  (`Compat`): the invariant says that `E`-related states are never separated.  With `E := Eq`
  this is vacuous (language preservation, termination); with `E :=` Myhill–Nerode equivalence
  (PS/Proofs/DftaMinimal.lean) it gives minimality.
-/
import PS.Proofs.DftaQuot
set_option linter.unusedSectionVars false
namespace PS
namespace DFTA
variable {σ Q X : Type} [DecidableEq σ] [DecidableEq Q] [DecidableEq X]

/-! ### small facts about the tables -/

theorem lookup_foldl_insert (L : List Q) (n : Nat) (d : AList Q Nat) (x : Q) :
    AList.lookup x (L.foldl (fun d q => AList.insert q n d) d) =
      if x ∈ L then some n else AList.lookup x d := by
  induction L generalizing d with
  | nil => simp
  | cons a L ih =>
    rw [List.foldl_cons, ih, AList.lookup_insert]
    by_cases h1 : x ∈ L
    · simp [h1]
    · by_cases h2 : x = a
      · simp [h2]
      · simp [h1, h2]

theorem mem_consumers_iff (A : DFTA σ Q) (q : Q) (S : σ × List Q) (k : Nat) :
    (S, k) ∈ consumers A q ↔ (∃ d, (S, d) ∈ A.rules) ∧ S.2[k]? = some q := by
  unfold consumers
  simp only [List.mem_flatMap, List.mem_filterMap, List.mem_range]
  constructor
  · rintro ⟨rule, hr, k', hk', h⟩
    split at h
    · rename_i hq
      simp only [Option.some.injEq, Prod.mk.injEq] at h
      obtain ⟨e1, e2⟩ := h
      subst e1; subst e2
      exact ⟨⟨rule.2, hr⟩, hq⟩
    · cases h
  · rintro ⟨⟨d, hr⟩, hq⟩
    refine ⟨(S, d), hr, k, ?_, ?_⟩
    · by_contra hlt
      rw [List.getElem?_eq_none (by simpa using hlt)] at hq
      cases hq
    · simp [hq]

theorem lookup_isSome_of_mem {κ ν : Type} [DecidableEq κ] {k : κ} {v : ν} {d : AList κ ν}
    (h : (k, v) ∈ d) : ∃ v', AList.lookup k d = some v' := by
  have : (AList.lookup k d).isSome := by
    rw [AList.lookup_isSome_iff_mem_keys]
    exact List.mem_map.mpr ⟨(k, v), h, rfl⟩
  exact Option.isSome_iff_exists.mp this

theorem halfEquivalent_iff (A : DFTA σ Q) (s2c : AList Q Nat) (a b : Q) :
    halfEquivalent A s2c a b = true ↔
      ∀ S k, (S, k) ∈ consumers A a → ∃ out, AList.lookup (S.1, S.2.set k b) A.rules = some out ∧
        AList.lookup out s2c = clsOfKey A s2c S := by
  unfold halfEquivalent
  rw [List.all_eq_true]
  constructor
  · intro h S k hm
    have := h (S, k) hm
    simp only at this
    cases hl : AList.lookup (S.1, S.2.set k b) A.rules with
    | none => rw [hl] at this; cases this
    | some out =>
      rw [hl] at this
      exact ⟨out, rfl, by simpa using this⟩
  · rintro h ⟨S, k⟩ hm
    obtain ⟨out, h1, h2⟩ := h S k hm
    simp only [h1, h2, beq_self_eq_true]

theorem areEquivalent_refl (A : DFTA σ Q) (s2c : AList Q Nat) (r : Q) :
    areEquivalent A s2c r r = true := by
  have : halfEquivalent A s2c r r = true := by
    rw [halfEquivalent_iff]
    intro S k hm
    obtain ⟨⟨d, hr⟩, hk⟩ := (mem_consumers_iff A r S k).mp hm
    obtain ⟨d', hd'⟩ := lookup_isSome_of_mem hr
    have hset : S.2.set k r = S.2 := by
      have hlt : k < S.2.length := by
        by_contra hlt
        rw [List.getElem?_eq_none (by simpa using hlt)] at hk
        cases hk
      have := List.getElem?_eq_some_iff.mp hk
      obtain ⟨_, e⟩ := this
      rw [← e]; exact List.set_getElem_self hlt
    refine ⟨d', by rw [hset]; exact hd', ?_⟩
    unfold clsOfKey
    rw [hd']; rfl
  unfold areEquivalent
  rw [this]; rfl

/-! ### the invariant -/

/-- `E`-related states have the same class -/
def Resp (E : Q → Q → Prop) (s2c : AList Q Nat) : Prop :=
  ∀ q q', E q q' → AList.lookup q s2c = AList.lookup q' s2c

/-- the equivalence test of the refinement loop does not separate `E`-related states as long
    as the current partition does not -/
def Compat (A : DFTA σ Q) (E : Q → Q → Prop) : Prop :=
  ∀ s2c, Resp E s2c → ∀ r q q', E q q' → areEquivalent A s2c r q = areEquivalent A s2c r q'

theorem compat_eq (A : DFTA σ Q) : Compat A (fun q q' => q = q') := by
  intro s2c _ r q q' e; subst e; rfl

/-- what is true of class `j` of the partition -/
def ClsOK (st : MinState Q) (j : Nat) : Prop :=
  ∃ cls, AList.lookup j st.c2s = some cls ∧ (∀ q, q ∈ cls ↔ AList.lookup q st.s2c = some j) ∧
    (2 ≤ j → cls ≠ [])

/-- the part of the invariant that only speaks about `state2cls` -/
structure SInv (A : DFTA σ Q) (E : Q → Q → Prop) (st : MinState Q) : Prop where
  keys : ∀ q, (AList.lookup q st.s2c).isSome ↔ q ∈ A.states
  bound : ∀ q i, AList.lookup q st.s2c = some i → i ≤ st.n
  fin : ∀ q q' i, AList.lookup q st.s2c = some i → AList.lookup q' st.s2c = some i →
    (q ∈ A.finals ↔ q' ∈ A.finals)
  resp : Resp E st.s2c

/-- invariant of `while not finished` (between passes and between classes of a pass) -/
structure PInv (A : DFTA σ Q) (E : Q → Q → Prop) (st : MinState Q) : Prop extends SInv A E st where
  cls : ∀ j, j ≤ st.n → ClsOK st j

/-- invariant of `while cls:` for class `i`: `cls` is what is left of the class -/
structure LInv (A : DFTA σ Q) (E : Q → Q → Prop) (i : Nat) (cls : List Q) (st : MinState Q) : Prop
    extends SInv A E st where
  hi : i ≤ st.n
  others : ∀ j, j ≤ st.n → j ≠ i → ClsOK st j
  cur : ∀ q, q ∈ cls ↔ AList.lookup q st.s2c = some i
  ne : cls ≠ []

/-! ### one round of `while cls:` -/

/-- the members of the class of the representative `rep` that stay with it -/
def splitSame (A : DFTA σ Q) (st : MinState Q) (rep : Q) (rest : List Q) : List Q :=
  rest.filter (fun q => areEquivalent A st.s2c rep q)

/-- the members that are split off -/
def splitNext (A : DFTA σ Q) (st : MinState Q) (rep : Q) (rest : List Q) : List Q :=
  rest.filter (fun q => !areEquivalent A st.s2c rep q)

/-- the state after a split: `rep` and its equivalents get the fresh class `n + 1` -/
def splitState (A : DFTA σ Q) (st : MinState Q) (rep : Q) (rest : List Q) : MinState Q :=
  { s2c := (rep :: splitSame A st rep rest).foldl (fun d q => AList.insert q (st.n + 1) d) st.s2c
    c2s := AList.insert (st.n + 1) (rep :: splitSame A st rep rest) st.c2s
    n := st.n + 1, finished := false }

/-- the state when nothing is left to split off: class `i` is re-set -/
def doneState (A : DFTA σ Q) (i : Nat) (st : MinState Q) (rep : Q) (rest : List Q) : MinState Q :=
  { st with c2s := AList.insert i (rep :: splitSame A st rep rest) st.c2s }

theorem splitLoop_succ (A : DFTA σ Q) (i fuel : Nat) (rest : List Q) (rep : Q) (st : MinState Q) :
    splitLoop A i (fuel + 1) (rest ++ [rep]) st =
      if splitNext A st rep rest ≠ [] then
        splitLoop A i fuel (splitNext A st rep rest) (splitState A st rep rest)
      else doneState A i st rep rest := by
  rw [splitLoop]
  simp only [List.getLast?_concat, List.dropLast_concat]
  rfl

theorem splitLoop_nil (A : DFTA σ Q) (i fuel : Nat) (st : MinState Q) :
    splitLoop A i fuel [] st = st := by
  cases fuel <;> rw [splitLoop] <;> rfl

theorem s2c_splitState (A : DFTA σ Q) (st : MinState Q) (rep : Q) (rest : List Q) (x : Q) :
    AList.lookup x (splitState A st rep rest).s2c =
      if x = rep ∨ (x ∈ rest ∧ areEquivalent A st.s2c rep x = true) then some (st.n + 1)
      else AList.lookup x st.s2c := by
  unfold splitState
  simp only [lookup_foldl_insert, splitSame, List.mem_cons, List.mem_filter]

/-- who gets the fresh class in a split -/
def Moves (A : DFTA σ Q) (st : MinState Q) (rep : Q) (rest : List Q) (x : Q) : Prop :=
  x = rep ∨ (x ∈ rest ∧ areEquivalent A st.s2c rep x = true)

theorem moves_iff (A : DFTA σ Q) (E : Q → Q → Prop) (hE : Compat A E) (i : Nat) (st : MinState Q)
    (rep : Q) (rest : List Q) (h : LInv A E i (rest ++ [rep]) st) (q q' : Q) (e : E q q') :
    Moves A st rep rest q ↔ Moves A st rep rest q' := by
  have hcur : ∀ x, (x ∈ rest ∨ x = rep) ↔ AList.lookup x st.s2c = some i := by
    intro x; have := h.cur x; simpa using this
  have hP : ∀ x, Moves A st rep rest x → AList.lookup x st.s2c = some i := by
    rintro x (e | ⟨e, _⟩)
    · exact (hcur x).mp (Or.inr e)
    · exact (hcur x).mp (Or.inl e)
  have hs := h.resp q q' e
  have hc := hE st.s2c h.resp rep q q' e
  have hM : ∀ x, Moves A st rep rest x → areEquivalent A st.s2c rep x = true := by
    rintro x (e1 | ⟨_, e1⟩)
    · rw [e1]; exact areEquivalent_refl A _ _
    · exact e1
  constructor
  · intro hp
    have h2 := hP q hp
    rw [hs] at h2
    rcases (hcur q').mpr h2 with m | m
    · exact Or.inr ⟨m, by rw [← hc]; exact hM q hp⟩
    · exact Or.inl m
  · intro hp
    have h2 := hP q' hp
    rw [← hs] at h2
    rcases (hcur q).mpr h2 with m | m
    · exact Or.inr ⟨m, by rw [hc]; exact hM q' hp⟩
    · exact Or.inl m

theorem linv_split (A : DFTA σ Q) (E : Q → Q → Prop) (hE : Compat A E) (i : Nat) (st : MinState Q)
    (rep : Q) (rest : List Q) (h : LInv A E i (rest ++ [rep]) st)
    (hne : splitNext A st rep rest ≠ []) :
    LInv A E i (splitNext A st rep rest) (splitState A st rep rest) := by
  have hcur : ∀ x, (x ∈ rest ∨ x = rep) ↔ AList.lookup x st.s2c = some i := by
    intro x; have := h.cur x; simpa using this
  have hP : ∀ x, (x = rep ∨ (x ∈ rest ∧ areEquivalent A st.s2c rep x = true)) →
      AList.lookup x st.s2c = some i := by
    rintro x (e | ⟨e, _⟩)
    · exact (hcur x).mp (Or.inr e)
    · exact (hcur x).mp (Or.inl e)
  have hn1 : (splitState A st rep rest).n = st.n + 1 := rfl
  refine { keys := ?_, bound := ?_, fin := ?_, resp := ?_, hi := ?_, others := ?_, cur := ?_, ne := hne }
  · intro q
    rw [s2c_splitState]
    split
    · rename_i hp
      have := hP q hp
      rw [← h.keys q, this]; simp
    · exact h.keys q
  · intro q j hj
    rw [s2c_splitState] at hj
    rw [hn1]
    split at hj
    · cases hj; exact Nat.le_refl _
    · exact Nat.le_succ_of_le (h.bound q j hj)
  · intro q q' j hq hq'
    rw [s2c_splitState] at hq hq'
    split at hq
    · rename_i hp
      cases hq
      split at hq'
      · rename_i hp'
        exact h.fin q q' i (hP q hp) (hP q' hp')
      · have := h.bound q' _ hq'; omega
    · split at hq'
      · cases hq'; have := h.bound q _ hq; omega
      · exact h.fin q q' j hq hq'
  · intro q q' e
    rw [s2c_splitState, s2c_splitState]
    have hs := h.resp q q' e
    have hiff := moves_iff A E hE i st rep rest h q q' e
    unfold Moves at hiff
    by_cases hp : q = rep ∨ (q ∈ rest ∧ areEquivalent A st.s2c rep q = true)
    · rw [if_pos hp, if_pos (hiff.mp hp)]
    · rw [if_neg hp, if_neg (fun h' => hp (hiff.mpr h')), hs]
  · rw [hn1]; exact Nat.le_succ_of_le h.hi
  · intro j hj hji
    rw [hn1] at hj
    by_cases hjn : j = st.n + 1
    · subst hjn
      refine ⟨rep :: splitSame A st rep rest, ?_, ?_, fun _ => List.cons_ne_nil _ _⟩
      · exact AList.lookup_insert_self _ _ _
      · intro q
        rw [s2c_splitState]
        simp only [splitSame, List.mem_cons, List.mem_filter]
        split
        · rename_i hp; simp only [iff_true]; exact hp
        · rename_i hp
          constructor
          · intro hx; exact absurd hx hp
          · intro hx; have := h.bound q _ hx; omega
    · obtain ⟨cls, h1, h2, h3⟩ := h.others j (by omega) hji
      refine ⟨cls, ?_, ?_, h3⟩
      · show AList.lookup j (AList.insert _ _ _) = _
        rw [AList.lookup_insert_ne _ _ hjn]; exact h1
      · intro q
        rw [h2 q, s2c_splitState]
        split
        · rename_i hp
          have := hP q hp
          rw [this]
          constructor
          · intro e; cases e; exact absurd rfl hji
          · intro e; cases e; exact absurd rfl hjn
        · rfl
  · intro q
    rw [s2c_splitState]
    simp only [splitNext, List.mem_filter]
    split
    · rename_i hp
      have hrefl := areEquivalent_refl A st.s2c rep
      constructor
      · rintro ⟨hm, hne⟩
        rcases hp with e | ⟨_, e⟩
        · subst e; rw [hrefl] at hne; cases hne
        · rw [e] at hne; cases hne
      · intro e; cases e; have := h.hi; omega
    · rename_i hp
      rw [← hcur q]
      constructor
      · rintro ⟨hm, _⟩; exact Or.inl hm
      · intro hm
        rcases hm with hm | hm
        · refine ⟨hm, ?_⟩
          cases hq : areEquivalent A st.s2c rep q
          · rfl
          · exact absurd (Or.inr ⟨hm, hq⟩) hp
        · exact absurd (Or.inl hm) hp

theorem splitNext_nil_iff (A : DFTA σ Q) (st : MinState Q) (rep : Q) (rest : List Q) :
    splitNext A st rep rest = [] ↔ ∀ q ∈ rest, areEquivalent A st.s2c rep q = true := by
  unfold splitNext
  rw [List.filter_eq_nil_iff]
  constructor
  · intro h q hq
    have := h q hq
    cases he : areEquivalent A st.s2c rep q
    · rw [he] at this; exact absurd rfl this
    · rfl
  · intro h q hq
    rw [h q hq]; simp

theorem pinv_done (A : DFTA σ Q) (E : Q → Q → Prop) (i : Nat) (st : MinState Q)
    (rep : Q) (rest : List Q) (h : LInv A E i (rest ++ [rep]) st)
    (hn : splitNext A st rep rest = []) :
    PInv A E (doneState A i st rep rest) := by
  have hcur : ∀ x, (x ∈ rest ∨ x = rep) ↔ AList.lookup x st.s2c = some i := by
    intro x; have := h.cur x; simpa using this
  have hall := (splitNext_nil_iff A st rep rest).mp hn
  refine { keys := h.keys, bound := h.bound, fin := h.fin, resp := h.resp, cls := ?_ }
  intro j hj
  by_cases hji : j = i
  · subst hji
    refine ⟨rep :: splitSame A st rep rest, AList.lookup_insert_self _ _ _, ?_, fun _ => List.cons_ne_nil _ _⟩
    intro q
    show _ ↔ AList.lookup q st.s2c = some j
    rw [← hcur q]
    simp only [splitSame, List.mem_cons, List.mem_filter]
    constructor
    · rintro (e | ⟨e, _⟩)
      · exact Or.inr e
      · exact Or.inl e
    · rintro (e | e)
      · exact Or.inr ⟨e, hall q e⟩
      · exact Or.inl e
  · obtain ⟨cls, h1, h2, h3⟩ := h.others j hj hji
    refine ⟨cls, ?_, h2, h3⟩
    show AList.lookup j (AList.insert _ _ _) = _
    rw [AList.lookup_insert_ne _ _ hji]; exact h1

/-- the `while cls:` loop re-establishes the invariant -/
theorem splitLoop_inv (A : DFTA σ Q) (E : Q → Q → Prop) (hE : Compat A E) (i : Nat) :
    ∀ fuel cls st, cls.length ≤ fuel → LInv A E i cls st → PInv A E (splitLoop A i fuel cls st) := by
  intro fuel
  induction fuel with
  | zero =>
    intro cls st hl h
    exact absurd (List.eq_nil_of_length_eq_zero (Nat.le_zero.mp hl)) h.ne
  | succ fuel ih =>
    intro cls st hl h
    obtain ⟨rest, rep, e⟩ : ∃ rest rep, cls = rest ++ [rep] := by
      have := List.dropLast_append_getLast h.ne
      exact ⟨_, _, this.symm⟩
    subst e
    rw [splitLoop_succ]
    split
    · rename_i hne
      apply ih _ _ _ (linv_split A E hE i st rep rest h hne)
      have : (splitNext A st rep rest).length ≤ rest.length := List.length_filter_le _ _
      simp only [List.length_append, List.length_cons, List.length_nil] at hl
      omega
    · rename_i hn
      exact pinv_done A E i st rep rest h (by simpa using hn)

/-- … started on a class of a valid partition -/
theorem splitLoop_pinv (A : DFTA σ Q) (E : Q → Q → Prop) (hE : Compat A E) (i : Nat)
    (st : MinState Q) (h : PInv A E st) (hi : i ≤ st.n) :
    PInv A E (splitLoop A i (((AList.lookup i st.c2s).getD []).length + 1)
      ((AList.lookup i st.c2s).getD []) st) := by
  obtain ⟨cls, h1, h2, h3⟩ := h.cls i hi
  rw [h1]
  simp only [Option.getD_some]
  by_cases hc : cls = []
  · subst hc; rw [splitLoop_nil]; exact h
  · apply splitLoop_inv A E hE i _ _ _ (Nat.le_succ _)
    exact { keys := h.keys, bound := h.bound, fin := h.fin, resp := h.resp, hi := hi,
            others := fun j hj _ => h.cls j hj, cur := h2, ne := hc }

end DFTA
end PS
