/- Helper lemmas for C11 (PS/Props/C11.lean holds the property theorems). -/
import PS.Model.Evaluator
namespace PS.C11
open PS

variable {σ V E : Type} [DecidableEq σ]

/-- every entry of the memo table is the compositional value of its program -/
def MemoSound (S : Sem σ V E) (inp : List V) (ev : Memo σ V) : Prop :=
  ∀ q v, AList.lookup q ev = some v → denote S inp q = .ok v

/-- the table only grows -/
def Ext (ev ev' : Memo σ V) : Prop :=
  ∀ q v, AList.lookup q ev = some v → AList.lookup q ev' = some v

theorem Ext.refl (ev : Memo σ V) : Ext ev ev := fun _ _ h => h
theorem Ext.trans {a b c : Memo σ V} (h1 : Ext a b) (h2 : Ext b c) : Ext a c :=
  fun q v h => h2 q v (h1 q v h)

theorem contains_false_lookup {ev : Memo σ V} {q : Tree σ} (h : AList.contains q ev = false) :
    AList.lookup q ev = none := by
  unfold AList.contains at h
  cases hl : AList.lookup q ev with
  | none => rfl
  | some v => simp [hl] at h

theorem contains_true_lookup {ev : Memo σ V} {q : Tree σ} (h : AList.contains q ev = true) :
    ∃ v, AList.lookup q ev = some v := by
  unfold AList.contains at h
  cases hl : AList.lookup q ev with
  | none => simp [hl] at h
  | some v => exact ⟨v, rfl⟩

theorem Ext_insert {ev : Memo σ V} {q : Tree σ} (v : V) (h : AList.lookup q ev = none) :
    Ext ev (AList.insert q v ev) := by
  intro q' v' h'
  rw [AList.lookup_insert]
  by_cases hq : q' = q
  · subst hq; rw [h] at h'; cases h'
  · simp [hq, h']

theorem MemoSound_insert {S : Sem σ V E} {inp : List V} {ev : Memo σ V} {q : Tree σ} {v : V}
    (hs : MemoSound S inp ev) (hq : denote S inp q = .ok v) :
    MemoSound S inp (AList.insert q v ev) := by
  intro q' v' h'
  rw [AList.lookup_insert] at h'
  by_cases hqq : q' = q
  · subst hqq; simp at h'; subst h'; exact hq
  · simp [hqq] at h'; exact hs q' v' h'

theorem lookupAll_ext {ev ev' : Memo σ V} (hext : Ext ev ev') :
    ∀ (ts : List (Tree σ)) (vs : List V), lookupAll ev ts = some vs → lookupAll ev' ts = some vs
  | [], vs, h => by simpa [lookupAll] using h
  | t :: ts, vs, h => by
    simp only [lookupAll] at h ⊢
    cases h1 : AList.lookup t ev with
    | none => simp [h1] at h
    | some v =>
      cases h2 : lookupAll ev ts with
      | none => simp [h1, h2] at h
      | some vs' =>
        simp [h1, h2] at h
        rw [hext t v h1, lookupAll_ext hext ts vs' h2]
        simp [h]

theorem denoteList_of_lookupAll {S : Sem σ V E} {inp : List V} {ev : Memo σ V}
    (hs : MemoSound S inp ev) :
    ∀ (ts : List (Tree σ)) (vs : List V), lookupAll ev ts = some vs → denoteList S inp ts = .ok vs
  | [], vs, h => by
    simp [lookupAll] at h; subst h; simp [denoteList]
  | t :: ts, vs, h => by
    simp only [lookupAll] at h
    cases h1 : AList.lookup t ev with
    | none => simp [h1] at h
    | some v =>
      cases h2 : lookupAll ev ts with
      | none => simp [h1, h2] at h
      | some vs' =>
        simp [h1, h2] at h
        subst h
        simp [denoteList, hs t v h1, denoteList_of_lookupAll hs ts vs' h2]

theorem loop_append (S : Sem σ V E) (inp : List V) (ev : Memo σ V) (a b : List (Tree σ)) :
    loop S inp ev (a ++ b) =
      match loop S inp ev a with
      | (ev', some e) => (ev', some e)
      | (ev', none) => loop S inp ev' b := by
  induction a generalizing ev with
  | nil => simp [loop]
  | cons x xs ih =>
    simp only [List.cons_append, loop]
    cases h : evalSub S inp ev x with
    | mk ev1 r =>
      cases r with
      | some e => simp
      | none => simp [ih]

omit [DecidableEq σ] in
theorem denote_leaf (S : Sem σ V E) (inp : List V) (l : σ) :
    denote S inp (Tree.leaf l) = S.leaf l inp := by
  simp [Tree.leaf, denote]

/-- result of processing the sub-program list of one term / of a list of terms -/
structure LoopOK (S : Sem σ V E) (inp : List V) (ev : Memo σ V) (r : Memo σ V × Option E) : Prop where
  sound : MemoSound S inp r.1
  ext : Ext ev r.1

/-- one leaf step -/
theorem evalSub_leaf {S : Sem σ V E} {inp : List V} {ev : Memo σ V} (l : σ)
    (hs : MemoSound S inp ev) :
    (∃ ev' v, evalSub S inp ev (.node l []) = (ev', none) ∧ MemoSound S inp ev' ∧ Ext ev ev' ∧
        AList.lookup (.node l []) ev' = some v) ∨
    (∃ e, evalSub S inp ev (.node l []) = (ev, some e) ∧ S.leaf l inp = .error e) := by
  unfold evalSub
  cases hc : AList.contains (Tree.node l []) ev with
  | true =>
    obtain ⟨v, hv⟩ := contains_true_lookup hc
    exact Or.inl ⟨ev, v, by simp, hs, Ext.refl _, hv⟩
  | false =>
    have hn := contains_false_lookup hc
    cases hl : S.leaf l inp with
    | ok v =>
      refine Or.inl ⟨AList.insert (.node l []) v ev, v, by simp [hl], ?_, Ext_insert v hn, AList.lookup_insert_self _ _ _⟩
      exact MemoSound_insert hs (by simp [denote, hl])
    | error e => exact Or.inr ⟨e, by simp [hl], rfl⟩

/-- the application step, once head and arguments are in the table -/
theorem evalSub_app {S : Sem σ V E} {inp : List V} {ev : Memo σ V} (l : σ) (k : Tree σ)
    (ks : List (Tree σ)) (f : V) (vs : List V)
    (hs : MemoSound S inp ev) (hf : AList.lookup (Tree.leaf l) ev = some f)
    (hvs : lookupAll ev (k :: ks) = some vs) :
    (∃ ev' v, evalSub S inp ev (.node l (k :: ks)) = (ev', none) ∧ MemoSound S inp ev' ∧ Ext ev ev' ∧
        AList.lookup (.node l (k :: ks)) ev' = some v) ∨
    (∃ e, evalSub S inp ev (.node l (k :: ks)) = (ev, some e) ∧
        denote S inp (.node l (k :: ks)) = .error e) := by
  have hleaf : S.leaf l inp = .ok f := by
    have := hs _ _ hf
    rwa [denote_leaf] at this
  have hargs := denoteList_of_lookupAll hs (k :: ks) vs hvs
  unfold evalSub
  cases hc : AList.contains (Tree.node l (k :: ks)) ev with
  | true =>
    obtain ⟨v, hv⟩ := contains_true_lookup hc
    exact Or.inl ⟨ev, v, by simp, hs, Ext.refl _, hv⟩
  | false =>
    have hn := contains_false_lookup hc
    simp only [hf, hvs]
    cases ha : applyAll S f vs with
    | ok v =>
      refine Or.inl ⟨AList.insert (.node l (k :: ks)) v ev, v, by simp, ?_, Ext_insert v hn,
        AList.lookup_insert_self _ _ _⟩
      exact MemoSound_insert hs (by simp [denote, hleaf, hargs, ha])
    | error e =>
      exact Or.inr ⟨e, by simp, by simp [denote, hleaf, hargs, ha]⟩

mutual
  /-- processing `dfs t` from a sound table: either it completes, the table stays sound,
      grows, and now contains `t`; or it stops with exactly the exception of `denote t`. -/
  theorem loop_dfs (S : Sem σ V E) (inp : List V) :
      ∀ (t : Tree σ) (ev : Memo σ V), MemoSound S inp ev →
        MemoSound S inp (loop S inp ev (Tree.dfs t)).1 ∧ Ext ev (loop S inp ev (Tree.dfs t)).1 ∧
        ((loop S inp ev (Tree.dfs t)).2 = none → ∃ v, AList.lookup t (loop S inp ev (Tree.dfs t)).1 = some v) ∧
        (∀ e, (loop S inp ev (Tree.dfs t)).2 = some e → denote S inp t = .error e)
    | .node l [], ev, hs => by
      simp only [Tree.dfs, loop]
      rcases evalSub_leaf l hs with ⟨ev', v, h1, h2, h3, h4⟩ | ⟨e, h1, h2⟩
      · rw [h1]; exact ⟨h2, h3, fun _ => ⟨v, h4⟩, fun e h => by simp at h⟩
      · rw [h1]
        refine ⟨hs, Ext.refl _, fun h => by simp at h, fun e' h => ?_⟩
        simp at h; subst h; simp [denote, h2]
    | .node l (k :: ks), ev, hs => by
      simp only [Tree.dfs, loop]
      -- step 1: the head symbol
      rcases evalSub_leaf l hs with ⟨ev1, f0, h1, hs1, hx1, hl1⟩ | ⟨e, h1, h2⟩
      · have h1' : evalSub S inp ev (Tree.leaf l) = (ev1, none) := h1
        rw [h1']
        simp only
        obtain ⟨f, hf⟩ : ∃ f, AList.lookup (Tree.leaf l) ev1 = some f := ⟨f0, hl1⟩
        -- step 2: the arguments
        rw [loop_append]
        obtain ⟨hs2, hx2, hok2, herr2⟩ := loop_dfsList S inp (k :: ks) ev1 hs1
        cases hr : loop S inp ev1 (Tree.dfsList (k :: ks)) with
        | mk ev2 r2 =>
          rw [hr] at hs2 hx2 hok2 herr2
          cases r2 with
          | some e =>
            simp only
            refine ⟨hs2, hx1.trans hx2, fun h => by simp at h, fun e' h => ?_⟩
            simp at h; subst h
            have hleaf : S.leaf l inp = .ok f := by
              have := hs1 _ _ hf; rwa [denote_leaf] at this
            have := herr2 e rfl
            simp [denote, hleaf, this]
          | none =>
            simp only [loop]
            obtain ⟨vs, hvs⟩ := hok2 rfl
            have hf2 := hx2 _ _ hf
            -- step 3: the application itself
            rcases evalSub_app l k ks f vs hs2 hf2 hvs with ⟨ev3, v, h3, hs3, hx3, hl3⟩ | ⟨e, h3, hd⟩
            · rw [h3]
              exact ⟨hs3, (hx1.trans hx2).trans hx3, fun _ => ⟨v, hl3⟩, fun e h => by simp at h⟩
            · rw [h3]
              refine ⟨hs2, hx1.trans hx2, fun h => by simp at h, fun e' h => ?_⟩
              simp at h; subst h; exact hd
      · have h1' : evalSub S inp ev (Tree.leaf l) = (ev, some e) := h1
        rw [h1']
        refine ⟨hs, Ext.refl _, fun h => by simp at h, fun e' h => ?_⟩
        simp at h; subst h; simp [denote, h2]
  theorem loop_dfsList (S : Sem σ V E) (inp : List V) :
      ∀ (ts : List (Tree σ)) (ev : Memo σ V), MemoSound S inp ev →
        MemoSound S inp (loop S inp ev (Tree.dfsList ts)).1 ∧ Ext ev (loop S inp ev (Tree.dfsList ts)).1 ∧
        ((loop S inp ev (Tree.dfsList ts)).2 = none →
            ∃ vs, lookupAll (loop S inp ev (Tree.dfsList ts)).1 ts = some vs) ∧
        (∀ e, (loop S inp ev (Tree.dfsList ts)).2 = some e → denoteList S inp ts = .error e)
    | [], ev, hs => by
      simp only [Tree.dfsList, loop]
      exact ⟨hs, Ext.refl _, fun _ => ⟨[], rfl⟩, fun e h => by simp at h⟩
    | t :: ts, ev, hs => by
      simp only [Tree.dfsList]
      rw [loop_append]
      obtain ⟨hs1, hx1, hok1, herr1⟩ := loop_dfs S inp t ev hs
      cases hr : loop S inp ev (Tree.dfs t) with
      | mk ev1 r1 =>
        rw [hr] at hs1 hx1 hok1 herr1
        cases r1 with
        | some e =>
          simp only
          refine ⟨hs1, hx1, fun h => by simp at h, fun e' h => ?_⟩
          simp at h; subst h
          simp [denoteList, herr1 e rfl]
        | none =>
          simp only
          obtain ⟨v, hv⟩ := hok1 rfl
          obtain ⟨hs2, hx2, hok2, herr2⟩ := loop_dfsList S inp ts ev1 hs1
          refine ⟨hs2, hx1.trans hx2, fun h => ?_, fun e h => ?_⟩
          · obtain ⟨vs, hvs⟩ := hok2 h
            exact ⟨v :: vs, by simp [lookupAll, hx2 _ _ hv, hvs]⟩
          · have := herr2 e h
            simp [denoteList, hs1 _ _ hv, this]
end

end PS.C11
