/-
  C13, part 24: TERMINATION of `clean()` on the product table of `__mul_ttcfg__`: the machine of the
  product projects onto the machine of the left factor (rules of the product pair rules of the
  factors; with agreeing argument types the paired argument list projects to the left one), so a rank
  of the left factor's machine is a rank of the product's.
-/
import PS.Proofs.TtcfgTyped
namespace PS.T
open PS PS.G

variable {S T U V : Type} [DecidableEq S] [DecidableEq T] [DecidableEq U] [DecidableEq V]

/-- left projection of a configuration of the product -/
def projL (c : CConfig (S × U) (T × V)) : CConfig S T :=
  ((c.1.1, (c.1.2.1.1, c.1.2.2.1)), c.2.map (fun y => (y.1, y.2.1)))

omit [DecidableEq S] [DecidableEq U] in
theorem pairArgs_projL : ∀ (a1 : List (Ty × S)) (a2 : List (Ty × U)), a1.length = a2.length →
    (pairArgs a1 a2).map (fun y => (y.1, y.2.1)) = a1
  | [], [], _ => rfl
  | x :: a1, y :: a2, h => by
    simp only [pairArgs, List.zipWith_cons_cons, List.map_cons, List.cons.injEq, true_and]
    exact pairArgs_projL a1 a2 (by simpa using h)
  | [], _ :: _, h => by simp at h
  | _ :: _, [], h => by simp at h

theorem contains_mulRaw (G1 : TT S T) (G2 : TT U V) (ty : Ty) (s : S) (t : T) (u : U) (v : V)
    (h : inRules (mulRaw G1 G2) (pkey ty s t u v) = true) : inRules G1 (ty, (s, t)) = true := by
  unfold inRules AList.contains mulRaw at h
  simp only at h
  rw [lookup_mulRaw_aux] at h
  unfold inRules AList.contains
  cases h1 : AList.lookup (ty, (s, t)) G1.rules with
  | none => simp [h1] at h
  | some r1 => rfl

/-- **the machine of the product projects onto the machine of the left factor** -/
theorem cstep_projL (G1 : TT S T) (G2 : TT U V) (hag : ArgsAgree G1 G2) (c d : CConfig (S × U) (T × V))
    (h : CStep (mulRaw G1 G2) c d) : CStep G1 (projL c) (projL d) := by
  cases h with
  | mk rule info P args st hr hin =>
    obtain ⟨ty, ⟨s, u⟩, ⟨t, v⟩⟩ := rule
    have hk : ((ty, ((s, u), (t, v))) : NT (S × U) (T × V)) = pkey ty s t u v := rfl
    rw [hk, rule_mulRaw] at hr
    cases h1 : G1.rule? (ty, (s, t)) P with
    | none => simp [h1] at hr
    | some v1 =>
      cases h2 : G2.rule? (ty, (u, v)) P with
      | none => simp [h1, h2] at hr
      | some v2 =>
        simp only [h1, h2, Option.some.injEq, Prod.mk.injEq] at hr
        obtain ⟨ha, hst⟩ := hr
        subst ha; subst hst
        have hlen : v1.1.length = v2.1.length := by
          have := congrArg List.length (hag ty s t u v P v1 v2 h1 h2)
          simpa using this
        have hproj := pairArgs_projL v1.1 v2.1 hlen
        -- the next configuration
        have hd : projL ((deriveWith info (ty, ((s, u), (t, v))) (pairArgs v1.1 v2.1) (v1.2, v2.2)).2,
              (deriveWith info (ty, ((s, u), (t, v))) (pairArgs v1.1 v2.1) (v1.2, v2.2)).1) =
            ((deriveWith (info.map (fun y => (y.1, y.2.1))) (ty, (s, t)) v1.1 v1.2).2,
             (deriveWith (info.map (fun y => (y.1, y.2.1))) (ty, (s, t)) v1.1 v1.2).1) := by
          have hmap : (pairArgs v1.1 v2.1 ++ info).map (fun y => (y.1, y.2.1)) = v1.1 ++ info.map (fun y => (y.1, y.2.1)) := by
            rw [List.map_append, hproj]
          unfold deriveWith
          cases hm : pairArgs v1.1 v2.1 ++ info with
          | nil =>
            rw [hm] at hmap
            simp only [List.map_nil] at hmap
            rw [← hmap]
            simp [projL]
          | cons x rest =>
            rw [hm] at hmap
            simp only [List.map_cons] at hmap
            rw [← hmap]
            obtain ⟨xt, xs, xu⟩ := x
            simp [projL]
        have hin1 : inRules G1 (deriveWith (info.map (fun y => (y.1, y.2.1))) (ty, (s, t)) v1.1 v1.2).2 = true := by
          have := congrArg Prod.fst hd
          simp only [projL] at this
          rw [← this]
          generalize (deriveWith info (ty, ((s, u), (t, v))) (pairArgs v1.1 v2.1) (v1.2, v2.2)).2 = nt at hin
          obtain ⟨ty', ⟨s', u'⟩, ⟨t', v'⟩⟩ := nt
          exact contains_mulRaw G1 G2 ty' s' t' u' v' hin
        have hstep := CStep.mk (ty, (s, t)) (info.map (fun y => (y.1, y.2.1))) P v1.1 v1.2 h1 hin1
        rw [hd]
        exact hstep

/-! ### `clean()` on the product -/

omit [DecidableEq S] [DecidableEq T] [DecidableEq U] [DecidableEq V] in
theorem keys_mulRow_sublist (r2 : Row U V) : ∀ r1 : Row S T, (AList.keys (mulRow r1 r2)).Sublist (AList.keys r1)
  | [] => by simp [mulRow, AList.keys]
  | e :: r1 => by
    unfold mulRow
    rw [List.filterMap_cons]
    cases h : AList.lookup e.1 r2 with
    | none => simp only [AList.keys, List.map_cons]; exact (keys_mulRow_sublist r2 r1).cons _
    | some v2 =>
      simp only [AList.keys, List.map_cons]
      exact (keys_mulRow_sublist r2 r1).cons_cons _

omit [DecidableEq S] [DecidableEq T] [DecidableEq U] [DecidableEq V] in
theorem mem_mulRaw (G1 : TT S T) (G2 : TT U V) (e : NT (S × U) (T × V) × Row (S × U) (T × V))
    (he : e ∈ (mulRaw G1 G2).rules) : ∃ e1 ∈ G1.rules, ∃ e2 ∈ G2.rules, e.2 = mulRow e1.2 e2.2 := by
  simp only [mulRaw, List.mem_flatMap, List.mem_filterMap] at he
  obtain ⟨e1, he1, e2, he2, hh⟩ := he
  by_cases hty : e1.1.1 = e2.1.1
  · simp only [hty, if_true, Option.some.injEq] at hh
    exact ⟨e1, he1, e2, he2, by rw [← hh]⟩
  · simp [hty] at hh

omit [DecidableEq S] [DecidableEq T] [DecidableEq U] [DecidableEq V] in
theorem mulRaw_length (G1 : TT S T) (G2 : TT U V) : (mulRaw G1 G2).rules.length ≤ G1.rules.length * G2.rules.length := by
  simp only [mulRaw, List.length_flatMap]
  exact sum_map_le _ G2.rules.length G1.rules (fun e1 _ => List.length_filterMap_le _ _)

/-- **`clean()` (as it is now) returns on the product** of a factor whose machine has a rank with any
    factor that gives symbols the same argument types -/
theorem mul_clean_terminates (G1 : TT S T) (G2 : TT U V) (hag : ArgsAgree G1 G2) (b : Nat)
    (hb : ∀ e ∈ G1.rules, e.2.length ≤ b) (hr1 : rowsNodup G1 = true)
    (rk1 : CConfig S T → Nat) (hdec1 : ∀ c d, CStep G1 c d → rk1 d < rk1 c) (fuel : Nat)
    (hf : satBound b (rk1 (projL ((mulRaw G1 G2).start, []))) + G1.rules.length * G2.rules.length + 1 ≤ fuel) :
    ∃ G, cleanFixed (mulRaw G1 G2) fuel = .ok G := by
  unfold cleanFixed
  by_cases hs : AList.contains (mulRaw G1 G2).start (mulRaw G1 G2).rules = true
  · simp only [hs, if_true]
    apply clean_terminates (mulRaw G1 G2) b ?_ ?_ (fun c => rk1 (projL c))
      (fun c d hcd => hdec1 _ _ (cstep_projL G1 G2 hag c d hcd)) hs fuel
    · have := mulRaw_length G1 G2
      omega
    · intro e he
      obtain ⟨e1, he1, e2, _, hrow⟩ := mem_mulRaw G1 G2 e he
      rw [hrow]
      unfold mulRow
      exact Nat.le_trans (List.length_filterMap_le _ _) (hb e1 he1)
    · unfold rowsNodup
      rw [List.all_eq_true]
      intro e he
      obtain ⟨e1, he1, e2, _, hrow⟩ := mem_mulRaw G1 G2 e he
      rw [hrow]
      simp only [decide_eq_true_eq]
      exact (keys_mulRow_sublist e2.2 e1.2).nodup (rowsNodupT_of G1 hr1 e1 he1)
  · simp only [hs, Bool.false_eq_true, if_false]
    exact ⟨_, rfl⟩

/-! ### constructed factors -/

/-- the machine of a constructed grammar (saturation, then clean) inherits the rank of the worklist;
    its rows are dicts of at most `|variables| + |primitives|` rules -/
theorem constructed_machine (B : Builder S T) (dsl : Dsl) (request : Ty) (hd : noUnknownDsl dsl request = true)
    (rk : NT S T × List (Ty × S) → Nat)
    (hdec : ∀ (rule : NT S T) (stack : List (Ty × S)), ∀ p ∈ pushesOf B dsl.prims request rule stack,
      rk (entryKey p) < rk (rule, stack))
    (stackKey : Bool) (fuel : Nat) (G0 G : TT S T) (h0 : saturationTable B dsl.prims request stackKey fuel = some G0)
    (h1 : clean G0 fuel = .ok G) :
    (∀ c d, CStep G c d → rk d < rk c) ∧ (∀ e ∈ G.rules, e.2.length ≤ request.arguments.length + dsl.prims.length) ∧
    rowsNodup G = true := by
  obtain ⟨_, _, _, hrows⟩ := saturationTable_spec B dsl.prims request stackKey fuel G0 h0
  obtain ⟨_, c2, c3⟩ := saturation_countHyps B dsl request stackKey fuel G0 hd h0
  obtain ⟨nr, e, hinv⟩ := clean_result G0 G c2 fuel h1
  have hrn := (clean_countHyps G0 G c2 c3 fuel h1).1
  subst e
  refine ⟨?_, ?_, hrn⟩
  · intro c d hcd
    cases hcd with
    | mk rule info P args st hr hin =>
      have hr0 := rule_restrict G0 nr rule P (args, st) hr
      have hin0 : inRules G0 (deriveWith info rule args st).2 = true := by
        unfold inRules AList.contains at hin
        cases hl : AList.lookup (deriveWith info rule args st).2 (restrict G0 nr).rules with
        | none => rw [hl] at hin; cases hin
        | some row' =>
          obtain ⟨row, hrow, _⟩ := restrict_sub G0 nr hinv _ row' hl
          exact contains_of_lookup hrow
      obtain ⟨p, hp, ep⟩ := cstep_push B dsl.prims request G0 hrows c2 _ _ (CStep.mk rule info P args st hr0 hin0)
      rw [← ep]; exact hdec rule info p hp
  · intro e he
    obtain ⟨l, hmem, hrow⟩ := restrict_mem G0 nr e he
    have hc : AList.contains e.1 nr = true := contains_of_lookup (AList.lookup_of_mem_nodup hinv.keys hmem)
    obtain ⟨row, hg⟩ := lookup_of_contains (hinv.sub e.1 hc)
    have hkn : (AList.keys e.2).Nodup := rowsNodupT_of _ hrn e he
    have hsub : ∀ k ∈ AList.keys e.2, k ∈ AList.keys row := by
      intro k hk
      simp only [AList.keys, List.mem_map] at hk
      obtain ⟨r, hr, rfl⟩ := hk
      rw [hrow, List.mem_filterMap] at hr
      obtain ⟨P, _, hP⟩ := hr
      cases hrl : G0.rule? e.1 P with
      | none => simp [hrl] at hP
      | some v =>
        simp only [hrl, Option.some.injEq] at hP
        subst hP
        unfold TT.rule? at hrl
        rw [hg] at hrl
        exact List.mem_map.mpr ⟨(P, v), AList.lookup_some_mem hrl, rfl⟩
    have h1' := length_le_of_nodup_subset' hkn hsub
    have h2' : row.length ≤ request.arguments.length + dsl.prims.length := by
      have := hrows _ (AList.lookup_some_mem hg)
      simp only at this
      rw [this]; exact rowDict_length B dsl.prims request e.1
    simp only [AList.keys, List.length_map] at h1'
    omega

end PS.T
