/-
  Quotients: renaming the states of an automaton by a map `c` that passes the executable
  congruence certificate `congruenceCert` keeps the language.  `minimise` returns
  `mapStates (clsTuple st) A` for its final partition `st`.
-/
import PS.Proofs.Dfta
set_option linter.unusedSectionVars false
namespace PS
namespace DFTA
variable {σ Q X : Type} [DecidableEq σ] [DecidableEq Q] [DecidableEq X]

theorem mem_consumers (A : DFTA σ Q) (l : σ) (pre post : List Q) (a d : Q)
    (hr : ((l, pre ++ a :: post), d) ∈ A.rules) :
    ((l, pre ++ a :: post), pre.length) ∈ consumers A a := by
  unfold consumers
  refine List.mem_flatMap.mpr ⟨_, hr, ?_⟩
  refine List.mem_filterMap.mpr ⟨pre.length, ?_, ?_⟩
  · simp
  · simp

/-- what the certificate says, as a proposition: one replacement step -/
theorem cert_step (A : DFTA σ Q) (hd : A.Det) (c : Q → X) (S : List Q)
    (hc : congruenceCert A c S = true) (l : σ) (pre post : List Q) (a q d : Q)
    (ha : a ∈ S) (hq : q ∈ S) (he : c a = c q) (hr : ((l, pre ++ a :: post), d) ∈ A.rules) :
    ∃ d', ((l, pre ++ q :: post), d') ∈ A.rules ∧ c d' = c d := by
  unfold congruenceCert at hc
  rw [List.all_eq_true] at hc
  have h1 := hc a ha
  rw [List.all_eq_true] at h1
  have h2 := h1 q hq
  rw [if_pos he, Bool.and_eq_true, List.all_eq_true] at h2
  have h3 := h2.2 _ (mem_consumers A l pre post a d hr)
  simp only at h3
  rw [(AList.lookup_eq_some_iff_mem hd).mpr hr] at h3
  have hset : (pre ++ a :: post).set pre.length q = pre ++ q :: post := by simp
  rw [hset] at h3
  cases hl : AList.lookup (l, pre ++ q :: post) A.rules with
  | none => rw [hl] at h3; simp at h3
  | some d' =>
    rw [hl] at h3
    simp only [decide_eq_true_eq] at h3
    exact ⟨d', AList.lookup_some_mem hl, h3.symm⟩

theorem cert_final (A : DFTA σ Q) (c : Q → X) (S : List Q)
    (hc : congruenceCert A c S = true) (a q : Q) (ha : a ∈ S) (hq : q ∈ S) (he : c a = c q) :
    a ∈ A.finals ↔ q ∈ A.finals := by
  unfold congruenceCert at hc
  rw [List.all_eq_true] at hc
  have h1 := hc a ha
  rw [List.all_eq_true] at h1
  have h2 := h1 q hq
  rw [if_pos he, Bool.and_eq_true] at h2
  have := h2.1
  simp only [beq_iff_eq, decide_eq_decide] at this
  exact this

/-- several positions: replace one at a time -/
theorem cert_steps (A : DFTA σ Q) (hd : A.Det) (c : Q → X) (S : List Q)
    (hc : congruenceCert A c S = true) (l : σ) :
    ∀ (args qs pre : List Q) (d : Q), (∀ a ∈ args, a ∈ S) → (∀ q ∈ qs, q ∈ S) →
      args.map c = qs.map c → ((l, pre ++ args), d) ∈ A.rules →
      ∃ d', ((l, pre ++ qs), d') ∈ A.rules ∧ c d' = c d := by
  intro args
  induction args with
  | nil =>
    intro qs pre d _ _ he hr
    cases qs with
    | nil => exact ⟨d, hr, rfl⟩
    | cons _ _ => simp at he
  | cons a args ih =>
    intro qs pre d ha hq he hr
    cases qs with
    | nil => simp at he
    | cons q qs =>
      simp only [List.map_cons, List.cons.injEq] at he
      obtain ⟨d1, hr1, e1⟩ := cert_step A hd c S hc l pre args a q d (ha a List.mem_cons_self)
        (hq q List.mem_cons_self) he.1 hr
      have hr1' : ((l, (pre ++ [q]) ++ args), d1) ∈ A.rules := by simpa using hr1
      obtain ⟨d2, hr2, e2⟩ := ih qs (pre ++ [q]) d1 (fun x hx => ha x (List.mem_cons_of_mem _ hx))
        (fun x hx => hq x (List.mem_cons_of_mem _ hx)) he.2 hr1'
      exact ⟨d2, by simpa using hr2, by rw [e2, e1]⟩

theorem read_quotient (A : DFTA σ Q) (hd : A.Det) (c : Q → X) (S : List Q)
    (hS : ∀ x ∈ allStates A, x ∈ S)
    (hc : congruenceCert A c S = true) (l : σ) (qs : List Q)
    (hqs : ∀ x ∈ qs, x ∈ allStates A) :
    (mapStates c A).read l (qs.map c) = (A.read l qs).map c := by
  have key : ∀ v, ((l, qs.map c), v) ∈ A.rules.map (fun rule => ((rule.1.1, rule.1.2.map c), c rule.2)) →
      ∃ d, A.read l qs = some d ∧ v = c d := by
    intro v hv
    obtain ⟨⟨⟨l', args⟩, d⟩, hr, he⟩ := List.mem_map.mp hv
    simp only [Prod.mk.injEq] at he
    obtain ⟨⟨e1, e2⟩, e3⟩ := he
    subst e1
    obtain ⟨d', hr', e'⟩ := cert_steps A hd c S hc l' args qs [] d
      (fun a ha => hS a ((mem_allStates_of_rule A hr).2 a ha)) (fun q hq => hS q (hqs q hq)) e2 (by simpa using hr)
    exact ⟨d', (read_eq_some_iff A hd _ _ _).mpr (by simpa using hr'), by rw [e', e3]⟩
  cases h1 : A.read l qs with
  | none =>
    cases h : (mapStates c A).read l (qs.map c) with
    | none => rfl
    | some v =>
      obtain ⟨d, hd', _⟩ := key v (AList.lookup_ofList_some h)
      rw [h1] at hd'; cases hd'
  | some d =>
    simp only [Option.map_some]
    apply AList.lookup_insertMany_of_mem
    · exact ⟨((l, qs.map c), c d), List.mem_map.mpr ⟨((l, qs), d), (read_eq_some_iff A hd _ _ _).mp h1, rfl⟩, rfl⟩
    · rintro ⟨k, v⟩ hx hk
      simp only at hk
      subst hk
      obtain ⟨d', hd', e⟩ := key v hx
      rw [h1] at hd'
      simp only [Option.some.injEq] at hd'
      subst hd'; exact e

theorem run_quotient (A : DFTA σ Q) (hd : A.Det) (c : Q → X) (S : List Q)
    (hS : ∀ x ∈ allStates A, x ∈ S)
    (hc : congruenceCert A c S = true) (t : Tree σ) :
    run (mapStates c A) t = (run A t).map c ∧ ∀ q, run A t = some q → q ∈ allStates A :=
  run_hom A (mapStates c A) c (· ∈ allStates A)
    (fun _ _ _ _ hq => (mem_allStates_of_rule A (AList.lookup_some_mem hq)).1)
    (fun l qs hqs => read_quotient A hd c S hS hc l qs hqs) t

theorem accepts_quotient (A : DFTA σ Q) (hd : A.Det) (c : Q → X) (S : List Q)
    (hS : ∀ x ∈ allStates A, x ∈ S)
    (hc : congruenceCert A c S = true) (t : Tree σ) :
    (mapStates c A).accepts t = A.accepts t := by
  obtain ⟨h1, h2⟩ := run_quotient A hd c S hS hc t
  unfold accepts
  rw [h1]
  cases hq : run A t with
  | none => rfl
  | some q =>
    simp only [Option.map_some, mapStates, List.mem_map]
    have hqa := h2 q hq
    by_cases hf : q ∈ A.finals
    · simp only [hf, decide_true, decide_eq_true_eq]; exact ⟨q, hf, rfl⟩
    · simp only [hf, decide_false, decide_eq_false_iff_not]
      rintro ⟨q', hq', e⟩
      have hq'a : q' ∈ allStates A := List.mem_append_right _ hq'
      exact hf ((cert_final A c S hc q' q (hS _ hq'a) (hS _ hqa) e).mp hq')

theorem allStates_subset_stateSet (A : DFTA σ Q) : ∀ x ∈ allStates A, x ∈ stateSet A := by
  intro x hx
  exact (mem_foldl_addNew _ _ _).mpr (Or.inr hx)

/-- `minimise` returns the quotient of its input by the final partition -/
theorem minimiseCore_eq (f : List Q → X) (A : DFTA σ Q) (cls0 cls1 : List Q) (fuel : Nat)
    (M : DFTA σ X) (h : minimiseCore f A cls0 cls1 fuel = some M) :
    ∃ st, minimiseState A cls0 cls1 fuel = some st ∧ M = mapStates (fun q => f (clsTuple st q)) A := by
  unfold minimiseCore at h
  unfold minimiseState
  simp only at h ⊢
  split at h
  · cases h
  · rename_i st hst
    simp only [Option.some.injEq] at h
    exact ⟨st, hst, h.symm⟩

end DFTA
end PS
