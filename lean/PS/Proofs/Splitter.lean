/- Lemmas for C08: derivation prefixes, covers, the operation trace, masses. -/
import PS.Model.Splitter
namespace PS.Sp
open PS PS.G

variable {U : Type} [DecidableEq U]

/-! ### well-formedness as propositions -/

structure WFp (pg : PUG U) : Prop where
  tags_keys : AList.keys pg.tags = AList.keys pg.g.rules
  rules_ok : ∀ S rs, (S, rs) ∈ pg.g.rules → S.1 ≠ Ty.unknown ∧ (AList.keys rs).Nodup ∧ (alts pg.g S).Nodup ∧
    ∀ r ∈ rs, ∀ args ∈ r.2, ∀ a ∈ args, a.1 ≠ Ty.unknown
  starts_nodup : pg.g.starts.Nodup
  starts_ok : ∀ s ∈ pg.g.starts, s ∈ AList.keys pg.startTags ∧ s.1 ≠ Ty.unknown
  stkeys_nodup : (AList.keys pg.startTags).Nodup
  stkeys_sub : ∀ s ∈ AList.keys pg.startTags, s ∈ pg.g.starts

theorem WF_sound {pg : PUG U} (h : WF pg = true) : WFp pg := by
  simp only [WF, wfRules, Bool.and_eq_true, List.all_eq_true, decide_eq_true_eq, bne_iff_ne, ne_eq,
    List.contains_iff_mem] at h
  obtain ⟨⟨⟨⟨⟨⟨h1, _⟩, h3⟩, h4⟩, h5⟩, h6⟩, h7⟩ := h
  refine ⟨h3, ?_, h7, ?_, h4, h6⟩
  · intro S rs hm
    obtain ⟨⟨⟨a, b⟩, c⟩, d⟩ := h1 (S, rs) hm
    refine ⟨a, b, c, ?_⟩
    intro r hr args ha x hx
    exact (d r hr).2 args ha x hx
  · intro s hs
    exact h5 s hs


/-! ### leftmost derivations -/

theorem run_append (G : UG U) : ∀ (w1 w2 : List (Step U)) (c : List (UNT U)),
    run G c (w1 ++ w2) = (run G c w1).bind (fun c' => run G c' w2)
  | [], w2, c => by simp [run]
  | st :: w1, w2, [] => by simp [run]
  | st :: w1, w2, S :: rest => by
    simp only [List.cons_append, run]
    split
    · exact run_append G w1 w2 _
    · simp

theorem run_nil_config (G : UG U) (w : List (Step U)) (c : List (UNT U)) (h : run G [] w = some c) :
    w = [] ∧ c = [] := by
  cases w with
  | nil => simp [run] at h; exact ⟨rfl, h⟩
  | cons a b => simp [run] at h

/-- a complete continuation of a non-empty stack starts with a rule of its top -/
theorem run_cons_complete (G : UG U) (S : UNT U) (rest : List (UNT U)) (w : List (Step U))
    (h : run G (S :: rest) w = some []) :
    ∃ P args w', w = (S, P, args) :: w' ∧ (P, args) ∈ alts G S ∧ run G (args ++ rest) w' = some [] := by
  cases w with
  | nil => simp [run] at h
  | cons st w' =>
    obtain ⟨S', P, args⟩ := st
    simp only [run] at h
    split at h
    · rename_i hc
      exact ⟨P, args, w', by rw [hc.1], hc.2, h⟩
    · cases h

/-! ### nodes -/

theorem steps_child (pg : PUG U) (n : Node U) (P : Sym) (d : List (UNT U) × UNT U × List (UNT U))
    (h1 : n.program.length = n.history.length) (h2 : n.choices.length = n.history.length) :
    (child pg n P d).steps = n.steps ++ [(n.S, P, d.2.2)] := by
  simp only [Node.steps, child]
  rw [List.zip_append (by rw [h1, h2]), List.zip_append (by simp [h1, h2])]
  simp

theorem start_child (pg : PUG U) (n : Node U) (P : Sym) (d : List (UNT U) × UNT U × List (UNT U)) :
    (child pg n P d).start = n.start := by
  simp only [Node.start, child]
  cases n.history <;> simp

omit [DecidableEq U] in
/-- the stack after one more rule -/
theorem config_deriveOne (G : UG U) (info args : List (UNT U))
    (hi : ∀ x ∈ info, x.1 ≠ Ty.unknown) (ha : ∀ x ∈ args, x.1 ≠ Ty.unknown) :
    (if (deriveOne G info args).2.1 = Ty.unknown then [] else (deriveOne G info args).2 :: (deriveOne G info args).1)
      = args ++ info := by
  cases args with
  | cons a as => simp [deriveOne, ha a (by simp)]
  | nil =>
    cases info with
    | cons i is => simp [deriveOne, hi i (by simp)]
    | nil => simp [deriveOne]

/-- `__node_split__` returns one child per alternative of the next non-terminal -/
theorem nodeSplit_eq {pg : PUG U} (hw : WFp pg) {n : Node U} {kids : List (Node U)}
    (h : nodeSplit pg n = (true, kids)) :
    (∃ rs, (n.S, rs) ∈ pg.g.rules) ∧
    kids = (alts pg.g n.S).map (fun pa => child pg n pa.1
      ((deriveOne pg.g n.info pa.2).1, (deriveOne pg.g n.info pa.2).2, pa.2)) := by
  unfold nodeSplit at h
  split at h
  · rename_i hc
    have hk : n.S ∈ AList.keys pg.g.rules := by
      rw [← hw.tags_keys]; exact AList.lookup_isSome_iff_mem_keys.mp hc
    have hl := AList.lookup_isSome_iff_mem_keys.mpr hk
    cases hlk : AList.lookup n.S pg.g.rules with
    | none => rw [hlk] at hl; cases hl
    | some rs =>
      have hmem := AList.lookup_some_mem hlk
      refine ⟨⟨rs, hmem⟩, ?_⟩
      rw [hlk] at h
      simp only [Prod.mk.injEq, true_and] at h
      rw [← h]
      have hnd := (hw.rules_ok _ _ hmem).2.1
      simp only [alts, hlk, List.map_flatMap, List.map_map]
      -- both sides are flatMaps over rs; compare the bodies on members
      have key : ∀ r ∈ rs, (derive pg.g n.info n.S r.1).map (child pg n r.1) =
          r.2.map ((fun pa : Sym × List (UNT U) => child pg n pa.1
            ((deriveOne pg.g n.info pa.2).1, (deriveOne pg.g n.info pa.2).2, pa.2)) ∘ fun a => (r.1, a)) := by
        intro r hr
        have : AList.lookup r.1 rs = some r.2 := AList.lookup_of_mem_nodup hnd (by cases r; exact hr)
        simp [derive, hlk, this, Function.comp_def]
      clear h hlk hmem hnd
      induction rs with
      | nil => rfl
      | cons r rs ih =>
        simp only [List.flatMap_cons]
        rw [key r (by simp), ih (fun r' hr' => key r' (by simp [hr']))]
  · cases h


theorem mem_alts {G : UG U} {S : UNT U} {P : Sym} {args : List (UNT U)} (h : (P, args) ∈ alts G S) :
    ∃ rs, (S, rs) ∈ G.rules ∧ ∃ r ∈ rs, r.1 = P ∧ args ∈ r.2 := by
  unfold alts at h
  cases hl : AList.lookup S G.rules with
  | none => rw [hl] at h; cases h
  | some rs =>
    rw [hl] at h
    simp only [List.mem_flatMap, List.mem_map, Prod.mk.injEq] at h
    obtain ⟨r, hr, a, ha, h1, h2⟩ := h
    exact ⟨rs, AList.lookup_some_mem hl, r, hr, h1, h2 ▸ ha⟩

/-- the fields of a valid node whose next non-terminal has rules -/
theorem config_of_rules {pg : PUG U} (hw : WFp pg) {n : Node U} {rs} (hm : (n.S, rs) ∈ pg.g.rules) :
    n.config = n.S :: n.info := by
  simp [Node.config, (hw.rules_ok _ _ hm).1]

theorem kids_valid {pg : PUG U} (hw : WFp pg) {n : Node U} {kids : List (Node U)}
    (hv : Valid pg.g n) (h : nodeSplit pg n = (true, kids)) : ∀ k ∈ kids, Valid pg.g k := by
  obtain ⟨⟨rs, hm⟩, hk⟩ := nodeSplit_eq hw h
  have hc := config_of_rules hw hm
  obtain ⟨v1, v2, v3, v4, v5⟩ := hv
  rw [hc] at v4 v5
  intro k hkm
  rw [hk] at hkm
  simp only [List.mem_map] at hkm
  obtain ⟨⟨P, args⟩, hpa, rfl⟩ := hkm
  obtain ⟨rs', hm', r, hr, _, hargs⟩ := mem_alts hpa
  have hargsok : ∀ x ∈ args, x.1 ≠ Ty.unknown := (hw.rules_ok _ _ hm').2.2.2 r hr args hargs
  have hinfo : ∀ x ∈ n.info, x.1 ≠ Ty.unknown := fun x hx => v5 x (by simp [hx])
  have hcfg : (child pg n P ((deriveOne pg.g n.info args).1, (deriveOne pg.g n.info args).2, args)).config
      = args ++ n.info := by
    simp only [Node.config, child]
    exact config_deriveOne pg.g n.info args hinfo hargsok
  refine ⟨?_, ?_, ?_, ?_, ?_⟩
  · rw [start_child]; exact v1
  · simp [child, v2]
  · simp [child, v3]
  · rw [start_child, steps_child pg n P _ v2 v3, run_append, v4, hcfg]
    simp [run, hpa]
  · rw [hcfg]
    intro x hx
    rcases List.mem_append.mp hx with hx | hx
    · exact hargsok x hx
    · exact hinfo x hx

/-- **one split step keeps the cover**: the children of a node cover exactly the node's cell -/
theorem kids_count {pg : PUG U} (hw : WFp pg) {n : Node U} {kids : List (Node U)}
    (hv : Valid pg.g n) (h : nodeSplit pg n = (true, kids)) (s : UNT U) (w : List (Step U))
    (hd : Deriv pg.g s w) :
    kids.countP (fun k => decide (Matches k s w)) = if Matches n s w then 1 else 0 := by
  obtain ⟨⟨rs, hm⟩, hk⟩ := nodeSplit_eq hw h
  have hc := config_of_rules hw hm
  obtain ⟨v1, v2, v3, v4, v5⟩ := hv
  rw [hc] at v4
  rw [hk, List.countP_map]
  by_cases hmt : Matches n s w
  · rw [if_pos hmt]
    obtain ⟨hs, rem, hrem⟩ := hmt
    subst hrem
    have hrun := hd.2
    rw [← hs, run_append, v4] at hrun
    simp only [Option.bind_some] at hrun
    obtain ⟨P, args, w', rfl, hpa, _⟩ := run_cons_complete _ _ _ _ hrun
    have hcount : (alts pg.g n.S).count (P, args) = 1 := by
      rw [List.Nodup.count (hw.rules_ok _ _ hm).2.2.1]; simp [hpa]
    rw [← hcount, List.count_eq_countP]
    apply List.countP_congr
    intro pa _
    simp only [Function.comp, Matches, start_child, steps_child pg n pa.1 _ v2 v3, hs, true_and,
      decide_eq_true_eq, List.prefix_append_right_inj, List.cons_prefix_cons, List.nil_prefix, and_true,
      Prod.mk.injEq, beq_iff_eq]
    constructor
    · intro h; exact Prod.ext h.1 h.2
    · intro h; rw [h]; exact ⟨rfl, rfl⟩
  · rw [if_neg hmt]
    apply List.countP_eq_zero.mpr
    intro pa _
    simp only [Function.comp, decide_eq_true_eq]
    intro hk2
    apply hmt
    obtain ⟨h1, h2⟩ := hk2
    rw [start_child] at h1
    rw [steps_child pg n pa.1 _ v2 v3] at h2
    exact ⟨h1, List.IsPrefix.trans (List.prefix_append _ _) h2⟩


/-! ### covers are invariant under permutation and under splitting a node -/

theorem cover_of_perm {G : UG U} {ns ns' : List (Node U)} (hp : ns.Perm ns') (h : IsCover G ns) :
    IsCover G ns' :=
  ⟨fun n hn => h.1 n (hp.mem_iff.mpr hn), fun s w hd => by rw [← hp.countP_eq]; exact h.2 s w hd⟩

theorem cover_of_perm_split {pg : PUG U} (hw : WFp pg) {ns ns' kids : List (Node U)} {nd : Node U}
    (h : IsCover pg.g ns) (hnd : nd ∈ ns) (hs : nodeSplit pg nd = (true, kids))
    (hp : (nd :: ns').Perm (ns ++ kids)) : IsCover pg.g ns' := by
  have hv := h.1 nd hnd
  refine ⟨?_, ?_⟩
  · intro n hn
    have : n ∈ ns ++ kids := hp.mem_iff.mp (List.mem_cons_of_mem _ hn)
    rcases List.mem_append.mp this with h1 | h1
    · exact h.1 n h1
    · exact kids_valid hw hv hs n h1
  · intro s w hd
    have h1 := hp.countP_eq (fun n => decide (Matches n s w))
    rw [List.countP_append, h.2 s w hd, kids_count hw hv hs s w hd, List.countP_cons] at h1
    by_cases hm : Matches nd s w
    · simp [hm] at h1; omega
    · simp [hm] at h1; omega

omit [DecidableEq U] in
theorem perm_cons_eraseIdx {α : Type} : ∀ (l : List α) (i : Nat) (x : α), l[i]? = some x →
    l.Perm (x :: l.eraseIdx i)
  | [], _, _, h => by simp at h
  | a :: l, 0, x, h => by simp at h; subst h; simp
  | a :: l, i + 1, x, h => by
    simp at h
    have := perm_cons_eraseIdx l i x h
    simp only [List.eraseIdx_cons_succ]
    exact (List.Perm.cons a this).trans (List.Perm.swap x a _)

omit [DecidableEq U] in
theorem flat_set_perm : ∀ (pgs : PG U) (i : Nat) (g g' : List (Node U) × Rat), pgs[i]? = some g →
    (flat (pgs.set i g') ++ g.1).Perm (flat pgs ++ g'.1)
  | [], _, _, _, h => by simp at h
  | x :: r, 0, g, g', h => by
    simp at h; subst h
    simp only [flat, List.set_cons_zero, List.flatMap_cons]
    exact (List.perm_append_comm).trans (by
      rw [List.append_assoc]
      exact List.Perm.append_left _ List.perm_append_comm)
  | x :: r, i + 1, g, g', h => by
    simp at h
    have ih := flat_set_perm r i g g' h
    simp only [flat, List.set_cons_succ, List.flatMap_cons, List.append_assoc] at ih ⊢
    exact List.Perm.append_left _ ih

omit [DecidableEq U] in
theorem mem_flat_of_getElem {pgs : PG U} {i : Nat} {g : List (Node U) × Rat} (h : pgs[i]? = some g)
    {n : Node U} (hn : n ∈ g.1) : n ∈ flat pgs := by
  simp only [flat, List.mem_flatMap]
  exact ⟨g, List.mem_of_getElem? h, hn⟩

omit [DecidableEq U] in
theorem insertByMass_perm (x : List (Node U) × Rat) : ∀ l : PG U, (insertByMass x l).Perm (x :: l)
  | [] => by simp [insertByMass]
  | y :: r => by
    simp only [insertByMass]
    split
    · exact (List.Perm.cons y (insertByMass_perm x r)).trans (List.Perm.swap x y r)
    · exact List.Perm.refl _

omit [DecidableEq U] in
theorem sortByMass_perm : ∀ l : PG U, (sortByMass l).Perm l
  | [] => by simp [sortByMass]
  | x :: r => by
    simp only [sortByMass, List.foldr_cons]
    exact (insertByMass_perm x _).trans (List.Perm.cons x (sortByMass_perm r))

omit [DecidableEq U] in
theorem flat_perm {a b : PG U} (h : a.Perm b) : (flat a).Perm (flat b) := List.Perm.flatMap_right _ h

omit [DecidableEq U] in
theorem moveNode_perm {pgs pgs' : PG U} {src idx dst : Nat} (h : moveNode pgs src idx dst = some pgs') :
    (flat pgs').Perm (flat pgs) := by
  unfold moveNode at h
  split at h
  · cases h
  · rename_i gs hgs
    split at h
    · cases h
    · rename_i nd hnd
      simp only at h
      split at h
      · cases h
      · rename_i gd hgd
        simp only [Option.some.injEq] at h
        subst h
        have p1 := flat_set_perm pgs src gs (gs.1.eraseIdx idx, gs.2 - nd.prob) hgs
        have p2 := flat_set_perm _ dst gd (gd.1 ++ [nd], gd.2 + nd.prob) hgd
        have p3 := perm_cons_eraseIdx gs.1 idx nd hnd
        simp only at p1 p2
        -- nd :: flat pgs1 ~ flat pgs
        have q1 : (nd :: flat (pgs.set src (gs.1.eraseIdx idx, gs.2 - nd.prob))).Perm (flat pgs) := by
          have : ((nd :: flat (pgs.set src (gs.1.eraseIdx idx, gs.2 - nd.prob))) ++ gs.1.eraseIdx idx).Perm
              (flat pgs ++ gs.1.eraseIdx idx) := by
            refine List.Perm.trans ?_ p1
            simp only [List.cons_append]
            exact (List.perm_middle.symm).trans (List.Perm.append_left _ p3.symm)
          exact (List.perm_append_right_iff _).mp this
        have q2 : (flat ((pgs.set src (gs.1.eraseIdx idx, gs.2 - nd.prob)).set dst (gd.1 ++ [nd], gd.2 + nd.prob))).Perm
            (nd :: flat (pgs.set src (gs.1.eraseIdx idx, gs.2 - nd.prob))) := by
          have : (flat ((pgs.set src (gs.1.eraseIdx idx, gs.2 - nd.prob)).set dst (gd.1 ++ [nd], gd.2 + nd.prob)) ++ gd.1).Perm
              ((nd :: flat (pgs.set src (gs.1.eraseIdx idx, gs.2 - nd.prob))) ++ gd.1) := by
            refine p2.trans ?_
            simp only [List.cons_append]
            rw [← List.append_assoc]
            exact (List.perm_append_comm).trans (by simp)
          exact (List.perm_append_right_iff _).mp this
        exact q2.trans q1

omit [DecidableEq U] in
theorem applySwap_perm {pgs pgs' : PG U} {gi j : Nat} {k : Option Nat} {l : Nat}
    (h : applySwap pgs gi j k l = some pgs') : (flat pgs').Perm (flat pgs) := by
  unfold applySwap at h
  cases k with
  | none =>
    simp only at h
    split at h
    · cases h
    · rename_i pgs2 h2
      simp only [Option.some.injEq] at h; subst h
      exact (flat_perm (sortByMass_perm _)).trans (moveNode_perm h2)
  | some k =>
    simp only at h
    split at h
    · cases h
    · rename_i pgs1 h1
      split at h
      · cases h
      · rename_i pgs2 h2
        simp only [Option.some.injEq] at h; subst h
        exact ((flat_perm (sortByMass_perm _)).trans (moveNode_perm h2)).trans (moveNode_perm h1)

theorem trySplitLoop_spec (pg : PUG U) (ga : List (Node U)) (order : List Nat) :
    ∀ (f i : Nat) (idx : Nat) (kids : List (Node U)), trySplitLoop pg ga order f i = some (idx, kids) →
      ∃ nd, ga[idx]? = some nd ∧ nodeSplit pg nd = (true, kids)
  | 0, _, _, _, h => by simp [trySplitLoop] at h
  | f + 1, i, idx, kids, h => by
    simp only [trySplitLoop] at h
    split at h
    · cases h
    · split at h
      · cases h
      · rename_i idx' _
        split at h
        · cases h
        · rename_i nd hnd
          split at h
          · rename_i kids' hs
            simp only [Option.some.injEq, Prod.mk.injEq] at h
            obtain ⟨rfl, rfl⟩ := h
            exact ⟨nd, hnd, hs⟩
          · split at h
            · exact trySplitLoop_spec pg ga order f (i + 1) idx kids h
            · cases h

theorem trySplit_cover {pg : PUG U} (hw : WFp pg) {pgs pgs' : PG U} {gi : Nat}
    (h : trySplit pg pgs gi = some pgs') (hc : IsCover pg.g (flat pgs)) : IsCover pg.g (flat pgs') := by
  unfold trySplit at h
  split at h
  · cases h
  · rename_i ga hga
    split at h
    · cases h
    · rename_i idx kids hl
      simp only [Option.some.injEq] at h; subst h
      obtain ⟨nd, hnd, hs⟩ := trySplitLoop_spec pg ga.1 _ _ _ _ _ hl
      have p1 := flat_set_perm pgs gi ga (ga.1.eraseIdx idx ++ kids, ga.2) hga
      have p3 := perm_cons_eraseIdx ga.1 idx nd hnd
      simp only at p1
      refine cover_of_perm_split hw hc (mem_flat_of_getElem hga (List.mem_of_getElem? hnd)) hs ?_
      have : ((nd :: flat (pgs.set gi (ga.1.eraseIdx idx ++ kids, ga.2))) ++ ga.1.eraseIdx idx).Perm
          ((flat pgs ++ kids) ++ ga.1.eraseIdx idx) := by
        have a : ((nd :: flat (pgs.set gi (ga.1.eraseIdx idx ++ kids, ga.2))) ++ ga.1.eraseIdx idx).Perm
            (flat (pgs.set gi (ga.1.eraseIdx idx ++ kids, ga.2)) ++ ga.1) := by
          simp only [List.cons_append]
          exact (List.perm_middle.symm).trans (List.Perm.append_left _ p3.symm)
        refine a.trans (p1.trans ?_)
        rw [List.append_assoc]
        exact List.Perm.append_left _ List.perm_append_comm
      exact (List.perm_append_right_iff _).mp this


theorem applyOp_cover {pg : PUG U} (hw : WFp pg) {pgs pgs' : PG U} {op : Op}
    (h : applyOp pg pgs op = some pgs') (hc : IsCover pg.g (flat pgs)) : IsCover pg.g (flat pgs') := by
  cases op with
  | swap gi j k l => exact cover_of_perm (applySwap_perm h).symm hc
  | splitIn gi => exact trySplit_cover hw h hc

theorem applyTrace_cover {pg : PUG U} (hw : WFp pg) : ∀ (tr : List Op) (pgs pgs' : PG U),
    applyTrace pg pgs tr = some pgs' → IsCover pg.g (flat pgs) → IsCover pg.g (flat pgs')
  | [], pgs, pgs', h, hc => by simp [applyTrace] at h; subst h; exact hc
  | op :: tr, pgs, pgs', h, hc => by
    simp only [applyTrace] at h
    split at h
    · cases h
    · rename_i pgs1 h1
      exact applyTrace_cover hw tr pgs1 pgs' h (applyOp_cover hw h1 hc)

omit [DecidableEq U] in
theorem countP_group_le (p : Node U → Bool) : ∀ (pgs : PG U) (j : Nat) (g : List (Node U) × Rat),
    pgs[j]? = some g → g.1.countP p ≤ (flat pgs).countP p
  | [], _, _, h => by simp at h
  | x :: r, 0, g, h => by simp at h; subst h; simp [flat, List.countP_append]
  | x :: r, j + 1, g, h => by
    simp at h
    have := countP_group_le p r j g h
    simp only [flat, List.flatMap_cons, List.countP_append] at this ⊢
    omega

omit [DecidableEq U] in
/-- if exactly one node of all groups satisfies `p`, exactly one group contains such a node -/
theorem unique_group (p : Node U → Bool) : ∀ (pgs : PG U), (flat pgs).countP p = 1 →
    ∃ (i : Nat) (g : List (Node U) × Rat), pgs[i]? = some g ∧ g.1.countP p = 1 ∧
      ∀ (j : Nat) (g' : List (Node U) × Rat), pgs[j]? = some g' → j ≠ i → g'.1.countP p = 0
  | [], h => by simp [flat] at h
  | x :: r, h => by
    simp only [flat, List.flatMap_cons, List.countP_append] at h
    by_cases hx : x.1.countP p = 0
    · have hr : (flat r).countP p = 1 := by simp only [flat]; omega
      obtain ⟨i, g, hg, h1, h2⟩ := unique_group p r hr
      refine ⟨i + 1, g, by simpa using hg, h1, ?_⟩
      intro j g' hj hne
      cases j with
      | zero => simp at hj; subst hj; exact hx
      | succ j => exact h2 j g' (by simpa using hj) (by omega)
    · have hr : (flat r).countP p = 0 := by simp only [flat]; omega
      refine ⟨0, x, by simp, by omega, ?_⟩
      intro j g' hj hne
      cases j with
      | zero => exact absurd rfl hne
      | succ j =>
        have := countP_group_le p r j g' (by simpa using hj)
        omega


/-! ### the nodes of `__split_nodes_until_quantity_reached__` -/

theorem cover_start {pg : PUG U} (hw : WFp pg) : IsCover pg.g (startNodes pg) := by
  refine ⟨?_, ?_⟩
  · intro n hn
    simp only [startNodes, List.mem_map] at hn
    obtain ⟨kp, hkp, rfl⟩ := hn
    have hk : kp.1 ∈ AList.keys pg.startTags := List.mem_map.mpr ⟨kp, hkp, rfl⟩
    have hs := hw.stkeys_sub _ hk
    have hu := (hw.starts_ok _ hs).2
    refine ⟨hs, rfl, rfl, ?_, ?_⟩
    · simp [Node.start, Node.steps, Node.config, run, hu]
    · simp [Node.config, hu]
  · intro s w hd
    have hk := (hw.starts_ok s hd.1).1
    have hc : (AList.keys pg.startTags).count s = 1 := by
      rw [List.Nodup.count hw.stkeys_nodup]; simp [hk]
    rw [← hc, List.count_eq_countP]
    simp only [startNodes, AList.keys, List.countP_map]
    apply List.countP_congr
    intro kp _
    simp [Function.comp, Matches, Node.start, Node.steps]

theorem splitSome_spec (pg : PUG U) : ∀ (f i : Nat) (nodes kids rest : List (Node U)),
    splitSome pg f i nodes = some (kids, rest) →
      ∃ nd, nodes.Perm (nd :: rest) ∧ nodeSplit pg nd = (true, kids)
  | 0, _, _, _, _, h => by simp [splitSome] at h
  | f + 1, i, nodes, kids, rest, h => by
    simp only [splitSome] at h
    split at h
    · cases h
    · split at h
      · cases h
      · rename_i nd hnd
        have hp := perm_cons_eraseIdx nodes _ nd hnd
        split at h
        · rename_i kids' hs
          simp only [Option.some.injEq, Prod.mk.injEq] at h
          obtain ⟨rfl, rfl⟩ := h
          exact ⟨nd, hp, hs⟩
        · obtain ⟨nd', hp', hs'⟩ := splitSome_spec pg f (i + 1) _ kids rest h
          refine ⟨nd', ?_, hs'⟩
          exact (hp.trans (List.perm_append_comm (l₁ := [nd]))).trans hp'

omit [DecidableEq U] in
theorem insertNode_perm (nodes : List (Node U)) (k : Node U) : (insertNode nodes k).Perm (k :: nodes) := by
  simp only [insertNode, insertAt]
  exact List.perm_middle.trans (by rw [List.take_append_drop])

omit [DecidableEq U] in
theorem foldl_insertNode_perm : ∀ (kids rest : List (Node U)), (kids.foldl insertNode rest).Perm (kids ++ rest)
  | [], rest => by simp
  | k :: ks, rest => by
    simp only [List.foldl_cons, List.cons_append]
    exact (foldl_insertNode_perm ks _).trans
      ((List.Perm.append_left ks (insertNode_perm rest k)).trans List.perm_middle)

theorem splitUntil_cover {pg : PUG U} (hw : WFp pg) (q : Nat) : ∀ (f : Nat) (nodes res : List (Node U)),
    splitUntil pg q f nodes = some res → IsCover pg.g nodes → IsCover pg.g res
  | 0, nodes, res, h, hc => by
    simp only [splitUntil] at h
    split at h
    · cases h
    · simp at h; subst h; exact hc
  | f + 1, nodes, res, h, hc => by
    simp only [splitUntil] at h
    split at h
    · split at h
      · cases h
      · rename_i kids rest hs
        obtain ⟨nd, hp, hsp⟩ := splitSome_spec pg _ _ _ _ _ hs
        refine splitUntil_cover hw q f _ res h ?_
        refine cover_of_perm_split hw hc (hp.mem_iff.mpr (by simp)) hsp ?_
        have a := foldl_insertNode_perm kids rest
        exact (List.Perm.cons nd a).trans (List.perm_middle.symm.trans
          ((List.Perm.append_left kids hp.symm).trans List.perm_append_comm))
    · simp at h; subst h; exact hc

omit [DecidableEq U] in
theorem flat_map_mass (gs : List (List (Node U))) (m : List (Node U) → Rat) :
    flat (gs.map (fun g => (g, m g))) = gs.flatten := by
  induction gs with
  | nil => rfl
  | cons g r ih => simp only [flat, List.map_cons, List.flatMap_cons, List.flatten_cons] at ih ⊢; rw [ih]

omit [DecidableEq U] in
theorem flatten_singletons (l : List (Node U)) : (l.map (fun n => [n])).flatten = l := by
  induction l with
  | nil => rfl
  | cons a r ih => simp [ih]

omit [DecidableEq U] in
theorem initGroups_perm (nodes : List (Node U)) (splits : Nat) (h : 0 < splits) :
    (flat (initGroups nodes splits)).Perm nodes := by
  unfold initGroups
  refine (flat_perm (sortByMass_perm _)).trans ?_
  rw [flat_map_mass]
  cases hn : nodes.take splits with
  | nil =>
    have : nodes = [] := by
      cases nodes with
      | nil => rfl
      | cons a r => cases splits with
        | zero => omega
        | succ k => simp at hn
    simp [this]
  | cons a t =>
    simp only [List.map_cons, List.flatten_cons, flatten_singletons]
    have e : nodes = (a :: t) ++ nodes.drop splits := by rw [← hn, List.take_append_drop]
    conv => rhs; rw [e]
    simp only [List.cons_append, List.nil_append]
    exact List.Perm.cons a List.perm_append_comm

/-! ### masses -/

theorem sum_map_mul_left {α : Type} (l : List α) (c : Rat) (f : α → Rat) :
    (l.map (fun x => c * f x)).sum = c * (l.map f).sum := by
  induction l with
  | nil => simp
  | cons a r ih => simp only [List.map_cons, List.sum_cons, ih, Rat.mul_add]

/-- the children of a node carry the node's probability times the total weight of the rules -/
theorem kids_mass {pg : PUG U} (hw : WFp pg) {n : Node U} {kids : List (Node U)}
    (h : nodeSplit pg n = (true, kids)) :
    (kids.map (·.prob)).sum = n.prob * ((alts pg.g n.S).map (fun pa => tagOf pg n.S pa.1 pa.2)).sum := by
  rw [(nodeSplit_eq hw h).2, List.map_map, ← sum_map_mul_left]
  rfl


theorem stepsProb_append (pg : PUG U) : ∀ (a b : List (Step U)),
    stepsProb pg (a ++ b) = stepsProb pg a * stepsProb pg b
  | [], b => by simp [stepsProb]
  | st :: a, b => by simp only [List.cons_append, stepsProb, stepsProb_append pg a b, Rat.mul_assoc]

/-- the total weight of the continuations of a stack with at most `k` steps -/
theorem completions_mass (pg : PUG U) : ∀ (k : Nat) (c : List (UNT U)),
    ((completions pg.g k c).map (stepsProb pg)).sum = tailMass pg k c
  | 0, [] => by simp [completions, tailMass, stepsProb, Rat.add_zero]
  | k + 1, [] => by simp [completions, tailMass, stepsProb, Rat.add_zero]
  | 0, S :: rest => by simp [completions, tailMass]
  | k + 1, S :: rest => by
    simp only [completions, tailMass]
    generalize alts pg.g S = l
    induction l with
    | nil => simp
    | cons pa l ih =>
      simp only [List.flatMap_cons, List.map_append, List.sum_append, List.map_cons, List.sum_cons, ih]
      congr 1
      rw [List.map_map, ← completions_mass pg k (pa.2 ++ rest), ← sum_map_mul_left]
      rfl

end PS.Sp
