/-
  C16, helper lemmas 1/2: CPython's set algorithms (`mkSet`, `symDiffEmpty`) over a Bool-valued
  equivalence relation: they compute set equality modulo the relation, and any function that
  respects the relation sees the same multiset of values on the representatives.
-/
import PS.Model.HashEq
namespace PS.C16
open PS

variable {α : Type}

structure IsEquiv (R : α → α → Bool) : Prop where
  refl : ∀ x, R x x = true
  symm : ∀ x y, R x y = true → R y x = true
  trans : ∀ x y z, R x y = true → R y z = true → R x z = true

/-- no two entries match -/
def NodupR (R : α → α → Bool) (l : List α) : Prop := l.Pairwise (fun x y => R x y = false)

theorem setMem_iff (R : α → α → Bool) (s : List α) (t : α) :
    setMem R s t = true ↔ ∃ e ∈ s, R e t = true := by
  simp [setMem, List.any_eq_true]

theorem setMem_false (R : α → α → Bool) (s : List α) (t : α) (h : setMem R s t = false) :
    ∀ e ∈ s, R e t = false := by
  intro e he
  cases hr : R e t with
  | false => rfl
  | true =>
    have : setMem R s t = true := (setMem_iff R s t).mpr ⟨e, he, hr⟩
    rw [h] at this; cases this

theorem subset_setAdd (R : α → α → Bool) (s : List α) (t x : α) (hx : x ∈ s) : x ∈ setAdd R s t := by
  unfold setAdd; split
  · exact hx
  · exact List.mem_append_left _ hx

theorem mem_setAdd (R : α → α → Bool) (s : List α) (t x : α) (hx : x ∈ setAdd R s t) : x ∈ s ∨ x = t := by
  unfold setAdd at hx; split at hx
  · exact Or.inl hx
  · rcases List.mem_append.mp hx with h | h
    · exact Or.inl h
    · exact Or.inr (by simpa using h)

theorem nodup_setAdd (R : α → α → Bool) (s : List α) (t : α) (hs : NodupR R s) : NodupR R (setAdd R s t) := by
  unfold setAdd
  cases hm : setMem R s t with
  | true => simpa using hs
  | false =>
    simp only [Bool.false_eq_true, if_false]
    unfold NodupR
    rw [List.pairwise_append]
    refine ⟨hs, by simp, ?_⟩
    intro a ha b hb
    have : b = t := by simpa using hb
    subst this
    exact setMem_false R s b hm a ha

theorem mem_foldl_setAdd (R : α → α → Bool) (l acc : List α) (x : α)
    (hx : x ∈ l.foldl (setAdd R) acc) : x ∈ acc ∨ x ∈ l := by
  induction l generalizing acc with
  | nil => exact Or.inl hx
  | cons t l ih =>
    rcases ih _ hx with h | h
    · rcases mem_setAdd R acc t x h with h | h
      · exact Or.inl h
      · subst h; exact Or.inr (by simp)
    · exact Or.inr (List.mem_cons_of_mem _ h)

theorem cover_foldl_setAdd (R : α → α → Bool) (hR : IsEquiv R) (l acc : List α) (x : α)
    (hx : (∃ e ∈ acc, R e x = true) ∨ x ∈ l) : ∃ e ∈ l.foldl (setAdd R) acc, R e x = true := by
  induction l generalizing acc with
  | nil =>
    rcases hx with h | h
    · exact h
    · cases h
  | cons t l ih =>
    apply ih
    rcases hx with ⟨e, he, hr⟩ | h
    · exact Or.inl ⟨e, subset_setAdd R acc t e he, hr⟩
    · rcases List.mem_cons.mp h with h | h
      · subst h
        cases hm : setMem R acc x with
        | true =>
          obtain ⟨e, he, hr⟩ := (setMem_iff R acc x).mp hm
          exact Or.inl ⟨e, subset_setAdd R acc x e he, hr⟩
        | false =>
          refine Or.inl ⟨x, ?_, hR.refl x⟩
          unfold setAdd; simp [hm]
      · exact Or.inr h

theorem nodup_foldl_setAdd (R : α → α → Bool) (l acc : List α) (h : NodupR R acc) :
    NodupR R (l.foldl (setAdd R) acc) := by
  induction l generalizing acc with
  | nil => exact h
  | cons t l ih => exact ih _ (nodup_setAdd R acc t h)

theorem mem_mkSet (R : α → α → Bool) (l : List α) (x : α) (hx : x ∈ mkSet R l) : x ∈ l := by
  rcases mem_foldl_setAdd R l [] x hx with h | h
  · cases h
  · exact h

theorem cover_mkSet (R : α → α → Bool) (hR : IsEquiv R) (l : List α) (x : α) (hx : x ∈ l) :
    ∃ e ∈ mkSet R l, R e x = true := cover_foldl_setAdd R hR l [] x (Or.inr hx)

theorem nodup_mkSet (R : α → α → Bool) (l : List α) : NodupR R (mkSet R l) :=
  nodup_foldl_setAdd R l [] List.Pairwise.nil

/-! ### discard -/

theorem setDiscard_sublist (R : α → α → Bool) (s : List α) (t : α) : (setDiscard R s t).Sublist s := by
  induction s with
  | nil => exact List.Sublist.refl _
  | cons e s ih =>
    unfold setDiscard; split
    · exact List.sublist_cons_self e s
    · exact ih.cons_cons e

theorem mem_setDiscard_of (R : α → α → Bool) (s : List α) (t x : α) (hx : x ∈ s) (hr : R x t = false) :
    x ∈ setDiscard R s t := by
  induction s with
  | nil => cases hx
  | cons e s ih =>
    unfold setDiscard
    rcases List.mem_cons.mp hx with h | h
    · subst h; simp [hr]
    · split
      · exact h
      · exact List.mem_cons_of_mem _ (ih h)

theorem setDiscard_not_match (R : α → α → Bool) (hR : IsEquiv R) (s : List α) (t x : α)
    (hs : NodupR R s) (hm : setMem R s t = true) (hx : x ∈ setDiscard R s t) : R x t = false := by
  induction s with
  | nil => simp [setMem] at hm
  | cons e s ih =>
    have hs' := List.pairwise_cons.mp hs
    unfold setDiscard at hx
    cases he : R e t with
    | true =>
      simp only [he, if_true] at hx
      cases hxt : R x t with
      | false => rfl
      | true =>
        have h1 : R e x = true := hR.trans e t x he (hR.symm x t hxt)
        rw [hs'.1 x hx] at h1; cases h1
    | false =>
      simp only [he, Bool.false_eq_true, if_false] at hx
      rcases List.mem_cons.mp hx with h | h
      · subst h; exact he
      · apply ih hs'.2 _ h
        simpa [setMem, he] using hm

/-! ### the symmetric-difference loop -/

theorem symfold_nil_iff (R : α → α → Bool) (hR : IsEquiv R) (O C : List α)
    (hO : NodupR R O) (hC : NodupR R C) :
    O.foldl (symStep R) C = [] ↔
      (∀ t ∈ O, ∃ e ∈ C, R e t = true) ∧ (∀ e ∈ C, ∃ t ∈ O, R e t = true) := by
  induction O generalizing C with
  | nil =>
    constructor
    · intro h
      simp only [List.foldl_nil] at h
      subst h
      exact ⟨by simp, by simp⟩
    · intro ⟨_, h2⟩
      cases C with
      | nil => rfl
      | cons e C => obtain ⟨t, ht, _⟩ := h2 e (by simp); cases ht
  | cons t O ih =>
    have hO' := List.pairwise_cons.mp hO
    simp only [List.foldl_cons]
    cases hm : setMem R C t with
    | true =>
      have hstep : symStep R C t = setDiscard R C t := by simp [symStep, hm]
      rw [hstep, ih _ hO'.2 (List.Pairwise.sublist (setDiscard_sublist R C t) hC)]
      constructor
      · intro ⟨h1, h2⟩
        constructor
        · intro t' ht'
          rcases List.mem_cons.mp ht' with h | h
          · subst h; exact (setMem_iff R C t').mp hm
          · obtain ⟨e, he, hr⟩ := h1 t' h
            exact ⟨e, (setDiscard_sublist R C t).subset he, hr⟩
        · intro e he
          cases hr : R e t with
          | true => exact ⟨t, by simp, hr⟩
          | false =>
            obtain ⟨t', ht', hr'⟩ := h2 e (mem_setDiscard_of R C t e he hr)
            exact ⟨t', List.mem_cons_of_mem _ ht', hr'⟩
      · intro ⟨h1, h2⟩
        constructor
        · intro t' ht'
          obtain ⟨e, he, hr⟩ := h1 t' (List.mem_cons_of_mem _ ht')
          refine ⟨e, mem_setDiscard_of R C t e he ?_, hr⟩
          cases hrt : R e t with
          | false => rfl
          | true =>
            have : R t t' = true := hR.trans t e t' (hR.symm e t hrt) hr
            rw [hO'.1 t' ht'] at this; cases this
        · intro e he
          have heC := (setDiscard_sublist R C t).subset he
          have hne := setDiscard_not_match R hR C t e hC hm he
          obtain ⟨t', ht', hr'⟩ := h2 e heC
          rcases List.mem_cons.mp ht' with h | h
          · subst h; rw [hne] at hr'; cases hr'
          · exact ⟨t', h, hr'⟩
    | false =>
      have hstep : symStep R C t = C ++ [t] := by simp [symStep, hm]
      have hnd : NodupR R (C ++ [t]) := by
        have := nodup_setAdd R C t hC
        simpa [setAdd, hm] using this
      rw [hstep, ih _ hO'.2 hnd]
      constructor
      · intro ⟨_, h2⟩
        obtain ⟨t', ht', hr⟩ := h2 t (by simp)
        rw [hO'.1 t' ht'] at hr; cases hr
      · intro ⟨h1, _⟩
        obtain ⟨e, he, hr⟩ := h1 t (by simp)
        rw [setMem_false R C t hm e he] at hr; cases hr

/-- CPython's `len(set(o).symmetric_difference(s)) == 0` decides mutual inclusion modulo `R` -/
theorem symDiffEmpty_iff (R : α → α → Bool) (hR : IsEquiv R) (o s : List α) :
    symDiffEmpty R o s = true ↔
      (∀ t ∈ o, ∃ e ∈ s, R e t = true) ∧ (∀ e ∈ s, ∃ t ∈ o, R e t = true) := by
  unfold symDiffEmpty
  rw [List.isEmpty_iff, symfold_nil_iff R hR _ _ (nodup_mkSet R o) (nodup_mkSet R s)]
  constructor
  · intro ⟨h1, h2⟩
    constructor
    · intro t ht
      obtain ⟨t0, ht0, hr0⟩ := cover_mkSet R hR o t ht
      obtain ⟨e, he, hr⟩ := h1 t0 ht0
      exact ⟨e, mem_mkSet R s e he, hR.trans e t0 t hr hr0⟩
    · intro e he
      obtain ⟨e0, he0, hr0⟩ := cover_mkSet R hR s e he
      obtain ⟨t, ht, hr⟩ := h2 e0 he0
      exact ⟨t, mem_mkSet R o t ht, hR.trans e e0 t (hR.symm e0 e hr0) hr⟩
  · intro ⟨h1, h2⟩
    constructor
    · intro t ht
      obtain ⟨e, he, hr⟩ := h1 t (mem_mkSet R o t ht)
      obtain ⟨e0, he0, hr0⟩ := cover_mkSet R hR s e he
      exact ⟨e0, he0, hR.trans e0 e t hr0 hr⟩
    · intro e he
      obtain ⟨t, ht, hr⟩ := h2 e (mem_mkSet R s e he)
      obtain ⟨t0, ht0, hr0⟩ := cover_mkSet R hR o t ht
      exact ⟨t0, ht0, hR.trans e t t0 hr (hR.symm t0 t hr0)⟩

/-! ### representatives seen through a function that respects the relation -/

theorem perm_map_of_cover (R : α → α → Bool) (hR : IsEquiv R) (f : α → Int) (L1 L2 : List α)
    (h1 : NodupR R L1) (h2 : NodupR R L2)
    (c12 : ∀ x ∈ L1, ∃ y ∈ L2, R x y = true) (c21 : ∀ y ∈ L2, ∃ x ∈ L1, R x y = true)
    (hf : ∀ x ∈ L1, ∀ y, R x y = true → f x = f y) :
    (L1.map f).Perm (L2.map f) := by
  induction L1 generalizing L2 with
  | nil =>
    cases L2 with
    | nil => exact List.Perm.refl _
    | cons y L2 => obtain ⟨x, hx, _⟩ := c21 y (by simp); cases hx
  | cons a L1 ih =>
    have h1' := List.pairwise_cons.mp h1
    obtain ⟨b, hb, hab⟩ := c12 a (by simp)
    obtain ⟨pre, post, hsplit⟩ := List.append_of_mem hb
    subst hsplit
    have h2' : NodupR R (pre ++ post) := by
      refine List.Pairwise.sublist ?_ h2
      exact List.Sublist.append (List.Sublist.refl pre) (List.sublist_cons_self b post)
    have hbne : ∀ y ∈ pre ++ post, R b y = false := by
      intro y hy
      have hp := List.pairwise_append.mp h2
      rcases List.mem_append.mp hy with h | h
      · have : R y b = false := hp.2.2 y h b (by simp)
        cases hr : R b y with
        | false => rfl
        | true => rw [hR.symm b y hr] at this; cases this
      · exact (List.pairwise_cons.mp hp.2.1).1 y h
    have hrec := ih (pre ++ post) h1'.2 h2' ?_ ?_ (fun x hx => hf x (List.mem_cons_of_mem _ hx))
    · have e1 : f a = f b := hf a (by simp) b hab
      simp only [List.map_cons, List.map_append]
      rw [e1]
      refine List.Perm.trans (List.Perm.cons _ ?_) (List.perm_middle).symm
      simpa [List.map_append] using hrec
    · intro x hx
      obtain ⟨y, hy, hxy⟩ := c12 x (List.mem_cons_of_mem _ hx)
      rcases List.mem_append.mp hy with h | h
      · exact ⟨y, List.mem_append_left _ h, hxy⟩
      · rcases List.mem_cons.mp h with h | h
        · subst h
          have : R a x = true := hR.trans a y x hab (hR.symm x y hxy)
          rw [h1'.1 x hx] at this; cases this
        · exact ⟨y, List.mem_append_right _ h, hxy⟩
    · intro y hy
      have hy' : y ∈ pre ++ b :: post := by
        rcases List.mem_append.mp hy with h | h
        · exact List.mem_append_left _ h
        · exact List.mem_append_right _ (List.mem_cons_of_mem _ h)
      obtain ⟨x, hx, hxy⟩ := c21 y hy'
      rcases List.mem_cons.mp hx with h | h
      · subst h
        have : R b y = true := hR.trans b x y (hR.symm x b hab) hxy
        rw [hbne y hy] at this; cases this
      · exact ⟨x, h, hxy⟩

/-- two lists that are equal as sets modulo `R` give, after `mkSet`, permutation-equal images
    under any function respecting `R` -/
theorem perm_mkSet_map (R : α → α → Bool) (hR : IsEquiv R) (f : α → Int) (l1 l2 : List α)
    (c12 : ∀ x ∈ l1, ∃ y ∈ l2, R x y = true) (c21 : ∀ y ∈ l2, ∃ x ∈ l1, R x y = true)
    (hf : ∀ x ∈ l1, ∀ y, R x y = true → f x = f y) :
    ((mkSet R l1).map f).Perm ((mkSet R l2).map f) := by
  apply perm_map_of_cover R hR f _ _ (nodup_mkSet R l1) (nodup_mkSet R l2)
  · intro x hx
    obtain ⟨y, hy, hxy⟩ := c12 x (mem_mkSet R l1 x hx)
    obtain ⟨y0, hy0, hr0⟩ := cover_mkSet R hR l2 y hy
    exact ⟨y0, hy0, hR.trans x y y0 hxy (hR.symm y0 y hr0)⟩
  · intro y hy
    obtain ⟨x, hx, hxy⟩ := c21 y (mem_mkSet R l2 y hy)
    obtain ⟨x0, hx0, hr0⟩ := cover_mkSet R hR l1 x hx
    exact ⟨x0, hx0, hR.trans x0 x y hr0 hxy⟩
  · intro x hx y hxy
    exact hf x (mem_mkSet R l1 x hx) y hxy

/-! ### congruence: the algorithms only look at the relation on the elements they are given -/

theorem setMem_congr (R R' : α → α → Bool) (U : α → Prop) (hRR : ∀ x y, U x → U y → R x y = R' x y)
    (s : List α) (t : α) (hs : ∀ x ∈ s, U x) (ht : U t) : setMem R s t = setMem R' s t := by
  induction s with
  | nil => rfl
  | cons e s ih =>
    simp only [setMem, List.any_cons] at ih ⊢
    rw [hRR e t (hs e (by simp)) ht, ih (fun x hx => hs x (List.mem_cons_of_mem _ hx))]

theorem foldl_setAdd_congr (R R' : α → α → Bool) (U : α → Prop) (hRR : ∀ x y, U x → U y → R x y = R' x y)
    (l acc : List α) (hl : ∀ x ∈ l, U x) (ha : ∀ x ∈ acc, U x) :
    l.foldl (setAdd R) acc = l.foldl (setAdd R') acc := by
  induction l generalizing acc with
  | nil => rfl
  | cons t l ih =>
    simp only [List.foldl_cons]
    have e : setAdd R acc t = setAdd R' acc t := by
      unfold setAdd; rw [setMem_congr R R' U hRR acc t ha (hl t (by simp))]
    rw [e]
    apply ih _ (fun x hx => hl x (List.mem_cons_of_mem _ hx))
    intro x hx
    rcases mem_setAdd R' acc t x hx with h | h
    · exact ha x h
    · subst h; exact hl x (by simp)

theorem mkSet_congr (R R' : α → α → Bool) (U : α → Prop) (hRR : ∀ x y, U x → U y → R x y = R' x y)
    (l : List α) (hl : ∀ x ∈ l, U x) : mkSet R l = mkSet R' l :=
  foldl_setAdd_congr R R' U hRR l [] hl (by simp)

theorem setDiscard_congr (R R' : α → α → Bool) (U : α → Prop) (hRR : ∀ x y, U x → U y → R x y = R' x y)
    (s : List α) (t : α) (hs : ∀ x ∈ s, U x) (ht : U t) : setDiscard R s t = setDiscard R' s t := by
  induction s with
  | nil => rfl
  | cons e s ih =>
    unfold setDiscard
    rw [hRR e t (hs e (by simp)) ht, ih (fun x hx => hs x (List.mem_cons_of_mem _ hx))]

theorem symfold_congr (R R' : α → α → Bool) (U : α → Prop) (hRR : ∀ x y, U x → U y → R x y = R' x y)
    (O C : List α) (hO : ∀ x ∈ O, U x) (hC : ∀ x ∈ C, U x) :
    O.foldl (symStep R) C = O.foldl (symStep R') C := by
  induction O generalizing C with
  | nil => rfl
  | cons t O ih =>
    simp only [List.foldl_cons]
    have ht := hO t (by simp)
    have e : symStep R C t = symStep R' C t := by
      unfold symStep
      rw [setMem_congr R R' U hRR C t hC ht, setDiscard_congr R R' U hRR C t hC ht]
    rw [e]
    apply ih _ (fun x hx => hO x (List.mem_cons_of_mem _ hx))
    intro x hx
    unfold symStep at hx
    split at hx
    · exact hC x ((setDiscard_sublist R' C t).subset hx)
    · rcases List.mem_append.mp hx with h | h
      · exact hC x h
      · have : x = t := by simpa using h
        subst this; exact ht

theorem symDiffEmpty_congr (R R' : α → α → Bool) (U : α → Prop) (hRR : ∀ x y, U x → U y → R x y = R' x y)
    (o s : List α) (ho : ∀ x ∈ o, U x) (hs : ∀ x ∈ s, U x) :
    symDiffEmpty R o s = symDiffEmpty R' o s := by
  unfold symDiffEmpty
  rw [mkSet_congr R R' U hRR o ho, mkSet_congr R R' U hRR s hs,
      symfold_congr R R' U hRR _ _ (fun x hx => ho x (mem_mkSet R' o x hx)) (fun x hx => hs x (mem_mkSet R' s x hx))]

/-- `mkSet` over pairs `(x, f x)` compared on the first component -/
theorem mkSet_pairs (R : α → α → Bool) (f : α → Int) (l : List α) :
    (mkSet (fun (e t : α × Int) => R e.1 t.1) (l.map (fun x => (x, f x)))).map (·.2) = (mkSet R l).map f := by
  have key : ∀ (l acc : List α),
      (l.map (fun x => (x, f x))).foldl (setAdd (fun (e t : α × Int) => R e.1 t.1)) (acc.map (fun x => (x, f x)))
        = (l.foldl (setAdd R) acc).map (fun x => (x, f x)) := by
    intro l
    induction l with
    | nil => intro acc; rfl
    | cons t l ih =>
      intro acc
      simp only [List.map_cons, List.foldl_cons]
      have e : setAdd (fun (e t : α × Int) => R e.1 t.1) (acc.map (fun x => (x, f x))) (t, f t)
          = (setAdd R acc t).map (fun x => (x, f x)) := by
        unfold setAdd setMem
        simp only [List.any_map, Function.comp_def]
        split <;> simp
      rw [e, ih]
  have := key l []
  simp only [List.map_nil] at this
  unfold mkSet
  rw [this, List.map_map]
  rfl

end PS.C16
