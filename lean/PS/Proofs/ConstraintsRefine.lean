/-
  C05, part 2: every construction step adds a BOTTOM-UP ATTRIBUTE of the sub-tree.
  `Refines B A w val`: the automaton `A` reads a tree into the state `B` reads it into, with the
  `w` components `val t` (a function of the tree alone) put on top; final states correspond.
  `tag_refines`, `count_refines`, transitivity.
-/
import PS.Proofs.ConstraintsTable
set_option linter.unusedSectionVars false
namespace PS.C05
open PS DFTA

variable {σ Q : Type} [DecidableEq σ] [DecidableEq Q]

/-- put the components `cs` (newest first) on top of a state -/
def extL (d : St Q) (cs : List Nat) : St Q := (d.1, cs ++ d.2)

@[simp] theorem extL_nil (d : St Q) : extL d [] = d := rfl
theorem extL_extL (d : St Q) (a b : List Nat) : extL (extL d a) b = extL d (b ++ a) := by
  simp [extL, List.append_assoc]
theorem ext_eq_extL (d : St Q) (v : Nat) : ext d v = extL d [v] := rfl

structure Refines (B A : DFTA σ (St Q)) (w : Nat) (val : Tree σ → List Nat) : Prop where
  det : A.Det
  run : ∀ t, run A t = (run B t).map (fun d => extL d (val t))
  len : ∀ t d, DFTA.run B t = some d → (val t).length = w
  finDown : ∀ q ∈ A.finals, ∃ d ∈ B.finals, ∃ cs : List Nat, cs.length = w ∧ q = extL d cs
  finUp : ∀ t d, DFTA.run B t = some d → d ∈ B.finals → extL d (val t) ∈ A.finals
  finNe : B.finals ≠ [] → A.finals ≠ []

theorem Refines.refl (B : DFTA σ (St Q)) (hd : B.Det) : Refines B B 0 (fun _ => []) where
  det := hd
  run t := by cases DFTA.run B t <;> simp
  len _ _ _ := rfl
  finDown q hq := ⟨q, hq, [], rfl, rfl⟩
  finUp _ d _ hd := by simpa using hd
  finNe h := h

theorem Refines.trans {B A C : DFTA σ (St Q)} {w1 w2 : Nat} {v1 v2 : Tree σ → List Nat}
    (h1 : Refines B A w1 v1) (h2 : Refines A C w2 v2) :
    Refines B C (w2 + w1) (fun t => v2 t ++ v1 t) where
  det := h2.det
  run t := by
    rw [h2.run, h1.run]
    cases DFTA.run B t with
    | none => rfl
    | some d => simp [extL_extL]
  len t d hd := by
    have ha : DFTA.run A t = some (extL d (v1 t)) := by rw [h1.run, hd]; rfl
    simp [h1.len t d hd, h2.len t _ ha]
  finDown q hq := by
    obtain ⟨a, ha, cs2, hl2, e2⟩ := h2.finDown q hq
    obtain ⟨d, hd, cs1, hl1, e1⟩ := h1.finDown a ha
    exact ⟨d, hd, cs2 ++ cs1, by simp [hl1, hl2], by rw [e2, e1, extL_extL]⟩
  finUp t d hd hf := by
    have ha : DFTA.run A t = some (extL d (v1 t)) := by rw [h1.run, hd]; rfl
    have := h2.finUp t _ ha (h1.finUp t d hd hf)
    rwa [extL_extL] at this
  finNe h := h2.finNe (h1.finNe h)

/-- replace the attribute function by one that agrees wherever the run is defined -/
theorem Refines.congr {B A : DFTA σ (St Q)} {w : Nat} {v v' : Tree σ → List Nat}
    (h : Refines B A w v) (hv : ∀ t d, DFTA.run B t = some d → v t = v' t) : Refines B A w v' where
  det := h.det
  run t := by
    rw [h.run]
    cases hr : DFTA.run B t with
    | none => rfl
    | some d => simp [hv t d hr]
  len t d hd := by rw [← hv t d hd]; exact h.len t d hd
  finDown := h.finDown
  finUp t d hd hf := by rw [← hv t d hd]; exact h.finUp t d hd hf
  finNe := h.finNe

/-- language of a refinement (before any post-processing) -/
theorem Refines.accepts {B A : DFTA σ (St Q)} {w : Nat} {v : Tree σ → List Nat}
    (h : Refines B A w v) (t : Tree σ) : A.accepts t = B.accepts t := by
  unfold DFTA.accepts
  rw [h.run]
  cases hr : DFTA.run B t with
  | none => rfl
  | some d =>
    simp only [Option.map_some]
    by_cases hf : d ∈ B.finals
    · simp [hf, h.finUp t d hr hf]
    · simp only [hf, decide_false, decide_eq_false_iff_not]
      intro hq
      obtain ⟨d', hd', cs, hl, e⟩ := h.finDown _ hq
      have hlen := h.len t d hr
      unfold extL at e
      obtain ⟨d1, d2⟩ := d
      obtain ⟨d1', d2'⟩ := d'
      simp only [Prod.mk.injEq] at e
      obtain ⟨e1, e2⟩ := e
      have := List.append_inj e2 (by rw [hlen, hl])
      rw [e1, this.2] at hf
      exact hf hd'

theorem forall₂_mem_right {α β : Type} {R : α → β → Prop} {P : β → Prop} {xs : List α} {ys : List β}
    (h : List.Forall₂ R xs ys) (hp : ∀ x y, R x y → P y) : ∀ y ∈ ys, P y := by
  induction h with
  | nil => intro y hy; cases hy
  | cons h1 _ ih =>
    intro y hy
    rcases List.mem_cons.mp hy with e | e
    · subst e; exact hp _ _ h1
    · exact ih y e

theorem forall₂_map_right_of {α β γ : Type} {R : α → β → Prop} {R' : α → γ → Prop} (f : β → γ)
    {xs : List α} {ys : List β} (h : List.Forall₂ R xs ys) (hp : ∀ x y, R x y → R' x (f y)) :
    List.Forall₂ R' xs (ys.map f) := by
  induction h with
  | nil => exact .nil
  | cons h1 _ ih => exact .cons (hp _ _ h1) ih

/-! ### one step from a read law -/
section step
variable (B A' : DFTA σ (St Q)) (g : σ → List (St Q) → St Q → Nat) (OK : St Q → Prop)

/-- the newest component of the state reached on `t` (0 when the run is undefined) -/
def topVal (A' : DFTA σ (St Q)) (t : Tree σ) : Nat := ((DFTA.run A' t).map lastVal).getD 0

theorem sim_of_read_law
    (hform : ∀ s, OK s → ∃ q v, s = ext q v)
    (hread : ∀ l ss, (∀ s ∈ ss, OK s) → A'.read l ss = (B.read l (ss.map drop1)).map (fun d => ext d (g l ss d)))
    (hok : ∀ l ss d, (∀ s ∈ ss, OK s) → B.read l (ss.map drop1) = some d → OK (ext d (g l ss d))) :
    ∀ t, DFTA.run B t = (DFTA.run A' t).map drop1 ∧ (∀ s, DFTA.run A' t = some s → OK s) := by
  apply run_hom A' B drop1 OK
  · intro l ss q hss hq
    rw [hread l ss hss] at hq
    cases hb : B.read l (ss.map drop1) with
    | none => rw [hb] at hq; cases hq
    | some d =>
      rw [hb] at hq
      simp only [Option.map_some, Option.some.injEq] at hq
      rw [← hq]; exact hok l ss d hss hb
  · intro l ss hss
    rw [hread l ss hss]
    cases B.read l (ss.map drop1) <;> simp

theorem run_of_read_law
    (hform : ∀ s, OK s → ∃ q v, s = ext q v)
    (hread : ∀ l ss, (∀ s ∈ ss, OK s) → A'.read l ss = (B.read l (ss.map drop1)).map (fun d => ext d (g l ss d)))
    (hok : ∀ l ss d, (∀ s ∈ ss, OK s) → B.read l (ss.map drop1) = some d → OK (ext d (g l ss d))) (t : Tree σ) :
    DFTA.run A' t = (DFTA.run B t).map (fun d => extL d [topVal A' t]) := by
  obtain ⟨h1, h2⟩ := sim_of_read_law B A' g OK hform hread hok t
  rw [h1]
  unfold topVal
  cases hr : DFTA.run A' t with
  | none => rfl
  | some s =>
    obtain ⟨q, v, e⟩ := hform s (h2 s hr)
    subst e
    rfl

/-- the children of a defined run and the rule taken at the root -/
theorem root_of_read_law
    (hform : ∀ s, OK s → ∃ q v, s = ext q v)
    (hread : ∀ l ss, (∀ s ∈ ss, OK s) → A'.read l ss = (B.read l (ss.map drop1)).map (fun d => ext d (g l ss d)))
    (hok : ∀ l ss d, (∀ s ∈ ss, OK s) → B.read l (ss.map drop1) = some d → OK (ext d (g l ss d)))
    (l : σ) (ks : List (Tree σ)) (d : St Q) (hd : DFTA.run B (.node l ks) = some d) :
    ∃ ss, runList A' ks = some ss ∧ runList B ks = some (ss.map drop1) ∧ B.read l (ss.map drop1) = some d ∧
      topVal A' (.node l ks) = g l ss d := by
  have hsim := sim_of_read_law B A' g OK hform hread hok
  have hA := run_of_read_law B A' g OK hform hread hok (.node l ks)
  rw [hd] at hA
  rw [run_node] at hA
  cases hss : runList A' ks with
  | none => rw [hss] at hA; cases hA
  | some ss =>
    have hF := (runList_eq_some_iff A' ks ss).mp hss
    have hall : ∀ s ∈ ss, OK s := forall₂_mem_right hF (fun t s h => (hsim t).2 s h)
    have hB : runList B ks = some (ss.map drop1) := by
      rw [runList_eq_some_iff]
      exact forall₂_map_right_of drop1 hF (fun t s h => by rw [(hsim t).1, h]; rfl)
    refine ⟨ss, rfl, hB, ?_, ?_⟩
    · rw [run_node, hB] at hd; exact hd
    · rw [hss] at hA
      simp only [Option.bind_some] at hA
      rw [hread l ss hall] at hA
      have hbd : B.read l (ss.map drop1) = some d := by rw [run_node, hB] at hd; exact hd
      rw [hbd] at hA
      simp only [Option.map_some, Option.some.injEq] at hA
      have := congrArg lastVal hA
      simp only [lastVal_ext] at this
      rw [this]; rfl

end step

/-! ### `__tag__` -/
section tag
variable (B : DFTA σ (St Q)) (check : Check σ Q)

theorem tag_sim (hd : B.Det) :
    (∀ t, DFTA.run (tag B check) t = (DFTA.run B t).map (fun d => extL d [topVal (tag B check) t])) ∧
    (∀ t s, DFTA.run (tag B check) t = some s → TagOK check B s) ∧
    (∀ l ks d, DFTA.run B (.node l ks) = some d → ∃ qs, runList B ks = some qs ∧ B.read l qs = some d ∧
        topVal (tag B check) (.node l ks) = tagBitOf check l qs d) := by
  have hform : ∀ s, TagOK check B s → ∃ q v, s = ext q v := fun s ⟨q, v, e, _⟩ => ⟨q, v, e⟩
  have hread := fun l ss hss => read_tag check B hd l ss hss
  have hok : ∀ (l : σ) (ss : List (St Q)) (d : St Q), (∀ s ∈ ss, TagOK check B s) → B.read l (ss.map drop1) = some d →
      TagOK check B (ext d (tagBitOf check l (ss.map drop1) d)) :=
    fun l ss d _ h => tagBit_ok check B hd l _ d h
  refine ⟨run_of_read_law B _ (fun (l : σ) (ss : List (St Q)) (d : St Q) => tagBitOf check l (ss.map drop1) d) _ hform hread hok, ?_, ?_⟩
  · intro t s hs
    exact (sim_of_read_law B _ (fun (l : σ) (ss : List (St Q)) (d : St Q) => tagBitOf check l (ss.map drop1) d) _ hform hread hok t).2 s hs
  · intro l ks d hd'
    obtain ⟨ss, _, h2, h3, h4⟩ := root_of_read_law B _ (fun (l : σ) (ss : List (St Q)) (d : St Q) => tagBitOf check l (ss.map drop1) d) _ hform hread hok l ks d hd'
    exact ⟨_, h2, h3, h4⟩

theorem tag_refines (hd : B.Det) : Refines B (tag B check) 1 (fun t => [topVal (tag B check) t]) where
  det := tag_det check B
  run := (tag_sim B check hd).1
  len _ _ _ := rfl
  finDown q hq := by
    rcases List.mem_append.mp hq with h | h
    · obtain ⟨d, hd', e⟩ := List.mem_map.mp h
      exact ⟨d, hd', [0], rfl, e.symm⟩
    · obtain ⟨a, ha, e⟩ := List.mem_map.mp h
      obtain ⟨d, hd', e'⟩ := List.mem_map.mp (List.mem_filter.mp ha).1
      subst e'
      exact ⟨d, hd', [1], rfl, e.symm⟩
  finUp t d hr hf := by
    have h1 := (tag_sim B check hd).1 t
    rw [hr] at h1
    obtain ⟨q, v, e, hv⟩ := (tag_sim B check hd).2.1 t _ h1
    simp only [Option.map_some] at h1
    have e' : extL d [topVal (tag B check) t] = ext q v := e
    obtain ⟨e1, e2⟩ := ext_inj (e'.symm.trans (ext_eq_extL d _).symm)
    subst e1
    show extL q [topVal (tag B check) t] ∈ (augment B).finals ++ _
    rw [← e2]
    rcases hv with h | ⟨h, ha⟩
    · subst h
      exact List.mem_append_left _ (List.mem_map.mpr ⟨q, hf, rfl⟩)
    · subst h
      refine List.mem_append_right _ (List.mem_map.mpr ⟨aug q, List.mem_filter.mpr ⟨List.mem_map.mpr ⟨q, hf, rfl⟩, ?_⟩, rfl⟩)
      simpa using ha
  finNe h := by
    intro e
    have : (augment B).finals = [] := (List.append_eq_nil_iff.mp e).1
    exact h (List.map_eq_nil_iff.mp this)

end tag

/-! ### `__count__` -/
section count
variable (B : DFTA σ (St Q)) (n : Nat) (S : List σ) (most : Bool)

theorem count_sim (hd : B.Det) :
    (∀ t, DFTA.run (count B n S most) t = (DFTA.run B t).map (fun d => extL d [topVal (count B n S most) t])) ∧
    (∀ t s, DFTA.run (count B n S most) t = some s → CountOK (Q := Q) (cmaxi n most) s) ∧
    (∀ l ks d, DFTA.run B (.node l ks) = some d → ∃ ss, runList (count B n S most) ks = some ss ∧
        topVal (count B n S most) (.node l ks) = countVal (cmaxi n most) S l ss) := by
  have hform : ∀ s, CountOK (Q := Q) (cmaxi n most) s → ∃ q v, s = ext q v := fun s ⟨q, v, e, _⟩ => ⟨q, v, e⟩
  have hread := fun l ss hss => read_count B n S most hd l ss hss
  have hok : ∀ (l : σ) (ss : List (St Q)) (d : St Q), (∀ s ∈ ss, CountOK (Q := Q) (cmaxi n most) s) → B.read l (ss.map drop1) = some d →
      CountOK (Q := Q) (cmaxi n most) (ext d (countVal (cmaxi n most) S l ss)) :=
    fun l ss d _ _ => countVal_ok n S most l ss d
  refine ⟨run_of_read_law B _ (fun (l : σ) (ss : List (St Q)) (_ : St Q) => countVal (cmaxi n most) S l ss) _ hform hread hok, ?_, ?_⟩
  · intro t s hs
    exact (sim_of_read_law B _ (fun (l : σ) (ss : List (St Q)) (_ : St Q) => countVal (cmaxi n most) S l ss) _ hform hread hok t).2 s hs
  · intro l ks d hd'
    obtain ⟨ss, h1, _, _, h4⟩ := root_of_read_law B _ (fun (l : σ) (ss : List (St Q)) (_ : St Q) => countVal (cmaxi n most) S l ss) _ hform hread hok l ks d hd'
    exact ⟨ss, h1, h4⟩

theorem count_refines (hd : B.Det) :
    Refines B (count B n S most) 1 (fun t => [topVal (count B n S most) t]) where
  det := count_det B n S most
  run := (count_sim B n S most hd).1
  len _ _ _ := rfl
  finDown q hq := by
    rcases List.mem_append.mp hq with h | h
    · obtain ⟨d, hd', e⟩ := List.mem_map.mp h
      exact ⟨d, hd', [0], rfl, e.symm⟩
    · obtain ⟨a, ha, hq'⟩ := List.mem_flatMap.mp h
      obtain ⟨d, hd', e'⟩ := List.mem_map.mp ha
      subst e'
      obtain ⟨v, _, e⟩ := (mem_alternatives _ d q).mp hq'
      exact ⟨d, hd', [v], rfl, e⟩
  finUp t d hr hf := by
    have h1 := (count_sim B n S most hd).1 t
    rw [hr] at h1
    obtain ⟨q, v, e, hv⟩ := (count_sim B n S most hd).2.1 t _ h1
    simp only [Option.map_some] at h1
    have e' : extL d [topVal (count B n S most) t] = ext q v := e
    obtain ⟨e1, e2⟩ := ext_inj (e'.symm.trans (ext_eq_extL d _).symm)
    subst e1
    show extL q [topVal (count B n S most) t] ∈ (augment B).finals ++ _
    rw [← e2]
    refine List.mem_append_right _ (List.mem_flatMap.mpr ⟨aug q, List.mem_map.mpr ⟨q, hf, rfl⟩, ?_⟩)
    exact (mem_alternatives _ q _).mpr ⟨v, hv, rfl⟩
  finNe h := by
    intro e
    have : (augment B).finals = [] := (List.append_eq_nil_iff.mp e).1
    exact h (List.map_eq_nil_iff.mp this)

end count

end PS.C05
