/-
  Lemmas for C01: the worklist construction of `CFG.depth_constraint` (PS/Model/Cfg.lean:
  `closure`, `buildTable`).

  * `ruleSet_args`        the argument list of a created rule is a function of its symbol;
  * `closure_inv`         worklist invariant: when the loop ends every non-terminal ever pushed
                          carries exactly `rulesDict (ruleSet …)` and the set of non-terminals is
                          closed under "argument of a rule of a member";
  * `closure_gen`         hence the uncleaned table generates, from each of its non-terminals,
                          exactly what rule creation (`genR`) generates;
  * `closure_terminates`  fuel adequacy: the loop ends within `buildFuel P` iterations.
-/
import PS.Proofs.CfgClean
namespace PS.G
open PS

/-! ### dict insertion -/

theorem keys_insert {κ ν : Type} [DecidableEq κ] (k : κ) (v : ν) (d : AList κ ν) :
    AList.keys (AList.insert k v d) =
      if AList.contains k d = true then AList.keys d else AList.keys d ++ [k] := by
  induction d with
  | nil => simp [AList.insert, AList.keys, AList.contains]
  | cons p d ih =>
    obtain ⟨k', v'⟩ := p
    by_cases hk : k' = k
    · subst hk; simp [AList.insert, AList.keys, AList.contains, AList.lookup]
    · have hc : AList.contains k ((k', v') :: d) = AList.contains k d := by
        simp [AList.contains, AList.lookup, hk]
      rw [hc]
      simp only [AList.insert, hk, if_false, AList.keys, List.map_cons] at ih ⊢
      rw [ih]
      split <;> simp

theorem nodup_insert {κ ν : Type} [DecidableEq κ] (k : κ) (v : ν) (d : AList κ ν)
    (h : (AList.keys d).Nodup) : (AList.keys (AList.insert k v d)).Nodup := by
  rw [keys_insert]
  by_cases hc : AList.contains k d = true
  · simp only [hc, if_true]; exact h
  · simp only [hc, Bool.false_eq_true, if_false]
    rw [List.nodup_append]
    refine ⟨h, by simp, ?_⟩
    intro a ha b hb hab
    rw [List.mem_singleton] at hb
    subst hb; subst hab
    exact hc (mem_keys_iff_contains.mp ha)

theorem insert_of_not_contains {κ ν : Type} [DecidableEq κ] (k : κ) (v : ν) (d : AList κ ν)
    (h : ¬ AList.contains k d = true) : AList.insert k v d = d ++ [(k, v)] := by
  induction d with
  | nil => rfl
  | cons p d ih =>
    obtain ⟨k', v'⟩ := p
    by_cases hk : k' = k
    · subst hk; simp [AList.contains, AList.lookup] at h
    · have hc : AList.contains k ((k', v') :: d) = AList.contains k d := by
        simp [AList.contains, AList.lookup, hk]
      rw [hc] at h
      simp [AList.insert, hk, ih h]

/-! ### `rulesDict` -/

theorem foldl_insert_nodup (rs : List Rule) :
    ∀ (d : Row), (AList.keys d).Nodup →
      (AList.keys (rs.foldl (fun d r => AList.insert r.1 (r.2, ()) d) d)).Nodup := by
  induction rs with
  | nil => intro d h; exact h
  | cons r rs ih => intro d h; exact ih _ (nodup_insert _ _ d h)

theorem rulesDict_nodup (rs : List Rule) : (AList.keys (rulesDict rs)).Nodup :=
  foldl_insert_nodup rs [] List.nodup_nil

theorem foldl_insert_lookup (rs : List Rule) (f : Sym) :
    ∀ (d : Row) (v : List (Ty × CFGState) × Unit),
      AList.lookup f (rs.foldl (fun d r => AList.insert r.1 (r.2, ()) d) d) = some v →
      (∃ r ∈ rs, r.1 = f ∧ v = (r.2, ())) ∨ AList.lookup f d = some v := by
  induction rs with
  | nil => intro d v h; exact Or.inr h
  | cons r rs ih =>
    intro d v h
    rcases ih _ v h with ⟨r', hr', h1, h2⟩ | h'
    · exact Or.inl ⟨r', List.mem_cons_of_mem _ hr', h1, h2⟩
    · rw [AList.lookup_insert] at h'
      by_cases hf : f = r.1
      · simp only [hf, if_true, Option.some.injEq] at h'
        exact Or.inl ⟨r, by simp, hf.symm, h'.symm⟩
      · simp only [hf, if_false] at h'
        exact Or.inr h'

theorem foldl_insert_isSome (rs : List Rule) (f : Sym) :
    ∀ (d : Row), ((AList.lookup f d).isSome = true ∨ ∃ r ∈ rs, r.1 = f) →
      (AList.lookup f (rs.foldl (fun d r => AList.insert r.1 (r.2, ()) d) d)).isSome = true := by
  induction rs with
  | nil =>
    intro d h
    rcases h with h | ⟨r, hr, _⟩
    · exact h
    · cases hr
  | cons r rs ih =>
    intro d h
    apply ih
    rw [AList.lookup_insert]
    by_cases hf : f = r.1
    · left; simp [hf]
    · simp only [hf, if_false]
      rcases h with h | ⟨r', hr', h1⟩
      · exact Or.inl h
      · rcases List.mem_cons.mp hr' with rfl | hr'
        · exact absurd h1.symm hf
        · exact Or.inr ⟨r', hr', h1⟩

/-- a looked-up rule is a created rule -/
theorem rulesDict_lookup_mem (rs : List Rule) (f : Sym) (v : List (Ty × CFGState) × Unit)
    (h : AList.lookup f (rulesDict rs) = some v) : (f, v.1) ∈ rs := by
  rcases foldl_insert_lookup rs f [] v h with ⟨r, hr, h1, h2⟩ | h'
  · subst h1; subst h2; exact hr
  · simp at h'

/-- a created rule can be looked up, when the argument list is a function of the symbol -/
theorem rulesDict_lookup_of_mem (rs : List Rule)
    (hfun : ∀ r ∈ rs, ∀ r' ∈ rs, r.1 = r'.1 → r.2 = r'.2) (r : Rule) (hr : r ∈ rs) :
    AList.lookup r.1 (rulesDict rs) = some (r.2, ()) := by
  have h := foldl_insert_isSome rs r.1 [] (Or.inr ⟨r, hr, rfl⟩)
  cases hl : AList.lookup r.1 (rs.foldl (fun d r => AList.insert r.1 (r.2, ()) d) []) with
  | none => rw [hl] at h; cases h
  | some v =>
    have hm := rulesDict_lookup_mem rs r.1 v hl
    have := hfun _ hm r hr rfl
    simp only at this
    unfold rulesDict
    rw [hl]
    obtain ⟨v1, v2⟩ := v
    simp only at this
    rw [this]

/-! ### the argument list of a created rule is determined by its symbol -/

theorem endsWith_self (t : Ty) : Ty.endsWith t t = some [] := by
  unfold Ty.endsWith
  cases t <;> simp [Ty.endsWithRec]

theorem leafSyms_ty (P : Params) (forb : List String) (d : Nat) (ty : Ty) (s : Sym)
    (h : s ∈ leafSyms P forb d ty) : s.ty = ty := by
  unfold leafSyms at h
  rcases List.mem_append.mp h with h | h
  · split at h
    · rcases List.mem_append.mp h with h | h
      · obtain ⟨iv, _, hiv⟩ := List.mem_filterMap.mp h
        split at hiv
        · cases hiv; rfl
        · cases hiv
      · split at h
        · rw [List.mem_singleton] at h; subst h; rfl
        · cases h
    · cases h
  · have := (List.mem_filter.mp h).2
    simp only [Bool.and_eq_true, beq_iff_eq] at this
    exact this.2

theorem appHeads_ty (P : Params) (forb : List String) (d : Nat) (ty : Ty) (h : Sym × List Ty)
    (hm : h ∈ appHeads P forb d ty) : h.1.ty.endsWith ty = some h.2 := by
  unfold appHeads at hm
  rcases List.mem_append.mp hm with hm | hm
  · rcases List.mem_append.mp hm with hm | hm
    · obtain ⟨p, _, hp⟩ := List.mem_filterMap.mp hm
      split at hp
      · cases hp
      · split at hp
        · rename_i tys heq
          cases hp; exact heq
        · cases hp
    · split at hm
      · obtain ⟨iv, _, hiv⟩ := List.mem_filterMap.mp hm
        split at hiv
        · rename_i tys heq
          split at hiv
          · cases hiv; exact heq
          · cases hiv
        · cases hiv
      · cases hm
  · split at hm
    · split at hm
      · rename_i tys heq
        rw [List.mem_singleton] at hm; subst hm; exact heq
      · cases hm
    · cases hm

/-- the arguments that a rule for symbol `f` of non-terminal `nt` can only have -/
def argsOf (P : Params) (nt : CNT) (f : Sym) : List (Ty × CFGState) :=
  childNTs P nt.2.1.1 nt.2.1.2 f ((f.ty.endsWith nt.1).getD [])

theorem ruleSet_args (P : Params) (nt : CNT) (r : Rule) (h : r ∈ ruleSet P nt) :
    r.2 = argsOf P nt r.1 := by
  unfold ruleSet at h
  simp only at h
  split at h
  · rcases List.mem_append.mp h with h | h
    · obtain ⟨s, hs, rfl⟩ := List.mem_map.mp h
      have := leafSyms_ty P _ _ _ s hs
      simp only [argsOf, this, endsWith_self]
      rfl
    · split at h
      · obtain ⟨hd, hhd, rfl⟩ := List.mem_map.mp h
        have := appHeads_ty P _ _ _ hd hhd
        simp only [argsOf, this]
        rfl
      · cases h
  · cases h

theorem ruleSet_functional (P : Params) (nt : CNT) :
    ∀ r ∈ ruleSet P nt, ∀ r' ∈ ruleSet P nt, r.1 = r'.1 → r.2 = r'.2 := by
  intro r hr r' hr' h
  rw [ruleSet_args P nt r hr, ruleSet_args P nt r' hr', h]

/-- the argument non-terminals of a created rule are one level deeper -/
theorem ruleSet_depth (P : Params) (nt : CNT) (r : Rule) (h : r ∈ ruleSet P nt)
    (a : Ty × CFGState) (ha : a ∈ r.2) : a.2.2 = nt.2.1.2 + 1 := by
  rw [ruleSet_args P nt r h] at ha
  unfold argsOf childNTs at ha
  obtain ⟨x, _, rfl⟩ := List.mem_map.mp ha
  rfl

/-- rule creation gives nothing at or below the depth bound -/
theorem ruleSet_nil (P : Params) (nt : CNT) (h : P.maxDepth ≤ nt.2.1.2) : ruleSet P nt = [] := by
  unfold ruleSet
  simp only
  rw [if_neg (by omega)]

/-! ### the worklist loop -/

/-- the non-terminals pushed when `nt` is treated -/
def kidsR (P : Params) (nt : CNT) : List CNT := (ruleSet P nt).flatMap (fun r => r.2.map toNT)

theorem mem_kidsR (P : Params) (nt k : CNT) :
    k ∈ kidsR P nt ↔ ∃ r ∈ ruleSet P nt, ∃ a ∈ r.2, toNT a = k := by
  simp [kidsR, List.mem_flatMap]

/-- worklist invariant -/
structure CInv (P : Params) (tbl : Table) (todo : List CNT) : Prop where
  nodup : (AList.keys tbl).Nodup
  rows : ∀ e ∈ tbl, e.2 = rulesDict (ruleSet P e.1)
  closed : ∀ e ∈ tbl, ∀ k ∈ kidsR P e.1, k ∈ AList.keys tbl ∨ k ∈ todo
  start : startNT P ∈ AList.keys tbl ∨ startNT P ∈ todo

theorem cinv_init (P : Params) : CInv P [] [startNT P] :=
  ⟨List.nodup_nil, fun _ h => (by cases h), fun _ h => (by cases h), Or.inr (by simp)⟩

/-- **worklist invariant**: when the loop ends, every non-terminal of the table carries exactly
    the created rules, and the non-terminals are closed under "argument of a rule of a member" -/
theorem closure_inv (P : Params) :
    ∀ (fuel : Nat) (todo : List CNT) (tbl T : Table), CInv P tbl todo →
      closure P fuel todo tbl = some T → CInv P T [] := by
  intro fuel
  induction fuel with
  | zero =>
    intro todo tbl T h hc
    cases todo with
    | nil => simp only [closure, Option.some.injEq] at hc; subst hc; exact h
    | cons nt todo => simp [closure] at hc
  | succ fuel ih =>
    intro todo tbl T h hc
    cases todo with
    | nil => simp only [closure, Option.some.injEq] at hc; subst hc; exact h
    | cons nt todo =>
      rw [closure] at hc
      by_cases hk : AList.contains nt tbl = true
      · simp only [hk, if_true] at hc
        refine ih todo tbl T ⟨h.nodup, h.rows, ?_, ?_⟩ hc
        · intro e he k hkk
          rcases h.closed e he k hkk with h1 | h1
          · exact Or.inl h1
          · rcases List.mem_cons.mp h1 with rfl | h1
            · exact Or.inl (mem_keys_iff_contains.mpr hk)
            · exact Or.inr h1
        · rcases h.start with h1 | h1
          · exact Or.inl h1
          · rcases List.mem_cons.mp h1 with h1 | h1
            · rw [h1]; exact Or.inl (mem_keys_iff_contains.mpr hk)
            · exact Or.inr h1
      · simp only [hk, Bool.false_eq_true, if_false] at hc
        refine ih _ _ T ?_ hc
        have hins := insert_of_not_contains nt (rulesDict (ruleSet P nt)) tbl hk
        have hkeys : AList.keys (AList.insert nt (rulesDict (ruleSet P nt)) tbl) = AList.keys tbl ++ [nt] := by
          rw [keys_insert]; simp only [hk, Bool.false_eq_true, if_false]
        refine ⟨nodup_insert _ _ _ h.nodup, ?_, ?_, ?_⟩
        · intro e he
          rw [hins] at he
          rcases List.mem_append.mp he with he | he
          · exact h.rows e he
          · rw [List.mem_singleton] at he; subst he; rfl
        · intro e he k hkk
          rw [hkeys]
          rw [hins] at he
          rcases List.mem_append.mp he with he | he
          · rcases h.closed e he k hkk with h1 | h1
            · exact Or.inl (List.mem_append_left _ h1)
            · rcases List.mem_cons.mp h1 with rfl | h1
              · exact Or.inl (List.mem_append_right _ (by simp))
              · exact Or.inr (List.mem_append_left _ h1)
          · rw [List.mem_singleton] at he; subst he
            exact Or.inr (List.mem_append_right _ hkk)
        · rw [hkeys]
          rcases h.start with h1 | h1
          · exact Or.inl (List.mem_append_left _ h1)
          · rcases List.mem_cons.mp h1 with h1 | h1
            · rw [h1]; exact Or.inl (List.mem_append_right _ (by simp))
            · exact Or.inr (List.mem_append_left _ h1)

theorem cinv_wf (P : Params) (T : Table) (todo : List CNT) (h : CInv P T todo) : TableWF T :=
  ⟨h.nodup, fun e he => by rw [h.rows e he]; exact rulesDict_nodup _⟩

theorem cinv_lookup (P : Params) (T : Table) (todo : List CNT) (h : CInv P T todo) (nt : CNT)
    (hk : nt ∈ AList.keys T) : AList.lookup nt T = some (rulesDict (ruleSet P nt)) := by
  obtain ⟨e, he, rfl⟩ := List.mem_map.mp hk
  rw [lookup_of_mem h.nodup he, h.rows e he]

/-- **the uncleaned table generates from each of its non-terminals exactly what rule creation
    generates** -/
theorem closure_gen (P : Params) (s : CNT) (T : Table) (h : CInv P T []) :
    ∀ (n : Nat) (t : Prog), t.size ≤ n → ∀ nt, AList.contains nt T = true →
      gen (⟨s, T⟩ : CFG) t nt = genR P t nt := by
  intro n
  induction n with
  | zero =>
    intro t ht
    cases t with | node f kids => simp [Tree.size] at ht
  | succ n ih =>
    intro t ht nt hkey
    cases t with
    | node f kids =>
      have hkids : ∀ k ∈ kids, ∀ nt', AList.contains nt' (⟨s, T⟩ : CFG).rules = true →
          gen (⟨s, T⟩ : CFG) k nt' = genR P k nt' := by
        intro k hk nt' hkey'
        have := Tree.size_lt_of_mem_kids (l := f) hk
        exact ih k (by omega) nt' hkey'
      have hnt : nt ∈ AList.keys T := mem_keys_iff_contains.mpr hkey
      have hlk := cinv_lookup P T [] h nt hnt
      obtain ⟨e, he, rfl⟩ := List.mem_map.mp hnt
      have hargs : ∀ r ∈ ruleSet P e.1, ∀ a ∈ r.2, isKey (⟨s, T⟩ : CFG) a = true := by
        intro r hr a ha
        rcases h.closed e he (toNT a) ((mem_kidsR P e.1 _).mpr ⟨r, hr, a, ha, rfl⟩) with h1 | h1
        · exact mem_keys_iff_contains.mp h1
        · cases h1
      rw [Bool.eq_iff_iff, gen_iff, genR_iff]
      constructor
      · rintro ⟨rs, args, h1, h2, h3⟩
        change AList.lookup e.1 T = some rs at h1
        rw [hlk] at h1
        cases h1
        have hm := rulesDict_lookup_mem _ f _ h2
        refine ⟨(f, args), hm, rfl, ?_⟩
        rw [← genList_eq_genRList P ⟨s, T⟩ kids hkids args (hargs _ hm)]
        exact h3
      · rintro ⟨r, hr, rfl, h3⟩
        refine ⟨_, r.2, hlk, rulesDict_lookup_of_mem _ (ruleSet_functional P e.1) r hr, ?_⟩
        rw [genList_eq_genRList P ⟨s, T⟩ kids hkids r.2 (hargs _ hr)]
        exact h3

/-! ### fuel adequacy -/

/-- number of loop iterations caused by a non-terminal that sits `k` levels above the bound -/
def costK (P : Params) : Nat → CNT → Nat
  | 0, _ => 1
  | k + 1, nt => 1 + ((kidsR P nt).map (costK P k)).sum

/-- number of loop iterations caused by pushing `nt` -/
def cost (P : Params) (nt : CNT) : Nat := costK P (P.maxDepth - nt.2.1.2) nt

/-- a sufficient fuel for `buildTable` -/
def buildFuel (P : Params) : Nat := cost P (startNT P)

theorem kidsR_depth (P : Params) (nt k : CNT) (h : k ∈ kidsR P nt) : k.2.1.2 = nt.2.1.2 + 1 := by
  obtain ⟨r, hr, a, ha, rfl⟩ := (mem_kidsR P nt k).mp h
  exact ruleSet_depth P nt r hr a ha

theorem cost_eq (P : Params) (nt : CNT) : cost P nt = 1 + ((kidsR P nt).map (cost P)).sum := by
  unfold cost
  cases hk : P.maxDepth - nt.2.1.2 with
  | zero =>
    have : kidsR P nt = [] := by
      unfold kidsR; rw [ruleSet_nil P nt (by omega)]; rfl
    simp [costK, this]
  | succ k =>
    rw [costK]
    congr 2
    apply List.map_congr_left
    intro c hc
    have := kidsR_depth P nt c hc
    have hk' : P.maxDepth - c.2.1.2 = k := by omega
    rw [hk']

theorem cost_pos (P : Params) (nt : CNT) : 1 ≤ cost P nt := by
  rw [cost_eq]; omega

/-- **fuel adequacy**: the worklist loop ends within the sum of the costs of the pending
    non-terminals, whatever the table built so far -/
theorem closure_terminates (P : Params) :
    ∀ (fuel : Nat) (todo : List CNT) (tbl : Table), (todo.map (cost P)).sum ≤ fuel →
      (closure P fuel todo tbl).isSome = true := by
  intro fuel
  induction fuel with
  | zero =>
    intro todo tbl h
    cases todo with
    | nil => simp [closure]
    | cons nt todo =>
      have := cost_pos P nt
      simp only [List.map_cons, List.sum_cons] at h
      omega
  | succ fuel ih =>
    intro todo tbl h
    cases todo with
    | nil => simp [closure]
    | cons nt todo =>
      rw [closure]
      simp only [List.map_cons, List.sum_cons] at h
      have hpos := cost_pos P nt
      by_cases hk : AList.contains nt tbl = true
      · simp only [hk, if_true]
        exact ih todo tbl (by omega)
      · simp only [hk, Bool.false_eq_true, if_false]
        apply ih
        have hc := cost_eq P nt
        change (List.map (cost P) (todo ++ kidsR P nt)).sum ≤ fuel
        rw [List.map_append, List.sum_append]
        omega

/-- a terminated loop gives the same table with any larger fuel -/
theorem closure_mono (P : Params) :
    ∀ (fuel : Nat) (todo : List CNT) (tbl T : Table), closure P fuel todo tbl = some T →
      closure P (fuel + 1) todo tbl = some T := by
  intro fuel
  induction fuel with
  | zero =>
    intro todo tbl T h
    cases todo with
    | nil => simpa [closure] using h
    | cons nt todo => simp [closure] at h
  | succ fuel ih =>
    intro todo tbl T h
    cases todo with
    | nil => simpa [closure] using h
    | cons nt todo =>
      rw [closure] at h ⊢
      by_cases hk : AList.contains nt tbl = true
      · simp only [hk, if_true] at h ⊢
        exact ih _ _ _ h
      · simp only [hk, Bool.false_eq_true, if_false] at h ⊢
        exact ih _ _ _ h

/-! ### `buildTable` = worklist loop then `clean` -/

/-- the two ways `buildTable` can return -/
theorem buildTable_some (P : Params) (fuel : Nat) (G : CFG) (h : buildTable P fuel = some G) :
    ∃ tbl, closure P fuel [startNT P] [] = some tbl ∧ CInv P tbl [] ∧ G.start = startNT P ∧
      CleanSpec (startNT P) tbl G.rules := by
  unfold buildTable at h
  cases hc : closure P fuel [startNT P] [] with
  | none => simp [hc] at h
  | some tbl =>
    have hinv := closure_inv P fuel _ _ tbl (cinv_init P) hc
    simp only [hc] at h
    cases hr : removeNonReachable (startNT P) (removeNonProductive tbl) with
    | none => simp [hr] at h
    | some T' =>
      simp only [hr, Option.some.injEq] at h
      subst h
      exact ⟨tbl, rfl, hinv, rfl, clean_some (startNT P) tbl T' (cinv_wf P tbl [] hinv) hr⟩

theorem buildTable_none (P : Params) (fuel : Nat) (h : buildTable P fuel = none) :
    closure P fuel [startNT P] [] = none ∨
    ∃ tbl, closure P fuel [startNT P] [] = some tbl ∧ CInv P tbl [] ∧
      removeNonReachable (startNT P) (removeNonProductive tbl) = none := by
  unfold buildTable at h
  cases hc : closure P fuel [startNT P] [] with
  | none => exact Or.inl rfl
  | some tbl =>
    right
    have hinv := closure_inv P fuel _ _ tbl (cinv_init P) hc
    simp only [hc] at h
    cases hr : removeNonReachable (startNT P) (removeNonProductive tbl) with
    | none => exact ⟨tbl, rfl, hinv, hr⟩
    | some T' => simp [hr] at h

theorem start_key_of_cinv (P : Params) (tbl : Table) (h : CInv P tbl []) :
    AList.contains (startNT P) tbl = true := by
  rcases h.start with h1 | h1
  · exact mem_keys_iff_contains.mp h1
  · cases h1

/-- for the literal examples: an option known to be `some` is `some` of its `getD` -/
theorem eq_some_getD {α : Type} (o : Option α) (d : α) (h : o.isSome = true) : o = some (o.getD d) := by
  cases o with
  | none => cases h
  | some x => rfl

end PS.G
